/-
C15, URL validators: `URLValidator`, `HTTPURLValidator`, `URLCanonicalizer` decide the predicate
their docstrings state over the parsed parts (`Flatland/Spec/C15.lean`), for every parse record,
every `urlparse`/`urlunparse` table and every parameterisation.

* `decides_urlValidator`, `decides_urlCanonicalizer` — full.
* `decides_httpURL_partial` — everything except an element without a value on which a required
  part is asked for (KF-C15-a: the code says True; `http_no_value_accepted` is the witness and
  `C15_HttpFull_fails` the refutation of the full statement).
* `http_rule_honoured_partial` / `http_rule_honoured` — a rule is honoured when its part name is in
  `all_parts`; the default `all_parts` (regenerated from the source) is the ten documented names
  (`default_all_parts_is_vocabulary`; KF-C15-b, `netloc` missing, is repaired in /repo).
* which message key is noted in which situation (`urlValidator_key`, `httpURL_key`).
* `canonicalizer_value`, `canonicalizer_failure_keeps_value`, `canonicalizer_idempotent_partial`,
  `canonicalizer_faithful_partial`, `canonicalizer_not_idempotent`, `canonicalizer_changes_host`,
  `canonical_has_no_fragment`.
-/
import Flatland.C15
import Flatland.Spec.C15
namespace Flatland.C15.Proofs
open Flatland.C16 Flatland.C15 Flatland.C15.Spec

/-- what is promised for one validator on one view: it returns the verdict `d` (no exception)
    and makes a `note_error` call exactly when `d` is false -/
def Decides (v : V) (e : View) (d : Bool) : Prop :=
  ∃ note, verdict v e = .ok (d, note) ∧ (d = true ↔ note = none)

theorem decides_pass (v e) (h : verdict v e = pass) : Decides v e true :=
  ⟨none, h, by simp⟩
theorem decides_fail (v e k i) (h : verdict v e = fail k i) : Decides v e false :=
  ⟨some ⟨k, i⟩, h, by simp⟩

/-! ### URLValidator -/

/-- the part loop passes iff every non-empty part is allowed; otherwise `blocked_part` -/
theorem urlPartsLoop_eq (allowed : List Str) (u : Six) (parts : List UrlPart) :
    urlPartsLoop allowed u parts =
      if parts.all (fun part => u.get part == [] || allowed.contains part.name) then pass
      else fail "blocked_part" := by
  induction parts with
  | nil => simp [urlPartsLoop]
  | cons part rest ih =>
    simp only [urlPartsLoop, List.all_cons]
    rw [ih]
    by_cases hA : part.name ∈ allowed <;> by_cases hB : u.get part = [] <;> simp [hA, hB]

/-- **which message**: `urlValidate` is a three-way decision — unparseable: `bad_format`; scheme
    missing or not allowed: `blocked_scheme`; otherwise a non-empty part outside `allowed_parts`:
    `blocked_part`; otherwise True -/
theorem urlValidate_eq (schemes allowed : List Str) (lib : UrlLib) (value : Str) :
    urlValidate schemes allowed lib value =
      match lib.urlparse (pyStrip value) with
      | .missing => .error .unsupported
      | .raises _ => fail "bad_format"
      | .ok p =>
        if !(p.six.scheme != [] && (schemes == [['*']] || schemes.contains p.six.scheme)) then
          fail "blocked_scheme"
        else if !(UrlPart.all.all
            (fun part => p.six.get part == [] || allowed.contains part.name)) then
          fail "blocked_part"
        else pass := by
  unfold urlValidate
  cases lib.urlparse (pyStrip value) with
  | missing => rfl
  | raises r => rfl
  | ok p =>
    simp only [urlPartsLoop_eq]
    cases h1 : (p.six.scheme == []) <;> cases h2 : (schemes == [['*']]) <;>
      cases h3 : schemes.contains p.six.scheme <;>
      cases h4 : (UrlPart.all.all (fun part => p.six.get part == [] || allowed.contains part.name)) <;>
      simp_all [bne]

/-- the docstring's scheme test is the code's, outside the class of KF-C15-g -/
theorem schemeAllowed_eq_code (s : List Str) (sch : Str)
    (h : (sch == [] && s != [['*']] && s.contains []) = false) :
    schemeAllowed s sch = (sch != [] && (s == [['*']] || s.contains sch)) := by
  unfold schemeAllowed
  by_cases h1 : s = [['*']]
  · simp [h1]
  · by_cases h2 : sch = []
    · subst h2
      have h1' : (s != [['*']]) = true := by simpa using h1
      simp only [h1', BEq.rfl, Bool.true_and] at h
      have h3 : ([] : Str) ∉ s := by simpa using h
      simp [h1, h3]
    · have h2' : (sch != []) = true := by simpa using h2
      have h1' : (s == [['*']]) = false := by simpa using h1
      simp [h1, h2', h1']

/-- the code blocks every URL without a scheme -/
theorem urlValidate_no_scheme (schemes allowed : List Str) (lib : UrlLib) (value : Str) (q : Parsed)
    (hp : lib.urlparse (pyStrip value) = .ok q) (hs : q.six.scheme = []) :
    urlValidate schemes allowed lib value = fail "blocked_scheme" := by
  simp [urlValidate, hp, hs]

/-- **URLValidator decides its docstring's predicate** — outside the class of KF-C15-g (`excluded`:
    no scheme, `''` listed in `allowed_schemes`, promised True) -/
theorem decides_urlValidator_partial (s p : List Str) (e : View) (d : Bool)
    (hd : documented (.urlValidator s p) e = some d)
    (hk : excluded (.urlValidator s p) e d = false) : Decides (.urlValidator s p) e d := by
  simp only [documented] at hd
  cases hv : e.value with
  | none =>
    rw [hv] at hd; cases hd
    exact decides_fail _ _ "bad_format" [] (by simp [verdict, hv])
  | str value =>
    rw [hv] at hd
    simp only [urlDocumented] at hd
    have hval : verdict (.urlValidator s p) e = urlValidate s p e.lib value := by
      simp [verdict, hv]
    cases hp : e.lib.urlparse (pyStrip value) with
    | missing => rw [hp] at hd; cases hd
    | raises r =>
      rw [urlValidate_eq] at hval
      rw [hp] at hd hval; cases hd
      exact decides_fail _ _ "bad_format" [] hval
    | ok q =>
      rw [hp] at hd
      simp only [Option.some.injEq] at hd
      simp only [excluded, hv, hp, emptySchemeListed] at hk
      cases hq : (q.six.scheme == [] && s != [['*']] && s.contains []) with
      | true =>
        -- in the class: then the promise is False, and the code says False (no scheme)
        rw [hq] at hk
        have hdf : d = false := by cases d <;> simp_all
        subst hdf
        have hs : q.six.scheme = [] := by
          simp only [Bool.and_eq_true, beq_iff_eq] at hq
          exact hq.1.1
        rw [urlValidate_no_scheme s p e.lib value q hp hs] at hval
        exact decides_fail _ _ "blocked_scheme" [] hval
      | false =>
        rw [urlValidate_eq] at hval
        rw [hp] at hval
        rw [schemeAllowed_eq_code s q.six.scheme hq] at hd
        subst hd
        simp only at hval
        cases h1 : (q.six.scheme != [] && (s == [['*']] || s.contains q.six.scheme)) with
        | false =>
          rw [h1] at hval
          simp only [Bool.not_false, if_true] at hval
          simpa using decides_fail _ _ "blocked_scheme" [] hval
        | true =>
          rw [h1] at hval
          simp only [Bool.not_true, Bool.false_eq_true, if_false] at hval
          cases h2 : (UrlPart.all.all (fun part => q.six.get part == [] || p.contains part.name)) with
          | false =>
            rw [h2] at hval
            simp only [Bool.not_false, if_true] at hval
            simpa using decides_fail _ _ "blocked_part" [] hval
          | true =>
            rw [h2] at hval
            simp only [Bool.not_true, Bool.false_eq_true, if_false] at hval
            simpa using decides_pass _ _ hval
  | int i => rw [hv] at hd; cases hd
  | bool b => rw [hv] at hd; cases hd
  | elem u => rw [hv] at hd; cases hd
  | method o n => rw [hv] at hd; cases hd

/-- the full statement for URLValidator: no side condition -/
def C15_UrlFull : Prop :=
  ∀ s p (e : View) (d : Bool),
    documented (.urlValidator s p) e = some d → Decides (.urlValidator s p) e d

/-- **KF-C15-g, witness**: `URLValidator(allowed_schemes=('', 'http'))` on `'//h/p'` — the URL's
    (empty) scheme IS present in `allowed_schemes`, every part is allowed: the docstring's
    predicate holds, the validator says False (`blocked_scheme`) -/
theorem C15_empty_scheme_always_blocked :
    let lib : UrlLib := { parse := [("//h/p".toList,
      .inr { six := { netloc := "h".toList, path := "/p".toList }, hostname := .str "h".toList })] }
    let e : View := { value := .str "//h/p".toList, lib := lib }
    let v := V.urlValidator [[], "http".toList] (UrlPart.all.map UrlPart.name)
    documented v e = some true ∧ excluded v e true = true ∧
    (verdict v e).toOption.map (fun r => (r.1, r.2.map (·.key))) = some (false, some "blocked_scheme") := by
  decide

theorem C15_UrlFull_fails : ¬ C15_UrlFull := by
  intro h
  obtain ⟨note, hv, _⟩ := h _ _ _ true C15_empty_scheme_always_blocked.1
  have := C15_empty_scheme_always_blocked.2.2
  rw [hv] at this
  simp [Except.toOption] at this

/-- `('*', 'x')` is a restriction to the names `*` and `x` (the docstring's wildcard is exactly
    `('*',)`): `http://h/` is blocked, by the docstring and by the code -/
example :
    let lib : UrlLib := { parse := [("http://h/".toList,
      .inr { six := { scheme := "http".toList, netloc := "h".toList, path := "/".toList } })] }
    let e : View := { value := .str "http://h/".toList, lib := lib }
    let v := V.urlValidator [['*'], ['x']] (UrlPart.all.map UrlPart.name)
    documented v e = some false ∧ excluded v e false = false ∧
    (verdict v e).toOption.map (·.1) = some false := by decide

/-- non-vacuity: `ftp://h/` against `allowed_schemes=('http','https')` is documented false and
    the model notes `blocked_scheme` -/
example :
    let lib : UrlLib := { parse := [("ftp://h/".toList,
      .inr { six := { scheme := "ftp".toList, netloc := "h".toList, path := "/".toList },
             hostname := .str "h".toList })] }
    let e : View := { value := .str "  ftp://h/ ".toList, lib := lib }
    let v := V.urlValidator ["http".toList, "https".toList] (UrlPart.all.map UrlPart.name)
    documented v e = some false ∧ excluded v e false = false ∧
    (verdict v e).toOption.map (fun r => (r.1, r.2.map (·.key))) = some (false, some "blocked_scheme") := by
  decide

/-! ### HTTPURLValidator -/

/-- an attribute access of the model, as the documentation's part table shows it -/
def asPart : Except Raise (Option Str) → Option PartVal
  | .error .valueError => some .raises
  | .error _ => none
  | .ok none => some .none
  | .ok (some s) => some (.str s)

/-- the model's `getattr(parsed, part)` (with the `str(port)` step) reads exactly the documented
    part table, for every name of the vocabulary -/
theorem attr_table (p : Parsed) (k : Str) (hk : k ∈ httpVocabulary) :
    asPart (p.attr k) = (partTable p).lookup k := by
  simp only [httpVocabulary, List.mem_cons, List.not_mem_nil, or_false] at hk
  rcases hk with rfl | rfl | rfl | rfl | rfl | rfl | rfl | rfl | rfl | rfl
  · simp [Parsed.attr, partTable, List.lookup, asPart]
  · simp [Parsed.attr, partTable, List.lookup, asPart]
  · simp [Parsed.attr, partTable, List.lookup, asPart]
  · simp [Parsed.attr, partTable, List.lookup, asPart]
  · simp [Parsed.attr, partTable, List.lookup, asPart]
  · simp [Parsed.attr, partTable, List.lookup, asPart]
  · cases h : p.username <;> simp [Parsed.attr, partTable, List.lookup, asPart, PartVal.get, h]
  · cases h : p.password <;> simp [Parsed.attr, partTable, List.lookup, asPart, PartVal.get, h]
  · cases h : p.hostname <;> simp [Parsed.attr, partTable, List.lookup, asPart, PartVal.get, h]
  · cases h : p.port <;> simp [Parsed.attr, partTable, List.lookup, asPart, h]

def optPart : Option Str → PartVal
  | none => .none
  | some s => .str s

theorem reqFails_eq (r : Option PartRule) (v : Option Str) :
    reqFails r v = !requiredHolds r (optPart v) := by
  cases r with
  | none => cases v <;> rfl
  | some r =>
    cases r with
    | always =>
      cases v with
      | none => rfl
      | some s => cases s <;> simp [reqFails, requiredHolds, optPart, partPresent]
    | off => cases v <;> rfl
    | oneOf l => cases v <;> simp [reqFails, requiredHolds, optPart]

theorem forbFails_eq (r : Option PartRule) (v : Option Str) :
    forbFails r v = !forbiddenHolds r (optPart v) := by
  cases r with
  | none => cases v <;> rfl
  | some r =>
    cases r with
    | always =>
      cases v with
      | none => simp [forbFails, forbiddenHolds, optPart, partPresent]
      | some s => cases s <;> simp [forbFails, forbiddenHolds, optPart, partPresent]
    | off => cases v <;> rfl
    | oneOf l =>
      cases l with
      | nil => cases v <;> simp [forbFails, forbiddenHolds, optPart]
      | cons a t => cases v <;> simp [forbFails, forbiddenHolds, optPart]

/-- the message one part of the URL earns, by the documentation: unreadable → `bad_format`;
    its `required_parts` entry not met → `required_part`; its `forbidden_parts` entry violated →
    `forbidden_part` -/
def partKey (req forb : List (Str × PartRule)) (table : List (Str × PartVal)) (k : Str) :
    Option String :=
  match table.lookup k with
  | some .raises => some "bad_format"
  | some v =>
    if !requiredHolds (req.lookup k) v then some "required_part"
    else if !forbiddenHolds (forb.lookup k) v then some "forbidden_part"
    else none
  | none => none

/-- is the part fine (the conjunct of `httpPartsDocumented`)? -/
def partOk (req forb : List (Str × PartRule)) (table : List (Str × PartVal)) (k : Str) : Bool :=
  match table.lookup k with
  | some .raises => false
  | some v => requiredHolds (req.lookup k) v && forbiddenHolds (forb.lookup k) v
  | none => true

theorem partKey_none_iff (req forb table k) :
    partKey req forb table k = none ↔ partOk req forb table k = true := by
  unfold partKey partOk
  cases table.lookup k with
  | none => simp
  | some v =>
    cases v with
    | raises => simp
    | none =>
      dsimp only
      cases requiredHolds (req.lookup k) .none <;> cases forbiddenHolds (forb.lookup k) .none <;> simp
    | str s =>
      dsimp only
      cases requiredHolds (req.lookup k) (.str s) <;> cases forbiddenHolds (forb.lookup k) (.str s) <;> simp

/-- **the loop, order-free**: over known part names the loop returns True iff no part earns a
    message, and otherwise notes the message of the first part (in `all_parts` order) that earns
    one — `required_part` before `forbidden_part` for the same part -/
theorem httpPartsLoop_eq (req forb : List (Str × PartRule)) (p : Parsed) (parts : List Str)
    (h : ∀ k ∈ parts, k ∈ httpVocabulary) :
    httpPartsLoop req forb p parts =
      match parts.findSome? (partKey req forb (partTable p)) with
      | none => pass
      | some key => fail key := by
  induction parts with
  | nil => rfl
  | cons k rest ih =>
    have hk := attr_table p k (h k (by simp))
    have ih' := ih (fun x hx => h x (by simp [hx]))
    simp only [httpPartsLoop, List.findSome?_cons, partKey]
    rw [← hk]
    cases ha : p.attr k with
    | error r =>
      cases r <;> simp only [asPart]
      all_goals first
        | rfl
        | (rw [ha] at hk
           simp only [asPart] at hk
           have hin := h k (by simp)
           simp only [httpVocabulary, List.mem_cons, List.not_mem_nil, or_false] at hin
           rcases hin with rfl | rfl | rfl | rfl | rfl | rfl | rfl | rfl | rfl | rfl <;>
             simp [partTable, List.lookup] at hk)
    | ok v =>
      have e1 := reqFails_eq (req.lookup k) v
      have e2 := forbFails_eq (forb.lookup k) v
      cases v with
      | none =>
        simp only [asPart, optPart] at e1 e2 ⊢
        rw [e1, e2]
        cases requiredHolds (req.lookup k) .none <;> cases forbiddenHolds (forb.lookup k) .none <;>
          simp [ih']
      | some s =>
        simp only [asPart, optPart] at e1 e2 ⊢
        rw [e1, e2]
        cases requiredHolds (req.lookup k) (.str s) <;>
          cases forbiddenHolds (forb.lookup k) (.str s) <;> simp [ih']

theorem findSome_none_iff_all (req forb table) (parts : List Str) :
    parts.findSome? (partKey req forb table) = none ↔ parts.all (partOk req forb table) = true := by
  induction parts with
  | nil => simp
  | cons k rest ih =>
    simp only [List.findSome?_cons, List.all_cons, Bool.and_eq_true]
    cases hk : partKey req forb table k with
    | none => simp [(partKey_none_iff req forb table k).1 hk, ih]
    | some key =>
      have : partOk req forb table k ≠ true := fun hc => by
        rw [(partKey_none_iff req forb table k).2 hc] at hk; cases hk
      simp [this]

theorem httpPartsDocumented_eq (allParts req forb table d)
    (hd : httpPartsDocumented allParts req forb table = some d) :
    (∀ k ∈ allParts, k ∈ httpVocabulary) ∧ d = allParts.all (partOk req forb table) := by
  unfold httpPartsDocumented at hd
  split at hd
  · cases hd
  · rename_i hall
    simp only [Bool.not_eq_true, Bool.not_eq_false'] at hall
    refine ⟨fun k hk => by simpa using (List.all_eq_true.1 hall) k hk, ?_⟩
    simp only [Option.some.injEq] at hd
    rw [← hd]
    rfl

/-- the class of the open findings (for this validator: KF-C15-a; `Spec.excluded`) -/
abbrev Excluded := excluded

/-- **HTTPURLValidator decides its docstring's predicate** — outside `excluded`, which for this
    validator is only KF-C15-a (no value ∧ promised False); KF-C15-c / -d are repaired: the code's
    reading of `required_parts` IS the docstring's (`reqFails_eq`) -/
theorem decides_httpURL_partial (ap : List Str) (req forb : List (Str × PartRule)) (e : View)
    (d : Bool) (hd : documented (.httpURL ap req forb) e = some d)
    (hk : Excluded (.httpURL ap req forb) e d = false) : Decides (.httpURL ap req forb) e d := by
  simp only [documented] at hd
  cases hv : e.value with
  | none =>
    have : d = true := by
      simp only [Excluded, excluded, hv] at hk
      cases d <;> simp_all
    subst this
    exact decides_pass _ _ (by simp [verdict, hv])
  | str url =>
    rw [hv] at hd
    simp only [httpDocumented] at hd
    have hval : verdict (.httpURL ap req forb) e = httpValidate ap req forb e.lib url := by
      simp [verdict, hv]
    unfold httpValidate at hval
    cases hp : e.lib.urlparse url with
    | missing => rw [hp] at hd; cases hd
    | raises r =>
      rw [hp] at hd hval
      cases r <;> first | (cases hd; done) | skip
      cases hd
      exact decides_fail _ _ "bad_format" [] hval
    | ok p =>
      rw [hp] at hd hval
      simp only at hd hval
      obtain ⟨hvoc, hdd⟩ := httpPartsDocumented_eq _ _ _ _ _ hd
      rw [httpPartsLoop_eq req forb p ap hvoc] at hval
      cases hf : ap.findSome? (partKey req forb (partTable p)) with
      | none =>
        rw [hf] at hval
        rw [(findSome_none_iff_all _ _ _ _).1 hf] at hdd
        subst hdd
        exact decides_pass _ _ hval
      | some key =>
        rw [hf] at hval
        have : ap.all (partOk req forb (partTable p)) = false := by
          cases hall : ap.all (partOk req forb (partTable p)) with
          | false => rfl
          | true => rw [(findSome_none_iff_all _ _ _ _).2 hall] at hf; cases hf
        rw [this] at hdd
        subst hdd
        exact decides_fail _ _ key [] hval
  | int i => rw [hv] at hd; cases hd
  | bool b => rw [hv] at hd; cases hd
  | elem u => rw [hv] at hd; cases hd
  | method o n => rw [hv] at hd; cases hd

/-- **which message**: on a URL that parses, over known part names, `HTTPURLValidator` notes
    the message of the first part that earns one -/
theorem httpURL_key (ap : List Str) (req forb : List (Str × PartRule)) (e : View) (url : Str)
    (p : Parsed) (hv : e.value = .str url) (hp : e.lib.urlparse url = .ok p)
    (hvoc : ∀ k ∈ ap, k ∈ httpVocabulary) :
    verdict (.httpURL ap req forb) e =
      match ap.findSome? (partKey req forb (partTable p)) with
      | none => pass
      | some key => fail key := by
  simp only [verdict, hv, httpValidate, hp]
  exact httpPartsLoop_eq req forb p ap hvoc

/-- the class defaults of `required_parts` / `forbidden_parts` -/
def defaultRequired : List (Str × PartRule) :=
  [("scheme".toList, .oneOf ["http".toList, "https".toList]), ("hostname".toList, .always)]
def defaultForbidden : List (Str × PartRule) :=
  [("username".toList, .always), ("password".toList, .always)]

/-- non-vacuity: `http://u@h/` with the defaults is documented false; `forbidden_part` -/
example :
    let lib : UrlLib := { parse := [("http://u@h/".toList,
      .inr { six := { scheme := "http".toList, netloc := "u@h".toList, path := "/".toList },
             username := .str "u".toList, hostname := .str "h".toList })] }
    let e : View := { value := .str "http://u@h/".toList, lib := lib }
    let v := V.httpURL httpPartNames defaultRequired defaultForbidden
    documented v e = some false ∧ Excluded v e false = false ∧
    (verdict v e).toOption.map (fun r => (r.1, r.2.map (·.key))) = some (false, some "forbidden_part") := by
  decide

/-- the full statement for HTTPURLValidator: no side condition -/
def C15_HttpFull : Prop :=
  ∀ ap req forb (e : View) (d : Bool),
    documented (.httpURL ap req forb) e = some d → Decides (.httpURL ap req forb) e d

/-- **KF-C15-a, witness**: an element without a value, default parameters: the documentation's
    required scheme and hostname cannot be there, the validator says True and notes nothing -/
theorem http_no_value_accepted :
    documented (.httpURL httpPartNames defaultRequired defaultForbidden) {} = some false ∧
    (verdict (.httpURL httpPartNames defaultRequired defaultForbidden) {}).toOption.map (·.1) =
      some true := by decide

theorem C15_HttpFull_fails : ¬ C15_HttpFull := by
  intro h
  obtain ⟨note, hv, _⟩ := h httpPartNames defaultRequired defaultForbidden {} false
    http_no_value_accepted.1
  have := http_no_value_accepted.2
  rw [hv] at this
  simp [Except.toOption] at this

/-- the `required` half as it was BEFORE the repair of KF-C15-c / -d (`if value is None` for
    `True`; `elif required:` skips an empty collection) — a counter-model -/
def oldReqFails (required : Option PartRule) (value : Option Str) : Bool :=
  match required with
  | some .always => value.isNone
  | some (.oneOf l) => !l.isEmpty && !(match value with | some s => l.contains s | none => false)
  | some .off => false
  | none => false

/-- **the old code did not decide the docstring's reading** (KF-C15-c: `True` on a part that is the
    empty text — the six tuple parts are `''`, never None; KF-C15-d: an empty collection), and these
    are the only two places where it differed from the repaired code -/
theorem oldRequired_fails :
    oldReqFails (some .always) (some []) = false ∧ requiredHolds (some .always) (.str []) = false ∧
    (∀ v, oldReqFails (some (.oneOf [])) v = false ∧ requiredHolds (some (.oneOf [])) (optPart v) = false) ∧
    (∀ r v, ¬ (r = some .always ∧ v = some []) → r ≠ some (.oneOf []) → oldReqFails r v = reqFails r v) := by
  refine ⟨rfl, rfl, fun v => by cases v <;> exact ⟨rfl, rfl⟩, ?_⟩
  intro r v h1 h2
  cases r with
  | none => rfl
  | some r =>
    cases r with
    | off => rfl
    | always =>
      cases v with
      | none => rfl
      | some s =>
        cases s with
        | nil => exact absurd ⟨rfl, rfl⟩ h1
        | cons a t => rfl
    | oneOf l =>
      cases l with
      | nil => exact absurd rfl h2
      | cons a t => cases v <;> simp [oldReqFails, reqFails]

/-- regression (former KF-C15-c witness): `required_parts={'path': True}` on `'http://h'` is now
    False with `required_part`, as documented -/
example :
    let lib : UrlLib := { parse := [("http://h".toList,
      .inr { six := { scheme := "http".toList, netloc := "h".toList }, hostname := .str "h".toList })] }
    let e : View := { value := .str "http://h".toList, lib := lib }
    let v := V.httpURL httpPartNames [("path".toList, .always)] []
    documented v e = some false ∧ Excluded v e false = false ∧
    (verdict v e).toOption.map (fun r => (r.1, r.2.map (·.key))) = some (false, some "required_part") := by
  decide

/-- regression (former KF-C15-d witness): `required_parts={'scheme': ()}` on `'ftp://h/'` -/
example :
    let lib : UrlLib := { parse := [("ftp://h/".toList,
      .inr { six := { scheme := "ftp".toList, netloc := "h".toList, path := "/".toList },
             hostname := .str "h".toList })] }
    let e : View := { value := .str "ftp://h/".toList, lib := lib }
    let v := V.httpURL httpPartNames [("scheme".toList, .oneOf [])] []
    documented v e = some false ∧ Excluded v e false = false ∧
    (verdict v e).toOption.map (fun r => (r.1, r.2.map (·.key))) = some (false, some "required_part") := by
  decide

/-! ### every documented part name's rule is honoured -/

/-- the documentation's reading of `required_parts` / `forbidden_parts`: "A mapping of part names"
    over urlparse's vocabulary — a rule for ANY part name of the vocabulary that the URL does not
    meet makes the verdict False (default `all_parts`) -/
def C15_HttpRuleHonoured_Full : Prop :=
  ∀ (req forb : List (Str × PartRule)) (e : View) (url : Str) (p : Parsed) (k : Str) (v : PartVal),
    e.value = .str url → e.lib.urlparse url = .ok p → k ∈ httpVocabulary →
    (partTable p).lookup k = some v →
    (requiredHolds (req.lookup k) v = false ∨ forbiddenHolds (forb.lookup k) v = false) →
    ∃ note, verdict (.httpURL httpPartNames req forb) e = .ok (false, note)

/-- for any `all_parts` within the vocabulary: a rule on a name that is in `all_parts` -/
theorem http_rule_honoured_partial (ap : List Str) (req forb : List (Str × PartRule)) (e : View)
    (url : Str) (p : Parsed) (k : Str) (v : PartVal)
    (hv : e.value = .str url) (hp : e.lib.urlparse url = .ok p)
    (hvoc : ∀ k ∈ ap, k ∈ httpVocabulary) (hk : k ∈ ap)
    (hl : (partTable p).lookup k = some v)
    (hr : requiredHolds (req.lookup k) v = false ∨ forbiddenHolds (forb.lookup k) v = false) :
    ∃ note, verdict (.httpURL ap req forb) e = .ok (false, note) := by
  rw [httpURL_key ap req forb e url p hv hp hvoc]
  have hbad : partOk req forb (partTable p) k = false := by
    unfold partOk
    rw [hl]
    cases v with
    | raises => rfl
    | none => rcases hr with hr | hr <;> simp [hr]
    | str s => rcases hr with hr | hr <;> simp [hr]
  cases hf : ap.findSome? (partKey req forb (partTable p)) with
  | some key => exact ⟨_, rfl⟩
  | none =>
    have hall := (findSome_none_iff_all _ _ _ _).1 hf
    have := (List.all_eq_true.1 hall) k hk
    rw [hbad] at this
    cases this

/-- generated obligation, on the table regenerated from /repo's current source: the default
    `all_parts` lists exactly the ten documented names ("Defaults to the full 10-tuple of names in
    urlparse's vocabulary for HTTP-like URLs") — false of the code before KF-C15-b was repaired
    (`netloc` was missing) -/
theorem default_all_parts_is_vocabulary :
    (httpPartNames.all (fun k => httpVocabulary.contains k) &&
     httpVocabulary.all (fun k => httpPartNames.contains k)) = true := by decide

/-- **every documented part name's rule is honoured** with the default `all_parts`, under the
    DOCSTRING's reading of the rules and with no side condition (true again: KF-C15-b and KF-C15-c /
    -d are repaired) -/
theorem http_rule_honoured : C15_HttpRuleHonoured_Full := by
  intro req forb e url p k v hv hp hk hl hr
  have h := default_all_parts_is_vocabulary
  simp only [Bool.and_eq_true, List.all_eq_true, List.contains_eq_mem, decide_eq_true_eq] at h
  exact http_rule_honoured_partial httpPartNames req forb e url p k v hv hp h.1 (h.2 k hk) hl hr

/-- non-vacuity / the former KF-C15-b witness: now False with `required_part` -/
example :
    let p : Parsed := { six := { scheme := "http".toList, netloc := "evil.example".toList,
                                 path := "/".toList }, hostname := .str "evil.example".toList }
    let e : View := { value := .str "http://evil.example/".toList,
                      lib := { parse := [("http://evil.example/".toList, .inr p)] } }
    (verdict (.httpURL httpPartNames [("netloc".toList, .oneOf ["example.com".toList])] []) e).toOption.map
      (fun r => (r.1, r.2.map (·.key))) = some (false, some "required_part") := by decide

/-- **check order with `netloc` in second place** (model = code): a URL that violates a `netloc`
    rule and a rule of a LATER part gets the `netloc` message; one that also violates a `scheme`
    rule gets the `scheme` message -/
theorem http_netloc_before_later_parts :
    let p : Parsed := { six := { scheme := "http".toList, netloc := "evil.example".toList,
                                 path := "/".toList }, hostname := .str "evil.example".toList }
    let e : View := { value := .str "http://evil.example/".toList,
                      lib := { parse := [("http://evil.example/".toList, .inr p)] } }
    let forb : List (Str × PartRule) := [("netloc".toList, .oneOf ["evil.example".toList])]
    (verdict (.httpURL httpPartNames [("port".toList, .oneOf ["80".toList])] forb) e).toOption.map
      (fun r => r.2.map (·.key)) = some (some "forbidden_part") ∧
    (verdict (.httpURL httpPartNames [("scheme".toList, .oneOf ["https".toList])] forb) e).toOption.map
      (fun r => r.2.map (·.key)) = some (some "required_part") := by decide

/-! ### URLCanonicalizer -/

def urlPartNames : List Str := UrlPart.all.map UrlPart.name

theorem ofName_name (part : UrlPart) : UrlPart.ofName? part.name = some part := by
  cases part <;> decide

theorem name_beq (a b : UrlPart) : (a.name == b.name) = (a == b) := by
  cases a <;> cases b <;> decide

theorem keptParts_cons (part : UrlPart) (rest : List Str) (u : Six) :
    keptParts (part.name :: rest) u = keptParts rest (u.set part []) := by
  simp only [keptParts, List.contains_cons, name_beq]
  cases part <;> simp [Six.set, Six.get]

/-- the blanking loop computes the order-free `keptParts` when every name is one of the six -/
theorem blankLoop_ok (d : List Str) (u : Six) (h : ∀ k ∈ d, k ∈ urlPartNames) :
    blankLoop d u = .ok (keptParts d u) := by
  induction d generalizing u with
  | nil => cases u; simp [blankLoop, keptParts, Six.get]
  | cons k rest ih =>
    have hk := h k (by simp)
    simp only [urlPartNames, List.mem_map] at hk
    obtain ⟨part, _, rfl⟩ := hk
    simp only [blankLoop, ofName_name]
    rw [ih _ (fun x hx => h x (by simp [hx])), keptParts_cons]

/-- … and raises ValueError (`_url_parts.index`) otherwise -/
theorem blankLoop_bad (d : List Str) (u : Six) (h : ¬ ∀ k ∈ d, k ∈ urlPartNames) :
    blankLoop d u = .error .valueError := by
  induction d generalizing u with
  | nil => exact absurd (fun k hk => by cases hk) h
  | cons k rest ih =>
    simp only [blankLoop]
    cases hn : UrlPart.ofName? k with
    | none => rfl
    | some part =>
      have hkn : k = part.name := by
        unfold UrlPart.ofName? at hn
        have := List.find?_some hn
        exact (by simpa using this : part.name = k).symm
      simp only
      apply ih
      intro hall
      apply h
      intro x hx
      simp only [List.mem_cons] at hx
      rcases hx with rfl | hx
      · rw [hkn]; simp only [urlPartNames, List.mem_map]; exact ⟨part, by cases part <;> decide, rfl⟩
      · exact hall x hx

theorem names_all_iff (d : List Str) :
    (d.all (fun k => (UrlPart.all.map UrlPart.name).contains k) = true) ↔ ∀ k ∈ d, k ∈ urlPartNames := by
  simp [urlPartNames]

/-- `canonicalize`, order-free, for part names of the vocabulary -/
theorem canonicalize_raises (d : List Str) (lib : UrlLib) (url : Str) (r : Raise)
    (hp : lib.urlparse url = .raises r) : canonicalize d lib url = .ok .badFormat := by
  simp [canonicalize, hp]

theorem canonicalize_ok (d : List Str) (lib : UrlLib) (url : Str) (p : Parsed) (v : Val)
    (h : ∀ k ∈ d, k ∈ urlPartNames) (hp : lib.urlparse url = .ok p)
    (hu : lib.urlunparse (keptParts d p.six) = .ok v) :
    canonicalize d lib url = .ok (.rewritten v) := by
  simp [canonicalize, hp, blankLoop_ok d p.six h, hu]

theorem decides_urlCanonicalizer (ds : List Str) (e : View) (d : Bool)
    (hd : documented (.urlCanonicalizer ds) e = some d) : Decides (.urlCanonicalizer ds) e d := by
  simp only [documented] at hd
  by_cases hempty : ds.isEmpty = true
  · have : d = true := by
      cases hv : e.value <;> rw [hv] at hd <;> simp [canonDocumented, hempty] at hd <;>
        first | exact hd | exact hd.symm
    subst this
    exact decides_pass _ _ (by simp [verdict, hempty])
  · have hne : ds.isEmpty = false := by simpa using hempty
    cases hv : e.value with
    | none =>
      rw [hv] at hd
      simp only [canonDocumented, hne, Bool.false_eq_true, if_false, Option.some.injEq] at hd
      subst hd
      exact decides_pass _ _ (by simp [verdict, hv])
    | str url =>
      rw [hv] at hd
      simp only [canonDocumented, hne, Bool.false_eq_true, if_false] at hd
      cases hp : e.lib.urlparse url with
      | missing => rw [hp] at hd; cases hd
      | raises r =>
        rw [hp] at hd; cases hd
        have hc := canonicalize_raises ds e.lib url r hp
        exact decides_fail _ _ "bad_format" [] (by simp [verdict, hv, hne, hc])
      | ok p =>
        rw [hp] at hd
        simp only at hd
        split at hd
        · cases hd
        · rename_i hall
          have hnames := (names_all_iff ds).1 (by simpa using hall)
          cases hu : e.lib.urlunparse (keptParts ds p.six) with
          | error r => rw [hu] at hd; cases hd
          | ok v =>
            rw [hu] at hd
            cases hd
            have hc := canonicalize_ok ds e.lib url p v hnames hp hu
            exact decides_pass _ _ (by simp [verdict, hv, hne, hc])
    | int i => rw [hv] at hd; cases hd
    | bool b => rw [hv] at hd; cases hd
    | elem u => rw [hv] at hd; cases hd
    | method o n => rw [hv] at hd; cases hd

/-- **the new value is the rebuild of the kept parts** (whenever the documentation makes a
    promise about the call): `canonValue` — `urlunparse` of the parts with every member of
    `discard_parts` emptied, the others as parsed; the old value when there is nothing to do or
    the URL does not parse -/
theorem canonicalizer_value (ds : List Str) (e : View) (d : Bool)
    (hd : documented (.urlCanonicalizer ds) e = some d) :
    valueAfter (.urlCanonicalizer ds) e = canonValue ds e.value e.lib := by
  simp only [documented] at hd
  by_cases hempty : ds.isEmpty = true
  · simp [valueAfter, canonValue, hempty]
  · have hne : ds.isEmpty = false := by simpa using hempty
    cases hv : e.value with
    | none => simp [valueAfter, canonValue, hne, hv]
    | str url =>
      rw [hv] at hd
      simp only [canonDocumented, hne, Bool.false_eq_true, if_false] at hd
      cases hp : e.lib.urlparse url with
      | missing => rw [hp] at hd; cases hd
      | raises r =>
        have hc := canonicalize_raises ds e.lib url r hp
        simp [valueAfter, canonValue, hne, hv, hc, hp]
      | ok p =>
        rw [hp] at hd
        simp only at hd
        split at hd
        · cases hd
        · rename_i hall
          have hnames := (names_all_iff ds).1 (by simpa using hall)
          cases hu : e.lib.urlunparse (keptParts ds p.six) with
          | error r => rw [hu] at hd; cases hd
          | ok v =>
            have hc := canonicalize_ok ds e.lib url p v hnames hp hu
            simp [valueAfter, canonValue, hne, hv, hc, hp, hu]
    | int i => rw [hv] at hd; cases hd
    | bool b => rw [hv] at hd; cases hd
    | elem u => rw [hv] at hd; cases hd
    | method o n => rw [hv] at hd; cases hd

/-- **value untouched on failure** (and on an exception): whenever the canonicaliser does not
    return True, the element's value is what it was — for the values the model follows the code on
    (`inModel`: a text or no value; on `Integer(0)` the real validator returns True and leaves `b''`) -/
theorem canonicalizer_failure_keeps_value (ds : List Str) (e : View)
    (_hm : inModel (.urlCanonicalizer ds) e = true)
    (h : verdict (.urlCanonicalizer ds) e ≠ pass) :
    valueAfter (.urlCanonicalizer ds) e = e.value := by
  simp only [verdict, valueAfter] at h ⊢
  split
  · rfl
  · rename_i hg
    simp only [hg, Bool.false_eq_true, if_false] at h
    cases hv : e.value with
    | str url =>
      rw [hv] at h
      simp only at h ⊢
      cases hc : canonicalize ds e.lib url with
      | error r => rfl
      | ok c =>
        cases c with
        | badFormat => rfl
        | rewritten v => rw [hc] at h; exact absurd rfl h
    | _ => rfl

theorem keptParts_idem (ds : List Str) (u : Six) : keptParts ds (keptParts ds u) = keptParts ds u := by
  simp only [keptParts, Six.get]
  congr 1 <;> split <;> rfl

/-- **a second run changes nothing when the rebuild is stable**: if the rebuilt text `r` parses
    back to the parts it was built from (`hstable`, `hsix`: the explicit hypothesis — `urlparse ∘
    urlunparse` is NOT the identity: `canonicalizer_not_idempotent`), canonicalising the canonical
    value returns True and leaves exactly `r` -/
theorem canonicalizer_idempotent_partial (ds : List Str) (e : View) (url r : Str) (p p' : Parsed)
    (hne : ds.isEmpty = false) (hnames : ∀ k ∈ ds, k ∈ urlPartNames)
    (hv : e.value = .str url) (hp : e.lib.urlparse url = .ok p)
    (hr : e.lib.urlunparse (keptParts ds p.six) = .ok (.str r))
    (hstable : e.lib.urlparse r = .ok p') (hsix : p'.six = keptParts ds p.six) :
    valueAfter (.urlCanonicalizer ds) e = .str r ∧
    valueAfter (.urlCanonicalizer ds) { e with value := .str r } = .str r ∧
    verdict (.urlCanonicalizer ds) { e with value := .str r } = pass := by
  have h1 : canonicalize ds e.lib url = .ok (.rewritten (.str r)) :=
    canonicalize_ok ds e.lib url p _ hnames hp hr
  have h2 : canonicalize ds e.lib r = .ok (.rewritten (.str r)) :=
    canonicalize_ok ds e.lib r p' _ hnames hstable (by rw [hsix, keptParts_idem, hr])
  refine ⟨?_, ?_, ?_⟩
  · simp [valueAfter, hne, hv, h1]
  · simp [valueAfter, hne, h2]
  · simp [valueAfter, verdict, hne, h2]

/-- **the result has the unwanted parts removed and the others kept** (`canonFaithful`, the
    docstring's promise about the RESULT) — under the same explicit hypothesis -/
theorem canonicalizer_faithful_partial (ds : List Str) (e : View) (url r : Str) (p p' : Parsed)
    (hne : ds.isEmpty = false) (hnames : ∀ k ∈ ds, k ∈ urlPartNames)
    (hv : e.value = .str url) (hp : e.lib.urlparse url = .ok p)
    (hr : e.lib.urlunparse (keptParts ds p.six) = .ok (.str r))
    (hstable : e.lib.urlparse r = .ok p') (hsix : p'.six = keptParts ds p.six) :
    canonFaithful ds e.value e.lib = some true ∧ valueAfter (.urlCanonicalizer ds) e = .str r := by
  have h1 : canonicalize ds e.lib url = .ok (.rewritten (.str r)) :=
    canonicalize_ok ds e.lib url p _ hnames hp hr
  have hall : ds.all (fun k => (UrlPart.all.map UrlPart.name).contains k) = true :=
    (names_all_iff ds).2 hnames
  refine ⟨?_, by simp [valueAfter, hne, hv, h1]⟩
  simp only [canonFaithful, hne, hall, hv, hp, hr, hstable, hsix, Bool.false_eq_true, if_false,
    Bool.not_true]
  simp only [UrlPart.all, List.all_cons, List.all_nil, keptParts, Six.get]
  simp only [Option.some.injEq, Bool.and_true, Bool.and_eq_true]
  refine ⟨?_, ?_, ?_, ?_, ?_, ?_⟩ <;> split <;> simp_all

/-- the parse table of the standard library on `'////'`, `'//'` and `''` -/
def slashLib : UrlLib := { parse := [
  ("////".toList, .inr { six := { path := "//".toList } }),
  ("//".toList, .inr {}),
  ([], .inr {})] }

/-- **the canonicaliser is not idempotent and does not keep the kept parts** (KF-C15-e), default
    `discard_parts`, standard `urlunparse`: `'////'` → `'//'` → `''`; the path `//` the original has
    is gone from the "canonical" URL although `path` is not among the discarded parts -/
theorem canonicalizer_not_idempotent :
    let ds := ["fragment".toList]
    let e : View := { value := .str "////".toList, lib := slashLib }
    let e1 : View := { value := valueAfter (.urlCanonicalizer ds) e, lib := e.lib }
    valueAfter (.urlCanonicalizer ds) e = .str "//".toList ∧
    valueAfter (.urlCanonicalizer ds) e1 = .str [] ∧
    documented (.urlCanonicalizer ds) e = some true ∧
    canonFaithful ds e.value e.lib = some false := by decide

/-- the unhypothesised statements are false -/
theorem canonicalizer_idempotent_fails :
    ¬ (∀ (ds : List Str) (e : View), documented (.urlCanonicalizer ds) e = some true →
        valueAfter (.urlCanonicalizer ds) { e with value := valueAfter (.urlCanonicalizer ds) e } =
          valueAfter (.urlCanonicalizer ds) e) := by
  intro h
  have h1 := h ["fragment".toList] { value := .str "////".toList, lib := slashLib }
    canonicalizer_not_idempotent.2.2.1
  have h2 := canonicalizer_not_idempotent.2.1
  have h3 := canonicalizer_not_idempotent.1
  simp only at h2 h3
  rw [h2, h3] at h1
  exact absurd h1 (by decide)

theorem canonicalizer_faithful_fails :
    ¬ (∀ (ds : List Str) (e : View) (b : Bool), canonFaithful ds e.value e.lib = some b → b = true) :=
  fun h => absurd (h _ _ _ canonicalizer_not_idempotent.2.2.2) (by decide)

/-- **… and can turn a URL `HTTPURLValidator` rejects into one it accepts** (KF-C15-e):
    `'http:////evil.example/p#f'` (no host: `required_part`) → `'http://evil.example/p'` -/
theorem canonicalizer_changes_host :
    let lib : UrlLib := { parse := [
      ("http:////evil.example/p#f".toList, .inr { six := { scheme := "http".toList, path := "//evil.example/p".toList, fragment := "f".toList } }),
      ("http://evil.example/p".toList, .inr { six := { scheme := "http".toList, netloc := "evil.example".toList, path := "/p".toList }, hostname := .str "evil.example".toList })] }
    let ds := ["fragment".toList]
    let e : View := { value := .str "http:////evil.example/p#f".toList, lib := lib }
    let e1 : View := { value := valueAfter (.urlCanonicalizer ds) e, lib := e.lib }
    let http := V.httpURL httpPartNames defaultRequired defaultForbidden
    (verdict http e).toOption.map (fun r => (r.1, r.2.map (·.key))) = some (false, some "required_part") ∧
    valueAfter (.urlCanonicalizer ds) e = .str "http://evil.example/p".toList ∧
    (verdict http e1).toOption.map (·.1) = some true ∧
    canonFaithful ds e.value e.lib = some false := by decide

/-- non-vacuity (standard `urlunparse`): `http://h/p#f` → `http://h/p`, stable -/
example :
    let six : Six := { scheme := "http".toList, netloc := "h".toList, path := "/p".toList }
    let lib : UrlLib := { parse := [
      ("http://h/p#f".toList, .inr { six := { six with fragment := "f".toList }, hostname := .str "h".toList }),
      ("http://h/p".toList, .inr { six := six, hostname := .str "h".toList })] }
    let e : View := { value := .str "http://h/p#f".toList, lib := lib }
    documented (.urlCanonicalizer ["fragment".toList]) e = some true ∧
    canonFaithful ["fragment".toList] e.value e.lib = some true ∧
    valueAfter (.urlCanonicalizer ["fragment".toList]) e = .str "http://h/p".toList ∧
    valueAfter (.urlCanonicalizer ["fragment".toList]) { e with value := .str "http://h/p".toList } =
      .str "http://h/p".toList := by decide

/-! ### the standard `urlunparse`: a discarded fragment is gone -/

theorem stdUnparse_no_hash (w : Six) (hf : w.fragment = [])
    (h1 : '#' ∉ w.scheme) (h2 : '#' ∉ w.netloc) (h3 : '#' ∉ w.path) (h4 : '#' ∉ w.params)
    (h5 : '#' ∉ w.query) : '#' ∉ stdUnparse w := by
  unfold stdUnparse stdUnsplit
  generalize usesNetloc.contains w.scheme = un
  simp only [hf, List.isEmpty_nil, Bool.not_true, Bool.false_eq_true, if_false]
  have hpath : '#' ∉ (if (!w.params.isEmpty) = true then w.path ++ [';'] ++ w.params else w.path) := by
    split <;> simp [h3, h4]
  generalize (if (!w.params.isEmpty) = true then w.path ++ [';'] ++ w.params else w.path) = url at hpath ⊢
  have hurl : ∀ c : Bool, '#' ∉ (if c = true then
      ['/', '/'] ++ w.netloc ++ (if (!url.isEmpty && url.take 1 != ['/']) = true then '/' :: url else url)
      else url) := by
    intro c
    split
    · split <;> simp [h2, hpath]
    · exact hpath
  generalize (!w.netloc.isEmpty || (!w.scheme.isEmpty && un && url.take 2 != ['/', '/'])) = c
  have hu := hurl c
  generalize (if c = true then
      ['/', '/'] ++ w.netloc ++ (if (!url.isEmpty && url.take 1 != ['/']) = true then '/' :: url else url)
      else url) = url2 at hu ⊢
  split <;> split <;> simp [h1, h5, hu]

/-- **the fragment is dropped**: with `fragment` among the discarded parts and no `#` inside the
    other parts (as `urlparse` guarantees for them), the canonical text has no `#` -/
theorem canonical_has_no_fragment (ds : List Str) (u : Six) (hd : "fragment".toList ∈ ds)
    (h : ∀ part, part ≠ .fragment → '#' ∉ u.get part) :
    '#' ∉ stdUnparse (keptParts ds u) := by
  have hs := h .scheme (by decide)
  have hn := h .netloc (by decide)
  have hp := h .path (by decide)
  have hpa := h .params (by decide)
  have hq := h .query (by decide)
  simp only [Six.get] at hs hn hp hpa hq
  have hd' : ds.contains "fragment".toList = true := by simpa using hd
  apply stdUnparse_no_hash
  · show (if ds.contains UrlPart.fragment.name = true then [] else u.get .fragment) = []
    have hd'' : ds.contains UrlPart.fragment.name = true := hd'
    rw [if_pos hd'']
  all_goals (simp only [keptParts, Six.get]; split <;> simp [*])

end Flatland.C15.Proofs
