/-
C08 — the tree clauses of the property along histories, with identity uniqueness proved
(not assumed):

* `c08_tree_inv` : from a well-formed initial state, after any history with fresh / detached
  Element arguments, the state is well-parented, the root has no parent, identities are unique
  and below the counter, keys are unique;
* `navinv_hrun` : `parents`, `root`, `path` of every node are what the shape says — `navinv_of_wp`
  restated along histories without the `UniqueIds` hypothesis;
* `allChildren_hrun` : `all_children` of the root is the level-order list of its proper
  descendants, each once;
* `removed_unreachable` (Proofs/C08Frame.lean), `placed_is_child` (here).
-/
import Proofs.C08Placed
namespace Flatland.C08.Proofs
open Flatland.Tree Flatland.PyList Flatland.C08 Flatland.C08.Spec

mutual
theorem wp_of_mem_nodes : ∀ (t n : Node), wp t = true → n ∈ nodes t → wp n = true
  | .mk i s kids, n, hw, h => by
    rw [nodes] at h
    rcases List.mem_cons.mp h with h1 | h1
    · rw [h1]; exact hw
    · rw [wp] at hw; exact wpL_of_mem_nodesL kids i.id n hw h1
theorem wpL_of_mem_nodesL : ∀ (ks : List Node) (p : Nat) (n : Node), wpL p ks = true → n ∈ nodesL ks → wp n = true
  | [], _, _, _, h => by simp [nodesL] at h
  | k :: ks, p, n, hw, h => by
    simp only [wpL, Bool.and_eq_true] at hw
    rw [nodesL] at h
    rcases List.mem_append.mp h with h1 | h1
    · exact wp_of_mem_nodes k n hw.1.2 h1
    · exact wpL_of_mem_nodesL ks p n hw.2 h1
end

/-- **placed ⇒ child, at the container** -/
theorem nodeStep_placed (n : Node) (hw : wp n = true) (op : Op) (next : Nat) (e : Node) (hp : Places n op e)
    (hno : noExc (nodeStep n op next).out) : PlacedIn (nodeStep n op next).node e := by
  cases op with
  | seq o =>
    obtain ⟨hseq, he⟩ := hp
    have h := seqStep_placed n hw hseq o next
    unfold nodeStep at hno ⊢
    rcases hseq with hk | hk | hk <;> simp only [hk] at hno ⊢ <;> exact h hno e he
  | map o =>
    cases o with
    | setitem k a =>
      cases a with
      | plain r => exact hp.elim
      | elem e' =>
        obtain ⟨rfl, hs, f, hf, hi⟩ := hp
        unfold nodeStep
        simp only [hs]
        exact (mapSetItem_placed n hs k e' f hf hi next).2.2
    | updateArgs kvs =>
      obtain ⟨hs, pre, post, k, f, rfl, hpost, hf, hi⟩ := hp
      unfold nodeStep at hno ⊢
      simp only [hs] at hno ⊢
      exact mapUpdateArgs_placed pre post k e f n next hs hf hi hpost hno
    | delitem _ | pop _ | popitem | clear | update _ _ | ior _ | setdefault _ _ | get _ | set _ _ | setDefault
    | contains _ | len => exact hp.elim

/-- **placed ⇒ child** (every placing call of the model that returns normally, anywhere in a
    tree).  After a call on the element `n` of the tree that stores the Element `e`
    (`Places`), the element with the target's identity in the new tree lists `e` among its
    children with the same identity and subtree, and the stored parent pointer of `e` designates
    that container (`PlacedIn`: through the ListSlot holding it for a List). -/
theorem placed_is_child (s : HState) (h : HOp) (hi : IdInv s) (hw : wp s.root = true)
    (n : Node) (hn : n ∈ nodes s.root) (hid : n.id = h.target) (e : Node) (hp : Places n h.op e)
    (hno : noExc (nodeStep n h.op s.next).out) :
    (nodeStep n h.op s.next).node ∈ nodes (hstep s h).root ∧
    (nodeStep n h.op s.next).node.id = h.target ∧
    PlacedIn (nodeStep n h.op s.next).node e ∧
    ∃ c ∈ children (nodeStep n h.op s.next).node, c.id = e.id ∧ c.kids = e.kids ∧ c.sch = e.sch := by
  obtain ⟨r, hr⟩ := stepAt_some h.op h.target s.root s.next n hn hid
  obtain ⟨n0, hf⟩ := stepAt_framed h.op h.target s.root s.next r hr
  have hn0 : n0 = n := eq_of_nodup_map_id hi.uniq hf.mem hn (hf.id.trans hid.symm)
  subst hn0
  have hroot : (hstep s h).root = r.node := by unfold hstep; rw [hr]
  have hpl := nodeStep_placed n0 (wp_of_mem_nodes s.root n0 hw hf.mem) h.op s.next e hp hno
  rw [hroot]
  refine ⟨hf.mem', ?_, hpl, placedIn_child hpl⟩
  exact (id_of_hdr (nodeStep_hdr n0 h.op s.next)).trans hid

/-! ### histories -/

/-- Element arguments of a history: internally well-parented (`OpArgsWP`) and fresh (`HistFresh`) -/
def HistOK (s : HState) (hs : List HOp) : Prop := (∀ h ∈ hs, OpArgsWP h.op) ∧ HistFresh s hs

/-- the whole invariant of the property -/
structure TreeOK (s : HState) : Prop where
  wp : wp s.root = true
  rootless : s.root.parent = none
  ids : IdInv s

theorem hstep_treeok (s : HState) (h : HOp) (hok : TreeOK s) (hwp : OpArgsWP h.op) (hf : ArgsFresh s h.op) :
    TreeOK (hstep s h) := by
  have := hstep_wp s h (good_all h.op hwp) hok.wp hok.rootless
  exact ⟨this.1, this.2, hstep_idinv s h hok.ids hf⟩

/-- **the tree invariant along histories**: well-parented, parentless root, unique identities
    below the counter, unique keys — from the initial state and the arguments alone -/
theorem c08_tree_inv (hs : List HOp) : ∀ (s : HState), TreeOK s → HistOK s hs → TreeOK (hrun s hs) := by
  induction hs with
  | nil => intro s hok _; exact hok
  | cons h hs ih =>
    intro s hok hh
    have h1 := hstep_treeok s h hok (hh.1 h (by simp)) hh.2.1
    simpa [hrun] using ih (hstep s h) h1 ⟨fun x hx => hh.1 x (by simp [hx]), hh.2.2⟩

/-- **navigation along histories** (`navinv_of_wp` without the `UniqueIds` hypothesis): after any
    history of calls with fresh / detached Element arguments, `parents`, `root` and `path` of every
    node of the tree are its holders, the tree root, and the way from the root to it. -/
theorem navinv_hrun (s : HState) (hs : List HOp) (hok : TreeOK s) (hh : HistOK s hs) : NavInv (hrun s hs).root := by
  have := c08_tree_inv hs s hok hh
  exact navinv_of_wp this.wp this.rootless this.ids.uniq

/-- **all_children along histories** -/
theorem allChildren_hrun (s : HState) (hs : List HOp) (hok : TreeOK s) (hh : HistOK s hs) :
    AllChildrenSpec (hrun s hs).root :=
  allChildren_spec (c08_tree_inv hs s hok hh).ids.uniq

/-- every construction route of the model starts a history in a `TreeOK` state -/
theorem treeok_init (sc : Schema) (hsc : swf sc = true) (key : Str) (next : Nat) :
    TreeOK ⟨(blank sc none key next).1, (blank sc none key next).2⟩ ∧
    (∀ raw e n1, construct sc raw none key next = (.ok e, n1) → TreeOK ⟨e, n1⟩) ∧
    TreeOK ⟨(fromDefaults sc none key next).node, (fromDefaults sc none key next).next⟩ ∧
    (∀ (st : HState) raw pol, TreeOK st → TreeOK ⟨(setNode st.root raw pol st.next).node, (setNode st.root raw pol st.next).next⟩) ∧
    (∀ (st : HState), TreeOK st → TreeOK ⟨(setDefault st.root st.next).node, (setDefault st.root st.next).next⟩) := by
  obtain ⟨w1, w2, w3, w4, w5⟩ := inv_init sc key next
  obtain ⟨i1, i2, i3, i4, i5⟩ := idinv_init sc hsc key next
  refine ⟨⟨w1.1, w1.2, i1⟩, ?_, ⟨w3.1, w3.2, i3⟩, ?_, ?_⟩
  · intro raw e n1 h; exact ⟨(w2 raw e n1 h).1, (w2 raw e n1 h).2, i2 raw e n1 h⟩
  · intro st raw pol hok
    exact ⟨(w4 st.root raw pol st.next hok.wp hok.rootless).1, (w4 st.root raw pol st.next hok.wp hok.rootless).2, i4 st raw pol hok.ids⟩
  · intro st hok
    exact ⟨(w5 st.root st.next hok.wp hok.rootless).1, (w5 st.root st.next hok.wp hok.rootless).2, i5 st hok.ids⟩

end Flatland.C08.Proofs
