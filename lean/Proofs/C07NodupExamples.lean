/-
C07, uniqueness of keys: non-vacuity of `Proofs/C07Nodup.lean` on concrete nested states, and a
witness that the exception for Array / MultiValue members is needed.
-/
import Proofs.C07Nodup
import Proofs.C01Examples
namespace Flatland.Flat.Proofs
open Flatland.Flat Flatland.Flat.Spec

/-- Dict{ x : String, y : String } (anonymous: a list member) -/
def ndRow : Schema :=
  .dict none false .dense [.leaf (some "x".toList) false 0, .leaf (some "y".toList) false 0]

/-! ### U1: Dict{ a : String, l : List[ Dict{x, y} ] } -/

def ndSchema1 : Schema :=
  .dict none false .dense
    [ .leaf (some "a".toList) false 0,
      .list (some "l".toList) false false 1024 ndRow ]

def ndElem1 : Elem :=
  .dict [ ("a".toList, .leaf "1".toList),
          ("l".toList, .list
            [ .dict [("x".toList, .leaf "p".toList), ("y".toList, .leaf "q".toList)],
              .dict [("x".toList, .leaf "r".toList), ("y".toList, .leaf "".toList)] ]) ]

theorem nd_index_ok (n : Nat) (i : Nat) (hn : n ≤ 10) (hi : i < n) :
    (natStr i).length ≤ exEnv01.maxDigits := by
  rw [natStr_lt i (by omega)]
  simp [exEnv01]

theorem nd1_okP : OkP exEnv01 ndSchema1 ndElem1 := by
  simp only [ndSchema1, ndElem1, ndRow, OkP, OkPFields, Schema.name, true_and, and_true]
  refine ⟨by simp [exEnv01], by decide, fun i hi => nd_index_ok 2 i (by omega) hi, ?_⟩
  intro e he
  simp only [List.mem_cons, List.not_mem_nil, or_false] at he
  rcases he with rfl | rfl <;> simp [OkP, OkPFields, Schema.name, exEnv01]

theorem nd1_sepSafe : SepSafe exEnv01 "_".toList (Tok ndSchema1) := by
  apply sepSafe_single_char exEnv01 exEnvOK ndSchema1 '_'
  · decide
  · intro t ht
    simp only [ndSchema1, ndRow, names, namesL, Option.toList, List.nil_append, List.append_nil,
      List.mem_append, List.mem_cons, List.not_mem_nil, or_false] at ht
    rcases ht with rfl | rfl | rfl | rfl <;> decide

/-- the hypotheses of U1 are satisfiable by a nested state: a Dict holding a List of Dicts -/
example : ((flatten exEnv01 "_".toList ndSchema1 ndElem1).map Prod.fst).Nodup :=
  keys_nodup_noArray exEnv01 "_".toList ndSchema1 ndElem1 nd1_sepSafe (by decide) (by decide)
    (by decide) nd1_okP

example : ((relFlat (resolve exEnv01 ndSchema1 ndElem1)).map Prod.fst).Nodup :=
  paths_nodup_noArray exEnv01 ndSchema1 ndElem1 (by decide) (by decide) (by decide) nd1_okP

/-- what that state emits -/
theorem nd1_flatten :
    flatten exEnv01 "_".toList ndSchema1 ndElem1
      = [("a".toList, "1".toList), ("l_0_x".toList, "p".toList), ("l_0_y".toList, "q".toList),
         ("l_1_x".toList, "r".toList), ("l_1_y".toList, "".toList)] := by
  simp [flatten, flattenNode, ndSchema1, ndElem1, ndRow, resolve, resolveMembers, resolveOne,
    resolveList, membersOf, bfsFlat, childItems, kidsFrom, namePath, joinSep, natStr, digitChar,
    FNode.fl, FNode.cfl, FNode.u, FNode.name, FNode.kids, FNode.slots, Schema.name]

/-! ### U2: the same with a MultiValue `m` holding three members -/

def ndSchema2 : Schema :=
  .dict none false .dense
    [ .leaf (some "a".toList) false 0,
      .list (some "l".toList) false false 1024 ndRow,
      .array (some "m".toList) false false (.leaf none false 0) ]

def ndElem2 : Elem :=
  .dict [ ("a".toList, .leaf "1".toList),
          ("l".toList, .list
            [ .dict [("x".toList, .leaf "p".toList), ("y".toList, .leaf "q".toList)],
              .dict [("x".toList, .leaf "r".toList), ("y".toList, .leaf "".toList)] ]),
          ("m".toList, .array [.leaf "u".toList, .leaf "v".toList, .leaf "u".toList]) ]

theorem nd2_okP : OkP exEnv01 ndSchema2 ndElem2 := by
  simp only [ndSchema2, ndElem2, ndRow, OkP, OkPFields, Schema.name, true_and, and_true]
  refine ⟨by simp [exEnv01], ⟨by decide, fun i hi => nd_index_ok 2 i (by omega) hi, ?_⟩,
    ⟨_, _, _, rfl⟩, ?_⟩
  · intro e he
    simp only [List.mem_cons, List.not_mem_nil, or_false] at he
    rcases he with rfl | rfl <;> simp [OkP, OkPFields, Schema.name, exEnv01]
  · intro e he
    simp only [List.mem_cons, List.not_mem_nil, or_false] at he
    rcases he with rfl | rfl | rfl <;> simp [OkP, exEnv01]

theorem nd2_sepSafe : SepSafe exEnv01 "_".toList (Tok ndSchema2) := by
  apply sepSafe_single_char exEnv01 exEnvOK ndSchema2 '_'
  · decide
  · intro t ht
    simp only [ndSchema2, ndRow, names, namesL, Option.toList, List.nil_append, List.append_nil,
      List.mem_append, List.mem_cons, List.not_mem_nil, or_false] at ht
    rcases ht with rfl | (rfl | rfl | rfl) | rfl <;> decide

theorem nd2_firstOnly :
    firstOnly ndSchema2 ndElem2 =
      .dict [ ("a".toList, .leaf "1".toList),
              ("l".toList, .list
                [ .dict [("x".toList, .leaf "p".toList), ("y".toList, .leaf "q".toList)],
                  .dict [("x".toList, .leaf "r".toList), ("y".toList, .leaf "".toList)] ]),
              ("m".toList, .array [.leaf "u".toList]) ] := by
  simp [ndSchema2, ndElem2, ndRow, firstOnly, firstOnlyFields]

/-- the hypotheses of U2 are satisfiable by a nested state with a three-member MultiValue: once the
    MultiValue is cut down to its first member all keys are distinct … -/
example : ((flatten exEnv01 "_".toList ndSchema2 (firstOnly ndSchema2 ndElem2)).map Prod.fst).Nodup :=
  keys_nodup_firstOnly exEnv01 "_".toList ndSchema2 ndElem2 nd2_sepSafe (by decide) (by decide) nd2_okP

example : ((relFlat (resolve exEnv01 ndSchema2 (firstOnly ndSchema2 ndElem2))).map Prod.fst).Nodup :=
  paths_nodup_firstOnly exEnv01 ndSchema2 ndElem2 (by decide) (by decide) nd2_okP

/-- … and no key is lost -/
example (k : Str) :
    k ∈ (flatten exEnv01 "_".toList ndSchema2 ndElem2).map Prod.fst
      ↔ k ∈ (flatten exEnv01 "_".toList ndSchema2 (firstOnly ndSchema2 ndElem2)).map Prod.fst :=
  keys_firstOnly_iff exEnv01 "_".toList ndSchema2 ndElem2 (by decide) (by decide) nd2_okP k

theorem nd2_flatten :
    flatten exEnv01 "_".toList ndSchema2 ndElem2
      = [("a".toList, "1".toList),
         ("m".toList, "u".toList), ("m".toList, "v".toList), ("m".toList, "u".toList),
         ("l_0_x".toList, "p".toList), ("l_0_y".toList, "q".toList),
         ("l_1_x".toList, "r".toList), ("l_1_y".toList, "".toList)] := by
  simp [flatten, flattenNode, ndSchema2, ndElem2, ndRow, resolve, resolveMembers, resolveOne,
    resolveList, membersOf, bfsFlat, childItems, kidsFrom, namePath, joinSep, natStr, digitChar,
    FNode.fl, FNode.cfl, FNode.u, FNode.name, FNode.kids, FNode.slots, Schema.name]

/-- the exception is needed: the members of the MultiValue do share one key -/
example : ¬ ((flatten exEnv01 "_".toList ndSchema2 ndElem2).map Prod.fst).Nodup := by
  rw [nd2_flatten]
  decide

end Flatland.Flat.Proofs
