/-
C08 / C09 — failure paths: a REJECTED call of the model changes nothing.

`seqAtomic` / `mapAtomic` name the calls whose exceptions are rejections (raised before any documented
effect) — the same routes as `atomic_route` in harness/props/g1common.py.  For those, whenever the
model's call raises, the element it was aimed at — structure, stored parent pointers, slot names,
identities — and hence the whole tree is returned as it was, and nothing is reported as detached.
The excluded calls are exactly those with documented effects before a later failure, each with a
witness below (`prefix_kept_*`).

SORT (round m1).  No sort is a rejection route here.  The CODE has two raising paths for `seq.sort(key=f)`:
the key function `f` raises (CPython computes all keys first and restores the list: a rejection — the Python
oracle's route `sort-key`), and a COMPARISON of two keys raises / the list is modified during the sort (CPython
leaves the list REARRANGED: not a rejection).  The MODEL's keyed sort (`Tree.lean`: `if sortGate k n then
<stable sort; renumber> else excOut n next .unsupported`) has neither: it sorts, or it answers `.unsupported`,
which is the model declining to say anything — not a statement about the code (`keyed_sort_only_refuses`).
Before this round `seqAtomic` classified every `.sort (some k)` as atomic, so `rejected_seq_unchanged`
"covered" the comparison-failure path with a vacuous instance (`e = .unsupported`) while the real List.sort
skipped `_renumber()` there (repaired by 9873cdc).  What holds on that path is stated in
`Proofs/C09SortFailure.lean` (`sort_failure_any_permutation_dps`) and checked on the code by
`g1common.check_sort_failure`.

`.unsupported` in general: wherever the theorems below are instantiated with `e = .unsupported` (a sequence
without a member schema, a model path outside the modelled code) they say "the model returns its input", which is
true and carries no information about the code; the runners answer `{"unsupported": true}` for such histories and
the harness counts them as oracle-only.
-/
import Proofs.C08TreeExamples
namespace Flatland.C08.Proofs
open Flatland.Tree Flatland.PyList Flatland.C08

/-- list-protocol calls whose exceptions are rejections.  Excluded: `extend` / `+=` / `*=` (the items placed
    before the failing one stay), `set` / `set_default` (empty first), `lst[i] = <plain>` on a List with a
    valid index (`lst[i].set(value)`: the member is set in place and may raise afterwards, KF-C09-b), and EVERY
    sort: a key-less one fails inside a comparison; a keyed one, in the model, never raises at all — it sorts or
    the model refuses (`keyed_sort_only_refuses`) — and in the code may fail inside a comparison, which rearranges
    the list (round m1: it used to be classified atomic, vacuously). -/
def seqAtomic (n : Node) : SeqOp → Bool
  | .extend _ | .iadd _ | .imul _ | .set _ | .setDefault => false
  | .setitem i (.plain _) => !(n.kind = .list) || (getItem n.kids i).isNone
  | .sort _ _ => false
  | _ => true

/-- dict-protocol calls whose exceptions are rejections.  Excluded: item assignment of a key that is present (or,
    on a SparseDict, declared): the child's `set` may raise after it changed; `update` / `|=` (pairs before the
    failing one stay); `set` / `set_default`; `setdefault` of an allowed key on a SparseDict. -/
def mapAtomic (n : Node) : MapOp → Bool
  | .setitem k _ => (findKid n.kids k).isNone && (!(n.kind = .sparse) || (fieldFor n.sch.subs k).isNone)
  | .delitem _ | .pop _ | .popitem | .clear | .get _ | .contains _ | .len => true
  | .setdefault k _ => !(n.kind = .sparse) || !((findKid n.kids k).isSome || (fieldFor n.sch.subs k).isSome)
  | _ => false

def opAtomic (n : Node) : Op → Bool
  | .seq o => seqAtomic n o
  | .map o => mapAtomic n o

/-- the model's keyed sort has no failure path: whenever it "raises", the exception is the marker `.unsupported`
    (the model declines: the key is not defined on every item, or the node is no sequence) — so no theorem about
    "a keyed sort that raises" says anything about the code's comparison-failure path -/
theorem keyed_sort_only_refuses (n : Node) (k : SortKey) (rev : Bool) (next : Nat) (e : Exc)
    (h : (seqStep n (.sort (some k) rev) next).out = .exc e) : e = .unsupported := by
  unfold seqStep at h
  split at h
  · simp [excOut] at h; exact h.symm
  · dsimp only at h
    split at h
    · simp at h
    · simp [excOut] at h; exact h.symm

/-- and when it does not refuse it returns normally: the stably sorted items, renumbered on a List -/
theorem keyed_sort_sorts (n : Node) (m : Schema) (k : SortKey) (rev : Bool) (next : Nat)
    (hm : n.sch.member = some m) (hg : sortGate k n = true) :
    seqStep n (.sort (some k) rev) next =
      ⟨n.withKids (if n.kind = .list then renumber (sortBy (sortLe k rev) n.kids) else sortBy (sortLe k rev) n.kids),
       next, .ok, []⟩ := by
  unfold seqStep
  simp only [hm, hg, if_true]

/-- **rejected_seq_unchanged.**  A list-protocol call of the model on a rejection route (`seqAtomic`: no sort is
    one) that raises returns the node unchanged.  For `e = .unsupported` this is the model returning its input
    when it declines — not a claim about the code. -/
theorem rejected_seq_unchanged (n : Node) (op : SeqOp) (next : Nat) (e : Exc)
    (hat : seqAtomic n op = true) (h : (seqStep n op next).out = .exc e) :
    (seqStep n op next).node = n ∧ (seqStep n op next).detached = [] := by
  unfold seqStep at h ⊢
  split
  · exact ⟨rfl, rfl⟩
  · cases op <;> simp only [seqAtomic] at hat <;> dsimp only at h ⊢ <;>
      (repeat' split) <;> simp_all [excOut]

theorem rejected_map_unchanged (n : Node) (op : MapOp) (next : Nat) (e : Exc)
    (hat : mapAtomic n op = true) (h : (mapStep n op next).out = .exc e) :
    (mapStep n op next).node = n ∧ (mapStep n op next).detached = [] := by
  unfold mapStep at h ⊢
  cases op <;> simp only [mapAtomic] at hat <;> dsimp only at h ⊢ <;>
    (try unfold mapSetItem at h ⊢) <;> (repeat' split) <;> simp_all [excOut]

theorem rejected_node_unchanged (n : Node) (op : Op) (next : Nat) (e : Exc)
    (hat : opAtomic n op = true) (h : (nodeStep n op next).out = .exc e) :
    (nodeStep n op next).node = n ∧ (nodeStep n op next).detached = [] := by
  cases op with
  | seq o =>
    simp only [opAtomic] at hat
    unfold nodeStep at h ⊢
    split at h <;> first
      | (simp only [Op.seq.injEq] at *; subst_vars; exact rejected_seq_unchanged n _ next e hat h)
      | exact ⟨rfl, rfl⟩
      | (simp at *)
  | map o =>
    simp only [opAtomic] at hat
    unfold nodeStep at h ⊢
    split at h <;> first
      | (simp only [Op.map.injEq] at *; subst_vars; exact rejected_map_unchanged n _ next e hat h)
      | exact ⟨rfl, rfl⟩
      | (simp at *)

mutual
/-- **rejected_step_unchanged.**  A call aimed at the element with identity `tid` of a tree, on a rejection route
    at that element, that raises: the tree is returned as it was and nothing is reported as detached. -/
theorem rejected_step_unchanged (op : Op) (tid : Nat) (e : Exc) : ∀ (t : Node) (next : Nat) (r : StepR),
    stepAt t tid op next = some r → r.out = .exc e →
    (∀ n ∈ nodes t, n.id = tid → opAtomic n op = true) → r.node = t ∧ r.detached = []
  | .mk i s kids, next, r, hr, he, hat => by
    rw [stepAt] at hr
    split at hr
    · rename_i hid
      cases hr
      exact rejected_node_unchanged _ op next e (hat _ (self_mem_nodes _) hid) he
    · split at hr
      · cases hr
      · rename_i kids' r' hl
        cases hr
        have := rejected_stepL_unchanged op tid e kids next kids' r' hl he
          (fun n hn => hat n (by rw [nodes]; exact List.mem_cons_of_mem _ hn))
        exact ⟨by rw [this.1], this.2⟩
theorem rejected_stepL_unchanged (op : Op) (tid : Nat) (e : Exc) : ∀ (ks : List Node) (next : Nat)
    (ks' : List Node) (r : StepR), stepAtL ks tid op next = some (ks', r) → r.out = .exc e →
    (∀ n ∈ nodesL ks, n.id = tid → opAtomic n op = true) → ks' = ks ∧ r.detached = []
  | [], _, _, _, hr, _, _ => by rw [stepAtL] at hr; cases hr
  | k :: ks, next, ks', r, hr, he, hat => by
    rw [stepAtL] at hr
    split at hr
    · rename_i r1 h1
      cases hr
      have := rejected_step_unchanged op tid e k next _ h1 he
        (fun n hn => hat n (by rw [nodesL]; exact List.mem_append.mpr (.inl hn)))
      exact ⟨by rw [this.1], this.2⟩
    · split at hr
      · cases hr
      · rename_i ks2 r2 h2
        cases hr
        have := rejected_stepL_unchanged op tid e ks next _ _ h2 he
          (fun n hn => hat n (by rw [nodesL]; exact List.mem_append.mpr (.inr hn)))
        exact ⟨by rw [this.1], this.2⟩
end

/-! ### non-vacuity and the excluded calls -/

def isExc (r : StepR) : Bool := match r.out with | .exc _ => true | _ => false
def sameIds (a b : Node) : Bool := ids a == ids b

/-- non-vacuity: `lst[9] = <element>` on the 3-member List of the example tree is a rejection route, the call
    raises, and (by the theorem) the tree comes back as it was -/
example : opAtomic exS3.root (.seq (.setitem 9 (.elem exArg))) = true := by decide
example : (stepAt exS3.root 1 (.seq (.setitem 9 (.elem exArg))) exS3.next).map
    (fun r => (isExc r, sameIds r.node exS3.root)) = some (true, true) := by decide
/-- an undeclared key on the Dict two levels down: rejected, nothing changes -/
example : (stepAt exS3.root 1000 (.map (.setitem ['q'] (.plain (.int 1)))) exS3.next).map
    (fun r => (isExc r, sameIds r.node exS3.root)) = some (true, true) := by decide

/-- the exclusion of `extend` is needed: the call raises (the second item has an undeclared key) and the member
    built from the first item stays — 4 more identities (slot, Dict, two fields) -/
theorem extend_keeps_prefix :
    (stepAt exS3.root 1 (.seq (.extend [.plain (.dict [(['x'], .int 1)]), .plain (.dict [(['z'], .int 1)])])) exS3.next).map
      (fun r => (isExc r, (ids r.node).length, (ids exS3.root).length)) = some (true, 20, 16) := by decide
/-- the exclusion of `lst[i] = <plain value>` with a valid index on a List is needed: `lst[0].set({'z': 1})` raises
    after the Dict member was reset (KF-C09-b) -/
theorem setitem_plain_sets_in_place :
    (stepAt exS3.root 1 (.seq (.setitem 0 (.plain (.dict [(['z'], .int 1)])))) exS3.next).map
      (fun r => (isExc r, sameIds r.node exS3.root)) = some (true, false) := by decide

end Flatland.C08.Proofs
