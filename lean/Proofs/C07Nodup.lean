/-
C07 — "keys are unique except for the repeated members of an Array / MultiValue", as theorems.

`Proofs/C07Unique.lean` shows that two emitted pairs with the same key belong to elements with the
same *name path*.  Here: different elements have different name paths, unless they are members of one
Array / MultiValue.  For every well-formed schema `s` without SparseDicts and every conforming state
`e` (`OkP env s e`):

* `paths_nodup_arrLe1` / `keys_nodup_arrLe1`: if every Array / MultiValue of `e` holds at most one
  member, the emitted token paths — and, under `SepSafe`, the emitted keys — are pairwise distinct;
* `paths_nodup_noArray` / `keys_nodup_noArray` (U1): in particular so when the schema has no
  Array / MultiValue at all;
* `paths_nodup_firstOnly`, `paths_firstOnly_iff` / `keys_nodup_firstOnly`, `keys_firstOnly_iff` (U2):
  in general, cutting every Array / MultiValue down to its first member (`firstOnly`) leaves a
  conforming state that emits pairwise distinct paths (keys) and exactly the same *set* of paths
  (keys) as `e`: the only repeats are the 2nd, 3rd, … members of an Array / MultiValue, which repeat
  the path (key) of its first member.

No hypothesis on the root (`rootOK`) and none on the interpreter's digit table (`EnvOK`) is needed:
an anonymous scalar root emits the single empty path, and the decimal forms of different indexes
differ whatever the table.
-/
import Proofs.Lemmas.C07PathsSchema
import Proofs.C07Unique
namespace Flatland.Flat.Proofs
open Flatland.Flat Flatland.Flat.Spec

/-- the keys `flatten()` emits are the separator-joins of the emitted token paths, in order -/
theorem flatten_keys_eq (env : Env) (sep : Str) (s : Schema) (e : Elem) :
    (flatten env sep s e).map Prod.fst
      = ((relFlat (resolve env s e)).map Prod.fst).map (joinSep sep) := by
  rw [flatten_eq_relFlat, List.map_map, List.map_map]
  rfl

/-- **Every token of an emitted path is a declared name or a decimal index.** -/
theorem emitted_path_tokens (env : Env) (s : Schema) (e : Elem) (hw : wf s = true) (hd : dense s = true)
    (hok : OkP env s e) : ∀ π ∈ (relFlat (resolve env s e)).map Prod.fst, ∀ t ∈ π, Tok s t :=
  path_tokens env s hw hd e hok

/-- from distinct paths to distinct keys: the separator-join is injective on token paths -/
theorem keys_nodup_of_paths_nodup (env : Env) (sep : Str) (s : Schema) (e : Elem)
    (hs : SepSafe env sep (Tok s)) (hw : wf s = true) (hd : dense s = true) (hok : OkP env s e)
    (h : ((relFlat (resolve env s e)).map Prod.fst).Nodup) :
    ((flatten env sep s e).map Prod.fst).Nodup := by
  rw [flatten_keys_eq]
  apply nodup_map_of_inj_on _ _ _ h
  intro a ha b hb hab
  exact joinSep_inj hs a b (emitted_path_tokens env s e hw hd hok a ha)
    (emitted_path_tokens env s e hw hd hok b hb) hab

/-! ### states whose Arrays hold at most one member -/

/-- **Distinct elements have distinct name paths** when no Array / MultiValue holds more than one
    member. -/
theorem paths_nodup_arrLe1 (env : Env) (s : Schema) (e : Elem) (hw : wf s = true) (hd : dense s = true)
    (hok : OkP env s e) (hle : arrLe1 s e) : ((relFlat (resolve env s e)).map Prod.fst).Nodup :=
  paths_nodup_of_arrLe1 env s hw hd e hok hle

theorem keys_nodup_arrLe1 (env : Env) (sep : Str) (s : Schema) (e : Elem)
    (hs : SepSafe env sep (Tok s)) (hw : wf s = true) (hd : dense s = true) (hok : OkP env s e)
    (hle : arrLe1 s e) : ((flatten env sep s e).map Prod.fst).Nodup :=
  keys_nodup_of_paths_nodup env sep s e hs hw hd hok (paths_nodup_arrLe1 env s e hw hd hok hle)

/-! ### U1: schemas without Array / MultiValue -/

/-- **U1, paths.**  Without Arrays / MultiValues the emitted token paths are pairwise distinct. -/
theorem paths_nodup_noArray (env : Env) (s : Schema) (e : Elem) (hw : wf s = true) (hd : dense s = true)
    (hna : noArray s = true) (hok : OkP env s e) : ((relFlat (resolve env s e)).map Prod.fst).Nodup :=
  paths_nodup_arrLe1 env s e hw hd hok (arrLe1_of_noArray s hna e)

/-- **U1, keys.**  Without Arrays / MultiValues the emitted keys are pairwise distinct. -/
theorem keys_nodup_noArray (env : Env) (sep : Str) (s : Schema) (e : Elem)
    (hs : SepSafe env sep (Tok s)) (hw : wf s = true) (hd : dense s = true) (hna : noArray s = true)
    (hok : OkP env s e) : ((flatten env sep s e).map Prod.fst).Nodup :=
  keys_nodup_arrLe1 env sep s e hs hw hd hok (arrLe1_of_noArray s hna e)

/-! ### U2: the general clause -/

/-- cutting Arrays down to their first member leaves a conforming state … -/
theorem firstOnly_conforms (env : Env) (s : Schema) (e : Elem) (hw : wf s = true) (hd : dense s = true)
    (hok : OkP env s e) : OkP env s (firstOnly s e) :=
  (firstOnly_ok env s hw hd e hok).1

/-- … in which no Array holds more than one member … -/
theorem firstOnly_arrLe1 (env : Env) (s : Schema) (e : Elem) (hw : wf s = true) (hd : dense s = true)
    (hok : OkP env s e) : arrLe1 s (firstOnly s e) :=
  (firstOnly_ok env s hw hd e hok).2.1

/-- … and it changes nothing when there was nothing to cut (so U1 is the special case of U2 in which
    `firstOnly s e = e`) -/
theorem firstOnly_eq_self : ∀ (s : Schema) (e : Elem), arrLe1 s e → firstOnly s e = e := by
  have hfields : ∀ (fs : List Schema) (ms : List (Str × Elem)),
      (∀ f ∈ fs, ∀ e, arrLe1 f e → firstOnly f e = e) → arrLe1Fields fs ms → firstOnlyFields fs ms = ms := by
    intro fs
    induction fs with
    | nil => intro ms _ _; simp [firstOnlyFields]
    | cons f fs ih =>
      intro ms hall hle
      cases ms with
      | nil => simp [firstOnlyFields]
      | cons m ms =>
        obtain ⟨k, e⟩ := m
        simp only [arrLe1Fields] at hle
        simp only [firstOnlyFields]
        rw [hall f (by simp) e hle.1, ih ms (fun g hg => hall g (List.mem_cons_of_mem _ hg)) hle.2]
  intro s
  induction s using schema_ind with
  | hleaf nm o k => intro e _; simp [firstOnly]
  | hjoined nm o k m => intro e _; simp [firstOnly]
  | hdict nm o mode fields ih =>
    intro e hle
    cases e with
    | dict ms =>
      simp only [arrLe1] at hle
      simp only [firstOnly]
      rw [hfields fields ms ih hle]
    | _ => simp [firstOnly]
  | hcompound nm o k fields ih =>
    intro e hle
    cases e with
    | dict ms =>
      simp only [arrLe1] at hle
      simp only [firstOnly]
      rw [hfields fields ms ih hle]
    | _ => simp [firstOnly]
  | hlist nm o p mx member ih =>
    intro e hle
    cases e with
    | list ms =>
      simp only [arrLe1] at hle
      simp only [firstOnly]
      congr 1
      have : ms.map (firstOnly member) = ms.map id :=
        List.map_congr_left (fun m hm => ih m (hle m hm))
      rw [this, List.map_id]
    | _ => simp [firstOnly]
  | harray nm o p member ih =>
    intro e hle
    cases e with
    | array ms =>
      simp only [arrLe1] at hle
      simp only [firstOnly]
      rw [List.take_of_length_le hle]
    | _ => simp [firstOnly]

/-- **U2, paths are distinct up to Array members.**  With every Array / MultiValue cut down to its
    first member, the emitted token paths are pairwise distinct. -/
theorem paths_nodup_firstOnly (env : Env) (s : Schema) (e : Elem) (hw : wf s = true) (hd : dense s = true)
    (hok : OkP env s e) : ((relFlat (resolve env s (firstOnly s e))).map Prod.fst).Nodup :=
  paths_nodup_arrLe1 env s (firstOnly s e) hw hd (firstOnly_conforms env s e hw hd hok)
    (firstOnly_arrLe1 env s e hw hd hok)

/-- **U2, nothing else is lost.**  Cutting the Arrays down does not change the *set* of emitted
    paths: the only repeated paths are those of the 2nd, 3rd, … member of an Array / MultiValue, and
    they repeat the path of its first member. -/
theorem paths_firstOnly_iff (env : Env) (s : Schema) (e : Elem) (hw : wf s = true) (hd : dense s = true)
    (hok : OkP env s e) (π : List Str) :
    π ∈ (relFlat (resolve env s e)).map Prod.fst
      ↔ π ∈ (relFlat (resolve env s (firstOnly s e))).map Prod.fst :=
  (firstOnly_ok env s hw hd e hok).2.2 π

/-- **U2, keys.** -/
theorem keys_nodup_firstOnly (env : Env) (sep : Str) (s : Schema) (e : Elem)
    (hs : SepSafe env sep (Tok s)) (hw : wf s = true) (hd : dense s = true) (hok : OkP env s e) :
    ((flatten env sep s (firstOnly s e)).map Prod.fst).Nodup :=
  keys_nodup_arrLe1 env sep s (firstOnly s e) hs hw hd (firstOnly_conforms env s e hw hd hok)
    (firstOnly_arrLe1 env s e hw hd hok)

theorem keys_firstOnly_iff (env : Env) (sep : Str) (s : Schema) (e : Elem) (hw : wf s = true)
    (hd : dense s = true) (hok : OkP env s e) (k : Str) :
    k ∈ (flatten env sep s e).map Prod.fst ↔ k ∈ (flatten env sep s (firstOnly s e)).map Prod.fst := by
  rw [flatten_keys_eq, flatten_keys_eq, List.mem_map, List.mem_map]
  constructor
  · rintro ⟨π, hπ, rfl⟩
    exact ⟨π, (paths_firstOnly_iff env s e hw hd hok π).mp hπ, rfl⟩
  · rintro ⟨π, hπ, rfl⟩
    exact ⟨π, (paths_firstOnly_iff env s e hw hd hok π).mpr hπ, rfl⟩

end Flatland.Flat.Proofs
