/-
C01: `roundtrip_pruned` (no SparseDicts) is the special case of `roundtrip_sparse` — every `OkP` state
is an `OkS` state, and on schemas without SparseDicts `prS` and `pr` rebuild the same tree.
-/
import Proofs.C01SparseAll
namespace Flatland.Flat.Proofs
open Flatland.Flat Flatland.Flat.Spec

theorem nodup_of_map_some {α} : ∀ (l : List α), (l.map some).Nodup → l.Nodup
  | [], _ => List.nodup_nil
  | a :: as, h => by
    simp only [List.map_cons, List.nodup_cons, List.mem_map, Option.some.injEq, exists_eq_right] at h
    exact List.nodup_cons.mpr ⟨h.1, nodup_of_map_some as h.2⟩

mutual
/-- a conforming state in the sense of the dense theorems conforms in the general sense -/
theorem okS_of_okP (env : Env) : ∀ s : Schema, wf s = true → ∀ e : Elem, OkP env s e → OkS env s e
  | .leaf n o k, _, e, h => by simpa only [OkS] using h
  | .joined n o k m, _, e, h => by simpa only [OkS] using h
  | .array n o p m, _, e, h => by simpa only [OkS] using h
  | .list nm o p mx member, hw, e, h => by
    cases e with
    | list ms =>
      simp only [OkP] at h
      simp only [wf] at hw
      simp only [OkS]
      exact ⟨h.1, h.2.1, fun x hx => okS_of_okP env member hw x (h.2.2 x hx)⟩
    | _ => simp [OkP] at h
  | .dict nm o mode fields, hw, e, h => by
    cases e with
    | dict ms =>
      simp only [OkP] at h
      simp only [wf, Bool.and_eq_true] at hw
      have hnd : (namesOf fields).Nodup := by simpa using hw.2
      simp only [OkS]
      refine ⟨?_, okSAny_of_okPFields env fields hw.1.1 ms h.2⟩
      apply nodup_of_map_some
      rw [List.map_map]
      have := okFields_keysP env fields ms h.2
      simp only [Function.comp_def]
      rw [this]; exact hnd
    | _ => simp [OkP] at h
  | .compound nm o k fields, hw, e, h => by
    cases e with
    | dict ms =>
      simp only [OkP] at h
      simp only [wf, Bool.and_eq_true] at hw
      have hnd : (namesOf fields).Nodup := by simpa using hw.2
      simp only [OkS]
      refine ⟨?_, okSAny_of_okPFields env fields hw.1.1 ms h⟩
      apply nodup_of_map_some
      rw [List.map_map]
      have := okFields_keysP env fields ms h
      simp only [Function.comp_def]
      rw [this]; exact hnd
    | _ => simp [OkP] at h
theorem okSAny_of_okPFields (env : Env) : ∀ fs : List Schema, wfL fs = true →
    ∀ ms : List (Str × Elem), OkPFields env fs ms → ∀ p ∈ ms, OkSAny env fs p.1 p.2
  | [], _, [], _ => by simp
  | [], _, _ :: _, h => by simp [OkPFields] at h
  | _ :: _, _, [], _ => by simp
  | f :: fs, hw, (k, e) :: ms, h => by
    simp only [OkPFields] at h
    simp only [wfL, Bool.and_eq_true] at hw
    intro p hp
    simp only [OkSAny]
    rcases List.mem_cons.mp hp with rfl | hp
    · exact Or.inl ⟨h.1, okS_of_okP env f hw.1 e h.2.1⟩
    · exact Or.inr (okSAny_of_okPFields env fs hw.2 ms h.2.2 p hp)
end

/-- **without SparseDicts `prS` is the documented pruning `pr`** — so `roundtrip_sparse` extends
    `roundtrip_pruned`, and KF-C01-d/e are the whole difference SparseDicts make. -/
theorem prS_eq_pr (env : Env) (sep : Str) (s : Schema) (e : Elem)
    (hs : SepSafe env sep (Tok s)) (henv : EnvOK env) (hw : wf s = true) (hd : dense s = true)
    (hroot : rootOK s = true) (hok : OkP env s e) :
    prS env sep false s e = pr env false s e := by
  rw [← roundtrip_sparse env sep s e hs henv hw hroot (okS_of_okP env s hw e hok),
    roundtrip_pruned env sep s e hs henv hw hd hroot hok]

end Flatland.Flat.Proofs
