/-
C10, third part — a mapping never holds two members under one key.

The model keeps the underlying `dict` of a Mapping as an insertion-ordered LIST of children; that
two children never share a key is therefore not by construction (as it is for a Python dict) but an
invariant of the calls: `__setitem__` / `update` / `|=` / `set` / `setdefault` append a member only
after `dict.__contains__` answered False, and replace in place otherwise; `_reset()` builds one
child per (distinct) field name; `del` / `pop` only remove.

* `nodup_init`, `nodup_step`, `nodup_run` : `KeysNodup` initially, after every call, along every history
  — for EVERY argument (no `ArgExact`: the key under which an Element is stored is the key of the call,
  whatever class or name the Element has) and for Dict and SparseDict alike.
* `sparse_keys_nodup` : the user-facing form for a SparseDict (with `sparse_keys`: a duplicate-free
  subset of the declared names, containing the required ones).
* `kok_root_clause` : the mapping clause of C08's `kok` ("unique keys per mapping node",
  `Proofs/Lemmas/C08Ids.lean: kok_iff`) holds at the root of every reachable state.
-/
import Proofs.C10Keys
namespace Flatland.C10.Proofs
open Flatland.Tree Flatland.PyList Flatland.C10 Flatland.C10.Spec

/-- no two members of the mapping are stored under the same key -/
def KeysNodup (n : Node) : Prop := (keys n).Nodup

abbrev ND (kids : List Node) : Prop := (kids.map Node.key).Nodup

theorem nodup_snoc {α : Type} {l : List α} {a : α} (h : l.Nodup) (ha : a ∉ l) : (l ++ [a]).Nodup := by
  induction l with
  | nil => simp
  | cons x xs ih =>
    rw [List.nodup_cons] at h
    have hax : a ≠ x := fun hx => ha (by simp [hx])
    have haxs : a ∉ xs := fun hx => ha (by simp [hx])
    rw [List.cons_append, List.nodup_cons]
    refine ⟨?_, ih h.2 haxs⟩
    intro hm
    rcases List.mem_append.mp hm with hm | hm
    · exact h.1 hm
    · simp only [List.mem_singleton] at hm; exact hax hm.symm

theorem ND.append {kids : List Node} {new : Node} (h : ND kids) (hn : new.key ∉ kids.map Node.key) :
    ND (kids ++ [new]) := by
  unfold ND; rw [List.map_append]; exact nodup_snoc h hn

theorem ND.replace {kids : List Node} {k : Str} {new : Node} (h : ND kids) (hn : new.key = k) :
    ND (replaceKid kids k new) := by
  unfold ND; rw [replaceKid_keys kids k new hn]; exact h

theorem ND.erase {kids : List Node} (h : ND kids) (k : Str) : ND (eraseKey kids k) := by
  unfold ND eraseKey
  exact List.Nodup.sublist (List.Sublist.map _ List.filter_sublist) h

theorem nodup_filter_keys {subs : List Schema} (h : (subs.map Schema.key).Nodup) (p : Schema → Bool) :
    ((subs.filter p).map Schema.key).Nodup :=
  List.Nodup.sublist (List.Sublist.map _ List.filter_sublist) h

theorem blankFields_nodup {subs : List Schema} (h : (subs.map Schema.key).Nodup) (pid : Nat) (b : Bool) (next : Nat) :
    ND (blankFields subs pid b next).1 := by
  unfold ND
  rw [(blankFields_ok subs subs pid b next (fun f hf => hf)).2]
  exact nodup_filter_keys h _

theorem defaultFields_nodup {subs : List Schema} (h : (subs.map Schema.key).Nodup) (pid : Nat) (b : Bool) (next : Nat) :
    ND (defaultFields subs pid b next).1 := by
  unfold ND
  rw [(defaultFields_ok subs subs pid b next (fun f hf => hf)).2]
  exact nodup_filter_keys h _

theorem resetKids_nodup (n : Node) (hnd : FieldsNodup n) (next : Nat) : ND (resetKids n next).1 := by
  unfold resetKids
  split
  · exact blankFields_nodup hnd _ _ _
  · split
    · exact blankFields_nodup hnd _ _ _
    · exact List.nodup_nil

/-! ### `Dict.set`'s loop: replace in place, or append after `dict.__contains__` said no -/

theorem setPairs_nodup (pid : Nat) (subs : List Schema) (kvs : List (Str × Raw)) :
    ∀ (kids : List Node) (next : Nat), ND kids → ND (setPairs pid subs kids kvs next).1 := by
  induction kvs with
  | nil => intro kids next h; exact h
  | cons kv rest ih =>
    intro kids next h
    obtain ⟨k, v⟩ := kv
    rw [setPairs]
    cases hf : fieldFor subs k with
    | none => exact ih kids next h
    | some f =>
      cases hc : findKid kids k with
      | some child =>
        obtain ⟨_, hck⟩ := findKid_some hc
        have hh := setNode_hdr child v none next
        have hnk : (setNode child v none next).node.key = k := by rw [(hdr_parts hh).2.2.2.1, hck]
        have hr : ND (replaceKid kids k (setNode child v none next).node) := h.replace hnk
        simp only
        cases hres : (setNode child v none next).res with
        | error e => exact hr
        | ok c => exact ih _ _ hr
      | none =>
        have hnot := findKid_none hc
        have hb := blank_hdr f none k next
        have hel := hdr_withParent hb (some pid)
        have hh := setNode_hdr ((blank f none k next).1.withParent (some pid)) v none (blank f none k next).2
        have hnk : (setNode ((blank f none k next).1.withParent (some pid)) v none (blank f none k next).2).node.key = k := by
          rw [(hdr_parts hh).2.2.2.1, (hdr_eq_parts hel).2.2.2.1]
        have hr : ND (kids ++ [(setNode ((blank f none k next).1.withParent (some pid)) v none (blank f none k next).2).node]) :=
          h.append (by rw [hnk]; exact hnot)
        simp only
        cases hres : (setNode ((blank f none k next).1.withParent (some pid)) v none (blank f none k next).2).res with
        | error e => exact hr
        | ok c => exact ih _ _ hr

theorem setNode_map_nodup (n : Node) (hk : MapKind n) (hnd : FieldsNodup n) (h : ND n.kids) (raw : Raw)
    (pol : Option Policy) (next : Nat) : ND (setNode n raw pol next).node.kids := by
  cases n with
  | mk i s kids =>
    have hreset := resetKids_nodup (.mk i s kids) hnd next
    have hprep : ∀ kvs r, dictPrep i s kvs pol next = .error r → ND r.node.kids := by
      intro kvs r hr
      simp only [dictPrep] at hr
      cases hp : policyCheck (pol.getD s.info.policy) s.subs kvs with
      | ok u => simp [hp] at hr
      | error e => simp [hp] at hr; subst hr; exact hreset
    have hprep2 : ∀ kvs fresh n1, dictPrep i s kvs pol next = .ok (fresh, n1) → ND fresh := by
      intro kvs fresh n1 hr
      simp only [dictPrep] at hr
      cases hp : policyCheck (pol.getD s.info.policy) s.subs kvs with
      | error e => simp [hp] at hr
      | ok u =>
        simp [hp] at hr
        have h2 := congrArg Prod.fst hr
        simp only at h2
        rw [← h2]; exact hreset
    have hkind : s.kind = .dict ∨ s.kind = .sparse := hk
    unfold setNode
    rcases hkind with hkd | hkd <;> simp only [hkd] <;>
    · split
      · split
        · rename_i r hr; exact hprep _ r hr
        · rename_i fresh n1 hr; exact setPairs_nodup _ _ _ _ _ (hprep2 _ fresh n1 hr)
      · split
        · rename_i r hr; exact hprep _ r hr
        · rename_i fresh n1 hr; exact setPairs_nodup _ _ _ _ _ (hprep2 _ fresh n1 hr)
      · split
        · rename_i r hr; exact hprep _ r hr
        · rename_i fresh n1 hr; exact hprep2 _ fresh n1 hr
      · split
        · rename_i r hr; exact hprep _ r hr
        · rename_i fresh n1 hr; exact hprep2 _ fresh n1 hr
      all_goals exact h

theorem keys_of_map_hdr {a b : List Node} (hab : a.map Node.hdr = b.map Node.hdr) : a.map Node.key = b.map Node.key := by
  have := congrArg (List.map (fun t : Nat × Option Nat × Schema × Str × Option Bool × Option Str => t.2.2.2.1)) hab
  simpa [List.map_map, Function.comp_def, Node.hdr] using this

theorem setDefault_map_nodup (n : Node) (hk : MapKind n) (hnd : FieldsNodup n) (h : ND n.kids) (next : Nat) :
    ND (setDefault n next).node.kids := by
  cases n with
  | mk i s kids =>
    have hkind : s.kind = .dict ∨ s.kind = .sparse := hk
    unfold setDefault
    rcases hkind with hkd | hkd <;> simp only [hkd]
    · split
      · show ND (setDefaultKids kids next).1
        unfold ND; rw [keys_of_map_hdr (setDefaultKids_hdr kids next)]; exact h
      · exact setNode_map_nodup (.mk i s kids) hk hnd h _ _ _
    · split
      · split
        · exact defaultFields_nodup hnd _ _ _
        · exact List.nodup_nil
      · exact setNode_map_nodup (.mk i s kids) hk hnd h _ _ _

/-! ### item assignment, update — for EVERY argument -/

theorem key_withScalar (x : Node) (v : Val) (u : Str) : (x.withScalar v u).key = x.key := by cases x; rfl

theorem mapSetItem_nodup (n : Node) (h : ND n.kids) (key : Str) (a : Arg) (next : Nat) :
    (mapSetItem n key a next).node.sch = n.sch ∧ ND (mapSetItem n key a next).node.kids := by
  unfold mapSetItem
  split
  · dsimp only
    cases hc : findKid n.kids key with
    | none =>
      have hnot := findKid_none hc
      simp only
      cases hf : fieldFor n.sch.subs key with
      | none => exact ⟨rfl, h⟩
      | some f =>
        simp only
        cases a with
        | elem e =>
          simp only
          split
          · refine ⟨rfl, ?_⟩
            rw [kids_withKids]
            exact h.append (by rw [placed_key]; exact hnot)
          · split
            · rename_i v u ok _
              refine ⟨rfl, ?_⟩
              rw [kids_withKids]
              have hb := blank_hdr f (some n.id) key next
              refine h.append ?_
              rw [key_withScalar, (hdr_eq_parts hb).2.2.2.1]; exact hnot
            · exact ⟨rfl, h⟩
        | plain r =>
          simp only
          split
          · exact ⟨rfl, h⟩
          · rename_i el n1 hcon
            refine ⟨rfl, ?_⟩
            rw [kids_withKids]
            have hh := construct_hdr f r (some n.id) key next el (by rw [hcon])
            refine h.append ?_
            rw [(hdr_eq_parts hh).2.2.2.1]; exact hnot
    | some child =>
      obtain ⟨_, hck⟩ := findKid_some hc
      have hset : ∀ (s : SetR), s.node.hdr = child.hdr → ND (replaceKid n.kids key s.node) := by
        intro s hs
        exact h.replace (by rw [(hdr_parts hs).2.2.2.1, hck])
      simp only
      split
      · exact ⟨rfl, h⟩
      · split
        · refine ⟨rfl, ?_⟩
          rw [kids_withKids]
          exact h.replace (placed_key _ _ _)
        · split <;> refine ⟨rfl, ?_⟩ <;> (try rw [excOut]) <;> rw [kids_withKids] <;> exact hset _ (setChild_hdr _ _ _)
      · split <;> refine ⟨rfl, ?_⟩ <;> (try rw [excOut]) <;> rw [kids_withKids] <;> exact hset _ (setChild_hdr _ _ _)
  · cases hc : findKid n.kids key with
    | none => exact ⟨rfl, h⟩
    | some child =>
      obtain ⟨_, hck⟩ := findKid_some hc
      have hset : ∀ (s : SetR), s.node.hdr = child.hdr → ND (replaceKid n.kids key s.node) := by
        intro s hs
        exact h.replace (by rw [(hdr_parts hs).2.2.2.1, hck])
      dsimp only
      split <;> refine ⟨rfl, ?_⟩ <;> (try rw [excOut]) <;> rw [kids_withKids] <;> exact hset _ (setChild_hdr _ _ _)

theorem mapUpdatePairs_nodup (kvs : List (Str × Raw)) :
    ∀ (n : Node) (next : Nat), ND n.kids →
      (mapUpdatePairs n kvs next).node.sch = n.sch ∧ ND (mapUpdatePairs n kvs next).node.kids := by
  induction kvs with
  | nil => intro n next h; exact ⟨rfl, h⟩
  | cons kv rest ih =>
    intro n next h
    obtain ⟨k, v⟩ := kv
    have hs := mapSetItem_nodup n h k (.plain v) next
    rw [mapUpdatePairs]
    split
    · exact hs
    · have := ih _ (mapSetItem n k (.plain v) next).next hs.2
      exact ⟨this.1.trans hs.1, this.2⟩

theorem mapUpdateArgs_nodup (kvs : List (Str × Arg)) :
    ∀ (n : Node) (next : Nat), ND n.kids →
      (mapUpdateArgs n kvs next).node.sch = n.sch ∧ ND (mapUpdateArgs n kvs next).node.kids := by
  induction kvs with
  | nil => intro n next h; exact ⟨rfl, h⟩
  | cons kv rest ih =>
    intro n next h
    obtain ⟨k, a⟩ := kv
    have hs := mapSetItem_nodup n h k a next
    rw [mapUpdateArgs]
    split
    · exact hs
    · have := ih _ (mapSetItem n k a next).next hs.2
      exact ⟨this.1.trans hs.1, this.2⟩

/-! ### every call -/

theorem sch_of_hdr {a b : Node} (h : a.hdr = b.hdr) : a.sch = b.sch := (hdr_parts h).2.2.1

theorem mapStep_nodup (n : Node) (hk : MapKind n) (hnd : FieldsNodup n) (h : ND n.kids) (op : MapOp) (next : Nat) :
    (mapStep n op next).node.sch = n.sch ∧ ND (mapStep n op next).node.kids := by
  unfold mapStep
  cases op with
  | setitem k a => exact mapSetItem_nodup n h k a next
  | delitem k =>
    dsimp only
    split
    · split <;> exact ⟨rfl, h⟩
    · split
      · split
        · refine ⟨rfl, ?_⟩; rw [kids_withKids]; exact h.erase k
        · split <;> exact ⟨rfl, h⟩
      · split
        · exact ⟨rfl, h⟩
        · exact ⟨rfl, h⟩
        · split
          · refine ⟨rfl, ?_⟩; rw [kids_withKids]; exact h.erase k
          · exact ⟨rfl, h⟩
  | pop k =>
    dsimp only
    split
    · exact ⟨rfl, h⟩
    · split
      · exact ⟨rfl, h⟩
      · split
        · exact ⟨rfl, h⟩
        · split
          · refine ⟨rfl, ?_⟩; rw [kids_withKids]; exact h.erase k
          · exact ⟨rfl, h⟩
  | popitem => dsimp only; split <;> exact ⟨rfl, h⟩
  | clear =>
    dsimp only
    split
    · refine ⟨?_, ?_⟩
      · show (mapReset n next).1.sch = n.sch
        rw [mapReset_eq]; rfl
      · show ND (mapReset n next).1.kids
        rw [mapReset_eq, kids_withKids]; exact resetKids_nodup n hnd next
    · exact ⟨rfl, h⟩
  | update pos kw =>
    dsimp only
    split
    · exact mapUpdatePairs_nodup kw n next h
    · split
      · exact ⟨rfl, h⟩
      · exact ⟨rfl, h⟩
      · rename_i kvs _
        have h1 := mapUpdatePairs_nodup kvs n next h
        split
        · exact h1
        · have h2 := mapUpdatePairs_nodup kw _ (mapUpdatePairs n kvs next).next h1.2
          exact ⟨h2.1.trans h1.1, h2.2⟩
  | updateArgs kvs => exact mapUpdateArgs_nodup kvs n next h
  | ior raw =>
    dsimp only
    split
    · exact ⟨rfl, h⟩
    · exact ⟨rfl, h⟩
    · exact mapUpdatePairs_nodup _ n next h
  | setdefault k d =>
    dsimp only
    split
    · exact ⟨rfl, h⟩
    · split
      · exact ⟨rfl, h⟩
      · split
        · rename_i child hc
          obtain ⟨_, hck⟩ := findKid_some hc
          split
          · exact ⟨rfl, h⟩
          · have hh := setNode_hdr child d none next
            have hr : ND (replaceKid n.kids k (setNode child d none next).node) :=
              h.replace (by rw [(hdr_parts hh).2.2.2.1, hck])
            split <;> refine ⟨rfl, ?_⟩ <;> (try rw [excOut]) <;> rw [kids_withKids] <;> exact hr
        · rename_i hc
          have hnot := findKid_none hc
          split
          · exact ⟨rfl, h⟩
          · rename_i f hf
            have hb := blank_hdr f none k next
            have hel := hdr_withParent hb (some n.id)
            have hh := setNode_hdr ((blank f none k next).1.withParent (some n.id)) d none (blank f none k next).2
            have hnk : (setNode ((blank f none k next).1.withParent (some n.id)) d none (blank f none k next).2).node.key = k := by
              rw [(hdr_parts hh).2.2.2.1, (hdr_eq_parts hel).2.2.2.1]
            have hr := h.append (new := (setNode ((blank f none k next).1.withParent (some n.id)) d none (blank f none k next).2).node)
              (by rw [hnk]; exact hnot)
            split <;> refine ⟨rfl, ?_⟩ <;> (try rw [excOut]) <;> rw [kids_withKids] <;> exact hr
  | get k => dsimp only; split <;> exact ⟨rfl, h⟩
  | set raw pol =>
    dsimp only
    split
    · split <;> exact ⟨sch_of_hdr (setNode_hdr _ _ _ _), setNode_map_nodup n hk hnd h _ _ _⟩
    · split <;> exact ⟨sch_of_hdr (setNode_hdr _ _ _ _), setNode_map_nodup n hk hnd h _ _ _⟩
    · split <;> exact ⟨sch_of_hdr (setNode_hdr _ _ _ _), setNode_map_nodup n hk hnd h _ _ _⟩
  | setDefault => dsimp only; split <;> exact ⟨sch_of_hdr (setDefault_hdr _ _), setDefault_map_nodup n hk hnd h _⟩
  | contains k => exact ⟨rfl, h⟩
  | len => exact ⟨rfl, h⟩

/-! ### the property theorems -/

/-- **nodup_init.**  A freshly constructed Dict / SparseDict (`schema()`: `_reset()` has run) holds at
    most one member per key. -/
theorem nodup_init (s : Schema) (hk : s.kind = .dict ∨ s.kind = .sparse) (hnd : (s.subs.map Schema.key).Nodup)
    (parent : Option Nat) (key : Str) (next : Nat) : KeysNodup (blank s parent key next).1 := by
  cases s with
  | mk info dflt subs =>
    have hki : info.kind = .dict ∨ info.kind = .sparse := hk
    unfold KeysNodup keys blank
    rcases hki with hd | hd
    · simp only [hd]; exact blankFields_nodup hnd _ _ _
    · simp only [hd]
      split
      · exact blankFields_nodup hnd _ _ _
      · exact List.nodup_nil

/-- **nodup_step.**  Every dict-protocol call — item assignment of a plain value or of ANY Element,
    del, pop, popitem, clear, update in every form, `|=`, setdefault, get, set under every policy,
    set_default; accepted or raising — leaves at most one member per key.  No hypothesis on the
    arguments. -/
theorem nodup_step {n : Node} (h : KeysNodup n) (hk : MapKind n) (hnd : FieldsNodup n) (op : MapOp) (next : Nat) :
    KeysNodup (mapStep n op next).node :=
  (mapStep_nodup n hk hnd h op next).2

/-- **nodup_run.**  The same along every history. -/
theorem nodup_run (ops : List MapOp) :
    ∀ (n : Node) (next : Nat), KeysNodup n → MapKind n → FieldsNodup n →
      (run ⟨n, next⟩ ops).node.sch = n.sch ∧ KeysNodup (run ⟨n, next⟩ ops).node := by
  induction ops with
  | nil => intro n next h _ _; exact ⟨rfl, h⟩
  | cons op ops ih =>
    intro n next h hk hnd
    have hs := mapStep_nodup n hk hnd h op next
    have hk' : MapKind (mapStep n op next).node := by unfold MapKind Node.kind at *; rw [hs.1]; exact hk
    have hnd' : FieldsNodup (mapStep n op next).node := by unfold FieldsNodup at *; rw [hs.1]; exact hnd
    have := ih (mapStep n op next).node (mapStep n op next).next hs.2 hk' hnd'
    simp only [run, List.foldl_cons, step] at this ⊢
    exact ⟨this.1.trans hs.1, this.2⟩

/-- **sparse_keys_nodup.**  Along every history of calls — whatever their arguments — a SparseDict
    never holds two members under one key.  (With `sparse_keys`: its key list is a duplicate-free
    sub-multiset of the declared names that contains the required ones.) -/
theorem sparse_keys_nodup (ops : List MapOp) (s : Schema) (hsp : s.kind = .sparse)
    (hnd : (s.subs.map Schema.key).Nodup) (parent : Option Nat) (key : Str) (next next' : Nat) :
    (keys (run ⟨(blank s parent key next).1, next'⟩ ops).node).Nodup := by
  have hb := blank_hdr s parent key next
  have hs : (blank s parent key next).1.sch = s := (hdr_eq_parts hb).2.2.1
  exact (nodup_run ops _ next' (nodup_init s (Or.inr hsp) hnd parent key next)
    (by unfold MapKind Node.kind; rw [hs]; exact Or.inr hsp) (by unfold FieldsNodup; rw [hs]; exact hnd)).2

/-- the same for a Dict, without `ArgExact` (`keys_exact_nodup` needs it because it goes through `keys_exact`) -/
theorem dict_keys_nodup (ops : List MapOp) (s : Schema) (hd : s.kind = .dict)
    (hnd : (s.subs.map Schema.key).Nodup) (parent : Option Nat) (key : Str) (next next' : Nat) :
    (keys (run ⟨(blank s parent key next).1, next'⟩ ops).node).Nodup := by
  have hb := blank_hdr s parent key next
  have hs : (blank s parent key next).1.sch = s := (hdr_eq_parts hb).2.2.1
  exact (nodup_run ops _ next' (nodup_init s (Or.inl hd) hnd parent key next)
    (by unfold MapKind Node.kind; rw [hs]; exact Or.inl hd) (by unfold FieldsNodup; rw [hs]; exact hnd)).2

/-- **kok_root_clause.**  The clause of C08's `kok` that speaks about the node itself ("a mapping node
    has unique keys", `kok_iff` in Proofs/Lemmas/C08Ids.lean) holds at the root of every state a
    history reaches from a fresh mapping: on reachable trees this part of `hstep_idinv`'s `IdInv.keys`
    hypothesis is a consequence of the calls, not an assumption. -/
theorem kok_root_clause (ops : List MapOp) (s : Schema) (hk : s.kind = .dict ∨ s.kind = .sparse)
    (hnd : (s.subs.map Schema.key).Nodup) (next next' : Nat) :
    let r := (run ⟨(blank s none [] next).1, next'⟩ ops).node
    (r.kind = .dict ∨ r.kind = .sparse) → (r.kids.map Node.key).Nodup := by
  intro r _
  rcases hk with hk | hk
  · exact dict_keys_nodup ops s hk hnd none [] next next'
  · exact sparse_keys_nodup ops s hk hnd none [] next next'

/-! ### `FieldsNodup` is exactly the hypothesis

`keys_exact`, `keys_exact_nodup`, `sparse_keys`, `nodup_*`, `compound_keys_exact` all assume `FieldsNodup`
("the class declares every field name once").  `Dict.of` enforces it; the declarative route
(`class X(Schema)` with multiple inheritance) is supposed to produce it ("each name appearing once").  It
cannot be dropped: a class declaring a name twice has, in the model, a fresh instance with two members under
that key (`nodup_init_iff`) — where a Python dict silently keeps the last one, so that the instance holds
fewer members than declared fields and a member of the wrong field class.  The runner reports
`fieldsNodupB` of the declaration it was given next to every trace, the harness reports the same of the real
class: a class with duplicate names is a correspondence failure even before any member is looked at. -/

theorem fieldsNodupB_iff (n : Node) : fieldsNodupB n.sch = true ↔ FieldsNodup n := by
  simp [fieldsNodupB, FieldsNodup]

/-- **nodup_init_iff.**  For a Dict class the fresh instance has pairwise distinct keys IF AND ONLY IF the
    class declares every name once: `FieldsNodup` is necessary, not only sufficient. -/
theorem nodup_init_iff (s : Schema) (hd : s.kind = .dict) (parent : Option Nat) (key : Str) (next : Nat) :
    KeysNodup (blank s parent key next).1 ↔ (s.subs.map Schema.key).Nodup := by
  have hb := blank_hdr s parent key next
  have hs : (blank s parent key next).1.sch = s := (hdr_eq_parts hb).2.2.1
  have hkind : (blank s parent key next).1.kind = .dict := by unfold Node.kind; rw [hs]; exact hd
  have hk := (mapinv_init s (Or.inl hd) parent key next).dense hkind
  rw [hs] at hk
  unfold KeysNodup
  rw [hk]

/-- the seeded shape: `field_schema = [label, ident:Integer, ident:String, extra]` -/
def exDupClass : Schema :=
  .mk { cid := 1, kind := .dict } .none
    [.mk { cid := 4, kind := .string, name := some ['l'] } .none [],
     .mk { cid := 3, kind := .integer, name := some ['i'] } .none [],
     .mk { cid := 2, kind := .string, name := some ['i'] } .none [],
     .mk { cid := 5, kind := .string, name := some ['e'] } .none []]

example : fieldsNodupB exDupClass = false := by decide
example : ¬ KeysNodup (blank exDupClass none [] 1).1 :=
  fun h => absurd ((nodup_init_iff exDupClass rfl none [] 1).mp h) (by decide)

/-! ### non-vacuity -/

/-- the SparseDict history of `C10Keys` (`s['b'] = 5; s.update({'a': 'v'}, c=1); del s['b']; …; s |= [...]; s.set(...)`)
    followed by the same key again through every adding route -/
def exDupHist : List MapOp :=
  exSparseHist ++ [.setitem ['b'] (.plain (.int 1)), .setitem ['b'] (.elem exOwned),
    .updateArgs [(['b'], .plain (.int 2)), (['a'], .elem exOwned), (['a'], .elem exRenamed)],
    .ior (.pairs [(['b'], .int 1), (['b'], .int 2)]), .setdefault ['b'] (.int 9),
    .set (.pairs [(['b'], .int 1), (['a'], .str ['x']), (['b'], .int 3)]) (some (some .duck))]

example : (keys (run ⟨exSparse2, 10⟩ exDupHist).node).Nodup :=
  sparse_keys_nodup exDupHist exSR2 rfl (by decide) none [] 1 10

/-- … and the keys are really there (the history is not a chain of rejections) -/
example : keys (run ⟨exSparse2, 10⟩ exDupHist).node = [['a'], ['b']] := by decide

/-- why this is not by construction: the children are a LIST; a `__setitem__` that appended without
    looking would give two members under 'b' -/
example : ¬ ND ((run ⟨exSparse2, 10⟩ [.setitem ['b'] (.plain (.int 1))]).node.kids ++
    [(blank (exSR2.subs.getD 1 default) (some 1) ['b'] 50).1]) := by decide

end Flatland.C10.Proofs
