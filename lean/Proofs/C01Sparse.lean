/-
C01 — the round trip with SparseDicts.

`roundtrip_sparse`: for EVERY well-formed schema — Dict, Schema, Compound, **SparseDict** (plain and
`minimum_fields='required'`), List (pruning or not), Array / MultiValue, JoinedString, scalars, nested
to any depth —, every `SepSafe` separator and every conforming, settled element state `e` (`OkS`:
the members of a mapping are ANY subset of its declared fields in ANY order),

    from_flat(flatten(e)) = prS e

where `prS` (`Flatland/Spec/C01Sparse.lean`) is the documented pruning `pr` plus the sparse
normalisation of KF-C01-d / KF-C01-e written as a function on element states: a rebuilt mapping
holds its minimum members first, then the other *touched* fields, in declaration order; a member
that emits no surviving pair is absent; an absent field whose name is a prefix of a sibling's key
is materialised blank (the `startswith` of `Mapping._set_flat`).

`roundtrip_pruned` (no SparseDicts) is the special case: `prS_eq_pr`.
-/
import Proofs.Lemmas.C01SparseSeq
import Proofs.C01Prune
namespace Flatland.Flat.Proofs
open Flatland.Flat Flatland.Flat.Spec

variable {env : Env} {sep : Str}

section main
variable (root : Schema) (hs : SepSafe env sep (Tok root)) (henv : EnvOK env)
include hs henv

mutual
/-- every schema below the root round-trips, SparseDicts included -/
theorem rts_all : ∀ s : Schema, (∀ t ∈ names s, t ∈ names root) → wf s = true → RTS env sep s
  | .leaf nm o k, _, _ => by
    intro u e hok
    simp only [OkS] at hok
    simp only [prS]
    exact rtp_leaf nm o k u e hok
  | .joined nm o k m, _, _ => by
    intro u e hok
    simp only [OkS] at hok
    simp only [prS]
    exact rtp_joined nm o k m u e hok
  | .array nm o p member, hsub, _ => by
    intro u e hok
    simp only [OkS] at hok
    simp only [prS]
    refine rtp_array hs nm ?_ o p member ?_ u e hok
    · intro x hx; subst hx
      exact hs.tok_ne x (Or.inl (hsub x (by simp [names])))
    · intro c hc
      exact hs.tok_ne c (Or.inl (hsub c (by
        have := name_mem_names member c hc
        simp [names, this])))
  | .list nm o p mx member, hsub, hw => by
    simp only [wf] at hw
    have hsubm : ∀ t ∈ names member, t ∈ names root := fun t ht => hsub t (by simp [names, ht])
    apply rts_list hs henv nm _ o p mx member
    · intro t ht; exact hs.tok_ne t (Or.inl (hsubm t ht))
    · exact rts_all member hsubm hw
    · intro x hx; subst hx; exact Or.inl (hsub x (by simp [names]))
  | .dict nm o mode fields, hsub, hw => by
    simp only [wf, Bool.and_eq_true] at hw
    have hnd : (namesOf fields).Nodup := by simpa using hw.2
    have hsome := allSome_of fields hw.1.2
    have hsubf : ∀ t ∈ namesL fields, t ∈ names root := fun t ht => hsub t (by simp [names, ht])
    have htok : ∀ g ∈ fields, ∃ x, g.name = some x ∧ Tok root x := by
      intro g hg
      have := hsome g hg
      cases hn : g.name with
      | none => simp [hn] at this
      | some x =>
        exact ⟨x, rfl, Or.inl (hsubf x (names_sub_namesL hg x (name_mem_names g x hn)))⟩
    have hrt := rts_fields fields hsubf hw.1.1
    intro u e hok
    cases e with
    | dict ms =>
      simp only [OkS] at hok
      have hr : resolve env (.dict nm o mode fields) (.dict ms)
          = .mk nm false true [] false (kidsS env fields ms) := by
        unfold resolve
        simp only [membersOf, resolveMembers_kidsS]
      rw [hr, relFlat_eq]
      simp only [ownPath, FNode.fl, Bool.false_eq_true, if_false, List.nil_append, pushed, FNode.cfl,
        if_true, childItems, FNode.slots, FNode.kids, namePath, FNode.name]
      rw [kidsFrom_noslots, blank_dict_members, setFlat]
      simp only [membersOf, prS]
      exact rts_mapping hs nm (fun x hx => by subst hx; exact Or.inl (hsub x (by simp [names])))
        fields hnd htok hrt (isReq mode) ms hok.1 hok.2 u [] (Or.inl rfl) _ rfl _ rfl
    | _ => simp [OkS] at hok
  | .compound nm o k fields, hsub, hw => by
    simp only [wf, Bool.and_eq_true] at hw
    have hnd : (namesOf fields).Nodup := by simpa using hw.2
    have hsome := allSome_of fields hw.1.2
    have hsubf : ∀ t ∈ namesL fields, t ∈ names root := fun t ht => hsub t (by simp [names, ht])
    have htok : ∀ g ∈ fields, ∃ x, g.name = some x ∧ Tok root x := by
      intro g hg
      have := hsome g hg
      cases hn : g.name with
      | none => simp [hn] at this
      | some x =>
        exact ⟨x, rfl, Or.inl (hsubf x (names_sub_namesL hg x (name_mem_names g x hn)))⟩
    have hrt := rts_fields fields hsubf hw.1.1
    intro u e hok
    cases e with
    | dict ms =>
      simp only [OkS] at hok
      have hr : resolve env (.compound nm o k fields) (.dict ms)
          = .mk nm true true (uOf env (.compound nm o k fields) (.dict ms)) false (kidsS env fields ms) := by
        unfold resolve
        simp only [membersOf, resolveMembers_kidsS]
      rw [hr, relFlat_eq]
      simp only [ownPath, FNode.fl, if_true, pushed, FNode.cfl, childItems, FNode.slots, FNode.kids,
        namePath, FNode.name, FNode.u, List.nil_append]
      rw [kidsFrom_noslots, setFlat]
      simp only [blank, membersOf, prS, blankFields_sel]
      exact rts_mapping hs nm (fun x hx => by subst hx; exact Or.inl (hsub x (by simp [names])))
        fields hnd htok hrt (fun _ => true) ms hok.1 hok.2 u [(nm.toList, _)] (Or.inr ⟨_, rfl⟩) _ rfl _ rfl
    | _ => simp [OkS] at hok
theorem rts_fields : ∀ fs : List Schema, (∀ t ∈ namesL fs, t ∈ names root) → wfL fs = true →
    ∀ f ∈ fs, RTS env sep f
  | [], _, _ => fun f hf => by simp at hf
  | g :: gs, hsub, hw => by
    simp only [wfL, Bool.and_eq_true] at hw
    have h1 := rts_all g (fun t ht => hsub t (by simp [namesL, ht])) hw.1
    have h2 := rts_fields gs (fun t ht => hsub t (by simp [namesL, ht])) hw.2
    intro f hf
    rcases List.mem_cons.mp hf with rfl | h
    · exact h1
    · exact h2 f h
end

end main

/-! ### the property theorem -/

theorem root_paths_neS (env : Env) (s : Schema) (e : Elem) (hw : wf s = true) (hroot : rootOK s = true)
    (hok : OkS env s e) : ∀ p ∈ relFlat (resolve env s e), p.1 ≠ [] := by
  intro p hp
  by_cases hn : s.name.isSome = true
  · -- a named root: every path starts with its name
    obtain ⟨it, hit, ext, he⟩ := bfsPath_mem _ p hp
    simp only [List.mem_singleton] at hit
    subst hit
    rw [he]
    simp only [namePath, resolve_name]
    cases hsn : s.name with
    | none => simp [hsn] at hn
    | some x => simp
  · -- an anonymous container: paths start with a member's name or index
    have hnone : s.name = none := by
      cases hsn : s.name with
      | none => rfl
      | some x => simp [hsn] at hn
    rw [relFlat_eq] at hp
    cases s with
    | leaf nm o k => simp [rootOK, Schema.name] at hroot hnone; simp [hnone] at hroot
    | joined nm o k m => simp [rootOK, Schema.name] at hroot hnone; simp [hnone] at hroot
    | compound nm o k fs => simp [rootOK, Schema.name] at hroot hnone; simp [hnone] at hroot
    | dict nm o mode fields =>
      simp only [Schema.name] at hnone; subst hnone
      cases e with
      | dict ms =>
        simp only [wf, Bool.and_eq_true] at hw
        have hsome := allSome_of fields hw.1.2
        rw [← relFlat_eq, relFlat_anon_dict] at hp
        obtain ⟨it, hit, ext, he⟩ := bfsPath_mem _ p hp
        obtain ⟨k, hk, rfl⟩ := List.mem_map.mp hit
        obtain ⟨q, _, f, hf, rfl⟩ := kidsS_mem hk
        obtain ⟨_, hfn⟩ := findField_someS hf
        rw [he]
        simp [namePath, resolve_name, hfn]
      | _ => simp [OkS, OkP] at hok
    | list nm o prune mx member =>
      simp only [Schema.name] at hnone; subst hnone
      cases e with
      | list ms =>
        have hr : resolve env (.list none o prune mx member) (.list ms)
            = .mk none false true [] true (resolveList env member ms) := by
          unfold resolve; rfl
        rw [hr] at hp
        simp only [ownPath, FNode.fl, Bool.false_eq_true, if_false, List.nil_append, pushed, FNode.cfl,
          if_true, childItems, FNode.slots, FNode.kids, namePath, FNode.name, Option.toList,
          List.append_nil] at hp
        rw [kidsFrom_slots] at hp
        obtain ⟨it, hit, ext, he⟩ := bfsPath_mem _ p hp
        simp only [List.mem_map] at hit
        obtain ⟨it0, hit0, rfl⟩ := hit
        obtain ⟨j, _, hj⟩ := mem_slotItems 0 _ it0 hit0
        rw [he]
        simp [namePath, shift, hj]
      | _ => simp [OkS, OkP] at hok
    | array nm o prune member =>
      simp only [Schema.name] at hnone; subst hnone
      simp only [rootOK, Option.isSome_none, Bool.false_or] at hroot
      cases e with
      | array ms =>
        have hr : resolve env (.array none o prune member) (.array ms)
            = .mk none false true [] false (resolveList env member ms) := by
          unfold resolve; rfl
        rw [hr] at hp
        simp only [ownPath, FNode.fl, Bool.false_eq_true, if_false, List.nil_append, pushed, FNode.cfl,
          if_true, childItems, FNode.slots, FNode.kids, namePath, FNode.name, Option.toList,
          List.append_nil] at hp
        rw [kidsFrom_noslots, resolveList_eq_map] at hp
        obtain ⟨it, hit, ext, he⟩ := bfsPath_mem _ p hp
        simp only [List.mem_map] at hit
        obtain ⟨k, hk, rfl⟩ := hit
        obtain ⟨m, _, rfl⟩ := hk
        rw [he]
        simp only [namePath, resolve_name]
        cases hmn : member.name with
        | none => simp [hmn] at hroot
        | some y => simp
      | _ => simp [OkS, OkP] at hok


/-- **C01, round trip with SparseDicts.**  `from_flat(flatten(e))` rebuilds exactly `prS e` — for every
    well-formed schema, SparseDicts included, and every conforming settled state. -/
theorem roundtrip_sparse (env : Env) (sep : Str) (s : Schema) (e : Elem)
    (hs : SepSafe env sep (Tok s)) (henv : EnvOK env) (hw : wf s = true)
    (hroot : rootOK s = true) (hok : OkS env s e) :
    fromFlat env sep s (flatten env sep s e) = prS env sep false s e := by
  unfold fromFlat
  rw [flatten_eq_relFlat, ← toKeys_eq_wrap sep _ (root_paths_neS env s e hw hroot hok)]
  have h := rts_all s hs henv s (fun t ht => ht) hw false e hok
  rw [filter_keepP_false] at h
  exact h

end Flatland.Flat.Proofs
