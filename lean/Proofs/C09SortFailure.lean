/-
C07 / C08 / C09 — the failure path of `List.sort` that the model's `seqStep` cannot take (round m1).

`seq.sort(key=f)` in CPython computes every key, then merges.  If a COMPARISON of two keys raises
(`TypeError: '<' not supported between 'NoneType' and 'int'`), or the list is found modified afterwards
(`ValueError: list modified during sort`), the exception escapes and — documented behaviour of `list.sort` —
the list is left in SOME rearrangement of its items.  Which one depends on the merge strategy and on where the
comparison failed; nothing in the library's own code decides it.  The repaired `List.sort`
(9873cdc: `try: list.sort(self, …) finally: self._renumber()`) therefore has, on that path, the effect

    sortFailed n kids'  =  n.withKids (renumber kids')          for SOME permutation kids' of n.kids

(`sortFailedOld n kids' = n.withKids kids'` before the repair: rearranged, slot names stale).  The model's keyed
sort cannot produce this outcome: it sorts or answers `.unsupported` (`C08.Proofs.keyed_sort_only_refuses`).
The outcome is nondeterministic, so the theorems quantify over EVERY permutation `kids'` of the items:

* `sort_failure_any_permutation_dps` — the C07 invariant `dps` (every List names slot i `str(i)`, every slot
  holds one element, deep) holds of `sortFailed n kids'` whenever it held of `n`;
* `sort_failure_keeps_members` — the members are a permutation of the members before (the very same nodes:
  identities, stored parents, subtrees untouched); `sort_failure_keeps_ids`: the tree has the same identities;
* `sort_failure_positional` — the slots are `WellNumbered` (C09's positional clause);
* `sort_failure_flatten_positional` — hence `flattenTree` = the positional specification on the outcome;
* `sort_success_is_instance` — the model's successful keyed sort IS `sortFailed n (sortBy …)`, and `sortBy` is a
  permutation (`sortBy_perm`): the success path is one instance of the same statement;
* `sort_failure_old_stale` — the pre-repair outcome breaks the invariant on a 3-member List (the corpus witness
  `[3,1,2].sort` rearranged to `[1,2,3]` without renumbering): `dps` false, flatten keys ≠ positional keys.

Tie to the code: the Lean runners have no executor for this path (a nondeterministic outcome has no single
observation to compare); the Python oracle `g1common.check_sort_failure` checks exactly these clauses on the real
library for whatever rearrangement CPython produced (clauses sort-keeps-members, sort-slots-named-by-position,
sort-member-parents-agree; C07: keys-are-positions; C09: the reference list that received the same call is
compared as a multiset).
-/
import Proofs.C07TreeInvSeq
import Proofs.C07TreeExamples
import Proofs.C09Rejected
namespace Flatland.C09.Proofs
open Flatland.Tree Flatland.PyList Flatland.C08 Flatland.C07Tree Flatland.C07Tree.Proofs
open Flatland.C07Tree.Proofs.Inv

/-- the repaired `List.sort` / inherited `list.sort` when the sort failed half-way: the underlying list is left as
    `kids'` (some rearrangement of the items), then — on a List — `finally: self._renumber()` -/
def sortFailed (n : Node) (kids' : List Node) : Node :=
  n.withKids (if n.kind = .list then renumber kids' else kids')

/-- before 9873cdc: rearranged, `_renumber()` skipped -/
def sortFailedOld (n : Node) (kids' : List Node) : Node := n.withKids kids'

/-! ### renumbering touches slot names only -/

theorem kids_renumberFrom (k : Nat) (l : List Node) :
    (renumberFrom k l).flatMap Node.kids = l.flatMap Node.kids := by
  induction l generalizing k with
  | nil => rfl
  | cons x xs ih => simp only [renumberFrom, List.flatMap_cons, ih, kids_withKey]

theorem children_sortFailed (n : Node) (kids' : List Node) :
    children (sortFailed n kids') = children (n.withKids kids') := by
  unfold sortFailed
  by_cases h : n.kind = .list
  · simp only [h, if_true]
    unfold children
    simp only [kind_withKids, h, kids_withKids]
    exact kids_renumberFrom 0 kids'
  · simp only [h, if_false]

theorem children_withKids_perm (n : Node) (a b : List Node) (h : a.Perm b) :
    (children (n.withKids a)).Perm (children (n.withKids b)) := by
  unfold children
  simp only [kind_withKids, kids_withKids]
  split
  · exact h.flatMap_right _
  all_goals first | exact h | exact List.Perm.refl _

theorem withKids_kids (n : Node) : n.withKids n.kids = n := by cases n; rfl

/-- **sort_failure_keeps_members.**  Whatever rearrangement the failed sort left: the members afterwards are a
    permutation of the members before — the same nodes (identity, stored parent, subtree). -/
theorem sort_failure_keeps_members (n : Node) (kids' : List Node) (hp : kids'.Perm n.kids) :
    (members (sortFailed n kids')).Perm (members n) := by
  unfold members
  rw [children_sortFailed]
  have := children_withKids_perm n kids' n.kids hp
  rwa [withKids_kids] at this

/-- **sort_failure_positional.**  On a List the slots are named by their CURRENT positions — for every
    rearrangement. -/
theorem sort_failure_positional (n : Node) (kids' : List Node) (hl : n.kind = .list) :
    WellNumbered (sortFailed n kids').kids := by
  unfold sortFailed
  simp only [hl, if_true, kids_withKids]
  exact wn_renumber kids'

/-- **sort_failure_any_permutation_dps.**  The real content of the repair: for EVERY permutation `kids'` of the
    items of a sequence whose tree satisfies the deep positional invariant, the outcome "rearranged, then
    renumbered" satisfies it again (on an Array / MultiValue there is nothing to renumber). -/
theorem sort_failure_any_permutation_dps (n : Node) (kids' : List Node)
    (hn : dps n = true) (hp : kids'.Perm n.kids) : dps (sortFailed n kids') = true := by
  have hk : KidsDP (n.kind = .list) n.kids := ((dps_iff' n).mp hn).2
  have hk' : KidsDP (n.kind = .list) kids' := kd_sub hk (fun x hx => hp.subset hx)
  unfold sortFailed
  by_cases hl : n.kind = .list
  · simp only [hl, if_true]
    rw [dps_withKids]
    exact ⟨fun _ => wn_renumber kids', kd_renumber _ kids' hk'⟩
  · simp only [hl, if_false]
    rw [dps_withKids]
    exact ⟨fun h => absurd h hl, hk'⟩

/-- hence `flatten()` of the outcome names every leaf by its current position -/
theorem sort_failure_flatten_positional (sep : Str) (n : Node) (kids' : List Node)
    (hn : dps n = true) (hp : kids'.Perm n.kids) :
    flattenTree sep (sortFailed n kids') = specFlatten sep (sortFailed n kids') :=
  flattenTree_positional sep _ (dp_of_dps _ (sort_failure_any_permutation_dps n kids' hn hp))

/-! ### the success path is an instance -/

theorem insertSorted_perm {α : Type} (le : α → α → Bool) (x : α) (l : List α) :
    (insertSorted le x l).Perm (x :: l) := by
  induction l with
  | nil => exact List.Perm.refl _
  | cons y ys ih =>
    unfold insertSorted
    split
    · exact List.Perm.refl _
    · exact (List.Perm.cons y ih).trans (List.Perm.swap x y ys)

theorem sortBy_perm {α : Type} (le : α → α → Bool) (l : List α) : (sortBy le l).Perm l := by
  induction l with
  | nil => exact List.Perm.refl _
  | cons x xs ih => unfold sortBy; exact (insertSorted_perm le x _).trans (List.Perm.cons x ih)

/-- the model's keyed sort, when it does not decline, is `sortFailed` at the stable-sort permutation: the success
    path and the failure path differ only in WHICH permutation CPython leaves -/
theorem sort_success_is_instance (n : Node) (m : Schema) (k : SortKey) (rev : Bool) (next : Nat)
    (hm : n.sch.member = some m) (hg : sortGate k n = true) :
    (seqStep n (.sort (some k) rev) next).node = sortFailed n (sortBy (sortLe k rev) n.kids) ∧
      (sortBy (sortLe k rev) n.kids).Perm n.kids := by
  rw [C08.Proofs.keyed_sort_sorts n m k rev next hm hg]
  exact ⟨rfl, sortBy_perm _ _⟩

/-! ### non-vacuity, and the pre-repair outcome -/

/-- `List.named('l').of(String.named('s'))(['c', 'a', 'b'])` -/
def exSF : Node :=
  .mk { id := 1, parent := none } exLs
    [slot 2 ['0'] (leaf 3 2 ['c']), slot 4 ['1'] (leaf 5 4 ['a']), slot 6 ['2'] (leaf 7 6 ['b'])]

/-- the rearrangement CPython leaves when `['c', 'a', 'b', <uncomparable>, …].sort(key=…)` fails at the fourth
    item (the corpus witness `[3, 1, 2, None, 0]`): the first three are already merged — old positions 1, 2, 0 -/
def exPerm (l : List Node) : List Node := (l.drop 1) ++ (l.take 1)

example : dps exSF = true := by decide
example : (exPerm exSF.kids).Perm exSF.kids := by
  unfold exPerm; exact (List.perm_append_comm).trans (by rw [List.take_append_drop])
example : dps (sortFailed exSF (exPerm exSF.kids)) = true := by decide
example : (sortFailed exSF (exPerm exSF.kids)).kids.map Node.key = [['0'], ['1'], ['2']] := by decide
example : (members (sortFailed exSF (exPerm exSF.kids))).map Node.id = [5, 7, 3] := by decide

theorem exOld_flatten : flattenTree ['_'] (sortFailedOld exSF (exPerm exSF.kids)) =
    [("l_1_s".toList, ['a']), ("l_2_s".toList, ['b']), ("l_0_s".toList, ['c'])] := by
  simp [flattenTree, sortFailedOld, exPerm, exSF, Node.withKids, slot, leaf, exLs, exStr, slotSchema, bfs_cons, bfs_nil,
    ownPair, pushed, childItems, slotItems, namePath, fl, cfl, Node.name, Node.kind, Node.sch, Node.kids, Node.key,
    Node.ni, Schema.kind, Schema.info, Schema.name, joinSep, Flatland.Flat.joinSep]

theorem exOld_spec : specFlatten ['_'] (sortFailedOld exSF (exPerm exSF.kids)) =
    [("l_0_s".toList, ['a']), ("l_1_s".toList, ['b']), ("l_2_s".toList, ['c'])] := by
  simp [specFlatten, sortFailedOld, exPerm, exSF, Node.withKids, slot, leaf, exLs, exStr, slotSchema, specBfs_cons,
    specBfs_nil, ownPair, specItems, specSlots, namePath, fl, Node.name, Node.kind, Node.sch, Node.kids, Node.key,
    Node.ni, Schema.kind, Schema.info, Schema.name, joinSep, Flatland.Flat.joinSep]
  decide

/-- **sort_failure_old_stale.**  Without the renumbering the same outcome violates the invariant: the slots keep
    the names of their OLD positions (`1, 2, 0`), and flatten() emits keys that are not the positions
    (`l_1_s, l_2_s, l_0_s` for the members at positions 0, 1, 2) -/
theorem sort_failure_old_stale :
    dps (sortFailedOld exSF (exPerm exSF.kids)) = false ∧
      (sortFailedOld exSF (exPerm exSF.kids)).kids.map Node.key = [['1'], ['2'], ['0']] ∧
      flattenTree ['_'] (sortFailedOld exSF (exPerm exSF.kids)) ≠
        specFlatten ['_'] (sortFailedOld exSF (exPerm exSF.kids)) := by
  refine ⟨by decide, by decide, ?_⟩
  rw [exOld_flatten, exOld_spec]; decide

end Flatland.C09.Proofs
