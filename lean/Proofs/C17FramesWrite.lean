/-
C17 — the frame MECHANISM refines model A, part 2: WRITES through class views.

`Ref σ a` = the simulation relation `Sim σ a` of `Proofs.C17Frames` + model A's invariant `Inv a`
+ the mechanism's own invariant `FInv σ` (no aliasing, `map` only mentions existing classes and
objects, slots ↦ objects in range).  Every write method of `_TypeLookup` in the mechanism
(`_base_frame` materialising the frame, then the mutation of the dict it refers to — after the
reads the method performs) returns model A's result and re-establishes `Ref` with model A's new
state.
-/
import Proofs.C17Frames
namespace Flatland.C17.Frames.Proofs
open Flatland.C17 Flatland.C17.Spec Flatland.C17.Proofs Flatland.C17.Frames

/-! ## association lists -/
section AL
variable {κ β : Type} [DecidableEq κ]

theorem set_set (d : AList κ β) (k : κ) (a b : β) :
    AList.set (AList.set d k a) k b = AList.set d k b := by
  induction d with
  | nil => simp [AList.set]
  | cons p r ih =>
    obtain ⟨k0, b0⟩ := p
    by_cases e : k0 = k
    · simp [AList.set, e]
    · simp [AList.set, e, ih]

theorem set_of_get? (d : AList κ β) (k : κ) (b : β) (h : AList.get? d k = some b) :
    AList.set d k b = d := by
  induction d with
  | nil => simp at h
  | cons p r ih =>
    obtain ⟨k0, b0⟩ := p
    by_cases e : k0 = k
    · simp only [AList.get?, e, if_true, Option.some.injEq] at h
      simp [AList.set, e, h]
    · simp only [AList.get?, e, if_false] at h
      simp [AList.set, e, ih h]

end AL

/-! ## the mechanism's own invariant -/

structure FInv (σ : FState) : Prop where
  noAlias : NoAlias σ
  map_lt : ∀ P c r, σ.mapGet P c = some r → P < σ.ndesc ∧ c < σ.classes.length
  objs_len : σ.objs.length = σ.ndesc
  objs_lt : ∀ s, s < σ.ndesc → σ.objOf s < σ.ndesc

theorem FInv_finit (init : List (Key × Val)) : FInv (finit init) where
  noAlias := NoAlias_finit init
  map_lt := by intro P c r h; simp [FState.mapGet, finit, AList.get?] at h
  objs_len := rfl
  objs_lt := by
    intro s hs
    have : s = 0 := by simp [finit] at hs; exact hs
    subst this; exact Nat.zero_lt_one

theorem FInv_mapSet {σ : FState} (h : FInv σ) (P : ObjId) (c : ClassId) (f : Frame)
    (hP : P < σ.ndesc) (hc : c < σ.classes.length) : FInv (σ.mapSet P c (.obj f)) where
  noAlias := NoAlias_mapSet h.noAlias P c f
  map_lt := by
    intro P' c' r hr
    simp only [FState.mapGet, FState.mapSet, get?_set] at hr
    split at hr
    · rename_i hk
      obtain ⟨rfl, rfl⟩ := Prod.mk.inj hk
      exact ⟨hP, hc⟩
    · exact h.map_lt P' c' r hr
  objs_len := h.objs_len
  objs_lt := h.objs_lt

/-- simulation + the invariants of both sides -/
structure Ref (σ : FState) (a : State) : Prop where
  sim : Sim σ a
  inv : Inv a
  finv : FInv σ

theorem Ref_init (init : List (Key × Val)) : Ref (finit init) (initState init) :=
  ⟨Sim_init init, Inv_initState init, FInv_finit init⟩

theorem Ref.len {σ : FState} {a : State} (h : Ref σ a) : a.classes.length = σ.classes.length := by
  rw [h.sim.classes]

theorem Ref.desc_lt {σ : FState} {a : State} (h : Ref σ a) (c : ClassId) (s : DescId)
    (hd : a.descOf c = some s) : s < σ.ndesc := by
  obtain ⟨x, _, hox⟩ := descOf_owner a c s hd
  rw [← h.sim.ndesc]; exact h.inv.wf.own_lt x s hox

theorem Ref.obj_lt {σ : FState} {a : State} (h : Ref σ a) (c : ClassId) (s : DescId)
    (hd : a.descOf c = some s) : σ.objOf s < σ.ndesc := h.finv.objs_lt s (h.desc_lt c s hd)

theorem Ref.own_desc {σ : FState} {a : State} (h : Ref σ a) (c : ClassId) (s : DescId)
    (ho : a.ownOf c = some s) : a.descOf c = some s := by
  have hc : c < a.classes.length := by
    rcases Nat.lt_or_ge c a.classes.length with hc | hc
    · exact hc
    · rw [ownOf_ge a c hc] at ho; exact absurd ho (by simp)
  obtain ⟨tail, ht⟩ := h.inv.wf.mro_head c hc
  exact descOf_of_head a c tail s ht ho

theorem Ref.coherentF {σ : FState} {a : State} (h : Ref σ a) (c : ClassId) (hc : c < a.classes.length) :
    CoherentF σ c := CoherentF_of h.sim c (h.inv.co c hc)

/-! ## reads keep `Ref` -/

theorem pull_objs (σ : FState) (P : ObjId) (l : List ClassId) (p : Frame → Pull) :
    (framesPull σ P p l).1.objs = σ.objs ∧ (framesPull σ P p l).1.classes = σ.classes ∧
    (framesPull σ P p l).1.ndesc = σ.ndesc ∧ (framesPull σ P p l).1.insts = σ.insts := by
  rcases pull_state σ P l p with e | ⟨o, _, _, e⟩ <;> rw [e] <;> exact ⟨rfl, rfl, rfl, rfl⟩

theorem pull_objOf (σ : FState) (P : ObjId) (l : List ClassId) (p : Frame → Pull) (s : DescId) :
    (framesPull σ P p l).1.objOf s = σ.objOf s := by
  simp only [FState.objOf, (pull_objs σ P l p).1]

theorem pull_mapGet_some (σ : FState) (P : ObjId) (l : List ClassId) (p : Frame → Pull)
    (P' : ObjId) (c' : ClassId) (r : FrameRef) (hr : σ.mapGet P' c' = some r) :
    (framesPull σ P p l).1.mapGet P' c' = some r := by
  rcases pull_state σ P l p with e | ⟨o, hm, _, e⟩ <;> rw [e]
  · exact hr
  · simp only [FState.mapGet, FState.mapSet, get?_set]
    split
    · rename_i hk
      obtain ⟨rfl, rfl⟩ := Prod.mk.inj hk
      rw [hm] at hr; exact absurd hr (by simp)
    · exact hr

theorem Ref_pull {σ : FState} {a : State} (h : Ref σ a) (P : ObjId) (hP : P < σ.ndesc)
    (l : List ClassId) (p : Frame → Pull) : Ref (framesPull σ P p l).1 a := by
  refine ⟨Sim_pull h.sim P l p, h.inv, ?_⟩
  rcases pull_state σ P l p with e | ⟨o, _, ho, e⟩ <;> rw [e]
  · exact h.finv
  · refine FInv_mapSet h.finv P o _ hP ?_
    rcases Nat.lt_or_ge o σ.classes.length with hc | hc
    · exact hc
    · have : a.ownOf o = none := ownOf_ge a o (by rw [h.len]; exact hc)
      rw [h.sim.ownOf] at this
      simp [FState.ownsObj, this] at ho

/-- `self[key]` inside a class-view method: model A's value; the state still refines `a` -/
theorem tGetF_refines {σ : FState} {a : State} (h : Ref σ a) (c : ClassId) (hc : c < a.classes.length)
    (s : DescId) (hd : a.descOf c = some s) (k : Key) :
    (tGetF σ c (σ.objOf s) k).2 = tGet a c s k ∧ Ref (tGetF σ c (σ.objOf s) k).1 a := by
  have hd' : σ.descOf c = some s := by rw [← h.sim.descOf]; exact hd
  refine ⟨?_, Ref_pull h _ (h.obj_lt c s hd) _ _⟩
  simp only [tGetF, pull_frames, lookup_cutF, pwalk_tFrames h.sim c s hd' (h.coherentF c hc)]
  rfl

/-- `self.items()` / `self.keys()` inside a method -/
theorem tItemsF_refines {σ : FState} {a : State} (h : Ref σ a) (c : ClassId) (hc : c < a.classes.length)
    (s : DescId) (hd : a.descOf c = some s) :
    (tItemsF σ c (σ.objOf s)).2 = tItems a c s ∧ Ref (tItemsF σ c (σ.objOf s)).1 a := by
  have hd' : σ.descOf c = some s := by rw [← h.sim.descOf]; exact hd
  refine ⟨?_, Ref_pull h _ (h.obj_lt c s hd) _ _⟩
  simp only [tItemsF, pull_frames, cutF_allP, pwalk_tFrames h.sim c s hd' (h.coherentF c hc)]
  rfl

/-! ## the write path in closed form -/

/-- the contents of the dict `_base_frame` returns -/
def baseVal (σ : FState) (c : ClassId) (P : ObjId) : Frame :=
  match σ.mapGet P c with
  | some r => σ.deref P r
  | none => if σ.ownsObj c P then σ.initialOf P else []

theorem mapSet_mapSet (σ : FState) (P : ObjId) (c : ClassId) (r r' : FrameRef) :
    (σ.mapSet P c r).mapSet P c r' = σ.mapSet P c r' := by
  simp only [FState.mapSet, set_set]

theorem writeRef_mapSet (σ : FState) (P : ObjId) (c : ClassId) (f : Frame) (g : Frame → Frame) :
    (σ.mapSet P c (.obj f)).writeRef P c g = σ.mapSet P c (.obj (g f)) := by
  have : (σ.mapSet P c (.obj f)).mapGet P c = some (.obj f) := by
    simp [FState.mapGet, FState.mapSet, get?_set]
  simp only [FState.writeRef, this, mapSet_mapSet]

/-- `_base_frame`: afterwards `map[base]` is a dict of its own holding `baseVal` -/
theorem baseFrame_eq {σ : FState} (h : NoAlias σ) (c : ClassId) (P : ObjId) :
    baseFrame false σ c P = σ.mapSet P c (.obj (baseVal σ c P)) := by
  unfold baseFrame baseVal
  cases hm : σ.mapGet P c with
  | some r =>
    cases r with
    | initCell => exact absurd hm (h P c)
    | obj f =>
      simp only [FState.deref, FState.mapSet]
      rw [set_of_get? σ.map (P, c) (.obj f) hm]
  | none =>
    by_cases ho : σ.ownsObj c P = true
    · simp only [ho, if_true, Bool.false_eq_true, if_false]
    · simp only [ho, if_false, Bool.false_eq_true]

/-- the whole write `self._base_frame.<mutation g>` -/
theorem writeBase_eq {σ : FState} (h : NoAlias σ) (c : ClassId) (P : ObjId) (g : Frame → Frame) :
    writeBase false σ c P g = σ.mapSet P c (.obj (g (baseVal σ c P))) := by
  unfold writeBase
  rw [baseFrame_eq h, writeRef_mapSet]

/-- what `_base_frame` holds is what model A's `baseFrame` holds -/
theorem baseVal_sim {σ : FState} {a : State} (h : Ref σ a) (c : ClassId) (s : DescId)
    (hd : a.descOf c = some s) : baseVal σ c (σ.objOf s) = a.baseFrame c s := by
  unfold baseVal State.baseFrame State.baseKey State.owns
  cases ho : a.ownOf c with
  | some s0 =>
    have hs : s0 = s := by
      have := h.own_desc c s0 ho
      rw [hd] at this; exact (Option.some.inj this).symm
    subst hs
    have ho' : σ.ownOf c = some s0 := by rw [← h.sim.ownOf]; exact ho
    have hob : σ.ownsObj c (σ.objOf s0) = true := by simp [FState.ownsObj, ho']
    simp only [beq_self_eq_true, if_true, h.sim.owner c s0 ho', would, hob]
    cases σ.mapGet (σ.objOf s0) c <;> rfl
  | none =>
    have ho' : σ.ownOf c = none := by rw [← h.sim.ownOf]; exact ho
    have hd' : σ.descOf c = some s := by rw [← h.sim.descOf]; exact hd
    have hob : σ.ownsObj c (σ.objOf s) = false := by simp [FState.ownsObj, ho']
    have hn : (none == some s) = false := rfl
    simp only [hn, Bool.false_eq_true, if_false, State.frameD, h.sim.other c s ho' hd', obsC, hob]
    cases σ.mapGet (σ.objOf s) c <;> rfl

/-! ## storing a frame for the base class on both sides keeps the simulation -/

theorem Sim_setBase {σ : FState} {a : State} (h : Ref σ a) (c : ClassId) (s : DescId)
    (hd : a.descOf c = some s) (F : Frame) :
    Sim (σ.mapSet (σ.objOf s) c (.obj F)) (a.setFrame (a.baseKey c s) F) where
  classes := h.sim.classes
  ndesc := h.sim.ndesc
  insts := h.sim.insts
  owner := by
    intro c' s' hc'
    have hc'' : σ.ownOf c' = some s' := hc'
    have hca : a.ownOf c' = some s' := by rw [h.sim.ownOf]; exact hc''
    show (a.setFrame (a.baseKey c s) F).frameD (.init s') = would (σ.mapSet (σ.objOf s) c (.obj F)) (σ.objOf s') c'
    rw [frameD_setFrame, would_mapSet, ← h.sim.owner c' s' hc'']
    unfold State.baseKey State.owns
    cases ho : a.ownOf c with
    | some s0 =>
      have hs : s0 = s := by
        have := h.own_desc c s0 ho
        rw [hd] at this; exact (Option.some.inj this).symm
      subst hs
      simp only [beq_self_eq_true, if_true, FrameKey.init.injEq]
      by_cases e : s0 = s'
      · subst e
        have : c = c' := h.inv.ns c c' s0 ho hca
        subst this
        simp [FState.deref]
      · have hne : ¬ ((σ.objOf s0, c) = (σ.objOf s', c')) := by
          intro hk
          have : c = c' := (Prod.mk.inj hk).2
          subst this
          rw [ho] at hca; exact e (Option.some.inj hca)
        simp only [e, if_false, hne]
    | none =>
      have hn : (none == some s) = false := rfl
      have hne : ¬ ((σ.objOf s, c) = (σ.objOf s', c')) := by
        intro hk
        have : c = c' := (Prod.mk.inj hk).2
        subst this
        rw [ho] at hca; exact absurd hca (by simp)
      simp only [hn, Bool.false_eq_true, if_false, reduceCtorEq, hne]
  other := by
    intro c' s' hc' hd'
    have hc'' : σ.ownOf c' = none := hc'
    have hd'' : σ.descOf c' = some s' := hd'
    have hca : a.ownOf c' = none := by rw [h.sim.ownOf]; exact hc''
    show AList.get? (a.setFrame (a.baseKey c s) F).frames (.cls s' c')
      = obsC (σ.mapSet (σ.objOf s) c (.obj F)) (σ.objOf s') c'
    rw [frames_setFrame, obsC_mapSet, ← h.sim.other c' s' hc'' hd'']
    unfold State.baseKey State.owns
    cases ho : a.ownOf c with
    | some s0 =>
      have hs : s0 = s := by
        have := h.own_desc c s0 ho
        rw [hd] at this; exact (Option.some.inj this).symm
      subst hs
      have hne : ¬ ((σ.objOf s0, c) = (σ.objOf s', c')) := by
        intro hk
        have : c = c' := (Prod.mk.inj hk).2
        subst this
        rw [ho] at hca; exact absurd hca (by simp)
      simp only [beq_self_eq_true, if_true, reduceCtorEq, if_false, hne]
    | none =>
      have hn : (none == some s) = false := rfl
      simp only [hn, Bool.false_eq_true, if_false, FrameKey.cls.injEq]
      by_cases e : c = c'
      · subst e
        have hs : s = s' := by
          rw [← h.sim.descOf, hd] at hd''; exact Option.some.inj hd''
        subst hs
        simp [FState.deref]
      · have hne : ¬ ((σ.objOf s, c) = (σ.objOf s', c')) := fun hk => e (Prod.mk.inj hk).2
        have hne' : ¬ (s = s' ∧ c = c') := fun hk => e hk.2
        simp only [hne, hne', if_false]

theorem Inv_setBase {a : State} (hi : Inv a) (c : ClassId) (hc : c < a.classes.length) (s : DescId)
    (hd : a.descOf c = some s) (F : Frame) : Inv (a.setFrame (a.baseKey c s) F) :=
  ⟨WF_setFrame a hi.wf _ F (baseKey_lt a hi.wf c s hc hd), NoShared_congr rfl hi.ns,
    AllCoherent_congr rfl hi.co⟩

theorem Ref_setBase {σ : FState} {a : State} (h : Ref σ a) (c : ClassId) (hc : c < a.classes.length)
    (s : DescId) (hd : a.descOf c = some s) (F : Frame) :
    Ref (σ.mapSet (σ.objOf s) c (.obj F)) (a.setFrame (a.baseKey c s) F) :=
  ⟨Sim_setBase h c s hd F, Inv_setBase h.inv c hc s hd F,
    FInv_mapSet h.finv _ c F (h.obj_lt c s hd) (by rw [← h.len]; exact hc)⟩

/-- **one write through `_base_frame`** (`P` = the object the view's slot refers to) -/
theorem writeBase_refines {σ : FState} {a : State} (h : Ref σ a) (c : ClassId) (hc : c < a.classes.length)
    (s : DescId) (hd : a.descOf c = some s) (P : ObjId) (hP : σ.objOf s = P) (g : Frame → Frame) :
    Ref (writeBase false σ c P g) (a.setFrame (a.baseKey c s) (g (a.baseFrame c s))) := by
  subst hP
  rw [writeBase_eq h.finv.noAlias, baseVal_sim h c s hd]
  exact Ref_setBase h c hc s hd _

/-! ## every write method of `_TypeLookup` -/

theorem isRead_false (o : Op) (hw : isRead o = false) :
    pullOf o = none ∧ ∀ r, dictLikeRead r o = none := by
  cases o <;> simp only [isRead, reduceCtorEq] at hw <;> exact ⟨rfl, fun _ => rfl⟩

/-- re-storing the frame a key already denotes (creating `{}` for an absent one) does not change what
    a walk shows -/
theorem walk_flatten_setSelf (a : State) (key : FrameKey) (d : DescId) : ∀ (l : List ClassId),
    ((a.setFrame key (a.frameD key)).walk d l).flatten = (a.walk d l).flatten
  | [] => rfl
  | c :: rest => by
    have ih := walk_flatten_setSelf a key d rest
    simp only [State.walk, owns_setFrame, frameD_setFrame, frames_setFrame]
    by_cases ho : a.owns c d = true
    · simp only [ho, if_true]
      split
      · rename_i hk; rw [hk]
      · rfl
    · simp only [ho, Bool.false_eq_true, if_false]
      by_cases hk : key = .cls d c
      · subst hk
        simp only [if_true, State.frameD] at ih ⊢
        generalize AList.get? a.frames (.cls d c) = g at ih ⊢
        cases g with
        | none => simpa using ih
        | some f => simpa using ih
      · simp only [hk, if_false]
        cases AList.get? a.frames (.cls d c) with
        | none => simpa using ih
        | some f => simp [ih]

theorem tItems_setSelf (a : State) (key : FrameKey) (c : ClassId) (d : DescId) :
    tItems (a.setFrame key (a.frameD key)) c d = tItems a c d := by
  simp only [tItems, tFrames, mroOf_setFrame, walk_flatten_setSelf]

theorem setFrame_setFrame (a : State) (key : FrameKey) (f g : Frame) :
    (a.setFrame key f).setFrame key g = a.setFrame key g := by
  simp only [State.setFrame, set_set]

/-- `clear()` through a class view: `_base_frame` first, then `keys()` pulled to the end, then the
    tombstones -/
theorem clear_refines {σ : FState} {a : State} (h : Ref σ a) (c : ClassId) (hc : c < a.classes.length)
    (s : DescId) (hd : a.descOf c = some s) :
    Ref (tWriteF false σ c (σ.objOf s) .clear).1 (tWrite a c s .clear).1 := by
  have e1 : baseFrame false σ c (σ.objOf s) = σ.mapSet (σ.objOf s) c (.obj (a.baseFrame c s)) := by
    rw [baseFrame_eq h.finv.noAlias, baseVal_sim h c s hd]
  have h1 : Ref (σ.mapSet (σ.objOf s) c (.obj (a.baseFrame c s)))
      (a.setFrame (a.baseKey c s) (a.baseFrame c s)) := Ref_setBase h c hc s hd _
  obtain ⟨hv, h2⟩ := tItemsF_refines h1 c hc s hd
  have hobj : (σ.mapSet (σ.objOf s) c (.obj (a.baseFrame c s))).objOf s = σ.objOf s := rfl
  rw [hobj] at hv h2
  have hv' : (tItemsF (σ.mapSet (σ.objOf s) c (.obj (a.baseFrame c s))) c (σ.objOf s)).2 = tItems a c s :=
    hv.trans (tItems_setSelf a (a.baseKey c s) c s)
  have hm2 : (tItemsF (σ.mapSet (σ.objOf s) c (.obj (a.baseFrame c s))) c (σ.objOf s)).1.mapGet (σ.objOf s) c
      = some (.obj (a.baseFrame c s)) :=
    pull_mapGet_some _ _ _ _ _ _ _ (by simp [FState.mapGet, FState.mapSet, get?_set])
  have h3 := writeBase_refines h2 c hc s hd (σ.objOf s) (pull_objOf _ _ _ _ s)
    (fun f => ((tItems a c s).map (·.1)).foldl (fun f k => AList.set f k .deleted) f)
  have hb : (a.setFrame (a.baseKey c s) (a.baseFrame c s)).baseFrame c s = a.baseFrame c s := by
    show (a.setFrame (a.baseKey c s) (a.baseFrame c s)).frameD (a.baseKey c s) = _
    rw [frameD_setFrame, if_pos rfl]
  have hk : (a.setFrame (a.baseKey c s) (a.baseFrame c s)).baseKey c s = a.baseKey c s := rfl
  rw [hk, hb, setFrame_setFrame] at h3
  simp only [writeBase, baseFrame, hm2] at h3
  simp only [tWriteF, tWrite, e1, hv']
  exact h3

/-- **writes through a class view, method by method** -/
theorem tWrite_refines {σ : FState} {a : State} (h : Ref σ a) (c : ClassId) (hc : c < a.classes.length)
    (s : DescId) (hd : a.descOf c = some s) (o : Op) :
    (tWriteF false σ c (σ.objOf s) o).2 = (tWrite a c s o).2 ∧
    Ref (tWriteF false σ c (σ.objOf s) o).1 (tWrite a c s o).1 := by
  cases o with
  | setitem k v => exact ⟨rfl, writeBase_refines h c hc s hd _ rfl _⟩
  | update pairs => exact ⟨rfl, writeBase_refines h c hc s hd _ rfl _⟩
  | clear => exact ⟨rfl, clear_refines h c hc s hd⟩
  | delitem k =>
    obtain ⟨hv, hr⟩ := tGetF_refines h c hc s hd k
    simp only [tWriteF, tWrite, hv]
    cases tGet a c s k with
    | error e => exact ⟨rfl, hr⟩
    | ok v => exact ⟨rfl, writeBase_refines hr c hc s hd _ (pull_objOf _ _ _ _ s) _⟩
  | pop k dflt =>
    obtain ⟨hv, hr⟩ := tGetF_refines h c hc s hd k
    simp only [tWriteF, tWrite, hv]
    cases tGet a c s k with
    | error e => exact ⟨rfl, hr⟩
    | ok v => exact ⟨rfl, writeBase_refines hr c hc s hd _ (pull_objOf _ _ _ _ s) _⟩
  | setdefault k dflt =>
    obtain ⟨hv, hr⟩ := tGetF_refines h c hc s hd k
    simp only [tWriteF, tWrite, hv]
    cases tGet a c s k with
    | ok v => exact ⟨rfl, hr⟩
    | error e => exact ⟨rfl, writeBase_refines hr c hc s hd _ (pull_objOf _ _ _ _ s) _⟩
  | _ => exact ⟨rfl, h⟩

/-- **`classWrite_refines`: writes through a class view.**  Every mutating method (`__setitem__`,
    `__delitem__`, `pop`, `setdefault`, `clear`, `update`) of the mechanism — `_base_frame`
    materialising the frame of the view's class (a copy of `initial_set` for the owner, `{}`
    otherwise), the reads it performs materialising the owner's frame on the way — returns model A's
    result, and the new mechanism state refines model A's new state. -/
theorem classWrite_refines {σ : FState} {a : State} (h : Ref σ a) (c : ClassId) (o : Op)
    (hw : isRead o = false) :
    (classOpF false σ c o).2 = (classOp a c o).2 ∧ Ref (classOpF false σ c o).1 (classOp a c o).1 := by
  obtain ⟨hp, hr⟩ := isRead_false o hw
  simp only [classOpF, classOp, ← h.len, ← h.sim.descOf, hp, hr]
  by_cases hc : c < a.classes.length
  · simp only [hc, if_true]
    cases hd : a.descOf c with
    | none => exact ⟨rfl, h⟩
    | some s => exact tWrite_refines h c hc s hd o
  · simp only [hc, if_false]
    exact ⟨trivial, h⟩

/-- reads too, in the `Ref` form -/
theorem classRead_refines' {σ : FState} {a : State} (h : Ref σ a) (c : ClassId) (o : Op)
    (p : Frame → Pull) (hp : pullOf o = some p) :
    (classOpF false σ c o).2 = (classOp a c o).2 ∧ Ref (classOpF false σ c o).1 (classOp a c o).1 := by
  obtain ⟨hres, hsim⟩ := classRead_refines h.sim false c o p hp
    (fun hc => h.coherentF c (by rw [h.len]; exact hc))
  refine ⟨hres, hsim, ?_, ?_⟩
  · rw [classOp_read_state a c o p hp]; exact h.inv
  · simp only [classOpF]
    split
    · split
      · exact h.finv
      · rename_i s hd
        simp only [hp]
        exact (Ref_pull h _ (h.obj_lt c s (by rw [h.sim.descOf]; exact hd)) _ _).finv
    · exact h.finv

/-- **every method through a class view** -/
theorem classOp_refines {σ : FState} {a : State} (h : Ref σ a) (c : ClassId) (o : Op) :
    (classOpF false σ c o).2 = (classOp a c o).2 ∧ Ref (classOpF false σ c o).1 (classOp a c o).1 := by
  cases hp : pullOf o with
  | some p => exact classRead_refines' h c o p hp
  | none =>
    cases hw : isRead o with
    | false => exact classWrite_refines h c o hw
    | true =>
      -- popitem: raises NotImplementedError on both sides
      have : o = .popitem := by
        cases o <;> simp only [pullOf, isRead, reduceCtorEq] at hp hw <;> rfl
      subst this
      simp only [classOpF, classOp, ← h.len, ← h.sim.descOf]
      by_cases hc : c < a.classes.length
      · simp only [hc, if_true]
        cases a.descOf c with
        | none => exact ⟨rfl, h⟩
        | some s => exact ⟨rfl, h⟩
      · simp only [hc, if_false]; exact ⟨trivial, h⟩

end Flatland.C17.Frames.Proofs
