/-
C05 — `validate(recurse=False)`, the `all_valid` setter / getter over the `.valid` store, and the
`validator_validated` signal trace.
-/
import Proofs.C05Store
namespace Flatland.C05.Proofs
open Flatland.C05 Flatland.C05.Spec

/-! ### validate(recurse=False) -/

/-- the invocation log of `recurse=False` is the documented one — the element's descent list, then its ascent
    list, each cut at its first failure or Skip — for EVERY element -/
theorem norecurse_log_refines (i : Info) : (validateNoRecurse i).log = (specNoRecurse i).log := by
  simp [validateNoRecurse, specNoRecurse, noRecurseLog, validateDown_eq, validateUp_eq]

/-- **`validate(recurse=False)` = the documented statement**, for every element: the element ends with (and the call
    returns) its OWN verdict by the rules of the full algorithm; exact invocation log -/
theorem validate_norecurse_refines (i : Info) : validateNoRecurse i = specNoRecurse i := by
  simp only [validateNoRecurse, specNoRecurse, noRecurseLog, validateDown_eq, validateUp_eq, validAfter_eq]

/-- the documented statement, as a proposition about a candidate implementation of the branch -/
def NoRecurseSpec (impl : Info → NoRec) : Prop := ∀ i : Info, impl i = specNoRecurse i

def NoRecurse_Full : Prop := NoRecurseSpec validateNoRecurse

theorem norecurse_full : NoRecurse_Full := validate_norecurse_refines

/-- **`recurse=False` is `validate()` on the element alone** (the one-element tree), unconditionally -/
theorem norecurse_eq_single (i : Info) :
    (validateNoRecurse i).valid.truthy = (validate (.node i [])).ret := by
  rw [validate_norecurse_refines, validate_refines]
  simp [specNoRecurse, specValidate, expectedRet, visited, prune, pruneL, levelOrder, VTree.info, VTree.kids]

/-! #### the code before repair 10acb0e, as a counter-model (regression witness of KF-C05-a) -/

theorem old_norecurse_refines (i : Info) :
    oldValidateNoRecurse i = { valid := lastPhaseVerdict i, log := noRecurseLog i } := by
  simp only [oldValidateNoRecurse, noRecurseLog, validateDown_eq, validateUp_eq, lastPhaseVerdict]
  cases (upVerdict i).1 <;> cases (downVerdict i).1 <;> rfl

/-- the old code met the documented statement exactly where the phases do not contradict each other -/
theorem old_norecurse_refines_partial (i : Info) (h : phasesAgree i = true) :
    oldValidateNoRecurse i = specNoRecurse i := by
  rw [old_norecurse_refines]
  simp only [specNoRecurse]
  congr 1
  simp only [phasesAgree] at h
  simp only [lastPhaseVerdict, verdict]
  revert h
  cases (upVerdict i).1 <;> cases (downVerdict i).1 <;> simp [Ret.truthy, Valid.ofBool]

/-- a container whose descent list fails and whose ascent list passes -/
def exOverride : Info := ⟨0, true, false, false, [.fls], [.tru]⟩

/-- … and violated it in general: the ascent result replaced a failed descent result -/
theorem oldNoRecurse_fails : ¬ NoRecurseSpec oldValidateNoRecurse := by
  intro h
  have := congrArg NoRec.valid (h exOverride)
  simp [oldValidateNoRecurse, specNoRecurse, exOverride, validateDown, validateUp, validateElement, runValidators,
    verdict, downVerdict, upVerdict, elementVerdict, listVerdict, Ret.truthy, Valid.ofBool] at this

/-- the witness through the repaired branch, the old branch and the full algorithm -/
example : (validateNoRecurse exOverride).valid = .fls ∧ (oldValidateNoRecurse exOverride).valid = .tru ∧
    (validate (.node exOverride [])).ret = false := by
  refine ⟨?_, ?_, ?_⟩
  · simp [validateNoRecurse, exOverride, validateDown, validateUp, validateElement, runValidators, validAfterDown,
      validAfterUp, Ret.truthy, Valid.truthy, Valid.ofBool]
  · simp [oldValidateNoRecurse, exOverride, validateDown, validateUp, validateElement, runValidators,
      Ret.truthy, Valid.ofBool]
  · simp [validate, exOverride, descend, validateDown, validateUp, validateElement, runValidators,
      Ret.isSkipAll, accDown, accUp, validAfterDown, Ret.truthy, Valid.truthy, Valid.ofBool]

example : phasesAgree ⟨0, true, false, false, [.tru, .skip, .fls], [.tru, .none]⟩ = true := by
  simp [phasesAgree, downVerdict, upVerdict, elementVerdict, listVerdict, Ret.truthy]

theorem listVerdict_ne_uneval (vs : List Outcome) : listVerdict vs ≠ .uneval := by
  induction vs with
  | nil => simp [listVerdict]
  | cons a b ih => cases a <;> simp [listVerdict, ih]

theorem elementVerdict_ne_uneval (i : Info) (vs : List Outcome) : (elementVerdict i vs).1 ≠ .uneval := by
  unfold elementVerdict
  split
  · simp
  · split
    · split <;> simp
    · exact listVerdict_ne_uneval _

theorem ofBool_ne_uneval (b : Bool) : Valid.ofBool b ≠ .uneval := by cases b <;> simp [Valid.ofBool]

/-- with the two `_validate` variants of the library the value returned is a bool: a container always evaluates
    its ascent, any other element always evaluates its descent -/
theorem norecurse_ret_is_bool (i : Info) : (validateNoRecurse i).valid ≠ .uneval := by
  rw [validate_norecurse_refines]
  simp only [specNoRecurse, verdict]
  cases hc : i.container
  · have hu : (upVerdict i).1 = .uneval := by simp [upVerdict, hc]
    have hd : (downVerdict i).1 ≠ .uneval := by
      simp only [downVerdict, hc]; exact elementVerdict_ne_uneval _ _
    rw [hu]
    cases h : (downVerdict i).1 <;> simp_all [ofBool_ne_uneval]
  · have hu : (upVerdict i).1 ≠ .uneval := by
      simp only [upVerdict, hc]; exact elementVerdict_ne_uneval _ _
    cases h : (upVerdict i).1 <;> cases h' : (downVerdict i).1 <;> simp_all [ofBool_ne_uneval]

/-- **No other element's `.valid` is touched**, children in particular (the tree's elements are distinct) -/
theorem norecurse_children_untouched (prev : Nat → Valid) (i : Info) (kids : List VTree)
    (hnd : (VTree.node i kids).ids.Nodup) :
    (∀ id ∈ idsL kids, validNowNoRec prev i id = prev id) ∧
    (∀ id, id ≠ i.id → validNowNoRec prev i id = prev id) ∧
    (∀ c ∈ (validateNoRecurse i).log, c.1 = i.id) := by
  refine ⟨?_, ?_, ?_⟩
  · intro id hid
    simp only [VTree.ids, List.nodup_cons] at hnd
    have : id ≠ i.id := fun he => hnd.1 (he ▸ hid)
    simp [validNowNoRec, this]
  · intro id hne; simp [validNowNoRec, hne]
  · intro c hc
    simp only [validateNoRecurse, List.mem_append, callsOf, List.mem_map] at hc
    rcases hc with ⟨_, _, rfl⟩ | ⟨_, _, rfl⟩ <;> rfl

/-- … and the element itself gets what the call returns -/
theorem norecurse_own (prev : Nat → Valid) (i : Info) :
    validNowNoRec prev i i.id = (validateNoRecurse i).valid := by simp [validNowNoRec]

/-! ### all_valid: setter and getter -/

theorem root_mem_ids (t : VTree) : t.info.id ∈ t.ids := by
  cases t with | node i k => simp [VTree.ids, VTree.info]

/-- **After `el.all_valid = v`** the element and ALL its descendants carry `v`, `el.all_valid` reads
    `bool(v)`, and nothing outside the sub-tree is written -/
theorem all_valid_after_set (prev : Nat → Valid) (t : VTree) (v : Valid) :
    (∀ id ∈ t.ids, setAllValid prev t v id = v) ∧
    allValid (setAllValid prev t v) t = v.truthy ∧
    (∀ id, id ∉ t.ids → setAllValid prev t v id = prev id) := by
  refine ⟨fun id h => by simp [setAllValid, h], ?_, fun id h => by simp [setAllValid, h]⟩
  unfold allValid
  cases hv : v.truthy
  · apply List.all_eq_false.mpr
    exact ⟨t.info.id, root_mem_ids t, by simp [setAllValid, root_mem_ids, hv]⟩
  · apply List.all_eq_true.mpr
    intro id h; simp [setAllValid, h, hv]

theorem allValidNow_eq (prev : Nat → Valid) (t : VTree) : allValidNow prev t = allValid (validNow prev t) t := rfl

/-- the getter's conjunction runs over `self` and `all_children` (breadth-first): same elements as the preorder -/
theorem all_valid_getter_level_order (st : Nat → Valid) (t : VTree) :
    allValid st t = (levelOrder [t]).all (fun i => (st i.id).truthy) := by
  have hp := levelOrder_ids_perm [t]
  simp only [idsL, List.append_nil] at hp
  unfold allValid
  rw [← hp.all_eq, List.all_map]
  rfl

/-- **Return value = `all_valid`** for every history that leaves the unvisited elements truthy: fresh trees,
    and trees on which `all_valid = True` (or `Unevaluated`) was assigned before validating -/
theorem ret_eq_all_valid_of_store (prev : Nat → Valid) (t : VTree) (hnd : t.ids.Nodup)
    (hp : ∀ id ∈ t.ids, id ∉ (visited t).map (·.id) → (prev id).truthy = true) :
    (validate t).ret = allValidNow prev t := by
  have hv := visited_ids_nodup t hnd
  rw [validate_refines]
  show expectedRet t = _
  unfold expectedRet allValidNow
  apply Bool.eq_iff_iff.mpr
  simp only [List.all_eq_true]
  constructor
  · intro h id hid
    by_cases hin : id ∈ (visited t).map (·.id)
    · obtain ⟨i, hi, rfl⟩ := List.mem_map.mp hin
      rw [visited_own_verdict _ t hv i hi]
      exact h i hi
    · rw [unvisited_untouched _ t id hin]; exact hp id hid hin
  · intro h i hi
    have := h i.id (visited_ids_subset t i hi)
    rwa [visited_own_verdict _ t hv i hi] at this

/-- `fresh_ret_eq_all_valid` for histories that use the setter first: after `root.all_valid = v` with a truthy
    `v` on a tree `whole` that contains `t`, `t.validate()` returns `t.all_valid` -/
theorem ret_eq_all_valid_after_set (prev : Nat → Valid) (whole t : VTree) (v : Valid) (hv : v.truthy = true)
    (hsub : ∀ id ∈ t.ids, id ∈ whole.ids) (hnd : t.ids.Nodup) :
    (validate t).ret = allValidNow (setAllValid prev whole v) t := by
  apply ret_eq_all_valid_of_store _ t hnd
  intro id hid _
  simp [setAllValid, hsub id hid, hv]

/-- … and it is FALSE after `all_valid = False` (or after an earlier failed validation) when an element stays
    unvisited: the return value speaks of visited elements only -/
def exCut : VTree :=
  .node ⟨0, true, false, false, [.skipAll], []⟩ [ .node ⟨1, false, false, false, [.tru], []⟩ [] ]

theorem ret_ne_all_valid_after_set_false :
    (validate exCut).ret = true ∧ allValidNow (setAllValid (fun _ => .uneval) exCut .fls) exCut = false := by
  constructor
  · simp [validate, exCut, descend, validateDown, validateUp, validateElement, runValidators,
      Ret.isSkipAll, accDown, accUp, validAfterDown, Ret.truthy, Valid.truthy, Valid.ofBool]
  · simp [allValidNow, validNow, validate, exCut, descend, validateDown, validateUp, validateElement,
      runValidators, Ret.isSkipAll, validAfterUp, validAfterDown, Ret.truthy, Valid.truthy, Valid.ofBool,
      lookupValid, VTree.ids, idsL, setAllValid]

example : allValid (setAllValid (fun _ => .tru) exTree .fls) exTree = false :=
  (all_valid_after_set _ exTree .fls).2.1

/-! ### the signal trace -/

/-- calls of a run that starts at validator number `k` -/
def callsFrom (id : Nat) (d : Bool) (k n : Nat) : List Call := (List.range' k n).map (fun j => (id, d, j))

theorem callsOf_eq_from (id : Nat) (d : Bool) (n : Nat) : callsOf id d n = callsFrom id d 0 n := by
  simp [callsOf, callsFrom, List.range_eq_range']

theorem callsFrom_succ (id : Nat) (d : Bool) (k n : Nat) :
    callsFrom id d k (n + 1) = (id, d, k) :: callsFrom id d (k + 1) n := by
  simp [callsFrom, List.range'_succ]

theorem callsFrom_zero (id : Nat) (d : Bool) (k : Nat) : callsFrom id d k 0 = [] := by simp [callsFrom]

theorem filterMap_call_signal (s : Signal) (l : List Event) :
    (Event.signal s :: l).filterMap Event.call? = l.filterMap Event.call? := rfl
theorem filterMap_call_call (c : Call) (l : List Event) :
    (Event.call c :: l).filterMap Event.call? = c :: l.filterMap Event.call? := rfl

theorem traceRun_calls (id : Nat) (d : Bool) (k : Nat) (vs : List Outcome) :
    (traceRun id d k vs).filterMap Event.call? = callsFrom id d k (invoked vs) := by
  induction vs generalizing k with
  | nil => simp [traceRun, invoked, callsFrom]
  | cons o rest ih =>
    cases o <;>
      simp [traceRun, Outcome.goesOn, invoked, filterMap_call_signal, filterMap_call_call, callsFrom_succ,
        callsFrom_zero, ih]

theorem traceRun_eq (id : Nat) (d : Bool) (k : Nat) (vs : List Outcome) :
    traceRun id d k vs = (sigsFrom id d k vs).flatMap eventsOf := by
  induction vs generalizing k with
  | nil => simp [traceRun, sigsFrom]
  | cons o rest ih =>
    cases o <;> simp [traceRun, Outcome.goesOn, sigsFrom, eventsOf, ih]

theorem traceElement_eq (i : Info) (d : Bool) (vs : List Outcome) :
    traceElement i d vs = (elementSignals i d vs).flatMap eventsOf := by
  unfold traceElement elementSignals
  split
  · rfl
  · cases vs with
    | nil => simp [eventsOf]
    | cons o r => simp [traceRun_eq]

theorem traceDown_eq (i : Info) : traceDown i = (downSignals i).flatMap eventsOf := by
  unfold traceDown downSignals
  split
  · cases h : i.down <;> simp [traceElement_eq]
  · simp [traceElement_eq]

theorem traceUp_eq (i : Info) : traceUp i = (upSignals i).flatMap eventsOf := by
  unfold traceUp upSignals
  split <;> simp [traceElement_eq]

theorem traceElement_calls (i : Info) (d : Bool) (vs : List Outcome) :
    (traceElement i d vs).filterMap Event.call? = callsOf i.id d (validateElement i vs).2 := by
  rw [validateElement_eq]
  unfold traceElement elementVerdict
  split
  · simp [callsOf]
  · cases vs with
    | nil => simp [Event.call?, callsOf]
    | cons o r => simp [traceRun_calls, callsOf_eq_from]

theorem traceDown_calls (i : Info) :
    (traceDown i).filterMap Event.call? = callsOf i.id true (validateDown i).2 := by
  unfold traceDown validateDown
  split
  · split
    · simp [callsOf]
    · exact traceElement_calls i true i.down
  · exact traceElement_calls i true i.down

theorem traceUp_calls (i : Info) :
    (traceUp i).filterMap Event.call? = callsOf i.id false (validateUp i).2 := by
  unfold traceUp validateUp
  split
  · exact traceElement_calls i false i.up
  · simp [callsOf]

theorem filterMap_flatMap' {α β γ} (l : List α) (f : α → List β) (g : β → Option γ) :
    (l.flatMap f).filterMap g = l.flatMap (fun x => (f x).filterMap g) := by
  induction l with
  | nil => rfl
  | cons a as ih => simp [List.flatMap_cons, List.filterMap_append, ih]

/-- **The invocations in the trace are the call log**: connecting a receiver changes nothing about which
    validators run, and every signal from a validator sits right behind that validator's invocation -/
theorem signals_eq_calls (t : VTree) :
    (validateTrace t).filterMap Event.call? = (validate t).log := by
  simp only [validateTrace, validate, List.filterMap_append, filterMap_flatMap', traceDown_calls, traceUp_calls]

/-- **The trace is the documented one**: one signal per validator invoked, in invocation order, with the raw
    result, each directly after its invocation; one `NotEmpty` signal (no invocation) for the fallback check of a
    visited element that is not optional-and-empty and has no validators in the phase (containers: ascent only) -/
theorem trace_refines (t : VTree) : validateTrace t = expectedTrace t := by
  simp only [validateTrace, expectedTrace, expectedSignals, descend_visits, List.flatMap_append,
    ← List.map_reverse, List.flatMap_map, mkVisit, traceDown_eq, traceUp_eq, List.flatMap_assoc]

theorem norecurse_trace_refines (i : Info) :
    noRecurseTrace i = expectedNoRecurseTrace i ∧
    (noRecurseTrace i).filterMap Event.call? = (validateNoRecurse i).log := by
  constructor
  · simp [noRecurseTrace, expectedNoRecurseTrace, traceDown_eq, traceUp_eq]
  · simp [noRecurseTrace, validateNoRecurse, traceDown_calls, traceUp_calls]

/-- the signals (without the invocations) are `expectedSignals` -/
theorem trace_signals (t : VTree) : (validateTrace t).filterMap Event.signal? = expectedSignals t := by
  rw [trace_refines, expectedTrace, filterMap_flatMap']
  have : ∀ s : Signal, (eventsOf s).filterMap Event.signal? = [s] := by
    intro s; cases s with | mk a b c => cases b <;> rfl
  simp [this]

example : validateTrace exCut =
    [.call (0, true, 0), .signal ⟨0, .validator true 0, .skipAll⟩, .signal ⟨0, .notEmpty, .tru⟩] := by
  simp [validateTrace, exCut, descend, validateDown, validateElement, runValidators, Ret.isSkipAll, traceDown,
    traceUp, traceElement, traceRun, Outcome.goesOn]

end Flatland.C05.Proofs
