/-
C09 — positional: slot `i` of a List is named `i` after every list-protocol call (successful or
raising, any member schema), so flat names and `find('<i>')` address member `i`.
-/
import Proofs.C09
namespace Flatland.C09.Proofs
open Flatland.Tree Flatland.PyList Flatland.C09 Flatland.C09.Spec

/-! ### positional: slot `i` of a List is named `i` after every call -/

theorem positional_renumber (n : Node) (ks : List Node) : Positional (n.withKids (renumber ks)) := by
  intro _
  simp [slotNames, map_key_renumber]


def WellNumbered (ks : List Node) : Prop :=
  ks.map Node.key = (List.range ks.length).map (fun k => (toString k).toList)

theorem wn_nil : WellNumbered [] := rfl

theorem wn_renumber (ks : List Node) : WellNumbered (renumber ks) := by
  unfold WellNumbered; rw [map_key_renumber, length_renumber]

theorem wn_append {ks : List Node} (h : WellNumbered ks) (id lst : Nat) (w : Node) :
    WellNumbered (ks ++ [mkSlot id lst ks.length w]) := by
  unfold WellNumbered at *
  simp [List.range_succ, h, mkSlot, Node.key, Node.ni]

theorem wn_set {ks : List Node} (h : WellNumbered ks) (k : Nat) (slot : Node) (hk : ks[k]? = some slot)
    (x : List Node) : WellNumbered (ks.set k (slot.withKids x)) := by
  unfold WellNumbered at *
  rw [List.map_set, List.length_set, ← h]
  have : (slot.withKids x).key = slot.key := by cases slot; rfl
  rw [this]
  apply List.ext_getElem?
  intro j
  by_cases hj : k = j
  · subst hj
    by_cases hlt : k < ks.length
    · have hg := List.getElem?_eq_getElem hlt
      rw [hg] at hk; cases hk
      simp [List.getElem?_set, hlt]
    · simp [List.getElem?_set, hlt]
  · simp [List.getElem?_set, hj]

theorem wn_attachAll (lst : Node) (hl : lst.kind = .list) (h : WellNumbered lst.kids) (es : List Node)
    (next : Nat) : WellNumbered (attachAll lst es next).1.kids := by
  induction es generalizing lst next with
  | nil => exact h
  | cons e es ih =>
    rw [attachAll]
    simp only [hl, if_true]
    apply ih
    · cases lst; exact hl
    · simp only [kids_withKids]; exact wn_append h _ _ _

theorem wn_appendEl (n : Node) (hl : n.kind = .list) (h : WellNumbered n.kids) (w : Node) (next : Nat) :
    WellNumbered (appendEl n w next).1.kids ∧ (appendEl n w next).1.kind = .list := by
  unfold appendEl
  simp only [hl, if_true, kids_withKids]
  exact ⟨wn_append h _ _ _, by cases n; exact hl⟩

theorem wn_extendArgs (m : Schema) (n : Node) (hl : n.kind = .list) (h : WellNumbered n.kids) (as : List Arg)
    (next : Nat) : WellNumbered (extendArgs m n as next).1.kids := by
  induction as generalizing n next with
  | nil => exact h
  | cons a as ih =>
    unfold extendArgs
    split
    · exact h
    · rename_i w n1 _
      have := wn_appendEl n hl h w n1
      exact ih _ this.2 this.1 _

theorem wn_setNode (n : Node) (hl : n.kind = .list) (raw : Raw) (pol : Option Policy) (next : Nat) :
    WellNumbered (setNode n raw pol next).node.kids := by
  cases n with
  | mk i s kids =>
    have hk : s.kind = .list := hl
    unfold setNode
    simp only [hk]
    split
    · exact wn_nil
    · split
      · split
        · exact wn_attachAll (.mk i s []) hk wn_nil _ _
        · exact wn_nil
        · exact wn_nil
      · exact wn_nil
      · exact wn_nil
      · exact wn_nil

theorem wn_defaultSlots (mk : Nat → SetR) (lst : Nat) (k idx next : Nat) :
    (defaultSlotsWith mk lst k idx next).1.map Node.key =
      (List.range' idx (defaultSlotsWith mk lst k idx next).1.length).map (fun j => (toString j).toList) := by
  induction k generalizing idx next with
  | zero => rfl
  | succ k ih =>
    rw [defaultSlotsWith]
    dsimp only
    split
    · simp [mkSlot, Node.key, Node.ni]
    · simp only [List.map_cons, List.length_cons, List.range'_succ, ih]
      simp [mkSlot, Node.key, Node.ni]

theorem wn_setDefault (n : Node) (hl : n.kind = .list) (h : WellNumbered n.kids) (next : Nat) :
    WellNumbered (setDefault n next).node.kids := by
  cases n with
  | mk i s kids =>
    have hk : s.kind = .list := hl
    unfold setDefault
    simp only [hk]
    split
    · exact h
    · split
      · unfold WellNumbered
        simp only [Node.kids]
        rw [wn_defaultSlots, List.range_eq_range']
      · exact h
    · exact wn_setNode _ hl _ _ _

theorem wn_imulLoop (m : Schema) (vals : List Arg) (k : Nat) (n : Node) (hl : n.kind = .list)
    (h : WellNumbered n.kids) (next : Nat) :
    WellNumbered (imulLoop m vals k n next).1.kids := by
  induction k generalizing n next with
  | zero => exact h
  | succ k ih =>
    rw [imulLoop]
    have hw := wn_extendArgs m n hl h vals next
    have hh := extendArgs_hdr m n vals next
    have hk : (extendArgs m n vals next).1.kind = .list := by
      have : (extendArgs m n vals next).1.sch = n.sch := congrArg (fun t => t.2.2.1) hh
      unfold Node.kind; rw [this]; exact hl
    split
    · rename_i he; rw [he] at hw; exact hw
    · rename_i he; rw [he] at hw hk; exact ih _ hk hw _

/-- **positional.**  A List whose slots are named by their positions keeps them so under every
    call, successful or raising: slot `i` is named `i`, so flat names and `find('<i>')`
    address member `i`. -/
theorem positional_step (n : Node) (hl : n.kind = .list) (h : WellNumbered n.kids) (op : SeqOp) (next : Nat) :
    WellNumbered (seqStep n op next).node.kids := by
  unfold seqStep
  split
  · exact h
  · simp only [hl, if_true]
    cases op with
    | append a => dsimp only; split <;> first | exact h | exact (wn_appendEl n hl h _ _).1
    | extend as => dsimp only; split <;> exact wn_extendArgs _ n hl h _ _
    | iadd as => dsimp only; split <;> exact wn_extendArgs _ n hl h _ _
    | insert i a => dsimp only; split <;> first | exact h | (simp only [kids_withKids]; exact wn_renumber _)
    | setitem i a =>
      dsimp only
      split
      · split
        · exact h
        · split
          · exact h
          · rename_i slot hg _ k hk
            obtain ⟨k', hk', hx⟩ := getItem_some hg
            rw [hk] at hk'; cases hk'
            simp only [kids_withKids]; exact wn_set h _ _ hx _
      · split
        · rename_i slot k hg hk
          obtain ⟨k', hk', hx⟩ := getItem_some hg
          rw [hk] at hk'; cases hk'
          split
          · exact h
          · split <;> (simp only [excOut, kids_withKids]; exact wn_set h _ _ hx _)
        · exact h
    | setslice s as =>
      dsimp only
      split
      · exact h
      · split
        · exact h
        · simp only [kids_withKids]; exact wn_renumber _
    | delitem i => dsimp only; split <;> first | exact h | (simp only [kids_withKids]; exact wn_renumber _)
    | delslice s => dsimp only; split <;> first | exact h | (simp only [kids_withKids]; exact wn_renumber _)
    | pop i => dsimp only; split <;> first | exact h | (simp only [kids_withKids]; exact wn_renumber _)
    | remove a =>
      dsimp only
      split
      · exact h
      · split
        · exact h
        · simp only [kids_withKids]; exact wn_renumber _
    | reverse => simp only [kids_withKids]; exact wn_renumber _
    | clear => simp only [kids_withKids]; exact wn_nil
    | imul c =>
      dsimp only
      split
      · simp only [kids_withKids]; exact wn_renumber _
      · split <;> exact wn_imulLoop _ _ _ n hl h _
    | sort k r =>
      dsimp only
      split
      · split <;> first | exact h | (split <;> exact h)
      · split
        · simp only [kids_withKids]; exact wn_renumber _
        · exact h
    | set r => dsimp only; split <;> exact wn_setNode n hl _ _ _
    | setDefault => dsimp only; split <;> exact wn_setDefault n hl h _
    | len => exact h
    | getitem i => dsimp only; split <;> first | exact h | (split <;> exact h)
    | getslice s => dsimp only; split <;> exact h
    | contains a => dsimp only; split <;> exact h
    | index a => dsimp only; split <;> first | exact h | (split <;> exact h)
    | count a => dsimp only; split <;> exact h


end Flatland.C09.Proofs
