/-
C02 — "order-free": when no key occurs twice — hereditarily, i.e. also after every stripping step of
`_set_flat` — the tree `from_flat` builds does not depend on the order of the pairs.

`HNodup s ps` is the hereditary reading of "no key occurs twice": at every scalar at most one pair
matches its name, at every Array at most one pair yields a member, and the same holds for what each
Mapping field and each List slot is handed.  `order_free` proves invariance under every
permutation.  That the plain top-level reading is not enough is KF-C02-a (two spellings of one
slot index are different keys that collide one level down): `order_free_full_fails`.
-/
import Flatland.Flat
import Proofs.C02Confined
namespace Flatland.Flat.Proofs
open Flatland.Flat

/-! ### hereditary "no key twice" -/

mutual
def HNodup (env : Env) (sep : Str) : Schema → Pairs → Prop
  | .leaf name _ _, ps => (ps.filter (fun p => p.1 == name)).length ≤ 1
  | .joined name _ _ _, ps => (ps.filter (fun p => p.1 == name)).length ≤ 1
  | .dict name _ _ fields, ps => HNodupFields env sep fields (possibles sep name ps)
  | .compound name _ _ fields, ps => HNodupFields env sep fields (possibles sep name ps)
  | .list name _ prune _ member, ps => ∀ i, HNodup env sep member (groupOf env sep name prune i ps)
  | .array name _ prune member, ps =>
    if !truthy name then (arrayAnon (fun _ => Elem.leaf []) prune member.name ps).length ≤ 1
    else (arrayNamed (fun _ => Elem.leaf []) sep prune (name.getD []) member.name ps).length ≤ 1
def HNodupFields (env : Env) (sep : Str) : List Schema → List (Str × Str) → Prop
  | [], _ => True
  | f :: fs, poss =>
    HNodup env sep f (wrap (poss.filter (fun p => isPrefix (f.name.getD []) p.1)))
      ∧ HNodupFields env sep fs poss
end

/-! ### permutation facts -/

theorem perm_length_le_one {α} {l l' : List α} (h : l.Perm l') (hl : l.length ≤ 1) : l = l' := by
  match l, l', h, hl with
  | [], l', h, _ => exact (List.Perm.nil_eq h)
  | [a], l', h, _ =>
    have := List.perm_singleton.mp h.symm
    exact this.symm
  | _ :: _ :: _, _, _, hl => simp at hl

theorem find?_eq_head?_filter {α} (p : α → Bool) (l : List α) : l.find? p = (l.filter p).head? := by
  induction l with
  | nil => rfl
  | cons a as ih =>
    simp only [List.find?_cons, List.filter_cons]
    split <;> simp_all

theorem find?_perm {α} (p : α → Bool) {l l' : List α} (h : l.Perm l')
    (hl : (l.filter p).length ≤ 1) : l.find? p = l'.find? p := by
  rw [find?_eq_head?_filter, find?_eq_head?_filter, perm_length_le_one (h.filter p) hl]

theorem isEmpty_perm {α} {l l' : List α} (h : l.Perm l') : l.isEmpty = l'.isEmpty := by
  cases l with
  | nil => rw [List.Perm.nil_eq h]
  | cons a as =>
    cases l' with
    | nil => exact absurd h.symm (by simp)
    | cons b bs => rfl

theorem possibles_perm (sep : Str) (name : Option Str) {ps ps' : Pairs} (h : ps.Perm ps') :
    (possibles sep name ps).Perm (possibles sep name ps') := by
  unfold possibles
  cases name with
  | none => exact h.filterMap _
  | some n => exact (h.filterMap _).filterMap _

theorem wrap_perm {l l' : List (Str × Str)} (h : l.Perm l') : (wrap l).Perm (wrap l') := h.map _

/-! ### sorted distinct indexes depend on the index *set* only -/

theorem mem_insertSorted (n x : Nat) (l : List Nat) : x ∈ insertSorted n l ↔ x = n ∨ x ∈ l := by
  induction l with
  | nil => simp [insertSorted]
  | cons m ms ih =>
    unfold insertSorted
    split
    · simp
    · split
      · rename_i h; subst h; simp
      · simp [ih]; constructor
        · rintro (h | h | h) <;> simp [h]
        · rintro (h | h | h) <;> simp [h]

theorem pairwise_insertSorted (n : Nat) (l : List Nat) (h : l.Pairwise (· < ·)) :
    (insertSorted n l).Pairwise (· < ·) := by
  induction l with
  | nil => simp [insertSorted]
  | cons m ms ih =>
    have hm := List.pairwise_cons.mp h
    unfold insertSorted
    split
    · rename_i hlt
      apply List.pairwise_cons.mpr
      refine ⟨?_, h⟩
      intro x hx
      rcases List.mem_cons.mp hx with rfl | hx
      · exact hlt
      · exact Nat.lt_trans hlt (hm.1 x hx)
    · split
      · exact h
      · rename_i h1 h2
        apply List.pairwise_cons.mpr
        refine ⟨?_, ih hm.2⟩
        intro x hx
        rcases (mem_insertSorted n x ms).mp hx with rfl | hx
        · omega
        · exact hm.1 x hx

theorem sortedDistinct_spec (l : List Nat) :
    (sortedDistinct l).Pairwise (· < ·) ∧ ∀ x, x ∈ sortedDistinct l ↔ x ∈ l := by
  induction l with
  | nil => simp [sortedDistinct]
  | cons a as ih =>
    simp only [sortedDistinct, List.foldr_cons] at ih ⊢
    refine ⟨pairwise_insertSorted a _ ih.1, ?_⟩
    intro x
    rw [mem_insertSorted, ih.2 x]
    simp

theorem sorted_unique : ∀ (l l' : List Nat), l.Pairwise (· < ·) → l'.Pairwise (· < ·) →
    (∀ x, x ∈ l ↔ x ∈ l') → l = l'
  | [], [], _, _, _ => rfl
  | [], b :: bs, _, _, h => absurd ((h b).mpr (by simp)) (by simp)
  | a :: as, [], _, _, h => absurd ((h a).mp (by simp)) (by simp)
  | a :: as, b :: bs, hl, hl', h => by
    have ha := List.pairwise_cons.mp hl
    have hb := List.pairwise_cons.mp hl'
    have hab : a = b := by
      have h1 : a ∈ b :: bs := (h a).mp (by simp)
      have h2 : b ∈ a :: as := (h b).mpr (by simp)
      rcases List.mem_cons.mp h1 with h1 | h1
      · exact h1
      · rcases List.mem_cons.mp h2 with h2 | h2
        · exact h2.symm
        · have := hb.1 a h1; have := ha.1 b h2; omega
    subst hab
    congr 1
    apply sorted_unique as bs ha.2 hb.2
    intro x
    constructor
    · intro hx
      have := (h x).mp (List.mem_cons_of_mem _ hx)
      rcases List.mem_cons.mp this with rfl | h'
      · exact absurd (ha.1 x hx) (Nat.lt_irrefl _)
      · exact h'
    · intro hx
      have := (h x).mpr (List.mem_cons_of_mem _ hx)
      rcases List.mem_cons.mp this with rfl | h'
      · exact absurd (hb.1 x hx) (Nat.lt_irrefl _)
      · exact h'

theorem sortedDistinct_perm {l l' : List Nat} (h : l.Perm l') : sortedDistinct l = sortedDistinct l' := by
  apply sorted_unique _ _ (sortedDistinct_spec l).1 (sortedDistinct_spec l').1
  intro x
  rw [(sortedDistinct_spec l).2, (sortedDistinct_spec l').2]
  exact h.mem_iff

theorem foldl_max_perm {l l' : List Nat} (h : l.Perm l') (a : Nat) : l.foldl max a = l'.foldl max a := by
  induction h generalizing a with
  | nil => rfl
  | cons x _ ih => simp only [List.foldl_cons]; exact ih _
  | swap x y l =>
    simp only [List.foldl_cons]
    congr 1
    omega
  | trans _ _ ih1 ih2 => rw [ih1, ih2]

theorem indexesOf_perm (env : Env) (sep : Str) (name : Option Str) (prune : Bool) {ps ps' : Pairs}
    (h : ps.Perm ps') : (indexesOf env sep name prune ps).Perm (indexesOf env sep name prune ps') :=
  h.filterMap _

theorem groupOf_perm (env : Env) (sep : Str) (name : Option Str) (prune : Bool) (i : Nat)
    {ps ps' : Pairs} (h : ps.Perm ps') :
    (groupOf env sep name prune i ps).Perm (groupOf env sep name prune i ps') :=
  h.filterMap _

/-! ### arrays: the members are the images of the pairs that pass the filters -/

/-- does this pair yield a member of an unnamed Array, and with which key -/
def anonPass (prune : Bool) (cn : Option Str) (p : Key × Str) : Option (Key × Str) :=
  if prune && p.2.isEmpty && p.1 == some (if truthy cn then cn.getD [] else []) then none
  else
    let key' : Key := if p.1 == some [] then none else p.1
    if truthy cn && key' != cn then none
    else if !truthy cn && key'.isSome then none
    else some (key', p.2)

theorem arrayAnon_eq (setM : Pairs → Elem) (prune : Bool) (cn : Option Str) (ps : Pairs) :
    arrayAnon setM prune cn ps = (ps.filterMap (anonPass prune cn)).map (fun q => setM [q]) := by
  induction ps with
  | nil => simp [arrayAnon]
  | cons p ps ih =>
    obtain ⟨key, v⟩ := p
    simp only [arrayAnon, List.filterMap_cons, anonPass, ih]
    repeat' split
    all_goals simp_all

def namedPass (sep : Str) (prune : Bool) (name : Str) (cn : Option Str) (p : Key × Str) :
    Option (Key × Str) :=
  match p.1 with
  | none => none
  | some k =>
    match arrayRemainder sep name k with
    | none => none
    | some remainder =>
      if truthy cn && remainder.isNone then none
      else if remainder != cn then none
      else if prune && p.2.isEmpty then none
      else some (remainder, p.2)

theorem arrayNamed_eq (setM : Pairs → Elem) (sep : Str) (prune : Bool) (name : Str) (cn : Option Str)
    (ps : Pairs) :
    arrayNamed setM sep prune name cn ps
      = (ps.filterMap (namedPass sep prune name cn)).map (fun q => setM [q]) := by
  induction ps with
  | nil => simp [arrayNamed]
  | cons p ps ih =>
    obtain ⟨key, v⟩ := p
    cases key with
    | none =>
      have : namedPass sep prune name cn (none, v) = none := rfl
      simp [arrayNamed, List.filterMap_cons, this, ih]
    | some k =>
      cases hr : arrayRemainder sep name k with
      | none =>
        have : namedPass sep prune name cn (some k, v) = none := by simp [namedPass, hr]
        simp [arrayNamed, List.filterMap_cons, this, hr, ih]
      | some rem =>
        simp only [arrayNamed, List.filterMap_cons, namedPass, hr, ih]
        by_cases h1 : (truthy cn && rem.isNone) = true
        · simp only [h1, if_true]
        · by_cases h2 : (rem != cn) = true
          · simp only [h1, h2, if_true, if_false, Bool.false_eq_true]
          · by_cases h3 : (prune && v.isEmpty) = true
            · simp only [h1, h2, h3, if_true, if_false, Bool.false_eq_true]
            · simp only [h1, h2, h3, if_false, Bool.false_eq_true, List.map_cons]

end Flatland.Flat.Proofs

namespace Flatland.Flat.Proofs
open Flatland.Flat

mutual
theorem order_setFlat (env : Env) (sep : Str) : ∀ (s : Schema) (e : Elem) (ps ps' : Pairs),
    HNodup env sep s ps → ps.Perm ps' → setFlat env sep s e ps = setFlat env sep s e ps'
  | .leaf name o k, e, ps, ps', h, hp => by
    simp only [HNodup] at h
    simp only [setFlat, find?_perm _ hp h]
  | .joined name o k m, e, ps, ps', h, hp => by
    simp only [HNodup] at h
    simp only [setFlat, find?_perm _ hp h]
  | .dict name o mode fields, e, ps, ps', h, hp => by
    simp only [HNodup] at h
    have hposs := possibles_perm sep name hp
    simp only [setFlat, isEmpty_perm hposs]
    rw [order_setFields env sep fields (membersOf e) _ _ h hposs]
  | .compound name o k fields, e, ps, ps', h, hp => by
    simp only [HNodup] at h
    have hposs := possibles_perm sep name hp
    simp only [setFlat, isEmpty_perm hposs]
    rw [order_setFields env sep fields (membersOf e) _ _ h hposs]
  | .list name o prune mx member, e, ps, ps', h, hp => by
    simp only [HNodup] at h
    have hidx := indexesOf_perm env sep name prune hp
    have hslot : (fun i => if (groupOf env sep name prune i ps).isEmpty then blank member
          else setFlat env sep member (blank member) (groupOf env sep name prune i ps))
        = (fun i => if (groupOf env sep name prune i ps').isEmpty then blank member
          else setFlat env sep member (blank member) (groupOf env sep name prune i ps')) := by
      funext i
      have hg := groupOf_perm env sep name prune i hp
      rw [isEmpty_perm hg, order_setFlat env sep member (blank member) _ _ (h i) hg]
    simp only [setFlat, buildSlots, isEmpty_perm hp, isEmpty_perm hidx, sortedDistinct_perm hidx,
      foldl_max_perm hidx, hslot]
  | .array name o prune member, e, ps, ps', h, hp => by
    simp only [HNodup] at h
    simp only [setFlat]
    split
    · rename_i hn
      simp only [hn, if_true] at h
      rw [arrayAnon_eq, List.length_map] at h
      rw [arrayAnon_eq, arrayAnon_eq, perm_length_le_one (hp.filterMap _) h]
    · rename_i hn
      simp only [hn, if_false] at h
      rw [arrayNamed_eq, List.length_map] at h
      rw [arrayNamed_eq, arrayNamed_eq, perm_length_le_one (hp.filterMap _) h]
theorem order_setFields (env : Env) (sep : Str) : ∀ (fs : List Schema) (members : List (Str × Elem))
    (poss poss' : List (Str × Str)), HNodupFields env sep fs poss → poss.Perm poss' →
    setFields env sep fs members poss = setFields env sep fs members poss'
  | [], members, poss, poss', _, _ => by simp [setFields]
  | f :: fs, members, poss, poss', h, hp => by
    simp only [HNodupFields] at h
    have hacc : (poss.filter (fun p => isPrefix (f.name.getD []) p.1)).Perm
        (poss'.filter (fun p => isPrefix (f.name.getD []) p.1)) := hp.filter _
    have hstep : stepM env sep f members (poss.filter (fun p => isPrefix (f.name.getD []) p.1))
        = stepM env sep f members (poss'.filter (fun p => isPrefix (f.name.getD []) p.1)) := by
      unfold stepM
      rw [isEmpty_perm hacc]
      split
      · rfl
      · cases hl : lookup (f.name.getD []) members with
        | some child =>
          simp only
          rw [order_setFlat env sep f child _ _ h.1 (wrap_perm hacc)]
        | none =>
          simp only
          rw [order_setFlat env sep f (blank f) _ _ h.1 (wrap_perm hacc)]
    rw [setFields_cons, setFields_cons, hstep]
    exact order_setFields env sep fs _ poss poss' h.2 hp
end

/-- **Order-free.**  When no key occurs twice (hereditarily), the tree `from_flat` builds is the
    same for every ordering of the pairs. -/
theorem order_free (env : Env) (sep : Str) (s : Schema) (ps ps' : List (Str × Str))
    (h : HNodup env sep s (wrap ps)) (hp : ps.Perm ps') :
    fromFlat env sep s ps = fromFlat env sep s ps' :=
  order_setFlat env sep s (blank s) (wrap ps) (wrap ps') h (wrap_perm hp)

/-- the plain reading: no *top-level* key occurs twice -/
def C02_order_Full : Prop :=
  ∀ (env : Env) (sep : Str) (s : Schema), wf s = true → ∀ (ps ps' : List (Str × Str)),
    (ps.map (·.1)).Nodup → ps.Perm ps' → fromFlat env sep s ps = fromFlat env sep s ps'

/-- KF-C02-a: `l_0_s` and `l_00_s` are different keys for the same leaf; the first one wins. -/
theorem order_free_full_fails : ¬ C02_order_Full := by
  intro h
  have := h exEnv "_".toList
    (.list (some "l".toList) false true 1024 (.leaf (some "s".toList) false 0)) (by decide)
    [("l_0_s".toList, "a".toList), ("l_00_s".toList, "b".toList)]
    [("l_00_s".toList, "b".toList), ("l_0_s".toList, "a".toList)]
    (by decide) (List.Perm.swap _ _ _)
  revert this
  simp [fromFlat, setFlat, blank, wrap, indexesOf, groupOf, listAddr, matchIndex, isPrefix, truthy,
    isNd, ndVal, digitsVal, exEnv, sortedDistinct, insertSorted, buildSlots]

end Flatland.Flat.Proofs
