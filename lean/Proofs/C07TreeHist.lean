/-
C07 — top module of the property: the flat-model theorems (Proofs/C07*.lean), the tree-model
theorems (Proofs/C07Tree*.lean), the invariant development (Proofs/C07TreeInv*.lean) and, here,
the HISTORY theorems that combine them:

  after every step of every history of the modelled calls — list protocol (append / extend / `+=` /
  insert / item and slice assignment / item and slice deletion / pop / remove / reverse / sort /
  `*=` / clear / set / set_default and the read-only ones) and dict protocol, each applied to ANY
  element of a tree of any depth, successful or raising — started from a tree built by any
  construction route, what `flatten()` emits (keys joined from STORED slot names) is the positional
  specification: every list member on the path of every key is named by its CURRENT position.

`Inv.dps` is `dp` plus "the items of a List's underlying list are ListSlots"; everything the model
builds satisfies it (`Inv.blank_dps`, `Inv.construct_dps`, `Inv.fromDefaults_dps`, `Inv.setNode_dps`,
`Inv.setDefault_dps`); `Inv.OpArgsDP`: Element arguments handed to a call are such trees.
-/
import Proofs.C07Overlap
import Proofs.C07TreeExamples
import Proofs.C07TreeInv
namespace Flatland.C07Tree.Proofs
open Flatland.Tree Flatland.PyList Flatland.C08 Flatland.C07Tree

/-- **history theorem.**  In the state reached by any history of calls from a deep-positional tree,
    `flatten()` is the positional specification. -/
theorem flatten_positional_history (sep : Str) (hs : List HOp) (s : HState)
    (hops : ∀ h ∈ hs, Inv.OpArgsDP h.op) (hd : Inv.dps s.root = true) :
    flattenTree sep (hrun s hs).root = specFlatten sep (hrun s hs).root :=
  flattenTree_positional sep _ (Inv.hrun_dp hs s hops hd)

/-- **… after every step** (every prefix of the history) -/
theorem flatten_positional_after_every_step (sep : Str) (hs : List HOp) (s : HState)
    (hops : ∀ h ∈ hs, Inv.OpArgsDP h.op) (hd : Inv.dps s.root = true) (k : Nat) :
    flattenTree sep (hrun s (hs.take k)).root = specFlatten sep (hrun s (hs.take k)).root :=
  flattenTree_positional sep _ (Inv.hrun_dp_prefix hs s hops hd k)

/-- … and it is the flat model's `flatten` of the abstracted tree, so `flatten_compositional`,
    `keys_are_paths`, `keys_unique_paths` speak about every tree a history reaches -/
theorem flatten_flat_after_every_step (sep : Str) (hs : List HOp) (s : HState)
    (hops : ∀ h ∈ hs, Inv.OpArgsDP h.op) (hd : Inv.dps s.root = true) (k : Nat) :
    flattenTree sep (hrun s (hs.take k)).root = Flatland.Flat.flattenNode sep (toFNode (hrun s (hs.take k)).root) :=
  flattenTree_eq_flat sep _ (Inv.hrun_dp_prefix hs s hops hd k)

/-- the states a history can start from: the construction routes of the executor
    (`TreeJson.initState`: `schema()`, `schema(value)`, `schema().set(value)`,
    `schema.from_defaults()`, `schema().set_default()`) -/
inductive Constructed (sc : Schema) : HState → Prop
  | ctor (next : Nat) : Constructed sc ⟨(blank sc none [] next).1, (blank sc none [] next).2⟩
  | ctorValue (raw : Raw) (next : Nat) (e : Node) (n1 : Nat) (h : construct sc raw none [] next = (.ok e, n1)) :
      Constructed sc ⟨e, n1⟩
  | set (raw : Raw) (next : Nat) :
      Constructed sc ⟨(setNode (blank sc none [] next).1 raw none (blank sc none [] next).2).node,
                      (setNode (blank sc none [] next).1 raw none (blank sc none [] next).2).next⟩
  | fromDefaults (next : Nat) :
      Constructed sc ⟨(fromDefaults sc none [] next).node, (fromDefaults sc none [] next).next⟩
  | setDefault (next : Nat) :
      Constructed sc ⟨(setDefault (blank sc none [] next).1 (blank sc none [] next).2).node,
                      (setDefault (blank sc none [] next).1 (blank sc none [] next).2).next⟩

theorem constructed_dps {sc : Schema} {s : HState} (h : Constructed sc s) : Inv.dps s.root = true := by
  cases h with
  | ctor next => exact Inv.blank_dps sc none [] next
  | ctorValue raw next e n1 h => exact Inv.construct_dps sc raw none [] next e n1 h
  | set raw next => exact Inv.setNode_dps raw _ none _ (Inv.blank_dps sc none [] next)
  | fromDefaults next => exact Inv.fromDefaults_dps sc none [] next
  | setDefault next => exact Inv.setDefault_dps _ _ (Inv.blank_dps sc none [] next)

/-- **C07, positional clause, over histories.**  For every schema of the tree model, every
    construction route, every history of calls on any elements of the tree (Element arguments
    being deep-positional trees themselves) and every separator: after the construction and after
    every call, `flatten()` names every list member on the path of every key by its CURRENT index. -/
theorem c07_positional_histories (sc : Schema) (s : HState) (hc : Constructed sc s) (sep : Str) (hs : List HOp)
    (hops : ∀ h ∈ hs, Inv.OpArgsDP h.op) (k : Nat) :
    flattenTree sep (hrun s (hs.take k)).root = specFlatten sep (hrun s (hs.take k)).root :=
  flatten_positional_after_every_step sep hs s hops (constructed_dps hc) k

/-- the same for C09's executor (`C09.run`: a history of list-protocol calls on the sequence itself) -/
theorem flatten_positional_run (sep : Str) (ops : List SeqOp) : ∀ (s : Flatland.C09.SState),
    Inv.dps s.node = true → (∀ op ∈ ops, Inv.SeqArgsDP op) →
    flattenTree sep (Flatland.C09.run s ops).node = specFlatten sep (Flatland.C09.run s ops).node := by
  suffices h : ∀ (s : Flatland.C09.SState), Inv.dps s.node = true → (∀ op ∈ ops, Inv.SeqArgsDP op) →
      Inv.dps (Flatland.C09.run s ops).node = true from
    fun s hd ho => flattenTree_positional sep _ (Inv.dp_of_dps _ (h s hd ho))
  induction ops with
  | nil => intro s hd _; exact hd
  | cons op ops ih =>
    intro s hd ho
    have : Flatland.C09.run s (op :: ops) = Flatland.C09.run (Flatland.C09.step s op) ops := by
      simp [Flatland.C09.run]
    rw [this]
    exact ih _ (Inv.seqStep_dps s.node hd op (ho op (by simp)) s.next) (fun o h => ho o (by simp [h]))

/-! ### non-vacuity: the history of `Proofs/C07TreeExamples.lean` (List of Dicts with a nested List;
`insert(-1, …)`, `sort`, `del l[::2]`) satisfies the hypotheses -/

theorem exStart_constructed : Constructed exLoD exStart := by
  have h : construct exLoD (.list [dv ['b'] [1, 2], dv ['a'] [3], dv ['c'] []]) none [] 1 = (.ok exStart.root, exStart.next) := by
    rfl
  exact Constructed.ctorValue _ _ _ _ h

example (k : Nat) : flattenTree ['_'] (hrun exStart (exHist.take k)).root = specFlatten ['_'] (hrun exStart (exHist.take k)).root :=
  c07_positional_histories exLoD exStart exStart_constructed ['_'] exHist
    (by intro h hh
        simp only [exHist, List.mem_cons, List.not_mem_nil, or_false] at hh
        rcases hh with rfl | rfl | rfl <;> trivial) k

end Flatland.C07Tree.Proofs
