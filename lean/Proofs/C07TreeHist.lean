/-
C07 — top module of the property: the flat-model theorems (Proofs/C07*.lean), the tree-model
theorems (Proofs/C07Tree*.lean) and the history theorem that combines them.
-/
import Proofs.C07Overlap
import Proofs.C07TreeExamples
