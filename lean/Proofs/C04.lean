import Flatland.Scalar
namespace Flatland.C04.Proofs
end Flatland.C04.Proofs
