/-
C04 — set() reports one coherent outcome: return, value, u and signal agree.
Model A: Flatland/Scalar.lean.  Spec B: Flatland/Spec/C04.lean.
-/
import Flatland.Scalar
import Flatland.C04
import Flatland.Spec.C04
import Flatland.Generated.C04Tables
import Proofs.Lemmas.C04Reset
namespace Flatland.C04.Proofs
open Flatland.Scalar Flatland.Scalar.Spec

/-- the generated tables of the running interpreter satisfy what the proofs need -/
theorem pyTables_ok : Flatland.Generated.C04.pyTables.OK := by decide

/-! ### one coherent outcome (all kinds, including the opaque Float / Decimal) -/

/-- **set_coherent** — (holds by construction of the model: `setScalar` is written branch by branch
    like `Scalar.set`, and the proof is a case split; that the code refines it is the correspondence)
    whenever `set(x)` completes, flag, value, u and the signal agree:
    `set_flag`, `set_success`, `set_failure` and the scalar half of `signals` in one statement. -/
theorem set_coherent (E : Env) (k : Kind) (x : Native) (r : SetResult)
    (h : setScalar E k x = .ok r) : Outcome E k x r := by
  unfold setScalar at h
  cases ha : adapt E k x with
  | error e => simp [ha] at h
  | ok ov =>
    cases ov with
    | some v =>
      simp only [ha] at h
      cases hu : uOfValue E k v with
      | error e => simp [hu] at h
      | ok u =>
        simp only [hu, Except.ok.injEq] at h
        subst h
        exact ⟨⟨fun _ => ⟨v, ha⟩, fun _ => rfl⟩, fun _ => ⟨v, ha, rfl, hu⟩, by simp, rfl, rfl⟩
    | none =>
      simp only [ha] at h
      cases hu : uOfFailed E.T x with
      | error e => simp [hu] at h
      | ok u =>
        simp only [hu, Except.ok.injEq] at h
        subst h
        exact ⟨⟨by simp, fun ⟨v, hv⟩ => by rw [ha] at hv; simp at hv⟩, by simp, fun _ => ⟨rfl, hu⟩, rfl, rfl⟩

theorem set_flag (E : Env) (k : Kind) (x : Native) (r : SetResult) (h : setScalar E k x = .ok r) :
    r.flag = true ↔ ∃ v, adapt E k x = .ok (some v) := (set_coherent E k x r h).flag_iff_adapted

theorem set_success (E : Env) (k : Kind) (x : Native) (r : SetResult) (h : setScalar E k x = .ok r)
    (hf : r.flag = true) :
    ∃ v, adapt E k x = .ok (some v) ∧ r.st.value = v ∧ uOfValue E k v = .ok r.st.u :=
  (set_coherent E k x r h).success hf

theorem set_failure (E : Env) (k : Kind) (x : Native) (r : SetResult) (h : setScalar E k x = .ok r)
    (hf : r.flag = false) : r.st.value = .none ∧ uOfFailed E.T x = .ok r.st.u :=
  (set_coherent E k x r h).failure hf

theorem set_signals (E : Env) (k : Kind) (x : Native) (r : SetResult) (h : setScalar E k x = .ok r) :
    r.signals = [r.flag] := (set_coherent E k x r h).signal_once

set_option exponentiation.threshold 5000 in
example : setScalar ⟨Flatland.Generated.C04.pyTables, fun _ _ => some none⟩ (.integer true 0) (.str " 12 ".toList)
    = .ok ⟨⟨.str " 12 ".toList, .int 12, "12".toList⟩, true, [true]⟩ := by
  simp [setScalar, adapt, uOfValue, serialize, strip, lstrip, rstrip, isWs, Flatland.Generated.C04.pyTables,
    pyIntOfStr, splitSign, parseDigitBody, digitsAfter, digitVal, checkSigned, pyFmtInt, intFits, fmtInt,
    natDigits, digitsVal, digitChar]

/-! ### set() does not raise -/

/-- an environment whose opaque conversions always fail (enough for kinds without float/Decimal) -/
def plainEnv : Env := ⟨Flatland.Generated.C04.pyTables, fun _ _ => some none⟩

/-- **set_total** (partial: `NoHuge`, see KF-C04-a) — for every kind and every constructible input
    none of whose ints exceeds CPython's int→str digit limit, `set` completes. -/
theorem set_total_partial (E : Env) (hT : E.T.OK) (hE : EnvTotal E) (k : Kind) (x : Native)
    (hx : NoHuge E.T x = true) (hwf : Native.WF x = true) : ∃ r, setScalar E k x = .ok r :=
  set_total E hT hE k x hx hwf

/-- text input never raises, whatever the kind -/
theorem set_total_text (E : Env) (hT : E.T.OK) (hE : EnvTotal E) (k : Kind) (s : Str) :
    ∃ r, setScalar E k (.str s) = .ok r :=
  set_total E hT hE k (.str s) rfl rfl

/-- the full first clause of the property: set() never raises -/
def C04_Full_total : Prop :=
  ∀ (k : Kind) (x : Native), Native.WF x = true → ∃ r, setScalar plainEnv k x = .ok r

set_option exponentiation.threshold 5000 in
/-- KF-C04-a: `Integer().set(10**4300)` raises ValueError inside serialize -/
theorem C04_total_fails : ¬ C04_Full_total := by
  intro h
  obtain ⟨r, hr⟩ := h (.integer true 0) (.int (10 ^ 4300)) rfl
  have : setScalar plainEnv (.integer true 0) (.int (10 ^ 4300)) = .error .valueError := by
    simp [setScalar, adapt, checkSigned, uOfValue, serialize, pyFmtInt, intFits, plainEnv,
      Flatland.Generated.C04.pyTables]
  rw [this] at hr
  cases hr

set_option exponentiation.threshold 5000 in
example : NoHuge Flatland.Generated.C04.pyTables (.int 12345) = true := by
  simp [NoHuge, intFits, Flatland.Generated.C04.pyTables]

/-! ### re-setting the text -/

/-- **reset_text** (partial: `Coherent`, see KF-C04-c) — after a successful `set`, setting `.u`
    again completes and reproduces the same `.u`. -/
theorem reset_text_partial (E : Env) (hT : E.T.OK) (k : Kind) (x : Native) (r : SetResult)
    (hm : Modelled k = true) (hc : Coherent k = true) (hcn : r.st.value = .none → CoherentNone k = true)
    (hw : WidthOK E.T k = true) (hx : NoHuge E.T x = true) (hwf : Native.WF x = true)
    (h : setScalar E k x = .ok r) (hf : r.flag = true) :
    ∃ r', setScalar E k (.str r.st.u) = .ok r' ∧ r'.st.u = r.st.u := by
  obtain ⟨v, ha, hval, hu⟩ := set_success E k x r h hf
  have hv := adapt_value E hT k x v hx hwf ha
  rcases reset_u_value E hT k hm hc hw v r.st.u hv hu (fun hn => hcn (hval.trans hn)) with h1 | ⟨v', h1, h2⟩
  · exact ⟨⟨⟨.str r.st.u, .none, r.st.u⟩, false, [false]⟩, by simp [setScalar, h1, uOfFailed], rfl⟩
  · exact ⟨⟨⟨.str r.st.u, v', r.st.u⟩, true, [true]⟩, by simp [setScalar, h1, h2], rfl⟩

/-- **norm_idem** — text in, text out: `norm k text` is the text `K().set(text)` leaves in `.u`;
    normalising twice is normalising once.  (This is the `Settled` instance used by C01/C02/C03:
    only the text-side hypothesis `Coherent` is needed, because text never adapts to None.) -/
theorem norm_idem (E : Env) (hT : E.T.OK) (hE : EnvTotal E) (k : Kind)
    (hm : Modelled k = true) (hc : Coherent k = true) (hw : WidthOK E.T k = true) (s : Str) :
    norm E k (norm E k s) = norm E k s := by
  obtain ⟨r, hr⟩ := set_total_text E hT hE k s
  have hn : norm E k s = r.st.u := by simp [norm, hr]
  rw [hn]
  by_cases hf : r.flag = true
  · obtain ⟨v, ha, _, hu⟩ := set_success E k (.str s) r hr hf
    have hv := adapt_value E hT k (.str s) v rfl rfl ha
    rcases reset_u_value E hT k hm hc hw v r.st.u hv hu
        (fun h => absurd h (adapt_str_ne_none E k s v ha)) with h1 | ⟨v', h1, h2⟩
    · simp [norm, setScalar, h1, uOfFailed]
    · simp [norm, setScalar, h1, h2]
  · have hff : r.flag = false := by simpa using hf
    obtain ⟨_, hu⟩ := set_failure E k (.str s) r hr hff
    simp only [uOfFailed, Except.ok.injEq] at hu
    rw [← hu, hn]
    exact hu.symm

/-- **reset_value** (partial: `Coherent` and `ExactInput`, see KF-C04-b/c) — for the exactly
    serialising kinds a value other than None is reproduced, with a True flag, by setting `.u`. -/
theorem reset_value_partial (E : Env) (hT : E.T.OK) (k : Kind) (x : Native) (r : SetResult)
    (hm : Modelled k = true) (hc : Coherent k = true) (hw : WidthOK E.T k = true)
    (hx : NoHuge E.T x = true) (hwf : Native.WF x = true) (hex : ExactInput k x = true)
    (h : setScalar E k x = .ok r) (hf : r.flag = true) (hne : r.st.value ≠ .none) :
    ∃ r', setScalar E k (.str r.st.u) = .ok r' ∧ r'.st.u = r.st.u ∧ r'.st.value = r.st.value ∧
      r'.flag = true := by
  obtain ⟨v, ha, hval, hu⟩ := set_success E k x r h hf
  have hv := adapt_value E hT k x v hx hwf ha
  have h1 := reset_value_value E hT k hm hc hw v r.st.u hv (adapt_exact E k x v hex ha)
    (hval ▸ hne) hu
  exact ⟨⟨⟨.str r.st.u, v, r.st.u⟩, true, [true]⟩, by simp [setScalar, h1, hu], rfl, hval.symm, rfl⟩

/-! ### Float and Decimal: re-setting the text, from text-stability of the opaque conversions -/

theorem adaptTok_cases (E : Env) (dec sg : Bool) (x : Native) (v : Native) (h : adaptTok E dec sg x = .ok (some v)) :
    ∃ t, E.conv dec x = some (some t) ∧ v = (if dec then .decimal t else .float t) := by
  unfold adaptTok at h
  split at h
  · simp at h
  · simp at h
  · rename_i t ht
    simp only [Except.ok.injEq] at h
    exact ⟨t, ht, checkSigned_some _ _ _ _ h⟩

/-- provenance of opaque values: they come out of the conversion table -/
theorem adapt_opaque_provenance (E : Env) (dec sg : Bool) (x v : Native)
    (h : adapt E (if dec then .decimal sg else .float sg) x = .ok (some v)) :
    v = .none ∨ ∃ y t, E.conv dec y = some (some t) ∧ v = (if dec then .decimal t else .float t) := by
  cases dec <;> simp only [Bool.false_eq_true, if_false, if_true] at h ⊢
  all_goals
    cases x <;> simp only [adapt] at h
    case none => simp at h; exact Or.inl h.symm
    all_goals first
      | (simp at h; done)
      | (obtain ⟨t, ht, hv⟩ := adaptTok_cases _ _ _ _ _ h; simp at hv; exact Or.inr ⟨_, t, ht, hv⟩)

theorem serialize_opaque (E : Env) (dec sg : Bool) (t : Tok) :
    uOfValue E (if dec then .decimal sg else .float sg) (if dec then .decimal t else .float t) = .ok (tokText t) := by
  cases dec <;> simp only [uOfValue, serialize, tokText, Bool.false_eq_true, if_false, if_true] <;> cases t.fmt <;> rfl

/-- A-form for the opaque kinds, from text-stability of the table -/
theorem reset_u_opaque (E : Env) (dec : Bool) (hst : OpaqueStable E dec) (sg : Bool) (x v : Native) (u : Str)
    (ha : adapt E (if dec then .decimal sg else .float sg) x = .ok (some v))
    (hu : uOfValue E (if dec then .decimal sg else .float sg) v = .ok u) :
    adapt E (if dec then .decimal sg else .float sg) (.str u) = .ok none ∨
    ∃ v', adapt E (if dec then .decimal sg else .float sg) (.str u) = .ok (some v') ∧
      uOfValue E (if dec then .decimal sg else .float sg) v' = .ok u := by
  have hadapt : ∀ s, adapt E (if dec then .decimal sg else .float sg) (.str s) = adaptTok E dec sg (.str (strip E.T s)) := by
    intro s; cases dec <;> simp [adapt]
  rcases adapt_opaque_provenance E dec sg x v ha with rfl | ⟨y, t, hy, rfl⟩
  · have : u = [] := by cases dec <;> simp [uOfValue] at hu <;> exact hu
    subst this
    left
    rw [hadapt, strip_nil]
    simp [adaptTok, hst.1]
  · rw [serialize_opaque] at hu
    simp only [Except.ok.injEq] at hu
    subst hu
    rw [hadapt]
    rcases hst.2 y t hy with h | ⟨t', h, htxt⟩
    · left; simp [adaptTok, h]
    · unfold adaptTok
      simp only [h]
      cases hcs : checkSigned sg t'.neg (if dec then Native.decimal t' else Native.float t') with
      | none => left; rfl
      | some w =>
        right
        have := checkSigned_some _ _ _ _ hcs
        subst this
        exact ⟨_, rfl, by rw [serialize_opaque, htxt]⟩

/-- A-form for every kind: Float / Decimal through `OpaqueStable`, the others through the model -/
theorem reset_u_all (E : Env) (hT : E.T.OK) (k : Kind) (hst : OpaqueOK E k)
    (hc : Coherent k = true) (hw : WidthOK E.T k = true) (x v : Native) (u : Str)
    (hx : NoHuge E.T x = true) (hwf : Native.WF x = true)
    (ha : adapt E k x = .ok (some v)) (hu : uOfValue E k v = .ok u)
    (hnone : v = .none → CoherentNone k = true) :
    adapt E k (.str u) = .ok none ∨ ∃ v', adapt E k (.str u) = .ok (some v') ∧ uOfValue E k v' = .ok u := by
  induction k generalizing v with
  | float sg => exact reset_u_opaque E false hst sg x v u ha hu
  | decimal sg => exact reset_u_opaque E true hst sg x v u ha hu
  | constrained c vd ih =>
    rw [uOfValue_constrained] at hu
    simp only [Coherent, WidthOK] at hc hw
    have hchild : adapt E c x = .ok (some v) ∧ vd.holds v = true := by
      simp only [adapt] at ha
      split at ha
      · simp at ha
      · simp at ha
      · rename_i w hw'
        split at ha
        · rename_i hh
          simp only [Except.ok.injEq, Option.some.injEq] at ha
          subst ha
          exact ⟨hw', hh⟩
        · simp at ha
    rcases ih hst hc hw v hchild.1 hu (fun h => by simpa [CoherentNone] using hnone h) with h | ⟨v', h1, h2⟩
    · left; simp [adapt, h]
    · by_cases hh : vd.holds v' = true
      · right; exact ⟨v', by simp [adapt, h1, hh], by rw [uOfValue_constrained]; exact h2⟩
      · left; simp [adapt, h1, hh]
  | string b => exact reset_u_value E hT _ rfl hc hw v u (adapt_value E hT _ x v hx hwf ha) hu hnone
  | integer sg w => exact reset_u_value E hT _ rfl hc hw v u (adapt_value E hT _ x v hx hwf ha) hu hnone
  | boolean tr fl ts fs => exact reset_u_value E hT _ rfl hc hw v u (adapt_value E hT _ x v hx hwf ha) hu hnone
  | date b => exact reset_u_value E hT _ rfl hc hw v u (adapt_value E hT _ x v hx hwf ha) hu hnone
  | time b => exact reset_u_value E hT _ rfl hc hw v u (adapt_value E hT _ x v hx hwf ha) hu hnone
  | datetime b => exact reset_u_value E hT _ rfl hc hw v u (adapt_value E hT _ x v hx hwf ha) hu hnone

/-- **reset_text** for every kind, Float and Decimal included, given a text-stable conversion table -/
theorem reset_text_all_partial (E : Env) (hT : E.T.OK) (k : Kind) (hst : OpaqueOK E k) (x : Native) (r : SetResult)
    (hc : Coherent k = true) (hcn : r.st.value = .none → CoherentNone k = true) (hw : WidthOK E.T k = true)
    (hx : NoHuge E.T x = true) (hwf : Native.WF x = true)
    (h : setScalar E k x = .ok r) (hf : r.flag = true) :
    ∃ r', setScalar E k (.str r.st.u) = .ok r' ∧ r'.st.u = r.st.u := by
  obtain ⟨v, ha, hval, hu⟩ := set_success E k x r h hf
  rcases reset_u_all E hT k hst hc hw x v r.st.u hx hwf ha hu (fun hn => hcn (hval.trans hn)) with h1 | ⟨v', h1, h2⟩
  · exact ⟨⟨⟨.str r.st.u, .none, r.st.u⟩, false, [false]⟩, by simp [setScalar, h1, uOfFailed], rfl⟩
  · exact ⟨⟨⟨.str r.st.u, v', r.st.u⟩, true, [true]⟩, by simp [setScalar, h1, h2], rfl⟩

/-- `norm_idem` for every kind, Float and Decimal included (text-stable conversion table) -/
theorem norm_idem_all (E : Env) (hT : E.T.OK) (hE : EnvTotal E) (k : Kind) (hst : OpaqueOK E k)
    (hc : Coherent k = true) (hw : WidthOK E.T k = true) (s : Str) :
    norm E k (norm E k s) = norm E k s := by
  obtain ⟨r, hr⟩ := set_total_text E hT hE k s
  have hn : norm E k s = r.st.u := by simp [norm, hr]
  rw [hn]
  by_cases hf : r.flag = true
  · obtain ⟨v, ha, _, hu⟩ := set_success E k (.str s) r hr hf
    rcases reset_u_all E hT k hst hc hw (.str s) v r.st.u rfl rfl ha hu
        (fun h => absurd h (adapt_str_ne_none E k s v ha)) with h1 | ⟨v', h1, h2⟩
    · simp [norm, setScalar, h1, uOfFailed]
    · simp [norm, setScalar, h1, h2]
  · have hff : r.flag = false := by simpa using hf
    obtain ⟨_, hu⟩ := set_failure E k (.str s) r hr hff
    simp only [uOfFailed, Except.ok.injEq] at hu
    rw [← hu, hn]
    exact hu.symm

/-- the table check is sound: what the runner (and, independently, the harness) evaluates on the
    recorded conversions of a case is the hypothesis `OpaqueStable` for the environment of that case -/
theorem opaqueStableOn_sound (T : Tables) (entries : List (Bool × Native × Option Tok)) (dec : Bool)
    (hdec : ∃ e ∈ entries, e.1 = dec) (h : opaqueStableOn T entries = true) :
    OpaqueStable ⟨T, tableConv entries⟩ dec := by
  simp only [opaqueStableOn, Bool.and_eq_true, List.all_eq_true] at h
  obtain ⟨h1, h2⟩ := h
  obtain ⟨e0, he0, rfl⟩ := hdec
  constructor
  · have := h1 e0 he0
    cases hc : tableConv entries e0.1 (.str []) with
    | none => simp [hc] at this
    | some o => cases o with
      | none => exact hc
      | some t => simp [hc] at this
  · intro x t hx
    simp only [tableConv, Option.map_eq_some_iff] at hx
    obtain ⟨e, hfind, het⟩ := hx
    have hmem := List.mem_of_find?_eq_some hfind
    have hd : e.1 = e0.1 := by
      have := List.find?_some hfind
      simp only [Bool.and_eq_true, beq_iff_eq] at this
      exact this.1
    have := h2 e hmem
    rw [het] at this
    simp only at this
    rw [hd] at this
    cases hc : tableConv entries e0.1 (.str (strip T (tokText t))) with
    | none => simp [hc] at this
    | some o =>
      cases o with
      | none => exact Or.inl hc
      | some t' =>
        simp only [hc, beq_iff_eq] at this
        exact Or.inr ⟨t', hc, this⟩

/-- the full re-set clause: no hypothesis on the Boolean configuration -/
def C04_Full_reset_u : Prop :=
  ∀ (k : Kind) (x : Native) (r : SetResult), Modelled k = true → Native.WF x = true →
    setScalar plainEnv k x = .ok r → r.flag = true →
    ∃ r', setScalar plainEnv k (.str r.st.u) = .ok r' ∧ r'.st.u = r.st.u

/-- KF-C04-c: `Boolean(true_synonyms=('',))`: False has text '' which adapts to True / '1' -/
theorem C04_reset_u_fails : ¬ C04_Full_reset_u := by
  intro h
  obtain ⟨r', h1, h2⟩ := h (.boolean ['1'] [] [[]] []) (.bool false)
    ⟨⟨.bool false, .bool false, []⟩, true, [true]⟩ rfl rfl
    (by simp [setScalar, adapt, pyTruthy, uOfValue, serialize]) rfl
  simp [setScalar, adapt, uOfValue, serialize, pyTruthy] at h1
  subst h1
  simp at h2

/-- the full value clause: no hypothesis on the native input -/
def C04_Full_reset_value : Prop :=
  ∀ (k : Kind) (x : Native) (r : SetResult), Modelled k = true → Coherent k = true → Native.WF x = true →
    setScalar plainEnv k x = .ok r → r.flag = true → r.st.value ≠ .none →
    ∃ r', setScalar plainEnv k (.str r.st.u) = .ok r' ∧ r'.st.value = r.st.value

/-- KF-C04-b: `Time().set(time(1,2,3,5))` has text '01:02:03', which adapts to time(1,2,3) -/
theorem C04_reset_value_fails : ¬ C04_Full_reset_value := by
  intro h
  have hs : setScalar plainEnv (.time true) (.time 1 2 3 5) =
      .ok ⟨⟨.time 1 2 3 5, .time 1 2 3 5, timeText 1 2 3⟩, true, [true]⟩ := by
    simp [setScalar, adapt, uOfValue, serialize]
  obtain ⟨r', h1, h2⟩ := h (.time true) (.time 1 2 3 5) _ rfl rfl (by decide) hs rfl (by simp)
  have hv := reset_value_value plainEnv pyTables_ok (.time true) rfl rfl rfl (.time 1 2 3 0) (timeText 1 2 3)
    (Or.inr ⟨1, 2, 3, 0, rfl, by decide⟩) rfl (by simp) (by simp [uOfValue, serialize])
  simp only at h1 h2
  simp [setScalar, hv, uOfValue, serialize] at h1
  subst h1
  simp at h2

/-- the value clause read literally, None included -/
def C04_Full_reset_value_none : Prop :=
  ∀ (k : Kind) (x : Native) (r : SetResult), Modelled k = true → Coherent k = true → CoherentNone k = true →
    Native.WF x = true → setScalar plainEnv k x = .ok r → r.flag = true →
    ∃ r', setScalar plainEnv k (.str r.st.u) = .ok r' ∧ r'.st.value = r.st.value

/-- KF-C04-d: `String().set(None)` has value None and text `''`; `String().set('')` has value `''` -/
theorem C04_reset_none_fails : ¬ C04_Full_reset_value_none := by
  intro h
  obtain ⟨r', h1, h2⟩ := h (.string true) .none ⟨⟨.none, .none, []⟩, true, [true]⟩ rfl rfl rfl rfl
    (by simp [setScalar, adapt, uOfValue]) rfl
  simp [setScalar, adapt, uOfValue, serialize, strip_nil] at h1
  subst h1
  simp at h2

example : Coherent Flatland.Generated.C04.booleanDefault = true := by decide
example : CoherentNone Flatland.Generated.C04.booleanDefault = true := by decide

/-- the hypotheses of `reset_text_partial` / `reset_value_partial` hold for, e.g., an Enum over a
    zero-padded unsigned Integer given a padded full-width text -/
example :
    let k : Kind := .constrained (.integer false 4) (.oneOf [.int 7, .int 42])
    Modelled k = true ∧ Coherent k = true ∧ CoherentNone k = true ∧ WidthOK Flatland.Generated.C04.pyTables k = true ∧
    NoHuge Flatland.Generated.C04.pyTables (.str " ４２ ".toList) = true ∧ Native.WF (.str " ４２ ".toList) = true ∧
    ExactInput k (.str " ４２ ".toList) = true := by
  decide
example : ExactInput (.date true) (.date 2020 1 2) = true := rfl

/-! ### signals of every element kind -/

open Flatland.C04

theorem prefixSigs_ne (i : Nat) (sigs : List Sig) : ∀ s ∈ prefixSigs i sigs, s.1 ≠ some [] := by
  intro s hs
  unfold prefixSigs at hs
  obtain ⟨t, _, rfl⟩ := List.mem_map.mp hs
  cases t.1 <;> simp

theorem mergeCalls_ne (runs : List (Nat × ChildRun)) (n : Nat) :
    ∀ c ∈ mergeCalls runs n, ∀ s ∈ c.2, s.1 ≠ some [] := by
  intro c hc s hs
  unfold mergeCalls at hc
  obtain ⟨j, _, hj⟩ := List.mem_filterMap.mp hc
  obtain ⟨⟨i, r⟩, _, hr⟩ := List.exists_of_findSome?_eq_some hj
  simp only [Option.map_eq_some_iff] at hr
  obtain ⟨call, _, rfl⟩ := hr
  exact prefixSigs_ne i _ s hs

/-- `Scalar.set` traced assignment by assignment ends in the state, flag and single signal of
    `setScalar`, whatever the element held before -/
theorem scalarSetTrace_eq (E : Env) (k : Kind) (old : SState) (x : Native) :
    scalarSetTrace E k old x =
      (match setScalar E k x with
       | .ok r => .ok (r.st, r.flag, [(r.flag, r.st)])
       | .error e => .error e) := by
  unfold scalarSetTrace setScalar
  cases adapt E k x with
  | error e => rfl
  | ok ov =>
    cases ov with
    | some v => simp only; cases uOfValue E k v <;> rfl
    | none => simp only; cases uOfFailed E.T x <;> rfl

theorem scalarSetTrace_sigs (E : Env) (k : Kind) (old : SState) (x : Native) (st : SState) (flag : Bool)
    (sigs : List (Bool × SState)) (h : scalarSetTrace E k old x = .ok (st, flag, sigs)) :
    sigs = [(flag, st)] := by
  rw [scalarSetTrace_eq] at h
  cases hs : setScalar E k x with
  | error e => simp [hs] at h
  | ok r =>
    simp only [hs, Except.ok.injEq, Prod.mk.injEq] at h
    obtain ⟨rfl, rfl, rfl⟩ := h
    rfl

theorem keepPieces_ne (prune : Bool) (l : List (SState × Bool × List (Bool × SState))) (i : Nat) :
    ∀ s ∈ (keepPieces prune l i).2, s.1 ≠ some [] := by
  induction l generalizing i with
  | nil => intro s hs; simp [keepPieces] at hs
  | cons r rest ih =>
    intro s hs
    simp only [keepPieces] at hs
    split at hs
    · rcases List.mem_append.mp hs with h | h
      · obtain ⟨p, _, rfl⟩ := List.mem_map.mp h; simp
      · exact ih i s h
    · rcases List.mem_append.mp hs with h | h
      · obtain ⟨p, _, rfl⟩ := List.mem_map.mp h; simp
      · exact ih (i + 1) s h

/-- **signals / signal_after_final** — a completed `set()` of any element kind logs exactly one
    entry for that element, as the last entry, with `adapted` equal to the returned flag AND with
    the element's final state as the state a listener sees at that moment; the entries before it
    belong to elements below it.  (The model performs the assignments and the `send` of each
    branch in the order of the code; moving a `send` before an assignment in the model makes this
    proof fail.) -/
theorem signals_spec (E : Env) (S : Schema) (old : Elem) (x : Input) (out : SetOut)
    (h : setElem E S old x = .ok out) :
    ∃ pre, out.sigs = pre ++ [(some [], out.flag, out.elem)] ∧ ∀ s ∈ pre, s.1 ≠ some [] := by
  cases S with
  | scalar k =>
    cases x with
    | leaf n =>
      simp only [setElem] at h
      split at h
      · simp at h
      · rename_i st' flag sigs hs
        simp only [Except.ok.injEq] at h
        subst h
        refine ⟨[], ?_, by simp⟩
        rw [scalarSetTrace_sigs E k _ n st' flag sigs hs]
        rfl
    | list xs => simp [setElem] at h
    | dict ps => simp [setElem] at h
  | seq m =>
    simp only [setElem] at h
    split at h
    · simp only [Except.ok.injEq] at h; subst h; exact ⟨[], rfl, by simp⟩
    · split at h
      · simp at h
      · simp only [Except.ok.injEq] at h; subst h
        refine ⟨_, rfl, ?_⟩
        intro s hs
        obtain ⟨⟨i, o⟩, _, hi⟩ := List.mem_flatMap.mp hs
        exact prefixSigs_ne i _ s hi
  | dict pol names fields =>
    simp only [setElem] at h
    split at h
    · simp only [Except.ok.injEq] at h; subst h; exact ⟨[], rfl, by simp⟩
    · split at h
      · simp at h
      · split at h
        · simp at h
        · simp only [Except.ok.injEq] at h; subst h
          refine ⟨_, rfl, ?_⟩
          intro s hs
          obtain ⟨c, hc, hi⟩ := List.mem_flatMap.mp hs
          exact mergeCalls_ne _ _ c hc s hi
  | date ky km kd =>
    cases x with
    | leaf n =>
      simp only [setElem] at h
      split at h
      · simp at h
      · simp only [Except.ok.injEq] at h; subst h; exact ⟨[], rfl, by simp⟩
      · split at h
        · simp only [Except.ok.injEq] at h; subst h
          refine ⟨_, rfl, ?_⟩
          intro s hs
          simp only [List.mem_append] at hs
          rcases hs with (hs | hs) | hs
          · exact prefixSigs_ne _ _ s hs
          · exact prefixSigs_ne _ _ s hs
          · exact prefixSigs_ne _ _ s hs
        all_goals simp at h
    | list xs => simp [setElem] at h
    | dict ps => simp [setElem] at h
  | joined sep sp prune k =>
    simp only [setElem] at h
    split at h
    · simp at h
    · simp only [Except.ok.injEq] at h; subst h; exact ⟨[], rfl, by simp⟩
    · split at h
      · simp at h
      · simp only [Except.ok.injEq] at h; subst h
        exact ⟨_, rfl, keepPieces_ne _ _ _⟩

/-- **signal_after_final** — in every completed `set()`, of every element kind and for every
    input, the element's own signal is the last one and the snapshot it carries (what a listener
    can read from the element inside the handler) is the element's final state -/
theorem signal_after_final (E : Env) (S : Schema) (old : Elem) (x : Input) (out : SetOut)
    (h : setElem E S old x = .ok out) : out.sigs.getLast? = some (some [], out.flag, out.elem) := by
  obtain ⟨pre, hs, _⟩ := signals_spec E S old x out h
  rw [hs]; simp

/-! ### the returned flag of a container is the conjunction of its members' flags -/

/-- the `adapted` flags signalled by the direct children, in order -/
def depth1 : Option (List Nat) → Bool
  | some [_] => true
  | _ => false

def directFlags (sigs : List Sig) : List Bool := (sigs.filter fun s => depth1 s.1).map (·.2.1)

theorem directFlags_append (a b : List Sig) : directFlags (a ++ b) = directFlags a ++ directFlags b := by
  simp [directFlags]

theorem directFlags_root (b : Bool) (e : Elem) : directFlags [(some [], b, e)] = [] := by simp [directFlags, depth1]

/-- a completed child set contributes exactly its own flag at depth 1 -/
theorem directFlags_prefix (i : Nat) (sigs : List Sig) (flag : Bool) (snap : Elem)
    (h : ∃ pre, sigs = pre ++ [(some [], flag, snap)] ∧ ∀ s ∈ pre, s.1 ≠ some []) :
    directFlags (prefixSigs i sigs) = [flag] := by
  obtain ⟨pre, rfl, hpre⟩ := h
  unfold prefixSigs directFlags
  rw [List.map_append, List.filter_append]
  have h1 : List.filter (fun s : Sig => depth1 s.1) (List.map (fun s : Sig => (s.1.map (i :: ·), s.2)) pre) = [] := by
    apply List.filter_eq_nil_iff.mpr
    intro s hs
    obtain ⟨t, ht, rfl⟩ := List.mem_map.mp hs
    have := hpre t ht
    cases hp : t.1 with
    | none => simp [depth1]
    | some l =>
      cases l with
      | nil => exact absurd hp this
      | cons a l' => simp [depth1]
  rw [h1]
  simp [depth1]

theorem directFlags_flatMap {α} (l : List α) (f : α → List Sig) (g : α → Bool)
    (h : ∀ a ∈ l, directFlags (f a) = [g a]) : directFlags (l.flatMap f) = l.map g := by
  induction l with
  | nil => rfl
  | cons a t ih =>
    rw [List.flatMap_cons, directFlags_append, h a (by simp), ih (fun b hb => h b (List.mem_cons_of_mem _ hb))]
    rfl

/-- **seq_flag** — `Sequence.set` on an iterable returns the conjunction of the `adapted` flags its
    members signalled -/
theorem seq_flag (E : Env) (m : Schema) (old : Elem) (x : Input) (out : SetOut) (items : List Input)
    (hit : iterItems x = some items) (h : setElem E (.seq m) old x = .ok out) :
    out.flag = (directFlags out.sigs).all id := by
  simp only [setElem, hit] at h
  split at h
  · simp at h
  · simp only [Except.ok.injEq] at h
    subst h
    simp only [directFlags_append, directFlags_root, List.append_nil]
    rw [directFlags_flatMap _ _ (fun p => p.2.flag)]
    · simp [List.all_map, Function.comp_def]
    · rintro ⟨i, o⟩ ho
      apply directFlags_prefix
      -- (i, o) is the result of a member's set()
      obtain ⟨⟨j, r⟩, hr, hjr⟩ := List.mem_filterMap.mp ho
      obtain ⟨⟨j', y⟩, _, hy⟩ := List.mem_map.mp hr
      simp only [Prod.mk.injEq] at hy
      obtain ⟨rfl, rfl⟩ := hy
      cases hres : setElem E m (blank m) y with
      | error e => simp [hres] at hjr
      | ok o' =>
        simp only [hres, Option.some.injEq, Prod.mk.injEq] at hjr
        obtain ⟨rfl, rfl⟩ := hjr
        exact signals_spec E m (blank m) y o' hres

theorem mem_indexed {α} (l : List α) (p : Nat × α) (h : p ∈ indexed l) : p.2 ∈ l := by
  unfold indexed at h
  exact (List.of_mem_zip h).2

theorem directFlags_keepPieces (prune : Bool) (l : List (SState × Bool × List (Bool × SState))) (i : Nat)
    (h : ∀ r ∈ l, r.2.2 = [(r.2.1, r.1)]) :
    directFlags (keepPieces prune l i).2 = (keepPieces prune l i).1.map (·.2) := by
  induction l generalizing i with
  | nil => rfl
  | cons r rest ih =>
    have hr := h r (by simp)
    have ih' := fun j => ih j (fun x hx => h x (List.mem_cons_of_mem _ hx))
    simp only [keepPieces]
    split
    · simp only [directFlags_append, hr, ih' i]
      simp [directFlags, depth1]
    · simp only [directFlags_append, hr, ih' (i + 1)]
      simp [directFlags, depth1]

/-- **joined_flag** — `JoinedString.set` that gets as far as its pieces (any input but a
    non-iterable) returns the conjunction of the flags signalled by the members it KEPT (a pruned
    piece signals from outside the tree and does not count) -/
theorem joined_flag (E : Env) (sep : Str) (sp : Splitter) (prune : Bool) (k : Kind) (old : Elem) (x : Input)
    (out : SetOut) (h : setElem E (.joined sep sp prune k) old x = .ok out)
    (hne : out.sigs ≠ [(some [], false, Elem.joined [])] ∨ out.flag = true) :
    out.flag = (directFlags out.sigs).all id := by
  simp only [setElem] at h
  split at h
  · simp at h
  · simp only [Except.ok.injEq] at h
    subst h
    simp at hne
  · split at h
    · simp at h
    · simp only [Except.ok.injEq] at h
      subst h
      simp only [directFlags_append, directFlags_root, List.append_nil]
      rw [directFlags_keepPieces]
      · simp [List.all_map, Function.comp_def]
      · intro r hr
        obtain ⟨o, ho, hor⟩ := List.mem_filterMap.mp hr
        obtain ⟨v, _, rfl⟩ := List.mem_map.mp ho
        cases hres : scalarSetTrace E k blankState v with
        | error e => simp [hres] at hor
        | ok r' =>
          simp only [hres, Option.some.injEq] at hor
          subst hor
          obtain ⟨st, flag, sigs⟩ := r'
          exact scalarSetTrace_sigs E k _ v st flag sigs hres

theorem runSets_calls (step : Elem → Input → Except CRaise SetOut) (e : Elem) (inputs : List (Nat × Input)) :
    ∀ c ∈ (runSets step e inputs).calls, ∃ e' x out, step e' x = .ok out ∧ c.2 = (out.flag, out.sigs) := by
  induction inputs generalizing e with
  | nil => intro c hc; simp [runSets] at hc
  | cons p rest ih =>
    obtain ⟨j, x⟩ := p
    intro c hc
    simp only [runSets] at hc
    cases hs : step e x with
    | error r => simp [hs] at hc
    | ok out =>
      simp only [hs, List.mem_cons] at hc
      rcases hc with rfl | hc
      · exact ⟨e, x, out, hs, rfl⟩
      · exact ih out.elem c hc

theorem setFields_runs (E : Env) (names : List Str) (fields : List Schema) (pairs : List (Native × Input)) (i : Nat) :
    ∀ p ∈ setFields E names fields pairs i, ∀ c ∈ p.2.calls,
      ∃ f e' x out, setElem E f e' x = .ok out ∧ c.2 = (out.flag, out.sigs) := by
  induction names generalizing fields i with
  | nil => intro p hp; simp [setFields] at hp
  | cons n ns ih =>
    cases fields with
    | nil => intro p hp; simp [setFields] at hp
    | cons f fs =>
      intro p hp c hc
      simp only [setFields, List.mem_cons] at hp
      rcases hp with rfl | hp
      · obtain ⟨e', x, out, h1, h2⟩ := runSets_calls _ _ _ c hc
        exact ⟨f, e', x, out, h1, h2⟩
      · exact ih fs (i + 1) p hp c hc

/-- **dict_flag** — a `Dict.set` that reaches its member loop returns the conjunction of the flags
    signalled by the member `set()` calls it made -/
theorem dict_flag (E : Env) (pol : Policy) (names : List Str) (fields : List Schema) (old : Elem) (x : Input)
    (out : SetOut) (pairs : List (Native × Input)) (hp : toPairs x = some pairs)
    (h : setElem E (.dict pol names fields) old x = .ok out) :
    out.flag = (directFlags out.sigs).all id := by
  simp only [setElem, hp] at h
  split at h
  · simp at h
  · split at h
    · simp at h
    · simp only [Except.ok.injEq] at h
      subst h
      simp only [directFlags_append, directFlags_root, List.append_nil]
      rw [directFlags_flatMap _ _ (fun c => c.1)]
      · simp [List.all_map, Function.comp_def]
      · rintro ⟨flag, sigs⟩ hc
        unfold mergeCalls at hc
        obtain ⟨j, _, hj⟩ := List.mem_filterMap.mp hc
        obtain ⟨⟨i, r⟩, hr, hcall⟩ := List.exists_of_findSome?_eq_some hj
        simp only [Option.map_eq_some_iff, Prod.mk.injEq] at hcall
        obtain ⟨call, hfind, rfl, rfl⟩ := hcall
        have hmem : call ∈ r.calls := List.mem_of_find?_eq_some hfind
        obtain ⟨f, e', y, o, h1, h2⟩ := setFields_runs E names fields pairs 0 (i, r) hr call hmem
        rw [h2]
        exact directFlags_prefix i o.sigs o.flag o.elem (signals_spec E f e' y o h1)

/-- a Dict with a String field and a list-of-Strings field, set from a pair list that names `a`
    twice: children's entries first (in loop order), the Dict's own entry last -/
example :
    (setElem plainEnv (.dict .subset ["a".toList, "l".toList] [.scalar (.string false), .seq (.scalar (.string false))])
        (blank (.dict .subset ["a".toList, "l".toList] [.scalar (.string false), .seq (.scalar (.string false))]))
        (.list [.list [.leaf (.str "a".toList), .leaf (.str "x".toList)],
                .list [.leaf (.str "l".toList), .list [.leaf (.str "p".toList), .leaf (.str "q".toList)]],
                .list [.leaf (.str "a".toList), .leaf .none]])).toOption.map (fun o => (o.flag, o.sigs.map fun s => (s.1, s.2.1))) =
      some (true, [(some [0], true), (some [1, 0], true), (some [1, 1], true), (some [1], true), (some [0], true), (some [], true)]) := by
  decide

end Flatland.C04.Proofs
