/-
C07 on the tree model — the deep positional invariant is preserved by EVERY operation of the tree
model and along histories.

    dps   (Proofs/C07TreeInvBase.lean)   =   `dp` of `Flatland/C07Tree.lean`
                                             + "every item of a List's underlying list has kind `.slot`"

* `dp_of_dps`: `dps n = true → dp n = true` (base file).
* construction routes (`blank_dps`, `setNode_dps`, `buildItems_dps`, `setPairs_dps`, `construct_dps`,
  `fromDefaults_dps`, `defaultFields_dps`, `setDefault_dps`, `setDefaultKids_dps`): base / build files.
* node level: `seqStep_dps` (Seq file), `mapStep_dps` (Map file), `nodeStep_dps` (here).
* frame rule `stepAt_dps` / `stepAtL_dps`, histories `hstep_dps`, `hrun_dps`, `hrun_dps_prefix`, and
  the `dp` corollaries `hrun_dp`, `hrun_dp_prefix` (here).
* WHY NOT `dp` ITSELF: `dp_not_framed` and `dp_not_node_level` — plain `dp` is preserved neither by
  a call addressed to an item of a List that is not a ListSlot, nor by `lst[i] = element` on a List
  whose item is itself a List-kind node.  Both are excluded by `dps`, and nothing the model builds
  ever has such items.
-/
import Proofs.C07TreeInvBase
import Proofs.C07TreeInvBuild
import Proofs.C07TreeInvSeq
import Proofs.C07TreeInvMap
namespace Flatland.C07Tree.Proofs.Inv
open Flatland.Tree Flatland.PyList Flatland.C08 Flatland.C07Tree
open Flatland.C09.Proofs (WellNumbered)
open Flatland.C08.Proofs (nodeStep_hdr)

/-- the Element arguments of one call of a history are deep-positional subtrees
    (mirror of `Flatland.C08.Spec.OpArgsWP`) -/
def OpArgsDP : Op → Prop
  | .seq (.append a) | .seq (.insert _ a) | .seq (.setitem _ a) => ArgDP a
  | .seq (.extend as) | .seq (.iadd as) | .seq (.setslice _ as) => ∀ a ∈ as, ArgDP a
  | .map (.setitem _ a) => ArgDP a
  | .map (.updateArgs kvs) => ∀ p ∈ kvs, ArgDP p.2
  | _ => True

/-- **node-level preservation, every call on any element.** -/
theorem nodeStep_dps (n : Node) (h : dps n = true) (op : Op) (hop : OpArgsDP op) (next : Nat) :
    dps (nodeStep n op next).node = true := by
  cases op with
  | seq o =>
    have ho : SeqArgsDP o := by
      cases o <;> first | exact hop | trivial
    have h2 := seqStep_dps n h o ho next
    unfold nodeStep
    cases hk : n.kind <;> simp only [] <;> first | exact h2 | exact h
  | map o =>
    have ho : MapArgsDP o := by
      cases o <;> first | exact hop | trivial
    unfold nodeStep
    cases hk : n.kind <;> simp only [] <;>
      first | exact mapStep_dps n h (by rw [hk]; decide) o ho next | exact h

/-- a ListSlot accepts no call: it is left as it is -/
theorem nodeStep_slot (n : Node) (hk : n.kind = .slot) (op : Op) (next : Nat) : (nodeStep n op next).node = n := by
  unfold nodeStep
  cases op <;> simp only [hk] <;> rfl

/-! ### the frame rule: a call on one element leaves the rest of the tree alone

When the holder is a List, its item is a ListSlot and the call lands inside the slot: the slot keeps
its name (header) and the number of elements it holds, so the List's numbering and "one element per
slot" are untouched. -/

mutual
theorem stepAt_dps (op : Op) (hop : OpArgsDP op) (tid : Nat) :
    ∀ (t : Node) (next : Nat) (r : StepR), dps t = true → stepAt t tid op next = some r →
      dps r.node = true ∧ r.node.hdr = t.hdr ∧ (t.kind = .slot → r.node.kids.length = t.kids.length)
  | .mk i s kids, next, r, hw, hr => by
    rw [stepAt] at hr
    split at hr
    · cases hr
      exact ⟨nodeStep_dps _ hw op hop next, nodeStep_hdr _ _ _, fun hk => by rw [nodeStep_slot _ hk]⟩
    · split at hr
      · cases hr
      · rename_i kids' r' hl
        cases hr
        have hd := (dps_mk_iff i s kids).mp hw
        have := stepAtL_dps op hop tid kids (s.kind = .list) next kids' r' hd.2 hl
        refine ⟨?_, rfl, fun _ => this.2.2⟩
        rw [dps_mk_iff]
        refine ⟨fun hk => ?_, this.1⟩
        have hwn := hd.1 hk
        unfold WellNumbered at hwn ⊢
        rw [this.2.1, this.2.2]; exact hwn
theorem stepAtL_dps (op : Op) (hop : OpArgsDP op) (tid : Nat) :
    ∀ (ks : List Node) (L : Prop) (next : Nat) (ks' : List Node) (r : StepR), KidsDP L ks →
      stepAtL ks tid op next = some (ks', r) →
      KidsDP L ks' ∧ ks'.map Node.key = ks.map Node.key ∧ ks'.length = ks.length
  | [], _, _, _, _, _, hr => by rw [stepAtL] at hr; cases hr
  | k :: ks, L, next, ks', r, hw, hr => by
    rw [stepAtL] at hr
    split at hr
    · rename_i r1 h1
      cases hr
      have hk := hw k (by simp)
      have := stepAt_dps op hop tid k next _ hk.1 h1
      refine ⟨?_, by simp only [List.map_cons, key_of_hdr this.2.1], by simp⟩
      apply kd_cons _ _ (fun x hx => hw x (by simp [hx]))
      refine ⟨this.1, fun hL => ?_⟩
      have h2 := hk.2 hL
      exact ⟨by rw [this.2.2 h2.2]; exact h2.1, by rw [kind_of_hdr this.2.1]; exact h2.2⟩
    · split at hr
      · cases hr
      · rename_i ks2 r2 h2
        cases hr
        have := stepAtL_dps op hop tid ks L next _ _ (fun x hx => hw x (by simp [hx])) h2
        refine ⟨kd_cons _ (hw k (by simp)) this.1, by simp only [List.map_cons, this.2.1], by simp [this.2.2]⟩
end

/-- **one step of a history** keeps the whole tree deep positional -/
theorem hstep_dps (s : HState) (h : HOp) (hop : OpArgsDP h.op) (hd : dps s.root = true) :
    dps (hstep s h).root = true := by
  unfold hstep
  cases hs : stepAt s.root h.target h.op s.next with
  | none => exact hd
  | some r => exact (stepAt_dps h.op hop h.target s.root s.next r hd hs).1

theorem hrun_cons (s : HState) (h : HOp) (hs : List HOp) : hrun s (h :: hs) = hrun (hstep s h) hs := by
  simp [hrun]

/-- **histories.**  From a deep-positional tree, after any sequence of list-protocol and
    dict-protocol calls applied to any of its elements — with plain values or deep-positional Element
    arguments — the tree is deep positional. -/
theorem hrun_dps (hs : List HOp) : ∀ s : HState, (∀ h ∈ hs, OpArgsDP h.op) → dps s.root = true →
    dps (hrun s hs).root = true := by
  induction hs with
  | nil => intro s _ hd; exact hd
  | cons h hs ih =>
    intro s hg hd
    rw [hrun_cons]
    exact ih (hstep s h) (fun x hx => hg x (by simp [hx])) (hstep_dps s h (hg h (by simp)) hd)

/-- … and after every step (every prefix of the history) -/
theorem hrun_dps_prefix (hs : List HOp) (s : HState) (hops : ∀ h ∈ hs, OpArgsDP h.op) (hd : dps s.root = true)
    (k : Nat) : dps (hrun s (hs.take k)).root = true :=
  hrun_dps (hs.take k) s (fun h hh => hops h (List.mem_of_mem_take hh)) hd

/-! ### the `dp` corollaries (what `flattenTree_positional` asks for) -/

theorem blank_dp (s : Schema) (parent : Option Nat) (key : Str) (next : Nat) : dp (blank s parent key next).1 = true :=
  dp_of_dps _ (blank_dps s parent key next)

theorem construct_dp (s : Schema) (raw : Raw) (parent : Option Nat) (key : Str) (next : Nat) (e : Node) (n1 : Nat)
    (h : construct s raw parent key next = (.ok e, n1)) : dp e = true :=
  dp_of_dps _ (construct_dps s raw parent key next e n1 h)

theorem fromDefaults_dp (s : Schema) (parent : Option Nat) (key : Str) (next : Nat) :
    dp (fromDefaults s parent key next).node = true :=
  dp_of_dps _ (fromDefaults_dps s parent key next)

theorem seqStep_dp (n : Node) (h : dps n = true) (op : SeqOp) (hop : OpArgsDP (.seq op)) (next : Nat) :
    dp (seqStep n op next).node = true :=
  dp_of_dps _ (seqStep_dps n h op (by cases op <;> first | exact hop | trivial) next)

theorem mapStep_dp (n : Node) (h : dps n = true) (hnl : n.kind ≠ .list) (op : MapOp) (hop : OpArgsDP (.map op))
    (next : Nat) : dp (mapStep n op next).node = true :=
  dp_of_dps _ (mapStep_dps n h hnl op (by cases op <;> first | exact hop | trivial) next)

theorem nodeStep_dp (n : Node) (h : dps n = true) (op : Op) (hop : OpArgsDP op) (next : Nat) :
    dp (nodeStep n op next).node = true :=
  dp_of_dps _ (nodeStep_dps n h op hop next)

theorem stepAt_dp (op : Op) (hop : OpArgsDP op) (tid : Nat) (t : Node) (next : Nat) (r : StepR)
    (h : dps t = true) (hr : stepAt t tid op next = some r) : dp r.node = true :=
  dp_of_dps _ (stepAt_dps op hop tid t next r h hr).1

theorem hstep_dp (s : HState) (h : HOp) (hop : OpArgsDP h.op) (hd : dps s.root = true) :
    dp (hstep s h).root = true :=
  dp_of_dps _ (hstep_dps s h hop hd)

/-- **`dp` along histories**: the hypothesis of `flattenTree_positional` holds in the state reached
    by any history from a `dps` tree -/
theorem hrun_dp (hs : List HOp) (s : HState) (hops : ∀ h ∈ hs, OpArgsDP h.op) (hd : dps s.root = true) :
    dp (hrun s hs).root = true :=
  dp_of_dps _ (hrun_dps hs s hops hd)

/-- … and in every intermediate state -/
theorem hrun_dp_prefix (hs : List HOp) (s : HState) (hops : ∀ h ∈ hs, OpArgsDP h.op) (hd : dps s.root = true)
    (k : Nat) : dp (hrun s (hs.take k)).root = true :=
  dp_of_dps _ (hrun_dps_prefix hs s hops hd k)

/-! ### why not `dp` itself -/

namespace Cex
def sI : Schema := .mk { cid := 2, kind := .integer } .none []
def sD : Schema := .mk { cid := 3, kind := .dict } .none [sI]
def sL : Schema := .mk { cid := 1, kind := .list } .none [sI]
/-- a List whose one item is not a ListSlot but a List-kind node named "0" holding one child named "0" -/
def root : Node :=
  .mk { id := 1, parent := none } sL
    [.mk { id := 2, parent := none, key := ['0'] } sL
      [.mk { id := 3, parent := none, key := ['0'] } sD [.mk { id := 4, parent := none } sI []]]]
def e : Node := .mk { id := 40, parent := none, key := ['z'] } sI []
end Cex

/-- plain `dp` is not preserved by a call addressed to a (non-slot) item of a List: `clear()` on the
    item empties it, and the List above no longer has "one element per slot" -/
theorem dp_not_framed :
    dp Cex.root = true ∧ (stepAt Cex.root 2 (.seq .clear) 10).map (fun r => dp r.node) = some false := by
  decide

/-- plain `dp` is not preserved at node level either: `lst[0] = e` re-fills the (List-kind) item with
    an element stored under an arbitrary key -/
theorem dp_not_node_level :
    dp Cex.root = true ∧ dp Cex.e = true ∧ dp (seqStep Cex.root (.setitem 0 (.elem Cex.e)) 10).node = false := by
  decide

/-- … and `dps` excludes that tree -/
example : dps Cex.root = false := by decide

/-! ### non-vacuity -/

namespace Ex
def sI : Schema := .mk { cid := 2, kind := .integer } .none []
def sX : Schema := .mk { cid := 11, kind := .integer, name := some ['x'] } .none []
def sY : Schema := .mk { cid := 12, kind := .list, name := some ['y'] } .none [sI]
def sD : Schema := .mk { cid := 10, kind := .dict } .none [sX, sY]
/-- `List.of(Dict.of(Integer.named('x'), List.named('y').of(Integer)))` -/
def sLoD : Schema := .mk { cid := 13, kind := .list } .none [sD]

/-- `schema([{'x': 1, 'y': [3, 2]}, {'x': 4, 'y': [5]}])` -/
def built : Except Exc Node × Nat :=
  construct sLoD (.list [.dict [(['x'], .int 1), (['y'], .list [.int 3, .int 2])],
                         .dict [(['x'], .int 4), (['y'], .list [.int 5])]]) none [] 1

def tree : Node :=
  match built.1 with
  | .ok e => e
  | .error _ => (blank sLoD none [] 1).1

/-- a detached populated Dict element handed to a call -/
def arg : Node := .mk { id := 900, parent := some 77 } sD
  [.mk { id := 901, parent := some 900, key := ['x'] } sX [],
   .mk { id := 902, parent := some 900, key := ['y'] } sY
     [mkSlot 903 902 0 (.mk { id := 904, parent := none, val := .int 8, u := ['8'] } sI [])]]

/-- the nested List `y` of the first Dict -/
def yId : Nat := 6

/-- insert with a negative index (plain value, then an Element), sort of the nested List, deletion
    of a slice, an in-place `set` of a nested mapping -/
def hist : List HOp :=
  [⟨1, .seq (.insert (-1) (.plain (.dict [(['x'], .int 7), (['y'], .list [.int 9, .int 8])])))⟩,
   ⟨yId, .seq (.sort (some .u) false)⟩,
   ⟨1, .seq (.insert (-2) (.elem arg))⟩,
   ⟨1, .seq (.delslice ⟨some 1, some 3, none⟩)⟩,
   ⟨yId, .seq (.append (.plain (.int 6)))⟩]
end Ex

/-- the construction did not raise, and built two slots -/
example : (match Ex.built.1 with | .ok _ => true | .error _ => false) = true ∧ Ex.tree.kids.length = 2 := by decide

example : dps Ex.tree = true := by decide

theorem ex_hist_args : ∀ h ∈ Ex.hist, OpArgsDP h.op := by
  intro h hh
  simp only [Ex.hist, List.mem_cons, List.not_mem_nil, or_false] at hh
  rcases hh with rfl | rfl | rfl | rfl | rfl <;> first | trivial | (show dps _ = true; decide)

/-- the hypotheses of `hrun_dps` are satisfiable: the tree reached is deep positional … -/
example : dp (hrun ⟨Ex.tree, 100⟩ Ex.hist).root = true :=
  hrun_dp Ex.hist ⟨Ex.tree, 100⟩ ex_hist_args (by decide)

/-- … and the history really ran: the slot names after it, and the nested List, sorted -/
example : (hrun ⟨Ex.tree, 100⟩ Ex.hist).root.kids.map Node.key = [['0'], ['1']] := by decide

example : ((hrun ⟨Ex.tree, 100⟩ Ex.hist).root.kids.flatMap Node.kids).map
      (fun d => d.kids.flatMap (fun f => f.kids.map (fun sl => (sl.key, sl.kids.map (·.ni.u))))) =
    [[(['0'], [['2']]), (['1'], [['3']]), (['2'], [['6']])], [(['0'], [['5']])]] := by decide

end Flatland.C07Tree.Proofs.Inv
