import Flatland.C11
namespace Flatland.C11.Proofs
end Flatland.C11.Proofs
