/-
C11 — generated markup cannot be broken out of by data.

Generic theorems (any `.replace` chain satisfying decidable side conditions) and their
instantiation on the chains re-extracted from the current source (`Generated/C11Tables.lean`)
by `decide`.  Dropping `.replace('"', '&quot;')` from `_attribute_escape`, moving `&` later in
a chain, or emitting a reference the decoder does not know breaks one of the `*_ok` theorems.
-/
import Flatland.C11
import Flatland.Spec.C11
import Proofs.Lemmas.C11Chain
import Proofs.Lemmas.C11Decode
import Proofs.Lemmas.C11Parse
namespace Flatland.C11.Proofs
open Flatland.C11 Flatland.Markup Flatland.Generated.C11

/-! ### side conditions of the generic theorems, checked on the generated tables -/

/-- a chain is safe inside a double-quoted attribute value and decodable -/
def AttrChainOK (ch : Chain) : Bool :=
  Good ch && Forbidden ch '"' && Forbidden ch '<' && Forbidden ch '>' &&
  ch.all entOK && (keys ch).contains '&'

/-- a chain is safe as element text and decodable -/
def TextChainOK (ch : Chain) : Bool :=
  Good ch && Forbidden ch '<' && ch.all entOK && (keys ch).contains '&'

theorem attrChain_ok : AttrChainOK attrChain = true := by decide
theorem textChain_ok : TextChainOK textChain = true := by decide
theorem xChain_ok : TextChainOK xChain = true := by decide
theorem xaChain_ok : AttrChainOK xaChain = true := by decide

theorem attrOK_text {ch : Chain} (h : AttrChainOK ch = true) : TextChainOK ch = true := by
  simp only [AttrChainOK, TextChainOK, Bool.and_eq_true] at *
  obtain ⟨⟨⟨⟨⟨h1, _⟩, h3⟩, _⟩, h5⟩, h6⟩ := h
  exact ⟨⟨⟨h1, h3⟩, h5⟩, h6⟩

/-! ### no break-out -/

/-- an attribute-safe chain never outputs `"`, `<` or `>` -/
theorem no_breakout_attr (ch : Chain) (h : AttrChainOK ch = true) (s : Str) :
    '"' ∉ escapeChain ch s ∧ '<' ∉ escapeChain ch s ∧ '>' ∉ escapeChain ch s := by
  simp only [AttrChainOK, Bool.and_eq_true] at h
  obtain ⟨⟨⟨⟨⟨hg, hq⟩, hl⟩, hr⟩, _⟩, _⟩ := h
  exact ⟨forbidden_not_in_escape ch _ hg hq s, forbidden_not_in_escape ch _ hg hl s,
         forbidden_not_in_escape ch _ hg hr s⟩

/-- a text-safe chain never outputs `<` -/
theorem no_breakout_text (ch : Chain) (h : TextChainOK ch = true) (s : Str) :
    '<' ∉ escapeChain ch s := by
  simp only [TextChainOK, Bool.and_eq_true] at h
  exact forbidden_not_in_escape ch _ h.1.1.1 h.1.1.2 s

/-- sequential `.replace` = simultaneous substitution (restated under the table condition) -/
theorem chain_is_simultaneous (ch : Chain) (h : TextChainOK ch = true) (s : Str) :
    escapeChain ch s = s.flatMap (substOf ch) := by
  simp only [TextChainOK, Bool.and_eq_true] at h
  exact chain_simultaneous ch h.1.1.1 s

/-- decoding character references inverts the chain — for EVERY decoder that agrees with HTML
    on the references the chain emits -/
theorem decode_escape_any (ch : Chain) (dec : Str → Str) (h : TextChainOK ch = true)
    (ok : DecoderOK ch dec) (s : Str) : dec (escapeChain ch s) = s := by
  simp only [TextChainOK, Bool.and_eq_true] at h
  exact decode_escape ch dec h.1.1.1 ok s

/-- … in particular for the model's decoder -/
theorem decodeRefs_escape (ch : Chain) (h : TextChainOK ch = true) (s : Str) :
    decodeRefs (escapeChain ch s) = s := by
  have h' := h
  simp only [TextChainOK, Bool.and_eq_true] at h'
  exact decode_escape_any ch decodeRefs h (decoderOK_of ch h'.1.2 h'.2) s

/-! ### `.x` and `.xa` unescape to `.u` (Spec.SugarUnescapes) -/

theorem x_unescapes (u : Str) : decodeRefs (sugar xChain u) = u :=
  decodeRefs_escape xChain xChain_ok u

theorem xa_unescapes (u : Str) : decodeRefs (sugar xaChain u) = u :=
  decodeRefs_escape xaChain (attrOK_text xaChain_ok) u

theorem xa_attribute_safe (u : Str) :
    '"' ∉ sugar xaChain u ∧ '<' ∉ sugar xaChain u ∧ '>' ∉ sugar xaChain u :=
  no_breakout_attr xaChain xaChain_ok u

theorem x_text_safe (u : Str) : '<' ∉ sugar xChain u := no_breakout_text xChain xChain_ok u

/-! ### parse ∘ render = id -/

/-- the serialiser's output for data (plain-text attribute values, escaped text) -/
def renderData (ch tch : Chain) (voids : List Str) (xml : Bool) (tag : Str)
    (attrs : List (Str × Str)) (text : Str) : Except PyErr Str :=
  renderTag ch voids xml tag (attrs.map (fun kv => (kv.1, Val.text kv.2))) (markupEscape tch text)

/-- Generic: for an attribute-safe chain `ch`, a text-safe chain `tch`, a valid tag name, valid
    attribute names and ARBITRARY attribute values and text, the serialiser succeeds and the parser
    reads back exactly that tag, exactly those attributes with exactly those values (no extras),
    and exactly that text (void elements: no text, by construction of `Tag.__call__`). -/
theorem parse_render_generic (ch tch : Chain) (hch : AttrChainOK ch = true) (htch : TextChainOK tch = true)
    (voids : List Str) (xml : Bool) (tag : Str) (attrs : List (Str × Str)) (text : Str)
    (htag : validName tag = true) (hv : ∀ kv ∈ attrs, validName kv.1 = true) :
    ∃ s, renderData ch tch voids xml tag attrs text = .ok s ∧
      parseTag decodeRefs voids s =
        some ⟨tag, attrs, if voids.contains tag then [] else text⟩ := by
  have hq := (no_breakout_attr ch hch · |>.1)
  have hdec := decodeRefs_escape ch (attrOK_text hch)
  have hlt := no_breakout_text tch htch
  have hdect := decodeRefs_escape tch htch
  have htag' := htag
  simp only [validName, Bool.and_eq_true, Bool.not_eq_true', List.isEmpty_eq_false_iff] at htag'
  obtain ⟨htne, htall⟩ := htag'
  have hname_ne : tag.isEmpty = false := by simpa using htne
  -- generic reading of the start tag
  have start : ∀ (closer : Str) (cl : Closer) (tail : Str),
      (closer = ['>'] ∨ closer = [' ', '/', '>']) →
      parseAttrs decodeRefs (closer ++ tail) = some ([], cl, tail) →
      parseTag decodeRefs voids
        ('<' :: tag ++ attrs.flatMap (attrText (escapeChain ch)) ++ closer ++ tail) =
      (if cl = .selfClosed || voids.contains tag then
        if tail.isEmpty then some ⟨tag, attrs, []⟩ else none
      else
        match splitAtChar '<' tail with
        | some (text, tl) => if tl = '/' :: tag ++ ['>'] then some ⟨tag, attrs, decodeRefs text⟩ else none
        | none => none) := by
    intro closer cl tail hc hcl
    obtain ⟨c, rest, hcr, hstop⟩ := after_name_stop (escapeChain ch) attrs closer tail hc
    have hstr : '<' :: tag ++ attrs.flatMap (attrText (escapeChain ch)) ++ closer ++ tail =
        '<' :: (tag ++ c :: rest) := by
      simp only [List.cons_append, List.append_assoc, List.cons.injEq, true_and]
      rw [← hcr]; simp
    obtain ⟨h1, h2⟩ := takeWhile_name tag rest c htall hstop
    rw [hstr]
    simp only [parseTag, h1, h2, hname_ne, Bool.false_eq_true, ↓reduceIte]
    rw [← hcr, parseAttrs_render decodeRefs (escapeChain ch) hq hdec attrs hv closer cl tail hcl]
    rfl
  unfold renderData renderTag
  rw [renderOpen_text]
  by_cases hvoid : voids.contains tag = true
  · simp only [hvoid, ↓reduceIte]
    cases xml with
    | true =>
      refine ⟨_, rfl, ?_⟩
      have := start [' ', '/', '>'] .selfClosed [] (Or.inr rfl) (parseAttrs_selfclose _ _)
      simp only [List.append_nil] at this
      simp only [↓reduceIte]
      rw [this]; simp
    | false =>
      refine ⟨_, rfl, ?_⟩
      have := start ['>'] .opened [] (Or.inl rfl) (parseAttrs_close _ _)
      simp only [List.append_nil] at this
      simp only [Bool.false_eq_true, ↓reduceIte]
      have hmem : tag ∈ voids := by simpa using hvoid
      rw [this]; simp [hmem]
  · simp only [hvoid, Bool.false_eq_true, ↓reduceIte]
    refine ⟨_, rfl, ?_⟩
    have := start ['>'] .opened (markupEscape tch text ++ '<' :: '/' :: tag ++ ['>']) (Or.inl rfl)
      (parseAttrs_close _ _)
    have e : '<' :: tag ++ attrs.flatMap (attrText (escapeChain ch)) ++
        '>' :: markupEscape tch text ++ '<' :: '/' :: tag ++ ['>'] =
        '<' :: tag ++ attrs.flatMap (attrText (escapeChain ch)) ++ ['>'] ++
          (markupEscape tch text ++ '<' :: '/' :: tag ++ ['>']) := by simp
    rw [e, this]
    simp only [hvoid, Bool.or_false]
    rw [markupEscape_eq]
    have hs := splitAtChar_append (escapeChain tch text) ('/' :: tag ++ ['>']) (hlt text)
    simp only [List.append_assoc, List.cons_append] at hs ⊢
    simp [hs, hdect]

/-- C11, markup part, on the tables of the current source: `Tag.__call__`'s serialisation of any
    tag name / attribute names (identifiers) with ANY attribute values and ANY text parses back
    to exactly one element with exactly those attributes and that text. -/
theorem parse_render (xml : Bool) (tag : Str) (attrs : List (Str × Str)) (text : Str)
    (htag : validName tag = true) (hv : ∀ kv ∈ attrs, validName kv.1 = true) :
    ∃ s, renderData attrChain textChain voidElements xml tag attrs text = .ok s ∧
      Spec.ParsesTo decodeRefs voidElements s tag attrs (if voidElements.contains tag then [] else text) :=
  parse_render_generic attrChain textChain attrChain_ok textChain_ok voidElements xml tag attrs text htag hv

/-! ### non-vacuity -/

example : validName "input".toList = true := by decide
example : validName "data-x".toList = true := by decide
example : escapeChain attrChain "a\"<b>&".toList = "a&quot;&lt;b&gt;&amp;".toList := by decide
example : substOf attrChain '"' = "&quot;".toList := by decide
/-- a chain with `&` replaced last is rejected by the side condition … -/
example : Good [('<', "&lt;".toList), ('&', "&amp;".toList)] = false := by decide
/-- … and really is wrong -/
example : escapeChain [('<', "&lt;".toList), ('&', "&amp;".toList)] ['<'] = "&amp;lt;".toList := by decide
/-- a chain without the `"` entry is rejected -/
example : AttrChainOK textChain = false := by decide

end Flatland.C11.Proofs
