/-
C11 — generated markup cannot be broken out of by data.

Generic theorems (any `.replace` chain satisfying decidable side conditions) and their
instantiation on the chains re-extracted from the current source (`Generated/C11Tables.lean`)
by `decide`.  Dropping `.replace('"', '&quot;')` from `_attribute_escape`, moving `&` later in
a chain, or emitting a reference the decoder does not know breaks one of the `*_ok` theorems.
-/
import Flatland.C11
import Flatland.Spec.C11
import Proofs.Lemmas.C11Chain
import Proofs.Lemmas.C11Decode
import Proofs.Lemmas.C11Parse
import Proofs.Lemmas.C11EndToEnd
import Proofs.Lemmas.C12Transforms
import Proofs.Lemmas.C19Scope
namespace Flatland.C11.Proofs
open Flatland.C11 Flatland.Markup Flatland.Generated.C11

/-! ### side conditions of the generic theorems, checked on the generated tables -/

/-- a chain is safe inside a double-quoted attribute value and decodable -/
def AttrChainOK (ch : Chain) : Bool :=
  Good ch && Forbidden ch '"' && Forbidden ch '<' && Forbidden ch '>' &&
  ch.all entOK && (keys ch).contains '&'

/-- a chain is safe as element text and decodable -/
def TextChainOK (ch : Chain) : Bool :=
  Good ch && Forbidden ch '<' && ch.all entOK && (keys ch).contains '&'

theorem attrChain_ok : AttrChainOK attrChain = true := by decide
theorem textChain_ok : TextChainOK textChain = true := by decide
theorem xChain_ok : TextChainOK xChain = true := by decide
theorem xaChain_ok : AttrChainOK xaChain = true := by decide

theorem attrOK_text {ch : Chain} (h : AttrChainOK ch = true) : TextChainOK ch = true := by
  simp only [AttrChainOK, TextChainOK, Bool.and_eq_true] at *
  obtain ⟨⟨⟨⟨⟨h1, _⟩, h3⟩, _⟩, h5⟩, h6⟩ := h
  exact ⟨⟨⟨h1, h3⟩, h5⟩, h6⟩

/-! ### no break-out -/

/-- an attribute-safe chain never outputs `"`, `<` or `>` -/
theorem no_breakout_attr (ch : Chain) (h : AttrChainOK ch = true) (s : Str) :
    '"' ∉ escapeChain ch s ∧ '<' ∉ escapeChain ch s ∧ '>' ∉ escapeChain ch s := by
  simp only [AttrChainOK, Bool.and_eq_true] at h
  obtain ⟨⟨⟨⟨⟨hg, hq⟩, hl⟩, hr⟩, _⟩, _⟩ := h
  exact ⟨forbidden_not_in_escape ch _ hg hq s, forbidden_not_in_escape ch _ hg hl s,
         forbidden_not_in_escape ch _ hg hr s⟩

/-- a text-safe chain never outputs `<` -/
theorem no_breakout_text (ch : Chain) (h : TextChainOK ch = true) (s : Str) :
    '<' ∉ escapeChain ch s := by
  simp only [TextChainOK, Bool.and_eq_true] at h
  exact forbidden_not_in_escape ch _ h.1.1.1 h.1.1.2 s

/-- sequential `.replace` = simultaneous substitution (restated under the table condition) -/
theorem chain_is_simultaneous (ch : Chain) (h : TextChainOK ch = true) (s : Str) :
    escapeChain ch s = s.flatMap (substOf ch) := by
  simp only [TextChainOK, Bool.and_eq_true] at h
  exact chain_simultaneous ch h.1.1.1 s

/-- decoding character references inverts the chain — for EVERY decoder that agrees with HTML
    on the references the chain emits -/
theorem decode_escape_any (ch : Chain) (dec : Str → Str) (h : TextChainOK ch = true)
    (ok : DecoderOK ch dec) (s : Str) : dec (escapeChain ch s) = s := by
  simp only [TextChainOK, Bool.and_eq_true] at h
  exact decode_escape ch dec h.1.1.1 ok s

/-- … in particular for the model's decoder -/
theorem decodeRefs_escape (ch : Chain) (h : TextChainOK ch = true) (s : Str) :
    decodeRefs (escapeChain ch s) = s := by
  have h' := h
  simp only [TextChainOK, Bool.and_eq_true] at h'
  exact decode_escape_any ch decodeRefs h (decoderOK_of ch h'.1.2 h'.2) s

/-! ### `.x` and `.xa` unescape to `.u` (Spec.SugarUnescapes) -/

theorem x_unescapes (u : Str) : decodeRefs (sugar xChain u) = u :=
  decodeRefs_escape xChain xChain_ok u

theorem xa_unescapes (u : Str) : decodeRefs (sugar xaChain u) = u :=
  decodeRefs_escape xaChain (attrOK_text xaChain_ok) u

theorem xa_attribute_safe (u : Str) :
    '"' ∉ sugar xaChain u ∧ '<' ∉ sugar xaChain u ∧ '>' ∉ sugar xaChain u :=
  no_breakout_attr xaChain xaChain_ok u

theorem x_text_safe (u : Str) : '<' ∉ sugar xChain u := no_breakout_text xChain xChain_ok u

/-! ### parse ∘ render = id -/

/-- the serialiser's output for data (plain-text attribute values, escaped text) -/
def renderData (ch tch : Chain) (voids : List Str) (xml : Bool) (tag : Str)
    (attrs : List (Str × Str)) (text : Str) : Except PyErr Str :=
  renderTag ch voids xml tag (attrs.map (fun kv => (kv.1, Val.text kv.2))) (markupEscape tch text)

/-- Generic: for an attribute-safe chain `ch`, a text-safe chain `tch`, a valid tag name, valid
    attribute names and ARBITRARY attribute values and text, the serialiser succeeds and the parser
    reads back exactly that tag, exactly those attributes with exactly those values (no extras),
    and exactly that text (void elements: no text, by construction of `Tag.__call__`).
    The serialiser's void table `voids` (the generator's `VOID_ELEMENTS`) and the parser's
    `pvoids` are separate; they must agree on the tag (`voids_agree` on the generated table), so a
    wrong `VOID_ELEMENTS` — one that would silently drop a textarea's text — breaks the build. -/
theorem parse_render_generic (ch tch : Chain) (hch : AttrChainOK ch = true) (htch : TextChainOK tch = true)
    (voids pvoids : List Str) (xml : Bool) (tag : Str) (attrs : List (Str × Str)) (text : Str)
    (htag : validName tag = true) (hv : ∀ kv ∈ attrs, validName kv.1 = true)
    (hv2 : pvoids.contains tag = voids.contains tag) :
    ∃ s, renderData ch tch voids xml tag attrs text = .ok s ∧
      parseTag decodeRefs pvoids s =
        some ⟨tag, attrs, if voids.contains tag then [] else text⟩ := by
  have hq := (no_breakout_attr ch hch · |>.1)
  have hdec := decodeRefs_escape ch (attrOK_text hch)
  have hlt := no_breakout_text tch htch
  have hdect := decodeRefs_escape tch htch
  have htag' := htag
  simp only [validName, Bool.and_eq_true, Bool.not_eq_true', List.isEmpty_eq_false_iff] at htag'
  obtain ⟨htne, htall⟩ := htag'
  have hname_ne : tag.isEmpty = false := by simpa using htne
  -- generic reading of the start tag
  have start : ∀ (closer : Str) (cl : Closer) (tail : Str),
      (closer = ['>'] ∨ closer = [' ', '/', '>']) →
      parseAttrs decodeRefs (closer ++ tail) = some ([], cl, tail) →
      parseTag decodeRefs pvoids
        ('<' :: tag ++ attrs.flatMap (attrText (escapeChain ch)) ++ closer ++ tail) =
      (if cl = .selfClosed || voids.contains tag then
        if tail.isEmpty then some ⟨tag, attrs, []⟩ else none
      else
        match splitAtChar '<' tail with
        | some (text, tl) => if tl = '/' :: tag ++ ['>'] then some ⟨tag, attrs, decodeRefs text⟩ else none
        | none => none) := by
    intro closer cl tail hc hcl
    obtain ⟨c, rest, hcr, hstop⟩ := after_name_stop (escapeChain ch) attrs closer tail hc
    have hstr : '<' :: tag ++ attrs.flatMap (attrText (escapeChain ch)) ++ closer ++ tail =
        '<' :: (tag ++ c :: rest) := by
      simp only [List.cons_append, List.append_assoc, List.cons.injEq, true_and]
      rw [← hcr]; simp
    obtain ⟨h1, h2⟩ := takeWhile_name tag rest c htall hstop
    rw [hstr]
    simp only [parseTag, h1, h2, hname_ne, Bool.false_eq_true, ↓reduceIte, hv2]
    rw [← hcr, parseAttrs_render decodeRefs (escapeChain ch) hq hdec attrs hv closer cl tail hcl]
    rfl
  unfold renderData renderTag
  rw [renderOpen_text]
  by_cases hvoid : voids.contains tag = true
  · simp only [hvoid, ↓reduceIte]
    cases xml with
    | true =>
      refine ⟨_, rfl, ?_⟩
      have := start [' ', '/', '>'] .selfClosed [] (Or.inr rfl) (parseAttrs_selfclose _ _)
      simp only [List.append_nil] at this
      simp only [↓reduceIte]
      rw [this]; simp
    | false =>
      refine ⟨_, rfl, ?_⟩
      have := start ['>'] .opened [] (Or.inl rfl) (parseAttrs_close _ _)
      simp only [List.append_nil] at this
      simp only [Bool.false_eq_true, ↓reduceIte]
      have hmem : tag ∈ voids := by simpa using hvoid
      rw [this]; simp [hmem]
  · simp only [hvoid, Bool.false_eq_true, ↓reduceIte]
    refine ⟨_, rfl, ?_⟩
    have := start ['>'] .opened (markupEscape tch text ++ '<' :: '/' :: tag ++ ['>']) (Or.inl rfl)
      (parseAttrs_close _ _)
    have e : '<' :: tag ++ attrs.flatMap (attrText (escapeChain ch)) ++
        '>' :: markupEscape tch text ++ '<' :: '/' :: tag ++ ['>'] =
        '<' :: tag ++ attrs.flatMap (attrText (escapeChain ch)) ++ ['>'] ++
          (markupEscape tch text ++ '<' :: '/' :: tag ++ ['>']) := by simp
    rw [e, this]
    simp only [hvoid, Bool.or_false]
    rw [markupEscape_eq]
    have hs := splitAtChar_append (escapeChain tch text) ('/' :: tag ++ ['>']) (hlt text)
    simp only [List.append_assoc, List.cons_append] at hs ⊢
    simp [hs, hdect]

/-- the generator's `VOID_ELEMENTS` is the HTML parser's void table (regenerated; `decide`) -/
theorem voids_agree : (voidElements.all htmlVoidElements.contains && htmlVoidElements.all voidElements.contains) = true := by
  decide

theorem voids_contains (tag : Str) : htmlVoidElements.contains tag = voidElements.contains tag := by
  have h := voids_agree
  simp only [Bool.and_eq_true, List.all_eq_true] at h
  by_cases h1 : voidElements.contains tag = true
  · rw [h1]; exact h.1 tag (by simpa using h1)
  · simp only [Bool.not_eq_true] at h1
    rw [h1, Bool.eq_false_iff]
    intro h2
    have := h.2 tag (by simpa using h2)
    rw [this] at h1; simp at h1

/-- C11, markup part, on the tables of the current source: `Tag.__call__`'s serialisation of any
    tag name / attribute names from the declared grammar (`[A-Za-z][A-Za-z0-9_:.-]*`, lower case —
    names are chosen by the template author; html.parser lower-cases them) with ANY attribute values
    and ANY text parses back to exactly one element with exactly those attributes and that text. -/
theorem parse_render (xml : Bool) (tag : Str) (attrs : List (Str × Str)) (text : Str)
    (htag : lowerName tag = true) (hv : ∀ kv ∈ attrs, lowerName kv.1 = true) :
    ∃ s, renderData attrChain textChain voidElements xml tag attrs text = .ok s ∧
      Spec.ParsesTo decodeRefs htmlVoidElements s tag attrs (if voidElements.contains tag then [] else text) :=
  parse_render_generic attrChain textChain attrChain_ok textChain_ok voidElements htmlVoidElements xml tag attrs text
    (lowerName_valid htag) (fun kv h => lowerName_valid (hv kv h)) (voids_contains tag)

/-! ### non-vacuity -/

example : lowerName "input".toList = true := by decide
example : lowerName "data-x".toList = true := by decide
/-- names outside the declared grammar are outside the theorem (author-controlled, not data) -/
example : lowerName "a\nonclick".toList = false ∧ lowerName "CLASS".toList = false ∧ lowerName "a\tb".toList = false := by
  decide
example : escapeChain attrChain "a\"<b>&".toList = "a&quot;&lt;b&gt;&amp;".toList := by decide
example : substOf attrChain '"' = "&quot;".toList := by decide
/-- a chain with `&` replaced last is rejected by the side condition … -/
example : Good [('<', "&lt;".toList), ('&', "&amp;".toList)] = false := by decide
/-- … and really is wrong -/
example : escapeChain [('<', "&lt;".toList), ('&', "&amp;".toList)] ['<'] = "&amp;lt;".toList := by decide
/-- a chain without the `"` entry is rejected -/
example : AttrChainOK textChain = false := by decide

end Flatland.C11.Proofs

namespace Flatland.C11.Proofs
open Flatland.C11 Flatland.Markup Flatland.Generated.C11 Flatland.C19.Proofs

/-! ### end to end: `str(generator.<tag>(bind, **kwargs))` parses back -/

/-- C11 THROUGH THE WHOLE GENERATOR.  For the tables of the current source, ANY generator state,
    a tag name of the declared grammar, ANY bound element (its flattened name and text are arbitrary
    strings — the hostile data), and keyword arguments of the declared domain (`GoodKwargs`: options
    with any value, plain strings under names of the declared grammar; no explicit `contents=`):
    if the call returns markup `s`, then

    * `s` parses as exactly one element of the requested tag, whose attributes `attrs` are EXACTLY
      what the transforms computed (`r.pairs`, all plain strings) and whose text is the text whose
      escaped form the transforms left as contents (`r`: the model's `prepareTag` result — what
      those strings are for each control kind is the subject of the C12 theorems);
    * none of the attributes is an `auto_*` option;
    * every author attribute outside the generated names (name, value, id, for, tabindex, checked,
      selected) is among them with exactly the author's string;
    * the text is empty or exactly the bound element's text. -/
theorem callTag_parses (g g' : Gen) (tag : Str) (bnd : Option Bind) (kwargs : List (Str × Val)) (s : Str)
    (htag : lowerName tag = true) (hkw : GoodKwargs kwargs)
    (hnc : Dict.get? kwargs "contents".toList = none)
    (h : g.callTag Tables.current attrChain voidElements staticAttributeOrder tag bnd kwargs = .ok (s, g')) :
    ∃ r attrs text,
      prepareTag Tables.current staticAttributeOrder g tag bnd kwargs = .ok r ∧
      r.pairs = attrs.map (fun kv => (kv.1, Val.text kv.2)) ∧
      r.contents = markupEscape textChain text ∧
      Spec.ParsesTo decodeRefs htmlVoidElements s tag attrs (if voidElements.contains tag then [] else text) ∧
      (∀ kv ∈ attrs, kv.1 ∉ optionKeys) ∧
      (∀ k v, k ∉ Flatland.C12.Proofs.touchKeys → Dict.get? (transformKeys kwargs) k = some (.text v) → (k, v) ∈ attrs) ∧
      (text = [] ∨ ∃ b, bnd = some b ∧ text = b.u) := by
  unfold Gen.callTag at h
  simp only [bind, Except.bind] at h
  cases hp : prepareTag Tables.current staticAttributeOrder g tag bnd kwargs with
  | error e => rw [hp] at h; simp at h
  | ok r =>
    rw [hp] at h; simp only at h
    cases hr : renderTag attrChain voidElements g.xml tag r.pairs r.contents with
    | error e => rw [hr] at h; simp at h
    | ok s' =>
      rw [hr] at h
      simp only [pure, Except.pure, Except.ok.injEq, Prod.mk.injEq] at h
      obtain ⟨rfl, _⟩ := h
      have hno := options_never_rendered hp
      obtain ⟨st6, o, ht, hpairs, hcont⟩ := prepareTag_full hp
      have hk0 := erase_absent' kwargs "contents".toList hnc
      rw [hk0, hnc] at ht
      obtain ⟨hgood, hcok⟩ := transform_good (transformKeys_nodup kwargs) (transformKeys_good kwargs hkw) ht
      have hgp := goodAttrs_orderPairs staticAttributeOrder o st6.attrs hgood
      rw [← hpairs] at hgp
      obtain ⟨attrs, hattrs, hvalid⟩ := goodAttrs_as_text r.pairs hgp
      -- the contents are the escaped form of a text that is empty or the bind's
      have hc : ∃ t, r.contents = markupEscape textChain t ∧ (t = [] ∨ ∃ b, bnd = some b ∧ t = b.u) := by
        simp only at hcok
        rcases hcok with hc0 | ⟨b, hb, hc1⟩
        · rw [hc0] at hcont; exact ⟨[], by rw [hcont]; rfl, Or.inl rfl⟩
        · rw [hc1] at hcont; exact ⟨b.u, by rw [hcont]; rfl, Or.inr ⟨b, hb, rfl⟩⟩
      obtain ⟨t, hct, htt⟩ := hc
      obtain ⟨s2, hs2, hparse⟩ := parse_render_generic attrChain textChain attrChain_ok textChain_ok voidElements
        htmlVoidElements g.xml tag attrs t (lowerName_valid htag) hvalid (voids_contains tag)
      unfold renderData at hs2
      rw [← hattrs, ← hct, hr] at hs2
      simp only [Except.ok.injEq] at hs2
      subst hs2
      refine ⟨r, attrs, t, rfl, hattrs, hct, hparse, ?_, ?_, htt⟩
      · intro kv hm hopt
        apply hno kv.1 hopt (.text kv.2)
        rw [hattrs]
        exact List.mem_map.mpr ⟨kv, hm, rfl⟩
      · intro k v hk hget
        have h6 : Dict.get? st6.attrs k = some (.text v) := by
          rw [Flatland.C12.Proofs.transform_frame k hk ht]; exact hget
        have hm6 : (k, Val.text v) ∈ st6.attrs := mem_of_get? _ _ _ h6
        have hmr : (k, Val.text v) ∈ r.pairs := by
          rw [hpairs]
          unfold orderPairs
          split
          · exact (mem_sortBy _ _ _).mpr hm6
          · exact hm6
        rw [hattrs] at hmr
        obtain ⟨kv, hkv, he⟩ := List.mem_map.mp hmr
        simp only [Prod.mk.injEq, Val.text.injEq] at he
        obtain ⟨rfl, rfl⟩ := he
        exact hkv

end Flatland.C11.Proofs

namespace Flatland.C11.Proofs
open Flatland.C11 Flatland.Markup Flatland.Generated.C11 Flatland.C19.Proofs

/-! non-vacuity of `callTag_parses`: hostile bind, hostile attribute value, valid names -/

def nvKwargs : List (Str × Val) :=
  [("class_".toList, .text "x\" onclick=\"y".toList), ("type".toList, .text "text".toList),
   ("auto_domid".toList, .bool true)]
def nvBind : Bind := ⟨"a\"b".toList, "\"><script>&amp;".toList, .scalar⟩
def nvGen : Gen :=
  match Gen.init Tables.current "xhtml".toList [("auto_domid".toList, .bool true)] with
  | .ok g => g
  | .error _ => ⟨false, ⟨[], []⟩⟩

example : GoodKwargs nvKwargs := by
  intro kv hm
  simp only [nvKwargs, List.mem_cons, List.not_mem_nil, or_false] at hm
  rcases hm with rfl | rfl | rfl
  · exact Or.inr ⟨⟨_, rfl⟩, by decide⟩
  · exact Or.inr ⟨⟨_, rfl⟩, by decide⟩
  · exact Or.inl (by decide)
example : Dict.get? nvKwargs "contents".toList = none := by decide
-- the call succeeds (so the theorem's hypothesis is met), with this output
set_option maxRecDepth 10000 in
example : (match nvGen.callTag Tables.current attrChain voidElements staticAttributeOrder "input".toList (some nvBind) nvKwargs with
    | .ok (s, _) => some s
    | .error _ => none) =
    some ("<input type=\"text\" name=\"a&quot;b\" value=\"&quot;&gt;&lt;script&gt;&amp;amp;\" " ++
          "class=\"x&quot; onclick=&quot;y\" id=\"f_a&quot;b\" />").toList := by decide

end Flatland.C11.Proofs
