/-
C14: "`[a:b:c]` selects the same children as the Python slice a:b:c" as a theorem relative to the
DOCUMENTED definition of slicing (`slice.indices` = PySlice_AdjustIndices, written out in
`Flatland.PyList.adjust`; `list[slice]` = `PyList.getSlice`), not relative to the model's own
`pySlice`.  The arithmetic is `Proofs/Lemmas/C14SliceSpec.lean` (`pySlice_spec`); here it is stated
for the evaluator's SLICE operation (`runCtx`) and for spec B's slice step (`stepDen`).
-/
import Flatland.Path
import Flatland.PyList
import Flatland.Spec.C14
import Proofs.Lemmas.C14SliceSpec
namespace Flatland.C14.Proofs
open Flatland.Path Flatland.PyList Flatland.C14.Spec

theorem get?_snoc : ∀ (el : Pos) (root n : Node) (i : Nat), root.get? el = some n →
    root.get? (el ++ [i]) = (n.kids)[i]?
  | [], root, n, i, h => by
    simp only [Node.get?, Option.some.injEq] at h
    subst h
    cases root with | mk k ky nm kids =>
    simp only [List.nil_append, Node.get?, Node.kids]
    cases kids[i]? <;> simp [Node.get?]
  | j :: el, .mk k ky nm kids, n, i, h => by
    simp only [List.cons_append, Node.get?] at h ⊢
    cases hk : kids[j]? with
    | none => rw [hk] at h; simp at h
    | some c =>
      rw [hk] at h
      simp only at h ⊢
      exact get?_snoc el c n i h

/-- the elements at the child positions `el ++ [i]` are the children `kids[i]` -/
theorem filterMap_get?_kids (root : Node) (el : Pos) (n : Node) (h : root.get? el = some n) :
    ∀ is : List Nat, (is.map (fun i => el ++ [i])).filterMap root.get? = is.filterMap (fun i => n.kids[i]?)
  | [] => rfl
  | i :: r => by
    simp only [List.map_cons, List.filterMap_cons, get?_snoc el root n i h, filterMap_get?_kids root el n h r]

theorem pySlice_zero_len (a b c : Option Int) : pySlice 0 a b c = [] := by
  have := pySlice_length_le 0 a b c
  exact List.eq_nil_of_length_eq_zero (by omega)

/-- the children the positions `pySlice` selects below `el` stand for: Python's `children[a:b:c]` -/
theorem slice_children_python (root : Node) (el : Pos) (a b c : Option Int) (hc : c ≠ some 0) :
    getSlice (kidsAt root el) ⟨a, b, c⟩ =
      .ok (((pySlice (kidsAt root el).length a b c).map (fun i => el ++ [i])).filterMap root.get?) := by
  rw [getSlice_eq_pySlice, if_neg hc]
  unfold kidsAt
  cases h : root.get? el with
  | none => simp [pySlice_zero_len]
  | some n => simp only; rw [filterMap_get?_kids root el n h]

/-- **the evaluator's SLICE operation is Python's slice of the children**: a step written as 0 is
    the `ValueError` of `children[a:b:0]`; otherwise the contexts spawned are the positions
    `el ++ [start + k*step]`, `k < count`, of `slice(a, b, c).indices(len(children))`, and the elements
    at these positions are `children[a:b:c]`, one position per element. -/
theorem C14_slice_is_python_slice (root : Node) (strict : Bool) (a b c : Option Int) (r : List Op)
    (el : Pos) :
    (c = some 0 ∧ getSlice (kidsAt root el) ⟨a, b, c⟩ = .error .valueError
        ∧ runCtx root strict (.slice a b c :: r) el = .error .value) ∨
    (c ≠ some 0 ∧ ∃ ps : List Pos,
        ps = (indices (sliceIx (kidsAt root el).length a b c)).map (fun i => el ++ [i])
        ∧ runCtx root strict (.slice a b c :: r) el = .ok (.spawn r ps)
        ∧ getSlice (kidsAt root el) ⟨a, b, c⟩ = .ok (ps.filterMap root.get?)
        ∧ (ps.filterMap root.get?).length = ps.length) := by
  by_cases hc : c = some 0
  · left
    subst hc
    exact ⟨rfl, by simp [getSlice, adjust_zero], by simp [runCtx]⟩
  · right
    refine ⟨hc, _, rfl, ?_, ?_, ?_⟩
    · have : (c == some 0) = false := by simpa using hc
      simp only [runCtx, this]
      rw [pySlice_spec _ _ _ _ hc]; rfl
    · rw [← pySlice_spec _ _ _ _ hc]; exact slice_children_python root el a b c hc
    · rw [← pySlice_spec _ _ _ _ hc]
      have h1 := slice_children_python root el a b c hc
      rw [getSlice_eq_pySlice, if_neg hc] at h1
      have h2 := pySlice_filterMap_length (kidsAt root el) a b c
      simp only [Except.ok.injEq] at h1
      rw [← h1, h2, List.length_map]

/-- the same for spec B's slice step (`stepDen`, what `denote` is made of) -/
theorem stepDen_slice_is_python_slice (root : Node) (strict : Bool) (a b : Option Int)
    (c : Option (Option Int)) (el : Pos) :
    (Step.stride c = some 0 ∧ stepDen root strict (.slice a b c) el = .error .value) ∨
    (Step.stride c ≠ some 0 ∧
      stepDen root strict (.slice a b c) el =
        .ok ((indices (sliceIx (kidsAt root el).length a b (Step.stride c))).map (fun i => el ++ [i]))) := by
  have hk : (nodeAt root el).kids.length = (kidsAt root el).length := by
    unfold kidsAt nodeAt; cases root.get? el <;> rfl
  by_cases hc : Step.stride c = some 0
  · left; exact ⟨hc, by simp [stepDen, hc]⟩
  · right
    refine ⟨hc, ?_⟩
    have : (Step.stride c == some 0) = false := by simpa using hc
    simp only [stepDen, this, hk]
    rw [pySlice_spec _ _ _ _ hc]; rfl

/-! non-vacuity: `[1::2]` and `[::-1]` on a five-member list; `[::0]` -/
private def five : Node :=
  .mk .list (some []) [] ((List.range 5).map (fun i => .mk .scalar (some []) (toString i).toList []))

example : ∃ ps, runCtx five true [.slice (some 1) none (some 2)] [] = .ok (.spawn [] ps) ∧ ps = [[1], [3]] := by
  rcases C14_slice_is_python_slice five true (some 1) none (some 2) [] [] with h | ⟨_, ps, h1, h2, _⟩
  · exact absurd h.1 (by decide)
  · exact ⟨ps, h2, by rw [h1]; decide⟩

example : runCtx five true [.slice none none (some 0)] [] = .error .value := by
  rcases C14_slice_is_python_slice five true none none (some 0) [] [] with h | h
  · exact h.2.2
  · exact absurd rfl h.1

end Flatland.C14.Proofs
