/-
C01 with SparseDicts, the clause "after the first round trip a second round trip changes nothing"
(in the flat output):

  flatten (fromFlat (flatten (fromFlat (flatten e)))) = flatten (fromFlat (flatten e))

needs two hypotheses beyond those of `roundtrip_sparse`: `blankSettled env s` and `prefixFree s`.
Here: each of the two is NEEDED (a concrete schema + state + environment satisfying every other
hypothesis, on which the second trip changes the flat output), and non-vacuity material for the
positive theorem (a state under all hypotheses on which the first trip really reorders, prunes and
loses a member, and the second is the identity).

Everything is evaluated in the model itself (`flatten`, `fromFlat`), step by step; the intermediate
trees and flat outputs are stated as named theorems.
-/
import Proofs.C01SparseAll
set_option linter.unusedSimpArgs false
namespace Flatland.Flat.Proofs
open Flatland.Flat Flatland.Flat.Spec

/-- a Boolean-like scalar kind (kind 1, `Boolean(true='yes', false='no')`): every text that is not
    the true token — the empty text included — is read back as the false token 'no'.  All other
    kinds keep their text. -/
def exEnvBool : Env :=
  { norm := fun k s => if k = 1 then (if s = "yes".toList then "yes".toList else "no".toList) else s,
    compose := fun _ _ => [], joinedMembers := fun _ _ => [], ndZeros := [48], maxDigits := 4300 }

theorem exEnvBoolOK : EnvOK exEnvBool := ⟨[], rfl⟩

/-- evaluate `flatten` of a concrete state (the queue loop `bfsFlat` is well-founded: unfold by `simp`) -/
macro "flatten_eval" : tactic => `(tactic|
  simp [flatten, flattenNode, resolve, resolveMembers, resolveOne, resolveList, membersOf,
    bfsFlat, childItems, kidsFrom, namePath, joinSep, natStr, digitChar, FNode.fl, FNode.cfl, FNode.u,
    FNode.name, FNode.kids, FNode.slots, Schema.name])

/-- evaluate `fromFlat` on concrete pairs of a List-free schema -/
macro "fromFlat_eval" : tactic => `(tactic|
  simp [fromFlat, setFlat, setFields, blank, blankFields, blankRequired, wrap, possibles, membersOf,
    lookup, replace, isPrefix, Schema.name, Schema.opt, exEnv01, exEnvBool])

/-- evaluate `prS` of a concrete state -/
macro "prS_eval" : tactic => `(tactic|
  simp [prS, prSPick, pr, innerPairs, touched, isReq, keepS, emitsB, lookup, isPrefix,
    Schema.name, Schema.opt, blank, blankFields, blankRequired, flatten, flattenNode, resolve,
    resolveMembers, resolveOne, resolveList,
    membersOf, bfsFlat, childItems, kidsFrom, namePath, joinSep, natStr, digitChar, FNode.fl, FNode.cfl,
    FNode.u, FNode.name, FNode.kids, FNode.slots])

/-! ### 1. `blankSettled` is needed — with a `prefixFree` schema

`SparseDict(minimum_fields='required'){ r: Boolean(true='yes', false='no') }` holding `{}` (the
required member absent: `OkS` allows any subset).  Trip 1 re-creates `r` blank: flat `[(r, '')]`;
trip 2 reads `''` back as `'no'`: flat `[(r, 'no')]`. -/

def exBSSchema : Schema := .dict none false .sparseReq [ .leaf (some "r".toList) false 1 ]
def exBSElem : Elem := .dict []

theorem exBS_sepSafe : SepSafe exEnvBool "_".toList (Tok exBSSchema) := by
  apply sepSafe_single_char exEnvBool exEnvBoolOK exBSSchema '_'
  · decide
  · intro t ht
    simp only [exBSSchema, names, namesL, Option.toList, List.nil_append, List.append_nil,
      List.mem_append, List.mem_cons, List.mem_singleton, List.not_mem_nil, or_false] at ht
    rcases ht with rfl <;> decide

theorem exBS_ok : OkS exEnvBool exBSSchema exBSElem := okSB_sound _ _ _ (by decide)

theorem exBS_flat0 : flatten exEnvBool "_".toList exBSSchema exBSElem = [] := by
  simp only [exBSSchema, exBSElem]; flatten_eval

theorem exBS_trip1 : fromFlat exEnvBool "_".toList exBSSchema [] = .dict [("r".toList, .leaf [])] := by
  simp only [exBSSchema]; fromFlat_eval

theorem exBS_flat1 : flatten exEnvBool "_".toList exBSSchema (.dict [("r".toList, .leaf [])])
    = [("r".toList, [])] := by
  simp only [exBSSchema]; flatten_eval

theorem exBS_trip2 : fromFlat exEnvBool "_".toList exBSSchema [("r".toList, [])]
    = .dict [("r".toList, .leaf "no".toList)] := by
  simp only [exBSSchema]; fromFlat_eval

theorem exBS_flat2 : flatten exEnvBool "_".toList exBSSchema (.dict [("r".toList, .leaf "no".toList)])
    = [("r".toList, "no".toList)] := by
  simp only [exBSSchema]; flatten_eval

/-- **`blankSettled` is needed** for "a second trip changes nothing", even for `prefixFree` schemas:
    every other hypothesis holds, the second trip turns `r = ''` into `r = 'no'`. -/
theorem second_trip_needs_blankSettled : ∃ (env : Env) (sep : Str) (s : Schema) (e : Elem),
    SepSafe env sep (Tok s) ∧ EnvOK env ∧ wf s = true ∧ rootOK s = true ∧ OkS env s e ∧
    prefixFree s = true ∧ blankSettled env s = false ∧
    flatten env sep s (fromFlat env sep s (flatten env sep s (fromFlat env sep s (flatten env sep s e))))
      ≠ flatten env sep s (fromFlat env sep s (flatten env sep s e)) := by
  refine ⟨exEnvBool, "_".toList, exBSSchema, exBSElem, exBS_sepSafe, exEnvBoolOK, by decide, by decide,
    exBS_ok, by decide, by decide, ?_⟩
  rw [exBS_flat0, exBS_trip1, exBS_flat1, exBS_trip2, exBS_flat2]
  decide

/-! ### 1'. the witness the runner found (NOTES-h3, quick seed 0) — not `prefixFree`

`SparseDict{ abc: Boolean(true='yes', false='no'), abc1: Integer }` holding `{abc1: 588}`: trip 1
materialises `abc` blank (`abc` is a prefix of `abc1`), trip 2 reads `''` back as `'no'`. -/

def exBS'Schema : Schema :=
  .dict none false .sparse [ .leaf (some "abc".toList) false 1, .leaf (some "abc1".toList) false 0 ]
def exBS'Elem : Elem := .dict [("abc1".toList, .leaf "588".toList)]

theorem exBS'_sepSafe : SepSafe exEnvBool "_".toList (Tok exBS'Schema) := by
  apply sepSafe_single_char exEnvBool exEnvBoolOK exBS'Schema '_'
  · decide
  · intro t ht
    simp only [exBS'Schema, names, namesL, Option.toList, List.nil_append, List.append_nil,
      List.mem_append, List.mem_cons, List.mem_singleton, List.not_mem_nil, or_false] at ht
    rcases ht with rfl | rfl <;> decide

theorem exBS'_ok : OkS exEnvBool exBS'Schema exBS'Elem := okSB_sound _ _ _ (by decide)

theorem exBS'_flat0 : flatten exEnvBool "_".toList exBS'Schema exBS'Elem
    = [("abc1".toList, "588".toList)] := by
  simp only [exBS'Schema, exBS'Elem]; flatten_eval

theorem exBS'_trip1 : fromFlat exEnvBool "_".toList exBS'Schema [("abc1".toList, "588".toList)]
    = .dict [("abc".toList, .leaf []), ("abc1".toList, .leaf "588".toList)] := by
  simp only [exBS'Schema]; fromFlat_eval

theorem exBS'_flat1 : flatten exEnvBool "_".toList exBS'Schema
      (.dict [("abc".toList, .leaf []), ("abc1".toList, .leaf "588".toList)])
    = [("abc".toList, []), ("abc1".toList, "588".toList)] := by
  simp only [exBS'Schema]; flatten_eval

theorem exBS'_trip2 : fromFlat exEnvBool "_".toList exBS'Schema
      [("abc".toList, []), ("abc1".toList, "588".toList)]
    = .dict [("abc".toList, .leaf "no".toList), ("abc1".toList, .leaf "588".toList)] := by
  simp only [exBS'Schema]; fromFlat_eval

theorem exBS'_flat2 : flatten exEnvBool "_".toList exBS'Schema
      (.dict [("abc".toList, .leaf "no".toList), ("abc1".toList, .leaf "588".toList)])
    = [("abc".toList, "no".toList), ("abc1".toList, "588".toList)] := by
  simp only [exBS'Schema]; flatten_eval

/-- the runner's witness: neither `blankSettled` nor `prefixFree` -/
theorem second_trip_needs_blankSettled' : ∃ (env : Env) (sep : Str) (s : Schema) (e : Elem),
    SepSafe env sep (Tok s) ∧ EnvOK env ∧ wf s = true ∧ rootOK s = true ∧ OkS env s e ∧
    prefixFree s = false ∧ blankSettled env s = false ∧
    flatten env sep s (fromFlat env sep s (flatten env sep s (fromFlat env sep s (flatten env sep s e))))
      ≠ flatten env sep s (fromFlat env sep s (flatten env sep s e)) := by
  refine ⟨exEnvBool, "_".toList, exBS'Schema, exBS'Elem, exBS'_sepSafe, exEnvBoolOK, by decide, by decide,
    exBS'_ok, by decide, by decide, ?_⟩
  rw [exBS'_flat0, exBS'_trip1, exBS'_flat1, exBS'_trip2, exBS'_flat2]
  decide

/-! ### 2. `prefixFree` is needed — a cascade (NOTES-h3, thorough seed 0, minimised)

`SparseDict{ y?: Dict{ s: SparseDict(minimum_fields='required'){ b?: String, bb: String } }, yb: String }`
holding `{yb: '1'}`; all kinds read `''` back as `''` (`exEnv01`).  Trip 1 materialises `y` (a prefix of
`yb`) as a blank Dict whose inner `s` holds its required `bb` blank: flat `[yb=1, y_s_bb='']`.  Trip 2
sees the key `bb` inside `s` and materialises the optional `b` (a prefix of `bb`): the flat output
GROWS, on the second trip, by `y_s_b=''`.  (A third trip changes nothing more.) -/

def exPFSchema : Schema := .dict none false .sparse
  [ .dict (some "y".toList) true .dense
      [ .dict (some "s".toList) false .sparseReq
          [ .leaf (some "b".toList) true 0, .leaf (some "bb".toList) false 0 ] ],
    .leaf (some "yb".toList) false 0 ]

def exPFElem : Elem := .dict [("yb".toList, .leaf "1".toList)]

/-- the tree after trip 1 -/
def exPFElem1 : Elem :=
  .dict [ ("y".toList, .dict [("s".toList, .dict [("bb".toList, .leaf [])])]),
          ("yb".toList, .leaf "1".toList) ]

/-- the tree after trip 2 -/
def exPFElem2 : Elem :=
  .dict [ ("y".toList, .dict [("s".toList, .dict [("bb".toList, .leaf []), ("b".toList, .leaf [])])]),
          ("yb".toList, .leaf "1".toList) ]

theorem exPF_sepSafe : SepSafe exEnv01 "_".toList (Tok exPFSchema) := by
  apply sepSafe_single_char exEnv01 exEnvOK exPFSchema '_'
  · decide
  · intro t ht
    simp only [exPFSchema, names, namesL, Option.toList, List.nil_append, List.append_nil,
      List.mem_append, List.mem_cons, List.mem_singleton, List.not_mem_nil, or_false,
      List.cons_append] at ht
    rcases ht with rfl | rfl | rfl | rfl | rfl <;> decide

theorem exPF_ok : OkS exEnv01 exPFSchema exPFElem := okSB_sound _ _ _ (by decide)

theorem exPF_flat0 : flatten exEnv01 "_".toList exPFSchema exPFElem = [("yb".toList, "1".toList)] := by
  simp only [exPFSchema, exPFElem]; flatten_eval

theorem exPF_trip1 : fromFlat exEnv01 "_".toList exPFSchema [("yb".toList, "1".toList)] = exPFElem1 := by
  simp only [exPFSchema, exPFElem1]; fromFlat_eval

theorem exPF_flat1 : flatten exEnv01 "_".toList exPFSchema exPFElem1
    = [("yb".toList, "1".toList), ("y_s_bb".toList, [])] := by
  simp only [exPFSchema, exPFElem1]; flatten_eval

theorem exPF_trip2 : fromFlat exEnv01 "_".toList exPFSchema
    [("yb".toList, "1".toList), ("y_s_bb".toList, [])] = exPFElem2 := by
  simp only [exPFSchema, exPFElem2]; fromFlat_eval

theorem exPF_flat2 : flatten exEnv01 "_".toList exPFSchema exPFElem2
    = [("yb".toList, "1".toList), ("y_s_bb".toList, []), ("y_s_b".toList, [])] := by
  simp only [exPFSchema, exPFElem2]; flatten_eval

/-- `prS` (the specification of one trip) says the same: `prS e` and `prS (prS e)` are these trees -/
theorem exPF_prS1 : prS exEnv01 "_".toList false exPFSchema exPFElem = exPFElem1 := by
  simp only [exPFSchema, exPFElem, exPFElem1]; prS_eval

theorem exPF_prS2 : prS exEnv01 "_".toList false exPFSchema exPFElem1 = exPFElem2 := by
  simp only [exPFSchema, exPFElem1, exPFElem2]; prS_eval

/-- **`prefixFree` is needed** for "a second trip changes nothing": every other hypothesis holds
    (`blankSettled` included), the flat output grows on the second trip. -/
theorem second_trip_needs_prefixFree : ∃ (env : Env) (sep : Str) (s : Schema) (e : Elem),
    SepSafe env sep (Tok s) ∧ EnvOK env ∧ wf s = true ∧ rootOK s = true ∧ OkS env s e ∧
    blankSettled env s = true ∧ prefixFree s = false ∧
    flatten env sep s (fromFlat env sep s (flatten env sep s (fromFlat env sep s (flatten env sep s e))))
      ≠ flatten env sep s (fromFlat env sep s (flatten env sep s e)) := by
  refine ⟨exEnv01, "_".toList, exPFSchema, exPFElem, exPF_sepSafe, exEnvOK, by decide, by decide,
    exPF_ok, by decide, by decide, ?_⟩
  rw [exPF_flat0, exPF_trip1, exPF_flat1, exPF_trip2, exPF_flat2]
  decide

/-! ### 3. non-vacuity material for the positive theorem

List `l` (pruning) of `Dict{ id: String, sp: SparseDict(minimum_fields='required'){ o1?, r, o2? } }`;
three members: one whose `sp` is held out of order (`o2`, `r`), one whose values are all empty (trip 1
PRUNES it), one whose optional `o1` is empty (lost below the pruning List).  All hypotheses hold —
`blankSettled` and `prefixFree` included — the first trip changes the tree and the flat output, the
second trip is the identity. -/

def exSecSchema : Schema :=
  .list (some "l".toList) false true 1024
    (.dict none false .dense
      [ .leaf (some "id".toList) false 0,
        .dict (some "sp".toList) false .sparseReq
          [ .leaf (some "o1".toList) true 0, .leaf (some "r".toList) false 0,
            .leaf (some "o2".toList) true 0 ] ])

def exSecElem : Elem :=
  .list [ .dict [ ("id".toList, .leaf "1".toList),
                  ("sp".toList, .dict [("o2".toList, .leaf "y".toList), ("r".toList, .leaf "x".toList)]) ],
          .dict [ ("id".toList, .leaf []), ("sp".toList, .dict [("r".toList, .leaf [])]) ],
          .dict [ ("id".toList, .leaf "3".toList),
                  ("sp".toList, .dict [("o1".toList, .leaf []), ("r".toList, .leaf "z".toList)]) ] ]

/-- the tree after trip 1: two members; `sp` of the first reordered (required `r` first), `o1` of the
    last gone -/
def exSecElem1 : Elem :=
  .list [ .dict [ ("id".toList, .leaf "1".toList),
                  ("sp".toList, .dict [("r".toList, .leaf "x".toList), ("o2".toList, .leaf "y".toList)]) ],
          .dict [ ("id".toList, .leaf "3".toList),
                  ("sp".toList, .dict [("r".toList, .leaf "z".toList)]) ] ]

theorem exSec_sepSafe : SepSafe exEnv01 "_".toList (Tok exSecSchema) := by
  apply sepSafe_single_char exEnv01 exEnvOK exSecSchema '_'
  · decide
  · intro t ht
    simp only [exSecSchema, names, namesL, Option.toList, List.nil_append, List.append_nil,
      List.mem_append, List.mem_cons, List.mem_singleton, List.not_mem_nil, or_false,
      List.cons_append] at ht
    rcases ht with rfl | rfl | rfl | rfl | rfl | rfl <;> decide

theorem exSec_envOK : EnvOK exEnv01 := exEnvOK
theorem exSec_wf : wf exSecSchema = true := by decide
theorem exSec_rootOK : rootOK exSecSchema = true := by decide
theorem exSec_blankSettled : blankSettled exEnv01 exSecSchema = true := by decide
theorem exSec_prefixFree : prefixFree exSecSchema = true := by decide

theorem exSec_ok : OkS exEnv01 exSecSchema exSecElem := by
  simp only [exSecSchema, exSecElem, OkS]
  refine ⟨by decide, fun i hi => ex_digits i (by simp at hi; omega), ?_⟩
  intro e he
  simp only [List.mem_cons, List.not_mem_nil, or_false] at he
  rcases he with rfl | rfl | rfl <;> exact okSB_sound exEnv01 _ _ (by decide)

/-- the rebuilt tree conforms again -/
theorem exSec_ok1 : OkS exEnv01 exSecSchema exSecElem1 := by
  simp only [exSecSchema, exSecElem1, OkS]
  refine ⟨by decide, fun i hi => ex_digits i (by simp at hi; omega), ?_⟩
  intro e he
  simp only [List.mem_cons, List.not_mem_nil, or_false] at he
  rcases he with rfl | rfl <;> exact okSB_sound exEnv01 _ _ (by decide)

/-- the state is not in normal order; the rebuilt one is -/
theorem exSec_not_normal : sparseNormal exSecSchema exSecElem = false := by decide
theorem exSec_normal1 : sparseNormal exSecSchema exSecElem1 = true := by decide

/-- trip 1 as a tree -/
theorem exSec_prS1 : prS exEnv01 "_".toList false exSecSchema exSecElem = exSecElem1 := by
  simp only [exSecSchema, exSecElem, exSecElem1]; prS_eval

theorem exSec_flat0 : flatten exEnv01 "_".toList exSecSchema exSecElem
    = [ ("l_0_id".toList, "1".toList), ("l_1_id".toList, []), ("l_2_id".toList, "3".toList),
        ("l_0_sp_o2".toList, "y".toList), ("l_0_sp_r".toList, "x".toList), ("l_1_sp_r".toList, []),
        ("l_2_sp_o1".toList, []), ("l_2_sp_r".toList, "z".toList) ] := by
  simp only [exSecSchema, exSecElem]; flatten_eval

theorem exSec_flat1 : flatten exEnv01 "_".toList exSecSchema exSecElem1
    = [ ("l_0_id".toList, "1".toList), ("l_1_id".toList, "3".toList), ("l_0_sp_r".toList, "x".toList),
        ("l_0_sp_o2".toList, "y".toList), ("l_1_sp_r".toList, "z".toList) ] := by
  simp only [exSecSchema, exSecElem1]; flatten_eval

/-- the first trip changes the tree: a member pruned, one reordered, an empty optional member lost -/
theorem exSec_trip1_changes : prS exEnv01 "_".toList false exSecSchema exSecElem ≠ exSecElem := by
  rw [exSec_prS1]; simp [exSecElem, exSecElem1]

/-- … and the flat output -/
theorem exSec_flat_changes : flatten exEnv01 "_".toList exSecSchema
      (prS exEnv01 "_".toList false exSecSchema exSecElem)
    ≠ flatten exEnv01 "_".toList exSecSchema exSecElem := by
  rw [exSec_prS1, exSec_flat1, exSec_flat0]; decide

/-- the second trip is the identity, already on the tree -/
theorem exSec_trip2_identity : prS exEnv01 "_".toList false exSecSchema
      (prS exEnv01 "_".toList false exSecSchema exSecElem)
    = prS exEnv01 "_".toList false exSecSchema exSecElem := by
  rw [exSec_prS1]
  simp only [exSecSchema, exSecElem1]; prS_eval

/-- the same facts about the model's own `fromFlat ∘ flatten` (through `roundtrip_sparse`) -/
theorem exSec_roundtrip1 :
    fromFlat exEnv01 "_".toList exSecSchema (flatten exEnv01 "_".toList exSecSchema exSecElem) = exSecElem1 := by
  rw [roundtrip_sparse exEnv01 "_".toList exSecSchema exSecElem exSec_sepSafe exEnvOK exSec_wf exSec_rootOK
    exSec_ok, exSec_prS1]

theorem exSec_roundtrip2 :
    fromFlat exEnv01 "_".toList exSecSchema (flatten exEnv01 "_".toList exSecSchema exSecElem1) = exSecElem1 := by
  have h := exSec_trip2_identity
  rw [exSec_prS1] at h
  rw [roundtrip_sparse exEnv01 "_".toList exSecSchema exSecElem1 exSec_sepSafe exEnvOK exSec_wf exSec_rootOK
    exSec_ok1, h]

/-- the instance of the second-trip clause at this state, both sides concrete -/
theorem exSec_second_flatten :
    flatten exEnv01 "_".toList exSecSchema (fromFlat exEnv01 "_".toList exSecSchema
      (flatten exEnv01 "_".toList exSecSchema (fromFlat exEnv01 "_".toList exSecSchema
        (flatten exEnv01 "_".toList exSecSchema exSecElem))))
    = flatten exEnv01 "_".toList exSecSchema (fromFlat exEnv01 "_".toList exSecSchema
      (flatten exEnv01 "_".toList exSecSchema exSecElem)) := by
  rw [exSec_roundtrip1, exSec_roundtrip2]

end Flatland.Flat.Proofs
