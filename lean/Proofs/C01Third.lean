/-
C01 — what the round trip may do to the flat pairs, in general.

`from_flat(flatten(e))` is the documented pruning `pr e` (`roundtrip_pruned`).  At the level of the
flat pairs this means: pairs are only ever *left out* — never added, changed or reordered —, every
pair left out has an empty value, and the keys of the remaining pairs change in their list indexes
only (renumbering).  Formally, with `flattenNoIdx` = `flatten` with the list-index tokens left out
of every key:

* `roundtrip_flatten_sub`: `flattenNoIdx (from_flat (flatten e))` is a subsequence of
  `flattenNoIdx e`, and both have the same pairs with a non-empty value (in the same order);
* `roundtrip_values_sub` / `roundtrip_values_nonempty`: the same for the values of the real
  `flatten` outputs.
-/
import Proofs.C01Second
import Proofs.Lemmas.C01LevelSub
namespace Flatland.Flat.Proofs
open Flatland.Flat Flatland.Flat.Spec

/-- `flatten` with the list-index tokens left out of every key (`unslot`: no node interposes slot
    indexes) -/
def flattenNoIdx (env : Env) (sep : Str) (s : Schema) (e : Elem) : List (Str × Str) :=
  (relFlat (unslot (resolve env s e))).map (joinPair sep)

/-- the values `flatten` emits, in order, are those of `flattenNoIdx` -/
theorem flattenNoIdx_values (env : Env) (sep : Str) (s : Schema) (e : Elem) :
    (flattenNoIdx env sep s e).map Prod.snd = (flatten env sep s e).map Prod.snd := by
  unfold flattenNoIdx
  rw [flatten_eq_relFlat, List.map_map, List.map_map]
  have : (Prod.snd ∘ joinPair sep : PPair → Str) = Prod.snd := rfl
  rw [this]
  exact relFlat_unslot_vals _

theorem filter_nonempty_joinPair (sep : Str) (l : List PPair) :
    (l.map (joinPair sep)).filter (fun p => !p.2.isEmpty) = (l.filter (keepP true)).map (joinPair sep) := by
  rw [List.filter_map]
  congr 1

/-- the documented pruning only leaves out empty-valued pairs (list indexes aside) -/
theorem flattenNoIdx_pr (env : Env) (sep : Str) (s : Schema) (u : Bool) (e : Elem)
    (hw : wf s = true) (hd : dense s = true) (hok : OkP env s e) :
    (flattenNoIdx env sep s (pr env u s e)).Sublist (flattenNoIdx env sep s e) ∧
    (flattenNoIdx env sep s (pr env u s e)).filter (fun p => !p.2.isEmpty)
      = (flattenNoIdx env sep s e).filter (fun p => !p.2.isEmpty) := by
  have h := psub_relFlat_unslot (sub_pr (env := env) s hw hd u e hok)
  unfold flattenNoIdx
  refine ⟨h.1.map _, ?_⟩
  rw [filter_nonempty_joinPair, filter_nonempty_joinPair, h.2]

/-- **C01, the round trip at pair level.**  Apart from the renumbering of list indexes, the
    flattened output after a round trip is the original output with some pairs left out, all of them
    with an empty value. -/
theorem roundtrip_flatten_sub (env : Env) (sep : Str) (s : Schema) (e : Elem)
    (hs : SepSafe env sep (Tok s)) (henv : EnvOK env) (hw : wf s = true) (hd : dense s = true)
    (hroot : rootOK s = true) (hok : OkP env s e) :
    (flattenNoIdx env sep s (fromFlat env sep s (flatten env sep s e))).Sublist (flattenNoIdx env sep s e) ∧
    (flattenNoIdx env sep s (fromFlat env sep s (flatten env sep s e))).filter (fun p => !p.2.isEmpty)
      = (flattenNoIdx env sep s e).filter (fun p => !p.2.isEmpty) := by
  rw [roundtrip_pruned env sep s e hs henv hw hd hroot hok]
  exact flattenNoIdx_pr env sep s false e hw hd hok

/-- the values after the round trip are a subsequence of the values before -/
theorem roundtrip_values_sub (env : Env) (sep : Str) (s : Schema) (e : Elem)
    (hs : SepSafe env sep (Tok s)) (henv : EnvOK env) (hw : wf s = true) (hd : dense s = true)
    (hroot : rootOK s = true) (hok : OkP env s e) :
    ((flatten env sep s (fromFlat env sep s (flatten env sep s e))).map Prod.snd).Sublist
      ((flatten env sep s e).map Prod.snd) := by
  rw [← flattenNoIdx_values, ← flattenNoIdx_values]
  exact (roundtrip_flatten_sub env sep s e hs henv hw hd hroot hok).1.map _

/-- no non-empty value is lost, and their order is kept -/
theorem roundtrip_values_nonempty (env : Env) (sep : Str) (s : Schema) (e : Elem)
    (hs : SepSafe env sep (Tok s)) (henv : EnvOK env) (hw : wf s = true) (hd : dense s = true)
    (hroot : rootOK s = true) (hok : OkP env s e) :
    ((flatten env sep s (fromFlat env sep s (flatten env sep s e))).map Prod.snd).filter (fun v => !v.isEmpty)
      = ((flatten env sep s e).map Prod.snd).filter (fun v => !v.isEmpty) := by
  rw [← flattenNoIdx_values, ← flattenNoIdx_values, List.filter_map, List.filter_map]
  exact congrArg (List.map Prod.snd) (roundtrip_flatten_sub env sep s e hs henv hw hd hroot hok).2

end Flatland.Flat.Proofs
