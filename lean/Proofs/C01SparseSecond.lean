/-
C01 — "… after which a second round trip changes nothing", with SparseDicts.

`roundtrip_sparse` says which tree `from_flat(flatten(e))` rebuilds from ANY conforming state: `prS e`.
Here: what that rebuilt tree is like, and that a second trip does not change the flat output.

* `prS_okS_root` — the rebuilt tree conforms again (`blankSettled`: every scalar kind reads `''` back
  as `''`; needed: `second_trip_needs_blankSettled`);
* `prS_sparseNormal` — it is in normal order (needs only `wf`);
* `touched_iff` — the `prefixFree` corollary: touched = present and emits;
* `stableS_prS`, `lvl_prS` — `prS e` is a *stable* state, and on stable states `prS` is invisible
  level by level of the breadth-first output;
* **`roundtrip_sparse_second_flat_partial`** — under `blankSettled` and `prefixFree` (both needed:
  `second_trip_needs_blankSettled`, `second_trip_needs_prefixFree` in
  `Proofs/C01SparseSecondWitness.lean`) the flat output of the second trip is that of the first, for
  every well-formed Compound-free schema (SparseDicts of both kinds, Dicts, Lists pruning or not,
  Arrays, JoinedStrings, any depth).  `_partial`: the decidable hypothesis `compoundFree` (schemas WITH
  Compounds but WITHOUT SparseDicts are covered by `roundtrip_second_flatten`; the mixed case is the
  full statement `C01_Sparse_Second_Full`, not proved here) and `arraysScalar` (an Array holds scalars —
  what `OkS` demands of every Array *state* anyway).
* the tree may still change on the second trip, exactly as in the dense case (`exNP_tree_changes`) and
  additionally: a non-minimum member whose rebuilt value emits nothing is dropped
  (`sparse_tree_changes_second`).
-/
import Proofs.Lemmas.C01SparseSecondPr
import Proofs.Lemmas.C01SparseSecondNormal
import Proofs.C01SparseSecondWitness
namespace Flatland.Flat.Proofs
open Flatland.Flat Flatland.Flat.Spec

/-- the rebuilt tree conforms again -/
theorem prS_okS_root (env : Env) (sep : Str) (s : Schema) (e : Elem) (hw : wf s = true)
    (hbs : blankSettled env s = true) (has : arraysScalar s = true) (hok : OkS env s e) :
    OkS env s (prS env sep false s e) :=
  prS_okS s hw hbs has false e hok

/-- a Compound-free schema has no Compound state to be incomplete -/
theorem compoundsFull_of_compoundFree : ∀ s : Schema, compoundFree s = true →
    ∀ e : Elem, compoundsFull s e = true := by
  intro s
  induction s using schema_ind with
  | hleaf nm o k => intro _ e; cases e <;> simp [compoundsFull]
  | hjoined nm o k mem => intro _ e; cases e <;> simp [compoundsFull]
  | harray nm o p member ih => intro _ e; cases e <;> simp [compoundsFull]
  | hcompound nm o k fields ih => intro hcf; simp [compoundFree] at hcf
  | hdict nm o mode fields ih =>
    intro hcf e
    simp only [compoundFree] at hcf
    cases e with
    | dict ms =>
      simp only [compoundsFull]
      exact compoundsFullMs_of (fun f hf e _ => ih f hf (compoundFree_of_mem hcf f hf) e)
    | _ => simp [compoundsFull]
  | hlist nm o p mx member ih =>
    intro hcf e
    simp only [compoundFree] at hcf
    cases e with
    | list ms =>
      simp only [compoundsFull, List.all_eq_true]
      exact fun m _ => ih hcf m
    | _ => simp [compoundsFull]

/-! ### `prS` produces states whose Compounds are full (so `compoundsFull` is preserved) -/

theorem lookup_pick_val (fields : List Schema) (hnd : (namesOf fields).Nodup)
    (hsome : ∀ g ∈ fields, g.name.isSome) (req : Schema → Bool) (K : List (Str × Str))
    (V : Schema → Elem) (f : Schema) (hf : f ∈ fields) (e : Elem)
    (hl : lookup (f.name.getD []) (pickV req K V true fields ++ pickV req K V false fields) = some e) :
    e = if touched K f then V f else blank f := by
  have hm := mem_of_lookup hl
  have hex : ∃ g ∈ fields, f.name.getD [] = g.name.getD [] ∧ e = if touched K g then V g else blank g := by
    rcases List.mem_append.mp hm with h | h
    · obtain ⟨g, hg, h1, _, _, h4⟩ := mem_pickV h
      exact ⟨g, hg, h1, h4⟩
    · obtain ⟨g, hg, h1, _, _, h4⟩ := mem_pickV h
      exact ⟨g, hg, h1, h4⟩
  obtain ⟨g, hg, h1, h4⟩ := hex
  have : f = g := field_eq_of_nmOf hnd hsome hf hg h1
  subst this
  exact h4

theorem blankFields_keys : ∀ fs : List Schema,
    (blankFields fs).map (·.1) = fs.map (fun f => f.name.getD [])
  | [] => rfl
  | f :: fs => by simp [blankFields, blankFields_keys fs]

theorem compoundsFull_blank : ∀ s : Schema, wf s = true → compoundsFull s (blank s) = true := by
  intro s
  induction s using schema_ind with
  | hleaf nm o k => intro _; simp [blank, compoundsFull]
  | hjoined nm o k mem => intro _; simp [blank, compoundsFull]
  | harray nm o p member ih => intro _; simp [blank, compoundsFull]
  | hlist nm o p mx member ih => intro _; simp [blank, compoundsFull]
  | hdict nm o mode fields ih =>
    intro hw
    simp only [wf, Bool.and_eq_true] at hw
    have hnd : (namesOf fields).Nodup := by simpa using hw.2
    have hsome := allSome_of fields hw.1.2
    rw [blank_dict_members]
    simp only [compoundsFull]
    apply compoundsFullMs_of
    intro f hf e hl
    rw [blankSel_eq_pick (isReq mode) (fun f => blank f) fields] at hl
    have := lookup_pick_val fields hnd hsome _ _ _ f hf e hl
    have he : e = blank f := by simpa using this
    rw [he]
    exact ih f hf (wf_of_mem hw.1.1 f hf)
  | hcompound nm o k fields ih =>
    intro hw
    simp only [wf, Bool.and_eq_true] at hw
    have hnd : (namesOf fields).Nodup := by simpa using hw.2
    have hsome := allSome_of fields hw.1.2
    simp only [blank, compoundsFull, Bool.and_eq_true, decide_eq_true_eq]
    refine ⟨blankFields_keys fields, compoundsFullMs_of ?_⟩
    intro f hf e hl
    rw [lookup_blankFields fields hnd hsome f hf] at hl
    injection hl with hl
    rw [← hl]
    exact ih f hf (wf_of_mem hw.1.1 f hf)

/-- whatever subset of its fields a Compound state held, the rebuilt one holds all of them, in
    declaration order: `compoundsFull` holds of EVERY rebuilt tree (in particular it is preserved) -/
theorem compoundsFull_prS (env : Env) (sep : Str) : ∀ s : Schema, wf s = true →
    ∀ (u : Bool) (e : Elem), OkS env s e → compoundsFull s (prS env sep u s e) = true := by
  intro s
  induction s using schema_ind with
  | hleaf nm o k => intro _ u e _; cases e <;> simp [prS, pr, compoundsFull]
  | hjoined nm o k mem =>
    intro _ u e hok
    cases e with
    | joined t ms => simp only [prS, pr]; split <;> simp [compoundsFull]
    | _ => simp [OkS, OkP] at hok
  | harray nm o p member ih =>
    intro _ u e hok
    cases e with
    | array ms => simp [prS, pr, compoundsFull]
    | _ => simp [OkS, OkP] at hok
  | hlist nm o p mx member ih =>
    intro hw u e hok
    simp only [wf] at hw
    cases e with
    | list ms =>
      simp only [OkS] at hok
      obtain ⟨_, _, hmem⟩ := hok
      simp only [prS]
      split
      · simp only [compoundsFull, List.all_eq_true]
        intro x hx
        obtain ⟨m, hm, rfl⟩ := List.mem_map.mp hx
        exact ih hw true m (hmem m (List.mem_filter.mp hm).1)
      · simp only [compoundsFull, List.all_eq_true]
        intro x hx
        obtain ⟨m, hm, rfl⟩ := List.mem_map.mp hx
        split
        · exact ih hw u m (hmem m (mem_of_mem_dropTrailing _ _ _ hm))
        · exact compoundsFull_blank member hw
    | _ => simp [OkS] at hok
  | hdict nm o mode fields ih =>
    intro hw u e hok
    cases e with
    | dict ms =>
      simp only [wf, Bool.and_eq_true] at hw
      have hnd : (namesOf fields).Nodup := by simpa using hw.2
      have hsome := allSome_of fields hw.1.2
      simp only [OkS] at hok
      simp only [prS]
      rw [prSPick_eq, prSPick_eq]
      simp only [compoundsFull]
      apply compoundsFullMs_of
      intro f hf e hl
      rw [lookup_pick_val fields hnd hsome _ _ _ f hf e hl]
      split
      · simp only [valS]
        cases hlm : lookup (f.name.getD []) ms with
        | none => exact compoundsFull_blank f (wf_of_mem hw.1.1 f hf)
        | some x =>
          exact ih f hf (wf_of_mem hw.1.1 f hf) u x (okS_member_lookup hnd hok.2 hf (hsome f hf) hlm)
      · exact compoundsFull_blank f (wf_of_mem hw.1.1 f hf)
    | _ => simp [OkS] at hok
  | hcompound nm o k fields ih =>
    intro hw u e hok
    cases e with
    | dict ms =>
      simp only [wf, Bool.and_eq_true] at hw
      have hnd : (namesOf fields).Nodup := by simpa using hw.2
      have hsome := allSome_of fields hw.1.2
      simp only [OkS] at hok
      simp only [prS]
      rw [prSPick_eq, prSPick_eq]
      simp only [compoundsFull, Bool.and_eq_true, decide_eq_true_eq]
      refine ⟨by rw [List.map_append, pickV_keys, pickV_keys, (pickKeys_all _ fields).1,
        (pickKeys_all _ fields).2, List.append_nil], compoundsFullMs_of ?_⟩
      intro f hf e hl
      rw [lookup_pick_val fields hnd hsome _ _ _ f hf e hl]
      split
      · simp only [valS]
        cases hlm : lookup (f.name.getD []) ms with
        | none => exact compoundsFull_blank f (wf_of_mem hw.1.1 f hf)
        | some x =>
          exact ih f hf (wf_of_mem hw.1.1 f hf) u x (okS_member_lookup hnd hok.2 hf (hsome f hf) hlm)
      · exact compoundsFull_blank f (wf_of_mem hw.1.1 f hf)
    | _ => simp [OkS] at hok

/-- `prS` is idempotent on flattened output (Compounds allowed: every Compound state holds all its
    fields) -/
theorem flatten_prS_prS_full (env : Env) (sep sep' : Str) (s : Schema) (u : Bool) (e : Elem)
    (hw : wf s = true) (hbs : blankSettled env s = true) (hpf : prefixFree s = true)
    (hcf : compoundsFull s e = true) (has : arraysScalar s = true) (hok : OkS env s e) :
    flatten env sep' s (prS env sep u s (prS env sep u s e)) = flatten env sep' s (prS env sep u s e) :=
  flatten_prS_of_stable env sep sep' s u _ hw (prS_okS s hw hbs has u e hok)
    (stableS_prS s ⟨hw, hpf, hbs, has⟩ u e hok hcf)

/-- `prS` is idempotent on flattened output -/
theorem flatten_prS_prS (env : Env) (sep sep' : Str) (s : Schema) (u : Bool) (e : Elem)
    (hw : wf s = true) (hbs : blankSettled env s = true) (hpf : prefixFree s = true)
    (hcf : compoundFree s = true) (has : arraysScalar s = true) (hok : OkS env s e) :
    flatten env sep' s (prS env sep u s (prS env sep u s e)) = flatten env sep' s (prS env sep u s e) :=
  flatten_prS_prS_full env sep sep' s u e hw hbs hpf (compoundsFull_of_compoundFree s hcf e) has hok

/-- the full statement (Compounds and SparseDicts mixed): not proved in this round -/
def C01_Sparse_Second_Full : Prop :=
  ∀ (env : Env) (sep : Str) (s : Schema) (e : Elem),
    SepSafe env sep (Tok s) → EnvOK env → wf s = true → rootOK s = true →
    blankSettled env s = true → prefixFree s = true → arraysScalar s = true → OkS env s e →
    flatten env sep s (fromFlat env sep s (flatten env sep s (fromFlat env sep s (flatten env sep s e))))
      = flatten env sep s (fromFlat env sep s (flatten env sep s e))

/-- **C01, second round trip, SparseDicts included.**  After one round trip through `flatten` /
    `from_flat`, a second round trip changes nothing in the flattened output. -/
theorem roundtrip_sparse_second_flat_partial (env : Env) (sep : Str) (s : Schema) (e : Elem)
    (hs : SepSafe env sep (Tok s)) (henv : EnvOK env) (hw : wf s = true) (hroot : rootOK s = true)
    (hbs : blankSettled env s = true) (hpf : prefixFree s = true)
    (hcf : compoundFree s = true) (has : arraysScalar s = true) (hok : OkS env s e) :
    flatten env sep s (fromFlat env sep s (flatten env sep s (fromFlat env sep s (flatten env sep s e))))
      = flatten env sep s (fromFlat env sep s (flatten env sep s e)) := by
  rw [roundtrip_sparse env sep s e hs henv hw hroot hok,
    roundtrip_sparse env sep s _ hs henv hw hroot (prS_okS s hw hbs has false e hok)]
  exact flatten_prS_prS env sep sep s false e hw hbs hpf hcf has hok

/-- **C01, second round trip, SparseDicts AND Compounds.**  The same for every well-formed schema —
    Compounds and SparseDicts mixed at any depth — and every conforming state whose Compound states
    hold all their declared fields in order (`compoundsFull`, decidable; true of every real Compound:
    `Compound.__init__` creates every field and nothing removes one).  `OkS` alone lets a Compound
    state hold a subset of its fields; then trip 1 adds the missing ones blank and the Compound's own
    text `env.compose k …` is composed from a different list.  `_partial`: `compoundsFull`,
    `arraysScalar`. -/
theorem roundtrip_sparse_second_flat_compound_partial (env : Env) (sep : Str) (s : Schema) (e : Elem)
    (hs : SepSafe env sep (Tok s)) (henv : EnvOK env) (hw : wf s = true) (hroot : rootOK s = true)
    (hbs : blankSettled env s = true) (hpf : prefixFree s = true)
    (hcf : compoundsFull s e = true) (has : arraysScalar s = true) (hok : OkS env s e) :
    flatten env sep s (fromFlat env sep s (flatten env sep s (fromFlat env sep s (flatten env sep s e))))
      = flatten env sep s (fromFlat env sep s (flatten env sep s e)) := by
  rw [roundtrip_sparse env sep s e hs henv hw hroot hok,
    roundtrip_sparse env sep s _ hs henv hw hroot (prS_okS s hw hbs has false e hok)]
  exact flatten_prS_prS_full env sep sep s false e hw hbs hpf hcf has hok

/-- the third, fourth, … trips rebuild the flat output of the first as well: the rebuilt tree is
    normal, conforming and stable, and stays so -/
theorem roundtrip_sparse_rebuilt (env : Env) (sep : Str) (s : Schema) (e : Elem)
    (hs : SepSafe env sep (Tok s)) (henv : EnvOK env) (hw : wf s = true) (hroot : rootOK s = true)
    (hbs : blankSettled env s = true) (hpf : prefixFree s = true)
    (hcf : compoundFree s = true) (has : arraysScalar s = true) (hok : OkS env s e) :
    OkS env s (fromFlat env sep s (flatten env sep s e)) ∧
    sparseNormal s (fromFlat env sep s (flatten env sep s e)) = true ∧
    StableS env sep false s (fromFlat env sep s (flatten env sep s e)) := by
  rw [roundtrip_sparse env sep s e hs henv hw hroot hok]
  exact ⟨prS_okS s hw hbs has false e hok, prS_sparseNormal s hw false e hok,
    stableS_prS s ⟨hw, hpf, hbs, has⟩ false e hok (compoundsFull_of_compoundFree s hcf e)⟩

/-! ### non-vacuity: a `sparseReq` SparseDict in a pruning List of Dicts — trip 1 prunes a member,
    drops an empty optional member and reorders; trip 2 is the identity -/

example :
    flatten exEnv01 "_".toList exSecSchema (fromFlat exEnv01 "_".toList exSecSchema
      (flatten exEnv01 "_".toList exSecSchema (fromFlat exEnv01 "_".toList exSecSchema
        (flatten exEnv01 "_".toList exSecSchema exSecElem))))
    = flatten exEnv01 "_".toList exSecSchema (fromFlat exEnv01 "_".toList exSecSchema
      (flatten exEnv01 "_".toList exSecSchema exSecElem)) :=
  roundtrip_sparse_second_flat_partial exEnv01 "_".toList exSecSchema exSecElem exSec_sepSafe
    exSec_envOK exSec_wf exSec_rootOK exSec_blankSettled exSec_prefixFree (by decide) (by decide) exSec_ok

example : prS exEnv01 "_".toList false exSecSchema exSecElem ≠ exSecElem := exSec_trip1_changes

example : prS exEnv01 "_".toList false exSecSchema (prS exEnv01 "_".toList false exSecSchema exSecElem)
    = prS exEnv01 "_".toList false exSecSchema exSecElem := exSec_trip2_identity

/-! ### the TREE may still change on the second trip (the flat output does not) -/

/-- SparseDict{l?: List(prune) of scalars} holding {l: ['']} -/
def exTCSchema : Schema :=
  .dict none false .sparse [.list (some "l".toList) true true 1024 (.leaf none false 0)]
def exTCElem : Elem := .dict [("l".toList, .list [.leaf []])]

/-- trip 1 prunes the list but keeps the member (its key `l_0` was seen), trip 2 drops the member
    that no longer emits anything: `{l: ['']} -> {l: []} -> {}`; both rebuilt trees flatten to `[]` -/
theorem sparse_tree_changes_second :
    prS exEnv01 "_".toList false exTCSchema exTCElem = .dict [("l".toList, .list [])] ∧
    prS exEnv01 "_".toList false exTCSchema (.dict [("l".toList, .list [])]) = .dict [] := by
  constructor <;> (simp only [exTCSchema, exTCElem]; prS_eval)

end Flatland.Flat.Proofs
