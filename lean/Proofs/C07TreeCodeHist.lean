/-
C07 — the LITERAL code rendering of `flatten()` along histories.

`c07_code_histories` composes
  * C08's history invariant (`c08_tree_inv`: well-parented, parentless root, unique identities
    below the counter, unique keys — `TreeOK` — after every history with fresh / detached Element
    arguments),
  * h1's history invariant (`Inv.hrun_dps`: every List names its slots by position and holds
    ListSlots) and `c07_positional_histories`,
  * `flattenCode_eq_flattenTree_of` (Proofs/C07TreeCode.lean),
into: after the construction and after EVERY call of every history, what the code computes —
queue with a `seen` set of identities, every key by walking the STORED parent pointers — is the
positional specification.

Hypotheses inherited from C08's invariant (none of them is about flatten):
  * `swf sc`          the class declares every mapping key once, at every depth (the schema half
                      of `kok`; `Dict.of` enforces it);
  * `HistOK s hs`   = `∀ h ∈ hs, OpArgsWP h.op`  Element arguments are internally well-parented, and
                      `HistFresh s hs`           each call's Element arguments are fresh or detached
                                                  (`ArgsFresh`: identities not in the tree, not twice
                                                  among them, below the allocation counter, `kok`).
    The tree half of `kok` ("a mapping node holds one child per key") is NOT a hypothesis on the
    states reached: it is part of `IdInv`, established by `treeok_init` and preserved
    (`hstep_idinv`); `C10.Proofs.kok_root_clause` derives the same clause independently for the
    root of every state reached by dict-protocol histories.
  * from h1: `∀ h ∈ hs, Inv.OpArgsDP h.op`  Element arguments are deep-positional, slotted trees.

Negation witnesses: what C08 violations do to flatten —
  * `dupId_drops_subtree`: a tree with a duplicated identity, where the `seen` set drops an element
    (and everything below it) that the structural walk emits;
  * `stalePtr_wrong_chain`: one stale parent pointer, where the upward walk names the wrong chain.
-/
import Proofs.C07TreeCode
import Proofs.C08TreeExamples
namespace Flatland.C07Tree.Proofs
open Flatland.Tree Flatland.PyList Flatland.C08 Flatland.C08.Spec Flatland.C08.Proofs Flatland.C07Tree

/-! ### prefixes of a history with fresh arguments -/

theorem histFresh_take : ∀ (hs : List HOp) (s : HState) (k : Nat), HistFresh s hs → HistFresh s (hs.take k)
  | [], _, _, _ => by simp [HistFresh]
  | _ :: _, _, 0, _ => by simp [HistFresh]
  | h :: hs, s, k + 1, hf => by
    simp only [List.take_succ_cons, HistFresh] at hf ⊢
    exact ⟨hf.1, histFresh_take hs (hstep s h) k hf.2⟩

theorem histOK_take {s : HState} {hs : List HOp} (h : HistOK s hs) (k : Nat) : HistOK s (hs.take k) :=
  ⟨fun x hx => h.1 x (List.mem_of_mem_take hx), histFresh_take hs s k h.2⟩

/-- every construction route of the executor starts a history in a `TreeOK` state -/
theorem constructed_treeok {sc : Schema} (hsc : swf sc = true) {s : HState} (h : Constructed sc s) : TreeOK s := by
  cases h with
  | ctor next => exact (treeok_init sc hsc [] next).1
  | ctorValue raw next e n1 h => exact (treeok_init sc hsc [] next).2.1 raw e n1 h
  | set raw next =>
    exact (treeok_init sc hsc [] next).2.2.2.1 ⟨(blank sc none [] next).1, (blank sc none [] next).2⟩ raw none
      (treeok_init sc hsc [] next).1
  | fromDefaults next => exact (treeok_init sc hsc [] next).2.2.1
  | setDefault next =>
    exact (treeok_init sc hsc [] next).2.2.2.2 ⟨(blank sc none [] next).1, (blank sc none [] next).2⟩
      (treeok_init sc hsc [] next).1

/-! ### the history theorems -/

/-- **flattenCode = flattenTree after every step of every history** from a `TreeOK`, slotted
    deep-positional state: the `seen` set never fires and the pointer walk names the chain of
    holders, in the runner's universe `root :: pool`, for every bound ≥ the height of the tree. -/
theorem flattenCode_eq_flattenTree_history (s : HState) (hok : TreeOK s) (hd : Inv.dps s.root = true)
    (hs : List HOp) (hops : ∀ h ∈ hs, Inv.OpArgsDP h.op) (hh : HistOK s hs) (k : Nat) (pool : List Node)
    (fuel : Nat) (hf : height (hrun s (hs.take k)).root ≤ fuel) (sep : Str) :
    flattenCode ((hrun s (hs.take k)).root :: pool) fuel sep (hrun s (hs.take k)).root
      = flattenTree sep (hrun s (hs.take k)).root := by
  have hok' := c08_tree_inv (hs.take k) s hok (histOK_take hh k)
  have hd' := Inv.hrun_dps_prefix hs s hops hd k
  exact flattenCode_eq_flattenTree_of pool fuel sep hok'.wp hok'.rootless hok'.ids.uniq (slotted_of_dps hd') hf

/-- **C07 over histories, for the code as written.**  For every schema of the tree model that
    declares every mapping key once, every construction route, every history of calls on any
    elements of the tree (Element arguments: fresh or detached, internally well-parented,
    deep-positional), every separator, every prefix length `k`, every pool of detached objects and
    every walk bound ≥ the height of the tree: the LITERAL rendering of `Element.flatten` — a queue
    with a `seen` set of identities, each key computed by walking the STORED `.parent` pointers as
    `flattened_name` does — returns the positional specification: every list member on the path of
    every key is named by its CURRENT index. -/
theorem c07_code_histories (sc : Schema) (hsc : swf sc = true) (s : HState) (hc : Constructed sc s) (sep : Str)
    (hs : List HOp) (hops : ∀ h ∈ hs, Inv.OpArgsDP h.op) (hh : HistOK s hs) (k : Nat) (pool : List Node)
    (fuel : Nat) (hf : height (hrun s (hs.take k)).root ≤ fuel) :
    flattenCode ((hrun s (hs.take k)).root :: pool) fuel sep (hrun s (hs.take k)).root
      = specFlatten sep (hrun s (hs.take k)).root := by
  rw [flattenCode_eq_flattenTree_history s (constructed_treeok hsc hc) (constructed_dps hc) hs hops hh k pool fuel hf sep]
  exact c07_positional_histories sc s hc sep hs hops k

/-- … and the flat model's `flatten` of the abstracted tree -/
theorem c07_code_flat_histories (sc : Schema) (hsc : swf sc = true) (s : HState) (hc : Constructed sc s) (sep : Str)
    (hs : List HOp) (hops : ∀ h ∈ hs, Inv.OpArgsDP h.op) (hh : HistOK s hs) (k : Nat) (pool : List Node)
    (fuel : Nat) (hf : height (hrun s (hs.take k)).root ≤ fuel) :
    flattenCode ((hrun s (hs.take k)).root :: pool) fuel sep (hrun s (hs.take k)).root
      = Flatland.Flat.flattenNode sep (toFNode (hrun s (hs.take k)).root) := by
  rw [flattenCode_eq_flattenTree_history s (constructed_treeok hsc hc) (constructed_dps hc) hs hops hh k pool fuel hf sep]
  exact flatten_flat_after_every_step sep hs s hops (constructed_dps hc) k

/-! ### non-vacuity: a List of Dicts (Integer `x`, List `y` of Integers), counter at 1000;
`append(plain)`, `insert(0, <detached Dict element 900/901 with a stale parent pointer>)`,
`reverse()`, item assignment two levels down, `pop(0)` -/

/-- the empty `List.of(Dict.named('d').of(Integer.named('x'), List.named('y').of(Integer)))()` -/
def exC0 : HState := ⟨(blank Flatland.C08.Proofs.exLoD none [] 1000).1, (blank Flatland.C08.Proofs.exLoD none [] 1000).2⟩

def exCHist : List HOp :=
  [⟨1000, .seq (.append (.plain (.dict [(['x'], .int 1), (['y'], .list [.int 2, .int 3])])))⟩,
   ⟨1000, .seq (.insert 0 (.elem Flatland.C08.Proofs.exArg))⟩,
   ⟨1000, .seq .reverse⟩,
   ⟨1000, .seq (.pop (some 0))⟩]

theorem exC0_constructed : Constructed Flatland.C08.Proofs.exLoD exC0 := Constructed.ctor 1000

theorem exCHist_dp : ∀ h ∈ exCHist, Inv.OpArgsDP h.op := by
  intro h hh
  simp only [exCHist, List.mem_cons, List.not_mem_nil, or_false] at hh
  rcases hh with rfl | rfl | rfl | rfl <;> first | trivial | (show Inv.dps _ = true; decide)

theorem exCHist_ok : HistOK exC0 exCHist := by
  refine ⟨?_, ?_⟩
  · intro h hh
    simp only [exCHist, List.mem_cons, List.not_mem_nil, or_false] at hh
    rcases hh with rfl | rfl | rfl | rfl <;> first | trivial | (show wp _ = true; decide)
  · exact ⟨⟨by decide, by decide, by decide⟩, ⟨by decide, by decide, by decide⟩, ⟨by decide, by decide, by decide⟩,
      ⟨by decide, by decide, by decide⟩, trivial⟩

example : swf Flatland.C08.Proofs.exLoD = true := by decide
example : (ids (hrun exC0 (exCHist.take 3)).root).length = 12 := by decide
example : height (hrun exC0 (exCHist.take 3)).root = 5 := by decide

/-- the theorem applies after every step, with the runner's walk bound 64 and any pool -/
example (k : Nat) (pool : List Node) :
    flattenCode ((hrun exC0 (exCHist.take k)).root :: pool) 64 ['_'] (hrun exC0 (exCHist.take k)).root
      = specFlatten ['_'] (hrun exC0 (exCHist.take k)).root := by
  apply c07_code_histories _ (by decide) exC0 exC0_constructed ['_'] exCHist exCHist_dp exCHist_ok k pool 64
  have : k = 0 ∨ k = 1 ∨ k = 2 ∨ k = 3 ∨ 4 ≤ k := by omega
  rcases this with rfl | rfl | rfl | rfl | h
  · decide
  · decide
  · decide
  · decide
  · rw [List.take_of_length_le (by simpa [exCHist] using h)]; decide

end Flatland.C07Tree.Proofs
