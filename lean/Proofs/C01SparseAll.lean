/-
C01 — umbrella module (everything the C01 check audits) and the soundness of the executable
hypothesis test the runner reports (`okSB`, `thm_hyp`).
-/
import Proofs.C01SecondExamples
import Proofs.C01SparseExamples
namespace Flatland.Flat.Proofs
open Flatland.Flat Flatland.Flat.Spec

theorem leavesOf_some : ∀ (ms : List Elem) (l : List Str), leavesOf ms = some l → ms = l.map Elem.leaf
  | [], l, h => by
    simp only [leavesOf, Option.some.injEq] at h
    subst h; rfl
  | .leaf u :: es, l, h => by
    simp only [leavesOf, Option.map_eq_some_iff] at h
    obtain ⟨l', hl', rfl⟩ := h
    rw [leavesOf_some es l' hl']; rfl
  | .dict _ :: _, _, h => by simp [leavesOf] at h
  | .list _ :: _, _, h => by simp [leavesOf] at h
  | .array _ :: _, _, h => by simp [leavesOf] at h
  | .joined _ _ :: _, _, h => by simp [leavesOf] at h

mutual
/-- the runner's `thm_hyp` test is sound: what it accepts conforms (`OkS`) -/
theorem okSB_sound (env : Env) : ∀ (s : Schema) (e : Elem), okSB env s e = true → OkS env s e
  | .leaf n o k, e, h => by
    cases e <;> simp_all [okSB, OkS, OkP]
  | .joined n o k m, e, h => by
    cases e with
    | joined u ms =>
      simp only [okSB, Bool.and_eq_true, Bool.or_eq_true, beq_iff_eq, List.isEmpty_iff] at h
      simp only [OkS, OkP]
      refine ⟨h.1, ?_⟩
      rcases h.2 with h2 | h2
      · exact Or.inl (leavesOf_some ms _ h2)
      · exact Or.inr h2
    | _ => simp [okSB] at h
  | .array n o p m, e, h => by
    cases e with
    | array ms =>
      cases m with
      | leaf cn co k =>
        simp only [okSB, List.all_eq_true] at h
        simp only [OkS, OkP]
        refine ⟨⟨cn, co, k, rfl⟩, ?_⟩
        intro x hx
        have := h x hx
        cases x <;> simp_all [OkP]
      | _ => simp [okSB] at h
    | _ => cases m <;> simp [okSB] at h
  | .dict n o mode fields, e, h => by
    cases e with
    | dict ms =>
      simp only [okSB, Bool.and_eq_true, decide_eq_true_eq, List.all_eq_true] at h
      simp only [OkS]
      exact ⟨h.1, fun p hp => okSAnyB_sound env fields p.1 p.2 (h.2 p hp)⟩
    | _ => simp [okSB] at h
  | .compound n o k fields, e, h => by
    cases e with
    | dict ms =>
      simp only [okSB, Bool.and_eq_true, decide_eq_true_eq, List.all_eq_true] at h
      simp only [OkS]
      exact ⟨h.1, fun p hp => okSAnyB_sound env fields p.1 p.2 (h.2 p hp)⟩
    | _ => simp [okSB] at h
  | .list n o p mx member, e, h => by
    cases e with
    | list ms =>
      simp only [okSB, Bool.and_eq_true, decide_eq_true_eq, List.all_eq_true, List.mem_range] at h
      simp only [OkS]
      exact ⟨h.1.1, h.1.2, fun x hx => okSB_sound env member x (h.2 x hx)⟩
    | _ => simp [okSB] at h
theorem okSAnyB_sound (env : Env) : ∀ (fs : List Schema) (k : Str) (e : Elem),
    okSAnyB env fs k e = true → OkSAny env fs k e
  | [], _, _, h => by simp [okSAnyB] at h
  | f :: fs, k, e, h => by
    simp only [okSAnyB, Bool.or_eq_true, Bool.and_eq_true, beq_iff_eq] at h
    simp only [OkSAny]
    rcases h with h | h
    · exact Or.inl ⟨h.1, okSB_sound env f e h.2⟩
    · exact Or.inr (okSAnyB_sound env fs k e h)
end

/-- **what the runner's flag means**: if the runner reports `thm_hyp` (and the separator is
    `SepSafe`), the model's round trip IS `prS e` -/
theorem roundtrip_sparse_checked (env : Env) (sep : Str) (s : Schema) (e : Elem)
    (hs : SepSafe env sep (Tok s)) (henv : EnvOK env)
    (h : (okSB env s e && wfS s && rootOK s) = true) :
    fromFlat env sep s (flatten env sep s e) = prS env sep false s e := by
  simp only [Bool.and_eq_true] at h
  exact roundtrip_sparse env sep s e hs henv (by rw [← wfS_eq]; exact h.1.2) h.2
    (okSB_sound env s e h.1.1)

end Flatland.Flat.Proofs
