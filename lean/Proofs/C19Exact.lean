/-
C19, round h9 — the resolution theorem WITHOUT `noShadowingAuto`.

`toggle_resolution_exact`: for every history, every option, every stored value, `_pop_toggle` on
the flat-copied frames returns exactly `Spec.codeRule` of (tag option, LAST explicit assignment
among the open levels).  The statement's rule is the corollary under `noShadowingAuto`
(`toggle_resolution_doc`), and `toggle_doc_iff` says precisely where the two differ:
`ShadowingAuto` (KF-C19-a) — an iff, not a hit rate.
-/
import Proofs.C19
namespace Flatland.C19.Proofs
open Flatland.Markup Flatland.C19 Flatland.C19.Spec

/-! ### last explicit assignment = what the innermost mentioning level gives -/

theorem lastAssign_eq_getLast? (log : List (Str × CVal)) (k : Str) :
    lastAssign log k = (log.filterMap (fun kv => if kv.1 = k then some kv.2 else none)).getLast? := by
  induction log with
  | nil => rfl
  | cons p rest ih =>
    obtain ⟨k', v⟩ := p
    simp only [lastAssign, List.filterMap_cons]
    rw [ih]
    by_cases hk : k' = k
    · simp only [hk, if_true, List.getLast?_cons]
      cases (rest.filterMap fun kv => if kv.1 = k then some kv.2 else none).getLast? <;> rfl
    · simp only [hk, if_false]
      cases (rest.filterMap fun kv => if kv.1 = k then some kv.2 else none).getLast? <;> rfl

theorem firstGiven_eq_lastExplicit (h : Hist) (k : Str) : firstGiven h k = lastExplicit h k := by
  induction h with
  | nil => rfl
  | cons lv rest ih =>
    simp only [firstGiven, lastExplicit, assignments, List.reverse_cons, List.flatMap_append,
      List.flatMap_cons, List.flatMap_nil, List.append_nil, List.getLast?_append]
    rw [ih, Level.given, lastAssign_eq_getLast?]
    rfl

/-! ### `_pop_toggle` as a function of the value stored in the top frame -/

theorem popToggle_of_top (T : Tables) (key : Str) (attrs : Attrs) (ctx : Ctx) (b : Bool) (v : CVal)
    (hdef : Dict.get? T.defaultContext key = some (.bool b))
    (hv : Dict.get? ctx.top key = some v) :
    popToggle T key attrs ctx =
      (codeRule T b (T.parseTrool ((Dict.get? attrs key).getD .maybe)) (some v)).map
        (fun d => (Dict.erase attrs key, d)) := by
  unfold popToggle codeRule
  simp only [bind, Except.bind, pure, Except.pure, Ctx.getItem, hv, hdef]
  cases T.parseTrool ((Dict.get? attrs key).getD .maybe) with
  | yes => rfl
  | no => rfl
  | maybe =>
    cases hp : T.parseTroolC v with
    | error e => rfl
    | ok t => cases t <;> rfl

theorem codeRule_default (T : Tables) (b : Bool) (t : Trool) :
    codeRule T b t (some (.bool b)) = codeRule T b t none := by
  cases t <;> cases b <;> rfl

/-- THE EXACT RESOLUTION THEOREM.  After ANY history on a freshly constructed generator, for any of
    the six options, ANY values stored for it, any attribute dict: `_pop_toggle` returns the
    attributes without the option and exactly `codeRule` of the tag-level option and the last
    explicit assignment among the open levels (AttributeError included).  No side condition. -/
theorem toggle_resolution_exact (T : Tables) (R : RenderCfg) (markup : Str) (settings : List (Str × CVal))
    (g0 : Gen) (hinit : Gen.init T markup settings = .ok g0) (ops : List Op)
    (key : Str) (b : Bool) (hdef : optionDefaultOK T key b = true) (attrs : Attrs) :
    popToggle T key attrs (runGen T R g0 ops).ctx =
      (codeRule T b (T.parseTrool ((Dict.get? attrs key).getD .maybe))
        (lastExplicit (runS T R g0 (initHist settings) ops).2 key)).map
        (fun d => (Dict.erase attrs key, d)) := by
  simp only [optionDefaultOK, Bool.and_eq_true, beq_iff_eq] at hdef
  obtain ⟨hd1, hd2⟩ := hdef
  have hm := matches_run T R ops g0 (initHist settings) (init_matches hinit)
  have hbase := base_run T R ops g0 (initHist settings) _
    (by rw [(init_shape hinit).1]; rfl)
  rw [runS_fst] at hm hbase
  generalize hH : (runS T R g0 (initHist settings) ops).2 = H at *
  generalize hG : runGen T R g0 ops = G at *
  obtain ⟨top, base, htop, hlast, hget⟩ := lookup_matches (frames G.ctx) H key hm
  simp only [frames, List.head?_cons, Option.some.injEq] at htop
  subst htop
  have hbase' : base = frameUpdate T.defaultContext T.defaultSettings := by
    have hne : G.ctx.below ≠ [] := by intro e; rw [e] at hbase; simp at hbase
    simp only [frames] at hlast
    rw [getLast?_cons_of_ne_nil _ _ hne, hbase] at hlast
    simp at hlast; exact hlast.symm
  rw [hbase', hd2, firstGiven_eq_lastExplicit] at hget
  cases hl : lastExplicit H key with
  | none =>
    rw [hl] at hget
    simp only [Option.none_or] at hget
    rw [popToggle_of_top T key attrs G.ctx b (.bool b) hd1 hget, codeRule_default]
  | some v =>
    rw [hl] at hget
    simp only [Option.some_or] at hget
    rw [popToggle_of_top T key attrs G.ctx b v hd1 hget]

/-! ### the rule on level readings -/

theorem codeResolve_eq_findSome (b : Bool) (levels : List (Option Trool)) :
    codeResolve b levels =
      (match levels.findSome? id with | some .yes => true | some .no => false | _ => b) := by
  induction levels with
  | nil => rfl
  | cons x rest ih =>
    cases x with
    | none => simpa [codeResolve, List.findSome?_cons] using ih
    | some t => cases t <;> simp [codeResolve, List.findSome?_cons]

theorem codeRuleL_eq (b : Bool) (t : Trool) (levels : List (Option Trool)) :
    codeRuleL b t levels =
      (match t with | .yes => (true, true) | .no => (false, false) | .maybe => (codeResolve b levels, false)) := by
  cases t with
  | yes => rfl
  | no => rfl
  | maybe =>
    simp only [codeRuleL, codeResolve_eq_findSome]
    rcases List.findSome? id levels with _ | (_ | _ | _) <;> rfl

/-- when every stored value is an option value, `codeRule` is the rule on the level readings -/
theorem codeRule_levels (T : Tables) (b : Bool) (t : Trool) (H : Hist) (key : Str)
    (htv : troolValued T H key = true) :
    codeRule T b t (lastExplicit H key) = .ok (codeRuleL b t (levelTrools T H key)) := by
  rw [codeRuleL_eq]
  cases t with
  | yes => rfl
  | no => rfl
  | maybe =>
    have hcr := codeResolve_firstGiven T b H key htv
    rw [firstGiven_eq_lastExplicit] at hcr
    simp only [codeRule]
    cases hl : lastExplicit H key with
    | none => rw [hl] at hcr; simp only at hcr ⊢; rw [hcr]
    | some v =>
      rw [hl] at hcr
      obtain ⟨t', ht'⟩ := firstGiven_readable T H key v htv (by rw [firstGiven_eq_lastExplicit]; exact hl)
      simp only [readTrool, ht'] at hcr
      simp only [ht', hcr]
      cases t' <;> rfl

/-- the exact theorem on level readings: under `troolValued` only (no `noShadowingAuto`) -/
theorem toggle_resolution_code (T : Tables) (R : RenderCfg) (markup : Str) (settings : List (Str × CVal))
    (g0 : Gen) (hinit : Gen.init T markup settings = .ok g0) (ops : List Op)
    (key : Str) (b : Bool) (hdef : optionDefaultOK T key b = true) (attrs : Attrs)
    (htv : troolValued T (runS T R g0 (initHist settings) ops).2 key = true) :
    popToggle T key attrs (runGen T R g0 ops).ctx =
      .ok (Dict.erase attrs key,
           codeRuleL b (T.parseTrool ((Dict.get? attrs key).getD .maybe))
             (levelTrools T (runS T R g0 (initHist settings) ops).2 key)) := by
  rw [toggle_resolution_exact T R markup settings g0 hinit ops key b hdef attrs, codeRule_levels T b _ _ key htv]
  rfl

/-! ### code rule vs documented rule: exactly `ShadowingAuto` -/

theorem noShadowingAuto_false_iff (b : Bool) (levels : List (Option Trool)) :
    noShadowingAuto b levels = false ↔ ShadowingAuto b levels := by
  induction levels with
  | nil =>
    simp only [noShadowingAuto, Bool.true_eq_false, false_iff]
    rintro ⟨pre, post, c, h, _⟩
    cases pre <;> simp at h
  | cons x rest ih =>
    cases x with
    | none =>
      simp only [noShadowingAuto]
      rw [ih]
      constructor
      · rintro ⟨pre, post, c, h, hp, hf, hc⟩
        exact ⟨none :: pre, post, c, by rw [h]; rfl, by
          intro y hy; simp only [List.mem_cons] at hy; rcases hy with rfl | hy; rfl; exact hp y hy, hf, hc⟩
      · rintro ⟨pre, post, c, h, hp, hf, hc⟩
        cases pre with
        | nil => simp at h
        | cons p pre' =>
          simp only [List.cons_append, List.cons.injEq] at h
          exact ⟨pre', post, c, h.2, fun y hy => hp y (List.mem_cons_of_mem _ hy), hf, hc⟩
    | some t =>
      cases t with
      | yes =>
        simp only [noShadowingAuto, Bool.true_eq_false, false_iff]
        rintro ⟨pre, post, c, h, hp, _⟩
        cases pre with
        | nil => simp at h
        | cons p pre' =>
          simp only [List.cons_append, List.cons.injEq] at h
          have := hp p (List.mem_cons_self ..); rw [← h.1] at this; simp at this
      | no =>
        simp only [noShadowingAuto, Bool.true_eq_false, false_iff]
        rintro ⟨pre, post, c, h, hp, _⟩
        cases pre with
        | nil => simp at h
        | cons p pre' =>
          simp only [List.cons_append, List.cons.injEq] at h
          have := hp p (List.mem_cons_self ..); rw [← h.1] at this; simp at this
      | maybe =>
        simp only [noShadowingAuto, Bool.or_eq_false_iff, beq_eq_false_iff_ne, ne_eq]
        constructor
        · rintro ⟨h1, h2⟩
          cases hf : firstOnOff rest with
          | none => exact absurd hf h1
          | some c => exact ⟨[], rest, c, rfl, by simp, hf, by intro e; apply h2; rw [hf, e]⟩
        · rintro ⟨pre, post, c, h, hp, hf, hc⟩
          cases pre with
          | nil =>
            simp only [List.nil_append, List.cons.injEq, true_and] at h
            subst h
            rw [hf]
            exact ⟨by simp, by simpa using hc⟩
          | cons p pre' =>
            simp only [List.cons_append, List.cons.injEq] at h
            have := hp p (List.mem_cons_self ..); rw [← h.1] at this; simp at this

/-- CODE = STATEMENT, EXACTLY WHERE: on the level readings the rule the code follows and the
    four-level rule of the statement give different answers iff the tag itself does not decide and
    `ShadowingAuto` holds — an inner `auto` above an outer on/off that differs from the default -/
theorem code_ne_doc_iff (b : Bool) (t : Trool) (levels : List (Option Trool)) :
    codeRuleL b t levels ≠ resolve b t levels ↔ t = .maybe ∧ ShadowingAuto b levels := by
  rw [codeRuleL_eq, ← noShadowingAuto_false_iff]
  cases t with
  | yes => simp [resolve]
  | no => simp [resolve]
  | maybe =>
    simp only [resolve, ne_eq, Prod.mk.injEq, and_true, true_and]
    constructor
    · intro hne
      cases hns : noShadowingAuto b levels with
      | false => rfl
      | true => exact absurd (codeResolve_eq_rule b levels hns) hne
    · intro hns
      exact codeResolve_ne_rule b levels hns

/-- the iff at the level of `_pop_toggle`: after any history with option-valued settings, the code
    returns the decision of the STATEMENT'S rule iff not (tag silent ∧ ShadowingAuto) -/
theorem toggle_doc_iff (T : Tables) (R : RenderCfg) (markup : Str) (settings : List (Str × CVal))
    (g0 : Gen) (hinit : Gen.init T markup settings = .ok g0) (ops : List Op)
    (key : Str) (b : Bool) (hdef : optionDefaultOK T key b = true) (attrs : Attrs)
    (htv : troolValued T (runS T R g0 (initHist settings) ops).2 key = true) :
    popToggle T key attrs (runGen T R g0 ops).ctx =
      .ok (Dict.erase attrs key,
           resolve b (T.parseTrool ((Dict.get? attrs key).getD .maybe))
             (levelTrools T (runS T R g0 (initHist settings) ops).2 key))
    ↔ ¬ (T.parseTrool ((Dict.get? attrs key).getD .maybe) = .maybe ∧
         ShadowingAuto b (levelTrools T (runS T R g0 (initHist settings) ops).2 key)) := by
  rw [toggle_resolution_code T R markup settings g0 hinit ops key b hdef attrs htv, ← code_ne_doc_iff]
  simp only [Except.ok.injEq, Prod.mk.injEq, true_and, ne_eq, Decidable.not_not]

/-- the statement's rule as a COROLLARY of the exact theorem (this is `toggle_resolution`) -/
theorem toggle_resolution_doc (T : Tables) (R : RenderCfg) (markup : Str) (settings : List (Str × CVal))
    (g0 : Gen) (hinit : Gen.init T markup settings = .ok g0) (ops : List Op)
    (key : Str) (b : Bool) (hdef : optionDefaultOK T key b = true) (attrs : Attrs)
    (htv : troolValued T (runS T R g0 (initHist settings) ops).2 key = true)
    (hns : noShadowingAuto b (levelTrools T (runS T R g0 (initHist settings) ops).2 key) = true) :
    popToggle T key attrs (runGen T R g0 ops).ctx =
      .ok (Dict.erase attrs key,
           resolve b (T.parseTrool ((Dict.get? attrs key).getD .maybe))
             (levelTrools T (runS T R g0 (initHist settings) ops).2 key)) := by
  rw [toggle_doc_iff T R markup settings g0 hinit ops key b hdef attrs htv]
  rintro ⟨_, hs⟩
  rw [← noShadowingAuto_false_iff, hns] at hs
  exact absurd hs (by simp)

/-! ### KF-C19-a as an INSTANCE of the difference -/

/-- the documented witness is a shadowing history: `[auto, off]` with built-in default on -/
theorem kf_shadowing : ShadowingAuto true (levelTrools Tables.current
    (runS Tables.current RenderCfg.current kfGen (initHist kfSettings) kfOps).2 "auto_name".toList) :=
  ⟨[], [some .no], false, by decide, by simp, by decide, by decide⟩

/-- `C19_full_fails` re-derived from the iff (no evaluation of the model on the witness) -/
theorem C19_full_fails_of_iff : ¬ C19_Full := by
  intro hfull
  have h := hfull "xhtml".toList kfSettings kfGen kfGen_init kfOps "auto_name".toList true (by decide) []
    (by decide)
  rw [toggle_doc_iff Tables.current RenderCfg.current "xhtml".toList kfSettings kfGen kfGen_init kfOps
    "auto_name".toList true (by decide) [] (by decide)] at h
  exact h ⟨by decide, kf_shadowing⟩

/-! ### non-vacuity -/

/-- an int stored for an option: the exact rule says AttributeError … -/
example : codeRule Tables.current true .maybe (some (.int 5)) = .error .attributeError := by decide
/-- … unless the tag decides by itself -/
example : codeRule Tables.current true .no (some (.int 5)) = .ok (false, false) := by decide
/-- last explicit assignment: generator `off`, block `on`, then `set(auto)` in the block → default -/
example : lastExplicit [⟨[("k".toList, .bool true), ("k".toList, .maybe)]⟩, ⟨[("k".toList, .bool false)]⟩] "k".toList
    = some .maybe := by decide
example : assignments [⟨[("k".toList, .bool true), ("k".toList, .maybe)]⟩, ⟨[("k".toList, .bool false)]⟩] "k".toList
    = [.bool false, .bool true, .maybe] := by decide
example : codeRuleL true .maybe [some .maybe, some .no] = (true, false) := by decide
example : resolve true .maybe [some .maybe, some .no] = (false, false) := by decide
/-- an inner auto above an outer on/off that EQUALS the default is not a difference -/
example : ¬ ShadowingAuto true [some .maybe, some .yes] := by
  rw [← noShadowingAuto_false_iff]; decide

end Flatland.C19.Proofs
