/-
C08 — "an element removed from a container is no longer reachable".

Stated as the Python oracle checks it, without naming the call: a child of the target container
before the call that is not a child of it afterwards occurs nowhere in the tree afterwards
(`removed_unreachable`), for every call of the model, raising or not.  `pop`, `del`, `remove`,
slice deletion, `clear`, replacement by item / slice assignment, `set` rebuilding the members,
`*= 0` are instances.

Technique: every new underlying item of the container is either an old item (same identity;
what is below it comes from below the old one, from arguments or is freshly allocated) or
consists of argument / fresh identities only (`Orig1`; `Orig2` the same one level deeper, for the
slots of a List).  With unique identities an old child's identity can then only sit where a
child sits.
-/
import Proofs.C08IdsStep
import Proofs.C08Bfs
namespace Flatland.C08.Proofs
open Flatland.Tree Flatland.PyList Flatland.C08 Flatland.C08.Spec
open Flatland.C10.Proofs (findKid_some findKid_none fieldFor_some hdr_parts hdr_eq_parts)

/-- where a new item comes from; `B a` bounds the occurrences of `a` that are not inherited
    (argument identities and freshly allocated ones) -/
def Orig1 (B : Nat → Nat) (old : List Node) (k' : Node) : Prop :=
  (∃ k ∈ old, k'.id = k.id ∧ ∀ a, cntL a k'.kids ≤ cntL a k.kids + B a) ∨ (∀ a, cnt a k' ≤ B a)

def Orig2 (B : Nat → Nat) (old : List Node) (k' : Node) : Prop :=
  (∃ k ∈ old, k'.id = k.id ∧ ∀ e' ∈ k'.kids, Orig1 B k.kids e') ∨ (∀ a, cnt a k' ≤ B a)

def KO (B : Nat → Nat) (old ks : List Node) : Prop := ∀ k' ∈ ks, Orig1 B old k' ∧ Orig2 B old k'

theorem orig1_self (B : Nat → Nat) {old : List Node} {k : Node} (h : k ∈ old) : Orig1 B old k :=
  .inl ⟨k, h, rfl, fun a => Nat.le_add_right _ _⟩

theorem orig2_self (B : Nat → Nat) {old : List Node} {k : Node} (h : k ∈ old) : Orig2 B old k :=
  .inl ⟨k, h, rfl, fun _ he => orig1_self B he⟩

theorem KO.self (B : Nat → Nat) (old : List Node) : KO B old old :=
  fun _ h => ⟨orig1_self B h, orig2_self B h⟩

theorem KO.sub {B : Nat → Nat} {old ks ks' : List Node} (h : KO B old ks) (hs : ∀ x ∈ ks', x ∈ ks) : KO B old ks' :=
  fun x hx => h x (hs x hx)

theorem ko_fresh {B : Nat → Nat} {old : List Node} {k' : Node} (h : ∀ a, cnt a k' ≤ B a) :
    Orig1 B old k' ∧ Orig2 B old k' := ⟨.inr h, .inr h⟩

theorem id_withKey (x : Node) (k : Str) : (x.withKey k).id = x.id := by cases x; rfl
theorem kids_withKey (x : Node) (k : Str) : (x.withKey k).kids = x.kids := by cases x; rfl
theorem id_withParent (x : Node) (p : Option Nat) : (x.withParent p).id = x.id := by cases x; rfl
theorem kids_withParent (x : Node) (p : Option Nat) : (x.withParent p).kids = x.kids := by cases x; rfl

theorem orig_withKey {B : Nat → Nat} {old : List Node} {x : Node} (h : Orig1 B old x ∧ Orig2 B old x) (k : Str) :
    Orig1 B old (x.withKey k) ∧ Orig2 B old (x.withKey k) := by
  unfold Orig1 Orig2 at *
  simp only [id_withKey, kids_withKey, cnt_withKey]
  exact h

theorem KO.renumberFrom {B : Nat → Nat} {old : List Node} (k : Nat) (ks : List Node) (h : KO B old ks) :
    KO B old (Flatland.Tree.renumberFrom k ks) := by
  induction ks generalizing k with
  | nil => intro x hx; cases hx
  | cons y ys ih =>
    intro x hx
    simp only [Flatland.Tree.renumberFrom, List.mem_cons] at hx
    rcases hx with hx | hx
    · rw [hx]; exact orig_withKey (h y (by simp)) _
    · exact ih (k + 1) (fun z hz => h z (by simp [hz])) x hx

theorem KO.finish {B : Nat → Nat} {old ks : List Node} (c : Prop) [Decidable c] (h : KO B old ks) :
    KO B old (if c then renumber ks else ks) := by
  split
  · exact KO.renumberFrom 0 ks h
  · exact h

theorem Orig1.mono {B B' : Nat → Nat} (hB : ∀ a, B a ≤ B' a) {old : List Node} {k' : Node} (h : Orig1 B old k') :
    Orig1 B' old k' := by
  rcases h with ⟨k, hk, hid, hc⟩ | h
  · exact .inl ⟨k, hk, hid, fun a => Nat.le_trans (hc a) (Nat.add_le_add_left (hB a) _)⟩
  · exact .inr (fun a => Nat.le_trans (h a) (hB a))

theorem Orig2.mono {B B' : Nat → Nat} (hB : ∀ a, B a ≤ B' a) {old : List Node} {k' : Node} (h : Orig2 B old k') :
    Orig2 B' old k' := by
  rcases h with ⟨k, hk, hid, hc⟩ | h
  · exact .inl ⟨k, hk, hid, fun e he => (hc e he).mono hB⟩
  · exact .inr (fun a => Nat.le_trans (h a) (hB a))

theorem KO.mono {B B' : Nat → Nat} (hB : ∀ a, B a ≤ B' a) {old ks : List Node} (h : KO B old ks) : KO B' old ks :=
  fun x hx => ⟨(h x hx).1.mono hB, (h x hx).2.mono hB⟩

/-! ### from origins to "removed ⇒ gone" -/

theorem wsum_two_le {α : Type} (w : α → Nat) {l : List α} {x y : α} (hx : x ∈ l) (hy : y ∈ l) (hne : x ≠ y) :
    w x + w y ≤ wsum w l := by
  induction l with
  | nil => cases hx
  | cons z zs ih =>
    simp only [wsum]
    rcases List.mem_cons.mp hx with rfl | hx' <;> rcases List.mem_cons.mp hy with rfl | hy'
    · exact absurd rfl hne
    · have := wsum_mem_le w hy'; omega
    · have := wsum_mem_le w hx'; omega
    · have := ih hx' hy'; omega

theorem wsum_pos_mem {α : Type} (w : α → Nat) {l : List α} (h : 0 < wsum w l) : ∃ x ∈ l, 0 < w x := by
  induction l with
  | nil => simp [wsum] at h
  | cons z zs ih =>
    simp only [wsum] at h
    by_cases hz : 0 < w z
    · exact ⟨z, by simp, hz⟩
    · obtain ⟨x, hx, hw⟩ := ih (by omega)
      exact ⟨x, by simp [hx], hw⟩

/-- among members of a list with distinct identities, an identity picks its member -/
theorem member_unique {l : List Node} {a : Nat} (hl : cntL a l ≤ 1) {x y : Node} (hx : x ∈ l) (hy : y ∈ l)
    (hax : 0 < cnt a x) (hay : 0 < cnt a y) : x = y := by
  by_cases h : x = y
  · exact h
  · have := wsum_two_le (cnt a) hx hy h
    rw [cntL_eq_wsum] at hl; omega

theorem cnt_self_pos (c : Node) : 0 < cnt c.id c := by rw [cnt_eq, own_self]; omega

theorem removed_nonlist {n n' : Node} {B : Nat → Nat} (hnd : (ids n).Nodup) (hB : ∀ a ∈ ids n, B a = 0)
    (hid : n'.id = n.id) (hO : ∀ k' ∈ n'.kids, Orig1 B n.kids k') :
    ∀ c ∈ n.kids, c.id ∈ ids n' → c.id ∈ n'.kids.map Node.id := by
  intro c hc hin
  have h1 := cnt_le_of_nodup hnd c.id
  have hcc := cnt_self_pos c
  have hck := cnt_le_cntL (a := c.id) hc
  rw [cnt_eq] at h1
  have hB0 : B c.id = 0 := hB c.id ((mem_ids_iff _ _).mpr (by rw [cnt_eq]; omega))
  have hin' := (mem_ids_iff _ _).mp hin
  rw [cnt_eq, hid] at hin'
  obtain ⟨k', hk', hpos⟩ := wsum_pos_mem (cnt c.id) (l := n'.kids) (by rw [← cntL_eq_wsum]; omega)
  rcases hO k' hk' with ⟨k, hk, hkid, hcl⟩ | hfresh
  · by_cases hown : k.id = c.id
    · exact List.mem_map.mpr ⟨k', hk', by rw [hkid, hown]⟩
    · exfalso
      have h2 := hcl c.id
      rw [cnt_eq, hkid] at hpos
      have : own c.id k.id = 0 := by unfold own; simp [hown]
      have hkpos : 0 < cnt c.id k := by rw [cnt_eq]; omega
      have := member_unique (a := c.id) (by omega) hk hc hkpos hcc
      exact hown (by rw [this])
  · have := hfresh c.id; omega

theorem removed_list {n n' : Node} {B : Nat → Nat} (hnd : (ids n).Nodup) (hB : ∀ a ∈ ids n, B a = 0)
    (hid : n'.id = n.id) (hO : ∀ k' ∈ n'.kids, Orig2 B n.kids k') :
    ∀ σ ∈ n.kids, ∀ c ∈ σ.kids, c.id ∈ ids n' → c.id ∈ (n'.kids.flatMap Node.kids).map Node.id := by
  intro σ hσ c hc hin
  have h1 := cnt_le_of_nodup hnd c.id
  have hcc := cnt_self_pos c
  have hcσ := cnt_le_cntL (a := c.id) hc
  have hσn := cnt_le_cntL (a := c.id) hσ
  rw [cnt_eq] at h1
  have hσeq := cnt_eq c.id σ
  have hB0 : B c.id = 0 := hB c.id ((mem_ids_iff _ _).mpr (by rw [cnt_eq]; omega))
  have hin' := (mem_ids_iff _ _).mp hin
  rw [cnt_eq, hid] at hin'
  obtain ⟨σ', hσ', hpos⟩ := wsum_pos_mem (cnt c.id) (l := n'.kids) (by rw [← cntL_eq_wsum]; omega)
  rcases hO σ' hσ' with ⟨σ₂, hσ₂, hsid, hel⟩ | hfresh
  · -- the slot is an old slot; it is the slot of `c`
    have hown2 : own c.id σ₂.id = 0 := by
      by_cases h : σ₂.id = c.id
      · exfalso
        have hp2 : 0 < cnt c.id σ₂ := by rw [cnt_eq, h, own_self]; omega
        have := member_unique (a := c.id) (by omega) hσ₂ hσ hp2 (by omega)
        rw [this] at h
        rw [h, own_self] at hσeq; omega
      · unfold own; simp [h]
    rw [cnt_eq, hsid, hown2] at hpos
    obtain ⟨e', he', hepos⟩ := wsum_pos_mem (cnt c.id) (l := σ'.kids) (by rw [← cntL_eq_wsum]; omega)
    rcases hel e' he' with ⟨e, he, heid, hcl⟩ | hfresh
    · by_cases hown : e.id = c.id
      · exact List.mem_map.mpr ⟨e', List.mem_flatMap.mpr ⟨σ', hσ', he'⟩, by rw [heid, hown]⟩
      · exfalso
        have h2 := hcl c.id
        rw [cnt_eq, heid] at hepos
        have : own c.id e.id = 0 := by unfold own; simp [hown]
        have hepos' : 0 < cnt c.id e := by rw [cnt_eq]; omega
        have he2 := cnt_le_cntL (a := c.id) he
        have hσ2eq := cnt_eq c.id σ₂
        have hs : σ₂ = σ := member_unique (a := c.id) (by omega) hσ₂ hσ (by omega) (by omega)
        subst hs
        have := member_unique (a := c.id) (by omega) he hc hepos' hcc
        exact hown (by rw [this])
    · have := hfresh c.id; omega
  · have := hfresh c.id; omega

/-! ### what the element-level mutators do to the children they find -/

theorem isSeq_not_map {k : SKind} (h : IsSeq k) : isMap k = false := by
  rcases h with h | h | h <;> rw [h] <;> rfl

/-- `Sequence.set` starts with `del self[:]`: what was there plays no part -/
theorem setNode_seq_forget (i : NInfo) (s : Schema) (kids : List Node) (h : IsSeq s.kind) (raw : Raw)
    (pol : Option Policy) (next : Nat) :
    setNode (.mk i s kids) raw pol next = setNode (.mk i s []) raw pol next := by
  unfold setNode
  rcases h with h | h | h <;> simp only [h]

theorem setDefault_seq_forget (i : NInfo) (s : Schema) (kids : List Node) (h : IsSeq s.kind) (next : Nat) :
    ((setDefault (.mk i s kids) next).node.kids = kids) ∨
      setDefault (.mk i s kids) next = setDefault (.mk i s []) next := by
  unfold setDefault
  rcases h with h | h | h <;> simp only [h]
  · split
    · exact .inl rfl
    · split
      · exact .inr rfl
      · exact .inl rfl
    · exact .inr (setNode_seq_forget i s kids (.inl h) _ _ _)
  · split
    · exact .inl rfl
    · split
      · exact .inr rfl
      · exact .inl rfl
    · exact .inl rfl
  · split
    · exact .inl rfl
    · split
      · exact .inr rfl
      · exact .inl rfl
    · exact .inl rfl

theorem setNode_map_forget (i : NInfo) (s : Schema) (kids : List Node) (h : s.kind = .dict ∨ s.kind = .sparse) (raw : Raw) (pol : Option Policy) (next : Nat) :
    ((setNode (.mk i s kids) raw pol next).node.kids = kids ∧ (setNode (.mk i s kids) raw pol next).next = next) ∨
      setNode (.mk i s kids) raw pol next = setNode (.mk i s []) raw pol next := by
  unfold setNode
  rcases h with h | h <;> simp only [h]
  all_goals
    cases raw with
    | none => exact .inl ⟨rfl, rfl⟩
    | int v => exact .inl ⟨rfl, rfl⟩
    | str v => cases v with
      | nil => exact .inr rfl
      | cons c cs => exact .inl ⟨rfl, rfl⟩
    | list xs => cases xs with
      | nil => exact .inr rfl
      | cons c cs => exact .inl ⟨rfl, rfl⟩
    | dict kvs => exact .inr rfl
    | pairs kvs => exact .inr rfl

theorem setDefault_map_forget (i : NInfo) (s : Schema) (kids : List Node) (h : s.kind = .dict ∨ s.kind = .sparse) (next : Nat) :
    ((setDefault (.mk i s kids) next).node.kids = kids ∧ (setDefault (.mk i s kids) next).next = next) ∨
      setDefault (.mk i s kids) next = setDefault (.mk i s []) next ∨
      ((setDefault (.mk i s kids) next).node.kids = (setDefaultKids kids next).1 ∧
        (setDefault (.mk i s kids) next).next = (setDefaultKids kids next).2.1) := by
  unfold setDefault
  rcases h with h | h <;> simp only [h]
  · split
    · exact .inr (.inr ⟨rfl, rfl⟩)
    · rcases setNode_map_forget i s kids (.inl h) s.dflt none next with h1 | h1
      · exact .inl h1
      · exact .inr (.inl h1)
  · split
    · split
      · exact .inr (.inl rfl)
      · exact .inr (.inl rfl)
    · rcases setNode_map_forget i s kids (.inr h) s.dflt none next with h1 | h1
      · exact .inl h1
      · exact .inr (.inl h1)

/-- everything below a node rebuilt from nothing is freshly allocated -/
theorem kids_fresh_of_ls {i : NInfo} {s : Schema} {r : Node} {lo hi : Nat} (hid : r.id = i.id)
    (h : LS lo [.mk i s []] hi [r]) : ∀ a, cntL a r.kids ≤ ind lo hi a := by
  intro a
  have := h.hcnt a
  simp only [cntL_singleton, cnt_mk, cntL_nil] at this
  rw [cnt_eq, hid] at this; omega

theorem setNode_seq_forget' (n : Node) (h : IsSeq n.kind) (raw : Raw) (pol : Option Policy) (next : Nat) :
    setNode n raw pol next = setNode (n.withKids []) raw pol next := by
  cases n with
  | mk i s kids => exact setNode_seq_forget i s kids h raw pol next

theorem setDefault_seq_forget' (n : Node) (h : IsSeq n.kind) (next : Nat) :
    ((setDefault n next).node.kids = n.kids) ∨ setDefault n next = setDefault (n.withKids []) next := by
  cases n with
  | mk i s kids => exact setDefault_seq_forget i s kids h next

theorem kok_withKids_nil {n : Node} (hk : kok n = true) : kok (n.withKids []) = true := by
  cases n with
  | mk i s kids =>
    rw [Node.withKids, kok_iff]
    exact ⟨(kok_swf hk :), fun _ => by simp [Node.kids], fun k hk' => by cases hk'⟩

theorem kids_fresh_of_ls' {n r : Node} {lo hi : Nat} (hid : r.id = (n.withKids []).id)
    (h : LS lo [n.withKids []] hi [r]) : ∀ a, cntL a r.kids ≤ ind lo hi a := by
  cases n with
  | mk i s kids => exact kids_fresh_of_ls (i := i) (s := s) hid h

theorem ko_of_cntL_le {B : Nat → Nat} {old ks : List Node} (h : ∀ a, cntL a ks ≤ B a) : KO B old ks :=
  fun x hx => ko_fresh (fun a => Nat.le_trans (cnt_le_cntL hx) (h a))

theorem KO.append {B : Nat → Nat} {old ks ks' : List Node} (h : KO B old ks) (h' : KO B old ks') : KO B old (ks ++ ks') := by
  intro x hx
  rcases List.mem_append.mp hx with h1 | h1
  · exact h x h1
  · exact h' x h1

/-- a call that only appends: what it appended is argument or fresh -/
theorem ko_of_prefix {n r : Node} {extra args : List Node} {lo hi : Nat} (hk : r.kids = n.kids ++ extra)
    (hid : r.id = n.id) (h : LS lo (n :: args) hi [r]) :
    KO (fun a => cntL a args + ind lo hi a) n.kids r.kids := by
  rw [hk]
  refine (KO.self _ _).append (ko_of_cntL_le (fun a => ?_))
  have := h.hcnt a
  simp only [cntL_cons, cntL_nil] at this
  rw [cnt_eq, cnt_eq, hk, hid, cntL_append] at this; omega

theorem appendEl_prefix (n w : Node) (next : Nat) : ∃ extra, (appendEl n w next).1.kids = n.kids ++ extra := by
  unfold appendEl; split
  · exact ⟨_, kids_withKids' _ _⟩
  · exact ⟨_, kids_withKids' _ _⟩

theorem extendArgs_prefix (m : Schema) (as : List Arg) : ∀ (n : Node) (next : Nat),
    ∃ extra, (extendArgs m n as next).1.kids = n.kids ++ extra := by
  induction as with
  | nil => intro n next; exact ⟨[], by rw [extendArgs]; simp⟩
  | cons a as ih =>
    intro n next
    rw [extendArgs]
    split
    · exact ⟨[], by simp⟩
    · rename_i w n1 _
      obtain ⟨e1, h1⟩ := appendEl_prefix n w n1
      obtain ⟨e2, h2⟩ := ih (appendEl n w n1).1 (appendEl n w n1).2
      exact ⟨e1 ++ e2, by rw [h2, h1, List.append_assoc]⟩

theorem imulLoop_prefix (m : Schema) (vals : List Arg) (k : Nat) : ∀ (n : Node) (next : Nat),
    ∃ extra, (imulLoop m vals k n next).1.kids = n.kids ++ extra := by
  induction k with
  | zero => intro n next; exact ⟨[], by rw [imulLoop]; simp⟩
  | succ k ih =>
    intro n next
    obtain ⟨e1, h1⟩ := extendArgs_prefix m vals n next
    rw [imulLoop]
    split
    · rename_i hx; rw [hx] at h1; exact ⟨e1, h1⟩
    · rename_i n' nx hx
      rw [hx] at h1
      obtain ⟨e2, h2⟩ := ih n' nx
      exact ⟨e1 ++ e2, by rw [h2, h1, List.append_assoc]⟩

theorem id_of_hdr {a b : Node} (h : a.hdr = b.hdr) : a.id = b.id := (hdr_parts h).1

theorem fresh_bound {lo hi : Nat} {args xs : List Node} (h : LS lo args hi xs) :
    ∀ x ∈ xs, ∀ a, cnt a x ≤ cntL a args + ind lo hi a :=
  fun x hx a => Nat.le_trans (cnt_le_cntL hx) (h.hcnt a)

/-- the result of a call as the origin statement sees it -/
def KOr (n : Node) (args : List Node) (next : Nat) (r : StepR) : Prop :=
  KO (fun a => cntL a args + ind next r.next a) n.kids r.node.kids

theorem kor_self (n : Node) (args : List Node) (next n1 : Nat) (out : Out) (d : List Node) :
    KOr n args next ⟨n, n1, out, d⟩ := KO.self _ _

theorem kor_exc (n : Node) (args : List Node) (next n1 : Nat) (e : Exc) : KOr n args next (excOut n n1 e) := KO.self _ _

theorem id_withKids' (x : Node) (ks : List Node) : (x.withKids ks).id = x.id := by cases x; rfl

/-- a slot whose one element is replaced -/
theorem ko_set_slot {B : Nat → Nat} {l : List Node} {k : Nat} {slot x : Node} (hl : l[k]? = some slot)
    (hO : Orig1 B slot.kids x) (hx : ∀ a, cnt a x ≤ cntL a slot.kids + B a) :
    KO B l (l.set k (slot.withKids [x])) := by
  have hsm : slot ∈ l := List.mem_of_getElem? hl
  intro z hz
  rcases List.mem_or_eq_of_mem_set hz with h1 | h1
  · exact ⟨orig1_self B h1, orig2_self B h1⟩
  · rw [h1]
    refine ⟨.inl ⟨slot, hsm, id_withKids' _ _, fun a => ?_⟩, .inl ⟨slot, hsm, id_withKids' _ _, ?_⟩⟩
    · rw [kids_withKids', cntL_singleton]; exact hx a
    · intro e' he'
      rw [kids_withKids'] at he'
      simp only [List.mem_singleton] at he'
      rw [he']; exact hO

theorem ko_of_mem {B : Nat → Nat} {old ks : List Node}
    (h : ∀ x ∈ ks, x ∈ old ∨ ∀ a, cnt a x ≤ B a) : KO B old ks := by
  intro x hx
  rcases h x hx with h1 | h1
  · exact ⟨orig1_self B h1, orig2_self B h1⟩
  · exact ko_fresh h1

theorem ko_nil (B : Nat → Nat) (old : List Node) : KO B old [] := fun x hx => by cases hx

/-- **origins, sequences, every call.** -/
theorem seqStep_ko (n : Node) (hk : kok n = true) (hseq : IsSeq n.kind) (op : SeqOp)
    (hop : kokL (placedSeq op) = true) (next : Nat) :
    KOr n (placedSeq op) next (seqStep n op next) := by
  have hmap : isMap n.kind = false := isSeq_not_map hseq
  have hkids : kokL n.kids = true := kokL_of_kok hk
  have hkid : ∀ x ∈ n.kids, kok x = true := (kokL_iff _).mp hkids
  have hs : swf n.sch = true := kok_swf hk
  have hsub : ∀ (B : Nat → Nat) (ks : List Node), (∀ x ∈ ks, x ∈ n.kids) →
      KO B n.kids (if n.kind = .list then renumber ks else ks) :=
    fun B ks hmem => KO.finish _ ((KO.self B n.kids).sub hmem)
  unfold seqStep
  split
  · exact kor_exc _ _ _ _ _
  · rename_i m hm
    have hsm : swf m = true := swf_member hs hm
    cases op with
    | append a =>
      dsimp only
      split
      · exact kor_exc _ _ _ _ _
      · rename_i w n1 h
        have h1 := wrap_ok_ls hsm hop h
        have hL := (LS.frame hk h1).trans (appendEl_ls n w n1 hk hmap (kok_single.mp h1.hkok))
        obtain ⟨extra, hpre⟩ := appendEl_prefix n w n1
        exact ko_of_prefix hpre (id_of_hdr (appendEl_hdr n w n1)) hL
    | extend as =>
      have hL := extendArgs_ls hsm as n next hk hmap hop
      obtain ⟨extra, hpre⟩ := extendArgs_prefix m as n next
      have := ko_of_prefix hpre (id_of_hdr (extendArgs_hdr m n as next)) hL
      dsimp only; split <;> exact this
    | iadd as =>
      have hL := extendArgs_ls hsm as n next hk hmap hop
      obtain ⟨extra, hpre⟩ := extendArgs_prefix m as n next
      have := ko_of_prefix hpre (id_of_hdr (extendArgs_hdr m n as next)) hL
      dsimp only; split <;> exact this
    | insert i a =>
      dsimp only
      split
      · exact kor_exc _ _ _ _ _
      · rename_i w n1 h
        have h1 := wrap_ok_ls hsm hop h
        have hw := kok_single.mp h1.hkok
        split
        · have h2 := h1.trans (mkSlot_ls n1 n.id n.kids.length hw)
          refine KO.renumberFrom 0 _ (ko_of_mem (fun x hx => ?_))
          rcases mem_insertAt hx with h3 | h3
          · exact .inl h3
          · rw [h3]; exact .inr (fresh_bound h2 _ (by simp))
        · refine ko_of_mem (fun x hx => ?_)
          rcases mem_insertAt hx with h3 | h3
          · exact .inl h3
          · rw [h3]; exact .inr (fresh_bound (h1.withParent_new (some n.id)) _ (by simp))
    | setitem i a =>
      dsimp only
      split
      · cases a with
        | elem e =>
          dsimp only
          split
          · exact kor_exc _ _ _ _ _
          · rename_i slot hg
            split
            · exact kor_exc _ _ _ _ _
            · rename_i k hnk
              have hb : ∀ a, cnt a (e.withParent (some slot.id)) ≤ cntL a (placedSeq (.setitem i (.elem e))) + ind next next a := by
                intro a; simp [placedSeq, argElems, cnt_withParent, cntL_singleton]
              exact ko_set_slot (getItem_idx hg hnk) (.inr hb) (fun a => Nat.le_trans (hb a) (Nat.le_add_left _ _))
        | plain r =>
          dsimp only
          split
          · rename_i slot k hg hnk
            have hl := getItem_idx hg hnk
            have hslot := hkid slot (List.mem_of_getElem? hl)
            split
            · exact kor_exc _ _ _ _ _
            · rename_i el hel
              have helm : el ∈ slot.kids := by
                unfold slotElement at hel; exact List.mem_of_mem_head? hel
              have hS := setNode_ls r el none next ((kokL_iff _).mp (kokL_of_kok hslot) el helm)
              have hid := id_of_hdr (setNode_hdr el r none next)
              have hc := fun a => hS.hcnt a
              simp only [cntL_singleton] at hc
              have hK : KO (fun a => cntL a (placedSeq (.setitem i (.plain r))) + ind next (setNode el r none next).next a)
                  n.kids (n.kids.set k (slot.withKids [(setNode el r none next).node])) := by
                refine ko_set_slot hl (.inl ⟨el, helm, hid, fun a => ?_⟩) (fun a => ?_)
                · have := hc a; rw [cnt_eq, cnt_eq, hid] at this; first | omega | (dsimp only; omega)
                · have := hc a; have := cnt_le_cntL (a := a) helm; first | omega | (dsimp only; omega)
              split <;> (try rw [excOut]) <;> exact hK
          · exact kor_exc _ _ _ _ _
      · split
        · exact kor_exc _ _ _ _ _
        · rename_i w n1 h
          have h1 := wrap_ok_ls hsm hop h
          split
          · exact kor_exc _ _ _ _ _
          · refine ko_of_mem (fun x hx => ?_)
            rcases List.mem_or_eq_of_mem_set hx with h3 | h3
            · exact .inl h3
            · rw [h3]; exact .inr (fresh_bound (h1.withParent_new (some n.id)) _ (by simp))
    | setslice sl as =>
      dsimp only
      split
      · exact kor_exc _ _ _ _ _
      · rename_i ws n1 hws
        have h1 := wrapAll_ok_ls hsm as next n1 ws hop hws
        split
        · have h2 := h1.trans (newSlots_ls n.id n.kids.length ws n1 h1.hkok)
          split
          · exact kor_exc _ _ _ _ _
          · rename_i ks hss
            refine KO.renumberFrom 0 _ (ko_of_mem (fun x hx => ?_))
            rcases mem_setSlice hss hx with h3 | h3
            · exact .inl h3
            · exact .inr (fresh_bound h2 x h3)
        · split
          · exact kor_exc _ _ _ _ _
          · rename_i ks hss
            refine ko_of_mem (fun x hx => ?_)
            rcases mem_setSlice hss hx with h3 | h3
            · exact .inl h3
            · obtain ⟨w, hwm, rfl⟩ := List.mem_map.mp h3
              exact .inr (fun a => by rw [cnt_withParent]; exact fresh_bound h1 w hwm a)
    | delitem i =>
      dsimp only
      split
      · rename_i ks k hd _
        exact hsub _ ks (fun x hx => mem_delItem hd hx)
      · exact kor_exc _ _ _ _ _
    | delslice sl =>
      dsimp only
      split
      · exact kor_exc _ _ _ _ _
      · rename_i ks hd
        exact hsub _ ks (fun x hx => mem_delSlice hd hx)
    | pop i =>
      dsimp only
      split
      · exact kor_exc _ _ _ _ _
      · rename_i x ks hp
        have hm' := mem_popAt hp
        split
        · exact KO.renumberFrom 0 _ ((KO.self _ n.kids).sub hm'.2)
        · exact (KO.self _ n.kids).sub hm'.2
    | remove a =>
      dsimp only
      split
      · exact kor_exc _ _ _ _ _
      · split
        · exact kor_exc _ _ _ _ _
        · exact hsub _ _ (fun x hx => List.mem_of_mem_eraseIdx hx)
    | reverse => exact hsub _ _ (fun x hx => List.mem_reverse.mp hx)
    | clear => exact ko_nil _ _
    | imul c =>
      dsimp only
      split
      · split
        · exact ko_nil _ _
        · exact ko_nil _ _
      · have hL := imulLoop_ls hsm ((members n).map (fun x => Arg.plain (imulValue x)))
          (by have := plain_args_nil ((members n).map imulValue); rw [List.map_map] at this; exact this)
          (c.toNat - 1) n next hk hmap
        obtain ⟨extra, hpre⟩ := imulLoop_prefix m ((members n).map (fun x => Arg.plain (imulValue x))) (c.toNat - 1) n next
        have := ko_of_prefix (args := []) hpre (id_of_hdr (imulLoop_hdr m _ (c.toNat - 1) n next)) hL
        split <;> exact this
    | sort k r =>
      dsimp only
      split
      · split
        · exact kor_self _ _ _ _ _ _
        · split <;> exact kor_exc _ _ _ _ _
      · split
        · exact hsub _ _ (fun x hx => mem_sortBy.mp hx)
        · exact kor_exc _ _ _ _ _
    | set r =>
      have hL := setNode_ls r (n.withKids []) none next (kok_withKids_nil hk)
      dsimp only
      rw [setNode_seq_forget' n hseq]
      have hf := kids_fresh_of_ls' (id_of_hdr (setNode_hdr (n.withKids []) r none next)) hL
      have : KO (fun a => cntL a (placedSeq (.set r)) + ind next (setNode (n.withKids []) r none next).next a) n.kids
          (setNode (n.withKids []) r none next).node.kids :=
        ko_of_cntL_le (fun a => by have := hf a; omega)
      split <;> exact this
    | setDefault =>
      have hL := setDefault_ls (n.withKids []) next (kok_withKids_nil hk)
      have : KO (fun a => cntL a (placedSeq .setDefault) + ind next (setDefault n next).next a) n.kids
          (setDefault n next).node.kids := by
        rcases setDefault_seq_forget' n hseq next with h1 | h1
        · rw [h1]; exact KO.self _ _
        · rw [h1]
          have hf := kids_fresh_of_ls' (id_of_hdr (setDefault_hdr (n.withKids []) next)) hL
          exact ko_of_cntL_le (fun a => by have := hf a; omega)
      dsimp only; split <;> exact this
    | len => exact kor_self _ _ _ _ _ _
    | getitem i =>
      dsimp only
      split
      · exact kor_exc _ _ _ _ _
      · split
        · split
          · exact kor_self _ _ _ _ _ _
          · exact kor_exc _ _ _ _ _
        · exact kor_self _ _ _ _ _ _
    | getslice s =>
      dsimp only
      split
      · exact kor_exc _ _ _ _ _
      · exact kor_self _ _ _ _ _ _
    | contains a =>
      dsimp only
      split
      · exact kor_exc _ _ _ _ _
      · exact kor_self _ _ _ _ _ _
    | index a =>
      dsimp only
      split
      · exact kor_exc _ _ _ _ _
      · split
        · exact kor_exc _ _ _ _ _
        · exact kor_self _ _ _ _ _ _
    | count a =>
      dsimp only
      split
      · exact kor_exc _ _ _ _ _
      · exact kor_self _ _ _ _ _ _

/-! ### mappings (children = stored items: one level suffices) -/

def KO1 (B : Nat → Nat) (old ks : List Node) : Prop := ∀ k' ∈ ks, Orig1 B old k'

theorem KO1.self (B : Nat → Nat) (old : List Node) : KO1 B old old := fun _ h => orig1_self B h

theorem KO1.mono {B B' : Nat → Nat} (hB : ∀ a, B a ≤ B' a) {old ks : List Node} (h : KO1 B old ks) : KO1 B' old ks :=
  fun x hx => (h x hx).mono hB

theorem Orig1.old_mono {B : Nat → Nat} {old old' : List Node} (hs : ∀ x ∈ old, x ∈ old') {k' : Node}
    (h : Orig1 B old k') : Orig1 B old' k' := by
  rcases h with ⟨k, hk, hid, hc⟩ | h
  · exact .inl ⟨k, hs k hk, hid, hc⟩
  · exact .inr h

theorem KO1.trans {B B' : Nat → Nat} {old mid new : List Node} (h1 : KO1 B old mid) (h2 : KO1 B' mid new) :
    KO1 (fun a => B a + B' a) old new := by
  intro k' hk'
  rcases h2 k' hk' with ⟨k, hk, hid, hc⟩ | h
  · rcases h1 k hk with ⟨k0, hk0, hid0, hc0⟩ | h0
    · exact .inl ⟨k0, hk0, hid.trans hid0, fun a => by have := hc a; have := hc0 a; dsimp only; omega⟩
    · refine .inr (fun a => ?_)
      have := hc a; have := h0 a
      rw [cnt_eq] at *
      rw [hid]; dsimp only; omega
  · exact .inr (fun a => by have := h a; dsimp only; omega)

theorem ko1_of_mem {B : Nat → Nat} {old ks : List Node}
    (h : ∀ x ∈ ks, x ∈ old ∨ Orig1 B old x) : KO1 B old ks := by
  intro x hx
  rcases h x hx with h1 | h1
  · exact orig1_self B h1
  · exact h1

/-- an old child updated in place (same identity) -/
theorem orig1_update {lo hi : Nat} {old args : List Node} {child new : Node} (hc : child ∈ old)
    (hid : new.id = child.id) (h : LS lo [child] hi [new]) :
    Orig1 (fun a => cntL a args + ind lo hi a) old new :=
  .inl ⟨child, hc, hid, fun a => by
    have := h.hcnt a
    simp only [cntL_singleton] at this
    rw [cnt_eq, cnt_eq, hid] at this; dsimp only; omega⟩

def KOr1 (n : Node) (args : List Node) (next : Nat) (r : StepR) : Prop :=
  KO1 (fun a => cntL a args + ind next r.next a) n.kids r.node.kids

theorem kor1_exc (n : Node) (args : List Node) (next n1 : Nat) (e : Exc) : KOr1 n args next (excOut n n1 e) :=
  KO1.self _ _
theorem kor1_self (n : Node) (args : List Node) (next n1 : Nat) (out : Out) (d : List Node) :
    KOr1 n args next ⟨n, n1, out, d⟩ := KO1.self _ _

theorem mapSetItem_ko1 (n : Node) (hk : kok n = true) (key : Str) (a : Arg)
    (ha : kokL (argElems a) = true) (next : Nat) : KOr1 n (argElems a) next (mapSetItem n key a next) := by
  have hkids : kokL n.kids = true := kokL_of_kok hk
  have hs : swf n.sch = true := kok_swf hk
  have hset : ∀ child, findKid n.kids key = some child →
      KO1 (fun x => cntL x (argElems a) + ind next (setChild child a next).next x) n.kids
        (replaceKid n.kids key (setChild child a next).node) := by
    intro child hc
    have hcm := findKid_some hc
    have h1 := setChild_ls child a next ((kokL_iff _).mp hkids child hcm.1)
    refine ko1_of_mem (fun x hx => ?_)
    rcases Flatland.C10.Proofs.mem_replaceKid hx with h3 | h3
    · exact .inl h3
    · rw [h3]; exact .inr (orig1_update hcm.1 (id_of_hdr (Flatland.C10.Proofs.setChild_hdr child a next)) h1)
  have hnew : ∀ (x : Node) (n1 : Nat), LS next (argElems a) n1 [x] →
      KO1 (fun y => cntL y (argElems a) + ind next n1 y) n.kids (n.kids ++ [x]) := by
    intro x n1 hx
    refine ko1_of_mem (fun y hy => ?_)
    rcases List.mem_append.mp hy with h3 | h3
    · exact .inl h3
    · exact .inr (.inr (fresh_bound hx y h3))
  unfold mapSetItem
  split
  · dsimp only
    split
    · split
      · exact kor1_exc _ _ _ _ _
      · rename_i f hf
        have hfm := fieldFor_some hf
        have hsf : swf f = true := swf_subs hs f hfm.1
        split
        · rename_i e
          have he : kok e = true := by simpa [argElems, kokL] using ha
          split
          · refine hnew _ _ ?_
            exact (LS.refl next (kok_single.mpr he)).congr_new
              (fun x => by rw [cntL_singleton, cntL_singleton, cnt_withKey, cnt_withParent])
              (by simp [kokL, kok_withKey, kok_withParent])
          · split
            · refine hnew _ _ ?_
              exact ((blank_ls f (some n.id) key next hsf).congr_new
                  (fun x => by rw [cntL_singleton, cntL_singleton, cnt_withScalar])
                  (by simp [kokL, kok_withScalar])).forget
            · exact kor1_exc _ _ _ _ _
        · rename_i r
          split
          · exact kor1_exc _ _ _ _ _
          · rename_i el n1 hcon
            exact hnew _ _ (construct_ls f r (some n.id) key next hsf el n1 hcon).forget
    · rename_i child hc
      have hcm := findKid_some hc
      split
      · exact kor1_exc _ _ _ _ _
      · rename_i f e _
        split
        · refine ko1_of_mem (fun x hx => ?_)
          rcases Flatland.C10.Proofs.mem_replaceKid hx with h3 | h3
          · exact .inl h3
          · rw [h3]
            exact .inr (.inr (fun y => by simp [argElems, cnt_withKey, cnt_withParent, cntL_singleton]))
        · split
          · exact hset child hc
          · exact hset child hc
      · split
        · exact hset child hc
        · exact hset child hc
  · split
    · exact kor1_exc _ _ _ _ _
    · rename_i child hc
      dsimp only
      split
      · exact hset child hc
      · exact hset child hc

theorem mapUpdatePairs_ko1 (kvs : List (Str × Raw)) : ∀ (n : Node) (next : Nat), kok n = true → isMap n.kind = true →
    KO1 (fun a => ind next (mapUpdatePairs n kvs next).next a) n.kids (mapUpdatePairs n kvs next).node.kids := by
  induction kvs with
  | nil => intro n next _ _; rw [mapUpdatePairs]; exact KO1.self _ _
  | cons kv rest ih =>
    intro n next hk hm
    obtain ⟨k, v⟩ := kv
    have hs := mapSetItem_ls n hk hm k (.plain v) rfl next
    have h1 : KO1 (fun a => ind next (mapSetItem n k (.plain v) next).next a) n.kids (mapSetItem n k (.plain v) next).node.kids :=
      (mapSetItem_ko1 n hk k (.plain v) rfl next).mono (fun a => by simp [argElems])
    rw [mapUpdatePairs]
    split
    · exact h1
    · have h2 := ih _ (mapSetItem n k (.plain v) next).next (kok_single.mp hs.1.hkok) (kok_congr_map hs.2 hm)
      have hle2 := (mapUpdatePairs_ls rest _ (mapSetItem n k (.plain v) next).next (kok_single.mp hs.1.hkok) (kok_congr_map hs.2 hm)).1.hle
      exact (h1.trans h2).mono (fun a => by have := ind_add a hs.1.hle hle2; omega)

theorem mapUpdateArgs_ko1 (kvs : List (Str × Arg)) : ∀ (n : Node) (next : Nat), kok n = true → isMap n.kind = true →
    kokL (kvs.flatMap (fun p => argElems p.2)) = true →
    KO1 (fun a => cntL a (kvs.flatMap (fun p => argElems p.2)) + ind next (mapUpdateArgs n kvs next).next a) n.kids
      (mapUpdateArgs n kvs next).node.kids := by
  induction kvs with
  | nil => intro n next _ _ _; rw [mapUpdateArgs]; exact KO1.self _ _
  | cons kv rest ih =>
    intro n next hk hm ha
    obtain ⟨k, a⟩ := kv
    rw [List.flatMap_cons, kokL_append] at ha
    have hs := mapSetItem_ls n hk hm k a ha.1 next
    have h1 := mapSetItem_ko1 n hk k a ha.1 next
    rw [mapUpdateArgs, List.flatMap_cons]
    split
    · exact h1.mono (fun x => by simp only [cntL_append]; omega)
    · have h2 := ih _ (mapSetItem n k a next).next (kok_single.mp hs.1.hkok) (kok_congr_map hs.2 hm) ha.2
      have hle2 := (mapUpdateArgs_ls rest _ (mapSetItem n k a next).next (kok_single.mp hs.1.hkok) (kok_congr_map hs.2 hm) ha.2).1.hle
      exact (h1.trans h2).mono (fun x => by
        have := ind_add x hs.1.hle hle2; simp only [cntL_append]; omega)

theorem setDefaultKids_ko1 : ∀ (kids : List Node) (next : Nat), kokL kids = true →
    KO1 (fun a => ind next (setDefaultKids kids next).2.1 a) kids (setDefaultKids kids next).1
  | [], next, _ => by rw [setDefaultKids]; intro x hx; cases hx
  | k :: ks, next, h => by
    rw [kokL, Bool.and_eq_true] at h
    have hk := setDefault_ls k next h.1
    have hO : Orig1 (fun a => cntL a [] + ind next (setDefault k next).next a) (k :: ks) (setDefault k next).node :=
      orig1_update (by simp) (id_of_hdr (setDefault_hdr k next)) hk
    rw [setDefaultKids]
    dsimp only
    split
    · intro x hx
      rcases List.mem_cons.mp hx with h1 | h1
      · rw [h1]; exact hO.mono (fun a => by simp)
      · exact orig1_self _ (by simp [h1])
    · have ih := setDefaultKids_ko1 ks (setDefault k next).next h.2
      have hle2 := (setDefaultKids_ls ks (setDefault k next).next h.2).hle
      intro x hx
      rcases List.mem_cons.mp hx with h1 | h1
      · rw [h1]
        exact hO.mono (fun a => by have := ind_mono a (Nat.le_refl next) hle2; simp only [cntL_nil]; omega)
      · exact ((ih x h1).old_mono (fun y hy => by simp [hy])).mono
          (fun a => ind_mono a hk.hle (Nat.le_refl _))

theorem kids_fresh_of_ls_B {n r : Node} {lo hi : Nat} (args : List Node) (hid : r.id = (n.withKids []).id)
    (h : LS lo [n.withKids []] hi [r]) : KO1 (fun a => cntL a args + ind lo hi a) n.kids r.kids :=
  fun x hx => .inr (fun a => by
    have := kids_fresh_of_ls' hid h a
    have := cnt_le_cntL (a := a) hx; dsimp only; omega)

theorem setNode_map_forget' (n : Node) (h : n.kind = .dict ∨ n.kind = .sparse) (raw : Raw) (pol : Option Policy) (next : Nat) :
    ((setNode n raw pol next).node.kids = n.kids ∧ (setNode n raw pol next).next = next) ∨
      setNode n raw pol next = setNode (n.withKids []) raw pol next := by
  cases n with
  | mk i s kids => exact setNode_map_forget i s kids h raw pol next

theorem setDefault_map_forget' (n : Node) (h : n.kind = .dict ∨ n.kind = .sparse) (next : Nat) :
    ((setDefault n next).node.kids = n.kids ∧ (setDefault n next).next = next) ∨
      setDefault n next = setDefault (n.withKids []) next ∨
      ((setDefault n next).node.kids = (setDefaultKids n.kids next).1 ∧
        (setDefault n next).next = (setDefaultKids n.kids next).2.1) := by
  cases n with
  | mk i s kids => exact setDefault_map_forget i s kids h next

theorem setNode_ko1 (n : Node) (hk : kok n = true) (hm : isMap n.kind = true) (args : List Node) (raw : Raw)
    (pol : Option Policy) (next : Nat) :
    KO1 (fun a => cntL a args + ind next (setNode n raw pol next).next a) n.kids (setNode n raw pol next).node.kids := by
  rcases setNode_map_forget' n ((isMap_cases _).mp hm) raw pol next with h1 | h1
  · rw [h1.1]; exact KO1.self _ _
  · rw [h1]
    exact kids_fresh_of_ls_B args (id_of_hdr (setNode_hdr _ raw pol next))
      (setNode_ls raw (n.withKids []) pol next (kok_withKids_nil hk))

theorem setDefault_ko1 (n : Node) (hk : kok n = true) (hm : isMap n.kind = true) (args : List Node) (next : Nat) :
    KO1 (fun a => cntL a args + ind next (setDefault n next).next a) n.kids (setDefault n next).node.kids := by
  rcases setDefault_map_forget' n ((isMap_cases _).mp hm) next with h1 | h1 | h1
  · rw [h1.1]; exact KO1.self _ _
  · rw [h1]
    exact kids_fresh_of_ls_B args (id_of_hdr (setDefault_hdr _ next))
      (setDefault_ls (n.withKids []) next (kok_withKids_nil hk))
  · rw [h1.1, h1.2]
    exact (setDefaultKids_ko1 n.kids next (kokL_of_kok hk)).mono (fun a => Nat.le_add_left _ _)

/-- **origins, mappings, every call.** -/
theorem mapStep_ko1 (n : Node) (hk : kok n = true) (hm : isMap n.kind = true) (op : MapOp)
    (hop : kokL (placedMap op) = true) (next : Nat) : KOr1 n (placedMap op) next (mapStep n op next) := by
  have hkids : kokL n.kids = true := kokL_of_kok hk
  have hs : swf n.sch = true := kok_swf hk
  have herase : ∀ (B : Nat → Nat) k, KO1 B n.kids (eraseKey n.kids k) :=
    fun B k x hx => orig1_self B (List.mem_filter.mp hx).1
  unfold mapStep
  cases op with
  | setitem k a => exact mapSetItem_ko1 n hk k a hop next
  | delitem k =>
    dsimp only
    split
    · split <;> exact kor1_exc _ _ _ _ _
    · split
      · split
        · exact herase _ k
        · split <;> exact kor1_exc _ _ _ _ _
      · split
        · exact kor1_exc _ _ _ _ _
        · exact kor1_exc _ _ _ _ _
        · split
          · exact herase _ k
          · exact kor1_exc _ _ _ _ _
  | pop k =>
    dsimp only
    split
    · exact kor1_exc _ _ _ _ _
    · split
      · exact kor1_exc _ _ _ _ _
      · split
        · exact kor1_exc _ _ _ _ _
        · split
          · exact herase _ k
          · exact kor1_exc _ _ _ _ _
  | popitem => dsimp only; split <;> exact kor1_exc _ _ _ _ _
  | clear =>
    dsimp only
    split
    · have hsub : swfL n.sch.subs = true := (swfL_iff _).mpr (swf_subs hs)
      show KO1 _ n.kids (mapReset n next).1.kids
      unfold mapReset
      split
      · exact fun x hx => .inr (fresh_bound ((blankFields_ls _ _ _ _ hsub).forget (l0 := placedMap .clear)) x hx)
      · split
        · exact fun x hx => .inr (fresh_bound ((blankFields_ls _ _ _ _ hsub).forget (l0 := placedMap .clear)) x hx)
        · exact fun x hx => by cases hx
    · exact kor1_exc _ _ _ _ _
  | update pos kw =>
    dsimp only
    split
    · exact (mapUpdatePairs_ko1 kw n next hk hm).mono (fun a => Nat.le_add_left _ _)
    · split
      · exact kor1_exc _ _ _ _ _
      · exact kor1_exc _ _ _ _ _
      · rename_i kvs _
        have h1 := mapUpdatePairs_ko1 kvs n next hk hm
        have l1 := mapUpdatePairs_ls kvs n next hk hm
        split
        · exact h1.mono (fun a => Nat.le_add_left _ _)
        · have hk2 := kok_single.mp l1.1.hkok
          have hm2 := kok_congr_map l1.2 hm
          have h2 := mapUpdatePairs_ko1 kw _ (mapUpdatePairs n kvs next).next hk2 hm2
          have l2 := mapUpdatePairs_ls kw _ (mapUpdatePairs n kvs next).next hk2 hm2
          exact (h1.trans h2).mono (fun a => by have := ind_add a l1.1.hle l2.1.hle; omega)
  | updateArgs kvs => exact mapUpdateArgs_ko1 kvs n next hk hm hop
  | ior raw =>
    dsimp only
    split
    · exact kor1_exc _ _ _ _ _
    · exact kor1_exc _ _ _ _ _
    · exact (mapUpdatePairs_ko1 _ n next hk hm).mono (fun a => Nat.le_add_left _ _)
  | setdefault k d =>
    dsimp only
    split
    · exact kor1_exc _ _ _ _ _
    · split
      · exact kor1_exc _ _ _ _ _
      · split
        · rename_i child hc
          have hcm := findKid_some hc
          split
          · exact kor1_self _ _ _ _ _ _
          · have h1 := setNode_ls d child none next ((kokL_iff _).mp hkids child hcm.1)
            have hK : KO1 (fun a => cntL a (placedMap (.setdefault k d)) + ind next (setNode child d none next).next a) n.kids
                (replaceKid n.kids k (setNode child d none next).node) := by
              refine ko1_of_mem (fun x hx => ?_)
              rcases Flatland.C10.Proofs.mem_replaceKid hx with h3 | h3
              · exact .inl h3
              · rw [h3]; exact .inr (orig1_update hcm.1 (id_of_hdr (setNode_hdr child d none next)) h1)
            split
            · exact hK
            · exact hK
        · split
          · exact kor1_exc _ _ _ _ _
          · rename_i f hf
            have hfm := fieldFor_some hf
            have hb := (blank_ls f none k next (swf_subs hs f hfm.1)).withParent_new (some n.id)
            have hr := setNode_ls d ((blank f none k next).1.withParent (some n.id)) none (blank f none k next).2
              (kok_single.mp hb.hkok)
            have hK : KO1 (fun a => cntL a (placedMap (.setdefault k d)) +
                  ind next (setNode ((blank f none k next).1.withParent (some n.id)) d none (blank f none k next).2).next a) n.kids
                (n.kids ++ [(setNode ((blank f none k next).1.withParent (some n.id)) d none (blank f none k next).2).node]) := by
              refine ko1_of_mem (fun y hy => ?_)
              rcases List.mem_append.mp hy with h3 | h3
              · exact .inl h3
              · exact .inr (.inr (fresh_bound ((hb.trans hr).forget (l0 := placedMap (.setdefault k d))) y h3))
            split
            · exact hK
            · exact hK
  | get k => dsimp only; split <;> first | exact kor1_exc _ _ _ _ _ | exact kor1_self _ _ _ _ _ _
  | set raw pol =>
    dsimp only
    split
    · split <;> exact setNode_ko1 n hk hm _ _ _ _
    · split <;> exact setNode_ko1 n hk hm _ _ _ _
    · split <;> exact setNode_ko1 n hk hm _ _ _ _
  | setDefault => dsimp only; split <;> exact setDefault_ko1 n hk hm _ _
  | contains k => exact kor1_self _ _ _ _ _ _
  | len => exact kor1_self _ _ _ _ _ _

/-! ### the clause for one call on the container -/

theorem mem_children_nodesL {n c : Node} (h : c ∈ children n) : c ∈ nodesL n.kids :=
  (nodesL_children_sublist n).subset (mem_nodesL_of_mem h)

theorem cntL_pos_of_child {n c : Node} (h : c ∈ children n) : 0 < cntL c.id n.kids := by
  unfold cntL
  exact List.count_pos_iff.mpr (List.mem_map.mpr ⟨c, mem_children_nodesL h, rfl⟩)

theorem children_list {n : Node} (h : n.kind = .list) : children n = n.kids.flatMap Node.kids := by
  unfold children; rw [h]
theorem children_kids {n : Node} (h : n.kind = .array ∨ n.kind = .multi ∨ n.kind = .dict ∨ n.kind = .sparse) :
    children n = n.kids := by
  unfold children; rcases h with h | h | h | h <;> rw [h]

theorem kind_of_hdr {r n : Node} (h : r.hdr = n.hdr) : r.kind = n.kind := by
  unfold Node.kind; rw [sch_of_hdr h]

/-- **removed ⇒ gone, at the container.**  A child of the container before the call whose
    identity still occurs anywhere below the container afterwards is still a child of it. -/
theorem nodeStep_removed (n : Node) (hk : kok n = true) (hnd : (ids n).Nodup) (op : Op) (next : Nat)
    (hlt : ∀ a ∈ ids n, a < next) (hop : kokL (placedArgs op) = true)
    (hA : ∀ a ∈ ids n, cntL a (placedArgs op) = 0) :
    ∀ c ∈ children n, c.id ∈ ids (nodeStep n op next).node →
      c.id ∈ (children (nodeStep n op next).node).map Node.id := by
  intro c hc hin
  have hhdr := (nodeStep_ls n hk op hop next).2
  have hid := id_of_hdr hhdr
  have hkind := kind_of_hdr hhdr
  have hB : ∀ a ∈ ids n, cntL a (placedArgs op) + ind next (nodeStep n op next).next a = 0 := by
    intro a ha
    rw [hA a ha, ind_eq_zero_of_lt (hlt a ha)]
  -- a call that leaves the element alone
  have hsame : (nodeStep n op next).node = n → c.id ∈ (children (nodeStep n op next).node).map Node.id := by
    intro h; rw [h]; exact List.mem_map.mpr ⟨c, hc, rfl⟩
  cases op with
  | seq o =>
    have hko := fun hs => seqStep_ko n hk hs o hop next
    unfold nodeStep at hin hkind hid hB hsame hko ⊢
    cases hkd : n.kind <;> simp only [hkd] at hin hkind hid hB hsame hko ⊢ <;> try exact hsame rfl
    · -- list
      rw [children_list hkd] at hc
      rw [children_list hkind]
      obtain ⟨σ, hσ, hcσ⟩ := List.mem_flatMap.mp hc
      exact removed_list hnd hB hid (fun k' hk' => (hko (.inl rfl) k' hk').2) σ hσ c hcσ hin
    · rw [children_kids (.inl hkd)] at hc
      rw [children_kids (.inl hkind)]
      exact removed_nonlist hnd hB hid (fun k' hk' => (hko (.inr (.inl rfl)) k' hk').1) c hc hin
    · rw [children_kids (.inr (.inl hkd))] at hc
      rw [children_kids (.inr (.inl hkind))]
      exact removed_nonlist hnd hB hid (fun k' hk' => (hko (.inr (.inr rfl)) k' hk').1) c hc hin
  | map o =>
    have hko := fun hm => mapStep_ko1 n hk hm o hop next
    unfold nodeStep at hin hkind hid hB hsame hko ⊢
    cases hkd : n.kind <;> simp only [hkd] at hin hkind hid hB hsame hko ⊢ <;> try exact hsame rfl
    · rw [children_kids (.inr (.inr (.inl hkd)))] at hc
      rw [children_kids (.inr (.inr (.inl hkind)))]
      exact removed_nonlist hnd hB hid (hko rfl) c hc hin
    · rw [children_kids (.inr (.inr (.inr hkd)))] at hc
      rw [children_kids (.inr (.inr (.inr hkind)))]
      exact removed_nonlist hnd hB hid (hko rfl) c hc hin

end Flatland.C08.Proofs
