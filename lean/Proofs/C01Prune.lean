/-
C01 — general form, with the documented pruning.

`roundtrip_pruned`: for every well-formed schema without SparseDicts, every `SepSafe` separator and
EVERY conforming, settled element state `e` (`OkP`: no restriction on pruning sequences, on empty
values, or on members that emit no pair),

    from_flat(flatten(e)) = pr e

where `pr` (`Flatland/Spec/C01Prune.lean`) is the documented pruning written as a function on
element states: pruning Lists drop exactly the members that emit no non-empty value and renumber
the rest, non-pruning Lists lose trailing members without a flat representation, Arrays drop empty
members when pruning applies, everything else is kept.  `roundtrip` (`Proofs/C01.lean`) is the
special case in which `pr e = e`.
-/
import Proofs.Lemmas.C01PList
import Proofs.C01
namespace Flatland.Flat.Proofs
open Flatland.Flat Flatland.Flat.Spec

variable {env : Env} {sep : Str}

section main
variable (root : Schema) (hs : SepSafe env sep (Tok root)) (henv : EnvOK env)
include hs henv

theorem tok_of_nameP {s : Schema} (hsub : ∀ t ∈ names s, t ∈ names root) (x : Str)
    (h : s.name = some x) : Tok root x :=
  Or.inl (hsub x (name_mem_names s x h))

mutual
/-- every schema below the root round-trips -/
theorem rtp_all : ∀ s : Schema, (∀ t ∈ names s, t ∈ names root) → wf s = true → dense s = true →
    RTP env sep s
  | .leaf nm o k, _, _, _ => rtp_leaf nm o k
  | .joined nm o k m, _, _, _ => rtp_joined nm o k m
  | .array nm o p member, hsub, _, _ => by
    apply rtp_array hs nm _ o p member
    · intro c hc
      exact hs.tok_ne c (Or.inl (hsub c (by
        have := name_mem_names member c hc
        simp [names, this])))
    · intro x hx; subst hx
      exact hs.tok_ne x (Or.inl (hsub x (by simp [names])))
  | .list nm o p mx member, hsub, hw, hd => by
    simp only [wf] at hw
    simp only [dense] at hd
    have hsubm : ∀ t ∈ names member, t ∈ names root := fun t ht => hsub t (by simp [names, ht])
    apply rtp_list hs henv nm _ o p mx member
    · intro t ht; exact hs.tok_ne t (Or.inl (hsubm t ht))
    · exact rtp_all member hsubm hw hd
    · intro x hx; subst hx; exact Or.inl (hsub x (by simp [names]))
  | .dict nm o mode fields, hsub, hw, hd => by
    simp only [wf, Bool.and_eq_true] at hw
    simp only [dense, Bool.and_eq_true, decide_eq_true_eq] at hd
    have hnd : (namesOf fields).Nodup := by simpa using hw.2
    have hsome := allSome_of fields hw.1.2
    have hsubf : ∀ t ∈ namesL fields, t ∈ names root := fun t ht => hsub t (by simp [names, ht])
    have htok : ∀ g ∈ fields, ∃ x, g.name = some x ∧ Tok root x := by
      intro g hg
      have := hsome g hg
      cases hn : g.name with
      | none => simp [hn] at this
      | some x =>
        exact ⟨x, rfl, Or.inl (hsubf x (names_sub_namesL hg x (name_mem_names g x hn)))⟩
    have hrt := rtp_fields fields hsubf hw.1.1 hd.2
    intro u e hok
    cases e with
    | dict ms =>
      simp only [OkP] at hok
      obtain ⟨hmode, hokf⟩ := hok
      subst hmode
      have hr : resolve env (.dict nm o .dense fields) (.dict ms)
          = .mk nm false true [] false (resKids env fields ms) := by
        unfold resolve
        simp only [membersOf]
        rw [resolveMembers_eqP env fields hnd hsome ms fields ms (fun f hf => hf) hokf]
      rw [hr, relFlat_eq]
      simp only [ownPath, FNode.fl, Bool.false_eq_true, if_false, List.nil_append, pushed, FNode.cfl,
        if_true, childItems, FNode.slots, FNode.kids, namePath, FNode.name]
      rw [kidsFrom_noslots, setFlat]
      simp only [blank, membersOf]
      exact rtp_mapping hs nm (fun x hx => by subst hx; exact Or.inl (hsub x (by simp [names])))
        fields hnd htok hw.1.1 hd.2 hrt ms hokf u [] (Or.inl rfl) _ rfl _ rfl
    | _ => simp [OkP] at hok
  | .compound nm o k fields, hsub, hw, hd => by
    simp only [wf, Bool.and_eq_true] at hw
    simp only [dense] at hd
    have hnd : (namesOf fields).Nodup := by simpa using hw.2
    have hsome := allSome_of fields hw.1.2
    have hsubf : ∀ t ∈ namesL fields, t ∈ names root := fun t ht => hsub t (by simp [names, ht])
    have htok : ∀ g ∈ fields, ∃ x, g.name = some x ∧ Tok root x := by
      intro g hg
      have := hsome g hg
      cases hn : g.name with
      | none => simp [hn] at this
      | some x =>
        exact ⟨x, rfl, Or.inl (hsubf x (names_sub_namesL hg x (name_mem_names g x hn)))⟩
    have hrt := rtp_fields fields hsubf hw.1.1 hd
    intro u e hok
    cases e with
    | dict ms =>
      simp only [OkP] at hok
      have hr : resolve env (.compound nm o k fields) (.dict ms)
          = .mk nm true true (uOf env (.compound nm o k fields) (.dict ms)) false (resKids env fields ms) := by
        unfold resolve
        simp only [membersOf]
        rw [resolveMembers_eqP env fields hnd hsome ms fields ms (fun f hf => hf) hok]
      rw [hr, relFlat_eq]
      simp only [ownPath, FNode.fl, if_true, pushed, FNode.cfl, childItems, FNode.slots, FNode.kids,
        namePath, FNode.name, FNode.u, List.nil_append]
      rw [kidsFrom_noslots, setFlat]
      simp only [blank, membersOf]
      exact rtp_mapping hs nm (fun x hx => by subst hx; exact Or.inl (hsub x (by simp [names])))
        fields hnd htok hw.1.1 hd hrt ms hok u [(nm.toList, _)] (Or.inr ⟨_, rfl⟩) _ rfl _ rfl
    | _ => simp [OkP] at hok
theorem rtp_fields : ∀ fs : List Schema, (∀ t ∈ namesL fs, t ∈ names root) → wfL fs = true →
    denseL fs = true → ∀ f ∈ fs, RTP env sep f
  | [], _, _, _ => fun f hf => by simp at hf
  | g :: gs, hsub, hw, hd => by
    simp only [wfL, Bool.and_eq_true] at hw
    simp only [denseL, Bool.and_eq_true] at hd
    have h1 := rtp_all g (fun t ht => hsub t (by simp [namesL, ht])) hw.1 hd.1
    have h2 := rtp_fields gs (fun t ht => hsub t (by simp [namesL, ht])) hw.2 hd.2
    intro f hf
    rcases List.mem_cons.mp hf with rfl | h
    · exact h1
    · exact h2 f h
end

end main

/-! ### the property theorem -/

theorem root_paths_neP (env : Env) (s : Schema) (e : Elem) (hw : wf s = true) (hroot : rootOK s = true)
    (hok : OkP env s e) : ∀ p ∈ relFlat (resolve env s e), p.1 ≠ [] := by
  intro p hp
  by_cases hn : s.name.isSome = true
  · -- a named root: every path starts with its name
    obtain ⟨it, hit, ext, he⟩ := bfsPath_mem _ p hp
    simp only [List.mem_singleton] at hit
    subst hit
    rw [he]
    simp only [namePath, resolve_name]
    cases hsn : s.name with
    | none => simp [hsn] at hn
    | some x => simp
  · -- an anonymous container: paths start with a member's name or index
    have hnone : s.name = none := by
      cases hsn : s.name with
      | none => rfl
      | some x => simp [hsn] at hn
    rw [relFlat_eq] at hp
    cases s with
    | leaf nm o k => simp [rootOK, Schema.name] at hroot hnone; simp [hnone] at hroot
    | joined nm o k m => simp [rootOK, Schema.name] at hroot hnone; simp [hnone] at hroot
    | compound nm o k fs => simp [rootOK, Schema.name] at hroot hnone; simp [hnone] at hroot
    | dict nm o mode fields =>
      simp only [Schema.name] at hnone; subst hnone
      cases e with
      | dict ms =>
        simp only [OkP] at hok
        simp only [wf, Bool.and_eq_true] at hw
        have hnd : (namesOf fields).Nodup := by simpa using hw.2
        have hsome := allSome_of fields hw.1.2
        have hr : resolve env (.dict none o mode fields) (.dict ms)
            = .mk none false true [] false (resKids env fields ms) := by
          unfold resolve
          simp only [membersOf]
          rw [resolveMembers_eqP env fields hnd hsome ms fields ms (fun f hf => hf) hok.2]
        rw [hr] at hp
        simp only [ownPath, FNode.fl, Bool.false_eq_true, if_false, List.nil_append, pushed, FNode.cfl,
          if_true, childItems, FNode.slots, FNode.kids, namePath, FNode.name, Option.toList,
          List.append_nil] at hp
        rw [kidsFrom_noslots] at hp
        obtain ⟨it, hit, ext, he⟩ := bfsPath_mem _ p hp
        simp only [List.mem_map] at hit
        obtain ⟨k, hk, rfl⟩ := hit
        have h1 := resKids_namesP env fields ms hok.2 k hk
        obtain ⟨g, hg, hgn⟩ := exists_of_mem_namesOf h1
        have := hsome g hg
        rw [he]
        cases hkn : k.name with
        | none => rw [hgn, hkn] at this; simp at this
        | some y => simp [namePath, hkn]
      | _ => simp [OkP] at hok
    | list nm o prune mx member =>
      simp only [Schema.name] at hnone; subst hnone
      cases e with
      | list ms =>
        have hr : resolve env (.list none o prune mx member) (.list ms)
            = .mk none false true [] true (resolveList env member ms) := by
          unfold resolve; rfl
        rw [hr] at hp
        simp only [ownPath, FNode.fl, Bool.false_eq_true, if_false, List.nil_append, pushed, FNode.cfl,
          if_true, childItems, FNode.slots, FNode.kids, namePath, FNode.name, Option.toList,
          List.append_nil] at hp
        rw [kidsFrom_slots] at hp
        obtain ⟨it, hit, ext, he⟩ := bfsPath_mem _ p hp
        simp only [List.mem_map] at hit
        obtain ⟨it0, hit0, rfl⟩ := hit
        obtain ⟨j, _, hj⟩ := mem_slotItems 0 _ it0 hit0
        rw [he]
        simp [namePath, shift, hj]
      | _ => simp [OkP] at hok
    | array nm o prune member =>
      simp only [Schema.name] at hnone; subst hnone
      simp only [rootOK, Option.isSome_none, Bool.false_or] at hroot
      cases e with
      | array ms =>
        have hr : resolve env (.array none o prune member) (.array ms)
            = .mk none false true [] false (resolveList env member ms) := by
          unfold resolve; rfl
        rw [hr] at hp
        simp only [ownPath, FNode.fl, Bool.false_eq_true, if_false, List.nil_append, pushed, FNode.cfl,
          if_true, childItems, FNode.slots, FNode.kids, namePath, FNode.name, Option.toList,
          List.append_nil] at hp
        rw [kidsFrom_noslots, resolveList_eq_map] at hp
        obtain ⟨it, hit, ext, he⟩ := bfsPath_mem _ p hp
        simp only [List.mem_map] at hit
        obtain ⟨k, hk, rfl⟩ := hit
        obtain ⟨m, _, rfl⟩ := hk
        rw [he]
        simp only [namePath, resolve_name]
        cases hmn : member.name with
        | none => simp [hmn] at hroot
        | some y => simp
      | _ => simp [OkP] at hok

/-- **C01, general round trip.**  `from_flat(flatten(e))` rebuilds exactly the documented pruning
    of `e` — for every conforming settled state, pruning or not. -/
theorem roundtrip_pruned (env : Env) (sep : Str) (s : Schema) (e : Elem)
    (hs : SepSafe env sep (Tok s)) (henv : EnvOK env) (hw : wf s = true) (hd : dense s = true)
    (hroot : rootOK s = true) (hok : OkP env s e) :
    fromFlat env sep s (flatten env sep s e) = pr env false s e := by
  unfold fromFlat
  rw [flatten_eq_relFlat, ← toKeys_eq_wrap sep _ (root_paths_neP env s e hw hroot hok)]
  have h := rtp_all s hs henv s (fun t ht => ht) hw hd false e hok
  rw [filter_keepP_false] at h
  exact h

end Flatland.Flat.Proofs
