/-
C05 — validate() follows the documented two-phase, all-elements algorithm.

Main theorem: `validate_refines : validate t = specValidate t` for every tree `t` and every
assignment of outcomes — return value, final `.valid` of every visited element, and the
exact call log.  Corollaries restate the clauses of the property.
-/
import Flatland.C05
import Flatland.Spec.C05
namespace Flatland.C05.Proofs
open Flatland.C05 Flatland.C05.Spec

/-! ### validate_element = documented per-element rule -/

theorem runValidators_eq (vs : List Outcome) :
    runValidators vs = (listVerdict vs, invoked vs) := by
  induction vs with
  | nil => rfl
  | cons o rest ih => cases o <;> simp [runValidators, listVerdict, invoked, ih]

theorem validateElement_eq (i : Info) (vs : List Outcome) :
    validateElement i vs = elementVerdict i vs := by
  unfold validateElement elementVerdict
  split
  · rfl
  · cases vs with
    | nil => simp
    | cons o rest => simp [runValidators_eq]

theorem validateDown_eq (i : Info) : validateDown i = downVerdict i := by
  unfold validateDown downVerdict
  split
  · cases h : i.down <;> simp [validateElement_eq]
  · simp [validateElement_eq]

theorem validateUp_eq (i : Info) : validateUp i = upVerdict i := by
  unfold validateUp upVerdict
  split <;> simp [validateElement_eq]

/-! ### the queue loop is level order over the pruned tree -/

/-- plain queue BFS, no skipping -/
def bfs : List VTree → List Info
  | [] => []
  | .node i kids :: q => i :: bfs (q ++ kids)
termination_by q => sizeL q
decreasing_by simp [sizeL, VTree.size, sizeL_append]; omega

theorem pruneL_append (a b : List VTree) : pruneL (a ++ b) = pruneL a ++ pruneL b := by
  induction a with
  | nil => simp [pruneL]
  | cons t ts ih => simp [pruneL, ih]

mutual
theorem size_prune_le : ∀ t : VTree, (prune t).size ≤ t.size
  | .node i kids => by
    simp only [prune, VTree.size]
    split
    · simp [sizeL]
    · have := sizeL_pruneL_le kids; omega
theorem sizeL_pruneL_le : ∀ q : List VTree, sizeL (pruneL q) ≤ sizeL q
  | [] => by simp [pruneL, sizeL]
  | t :: ts => by
    have h1 := size_prune_le t
    have h2 := sizeL_pruneL_le ts
    simp [pruneL, sizeL]; omega
end

def mkVisit (i : Info) : Visit := ⟨i, (downVerdict i).1⟩

theorem descend_eq_bfs (q : List VTree) :
    descend q = (bfs (pruneL q)).map mkVisit := by
  induction h : sizeL q using Nat.strongRecOn generalizing q with
  | _ n ih =>
    cases q with
    | nil => simp [descend, pruneL, bfs]
    | cons t q =>
      cases t with
      | node i kids =>
        rw [descend]
        simp only [pruneL, prune]
        rw [bfs]
        simp only [List.map_cons, mkVisit, validateDown_eq]
        congr 1
        by_cases hc : (downVerdict i).1.isSkipAll = true
        · simp only [hc, if_true, cutsBelow, List.append_nil]
          exact ih _ (by simp [← h, sizeL, VTree.size]; omega) _ rfl
        · have hc' : cutsBelow i = false := by simpa [cutsBelow] using hc
          simp only [hc, hc', if_false, Bool.false_eq_true]
          rw [← pruneL_append]
          exact ih _ (by simp [← h, sizeL, VTree.size, sizeL_append]; omega) _ rfl

theorem bfs_cons (i : Info) (kids q : List VTree) :
    bfs (.node i kids :: q) = i :: bfs (q ++ kids) := by rw [bfs]

theorem bfs_append (q r : List VTree) :
    bfs (q ++ r) = q.map VTree.info ++ bfs (r ++ q.flatMap VTree.kids) := by
  induction q generalizing r with
  | nil => simp
  | cons t q ih =>
    cases t with
    | node i kids =>
      simp only [List.cons_append, bfs_cons, List.map_cons, List.flatMap_cons, VTree.info,
        VTree.kids]
      rw [List.append_assoc, ih]
      simp [List.append_assoc]

theorem bfs_level (q : List VTree) :
    bfs q = q.map VTree.info ++ bfs (q.flatMap VTree.kids) := by
  have := bfs_append q []
  simpa using this

theorem bfs_eq_levelOrder (q : List VTree) : bfs q = levelOrder q := by
  induction h : sizeL q using Nat.strongRecOn generalizing q with
  | _ n ih =>
    cases q with
    | nil => simp [bfs, levelOrder]
    | cons t q =>
      rw [bfs_level, levelOrder]
      congr 1
      have := sizeL_flatMap_kids (t :: q)
      simp only [List.length_cons] at this
      exact ih _ (by omega) _ rfl

/-- **Visit order.** The elements the loop visits, in order, are exactly the documented ones:
    breadth-first over the tree with everything beneath SkipAll/SkipAllFalse removed. -/
theorem descend_visits (t : VTree) :
    descend [t] = (visited t).map mkVisit := by
  rw [descend_eq_bfs, bfs_eq_levelOrder]
  simp [visited, pruneL]

/-! ### accumulator and per-element verdicts -/

theorem validAfter_eq (i : Info) :
    validAfterUp (validAfterDown (downVerdict i).1) (upVerdict i).1 = verdict i := by
  unfold verdict
  generalize (downVerdict i).1 = d
  generalize (upVerdict i).1 = u
  cases d <;> cases u <;> rfl

theorem foldl_accDown (l : List Info) (a : Bool) :
    (l.map mkVisit).foldl (fun a v => accDown a v.ret) a
      = (a && l.all (fun i => (validAfterDown (downVerdict i).1).truthy)) := by
  induction l generalizing a with
  | nil => simp
  | cons i l ih =>
    simp only [List.map_cons, List.foldl_cons, List.all_cons]
    rw [ih]
    simp only [mkVisit]
    generalize (downVerdict i).1 = d
    cases d <;> cases a <;> simp [accDown, validAfterDown, Ret.truthy, Valid.truthy, Valid.ofBool]

theorem foldl_accUp (l : List Info) (a : Bool) :
    (l.map mkVisit).foldl
        (fun a v => accUp a (validAfterDown v.ret) (validateUp v.info).1) a
      = (a && l.all (fun i =>
          !(validAfterDown (downVerdict i).1).truthy || (verdict i).truthy)) := by
  induction l generalizing a with
  | nil => simp
  | cons i l ih =>
    simp only [List.map_cons, List.foldl_cons, List.all_cons]
    rw [ih]
    simp only [mkVisit, validateUp_eq]
    rw [← validAfter_eq]
    generalize (downVerdict i).1 = d
    generalize (upVerdict i).1 = u
    cases d <;> cases u <;> cases a <;>
      simp [accUp, validAfterDown, validAfterUp, Ret.truthy, Valid.truthy, Valid.ofBool]

theorem verdict_truthy_imp_down (i : Info) :
    (verdict i).truthy = true → (validAfterDown (downVerdict i).1).truthy = true := by
  rw [← validAfter_eq]
  generalize (downVerdict i).1 = d
  generalize (upVerdict i).1 = u
  cases d <;> cases u <;> simp [validAfterDown, validAfterUp, Ret.truthy, Valid.truthy, Valid.ofBool]

theorem all_combine (l : List Info) :
    (l.all (fun i => (validAfterDown (downVerdict i).1).truthy)
      && l.all (fun i => !(validAfterDown (downVerdict i).1).truthy || (verdict i).truthy))
    = l.all (fun i => (verdict i).truthy) := by
  induction l with
  | nil => simp
  | cons i l ih =>
    simp only [List.all_cons]
    rw [← ih]
    have := verdict_truthy_imp_down i
    cases h1 : (validAfterDown (downVerdict i).1).truthy <;>
      cases h2 : (verdict i).truthy <;> simp_all

/-! ### the refinement theorem -/

/-- **C05 main theorem.**  For every tree and every outcome assignment, the implementation's
    algorithm produces exactly the documented result: same return value, same final `.valid`
    for each visited element (and nothing else is written), same validator invocations in the
    same order. -/
theorem validate_refines (t : VTree) : validate t = specValidate t := by
  unfold validate specValidate
  simp only [descend_visits]
  congr 1
  · -- return value
    rw [foldl_accDown, ← List.map_reverse, foldl_accUp]
    simp only [Bool.true_and, List.all_reverse]
    rw [all_combine]; rfl
  · -- valids
    simp only [List.map_map, expectedValids]
    apply List.map_congr_left
    intro i _
    simp [mkVisit, validateUp_eq, validAfter_eq]
  · -- log
    simp only [expectedLog, ← List.map_reverse, List.flatMap_map, mkVisit, validateDown_eq,
      validateUp_eq]

/-! ### corollaries: the clauses of the property -/

/-- False exactly when some visited element ended invalid. -/
theorem result_false_iff (t : VTree) :
    (validate t).ret = false ↔ ∃ i ∈ visited t, verdict i = .fls := by
  rw [validate_refines]
  simp only [specValidate, expectedRet]
  constructor
  · intro h
    obtain ⟨i, hi, hv⟩ := List.all_eq_false.mp h
    refine ⟨i, hi, ?_⟩
    cases hvv : verdict i <;> simp_all [Valid.truthy]
  · rintro ⟨i, hi, hv⟩
    apply Bool.eq_false_iff.mpr
    intro hall
    have := List.all_eq_true.mp hall i hi
    simp [hv, Valid.truthy] at this

/-- `.valid` is written for visited elements only, each with its own verdict. -/
theorem valids_are_visited (t : VTree) :
    (validate t).valids = (visited t).map (fun i => (i.id, verdict i)) := by
  rw [validate_refines]; rfl

/-- An element's verdict is a function of that element alone: invalid siblings (or any other
    element) never change it. -/
theorem siblings_independent (i : Info) :
    verdict i = validAfterUp (validAfterDown (validateDown i).1) (validateUp i).1 := by
  rw [validateDown_eq, validateUp_eq, validAfter_eq]

/-- Validators of empty optional elements are never invoked. -/
theorem optional_empty_skipped (i : Info) (h : i.empty = true) (ho : i.optional = true) :
    (validateDown i).2 = 0 ∧ (validateUp i).2 = 0 := by
  simp only [validateDown, validateUp, validateElement, h, ho]
  constructor <;> split <;> simp <;> split <;> simp

/-- Each element's list stops at its first failure or Skip: the number of validators invoked is
    the position of the first non-True outcome (plus one). -/
theorem stops_at_first (vs : List Outcome) : (runValidators vs).2 = invoked vs := by
  rw [runValidators_eq]

/-- Nothing below a SkipAll / SkipAllFalse element is visited: the visited list is computed
    from the pruned tree, in which such an element has no children. -/
theorem never_below_skipall (i : Info) (kids : List VTree) (h : cutsBelow i = true) :
    prune (.node i kids) = .node i [] := by
  simp [prune, h]

/-- On a fresh tree (every `.valid` is Unevaluated, which is true) `all_valid` after the call
    is the conjunction over visited elements of their verdict's truth — i.e. the return value.
    `allValidAfter` reads unvisited elements as Unevaluated. -/
def allValidAfter (t : VTree) : Bool := ((validate t).valids.all (fun p => p.2.truthy))

theorem fresh_result_eq_all_valid (t : VTree) : (validate t).ret = allValidAfter t := by
  unfold allValidAfter
  rw [validate_refines]
  simp [specValidate, expectedRet, expectedValids, List.all_map, Function.comp_def]

/-! ### non-vacuity: a concrete tree exercising SkipAll, a failing sibling, an optional empty -/

def exTree : VTree :=
  .node ⟨0, true, false, false, [.tru], [.tru, .fls]⟩
    [ .node ⟨1, true, false, false, [.skipAll], []⟩ [ .node ⟨3, false, false, false, [.fls], []⟩ [] ],
      .node ⟨2, false, true, true, [.fls], []⟩ [],
      .node ⟨4, false, false, false, [.tru, .none, .tru], []⟩ [] ]

example : (validate exTree).log =
    [(0, true, 0), (1, true, 0), (4, true, 0), (4, true, 1), (0, false, 0), (0, false, 1)] := by
  simp [validate, exTree, descend, validateDown, validateUp, validateElement, runValidators,
    Ret.isSkipAll, callsOf, List.range, List.range.loop]
example : (validate exTree).ret = false := by
  simp [validate, exTree, descend, validateDown, validateUp, validateElement, runValidators,
    Ret.isSkipAll, accDown, accUp, validAfterDown, Ret.truthy, Valid.truthy, Valid.ofBool]
example : (validate exTree).valids = [(0, .fls), (1, .tru), (2, .tru), (4, .fls)] := by
  simp [validate, exTree, descend, validateDown, validateUp, validateElement, runValidators,
    Ret.isSkipAll, validAfterUp, validAfterDown, Ret.truthy, Valid.truthy, Valid.ofBool]

end Flatland.C05.Proofs
