/-
C18 — "the Ref itself never appears in flat output".  Model: Flatland/C18Flat.lean over the queue
loop `Flatland.Flat.bfsFlat`; flags from Flatland/Generated/C18Flags.lean.
-/
import Flatland.C18Flat
import Proofs.Lemmas.FlatBfs
namespace Flatland.C18.Flat.Proofs
open Flatland.Scalar Flatland.C18 Flatland.C18.Flat Flatland.Generated.C18
open Flatland.Flat

/-- generated obligation: class Ref is not flattenable in the current source -/
theorem ref_flags_ok : refFlattenable = false := by decide

theorem kidsFrom_append (p : List (List Char)) (s : Bool) (i : Nat) (a b : List FNode) :
    kidsFrom p s i (a ++ b) = kidsFrom p s i a ++ kidsFrom p s (i + a.length) b := by
  induction a generalizing i with
  | nil => simp [kidsFrom]
  | cons x xs ih =>
    have e : i + 1 + xs.length = i + (xs.length + 1) := by omega
    simp only [List.cons_append, kidsFrom, ih, List.length_cons, e]

/-- **nonflattenable_leaf_contributes_nothing** — in the queue loop of `flatten`, an element that is
    not flattenable and has no children (anywhere in the queue, so anywhere in the tree) contributes
    no pair and changes no other pair: the output is that of the queue without it. -/
theorem nonflattenable_leaf_contributes_nothing (sep : List Char) (a b : List QItem) (it : QItem)
    (hfl : it.2.fl = false) (hk : it.2.kids = []) :
    bfsFlat sep (a ++ it :: b) = bfsFlat sep (a ++ b) := by
  rw [bfsFlat_append, bfsFlat_append sep a b]
  congr 1
  rw [List.cons_append, bfsFlat_cons]
  have h1 : ownPair sep it = [] := by simp [ownPair, hfl]
  have h2 : pushed it = [] := by
    unfold pushed childItems
    rw [hk]
    split <;> simp [kidsFrom]
  simp [h1, h2]

/-- **ref_absent_from_flat** — for every form tree (scalars, Dicts, Lists, any depth, any member
    states), every target path and every separator: the flat output of the form with its Ref field
    is the flat output of the same form without the Ref field.  The only fact about class Ref it
    uses is the generated `ref_flags_ok` (`Ref.flattenable = False`, re-read from the source on
    every run); a Ref has no children because it is a Scalar. -/
theorem ref_absent_from_flat (sep : List Char) (t : Tree) (path : List PStep) :
    flattenNode sep (formNode t path) = flattenNode sep (treeNode none t) := by
  unfold formNode
  cases h : treeNode none t with
  | mk nm fl cfl u sl kids =>
    simp only [withField, flattenNode, FNode.fl, FNode.cfl, FNode.u, FNode.name]
    congr 1
    by_cases hc : cfl = true
    · simp only [hc, if_true]
      simp only [childItems, FNode.kids, FNode.slots]
      rw [kidsFrom_append]
      simp only [kidsFrom]
      have := nonflattenable_leaf_contributes_nothing sep
        (kidsFrom (namePath [] (FNode.mk nm fl cfl u sl (kids ++ [refNode ['r'] (refText t path)]))) sl 0 kids) []
        ((if sl then namePath [] (FNode.mk nm fl cfl u sl (kids ++ [refNode ['r'] (refText t path)])) ++ [natStr (0 + kids.length)]
            else namePath [] (FNode.mk nm fl cfl u sl (kids ++ [refNode ['r'] (refText t path)]))),
          refNode ['r'] (refText t path))
        (by simp [refNode, FNode.fl, ref_flags_ok]) (by simp [refNode, FNode.kids])
      simp only [List.append_nil] at this
      simpa [namePath, FNode.name] using this
    · simp [hc]

/-- non-vacuity: the form `Dict{sub: Dict{t}, o, r: Ref('../sub/t')}` flattens to its two scalars -/
example :
    formFlat (.dict ["sub".toList, "o".toList]
      [.dict ["t".toList] [.leaf 0 (.string true) ⟨.none, .str ['v'], ['v']⟩], .leaf 1 (.string true) ⟨.none, .none, []⟩])
      [.name "sub".toList, .name "t".toList] = [(['o'], []), ("sub_t".toList, ['v'])] := by
  simp [formFlat, formNode, withField, treeNode, dictKids, refNode, refText, flattenNode, FNode.fl, FNode.cfl, FNode.u,
    childItems, kidsFrom, namePath, FNode.name, FNode.kids, FNode.slots, bfsFlat_cons, bfsFlat_nil, ownPair, pushed, joinSep,
    dictFlattenable, dictChildrenFlattenable, scalarFlattenable, scalarChildrenFlattenable, refFlattenable,
    refChildrenFlattenable]

end Flatland.C18.Flat.Proofs
