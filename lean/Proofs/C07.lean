/-
C07 — flatten() is compositional and names every leaf by its position.

The model is `Flatland.Flat.flatten` (`flattenNode` / `bfsFlat`): the queue loop of
`Element.flatten` over element trees resolved against their schema.
-/
import Flatland.Flat
import Proofs.Lemmas.FlatBfs
namespace Flatland.Flat.Proofs
open Flatland.Flat

/-! ### compositionality -/

/-- **Compositional.**  The pairs a container emits are exactly its own pair (if it is flattenable)
    plus the pairs each member emits from its own `flatten()`, provided the container lets its
    members be flattened (`children_flattenable`).  Stated as equality of multisets (`List.Perm`),
    for every node of every tree, every separator, every path of ancestor names. -/
theorem flatten_compositional (sep : Str) (p : List Str) (n : FNode) (h : n.cfl = true) :
    (flattenAt sep p n).Perm
      (ownPair sep (p, n) ++ (childItems p n).flatMap (fun it => flattenAt sep it.1 it.2)) := by
  unfold flattenAt
  apply List.Perm.append_left
  have : pushed (p, n) = childItems p n := by simp [pushed, h]
  rw [this]
  exact bfsFlat_perm_flatMap sep _

/-- the same, for a root element -/
theorem flatten_root_compositional (sep : Str) (n : FNode) (h : n.cfl = true) :
    (flattenNode sep n).Perm
      (ownPair sep ([], n) ++ (childItems [] n).flatMap (fun it => flattenAt sep it.1 it.2)) := by
  rw [flattenNode_eq]; exact flatten_compositional sep [] n h

/-- **Exact order (level order).**  The queue emits one whole level, then everything that level
    pushed: the breadth-first order of the documentation. -/
theorem flatten_level_order (sep : Str) (q : List QItem) :
    bfsFlat sep q = q.flatMap (ownPair sep) ++ bfsFlat sep (q.flatMap pushed) :=
  bfsFlat_level sep q

/-- **Joined values are opaque.**  An element that does not let its members be flattened
    (JoinedString) emits its own pair and nothing else … -/
theorem joined_opaque (sep : Str) (p : List Str) (n : FNode) (h : n.cfl = false) :
    flattenAt sep p n = ownPair sep (p, n) := by
  simp [flattenAt, pushed, h, bfsFlat_nil]

/-- … and an ancestor never emits anything from beneath it: in the ancestor's queue the joined
    element contributes exactly its own pair. -/
theorem joined_opaque_in_queue (sep : Str) (it : QItem) (q : List QItem) (h : it.2.cfl = false) :
    bfsFlat sep (it :: q) = ownPair sep it ++ bfsFlat sep q := by
  rw [bfsFlat_cons]; simp [pushed, h]

/-! ### every key is the path of its element -/

/-- path handed to member `i` of a node: the node's own name is appended; members of a List get
    their *position* interposed -/
def childPath (p : List Str) (n : FNode) (i : Nat) : List Str :=
  if n.slots then namePath p n ++ [natStr i] else namePath p n

theorem kidsFrom_eq (p : List Str) (s : Bool) (i : Nat) (ks : List FNode) :
    kidsFrom p s i ks =
      (List.range ks.length).map (fun j => ((if s then p ++ [natStr (i + j)] else p), ks[j]!)) := by
  induction ks generalizing i with
  | nil => simp [kidsFrom]
  | cons k ks ih =>
    simp only [kidsFrom, List.length_cons, List.range_succ_eq_map, List.map_cons, List.map_map]
    congr 1
    rw [ih (i + 1)]
    apply List.map_congr_left
    intro j _
    simp only [Function.comp, List.getElem!_cons_succ]
    have : i + 1 + j = i + j.succ := by omega
    simp [this]

/-- **Positional.**  Member `i` of a node is enqueued with the node's path extended by the node's
    name and — for Lists — by the decimal form of its current position `i`. -/
theorem childItems_positional (p : List Str) (n : FNode) :
    childItems p n = (List.range n.kids.length).map (fun i => (childPath p n i, n.kids[i]!)) := by
  unfold childItems childPath
  rw [kidsFrom_eq]
  apply List.map_congr_left
  intro j _
  simp

/-- `Below p n p' n'`: the element `n'` (with ancestor names `p'`) is `n` itself or lies beneath `n`
    along members that are allowed to be flattened, the path growing as in `childPath`. -/
inductive Below : List Str → FNode → List Str → FNode → Prop
  | here (p n) : Below p n p n
  | kid {p n p' n'} (i : Nat) (hc : n.cfl = true) (hi : i < n.kids.length)
      (h : Below (childPath p n i) (n.kids[i]!) p' n') : Below p n p' n'

theorem mem_childItems {p : List Str} {n : FNode} {it : QItem} (h : it ∈ childItems p n) :
    ∃ i, i < n.kids.length ∧ it = (childPath p n i, n.kids[i]!) := by
  rw [childItems_positional] at h
  simp only [List.mem_map, List.mem_range] at h
  obtain ⟨i, hi, rfl⟩ := h
  exact ⟨i, hi, rfl⟩

theorem mem_flattenAt_below (sep : Str) :
    ∀ (sz : Nat) (p : List Str) (n : FNode), n.size ≤ sz → ∀ x, x ∈ flattenAt sep p n →
      ∃ p' n', Below p n p' n' ∧ n'.fl = true ∧ x = (joinSep sep (namePath p' n'), n'.u) := by
  intro sz
  induction sz with
  | zero =>
    intro p n hsz
    obtain ⟨name, fl, cfl, u, slots, kids⟩ := n
    simp [FNode.size] at hsz
  | succ sz ih =>
    intro p n hsz x hx
    unfold flattenAt at hx
    rcases List.mem_append.mp hx with hown | hrest
    · refine ⟨p, n, Below.here p n, ?_⟩
      unfold ownPair at hown
      split at hown
      · rename_i hfl
        simp at hown
        exact ⟨hfl, hown⟩
      · simp at hown
    · by_cases hc : n.cfl = true
      · have hp : pushed (p, n) = childItems p n := by simp [pushed, hc]
        rw [hp] at hrest
        have hperm := bfsFlat_perm_flatMap sep (childItems p n)
        have hmem := hperm.mem_iff.mp hrest
        obtain ⟨it, hit, hxin⟩ := List.mem_flatMap.mp hmem
        obtain ⟨i, hi, rfl⟩ := mem_childItems hit
        have hsize : (n.kids[i]!).size ≤ sz := by
          obtain ⟨name, fl, cfl, u, slots, kids⟩ := n
          simp only [FNode.size, FNode.kids] at hsz hi ⊢
          have : (kids[i]!).size ≤ fsizeL kids := by
            clear hsz hrest hmem hit hxin hperm hp hx hc
            induction kids generalizing i with
            | nil => simp at hi
            | cons k ks ihk =>
              cases i with
              | zero => simp [fsizeL]
              | succ j =>
                simp only [List.length_cons, Nat.add_lt_add_iff_right] at hi
                have := ihk j hi
                simp only [List.getElem!_cons_succ, fsizeL]
                omega
          omega
        obtain ⟨p', n', hb, hfl, hxe⟩ := ih _ _ hsize x hxin
        exact ⟨p', n', Below.kid i hc hi hb, hfl, hxe⟩
      · have hp : pushed (p, n) = [] := by simp [pushed, hc]
        rw [hp, bfsFlat_nil] at hrest
        simp at hrest

/-- **Keys are paths.**  Every pair emitted by `flatten()` belongs to a flattenable element lying
    at or beneath the root along flattenable-children links; its key is the separator-join of the
    names on the path from the root, list members contributing their current index; its value is
    that element's text. -/
theorem keys_are_paths (sep : Str) (n : FNode) (x : Str × Str) (hx : x ∈ flattenNode sep n) :
    ∃ p' n', Below [] n p' n' ∧ n'.fl = true ∧ x = (joinSep sep (namePath p' n'), n'.u) := by
  rw [flattenNode_eq] at hx
  exact mem_flattenAt_below sep n.size [] n (Nat.le_refl _) x hx

/-- Nothing beneath an element that presents itself as a single joined value is `Below` it (other
    than the element itself), hence nothing beneath it is ever emitted. -/
theorem below_joined {p : List Str} {n : FNode} (h : n.cfl = false) {p' n'} (hb : Below p n p' n') :
    p' = p ∧ n' = n := by
  cases hb with
  | here => exact ⟨rfl, rfl⟩
  | kid i hc _ _ => rw [h] at hc; cases hc

/-! ### non-vacuity: a Dict holding a joined value, a List of two strings and a scalar -/

def exNode : FNode :=
  .mk none false true [] false
    [ .mk (some "j".toList) true false "a,b".toList false
        [.mk none true true "a".toList false [], .mk none true true "b".toList false []],
      .mk (some "l".toList) false true [] true
        [.mk (some "s".toList) true true "x".toList false [], .mk (some "s".toList) true true "y".toList false []],
      .mk (some "k".toList) true true "z".toList false [] ]

example : flattenNode "_".toList exNode =
    [("j".toList, "a,b".toList), ("k".toList, "z".toList),
     ("l_0_s".toList, "x".toList), ("l_1_s".toList, "y".toList)] := by
  simp [flattenNode, exNode, bfsFlat, childItems, kidsFrom, namePath, joinSep, natStr, FNode.fl,
    FNode.cfl, FNode.u, FNode.name, FNode.kids, FNode.slots]
  decide

end Flatland.Flat.Proofs
