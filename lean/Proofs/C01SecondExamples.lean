/-
C01, flatten-level clauses: non-vacuity on states where something really is pruned, and the witness
that the pruning is not idempotent on trees (so the second-round-trip clause is about flat output).
-/
import Proofs.C01Examples
import Proofs.C01JoinedExamples
import Proofs.C01Second
import Proofs.C01Third
namespace Flatland.Flat.Proofs
open Flatland.Flat Flatland.Flat.Spec

theorem ex_digits (i : Nat) (h : i < 10) : (natStr i).length ≤ exEnv01.maxDigits := by
  rw [natStr_lt i h]; simp [exEnv01]

/-! ### the pruning List of `C01Examples`: `['', 'z', '']` -/

/-- both hypotheses-laden sides are concrete: the first trip really prunes … -/
theorem ex3_flatten : flatten exEnv01 "_".toList exSchema2 exElem3
    = [("l_0".toList, "".toList), ("l_1".toList, "z".toList), ("l_2".toList, "".toList)] := by
  simp [flatten, flattenNode, exSchema2, exElem3, resolve, resolveList, bfsFlat, childItems, kidsFrom,
    namePath, joinSep, natStr, digitChar, FNode.fl, FNode.cfl, FNode.u, FNode.name, FNode.kids,
    FNode.slots]

theorem ex3_flatten_pruned : flatten exEnv01 "_".toList exSchema2
      (fromFlat exEnv01 "_".toList exSchema2 (flatten exEnv01 "_".toList exSchema2 exElem3))
    = [("l_0".toList, "z".toList)] := by
  rw [roundtrip_pruned exEnv01 "_".toList exSchema2 exElem3 ex2_sepSafe exEnvOK (by decide) (by decide)
    (by decide) ex3_okP, ex3_pr]
  simp [flatten, flattenNode, exSchema2, resolve, resolveList, bfsFlat, childItems, kidsFrom,
    namePath, joinSep, natStr, digitChar, FNode.fl, FNode.cfl, FNode.u, FNode.name, FNode.kids,
    FNode.slots]

/-- … and the second trip changes nothing -/
example : flatten exEnv01 "_".toList exSchema2
      (fromFlat exEnv01 "_".toList exSchema2 (flatten exEnv01 "_".toList exSchema2
        (fromFlat exEnv01 "_".toList exSchema2 (flatten exEnv01 "_".toList exSchema2 exElem3))))
    = [("l_0".toList, "z".toList)] := by
  rw [roundtrip_second_flatten exEnv01 "_".toList exSchema2 exElem3 ex2_sepSafe exEnvOK (by decide)
    (by decide) (by decide) ex3_okP, ex3_flatten_pruned]

/-- at pair level: what is left is a subsequence (indexes aside) with the same non-empty values -/
theorem ex3_noIdx : flattenNoIdx exEnv01 "_".toList exSchema2 exElem3
    = [("l".toList, "".toList), ("l".toList, "z".toList), ("l".toList, "".toList)] := by
  simp [flattenNoIdx, relFlat, bfsPath, ownPath, pushed, unslot, unslotL, exSchema2, exElem3, resolve,
    resolveList, childItems, kidsFrom, namePath, joinPair, joinSep, FNode.fl, FNode.cfl, FNode.u,
    FNode.name, FNode.kids, FNode.slots]

theorem ex3_noIdx_pruned : flattenNoIdx exEnv01 "_".toList exSchema2
      (fromFlat exEnv01 "_".toList exSchema2 (flatten exEnv01 "_".toList exSchema2 exElem3))
    = [("l".toList, "z".toList)] := by
  rw [roundtrip_pruned exEnv01 "_".toList exSchema2 exElem3 ex2_sepSafe exEnvOK (by decide) (by decide)
    (by decide) ex3_okP, ex3_pr]
  simp [flattenNoIdx, relFlat, bfsPath, ownPath, pushed, unslot, unslotL, exSchema2, resolve,
    resolveList, childItems, kidsFrom, namePath, joinPair, joinSep, FNode.fl, FNode.cfl, FNode.u,
    FNode.name, FNode.kids, FNode.slots]

example : [("l".toList, "z".toList)].Sublist
      [("l".toList, "".toList), ("l".toList, "z".toList), ("l".toList, "".toList)] ∧
    [("l".toList, "z".toList)].filter (fun p => !p.2.isEmpty)
      = [("l".toList, "".toList), ("l".toList, "z".toList), ("l".toList, "".toList)].filter
          (fun p => !p.2.isEmpty) := by
  have h := roundtrip_flatten_sub exEnv01 "_".toList exSchema2 exElem3 ex2_sepSafe exEnvOK (by decide)
    (by decide) (by decide) ex3_okP
  rw [ex3_noIdx_pruned, ex3_noIdx] at h
  exact h

/-! ### the pruning is not idempotent on trees: a non-pruning List of pruning Lists -/

/-- `List.named('n').using(prune_empty=False).of(List.of(String))` -/
def exSchemaNP : Schema :=
  .list (some "n".toList) false false 1024 (.list none false true 1024 (.leaf none false 0))

/-- `[['a'], ['']]` -/
def exElemNP : Elem := .list [.list [.leaf "a".toList], .list [.leaf "".toList]]

theorem exNP_sepSafe : SepSafe exEnv01 "_".toList (Tok exSchemaNP) := by
  apply sepSafe_single_char exEnv01 exEnvOK exSchemaNP '_'
  · decide
  · intro t ht
    simp only [exSchemaNP, names, Option.toList, List.append_nil, List.mem_singleton] at ht
    subst ht; decide

theorem exNP_okP : OkP exEnv01 exSchemaNP exElemNP := by
  simp only [exSchemaNP, exElemNP, OkP]
  refine ⟨by decide, fun i hi => ex_digits i (by simp at hi; omega), ?_⟩
  intro e he
  simp only [List.mem_cons, List.not_mem_nil, or_false] at he
  rcases he with rfl | rfl
  · simp only [OkP]
    refine ⟨by decide, fun i hi => ex_digits i (by simp at hi; omega), ?_⟩
    intro x hx
    simp only [List.mem_cons, List.not_mem_nil, or_false] at hx
    subst hx; simp [OkP, exEnv01]
  · simp only [OkP]
    refine ⟨by decide, fun i hi => ex_digits i (by simp at hi; omega), ?_⟩
    intro x hx
    simp only [List.mem_cons, List.not_mem_nil, or_false] at hx
    subst hx; simp [OkP, exEnv01]

/-- first trip: the inner `['']` is emptied, but keeps its slot (it *had* a flat pair) -/
theorem exNP_pr1 : pr exEnv01 false exSchemaNP exElemNP = .list [.list [.leaf "a".toList], .list []] := by
  simp [exSchemaNP, exElemNP, pr, dropTrailing, emitsB_list, emitsB_leaf]

/-- second trip: the now empty inner list has no flat pair and is dropped: the tree changes again -/
theorem exNP_pr2 : pr exEnv01 false exSchemaNP (pr exEnv01 false exSchemaNP exElemNP)
    = .list [.list [.leaf "a".toList]] := by
  rw [exNP_pr1]
  simp [exSchemaNP, pr, dropTrailing, emitsB_list, emitsB_leaf]

/-- the tree after two trips differs from the tree after one … -/
theorem exNP_tree_changes :
    fromFlat exEnv01 "_".toList exSchemaNP (flatten exEnv01 "_".toList exSchemaNP
      (fromFlat exEnv01 "_".toList exSchemaNP (flatten exEnv01 "_".toList exSchemaNP exElemNP)))
    ≠ fromFlat exEnv01 "_".toList exSchemaNP (flatten exEnv01 "_".toList exSchemaNP exElemNP) := by
  have hok' := okP_pr (env := exEnv01) exSchemaNP (by decide) (by decide) false exElemNP exNP_okP
  rw [roundtrip_pruned exEnv01 "_".toList exSchemaNP exElemNP exNP_sepSafe exEnvOK (by decide) (by decide)
      (by decide) exNP_okP,
    roundtrip_pruned exEnv01 "_".toList exSchemaNP _ exNP_sepSafe exEnvOK (by decide) (by decide)
      (by decide) hok', exNP_pr2, exNP_pr1]
  simp

/-- … but the flattened output does not -/
example :
    flatten exEnv01 "_".toList exSchemaNP
      (fromFlat exEnv01 "_".toList exSchemaNP (flatten exEnv01 "_".toList exSchemaNP
        (fromFlat exEnv01 "_".toList exSchemaNP (flatten exEnv01 "_".toList exSchemaNP exElemNP))))
    = flatten exEnv01 "_".toList exSchemaNP
      (fromFlat exEnv01 "_".toList exSchemaNP (flatten exEnv01 "_".toList exSchemaNP exElemNP)) :=
  roundtrip_second_flatten exEnv01 "_".toList exSchemaNP exElemNP exNP_sepSafe exEnvOK (by decide)
    (by decide) (by decide) exNP_okP

/-! ### no pruning sequence: the tree may shrink, the flat output is identical -/

/-- `List.named('n').using(prune_empty=False).of(List.using(prune_empty=False).of(String))` -/
def exSchemaNN : Schema :=
  .list (some "n".toList) false false 1024 (.list none false false 1024 (.leaf none false 0))

/-- `[['a', ''], []]`: the trailing empty inner list has no flat representation -/
def exElemNN : Elem := .list [.list [.leaf "a".toList, .leaf "".toList], .list []]

theorem exNN_sepSafe : SepSafe exEnv01 "_".toList (Tok exSchemaNN) := by
  apply sepSafe_single_char exEnv01 exEnvOK exSchemaNN '_'
  · decide
  · intro t ht
    simp only [exSchemaNN, names, Option.toList, List.append_nil, List.mem_singleton] at ht
    subst ht; decide

theorem exNN_okP : OkP exEnv01 exSchemaNN exElemNN := by
  simp only [exSchemaNN, exElemNN, OkP]
  refine ⟨by decide, fun i hi => ex_digits i (by simp at hi; omega), ?_⟩
  intro e he
  simp only [List.mem_cons, List.not_mem_nil, or_false] at he
  rcases he with rfl | rfl
  · simp only [OkP]
    refine ⟨by decide, fun i hi => ex_digits i (by simp at hi; omega), ?_⟩
    intro x hx
    simp only [List.mem_cons, List.not_mem_nil, or_false] at hx
    rcases hx with rfl | rfl <;> simp [OkP, exEnv01]
  · simp [OkP]

theorem exNN_pr : pr exEnv01 false exSchemaNN exElemNN
    = .list [.list [.leaf "a".toList, .leaf "".toList]] := by
  simp [exSchemaNN, exElemNN, pr, dropTrailing, emitsB_list, emitsB_leaf]

/-- the rebuilt tree has lost the trailing member … -/
theorem exNN_tree_changes :
    fromFlat exEnv01 "_".toList exSchemaNN (flatten exEnv01 "_".toList exSchemaNN exElemNN) ≠ exElemNN := by
  rw [roundtrip_pruned exEnv01 "_".toList exSchemaNN exElemNN exNN_sepSafe exEnvOK (by decide) (by decide)
    (by decide) exNN_okP, exNN_pr]
  simp [exElemNN]

/-- … its flattened output (empty value included) is identical -/
example :
    flatten exEnv01 "_".toList exSchemaNN
      (fromFlat exEnv01 "_".toList exSchemaNN (flatten exEnv01 "_".toList exSchemaNN exElemNN))
    = flatten exEnv01 "_".toList exSchemaNN exElemNN :=
  roundtrip_flatten_noprune exEnv01 "_".toList exSchemaNN exElemNN exNN_sepSafe exEnvOK (by decide)
    (by decide) (by decide) (by decide) exNN_okP

end Flatland.Flat.Proofs
