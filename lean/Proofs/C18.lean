import Flatland.C18
namespace Flatland.C18.Proofs
end Flatland.C18.Proofs
