/-
C18 — derived elements always reflect their parts.
Model A: Flatland/C18.lean (+ Flatland/C04.lean for whole-element set).  Spec B: Flatland/Spec/C18.lean.
-/
import Proofs.Lemmas.C18Date
import Proofs.C04
import Proofs.C18Multi
import Proofs.C18Flat
import Proofs.C18Joined
import Proofs.C18Explode
import Flatland.Spec.C18
import Flatland.Generated.C04Tables
namespace Flatland.C18.Proofs
open Flatland.Scalar Flatland.Scalar.Spec Flatland.C18 Flatland.C18.Spec
open Flatland.C04.Proofs (plainEnv pyTables_ok)

theorem strip_dateFmt (T : Tables) (hT : T.OK) (y m d : Int) :
    strip T (fmtInt 4 y ++ ['-'] ++ fmtInt 2 m ++ ['-'] ++ fmtInt 2 d) =
      fmtInt 4 y ++ ['-'] ++ fmtInt 2 m ++ ['-'] ++ fmtInt 2 d := by
  apply strip_of_all
  intro c hc
  simp only [List.mem_append, List.mem_singleton] at hc
  have key : ∀ w i, c ∈ fmtInt w i → isWs T c = false := by
    intro w i h
    rcases fmtInt_chars w i c h with h | ⟨k, hk, h⟩
    · rw [h]; exact hT.2.2.1
    · rw [h]; exact hT.2.1 k hk
  rcases hc with (((h | h) | h) | h) | h
  · exact key _ _ h
  · rw [h]; exact hT.2.2.1
  · exact key _ _ h
  · rw [h]; exact hT.2.2.1
  · exact key _ _ h

/-- **date_compose_spec** -/
theorem date_compose_spec (E : Env) (hT : E.T.OK) (vy vm vd : Native) (hfit : MembersFit E.T vy vm vd) :
    composeDate E vy vm vd = .ok (specCompose vy vm vd) := by
  unfold composeDate specCompose dateOf
  cases hy : asInt vy with
  | none => rfl
  | some y =>
    cases hm : asInt vm with
    | none => rfl
    | some m =>
      cases hd : asInt vd with
      | none => rfl
      | some d =>
        have hvy : vy = .int y := by cases vy <;> simp [asInt] at hy; rw [hy]
        have hvm : vm = .int m := by cases vm <;> simp [asInt] at hm; rw [hm]
        have hvd : vd = .int d := by cases vd <;> simp [asInt] at hd; rw [hd]
        have f1 := hfit vy (by simp) y hvy
        have f2 := hfit vm (by simp) m hvm
        have f3 := hfit vd (by simp) d hvd
        simp only [f1, f2, f3, Bool.and_self, if_true]
        simp only [adapt, if_true, strip_dateFmt E.T hT, adaptTemporalText, matchDate_fmt E.T hT]
        by_cases hr : 0 ≤ y ∧ y < 10000 ∧ 0 ≤ m ∧ m < 100 ∧ 0 ≤ d ∧ d < 100
        · simp only [hr, and_self, if_true]
          by_cases hv : validDate y.toNat m.toNat d.toNat = true
          · have hc : 0 ≤ y ∧ 0 ≤ m ∧ 0 ≤ d ∧ validDate y.toNat m.toNat d.toNat = true := ⟨hr.1, hr.2.2.1, hr.2.2.2.2.1, hv⟩
            simp only [hv, if_true, hc, and_self]
            obtain ⟨yn, rfl⟩ := Int.eq_ofNat_of_zero_le hr.1
            obtain ⟨mn, rfl⟩ := Int.eq_ofNat_of_zero_le hr.2.2.1
            obtain ⟨dn, rfl⟩ := Int.eq_ofNat_of_zero_le hr.2.2.2.2.1
            simp [dateText, pad4, pad2]
          · have hc : ¬ (0 ≤ y ∧ 0 ≤ m ∧ 0 ≤ d ∧ validDate y.toNat m.toNat d.toNat = true) := fun h => hv h.2.2.2
            simp [hv, hc]
        · have hc : ¬ (0 ≤ y ∧ 0 ≤ m ∧ 0 ≤ d ∧ validDate y.toNat m.toNat d.toNat = true) := by
            intro h
            have := validDate_bounds _ _ _ h.2.2.2
            omega
          simp [hr, hc]

theorem intFits_small (T : Tables) (hT : T.OK) (n : Nat) (h : n < 10 ^ 4) : intFits T (n : Int) = true := by
  have h4 := hT.2.2.2.2.1
  have : 10 ^ 4 ≤ 10 ^ T.maxDigits := Nat.pow_le_pow_right (by omega) h4
  simp only [intFits, Int.natAbs_natCast, decide_eq_true_eq]
  omega

theorem setScalar_int_member (E : Env) (sg : Bool) (w : Nat) (n : Nat) (hfit : intFits E.T (n : Int) = true) :
    setScalar E (.integer sg w) (.int n) = .ok ⟨⟨.int n, .int n, fmtInt w n⟩, true, [true]⟩ := by
  have : ¬ ((n : Int) < 0) := by omega
  cases sg <;> simp [setScalar, adapt, checkSigned, uOfValue, serialize, pyFmtInt, hfit, this]


theorem specCompose_valid (y m d : Nat) (hv : validDate y m d = true) :
    specCompose (.int y) (.int m) (.int d) = (dateText y m d, .date y m d) := by
  simp [specCompose, dateOf, asInt, hv]

/-- **date_explode** — setting a DateYYYYMMDD with a value that denotes the date `y-m-d` (a date, a
    datetime, or a text the Date type adapts) returns True, sets year, month and day to exactly
    `y`, `m`, `d`, and the element then composes back to that date. -/
theorem date_explode (E : Env) (hT : E.T.OK) (c : DateCfg) (hc : c.Integers) (s : DateState) (x : Native) (y m d : Nat)
    (hv : validDate y m d = true)
    (hx : adapt E (.date true) x = .ok (some (.date y m d)) ∨
          ∃ h mi sec us, adapt E (.date true) x = .ok (some (.datetime y m d h mi sec us))) :
    ∃ s', s.step E c (.set x) = .ok (s', some true) ∧
      s'.y.value = .int y ∧ s'.m.value = .int m ∧ s'.d.value = .int d ∧
      s'.compose E = .ok (dateText y m d, .date y m d) := by
  obtain ⟨hy, hm, hd⟩ := validDate_bounds y m d hv
  have fy := intFits_small E.T hT y hy
  have fm := intFits_small E.T hT m (by omega)
  have fd := intFits_small E.T hT d (by omega)
  have hcomp : composeDate E (.int y) (.int m) (.int d) = .ok (dateText y m d, .date y m d) := by
    rw [date_compose_spec E hT _ _ _ (by
      intro v hv' i hi
      simp only [List.mem_cons, List.mem_nil_iff, or_false] at hv'
      rcases hv' with h | h | h <;> (subst h; cases hi; assumption)), specCompose_valid y m d hv]
  obtain ⟨⟨sy, wy, hky⟩, ⟨sm, wm, hkm⟩, ⟨sd, wd, hkd⟩⟩ := hc
  refine ⟨⟨⟨.int y, .int y, fmtInt wy y⟩, ⟨.int m, .int m, fmtInt wm m⟩, ⟨.int d, .int d, fmtInt wd d⟩⟩, ?_, rfl, rfl, rfl, hcomp⟩
  rcases hx with hx | ⟨h, mi, sec, us, hx⟩ <;>
    simp [DateState.step, DateState.toElem, DateCfg.schema, Flatland.C04.setElem, hx, hky, hkm, hkd,
      Flatland.C04.Proofs.scalarSetTrace_eq, setScalar_int_member, fy, fm, fd, DateState.ofElem]

/-- non-vacuity of `Flatland.C18.Explode.Proofs.date_explode_all_members`: its hypothesis (a completed
    whole-element set with a value that denotes a date) holds e.g. for the generated members -/
example (E : Env) (hT : E.T.OK) (s : DateState) (x : Native) (y m d : Nat) (hv : validDate y m d = true)
    (hx : adapt E (.date true) x = .ok (some (.date y m d))) : ∃ s' ret, s.step E {} (.set x) = .ok (s', ret) := by
  obtain ⟨s', h, _⟩ := date_explode E hT {} ⟨⟨true, 4, rfl⟩, ⟨true, 2, rfl⟩, ⟨true, 2, rfl⟩⟩ s x y m d hv (Or.inl hx)
  exact ⟨s', _, h⟩

theorem findSome_map_ok {α β} (f : Except Raise β → Option α) (hf : ∀ r, f (.ok r) = none)
    (rs : List β) : (rs.map Except.ok).findSome? f = none := by
  induction rs with
  | nil => rfl
  | cons r t ih => simp [List.findSome?, hf, ih]

theorem filterMap_map_ok {β} (f : Except Raise β → Option β) (hf : ∀ r, f (.ok r) = some r)
    (rs : List β) : (rs.map Except.ok).filterMap f = rs := by
  induction rs with
  | nil => rfl
  | cons r t ih => simp [List.filterMap, hf, ih]

theorem settled_results (E : Env) (k : Kind) (s : JoinedState) (h : Settled E k s) :
    ∃ rs : List SetResult, s.map (fun st => setScalar E k (.str st.u)) = rs.map .ok ∧
      rs.map (·.st.u) = s.map (·.u) := by
  induction s with
  | nil => exact ⟨[], rfl, rfl⟩
  | cons st t ih =>
    obtain ⟨r, hr, hu⟩ := h st (by simp)
    obtain ⟨rs, h1, h2⟩ := ih (fun x hx => h x (List.mem_cons_of_mem _ hx))
    exact ⟨r :: rs, by simp [hr, h1], by simp [hu, h2]⟩

theorem settled_traces (E : Env) (k : Kind) (s : JoinedState) (h : Settled E k s) :
    ∃ rs : List SetResult,
      s.map (fun st => Flatland.C04.scalarSetTrace E k Flatland.C04.blankState (.str st.u)) =
        (rs.map fun r => (r.st, r.flag, [(r.flag, r.st)])).map .ok ∧
      rs.map (·.st.u) = s.map (·.u) := by
  induction s with
  | nil => exact ⟨[], rfl, rfl⟩
  | cons st t ih =>
    obtain ⟨r, hr, hu⟩ := h st (by simp)
    obtain ⟨rs, h1, h2⟩ := ih (fun x hx => h x (List.mem_cons_of_mem _ hx))
    refine ⟨r :: rs, ?_, by simp [hu, h2]⟩
    simp only [List.map_cons, h1]
    rw [Flatland.C04.Proofs.scalarSetTrace_eq, hr]

/-- when no piece has an empty text under prune_empty, the loop keeps every member -/
theorem keepPieces_all_kept (prune : Bool) (l : List (SState × Bool × List (Bool × SState))) (i : Nat)
    (h : ∀ r ∈ l, prune = true → r.1.u ≠ []) :
    (Flatland.C04.keepPieces prune l i).1 = l.map fun r => (r.1, r.2.1) := by
  induction l generalizing i with
  | nil => rfl
  | cons r rest ih =>
    have hr := h r (by simp)
    have ih' := fun j => ih j (fun x hx => h x (List.mem_cons_of_mem _ hx))
    simp only [Flatland.C04.keepPieces]
    split
    · rename_i hc
      simp only [Bool.and_eq_true, List.isEmpty_iff] at hc
      exact absurd hc.2 (hr hc.1)
    · simp [ih' (i + 1)]

/-- what the loop keeps under prune_empty has a non-empty text -/
theorem keepPieces_nonempty (prune : Bool) (l : List (SState × Bool × List (Bool × SState))) (i : Nat) :
    ∀ q ∈ (Flatland.C04.keepPieces prune l i).1, prune = true → q.1.u ≠ [] := by
  induction l generalizing i with
  | nil => intro q hq; simp [Flatland.C04.keepPieces] at hq
  | cons r rest ih =>
    intro q hq hp
    simp only [Flatland.C04.keepPieces] at hq
    split at hq
    · exact ih i q hq hp
    · rename_i hc
      rcases List.mem_cons.mp hq with rfl | hq
      · intro hu
        apply hc
        simp only at hu
        simp [hp, hu]
      · exact ih (i + 1) q hq hp

theorem setElem_joined_noEmpty (E : Env) (sep : Str) (sp : Splitter) (prune : Bool) (k : Kind)
    (old : Flatland.C04.Elem) (x : Flatland.C04.Input) (out : Flatland.C04.SetOut)
    (h : Flatland.C04.setElem E (.joined sep sp prune k) old x = .ok out) :
    ∃ ms, out.elem = .joined ms ∧ (prune = true → ∀ st ∈ ms, st.u ≠ []) := by
  simp only [Flatland.C04.setElem] at h
  split at h
  · simp at h
  · simp only [Except.ok.injEq] at h; subst h; exact ⟨[], rfl, by simp⟩
  · split at h
    · simp at h
    · simp only [Except.ok.injEq] at h; subst h
      refine ⟨_, rfl, ?_⟩
      intro hp st hst
      obtain ⟨q, hq, rfl⟩ := List.mem_map.mp hst
      exact keepPieces_nonempty prune _ 0 q hq hp

/-- **set_establishes_noEmpty** (since fix 2a6b55c) — after ANY completed whole-element `set()`
    of a JoinedString, no member has the text `''` under prune_empty: the state satisfies
    `NoEmptyTextUnderPrune`.  Only member mutation (append / member set) can break it (KF-C18-a). -/
theorem set_establishes_noEmpty (E : Env) (c : JoinedCfg) (s s' : JoinedState) (x : Flatland.C04.Input)
    (ret : Option Bool) (h : joinedSet E c s x = .ok (s', ret)) : NoEmptyTextUnderPrune c s' := by
  unfold joinedSet at h
  cases hset : Flatland.C04.setElem E c.schema (.joined s) x with
  | error e => simp [hset] at h
  | ok out =>
    simp only [hset, Except.ok.injEq, Prod.mk.injEq] at h
    obtain ⟨rfl, _⟩ := h
    obtain ⟨ms, hms, hne⟩ := setElem_joined_noEmpty E c.sep c.sp c.prune c.member _ x out hset
    rw [hms]
    exact hne

/-- **joined_reset** (partial: `SplitStable`, `NoEmptyTextUnderPrune`; see KF-C18-a / KF-C18-c) —
    setting a JoinedString to its own value reproduces that value. -/
theorem joined_reset_partial (E : Env) (c : JoinedCfg) (s : JoinedState)
    (hsplit : SplitStable E.T c s) (hprune : NoEmptyTextUnderPrune c s) (hset : Settled E c.member s) :
    ∃ s' flag, joinedSet E c s (.leaf (.str (joinedValue c s))) = .ok (s', some flag) ∧
      joinedValue c s' = joinedValue c s := by
  obtain ⟨rs, h1, h2⟩ := settled_traces E c.member s hset
  have hne : ∀ r ∈ rs.map (fun r : SetResult => (r.st, r.flag, [(r.flag, r.st)])), c.prune = true → r.1.u ≠ [] := by
    intro r hr hp
    obtain ⟨r0, hr0, rfl⟩ := List.mem_map.mp hr
    have : r0.st.u ∈ s.map (·.u) := h2 ▸ List.mem_map_of_mem (f := fun x : SetResult => x.st.u) hr0
    obtain ⟨st, hst, hu⟩ := List.mem_map.mp this
    simp only
    rw [← hu]
    exact hprune hp st hst
  refine ⟨rs.map (·.st), rs.all (·.flag), ?_, ?_⟩
  · unfold joinedSet JoinedCfg.schema
    simp only [Flatland.C04.setElem]
    unfold SplitStable at hsplit
    simp only [hsplit]
    have : List.map (fun v => Flatland.C04.scalarSetTrace E c.member Flatland.C04.blankState v)
        (List.map Native.str (List.map (fun x => x.u) s)) =
        (rs.map fun r => (r.st, r.flag, [(r.flag, r.st)])).map .ok := by
      rw [← h1]; simp [List.map_map, Function.comp_def]
    simp only [this]
    rw [findSome_map_ok _ (fun _ => rfl), filterMap_map_ok _ (fun _ => rfl)]
    simp only [keepPieces_all_kept c.prune _ 0 hne]
    simp [joinedOfElem, List.map_map, Function.comp_def, List.all_map]
  · unfold joinedValue
    simp only [List.map_map]
    have : (List.map ((fun x => x.u) ∘ fun x => x.st) rs) = rs.map (·.st.u) := by simp [Function.comp_def]
    rw [this, h2]

def C18_Full_joined_reset : Prop :=
  ∀ (c : JoinedCfg) (s : JoinedState), Settled plainEnv c.member s →
    ∃ s' flag, joinedSet plainEnv c s (.leaf (.str (joinedValue c s))) = .ok (s', some flag) ∧
      joinedValue c s' = joinedValue c s

def witnessCfg : JoinedCfg := ⟨[','], .static, true, .string true⟩
def witnessState : JoinedState :=
  [⟨.str ['a'], .str ['a'], ['a']⟩, ⟨.str [' '], .str [], []⟩, ⟨.str ['b'], .str ['b'], ['b']⟩]

theorem string_settled (E : Env) (b : Bool) (u : Str) (h : b = true → strip E.T u = u) :
    ∃ r, setScalar E (.string b) (.str u) = .ok r ∧ r.st.u = u := by
  cases b
  · exact ⟨⟨⟨.str u, .str u, u⟩, true, [true]⟩, by simp [setScalar, adapt, uOfValue, serialize], rfl⟩
  · refine ⟨⟨⟨.str u, .str u, u⟩, true, [true]⟩, ?_, rfl⟩
    simp [setScalar, adapt, uOfValue, serialize, h rfl]

theorem witness_run :
    joinedSet plainEnv witnessCfg witnessState (.leaf (.str (joinedValue witnessCfg witnessState))) =
      .ok ([⟨.str ['a'], .str ['a'], ['a']⟩, ⟨.str ['b'], .str ['b'], ['b']⟩], some true) := by
  rfl

/-- KF-C18-a: `JoinedString(['a', ' ', 'b'])` has value `'a,,b'`; setting that gives `'a,b'` -/
theorem C18_joined_reset_fails : ¬ C18_Full_joined_reset := by
  intro h
  obtain ⟨s', flag, h1, h2⟩ := h witnessCfg witnessState (by
    intro st hst
    simp only [witnessState, List.mem_cons, List.mem_nil_iff, or_false] at hst
    rcases hst with rfl | rfl | rfl <;> exact string_settled plainEnv true _ (fun _ => by decide))
  rw [witness_run] at h1
  simp only [Except.ok.injEq, Prod.mk.injEq] at h1
  obtain ⟨rfl, _⟩ := h1
  revert h2
  decide

/-! ### members produced by set() are settled -/

/-- the text a member holds after `set(text)` is a fixed point of `set` (C04 `norm_idem`) -/
theorem settled_of_text (E : Env) (hT : E.T.OK) (hE : EnvTotal E) (k : Kind)
    (hm : Modelled k = true) (hc : Coherent k = true) (hw : WidthOK E.T k = true) (s : Str) (r : SetResult)
    (h : setScalar E k (.str s) = .ok r) :
    ∃ r', setScalar E k (.str r.st.u) = .ok r' ∧ r'.st.u = r.st.u := by
  have hn : norm E k s = r.st.u := by simp [norm, h]
  have hi := Flatland.C04.Proofs.norm_idem E hT hE k hm hc hw s
  rw [hn] at hi
  obtain ⟨r', hr'⟩ := Flatland.C04.Proofs.set_total_text E hT hE k r.st.u
  exact ⟨r', hr', by simpa [norm, hr'] using hi⟩

/-! ### a concrete sufficient condition for `SplitStable`: single-character static separators -/

theorem splitGo_run (c : Char) (u rest acc : Str) (hu : c ∉ u) :
    splitGo [c] (u ++ rest) 0 acc = splitGo [c] rest 0 (u.reverse ++ acc) := by
  induction u generalizing acc with
  | nil => simp
  | cons x t ih =>
    have hx : c ≠ x := fun h => hu (by simp [h])
    have ht : c ∉ t := fun h => hu (by simp [h])
    have hb : (c == x) = false := by simpa using hx
    simp only [List.cons_append, splitGo, List.isPrefixOf, hb, Bool.false_and, Bool.false_eq_true, if_false]
    rw [ih (x :: acc) ht]
    simp

theorem splitStr_joinStr_char (c : Char) (us : List Str) (hne : us ≠ []) (h : ∀ u ∈ us, c ∉ u) :
    splitStr [c] (joinStr [c] us) = us := by
  unfold splitStr
  induction us with
  | nil => exact absurd rfl hne
  | cons u rest ih =>
    cases rest with
    | nil =>
      have := splitGo_run c u [] [] (h u (by simp))
      simp only [List.append_nil] at this
      simp [joinStr, this, splitGo]
    | cons u' rest' =>
      simp only [joinStr, List.append_assoc]
      rw [splitGo_run c u _ [] (h u (by simp))]
      simp only [List.singleton_append, splitGo, List.isPrefixOf, beq_self_eq_true, Bool.true_and, if_true,
        List.append_nil, List.reverse_reverse, List.length_singleton, Nat.sub_self]
      rw [ih (by simp) (fun x hx => h x (List.mem_cons_of_mem _ hx))]

/-- with a one-character static separator, member texts that do not contain it split back exactly -/
theorem splitStable_single_char (T : Tables) (c : JoinedCfg) (s : JoinedState) (ch : Char)
    (hsep : c.sep = [ch]) (hsp : c.sp = .static) (hne : s ≠ []) (h : ∀ st ∈ s, ch ∉ st.u) :
    SplitStable T c s := by
  unfold SplitStable joinedValue splitWith
  rw [hsp, hsep]
  apply splitStr_joinStr_char ch _ (by simpa using hne)
  intro u hu
  obtain ⟨st, hst, rfl⟩ := List.mem_map.mp hu
  exact h st hst

/-- **joined_reset** for the common configuration: one-character static separator, settled
    non-empty members that do not contain the separator -/
theorem joined_reset_single_char (E : Env) (c : JoinedCfg) (s : JoinedState) (ch : Char)
    (hsep : c.sep = [ch]) (hsp : c.sp = .static) (hne : s ≠ []) (h : ∀ st ∈ s, ch ∉ st.u)
    (hprune : NoEmptyTextUnderPrune c s) (hset : Settled E c.member s) :
    ∃ s' flag, joinedSet E c s (.leaf (.str (joinedValue c s))) = .ok (s', some flag) ∧
      joinedValue c s' = joinedValue c s :=
  joined_reset_partial E c s (splitStable_single_char E.T c s ch hsep hsp hne h) hprune hset

/-- the hypotheses of `joined_reset_single_char` hold for `JoinedString(['a', 'b c'])` -/
example :
    let c : JoinedCfg := ⟨[','], .static, true, .string true⟩
    let s : JoinedState := [⟨.str ['a'], .str ['a'], ['a']⟩, ⟨.str "b c".toList, .str "b c".toList, "b c".toList⟩]
    s ≠ [] ∧ (∀ st ∈ s, ',' ∉ st.u) ∧ NoEmptyTextUnderPrune c s ∧ Settled plainEnv c.member s := by
  refine ⟨by decide, by decide, ?_, ?_⟩
  · intro _ st hst
    simp only [List.mem_cons, List.mem_nil_iff, or_false] at hst
    rcases hst with rfl | rfl <;> decide
  · intro st hst
    simp only [List.mem_cons, List.mem_nil_iff, or_false] at hst
    rcases hst with rfl | rfl <;> exact string_settled plainEnv true _ (fun _ => by decide)

example : MembersFit Flatland.Generated.C04.pyTables (.int 2020) (.int 2) (.int 30) := by
  intro v hv i hi
  simp only [List.mem_cons, List.mem_nil_iff, or_false] at hv
  rcases hv with rfl | rfl | rfl <;> (cases hi; exact intFits_small _ pyTables_ok _ (by decide))

/-! ### the empty JoinedString, and the second class of counter-examples -/

theorem splitWith_nil (T : Tables) (sp : Splitter) (sep : Str) : splitWith T sp sep [] = [[]] := by
  cases sp <;> rfl

/-- **joined_reset**, empty JoinedString: its value `''` set again gives `''` whenever the member
    type gives the text `''` for `''` (with or without prune_empty: since fix 2a6b55c the piece is
    adapted first; a member type that turns `''` into another text — Boolean(false='no') — keeps it) -/
theorem joined_reset_empty (E : Env) (c : JoinedCfg)
    (h : ∃ r, setScalar E c.member (.str []) = .ok r ∧ r.st.u = []) :
    ∃ s' flag, joinedSet E c [] (.leaf (.str (joinedValue c []))) = .ok (s', some flag) ∧
      joinedValue c s' = joinedValue c [] := by
  have hv : joinedValue c [] = [] := rfl
  rw [hv]
  unfold joinedSet JoinedCfg.schema
  simp only [Flatland.C04.setElem, splitWith_nil]
  obtain ⟨r, hr, hu⟩ := h
  cases hp : c.prune with
  | true =>
    exact ⟨[], true, by simp [Flatland.C04.Proofs.scalarSetTrace_eq, hr, Flatland.C04.keepPieces, hu, joinedOfElem], rfl⟩
  | false =>
    refine ⟨[r.st], r.flag, by simp [Flatland.C04.Proofs.scalarSetTrace_eq, hr, Flatland.C04.keepPieces, joinedOfElem], ?_⟩
    simp [joinedValue, joinStr, hu]

/-- **joined_reset** for the common configuration, every state including the empty one -/
theorem joined_reset_single_char_all (E : Env) (c : JoinedCfg) (s : JoinedState) (ch : Char)
    (hsep : c.sep = [ch]) (hsp : c.sp = .static) (h : ∀ st ∈ s, ch ∉ st.u)
    (hprune : NoEmptyTextUnderPrune c s) (hset : Settled E c.member s)
    (hempty : ∃ r, setScalar E c.member (.str []) = .ok r ∧ r.st.u = []) :
    ∃ s' flag, joinedSet E c s (.leaf (.str (joinedValue c s))) = .ok (s', some flag) ∧
      joinedValue c s' = joinedValue c s := by
  cases s with
  | nil => exact joined_reset_empty E c hempty
  | cons m rest => exact joined_reset_single_char E c _ ch hsep hsp (by simp) h hprune hset

/-- KF-C18-c: `JoinedString(['a , b'], prune_empty=False)` has value `'a , b'`; setting that gives two
    members and the value `'a,b'` -/
theorem C18_joined_resplit_witness :
    let c : JoinedCfg := ⟨[','], .static, false, .string true⟩
    let s : JoinedState := [⟨.str "a , b".toList, .str "a , b".toList, "a , b".toList⟩]
    Settled plainEnv c.member s ∧ NoEmptyTextUnderPrune c s ∧
    ∃ s', joinedSet plainEnv c s (.leaf (.str (joinedValue c s))) = .ok (s', some true) ∧
      joinedValue c s' = "a,b".toList ∧ joinedValue c s = "a , b".toList := by
  intro c s
  refine ⟨?_, ?_, ?_⟩
  · intro st hst
    simp only [s, List.mem_cons, List.mem_nil_iff, or_false] at hst
    subst hst
    exact string_settled plainEnv true _ (fun _ => by decide)
  · intro h; cases h
  · exact ⟨_, by rfl, by decide, by decide⟩

/-! ### JoinedString.value, MultiValue.u/value -/

/-- **joined_value** — in every state the value (and `.u`) of the scalar-member model is the
    separator-join (core `List.intercalate`) of the members' texts; the member-type-generic statement
    along histories is `Flatland.C18.Joined.Proofs.joined_value_history` -/
theorem joined_value (c : JoinedCfg) (s : JoinedState) : joinedValue c s = sepJoin c.sep (s.map (·.u)) :=
  Flatland.C18.Joined.Proofs.joinStr_eq_sepJoin _ _

/-- **multivalue_first** — the scalar view of a MultiValue is its first member, `('', None)` when empty -/
theorem multivalue_first (s : MultiState) :
    (multiU s, multiValue s) = (match s with | [] => ([], Native.none) | m :: _ => (m.u, m.value)) := by
  cases s <;> rfl

example : multiU [⟨.none, .int 3, ['3']⟩, ⟨.none, .none, ['x']⟩] = ['3'] := rfl

/-! ### Ref: the path is resolved against the current tree -/

/-- every Ref read of the history returns value and text of the element that the path denotes in
    the tree at that moment (`treeOf` after the step) -/
def ReadsDenoted {σ : Type} (step : σ → TOp → StepOut σ) (treeOf : σ → Tree) (path : List PStep) :
    σ → List TOp → Bool
  | _, [] => true
  | s, op :: rest =>
    match step s op with
    | .error _ => true
    | .ok (s', _, rd) =>
      (rd == none || rd == denoted (treeOf s') path) && ReadsDenoted step treeOf path s' rest

theorem liveStep_read (E : Env) (w : Writable) (path : List PStep) (s s' : TState) (op : TOp)
    (ret : Option Bool) (rd : Option (Native × Str)) (h : liveStep E w path s op = .ok (s', ret, rd)) :
    rd = none ∨ rd = denoted s'.tree path := by
  cases op with
  | refRead =>
    simp only [liveStep] at h
    split at h
    · rename_i id k st hres
      simp only [Except.ok.injEq, Prod.mk.injEq] at h
      obtain ⟨rfl, _, rfl⟩ := h
      right; simp [denoted, hres]
    · simp at h
  | refSet x =>
    left
    simp only [liveStep] at h
    split at h
    · split at h
      · simp at h
      · simp at h
      · split at h
        · simp at h
        · split at h
          · split at h
            · simp only [Except.ok.injEq, Prod.mk.injEq] at h; exact h.2.2.symm
            · simp at h
          · simp only [Except.ok.injEq, Prod.mk.injEq] at h; exact h.2.2.symm
    · simp at h
  | leafSet p x => left; simp only [liveStep] at h; split at h <;> simp at h; exact h.2.2.symm
  | dictSet p v => left; simp only [liveStep] at h; split at h <;> simp at h; exact h.2.2.symm
  | listSet p v => left; simp only [liveStep] at h; split at h <;> simp at h; exact h.2.2.symm
  | listInsert p i v => left; simp only [liveStep] at h; split at h <;> simp at h; exact h.2.2.symm
  | listDel p i => left; simp only [liveStep] at h; split at h <;> simp at h; exact h.2.2.symm

/-- **ref_proxy_history** — (holds by construction of `liveStep`, whose read IS "resolve the path
    against the current tree"; that the code does this is checked by correspondence and oracle, and
    `cachedRef_fails` shows a Ref implementation for which it is false) for every form tree, target path, writable mode and history of
    operations on the tree (scalar sets, `Dict.set` that rebuilds members, list set / insert /
    delete before or at the target position, Ref reads, Ref writes), every Ref read returns the
    value and text of the element that the path denotes in the tree at that moment. -/
theorem ref_proxy_history (E : Env) (w : Writable) (path : List PStep) (s : TState) (ops : List TOp) :
    ReadsDenoted (liveStep E w path) (·.tree) path s ops = true := by
  induction ops generalizing s with
  | nil => rfl
  | cons op rest ih =>
    simp only [ReadsDenoted]
    cases hstep : liveStep E w path s op with
    | error e => rfl
    | ok res =>
      obtain ⟨s', ret, rd⟩ := res
      simp only [Bool.and_eq_true, Bool.or_eq_true, beq_iff_eq]
      exact ⟨liveStep_read E w path s s' op ret rd hstep, ih s'⟩

/-! what "denotes at that moment" means after a write: the replaced element is found again -/

theorem child_setChild (t c c' : Tree) (st : PStep) (h : t.child st = some c) :
    (t.setChild st c').child st = some c' := by
  cases t with
  | leaf id k s => cases st <;> simp [Tree.child] at h
  | dict names ms =>
    cases st with
    | index i => simp [Tree.child] at h
    | name n =>
      simp only [Tree.child] at h
      cases hn : nameIdx names n with
      | none => simp [hn] at h
      | some i =>
        simp only [hn, Option.bind_some] at h
        have hi : i < ms.length := by
          rcases List.getElem?_eq_some_iff.mp h with ⟨hlt, _⟩; exact hlt
        simp [Tree.setChild, Tree.child, hn, hi]
  | list k ms =>
    cases st with
    | name n => simp [Tree.child] at h
    | index i =>
      simp only [Tree.child] at h
      have hi : i < ms.length := by
        rcases List.getElem?_eq_some_iff.mp h with ⟨hlt, _⟩; exact hlt
      simp [Tree.setChild, Tree.child, hi]

theorem resolve_replaceAt (t t' new : Tree) (p : List PStep) (h : t.replaceAt p new = some t') :
    t'.resolve p = some new := by
  induction p generalizing t t' with
  | nil => simp [Tree.replaceAt] at h; subst h; rfl
  | cons st rest ih =>
    simp only [Tree.replaceAt] at h
    cases hc : t.child st with
    | none => simp [hc] at h
    | some c =>
      simp only [hc, Option.map_eq_some_iff] at h
      obtain ⟨c', hc', rfl⟩ := h
      simp only [Tree.resolve, child_setChild t c c' st hc]
      exact ih c c' hc'

/-- **ref_write_through** — a successful write through a writable Ref is what the path denotes
    afterwards (and hence what the next Ref read returns) -/
theorem ref_write_through (E : Env) (path : List PStep) (s s' : TState) (x v : Native) (u : Str)
    (id : Nat) (k : Kind) (st : SState) (hres : s.tree.resolve path = some (.leaf id k st))
    (ha : adapt E k x = .ok (some v)) (hu : uOfValue E k v = .ok u)
    (h : liveStep E .yes path s (.refSet x) = .ok (s', some true, none)) :
    denoted s'.tree path = some (v, u) := by
  simp only [liveStep, hres, ha, hu, beq_self_eq_true, if_true] at h
  split at h
  · rename_i t ht
    simp only [Except.ok.injEq, Prod.mk.injEq] at h
    obtain ⟨rfl, _⟩ := h
    simp [denoted, resolve_replaceAt _ _ _ _ ht]
  · simp at h

/-! the counter-model: a Ref that keeps the element it found first (the code before fix b196482) -/

def refForm (k : Kind) : TState :=
  ⟨.dict ["sub".toList, "o".toList]
    [.dict ["t".toList] [.leaf 0 k Flatland.C04.blankState], .leaf 1 (.string true) Flatland.C04.blankState], 2⟩

def refPath : List PStep := [.name "sub".toList, .name "t".toList]

/-- KF-C18-b as a counter-model: with a cached target, `sub.set({'t': '1'}); r.value;
    sub.set({'t': '2'}); r.value` reads '1' while the path denotes the element holding '2' — so
    `ref_proxy_history`, true of the live model by construction, is false of this one: the statement
    separates the two implementations -/
theorem cachedRef_fails :
    ¬ ∀ (c : CachedState) (ops : List TOp),
        ReadsDenoted (cachedStep plainEnv refPath) (·.base.tree) refPath c ops = true := by
  intro h
  have := h ⟨refForm (.string true), none⟩
    [.dictSet [.name "sub".toList] [("t".toList, .str ['1'])], .refRead,
     .dictSet [.name "sub".toList] [("t".toList, .str ['2'])], .refRead]
  revert this
  decide

/-- the same history under the live Ref reads '2' -/
example :
    ReadsDenoted (liveStep plainEnv .ignore refPath) (·.tree) refPath (refForm (.string true))
      [.dictSet [.name "sub".toList] [("t".toList, .str ['1'])], .refRead,
       .dictSet [.name "sub".toList] [("t".toList, .str ['2'])], .refRead] = true := by
  decide

/-- a Ref to list position 1 follows insertions and deletions before it -/
example :
    let start : TState := ⟨.dict ["l".toList] [.list (.string true) []], 0⟩
    let path : List PStep := [.name "l".toList, .index 1]
    (((liveStep plainEnv .ignore path start (.listSet [.name "l".toList] [.str ['a'], .str ['b'], .str ['c']])).toOption.bind
      fun r => (liveStep plainEnv .ignore path r.1 (.listInsert [.name "l".toList] 0 (.str ['z']))).toOption).bind
      fun r => (liveStep plainEnv .ignore path r.1 .refRead).toOption.map (·.2.2)) =
      some (some (.str ['a'], ['a'])) := by
  decide

end Flatland.C18.Proofs
