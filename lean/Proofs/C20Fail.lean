/-
C20, failure and recovery paths (h10): what `slice` / `update_object` / `set_by_object` leave behind
when something raises on the way.

* `sliceP_refines`, `updateObjectP_refines`, `setByObjectP_refines` — with a key function that never
  raises, well-formed arguments, an object that accepts every `setattr` and whose reads do not raise,
  the `…P` functions are the functions of `Flatland/C20.lean`, so every theorem of `Proofs/C20.lean`
  speaks about them;
* `sliceP_ok_iff` — when exactly a slice can be produced;
* `update_object_atomic_on_selection_error` (+ `update_object_atomic`) — no slice, no write;
* `lazyUpdate_fails` — interleaving selection and writes does not have that property;
* `update_object_setattr_error` — a rejected `setattr`: what is written, what is not;
* `set_by_object_read_error_keeps_element` — a raising attribute read leaves the element alone.
-/
import Flatland.C20
import Flatland.Spec.C20
import Proofs.Lemmas.C20Dict
import Proofs.C20
namespace Flatland.C20.Proofs
open Flatland.C20 Flatland.C20.Spec

variable {V : Type}

/-! ### the `…P` functions refine the total ones -/

theorem keysliceOne_key (a : Args) (f : Str → Str) (k : Str) :
    keysliceOne { a with key := some f } k = keysliceOne { a with key := none } (f k) := rfl

theorem keysliceLoopP_total (a : Args) (f : Str → Str) (pk : PKey) (h : ∀ k, pk k = .ok (f k))
    (ps : List (Str × V)) :
    keysliceLoopP a pk ps =
      .ok (ps.filterMap fun p => (keysliceOne { a with key := some f } p.1).map (·, p.2)) := by
  induction ps with
  | nil => rfl
  | cons p rest ih =>
    obtain ⟨k, v⟩ := p
    simp only [keysliceLoopP, h, ih, List.filterMap_cons, keysliceOne_key]
    cases keysliceOne { a with key := none } (f k) <;> rfl

/-- **sliceP_refines** — with a key function that always returns and usable arguments `sliceP` is
    `slice` -/
theorem sliceP_refines (a : Args) (f : Str → Str) (pk : PKey) (h : ∀ k, pk k = .ok (f k))
    (e : Elem V) : sliceP {} a pk e = slice e { a with key := some f } := by
  unfold sliceP keyslicePairsP slice keyslicePairs
  simp only [Bool.or_false, keysliceLoopP_total a f pk h]
  by_cases hc : (!a.inc.isEmpty && !a.om.isEmpty) = true
  · simp [hc]
  · simp [hc]

theorem writeAll_accepting (o : Obj V) (m : List (Str × V)) :
    writeAll (fun _ => none) o m = ⟨none, m.foldl (fun o p => o.set p.1 p.2) o⟩ := by
  induction m generalizing o with
  | nil => rfl
  | cons p rest ih => simp [writeAll, ih]

/-- **updateObjectP_refines** -/
theorem updateObjectP_refines (a : Args) (f : Str → Str) (pk : PKey) (h : ∀ k, pk k = .ok (f k))
    (e : Elem V) (o : Obj V) :
    updateObjectP {} a pk (fun _ => none) e o =
      (match updateObject e o { a with key := some f } with
       | .ok o' => ⟨none, o'⟩
       | .error x => ⟨some x, o⟩) := by
  unfold updateObjectP updateObject
  rw [sliceP_refines a f pk h e]
  cases slice e { a with key := some f } with
  | error x => rfl
  | ok m => simp [writeAll_accepting]

example :
    updateObjectP (V := Nat) {} { inc := ["a".toList] } (fun k => .ok k) (fun _ => none)
      [("a".toList, 1), ("b".toList, 2)] [("q".toList, some 9)] =
      ⟨none, [("q".toList, some 9), ("a".toList, some 1)]⟩ := by rfl

/-! ### when a slice can be produced -/

/-- usable arguments: nothing malformed, not both `include` and `omit` -/
def SetupOk (su : Setup) (a : Args) : Prop :=
  su.badInc = false ∧ su.badOm = false ∧ su.badRen = none ∧ Exclusive a

theorem keysliceLoopP_ok_iff (a : Args) (pk : PKey) (ps : List (Str × V)) :
    (∃ m, keysliceLoopP a pk ps = .ok m) ↔ ∀ p ∈ ps, ∃ k, pk p.1 = .ok k := by
  induction ps with
  | nil => simp [keysliceLoopP]
  | cons p rest ih =>
    obtain ⟨k, v⟩ := p
    simp only [List.mem_cons, forall_eq_or_imp, ← ih, keysliceLoopP]
    cases hk : pk k with
    | error x => simp
    | ok k1 =>
      cases hr : keysliceLoopP a pk rest with
      | error x => simp
      | ok out =>
        simp only [Except.ok.injEq, exists_eq', and_self, iff_true]
        split <;> exact ⟨_, rfl⟩

theorem keyslicePairsP_setup (su : Setup) (a : Args) (pk : PKey) (ps : List (Str × V))
    (h : SetupOk su a) : keyslicePairsP su a pk ps = keysliceLoopP a pk ps := by
  obtain ⟨h1, h2, h3, h4⟩ := h
  have hb : (!a.inc.isEmpty && !a.om.isEmpty) = false := by
    cases hx : (!a.inc.isEmpty && !a.om.isEmpty) with
    | false => rfl
    | true => exact absurd h4 ((not_exclusive_iff a).mpr hx)
  unfold keyslicePairsP
  simp [h1, h2, h3, hb]

theorem keyslicePairsP_bad (su : Setup) (a : Args) (pk : PKey) (ps : List (Str × V))
    (h : ¬ SetupOk su a) : ∃ x, keyslicePairsP su a pk ps = .error x := by
  unfold keyslicePairsP
  by_cases hc : ((!a.inc.isEmpty || su.badInc) && (!a.om.isEmpty || su.badOm)) = true
  · exact ⟨.typeError, by rw [if_pos hc]⟩
  · rw [if_neg hc]
    by_cases h1 : su.badInc = true
    · exact ⟨.typeError, by rw [if_pos h1]⟩
    · rw [if_neg h1]
      by_cases h2 : su.badOm = true
      · exact ⟨.typeError, by rw [if_pos h2]⟩
      · rw [if_neg h2]
        cases h3 : su.badRen with
        | some x => exact ⟨x, rfl⟩
        | none =>
          exfalso
          apply h
          simp only [Bool.not_eq_true] at h1 h2 hc
          refine ⟨h1, h2, h3, ?_⟩
          simp only [h1, h2, Bool.or_false] at hc
          by_cases hx : Exclusive a
          · exact hx
          · rw [(not_exclusive_iff a).mp hx] at hc; cases hc

/-- **sliceP_ok_iff** — a slice is produced exactly when the arguments are usable and the key
    function returns a (hashable) key for every field of the element — selected or not, because
    the key function is applied first -/
theorem sliceP_ok_iff (su : Setup) (a : Args) (pk : PKey) (e : Elem V) :
    (∃ m, sliceP su a pk e = .ok m) ↔ SetupOk su a ∧ ∀ p ∈ e, ∃ k, pk p.1 = .ok k := by
  have hmem : (∀ p ∈ sortByKey e, ∃ k, pk p.1 = .ok k) ↔ (∀ p ∈ e, ∃ k, pk p.1 = .ok k) := by
    constructor
    · intro h p hp; exact h p ((mem_sortByKey p e).mpr hp)
    · intro h p hp; exact h p ((mem_sortByKey p e).mp hp)
  unfold sliceP
  by_cases hs : SetupOk su a
  · rw [keyslicePairsP_setup su a pk _ hs, ← hmem, ← keysliceLoopP_ok_iff a pk]
    constructor
    · rintro ⟨m, hm⟩
      cases hl : keysliceLoopP a pk (sortByKey e) with
      | error x => simp [hl] at hm
      | ok out => exact ⟨hs, out, rfl⟩
    · rintro ⟨_, out, hout⟩
      exact ⟨dictOf out, by simp [hout]⟩
  · obtain ⟨x, hx⟩ := keyslicePairsP_bad su a pk (sortByKey e) hs
    simp [hx, hs]

/-! ### no slice, no write -/

/-- **update_object_atomic_on_selection_error** — when the selection cannot be computed (the key
    function raises for some field, an argument is unusable, include and omit are both given)
    `update_object` raises that exception and the object is exactly what it was: the slice is
    produced completely before the first `setattr`. -/
theorem update_object_atomic_on_selection_error (su : Setup) (a : Args) (pk : PKey)
    (rej : Str → Option Err) (e : Elem V) (o : Obj V) (x : Err)
    (h : sliceP su a pk e = .error x) : updateObjectP su a pk rej e o = ⟨some x, o⟩ := by
  simp [updateObjectP, h]

/-- the same, from the cause: one field the key function rejects (wherever it sorts), or unusable
    arguments, is enough for the object to stay untouched -/
theorem update_object_atomic (su : Setup) (a : Args) (pk : PKey) (rej : Str → Option Err)
    (e : Elem V) (o : Obj V)
    (h : ¬ SetupOk su a ∨ ∃ p ∈ e, ∃ x, pk p.1 = .error x) :
    (updateObjectP su a pk rej e o).obj = o ∧ (updateObjectP su a pk rej e o).exc ≠ none := by
  cases hs : sliceP su a pk e with
  | error x => simp [update_object_atomic_on_selection_error su a pk rej e o x hs]
  | ok m =>
    exfalso
    obtain ⟨hok, hall⟩ := (sliceP_ok_iff su a pk e).mp ⟨m, hs⟩
    rcases h with h | ⟨p, hp, x, hx⟩
    · exact h hok
    · obtain ⟨k, hk⟩ := hall p hp
      rw [hx] at hk; cases hk

/-- the statement as a property of an implementation of update_object -/
def AtomicOnSelectionError
    (upd : Setup → Args → PKey → (Str → Option Err) → Elem Nat → Obj Nat → UpdResult Nat) : Prop :=
  ∀ su a pk rej e o x, sliceP su a pk e = .error x → (upd su a pk rej e o).obj = o

theorem updateObjectP_atomic : AtomicOnSelectionError updateObjectP := by
  intro su a pk rej e o x h
  rw [update_object_atomic_on_selection_error su a pk rej e o x h]

/-- a lookup table used as key function with no entry for the field that sorts last -/
def tableKey : PKey := fun k => if k = "city".toList then .ok "town".toList else .error .keyError

-- non-vacuity: the hypothesis holds for a concrete element (the slice fails on the LAST field)
example : sliceP (V := Nat) {} {} tableKey [("city".toList, 1), ("zip".toList, 2)] = .error .keyError := by rfl

/-- **lazyUpdate_fails** — iterating the pairs lazily (select one, write one) is not atomic on a
    selection error: the attributes of the fields sorting before the offending one are already
    written when the exception comes out. -/
theorem lazyUpdate_fails : ¬ AtomicOnSelectionError lazyUpdate := by
  intro h
  have := h {} {} tableKey (fun _ => none) [("city".toList, 1), ("zip".toList, 2)]
    [("town".toList, some 7)] .keyError rfl
  revert this
  decide

example :
    lazyUpdate (V := Nat) {} {} tableKey (fun _ => none) [("city".toList, 1), ("zip".toList, 2)]
      [("town".toList, some 7)] = ⟨some .keyError, [("town".toList, some 1)]⟩ := by rfl

/-! ### a `setattr` that the object rejects -/

theorem writeAll_frame (rej : Str → Option Err) (o : Obj V) (m : List (Str × V)) (x : Str)
    (hx : x ∉ keys m) : (writeAll rej o m).obj.get x = o.get x := by
  induction m generalizing o with
  | nil => rfl
  | cons p rest ih =>
    obtain ⟨k, v⟩ := p
    simp only [keys, List.map_cons, List.mem_cons, not_or] at hx
    unfold writeAll
    cases rej k with
    | some err => rfl
    | none =>
      simp only
      rw [ih _ (by simpa [keys] using hx.2), get_set]
      simp [Ne.symm hx.1]

theorem writeAll_rejected_unchanged (rej : Str → Option Err) (o : Obj V) (m : List (Str × V))
    (x : Str) (hx : rej x ≠ none) : (writeAll rej o m).obj.get x = o.get x := by
  induction m generalizing o with
  | nil => rfl
  | cons p rest ih =>
    obtain ⟨k, v⟩ := p
    unfold writeAll
    cases hk : rej k with
    | some err => rfl
    | none =>
      simp only
      have hne : k ≠ x := by intro h; subst h; exact hx hk
      rw [ih, get_set]
      simp [hne]

theorem writeAll_old_or_new (rej : Str → Option Err) (o : Obj V) (m : List (Str × V)) (x : Str) :
    (writeAll rej o m).obj.get x = o.get x ∨
      ∃ v, (x, v) ∈ m ∧ (writeAll rej o m).obj.get x = some v := by
  induction m generalizing o with
  | nil => exact Or.inl rfl
  | cons p rest ih =>
    obtain ⟨k, v⟩ := p
    unfold writeAll
    cases rej k with
    | some err => exact Or.inl rfl
    | none =>
      simp only
      rcases ih (o.set k v) with h | ⟨w, hw, hget⟩
      · rw [h, get_set]
        by_cases hk : k = x
        · subst hk; exact Or.inr ⟨v, List.mem_cons_self, by simp⟩
        · exact Or.inl (by simp [hk])
      · exact Or.inr ⟨w, List.mem_cons_of_mem _ hw, hget⟩

/-- the writes stop at the first rejected attribute, in the order of the slice -/
theorem writeAll_split (rej : Str → Option Err) (o : Obj V) (m : List (Str × V)) :
    (match (writeAll rej o m).exc with
     | none => (∀ p ∈ m, rej p.1 = none) ∧ (writeAll rej o m).obj = m.foldl (fun o p => o.set p.1 p.2) o
     | some err => ∃ pre k v post, m = pre ++ (k, v) :: post ∧ rej k = some err ∧
         (∀ p ∈ pre, rej p.1 = none) ∧ (writeAll rej o m).obj = pre.foldl (fun o p => o.set p.1 p.2) o) := by
  induction m generalizing o with
  | nil => simp [writeAll]
  | cons p rest ih =>
    obtain ⟨k, v⟩ := p
    unfold writeAll
    cases hk : rej k with
    | some err => exact ⟨[], k, v, rest, rfl, hk, by simp, rfl⟩
    | none =>
      simp only
      have := ih (o.set k v)
      cases he : (writeAll rej (o.set k v) rest).exc with
      | none =>
        simp only [he] at this ⊢
        exact ⟨by simpa [hk] using this.1, by simpa using this.2⟩
      | some err =>
        simp only [he] at this ⊢
        obtain ⟨pre, k', v', post, hm, hr, hpre, hobj⟩ := this
        exact ⟨(k, v) :: pre, k', v', post, by simp [hm], hr, by simpa [hk] using hpre, by simpa using hobj⟩

/-- **update_object_setattr_error** — whatever `setattr` the object rejects, and whether or not the
    call completes: attributes outside the slice are untouched, a rejecting attribute keeps what it
    had, every attribute of the slice holds either what it had or the slice's value; and the call
    raises exactly when the slice names a rejecting attribute. -/
theorem update_object_setattr_error (su : Setup) (a : Args) (pk : PKey) (rej : Str → Option Err)
    (e : Elem V) (o : Obj V) (m : List (Str × V)) (hs : sliceP su a pk e = .ok m) :
    let r := updateObjectP su a pk rej e o
    (∀ x, x ∉ keys m → r.obj.get x = o.get x) ∧
    (∀ x, rej x ≠ none → r.obj.get x = o.get x) ∧
    (∀ x, r.obj.get x = o.get x ∨ ∃ v, lookup m x = some v ∧ r.obj.get x = some v) ∧
    (r.exc = none ↔ ∀ p ∈ m, rej p.1 = none) := by
  have hn : (keys m).Nodup := by
    unfold sliceP at hs
    cases hk : keyslicePairsP su a pk (sortByKey e) with
    | error y => simp [hk] at hs
    | ok sl => simp only [hk, Except.ok.injEq] at hs; subst hs; exact keys_dictOf_nodup _
  have hr : updateObjectP su a pk rej e o = writeAll rej o m := by simp [updateObjectP, hs]
  simp only [hr]
  refine ⟨fun x hx => writeAll_frame rej o m x hx, fun x hx => writeAll_rejected_unchanged rej o m x hx, ?_, ?_⟩
  · intro x
    rcases writeAll_old_or_new rej o m x with h | ⟨v, hv, hget⟩
    · exact Or.inl h
    · refine Or.inr ⟨v, ?_, hget⟩
      rw [lookup_eq_dictGet_of_nodup m hn]
      exact dictGet_of_nodup m hn x v hv
  · have := writeAll_split rej o m
    cases he : (writeAll rej o m).exc with
    | none => simp only [he] at this; exact ⟨fun _ => this.1, fun _ => rfl⟩
    | some err =>
      simp only [he] at this
      obtain ⟨pre, k, v, post, hm, hr', _, _⟩ := this
      simp only [reduceCtorEq, false_iff]
      intro hall
      have := hall (k, v) (by simp [hm])
      rw [hr'] at this; cases this

-- the middle attribute is rejected: the first is written, the rejected one and the last are not
example :
    updateObjectP (V := Nat) {} {} (fun k => .ok k)
      (fun x => if x = "b".toList then some .attributeError else none)
      [("a".toList, 1), ("b".toList, 2), ("c".toList, 3)] [("b".toList, some 0)] =
      ⟨some .attributeError, [("b".toList, some 0), ("a".toList, some 1)]⟩ := by rfl

/-! ### set_by_object: an attribute read that raises -/

theorem scanReads_none (bad : Str → Option Err) (l : List Str) (h : ∀ x ∈ l, bad x = none) :
    scanReads bad l = (l, none) := by
  induction l with
  | nil => rfl
  | cons x rest ih =>
    simp only [List.mem_cons, forall_eq_or_imp] at h
    simp [scanReads, h.1, ih h.2]

theorem scanReads_some (bad : Str → Option Err) (l : List Str) (h : ∃ x ∈ l, bad x ≠ none) :
    ∃ err, (scanReads bad l).2 = some err ∧ ∃ x ∈ l, bad x = some err := by
  induction l with
  | nil => simp at h
  | cons y rest ih =>
    unfold scanReads
    cases hy : bad y with
    | some err => exact ⟨err, rfl, y, List.mem_cons_self, hy⟩
    | none =>
      obtain ⟨x, hx, hb⟩ := h
      simp only [List.mem_cons] at hx
      rcases hx with rfl | hx
      · exact absurd hy hb
      · obtain ⟨err, he, z, hz, hbz⟩ := ih ⟨x, hx, hb⟩
        exact ⟨err, he, z, List.mem_cons_of_mem _ hz, hbz⟩

theorem scanReads_prefix (bad : Str → Option Err) (l : List Str) : (scanReads bad l).1 <+: l := by
  induction l with
  | nil => exact List.prefix_refl _
  | cons y rest ih =>
    unfold scanReads
    cases bad y with
    | some err => exact ⟨rest, rfl⟩
    | none => simpa using ih

/-- **set_by_object_read_error_keeps_element** — if reading one of the attributes that map to
    declared fields raises (something `hasattr` does not swallow), `set_by_object` raises an
    exception of one of those reads, the element is exactly what it was (`self.set(final)` is never
    reached), and only attributes of the read set — a prefix of the sorted candidates — were looked at. -/
theorem set_by_object_read_error_keeps_element (S : Schema V) (su : Setup) (bad : Str → Option Err)
    (e : Elem V) (o : Obj V) (a : Args) (h : ∃ x ∈ candidates S.fields a, bad x ≠ none) :
    let r := setByObjectP S su bad e o a
    r.elem = e ∧ r.exc ≠ none ∧ r.reads <+: candidates S.fields a ∧
    (SetupOk su a → ∃ x ∈ candidates S.fields a, r.exc = bad x) := by
  obtain ⟨err, he, z, hz, hbz⟩ := scanReads_some bad _ h
  have hp := scanReads_prefix bad (candidates S.fields a)
  unfold setByObjectP
  cases h3 : su.badRen with
  | some x =>
    dsimp only
    refine ⟨rfl, by simp, List.nil_prefix, ?_⟩
    rintro ⟨_, _, h, _⟩; rw [h3] at h; cases h
  | none =>
    dsimp only
    by_cases h2 : su.badOm = true
    · rw [if_pos h2]
      refine ⟨rfl, by simp, List.nil_prefix, ?_⟩
      rintro ⟨_, h, _, _⟩; rw [h] at h2; cases h2
    · rw [if_neg h2]
      by_cases hc : ((!a.inc.isEmpty || su.badInc) && !a.om.isEmpty) = true
      · rw [if_pos hc]
        refine ⟨rfl, by simp, List.nil_prefix, ?_⟩
        rintro ⟨h1, _, _, hx⟩
        exfalso
        simp only [h1, Bool.or_false] at hc
        exact (not_exclusive_iff a).mpr hc hx
      · rw [if_neg hc]
        by_cases h1 : su.badInc = true
        · rw [if_pos h1]
          refine ⟨rfl, by simp, List.nil_prefix, ?_⟩
          rintro ⟨h, _⟩; rw [h] at h1; cases h1
        · rw [if_neg h1]
          simp only [he]
          exact ⟨trivial, by simp, hp, fun _ => ⟨z, hz, by simp [hbz]⟩⟩

/-- **setByObjectP_refines** — nothing unusable, no raising read: `set_by_object` of `Flatland/C20.lean` -/
theorem setByObjectP_refines (S : Schema V) (su : Setup) (bad : Str → Option Err) (e : Elem V)
    (o : Obj V) (a : Args) (hs : SetupOk su a) (hb : ∀ x ∈ candidates S.fields a, bad x = none) :
    setByObjectP S su bad e o a = setByObject S e o a := by
  obtain ⟨h1, h2, h3, h4⟩ := hs
  have hc : ¬ ((!a.inc.isEmpty || su.badInc) && !a.om.isEmpty) = true := by
    rw [h1, Bool.or_false]; exact fun hc => (not_exclusive_iff a).mpr hc h4
  unfold setByObjectP
  rw [h3]
  dsimp only
  rw [if_neg (by simp [h2]), if_neg hc, if_neg (by simp [h1]), scanReads_none bad _ hb]

/-- unusable arguments / include and omit together: nothing is read, the element stays -/
theorem set_by_object_setup_error (S : Schema V) (su : Setup) (bad : Str → Option Err) (e : Elem V)
    (o : Obj V) (a : Args) (hs : ¬ SetupOk su a) :
    let r := setByObjectP S su bad e o a
    r.elem = e ∧ r.exc ≠ none ∧ r.reads = [] := by
  unfold setByObjectP
  cases h3 : su.badRen with
  | some x => dsimp only; refine ⟨?_, ?_, ?_⟩ <;> simp
  | none =>
    dsimp only
    by_cases h2 : su.badOm = true
    · rw [if_pos h2]; refine ⟨?_, ?_, ?_⟩ <;> simp
    · rw [if_neg h2]
      by_cases hc : ((!a.inc.isEmpty || su.badInc) && !a.om.isEmpty) = true
      · rw [if_pos hc]; refine ⟨?_, ?_, ?_⟩ <;> simp
      · rw [if_neg hc]
        by_cases h1 : su.badInc = true
        · rw [if_pos h1]; refine ⟨?_, ?_, ?_⟩ <;> simp
        · exfalso
          apply hs
          simp only [Bool.not_eq_true] at h1 h2 hc
          refine ⟨h1, h2, h3, ?_⟩
          simp only [h1, Bool.or_false] at hc
          by_cases hx : Exclusive a
          · exact hx
          · rw [(not_exclusive_iff a).mp hx] at hc; cases hc

-- the getter of `b` raises ValueError: `a` and `b` are looked at, the element keeps its values
example :
    let S : Schema Nat := { fields := ["a".toList, "b".toList, "c".toList], blank := 0, setF := fun _ x => x }
    let r := setByObjectP S {} (fun x => if x = "b".toList then some .valueError else none)
      [("a".toList, 5), ("b".toList, 6), ("c".toList, 7)] [("a".toList, some 1), ("c".toList, some 3)] {}
    r.elem = [("a".toList, 5), ("b".toList, 6), ("c".toList, 7)] ∧ r.exc = some .valueError ∧
      r.reads = ["a".toList, "b".toList] := by decide

end Flatland.C20.Proofs
