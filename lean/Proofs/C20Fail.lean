/-
C20, failure and recovery paths (h10): what `slice` / `update_object` / `set_by_object` leave behind
when something raises on the way.

* `sliceP_refines`, `updateObjectP_refines`, `setByObjectP_refines` — with a key function that never
  raises, well-formed arguments, an object that accepts every `setattr` and whose reads do not raise,
  the `…P` functions are the functions of `Flatland/C20.lean`, so every theorem of `Proofs/C20.lean`
  speaks about them;
* `sliceP_ok_iff` — when exactly a slice can be produced;
* `update_object_atomic_on_selection_error` (+ `update_object_atomic`) — no slice, no write;
* `lazyUpdate_fails` — interleaving selection and writes does not have that property;
* `update_object_setattr_error` — a rejected `setattr`: what is written, what is not;
* `set_by_object_read_error_keeps_element` — a raising attribute read leaves the element alone.
-/
import Flatland.C20
import Flatland.Spec.C20
import Proofs.Lemmas.C20Dict
import Proofs.C20
namespace Flatland.C20.Proofs
open Flatland.C20 Flatland.C20.Spec

variable {V : Type}

/-! ### the `…P` functions refine the total ones -/

theorem keysliceOne_key (a : Args) (f : Str → Str) (k : Str) :
    keysliceOne { a with key := some f } k = keysliceOne { a with key := none } (f k) := rfl

theorem keysliceLoopP_total (a : Args) (f : Str → Str) (pk : PKey) (h : ∀ k, pk k = .ok (f k))
    (ps : List (Str × V)) :
    keysliceLoopP a pk ps =
      .ok (ps.filterMap fun p => (keysliceOne { a with key := some f } p.1).map (·, p.2)) := by
  induction ps with
  | nil => rfl
  | cons p rest ih =>
    obtain ⟨k, v⟩ := p
    simp only [keysliceLoopP, h, ih, List.filterMap_cons, keysliceOne_key]
    cases keysliceOne { a with key := none } (f k) <;> rfl

/-- **sliceP_refines** — with a key function that always returns and usable arguments `sliceP` is
    `slice` -/
theorem sliceP_refines (a : Args) (f : Str → Str) (pk : PKey) (h : ∀ k, pk k = .ok (f k))
    (e : Elem V) : sliceP {} a pk e = slice e { a with key := some f } := by
  unfold sliceP keyslicePairsP slice keyslicePairs
  simp only [Bool.or_false, keysliceLoopP_total a f pk h]
  by_cases hc : (!a.inc.isEmpty && !a.om.isEmpty) = true
  · simp [hc]
  · simp [hc]

theorem writeAll_accepting (o : Obj V) (m : List (Str × V)) :
    writeAll (fun _ => none) o m = ⟨none, m.foldl (fun o p => o.set p.1 p.2) o⟩ := by
  induction m generalizing o with
  | nil => rfl
  | cons p rest ih => simp [writeAll, ih]

/-- **updateObjectP_refines** -/
theorem updateObjectP_refines (a : Args) (f : Str → Str) (pk : PKey) (h : ∀ k, pk k = .ok (f k))
    (e : Elem V) (o : Obj V) :
    updateObjectP {} a pk (fun _ => none) e o =
      (match updateObject e o { a with key := some f } with
       | .ok o' => ⟨none, o'⟩
       | .error x => ⟨some x, o⟩) := by
  unfold updateObjectP updateObject
  rw [sliceP_refines a f pk h e]
  cases slice e { a with key := some f } with
  | error x => rfl
  | ok m => simp [writeAll_accepting]

example :
    updateObjectP (V := Nat) {} { inc := ["a".toList] } (fun k => .ok k) (fun _ => none)
      [("a".toList, 1), ("b".toList, 2)] [("q".toList, some 9)] =
      ⟨none, [("q".toList, some 9), ("a".toList, some 1)]⟩ := by rfl

/-! ### when a slice can be produced -/

/-- usable arguments: nothing malformed, not both `include` and `omit` -/
def SetupOk (su : Setup) (a : Args) : Prop :=
  su.badInc = false ∧ su.badOm = false ∧ su.badRen = none ∧ Exclusive a

theorem keysliceLoopP_ok_iff (a : Args) (pk : PKey) (ps : List (Str × V)) :
    (∃ m, keysliceLoopP a pk ps = .ok m) ↔ ∀ p ∈ ps, ∃ k, pk p.1 = .ok k := by
  induction ps with
  | nil => simp [keysliceLoopP]
  | cons p rest ih =>
    obtain ⟨k, v⟩ := p
    simp only [List.mem_cons, forall_eq_or_imp, ← ih, keysliceLoopP]
    cases hk : pk k with
    | error x => simp
    | ok k1 =>
      cases hr : keysliceLoopP a pk rest with
      | error x => simp
      | ok out =>
        simp only [Except.ok.injEq, exists_eq', and_self, iff_true]
        split <;> exact ⟨_, rfl⟩

theorem keyslicePairsP_setup (su : Setup) (a : Args) (pk : PKey) (ps : List (Str × V))
    (h : SetupOk su a) : keyslicePairsP su a pk ps = keysliceLoopP a pk ps := by
  obtain ⟨h1, h2, h3, h4⟩ := h
  have hb : (!a.inc.isEmpty && !a.om.isEmpty) = false := by
    cases hx : (!a.inc.isEmpty && !a.om.isEmpty) with
    | false => rfl
    | true => exact absurd h4 ((not_exclusive_iff a).mpr hx)
  unfold keyslicePairsP
  simp [h1, h2, h3, hb]

theorem keyslicePairsP_bad (su : Setup) (a : Args) (pk : PKey) (ps : List (Str × V))
    (h : ¬ SetupOk su a) : ∃ x, keyslicePairsP su a pk ps = .error x := by
  unfold keyslicePairsP
  by_cases hc : ((!a.inc.isEmpty || su.badInc) && (!a.om.isEmpty || su.badOm)) = true
  · exact ⟨.typeError, by rw [if_pos hc]⟩
  · rw [if_neg hc]
    by_cases h1 : su.badInc = true
    · exact ⟨.typeError, by rw [if_pos h1]⟩
    · rw [if_neg h1]
      by_cases h2 : su.badOm = true
      · exact ⟨.typeError, by rw [if_pos h2]⟩
      · rw [if_neg h2]
        cases h3 : su.badRen with
        | some x => exact ⟨x, rfl⟩
        | none =>
          exfalso
          apply h
          simp only [Bool.not_eq_true] at h1 h2 hc
          refine ⟨h1, h2, h3, ?_⟩
          simp only [h1, h2, Bool.or_false] at hc
          by_cases hx : Exclusive a
          · exact hx
          · rw [(not_exclusive_iff a).mp hx] at hc; cases hc

/-- **sliceP_ok_iff** — a slice is produced exactly when the arguments are usable and the key
    function returns a (hashable) key for every field of the element — selected or not, because
    the key function is applied first -/
theorem sliceP_ok_iff (su : Setup) (a : Args) (pk : PKey) (e : Elem V) :
    (∃ m, sliceP su a pk e = .ok m) ↔ SetupOk su a ∧ ∀ p ∈ e, ∃ k, pk p.1 = .ok k := by
  have hmem : (∀ p ∈ sortByKey e, ∃ k, pk p.1 = .ok k) ↔ (∀ p ∈ e, ∃ k, pk p.1 = .ok k) := by
    constructor
    · intro h p hp; exact h p ((mem_sortByKey p e).mpr hp)
    · intro h p hp; exact h p ((mem_sortByKey p e).mp hp)
  unfold sliceP
  by_cases hs : SetupOk su a
  · rw [keyslicePairsP_setup su a pk _ hs, ← hmem, ← keysliceLoopP_ok_iff a pk]
    constructor
    · rintro ⟨m, hm⟩
      cases hl : keysliceLoopP a pk (sortByKey e) with
      | error x => simp [hl] at hm
      | ok out => exact ⟨hs, out, rfl⟩
    · rintro ⟨_, out, hout⟩
      exact ⟨dictOf out, by simp [hout]⟩
  · obtain ⟨x, hx⟩ := keyslicePairsP_bad su a pk (sortByKey e) hs
    simp [hx, hs]

/-! ### no slice, no write -/

/-- **update_object_atomic_on_selection_error** — when the selection cannot be computed (the key
    function raises for some field, an argument is unusable, include and omit are both given)
    `update_object` raises that exception and the object is exactly what it was: the slice is
    produced completely before the first `setattr`. -/
theorem update_object_atomic_on_selection_error (su : Setup) (a : Args) (pk : PKey)
    (rej : Str → Option Err) (e : Elem V) (o : Obj V) (x : Err)
    (h : sliceP su a pk e = .error x) : updateObjectP su a pk rej e o = ⟨some x, o⟩ := by
  simp [updateObjectP, h]

/-- the same, from the cause: one field the key function rejects (wherever it sorts), or unusable
    arguments, is enough for the object to stay untouched -/
theorem update_object_atomic (su : Setup) (a : Args) (pk : PKey) (rej : Str → Option Err)
    (e : Elem V) (o : Obj V)
    (h : ¬ SetupOk su a ∨ ∃ p ∈ e, ∃ x, pk p.1 = .error x) :
    (updateObjectP su a pk rej e o).obj = o ∧ (updateObjectP su a pk rej e o).exc ≠ none := by
  cases hs : sliceP su a pk e with
  | error x => simp [update_object_atomic_on_selection_error su a pk rej e o x hs]
  | ok m =>
    exfalso
    obtain ⟨hok, hall⟩ := (sliceP_ok_iff su a pk e).mp ⟨m, hs⟩
    rcases h with h | ⟨p, hp, x, hx⟩
    · exact h hok
    · obtain ⟨k, hk⟩ := hall p hp
      rw [hx] at hk; cases hk

/-- the statement as a property of an implementation of update_object -/
def AtomicOnSelectionError
    (upd : Setup → Args → PKey → (Str → Option Err) → Elem Nat → Obj Nat → UpdResult Nat) : Prop :=
  ∀ su a pk rej e o x, sliceP su a pk e = .error x → (upd su a pk rej e o).obj = o

theorem updateObjectP_atomic : AtomicOnSelectionError updateObjectP := by
  intro su a pk rej e o x h
  rw [update_object_atomic_on_selection_error su a pk rej e o x h]

/-- a lookup table used as key function with no entry for the field that sorts last -/
def tableKey : PKey := fun k => if k = "city".toList then .ok "town".toList else .error .keyError

-- non-vacuity: the hypothesis holds for a concrete element (the slice fails on the LAST field)
example : sliceP (V := Nat) {} {} tableKey [("city".toList, 1), ("zip".toList, 2)] = .error .keyError := by rfl

/-- **lazyUpdate_fails** — iterating the pairs lazily (select one, write one) is not atomic on a
    selection error: the attributes of the fields sorting before the offending one are already
    written when the exception comes out. -/
theorem lazyUpdate_fails : ¬ AtomicOnSelectionError lazyUpdate := by
  intro h
  have := h {} {} tableKey (fun _ => none) [("city".toList, 1), ("zip".toList, 2)]
    [("town".toList, some 7)] .keyError rfl
  revert this
  decide

example :
    lazyUpdate (V := Nat) {} {} tableKey (fun _ => none) [("city".toList, 1), ("zip".toList, 2)]
      [("town".toList, some 7)] = ⟨some .keyError, [("town".toList, some 1)]⟩ := by rfl

/-! ### a `setattr` that the object rejects -/

theorem writeAll_frame (rej : Str → Option Err) (o : Obj V) (m : List (Str × V)) (x : Str)
    (hx : x ∉ keys m) : (writeAll rej o m).obj.get x = o.get x := by
  induction m generalizing o with
  | nil => rfl
  | cons p rest ih =>
    obtain ⟨k, v⟩ := p
    simp only [keys, List.map_cons, List.mem_cons, not_or] at hx
    unfold writeAll
    cases rej k with
    | some err => rfl
    | none =>
      simp only
      rw [ih _ (by simpa [keys] using hx.2), get_set]
      simp [Ne.symm hx.1]

theorem writeAll_rejected_unchanged (rej : Str → Option Err) (o : Obj V) (m : List (Str × V))
    (x : Str) (hx : rej x ≠ none) : (writeAll rej o m).obj.get x = o.get x := by
  induction m generalizing o with
  | nil => rfl
  | cons p rest ih =>
    obtain ⟨k, v⟩ := p
    unfold writeAll
    cases hk : rej k with
    | some err => rfl
    | none =>
      simp only
      have hne : k ≠ x := by intro h; subst h; exact hx hk
      rw [ih, get_set]
      simp [hne]

theorem writeAll_old_or_new (rej : Str → Option Err) (o : Obj V) (m : List (Str × V)) (x : Str) :
    (writeAll rej o m).obj.get x = o.get x ∨
      ∃ v, (x, v) ∈ m ∧ (writeAll rej o m).obj.get x = some v := by
  induction m generalizing o with
  | nil => exact Or.inl rfl
  | cons p rest ih =>
    obtain ⟨k, v⟩ := p
    unfold writeAll
    cases rej k with
    | some err => exact Or.inl rfl
    | none =>
      simp only
      rcases ih (o.set k v) with h | ⟨w, hw, hget⟩
      · rw [h, get_set]
        by_cases hk : k = x
        · subst hk; exact Or.inr ⟨v, List.mem_cons_self, by simp⟩
        · exact Or.inl (by simp [hk])
      · exact Or.inr ⟨w, List.mem_cons_of_mem _ hw, hget⟩

/-- the writes stop at the first rejected attribute, in the order of the slice -/
theorem writeAll_split (rej : Str → Option Err) (o : Obj V) (m : List (Str × V)) :
    (match (writeAll rej o m).exc with
     | none => (∀ p ∈ m, rej p.1 = none) ∧ (writeAll rej o m).obj = m.foldl (fun o p => o.set p.1 p.2) o
     | some err => ∃ pre k v post, m = pre ++ (k, v) :: post ∧ rej k = some err ∧
         (∀ p ∈ pre, rej p.1 = none) ∧ (writeAll rej o m).obj = pre.foldl (fun o p => o.set p.1 p.2) o) := by
  induction m generalizing o with
  | nil => simp [writeAll]
  | cons p rest ih =>
    obtain ⟨k, v⟩ := p
    unfold writeAll
    cases hk : rej k with
    | some err => exact ⟨[], k, v, rest, rfl, hk, by simp, rfl⟩
    | none =>
      simp only
      have := ih (o.set k v)
      cases he : (writeAll rej (o.set k v) rest).exc with
      | none =>
        simp only [he] at this ⊢
        exact ⟨by simpa [hk] using this.1, by simpa using this.2⟩
      | some err =>
        simp only [he] at this ⊢
        obtain ⟨pre, k', v', post, hm, hr, hpre, hobj⟩ := this
        exact ⟨(k, v) :: pre, k', v', post, by simp [hm], hr, by simpa [hk] using hpre, by simpa using hobj⟩

/-- **update_object_setattr_error** — whatever `setattr` the object rejects, and whether or not the
    call completes: attributes outside the slice are untouched, a rejecting attribute keeps what it
    had, every attribute of the slice holds either what it had or the slice's value; and the call
    raises exactly when the slice names a rejecting attribute. -/
theorem update_object_setattr_error (su : Setup) (a : Args) (pk : PKey) (rej : Str → Option Err)
    (e : Elem V) (o : Obj V) (m : List (Str × V)) (hs : sliceP su a pk e = .ok m) :
    let r := updateObjectP su a pk rej e o
    (∀ x, x ∉ keys m → r.obj.get x = o.get x) ∧
    (∀ x, rej x ≠ none → r.obj.get x = o.get x) ∧
    (∀ x, r.obj.get x = o.get x ∨ ∃ v, lookup m x = some v ∧ r.obj.get x = some v) ∧
    (r.exc = none ↔ ∀ p ∈ m, rej p.1 = none) := by
  have hn : (keys m).Nodup := by
    unfold sliceP at hs
    cases hk : keyslicePairsP su a pk (sortByKey e) with
    | error y => simp [hk] at hs
    | ok sl => simp only [hk, Except.ok.injEq] at hs; subst hs; exact keys_dictOf_nodup _
  have hr : updateObjectP su a pk rej e o = writeAll rej o m := by simp [updateObjectP, hs]
  simp only [hr]
  refine ⟨fun x hx => writeAll_frame rej o m x hx, fun x hx => writeAll_rejected_unchanged rej o m x hx, ?_, ?_⟩
  · intro x
    rcases writeAll_old_or_new rej o m x with h | ⟨v, hv, hget⟩
    · exact Or.inl h
    · refine Or.inr ⟨v, ?_, hget⟩
      rw [lookup_eq_dictGet_of_nodup m hn]
      exact dictGet_of_nodup m hn x v hv
  · have := writeAll_split rej o m
    cases he : (writeAll rej o m).exc with
    | none => simp only [he] at this; exact ⟨fun _ => this.1, fun _ => rfl⟩
    | some err =>
      simp only [he] at this
      obtain ⟨pre, k, v, post, hm, hr', _, _⟩ := this
      simp only [reduceCtorEq, false_iff]
      intro hall
      have := hall (k, v) (by simp [hm])
      rw [hr'] at this; cases this

-- the middle attribute is rejected: the first is written, the rejected one and the last are not
example :
    updateObjectP (V := Nat) {} {} (fun k => .ok k)
      (fun x => if x = "b".toList then some .attributeError else none)
      [("a".toList, 1), ("b".toList, 2), ("c".toList, 3)] [("b".toList, some 0)] =
      ⟨some .attributeError, [("b".toList, some 0), ("a".toList, some 1)]⟩ := by rfl

/-! ### set_by_object: an attribute read that raises -/

theorem scanReads_none (bad : Str → Option Err) (l : List Str) (h : ∀ x ∈ l, bad x = none) :
    scanReads bad l = (l, none) := by
  induction l with
  | nil => rfl
  | cons x rest ih =>
    simp only [List.mem_cons, forall_eq_or_imp] at h
    simp [scanReads, h.1, ih h.2]

theorem scanReads_some (bad : Str → Option Err) (l : List Str) (h : ∃ x ∈ l, bad x ≠ none) :
    ∃ err, (scanReads bad l).2 = some err ∧ ∃ x ∈ l, bad x = some err := by
  induction l with
  | nil => simp at h
  | cons y rest ih =>
    unfold scanReads
    cases hy : bad y with
    | some err => exact ⟨err, rfl, y, List.mem_cons_self, hy⟩
    | none =>
      obtain ⟨x, hx, hb⟩ := h
      simp only [List.mem_cons] at hx
      rcases hx with rfl | hx
      · exact absurd hy hb
      · obtain ⟨err, he, z, hz, hbz⟩ := ih ⟨x, hx, hb⟩
        exact ⟨err, he, z, List.mem_cons_of_mem _ hz, hbz⟩

theorem scanReads_prefix (bad : Str → Option Err) (l : List Str) : (scanReads bad l).1 <+: l := by
  induction l with
  | nil => exact List.prefix_refl _
  | cons y rest ih =>
    unfold scanReads
    cases bad y with
    | some err => exact ⟨rest, rfl⟩
    | none => simpa using ih

/-- **set_by_object_read_error_keeps_element** — if reading one of the attributes that map to
    declared fields raises (something `hasattr` does not swallow), `set_by_object` raises an
    exception of one of those reads, the element is exactly what it was (`self.set(final)` is never
    reached), and only attributes of the read set — a prefix of the sorted candidates — were looked at. -/
theorem set_by_object_read_error_keeps_element (S : Schema V) (su : Setup) (bad : Str → Option Err)
    (e : Elem V) (o : Obj V) (a : Args) (h : ∃ x ∈ candidates S.fields a, bad x ≠ none) :
    let r := setByObjectP S su bad e o a
    r.elem = e ∧ r.exc ≠ none ∧ r.reads <+: candidates S.fields a ∧
    (SetupOk su a → ∃ x ∈ candidates S.fields a, r.exc = bad x) := by
  obtain ⟨err, he, z, hz, hbz⟩ := scanReads_some bad _ h
  have hp := scanReads_prefix bad (candidates S.fields a)
  unfold setByObjectP
  cases h3 : su.badRen with
  | some x =>
    dsimp only
    refine ⟨rfl, by simp, List.nil_prefix, ?_⟩
    rintro ⟨_, _, h, _⟩; rw [h3] at h; cases h
  | none =>
    dsimp only
    by_cases h2 : su.badOm = true
    · rw [if_pos h2]
      refine ⟨rfl, by simp, List.nil_prefix, ?_⟩
      rintro ⟨_, h, _, _⟩; rw [h] at h2; cases h2
    · rw [if_neg h2]
      by_cases hc : ((!a.inc.isEmpty || su.badInc) && !a.om.isEmpty) = true
      · rw [if_pos hc]
        refine ⟨rfl, by simp, List.nil_prefix, ?_⟩
        rintro ⟨h1, _, _, hx⟩
        exfalso
        simp only [h1, Bool.or_false] at hc
        exact (not_exclusive_iff a).mpr hc hx
      · rw [if_neg hc]
        by_cases h1 : su.badInc = true
        · rw [if_pos h1]
          refine ⟨rfl, by simp, List.nil_prefix, ?_⟩
          rintro ⟨h, _⟩; rw [h] at h1; cases h1
        · rw [if_neg h1]
          simp only [he]
          exact ⟨trivial, by simp, hp, fun _ => ⟨z, hz, by simp [hbz]⟩⟩

/-- **setByObjectP_refines** — nothing unusable, no raising read: `set_by_object` of `Flatland/C20.lean` -/
theorem setByObjectP_refines (S : Schema V) (su : Setup) (bad : Str → Option Err) (e : Elem V)
    (o : Obj V) (a : Args) (hs : SetupOk su a) (hb : ∀ x ∈ candidates S.fields a, bad x = none) :
    setByObjectP S su bad e o a = setByObject S e o a := by
  obtain ⟨h1, h2, h3, h4⟩ := hs
  have hc : ¬ ((!a.inc.isEmpty || su.badInc) && !a.om.isEmpty) = true := by
    rw [h1, Bool.or_false]; exact fun hc => (not_exclusive_iff a).mpr hc h4
  unfold setByObjectP
  rw [h3]
  dsimp only
  rw [if_neg (by simp [h2]), if_neg hc, if_neg (by simp [h1]), scanReads_none bad _ hb]

/-- unusable arguments / include and omit together: nothing is read, the element stays -/
theorem set_by_object_setup_error (S : Schema V) (su : Setup) (bad : Str → Option Err) (e : Elem V)
    (o : Obj V) (a : Args) (hs : ¬ SetupOk su a) :
    let r := setByObjectP S su bad e o a
    r.elem = e ∧ r.exc ≠ none ∧ r.reads = [] := by
  unfold setByObjectP
  cases h3 : su.badRen with
  | some x => dsimp only; refine ⟨?_, ?_, ?_⟩ <;> simp
  | none =>
    dsimp only
    by_cases h2 : su.badOm = true
    · rw [if_pos h2]; refine ⟨?_, ?_, ?_⟩ <;> simp
    · rw [if_neg h2]
      by_cases hc : ((!a.inc.isEmpty || su.badInc) && !a.om.isEmpty) = true
      · rw [if_pos hc]; refine ⟨?_, ?_, ?_⟩ <;> simp
      · rw [if_neg hc]
        by_cases h1 : su.badInc = true
        · rw [if_pos h1]; refine ⟨?_, ?_, ?_⟩ <;> simp
        · exfalso
          apply hs
          simp only [Bool.not_eq_true] at h1 h2 hc
          refine ⟨h1, h2, h3, ?_⟩
          simp only [h1, Bool.or_false] at hc
          by_cases hx : Exclusive a
          · exact hx
          · rw [(not_exclusive_iff a).mp hx] at hc; cases hc

-- the getter of `b` raises ValueError: `a` and `b` are looked at, the element keeps its values
example :
    let S : Schema Nat := { fields := ["a".toList, "b".toList, "c".toList], blank := 0, setF := fun _ x => x }
    let r := setByObjectP S {} (fun x => if x = "b".toList then some .valueError else none)
      [("a".toList, 5), ("b".toList, 6), ("c".toList, 7)] [("a".toList, some 1), ("c".toList, some 3)] {}
    r.elem = [("a".toList, 5), ("b".toList, 6), ("c".toList, 7)] ∧ r.exc = some .valueError ∧
      r.reads = ["a".toList, "b".toList] := by decide

/-! ### the seeded mutation `lazyUpdate` is invisible on every successful call (p3) -/

def okeys (o : Obj V) : List Str := o.map (·.1)

theorem okeys_set (o : Obj V) (k : Str) (v : V) (x : Str) : x ∈ okeys (o.set k v) ↔ x = k ∨ x ∈ okeys o := by
  induction o with
  | nil => simp [Obj.set, okeys]
  | cons p rest ih =>
    obtain ⟨a, w⟩ := p
    simp only [Obj.set]
    by_cases h : a = k
    · subst h; simp [okeys]
    · simp only [h, if_false]
      simp only [okeys, List.map_cons, List.mem_cons] at ih ⊢
      rw [ih]; constructor <;> (intro h; rcases h with h | h | h <;> simp [h])

/-- writing the same attribute twice: the second value stays -/
theorem set_set_same (o : Obj V) (k : Str) (v w : V) : (o.set k v).set k w = o.set k w := by
  induction o with
  | nil => simp [Obj.set]
  | cons p rest ih =>
    obtain ⟨a, u⟩ := p
    by_cases h : a = k
    · subst h; simp [Obj.set]
    · simp [Obj.set, h, ih]

/-- writes to different attributes commute once one of them exists on the object (a NEW attribute
    is appended, so two new ones do not commute as lists) -/
theorem set_comm_of_mem (o : Obj V) (k a : Str) (v x : V) (hk : k ∈ okeys o) (hne : a ≠ k) :
    (o.set a x).set k v = (o.set k v).set a x := by
  induction o with
  | nil => simp [okeys] at hk
  | cons p rest ih =>
    obtain ⟨b, u⟩ := p
    by_cases hb : b = k
    · subst hb
      have : ¬ b = a := fun e => hne e.symm
      simp [Obj.set, this]
    · have hk' : k ∈ okeys rest := by
        simp only [okeys, List.map_cons, List.mem_cons] at hk
        rcases hk with h | h
        · exact absurd h.symm hb
        · exact h
      by_cases ha : b = a
      · subst ha; simp [Obj.set, hb]
      · simp [Obj.set, hb, ha, ih hk']

theorem foldl_set_comm (m : List (Str × V)) (o : Obj V) (k : Str) (v : V) (hk : k ∈ okeys o)
    (hm : k ∉ keys m) :
    (m.foldl (fun o p => o.set p.1 p.2) o).set k v = m.foldl (fun o p => o.set p.1 p.2) (o.set k v) := by
  induction m generalizing o with
  | nil => rfl
  | cons p rest ih =>
    obtain ⟨a, x⟩ := p
    simp only [keys, List.map_cons, List.mem_cons, not_or] at hm
    simp only [List.foldl_cons]
    rw [ih (o.set a x) ((okeys_set o a x k).mpr (Or.inr hk)) (by simpa [keys] using hm.2),
      set_comm_of_mem o k a v x hk (fun e => hm.1 e.symm)]

/-- `for k, v in d.items(): setattr(o, k, v)` after `d[k] = v` = the same loop over `d`, then one
    more `setattr(o, k, v)` — positions included -/
theorem foldl_set_dictSet (d : List (Str × V)) (hd : (keys d).Nodup) (o : Obj V) (k : Str) (v : V) :
    (dictSet d k v).foldl (fun o p => o.set p.1 p.2) o = (d.foldl (fun o p => o.set p.1 p.2) o).set k v := by
  induction d generalizing o with
  | nil => rfl
  | cons p rest ih =>
    obtain ⟨a, x⟩ := p
    simp only [keys, List.map_cons, List.nodup_cons] at hd
    by_cases h : a = k
    · subst h
      simp only [dictSet, if_true, List.foldl_cons]
      rw [foldl_set_comm rest (o.set a x) a v ((okeys_set o a x a).mpr (Or.inl rfl)) hd.1, set_set_same]
    · simp only [dictSet, h, if_false, List.foldl_cons]
      exact ih hd.2 _

theorem foldl_set_foldl_dictSet (ps d : List (Str × V)) (hd : (keys d).Nodup) (o : Obj V) :
    (ps.foldl (fun d p => dictSet d p.1 p.2) d).foldl (fun o p => o.set p.1 p.2) o =
      ps.foldl (fun o p => o.set p.1 p.2) (d.foldl (fun o p => o.set p.1 p.2) o) := by
  induction ps generalizing d with
  | nil => rfl
  | cons p rest ih =>
    simp only [List.foldl_cons]
    rw [ih _ (keys_dictSet_nodup d p.1 p.2 hd), foldl_set_dictSet d hd]

/-- **writing the dict = writing the pairs one by one**: `dict(sliced)` keeps the FIRST position
    and the LAST value of a repeated key, and so does a sequence of `setattr` calls -/
theorem foldl_set_dictOf (ps : List (Str × V)) (o : Obj V) :
    (dictOf ps).foldl (fun o p => o.set p.1 p.2) o = ps.foldl (fun o p => o.set p.1 p.2) o :=
  foldl_set_foldl_dictSet ps [] (by simp [keys]) o

theorem writeAll_ok (rej : Str → Option Err) (o : Obj V) (m : List (Str × V)) (h : ∀ p ∈ m, rej p.1 = none) :
    writeAll rej o m = ⟨none, m.foldl (fun o p => o.set p.1 p.2) o⟩ := by
  induction m generalizing o with
  | nil => rfl
  | cons p rest ih =>
    obtain ⟨k, v⟩ := p
    have hk : rej k = none := h (k, v) List.mem_cons_self
    simp only [writeAll, hk, List.foldl_cons]
    exact ih _ (fun q hq => h q (List.mem_cons_of_mem _ hq))

/-- the interleaved loop on a selection that can be computed in full and an object that accepts
    the selected names: one `setattr` per selected pair, in order -/
theorem lazyLoop_ok (a : Args) (pk : PKey) (rej : Str → Option Err) (ps sel : List (Str × V)) (o : Obj V)
    (hs : keysliceLoopP a pk ps = .ok sel) (hrej : ∀ p ∈ sel, rej p.1 = none) :
    lazyLoop a pk rej o ps = ⟨none, sel.foldl (fun o p => o.set p.1 p.2) o⟩ := by
  induction ps generalizing o sel with
  | nil => simp only [keysliceLoopP, Except.ok.injEq] at hs; subst hs; rfl
  | cons p rest ih =>
    obtain ⟨k, v⟩ := p
    simp only [keysliceLoopP] at hs
    simp only [lazyLoop]
    cases hk : pk k with
    | error x => rw [hk] at hs; cases hs
    | ok k1 =>
      rw [hk] at hs; simp only at hs ⊢
      cases hr : keysliceLoopP a pk rest with
      | error x => rw [hr] at hs; cases hs
      | ok out =>
        rw [hr] at hs; simp only at hs
        cases h1 : keysliceOne { a with key := none } k1 with
        | none =>
          rw [h1] at hs; simp only [Except.ok.injEq] at hs; subst hs
          exact ih out o hr hrej
        | some k2 =>
          rw [h1] at hs; simp only [Except.ok.injEq] at hs; subst hs
          have hk2 : rej k2 = none := hrej (k2, v) List.mem_cons_self
          simp only [hk2, List.foldl_cons]
          exact ih out _ hr (fun q hq => hrej q (List.mem_cons_of_mem _ hq))

theorem keys_dictOf_mem (ps : List (Str × V)) (x : Str) : x ∈ keys (dictOf ps) ↔ x ∈ keys ps := by
  rw [mem_keys_iff_lookup, lookup_dictOf, dictGet_isSome]
  simp only [keys, List.mem_map]
  constructor
  · rintro ⟨v, hv⟩; exact ⟨(x, v), hv, rfl⟩
  · rintro ⟨⟨k, v⟩, hp, rfl⟩; exact ⟨v, hp⟩

/-- the preparation of `lazyUpdate` (no pair looked at) succeeds exactly when the arguments are usable -/
theorem lazy_setup_ok (su : Setup) (a : Args) (h : SetupOk su a) :
    keyslicePairsP su a (fun k => .ok k) ([] : List (Str × V)) = .ok [] := by
  rw [keyslicePairsP_setup su a _ _ h]; rfl

/-- **lazyUpdate_eq_on_success** — whenever the selection can be computed in full and the object
    accepts every selected name, the interleaved variant and `update_object` as written end in the
    SAME object (attribute order included) and both return normally: the seeded mutation is
    invisible on every successful call.  With `lazyUpdate_fails`: it shows on selection errors. -/
theorem lazyUpdate_eq_on_success (su : Setup) (a : Args) (pk : PKey) (rej : Str → Option Err)
    (e : Elem V) (o : Obj V) (sl : List (Str × V)) (hs : sliceP su a pk e = .ok sl)
    (hrej : ∀ p ∈ sl, rej p.1 = none) :
    lazyUpdate su a pk rej e o = updateObjectP su a pk rej e o ∧
      (updateObjectP su a pk rej e o).exc = none ∧
      (updateObjectP su a pk rej e o).obj = sl.foldl (fun o p => o.set p.1 p.2) o := by
  obtain ⟨hok, _⟩ := (sliceP_ok_iff su a pk e).mp ⟨sl, hs⟩
  have hupd : updateObjectP su a pk rej e o = writeAll rej o sl := by simp [updateObjectP, hs]
  unfold sliceP at hs
  rw [keyslicePairsP_setup su a pk _ hok] at hs
  cases hl : keysliceLoopP a pk (sortByKey e) with
  | error x => rw [hl] at hs; cases hs
  | ok sel =>
    rw [hl] at hs
    simp only [Except.ok.injEq] at hs
    subst hs
    have hrej' : ∀ p ∈ sel, rej p.1 = none := by
      intro p hp
      have hk : p.1 ∈ keys (dictOf sel) := (keys_dictOf_mem sel p.1).mpr (List.mem_map.mpr ⟨p, hp, rfl⟩)
      obtain ⟨q, hq, hqk⟩ := List.mem_map.mp hk
      rw [← hqk]; exact hrej q hq
    rw [hupd, writeAll_ok rej o _ hrej]
    refine ⟨?_, rfl, rfl⟩
    unfold lazyUpdate
    rw [lazy_setup_ok su a hok]
    simp only
    rw [lazyLoop_ok a pk rej _ sel o hl hrej', foldl_set_dictOf]


/-! ### … and shows exactly on a selection error that comes after an effective write -/

/-- a selection that fails: the pairs before the first field the key function rejects are all keyed -/
theorem keysliceLoopP_error_split (a : Args) (pk : PKey) (ps : List (Str × V)) (x : Err)
    (h : keysliceLoopP a pk ps = .error x) :
    ∃ pre k v post sel, ps = pre ++ (k, v) :: post ∧ keysliceLoopP a pk pre = .ok sel ∧ pk k = .error x := by
  induction ps with
  | nil => simp [keysliceLoopP] at h
  | cons p rest ih =>
    obtain ⟨k, v⟩ := p
    simp only [keysliceLoopP] at h
    cases hk : pk k with
    | error y =>
      rw [hk] at h; simp only [Except.error.injEq] at h; subst h
      exact ⟨[], k, v, rest, [], rfl, rfl, hk⟩
    | ok k1 =>
      rw [hk] at h; simp only at h
      cases hr : keysliceLoopP a pk rest with
      | ok out => rw [hr] at h; simp only at h; split at h <;> cases h
      | error y =>
        rw [hr] at h; simp only [Except.error.injEq] at h; subst h
        obtain ⟨pre, k', v', post, sel, hps, hpre, hk'⟩ := ih hr
        refine ⟨(k, v) :: pre, k', v', post,
          (match keysliceOne { a with key := none } k1 with | none => sel | some k2 => (k2, v) :: sel),
          by simp [hps], ?_, hk'⟩
        simp only [keysliceLoopP, hk, hpre]
        cases keysliceOne { a with key := none } k1 <;> rfl

theorem keysliceLoopP_error_of_split (a : Args) (pk : PKey) (pre post sel : List (Str × V)) (k : Str) (v : V)
    (x : Err) (hpre : keysliceLoopP a pk pre = .ok sel) (hk : pk k = .error x) :
    keysliceLoopP a pk (pre ++ (k, v) :: post) = .error x := by
  induction pre generalizing sel with
  | nil => simp [keysliceLoopP, hk]
  | cons p rest ih =>
    obtain ⟨k0, v0⟩ := p
    simp only [keysliceLoopP] at hpre
    cases h0 : pk k0 with
    | error y => rw [h0] at hpre; cases hpre
    | ok k1 =>
      rw [h0] at hpre; simp only at hpre
      cases hr : keysliceLoopP a pk rest with
      | error y => rw [hr] at hpre; cases hpre
      | ok out => simp only [List.cons_append, keysliceLoopP, h0, ih out hr]

/-- the interleaved loop on a selection that fails at `k`: the selected pairs before `k` are written -/
theorem lazyLoop_selection_error (a : Args) (pk : PKey) (rej : Str → Option Err) (pre post sel : List (Str × V))
    (k : Str) (v : V) (x : Err) (o : Obj V)
    (hpre : keysliceLoopP a pk pre = .ok sel) (hk : pk k = .error x) (hrej : ∀ p ∈ sel, rej p.1 = none) :
    lazyLoop a pk rej o (pre ++ (k, v) :: post) = ⟨some x, sel.foldl (fun o p => o.set p.1 p.2) o⟩ := by
  induction pre generalizing sel o with
  | nil =>
    simp only [keysliceLoopP, Except.ok.injEq] at hpre; subst hpre
    simp [lazyLoop, hk]
  | cons p rest ih =>
    obtain ⟨k0, v0⟩ := p
    simp only [keysliceLoopP] at hpre
    cases h0 : pk k0 with
    | error y => rw [h0] at hpre; cases hpre
    | ok k1 =>
      rw [h0] at hpre; simp only at hpre
      cases hr : keysliceLoopP a pk rest with
      | error y => rw [hr] at hpre; cases hpre
      | ok out =>
        rw [hr] at hpre; simp only at hpre
        simp only [List.cons_append, lazyLoop, h0]
        cases h1 : keysliceOne { a with key := none } k1 with
        | none =>
          rw [h1] at hpre; simp only [Except.ok.injEq] at hpre; subst hpre
          exact ih out o hr hrej
        | some k2 =>
          rw [h1] at hpre; simp only [Except.ok.injEq] at hpre; subst hpre
          have hk2 : rej k2 = none := hrej (k2, v0) List.mem_cons_self
          simp only [hk2, List.foldl_cons]
          exact ih out _ hr (fun q hq => hrej q (List.mem_cons_of_mem _ hq))

/-- **lazyUpdate_differs_iff** — on an object that accepts every `setattr`, the interleaved variant
    and `update_object` differ in what they leave behind EXACTLY when the arguments are usable, the
    key function rejects a field, and the writes of the pairs selected BEFORE the first rejected
    field (in sorted order) change the object — in particular at least one pair has been emitted
    (`lazyUpdate_differs_emitted`); the exception is the same in both. -/
theorem lazyUpdate_differs_iff (su : Setup) (a : Args) (pk : PKey) (e : Elem V) (o : Obj V) :
    lazyUpdate su a pk (fun _ => none) e o ≠ updateObjectP su a pk (fun _ => none) e o ↔
      SetupOk su a ∧ ∃ pre k v post sel x, sortByKey e = pre ++ (k, v) :: post ∧
        keysliceLoopP a pk pre = .ok sel ∧ pk k = .error x ∧
        sel.foldl (fun o p => o.set p.1 p.2) o ≠ o ∧
        lazyUpdate su a pk (fun _ => none) e o = ⟨some x, sel.foldl (fun o p => o.set p.1 p.2) o⟩ ∧
        updateObjectP su a pk (fun _ => none) e o = ⟨some x, o⟩ := by
  have key : ∀ pre k v post sel x, SetupOk su a → sortByKey e = pre ++ (k, v) :: post →
      keysliceLoopP a pk pre = .ok sel → pk k = .error x →
      lazyUpdate su a pk (fun _ => none) e o = ⟨some x, sel.foldl (fun o p => o.set p.1 p.2) o⟩ ∧
        updateObjectP su a pk (fun _ => none) e o = ⟨some x, o⟩ := by
    intro pre k v post sel x hok hps hpre hk
    constructor
    · unfold lazyUpdate
      rw [lazy_setup_ok su a hok]
      simp only
      rw [hps]
      exact lazyLoop_selection_error a pk _ pre post sel k v x o hpre hk (fun _ _ => rfl)
    · apply update_object_atomic_on_selection_error
      unfold sliceP
      rw [keyslicePairsP_setup su a pk _ hok, hps, keysliceLoopP_error_of_split a pk pre post sel k v x hpre hk]
  constructor
  · intro hne
    cases hs : sliceP su a pk e with
    | ok sl => exact absurd (lazyUpdate_eq_on_success su a pk _ e o sl hs (fun _ _ => rfl)).1 hne
    | error x =>
      by_cases hok : SetupOk su a
      · refine ⟨hok, ?_⟩
        unfold sliceP at hs
        rw [keyslicePairsP_setup su a pk _ hok] at hs
        cases hl : keysliceLoopP a pk (sortByKey e) with
        | ok sel => rw [hl] at hs; cases hs
        | error y =>
          obtain ⟨pre, k, v, post, sel, hps, hpre, hk⟩ := keysliceLoopP_error_split a pk _ y hl
          obtain ⟨h1, h2⟩ := key pre k v post sel y hok hps hpre hk
          refine ⟨pre, k, v, post, sel, y, hps, hpre, hk, ?_, h1, h2⟩
          intro heq
          apply hne
          rw [h1, h2, heq]
      · exfalso
        apply hne
        obtain ⟨y, hy⟩ := keyslicePairsP_bad su a (fun k => .ok k) ([] : List (Str × V)) hok
        obtain ⟨z, hz⟩ := keyslicePairsP_bad su a pk (sortByKey e) hok
        have hyz : y = z := by
          unfold keyslicePairsP at hy hz
          repeat' split at hy
          all_goals (repeat' split at hz)
          all_goals simp_all [keysliceLoopP]
        subst hyz
        simp [lazyUpdate, updateObjectP, sliceP, hy, hz]
  · rintro ⟨_, pre, k, v, post, sel, x, _, _, _, hch, h1, h2⟩
    rw [h1, h2]
    intro heq
    injection heq with _ ho
    exact hch ho

/-- … so a difference means at least one selected pair was emitted before the failure -/
theorem lazyUpdate_differs_emitted (su : Setup) (a : Args) (pk : PKey) (e : Elem V) (o : Obj V)
    (h : lazyUpdate su a pk (fun _ => none) e o ≠ updateObjectP su a pk (fun _ => none) e o) :
    ∃ pre k v post sel x, sortByKey e = pre ++ (k, v) :: post ∧ keysliceLoopP a pk pre = .ok sel ∧
      pk k = .error x ∧ sel ≠ [] := by
  obtain ⟨_, pre, k, v, post, sel, x, h1, h2, h3, h4, _, _⟩ := (lazyUpdate_differs_iff su a pk e o).mp h
  exact ⟨pre, k, v, post, sel, x, h1, h2, h3, fun e => h4 (by rw [e]; rfl)⟩

-- non-vacuity: the witness of `lazyUpdate_fails` is such a case; a successful call with a renamed,
-- repeated target key and an object that already has one of the attributes agrees
example : (lazyUpdate (V := Nat) {} {} tableKey (fun _ => none) [("city".toList, 1), ("zip".toList, 2)]
    [("town".toList, some 7)]).obj ≠ (updateObjectP {} {} tableKey (fun _ => none) [("city".toList, 1), ("zip".toList, 2)]
    [("town".toList, some 7)]).obj := by decide
def renTwice : Args := { ren := [("a".toList, "z".toList), ("c".toList, "z".toList)] }
example :
    sliceP (V := Nat) {} renTwice (fun k => .ok k) [("a".toList, 1), ("b".toList, 2), ("c".toList, 3)] =
      .ok [("z".toList, 3), ("b".toList, 2)] ∧
    lazyUpdate (V := Nat) {} renTwice (fun k => .ok k) (fun _ => none) [("a".toList, 1), ("b".toList, 2), ("c".toList, 3)]
      [("b".toList, some 0)] = ⟨none, [("b".toList, some 2), ("z".toList, some 3)]⟩ ∧
    updateObjectP (V := Nat) {} renTwice (fun k => .ok k) (fun _ => none) [("a".toList, 1), ("b".toList, 2), ("c".toList, 3)]
      [("b".toList, some 0)] = ⟨none, [("b".toList, some 2), ("z".toList, some 3)]⟩ := ⟨rfl, rfl, rfl⟩

end Flatland.C20.Proofs
