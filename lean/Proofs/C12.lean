/-
C12 — a rendered form, submitted unchanged, posts the element's own flat pairs.

Theorems about the model of the transforms (`Flatland/Markup/Transform.lean`) and the browser
rule `submitted` (`Flatland/C12.lean`), for every bind, every context in which name/value
generation is enabled, and every literal.
-/
import Flatland.C12
import Flatland.Spec.C12
import Proofs.Lemmas.C12Transforms
import Proofs.C19
namespace Flatland.C12.Proofs
open Flatland.Markup Flatland.C12 Flatland.C19.Proofs

/-! ### naming -/

theorem foldl_join (n : Str) (rest : List Str) :
    rest.foldl (fun acc x => acc ++ '_' :: x) n = n ++ (rest.map (fun x => '_' :: x)).flatten := by
  induction rest generalizing n with
  | nil => simp
  | cons r rs ih => simp [List.foldl_cons, ih, List.append_assoc]

/-- the model's name function is the documented one -/
theorem flatName_spec (path : List (Option Str)) : flatName path = Spec.flattenedName path := by
  unfold flatName Spec.flattenedName
  cases path.filterMap id with
  | nil => rfl
  | cons n rest => exact foldl_join n rest

/-- anonymous path elements (list members, Array members, an unnamed root) do not show -/
theorem flatName_skip_none (pre post : List (Option Str)) :
    flatName (pre ++ none :: post) = flatName (pre ++ post) := by
  simp [flatName, List.filterMap_append]

/-- a named child of a named parent is `parent_child` — also when the names contain the separator -/
theorem flatName_child (pre : List (Option Str)) (n : Str) (h : pre.filterMap id ≠ []) :
    flatName (pre ++ [some n]) = flatName pre ++ '_' :: n := by
  rw [flatName_spec, flatName_spec]
  unfold Spec.flattenedName
  rw [List.filterMap_append]
  cases hp : pre.filterMap id with
  | nil => exact absurd hp h
  | cons a as => simp [List.append_assoc]

/-! ### the six transforms in sequence -/

theorem transform_steps {T : Tables} {tag : Str} {bnd : Option Bind} {st st6 : TState}
    (h : transform T tag bnd st = .ok st6) :
    ∃ s1 s2 s3 s4 s5, transformName T tag bnd st = .ok s1 ∧ transformValue T tag bnd s1 = .ok s2 ∧
      transformDomid T tag bnd s2 = .ok s3 ∧ transformFor T tag bnd s3 = .ok s4 ∧
      transformTabindex T tag bnd s4 = .ok s5 ∧ transformFilters T tag bnd s5 = .ok st6 := by
  unfold transform at h
  simp only [bind, Except.bind] at h
  cases h1 : transformName T tag bnd st with
  | error e => rw [h1] at h; simp at h
  | ok s1 =>
    rw [h1] at h; simp only at h
    cases h2 : transformValue T tag bnd s1 with
    | error e => rw [h2] at h; simp at h
    | ok s2 =>
      rw [h2] at h; simp only at h
      cases h3 : transformDomid T tag bnd s2 with
      | error e => rw [h3] at h; simp at h
      | ok s3 =>
        rw [h3] at h; simp only at h
        cases h4 : transformFor T tag bnd s3 with
        | error e => rw [h4] at h; simp at h
        | ok s4 =>
          rw [h4] at h; simp only at h
          cases h5 : transformTabindex T tag bnd s4 with
          | error e => rw [h5] at h; simp at h
          | ok s5 =>
            rw [h5] at h; simp only at h
            exact ⟨s1, s2, s3, s4, s5, rfl, h2, h3, h4, h5, h⟩

/-- the attribute-dict form of the browser rule (no ordering involved) -/
def submittedD (tag : Str) (attrs : Attrs) (text : Str) : Option (Str × Str) :=
  submitted tag (strAttrs attrs) text

/-- hypotheses shared by the control theorems: the tag carries no option, no `name`, no `value`;
    name/value generation is enabled in the context (true of a fresh generator: `fresh_enabled`) -/
structure Plain (T : Tables) (st : TState) : Prop where
  nameOn : Enabled T st.ctx "auto_name".toList
  valueOn : Enabled T st.ctx "auto_value".toList
  noNameOpt : Dict.get? st.attrs "auto_name".toList = none
  noValueOpt : Dict.get? st.attrs "auto_value".toList = none
  noName : Dict.get? st.attrs sName = none

/-- what the transforms leave in the attribute dict of a text-like `<input>` -/
theorem input_textlike_attrs (T : Tables) (b : Bind) (st st6 : TState) (hp : Plain T st)
    (hnoval : Dict.get? st.attrs sValue = none)
    (hty : textLike ((Dict.get? st.attrs sType).getD (.text [])).lowerKw = true)
    (hname : b.flatName ≠ [])
    (hT1 : T.autoTag sName sInput = true) (hT2 : T.autoTag sValue sInput = true)
    (h : transform T sInput (some b) st = .ok st6) :
    Dict.get? st6.attrs sName = some (.text b.flatName) ∧ Dict.get? st6.attrs sValue = some (.text b.u) ∧
    Dict.get? st6.attrs sType = Dict.get? st.attrs sType := by
  obtain ⟨s1, s2, s3, s4, s5, h1, h2, h3, h4, h5, h6⟩ := transform_steps h
  rw [transformName_on T sInput b st hp.nameOn hp.noNameOpt hname hp.noName hT1] at h1
  simp only [Except.ok.injEq] at h1
  subst h1
  have n1 : "auto_value".toList ≠ sName := by decide
  have n2 : sType ≠ sName := by decide
  have n3 : sValue ≠ sName := by decide
  have hv := transformValue_textlike T b ⟨Dict.set st.attrs sName (.text b.flatName), st.contents, st.ctx⟩ hp.valueOn
      (by simp only; rw [Dict.get?_set_other _ _ _ _ n1]; exact hp.noValueOpt)
      (by simp only; rw [Dict.get?_set_other _ _ _ _ n2]; exact hty)
      (by simp only; rw [Dict.get?_set_other _ _ _ _ n3]; exact hnoval) hT2
  rw [hv] at h2
  simp only [Except.ok.injEq] at h2
  subst h2
  have hl : sInput ≠ sLabel := by decide
  have f1 := (later_frame sName (by decide) hl h3 h4 h5 h6).1
  have f2 := (later_frame sValue (by decide) hl h3 h4 h5 h6).1
  have f3 := (later_frame sType (by decide) hl h3 h4 h5 h6).1
  simp only at f1 f2 f3
  have m1 : sName ≠ sValue := by decide
  have m2 : sType ≠ sValue := by decide
  refine ⟨?_, ?_, ?_⟩
  · rw [f1, Dict.get?_set_other _ _ _ _ m1, Dict.get?_set_self]
  · rw [f2, Dict.get?_set_self]
  · rw [f3, Dict.get?_set_other _ _ _ _ m2, Dict.get?_set_other _ _ _ _ n2]

end Flatland.C12.Proofs

namespace Flatland.C12.Proofs
open Flatland.Markup Flatland.C12 Flatland.C19.Proofs

/-! ### from the attribute dict to what the browser reads -/

theorem attr?_strAttrs (attrs : Attrs) (hnd : (Dict.keys attrs).Nodup) (k : Str) :
    attr? (strAttrs attrs) k = (Dict.get? attrs k).bind Val.str? := by
  induction attrs with
  | nil => rfl
  | cons p rest ih =>
    obtain ⟨k0, v0⟩ := p
    simp only [Dict.keys, List.map_cons, List.nodup_cons] at hnd
    have ih' := ih hnd.2
    by_cases h0 : k0 = k
    · subst h0
      simp only [Dict.get?_cons, if_true, Option.bind_some]
      cases hs : v0.str? with
      | some s => simp [strAttrs, hs, attr?]
      | none =>
        simp only [strAttrs, List.filterMap_cons, hs, Option.map_none]
        have : Dict.get? rest k0 = none := (Dict.get?_eq_none_iff rest k0).mpr hnd.1
        rw [show attr? (List.filterMap (fun kv => Option.map (fun s => (kv.1, s)) kv.2.str?) rest) k0 =
          attr? (strAttrs rest) k0 from rfl, ih', this]
        rfl
    · simp only [Dict.get?_cons, h0, if_false]
      cases hs : v0.str? with
      | some s => simp [strAttrs, hs, attr?, h0]; exact ih'
      | none => simp only [strAttrs, List.filterMap_cons, hs, Option.map_none]; exact ih'

theorem transform_nodup {T : Tables} {tag : Str} {bnd : Option Bind} {st st6 : TState}
    (hnd : (Dict.keys st.attrs).Nodup) (h : transform T tag bnd st = .ok st6) :
    (Dict.keys st6.attrs).Nodup := by
  obtain ⟨s1, s2, s3, s4, s5, h1, h2, h3, h4, h5, h6⟩ := transform_steps h
  have n1 := (transformName_reach h1).nodup (Dict.nodup_erase _ _ hnd)
  have n2 := (transformValue_reach h2).nodup (Dict.nodup_erase _ _ n1)
  have n3 := (transformDomid_reach h3).nodup (Dict.nodup_erase _ _ n2)
  have n4 := (transformFor_reach h4).nodup (Dict.nodup_erase _ _ n3)
  have n5 := (transformTabindex_reach h5).nodup (Dict.nodup_erase _ _ n4)
  exact (transformFilters_reach h6).nodup (Dict.nodup_erase _ _ n5)

/-- the `type` a browser sees is neither checkbox nor radio, nor one of the types whose `value` is
    never posted (reset, button, file, image); types are ASCII case-insensitive there.  `submit`
    is allowed: the theorem then says what that input posts as THE activated submitter. -/
def browserTextLike (attrs : Attrs) : Prop :=
  let ty := asciiLower (((Dict.get? attrs sType).bind Val.str?).getD "text".toList)
  ty ≠ "checkbox".toList ∧ ty ≠ "radio".toList ∧ inputNeverPosts ty = false

/-- POSTS FLAT PAIR — text-like `<input>`: after the transforms, the browser rule posts exactly
    `(flattened name, u)`. -/
theorem posts_flat_pair_input (T : Tables) (b : Bind) (st st6 : TState) (text : Str) (hp : Plain T st)
    (hnd : (Dict.keys st.attrs).Nodup)
    (hnoval : Dict.get? st.attrs sValue = none)
    (hty : textLike ((Dict.get? st.attrs sType).getD (.text [])).lowerKw = true)
    (hbr : browserTextLike st.attrs)
    (hname : b.flatName ≠ [])
    (hT1 : T.autoTag sName sInput = true) (hT2 : T.autoTag sValue sInput = true)
    (h : transform T sInput (some b) st = .ok st6) :
    Spec.PostsFlatPair (submittedD sInput st6.attrs text) b := by
  obtain ⟨a1, a2, a3⟩ := input_textlike_attrs T b st st6 hp hnoval hty hname hT1 hT2 h
  have hn6 := transform_nodup hnd h
  have hne : b.flatName.isEmpty = false := by simpa using hname
  unfold Spec.PostsFlatPair submittedD submitted
  simp only [attr?_strAttrs _ hn6, a1, a2, a3, Option.bind_some, Val.str?, hne, Bool.false_eq_true, if_false, if_true]
  obtain ⟨b1, b2, b3⟩ := hbr
  rw [decide_eq_false b1, decide_eq_false b2, b3]
  simp only [Bool.or_self, Bool.false_eq_true, if_false, Option.getD_some]

/-- POSTS FLAT PAIR — `<button>` without a `type` attribute (a submit button): when it is THE
    activated submitter it posts `(flattened name, u)` from its value attribute -/
theorem posts_flat_pair_button (T : Tables) (b : Bind) (st st6 : TState) (text : Str) (hp : Plain T st)
    (hnd : (Dict.keys st.attrs).Nodup) (hnoval : Dict.get? st.attrs sValue = none)
    (hnoty : Dict.get? st.attrs sType = none)
    (hname : b.flatName ≠ [])
    (hT1 : T.autoTag sName "button".toList = true) (hT2 : T.autoTag sValue "button".toList = true)
    (h : transform T "button".toList (some b) st = .ok st6) :
    Spec.PostsFlatPair (submittedD "button".toList st6.attrs text) b := by
  obtain ⟨s1, s2, s3, s4, s5, h1, h2, h3, h4, h5, h6⟩ := transform_steps h
  rw [transformName_on T _ b st hp.nameOn hp.noNameOpt hname hp.noName hT1] at h1
  simp only [Except.ok.injEq] at h1
  subst h1
  have n1 : "auto_value".toList ≠ sName := by decide
  have n3 : sValue ≠ sName := by decide
  have hv := transformValue_plain T "button".toList b ⟨Dict.set st.attrs sName (.text b.flatName), st.contents, st.ctx⟩
      hp.valueOn (by simp only; rw [Dict.get?_set_other _ _ _ _ n1]; exact hp.noValueOpt)
      (by decide) (by decide) (by decide)
      (by simp only; rw [Dict.get?_set_other _ _ _ _ n3]; exact hnoval) hT2
  rw [hv] at h2
  simp only [Except.ok.injEq] at h2
  subst h2
  have hl : "button".toList ≠ sLabel := by decide
  have f1 := (later_frame sName (by decide) hl h3 h4 h5 h6).1
  have f2 := (later_frame sValue (by decide) hl h3 h4 h5 h6).1
  have f3 := (later_frame sType (by decide) hl h3 h4 h5 h6).1
  simp only at f1 f2 f3
  have m1 : sName ≠ sValue := by decide
  have m2 : sType ≠ sValue := by decide
  have m3 : sType ≠ sName := by decide
  rw [Dict.get?_set_other _ _ _ _ m1, Dict.get?_set_self] at f1
  rw [Dict.get?_set_self] at f2
  rw [Dict.get?_set_other _ _ _ _ m2, Dict.get?_set_other _ _ _ _ m3, hnoty] at f3
  have hn6 := transform_nodup hnd h
  have hne : b.flatName.isEmpty = false := by simpa using hname
  have e1 : "button".toList ≠ sInput := by decide
  have e2 : "button".toList ≠ sTextarea := by decide
  have e3 : buttonNeverPosts (asciiLower "submit".toList) = false := by decide
  unfold Spec.PostsFlatPair submittedD submitted
  simp only [attr?_strAttrs _ hn6, f1, f2, f3, Option.bind_some, Option.bind_none, Val.str?, hne, Bool.false_eq_true,
    if_false, e1, e2, if_true, Option.getD_some, Option.getD_none, e3]

/-- POSTS FLAT PAIR — `<textarea>`: the contents are the escaped text, which a browser reads back
    as `u` (C11 `decodeRefs_escape`); stated on the contents string -/
theorem posts_flat_pair_textarea (T : Tables) (b : Bind) (st st6 : TState) (hp : Plain T st)
    (hnd : (Dict.keys st.attrs).Nodup) (hc : st.contents = none)
    (hname : b.flatName ≠ [])
    (hT1 : T.autoTag sName sTextarea = true) (hT2 : T.autoTag sValue sTextarea = true)
    (h : transform T sTextarea (some b) st = .ok st6) :
    st6.contents = some (.markup (Flatland.C11.markupEscape T.textChain b.u)) ∧
    ∀ text, submittedD sTextarea st6.attrs text = some (b.flatName, dropLeadingLF text) := by
  obtain ⟨s1, s2, s3, s4, s5, h1, h2, h3, h4, h5, h6⟩ := transform_steps h
  rw [transformName_on T _ b st hp.nameOn hp.noNameOpt hname hp.noName hT1] at h1
  simp only [Except.ok.injEq] at h1
  subst h1
  have n1 : "auto_value".toList ≠ sName := by decide
  have hv := transformValue_textarea T b ⟨Dict.set st.attrs sName (.text b.flatName), st.contents, st.ctx⟩
      hp.valueOn (by simp only; rw [Dict.get?_set_other _ _ _ _ n1]; exact hp.noValueOpt) hc hT2
  rw [hv] at h2
  simp only [Except.ok.injEq] at h2
  subst h2
  have hl : sTextarea ≠ sLabel := by decide
  obtain ⟨f1, c1⟩ := later_frame sName (by decide) hl h3 h4 h5 h6
  simp only at f1 c1
  rw [Dict.get?_set_self] at f1
  refine ⟨c1, ?_⟩
  intro text
  have hn6 := transform_nodup hnd h
  have hne : b.flatName.isEmpty = false := by simpa using hname
  have e1 : sTextarea ≠ sInput := by decide
  unfold submittedD submitted
  simp only [attr?_strAttrs _ hn6, f1, Option.bind_some, Val.str?, hne, Bool.false_eq_true, if_false, e1, if_true]

end Flatland.C12.Proofs

namespace Flatland.C12.Proofs
open Flatland.Markup Flatland.C12 Flatland.C19.Proofs

/-! ### checkboxes and radios -/

theorem str?_text (s : Str) : (Val.text s).str? = some s := rfl

theorem checkable_str (ty : Val) (h : (ty.lowerKw.eqStr "radio".toList || ty.lowerKw.eqStr "checkbox".toList) = true)
    (hnk : ∀ s, ty.str? = some s → asciiLower s = kwLower s) :
    ∃ s, ty.str? = some s ∧ (asciiLower s = "radio".toList ∨ asciiLower s = "checkbox".toList) := by
  cases ty with
  | text s =>
    simp only [Val.lowerKw, Val.eqStr, Val.str?, Bool.or_eq_true, beq_iff_eq] at h
    exact ⟨s, rfl, by rw [hnk s rfl]; exact h⟩
  | markup s =>
    simp only [Val.lowerKw, Val.eqStr, Val.str?, Bool.or_eq_true, beq_iff_eq] at h
    exact ⟨s, rfl, by rw [hnk s rfl]; exact h⟩
  | bool bb => simp [Val.lowerKw, Val.eqStr, Val.str?] at h
  | maybe => simp [Val.lowerKw, Val.eqStr, Val.str?] at h

/-- CHECKED IFF MATCHES — a checkbox / radio with literal `lit`, bound to a scalar or Boolean
    element: after the transforms it carries `name` = flattened name, its `value` is still the
    literal, and `checked` is present exactly when the literal equals the element's text; so the
    browser posts `(name, lit)` exactly in that case. -/
theorem checked_iff (T : Tables) (b : Bind) (st st6 : TState) (ty : Val) (lit text : Str) (hp : Plain T st)
    (hnd : (Dict.keys st.attrs).Nodup)
    (hty : Dict.get? st.attrs sType = some ty)
    (hck : (ty.lowerKw.eqStr "radio".toList || ty.lowerKw.eqStr "checkbox".toList) = true)
    (hnk : ∀ s, ty.str? = some s → asciiLower s = kwLower s)
    (hlit : Dict.get? st.attrs sValue = some (.text lit))
    (hkind : ∀ s ms, b.kind ≠ .array s ms)
    (hname : b.flatName ≠ [])
    (hT1 : T.autoTag sName sInput = true) (hT2 : T.autoTag sValue sInput = true)
    (h : transform T sInput (some b) st = .ok st6) :
    Dict.get? st6.attrs sName = some (.text b.flatName) ∧
    Dict.get? st6.attrs sValue = some (.text lit) ∧
    Dict.get? st6.attrs sChecked = (if lit = b.u then some (.text sChecked) else none) ∧
    Spec.PostsIffMatches (submittedD sInput st6.attrs text) b lit (lit == b.u) := by
  obtain ⟨s1, s2, s3, s4, s5, h1, h2, h3, h4, h5, h6⟩ := transform_steps h
  rw [transformName_on T sInput b st hp.nameOn hp.noNameOpt hname hp.noName hT1] at h1
  simp only [Except.ok.injEq] at h1
  subst h1
  have n1 : "auto_value".toList ≠ sName := by decide
  have n2 : sType ≠ sName := by decide
  have n3 : sValue ≠ sName := by decide
  have hv := transformValue_check T b ⟨Dict.set st.attrs sName (.text b.flatName), st.contents, st.ctx⟩ ty (.text lit)
      hp.valueOn (by simp only; rw [Dict.get?_set_other _ _ _ _ n1]; exact hp.noValueOpt)
      (by simp only; rw [Dict.get?_set_other _ _ _ _ n2]; exact hty) hck
      (by simp only; rw [Dict.get?_set_other _ _ _ _ n3]; exact hlit) hkind hT2
  rw [hv] at h2
  simp only [Except.ok.injEq] at h2
  subst h2
  have hl : sInput ≠ sLabel := by decide
  have f1 := (later_frame sName (by decide) hl h3 h4 h5 h6).1
  have f2 := (later_frame sValue (by decide) hl h3 h4 h5 h6).1
  have f3 := (later_frame sChecked (by decide) hl h3 h4 h5 h6).1
  have f4 := (later_frame sType (by decide) hl h3 h4 h5 h6).1
  simp only at f1 f2 f3 f4
  have m1 : sName ≠ sChecked := by decide
  have m2 : sValue ≠ sChecked := by decide
  have m3 : sType ≠ sChecked := by decide
  have hnd1 : (Dict.keys (Dict.set st.attrs sName (Val.text b.flatName))).Nodup := Dict.nodup_set _ _ _ hnd
  have hget : ∀ k, k ≠ sChecked → Dict.get? (toggleAttr (Dict.set st.attrs sName (Val.text b.flatName)) sChecked
      ((Val.text lit).eqStr b.u)) k = Dict.get? (Dict.set st.attrs sName (Val.text b.flatName)) k := by
    intro k hk
    unfold toggleAttr
    split
    · exact Dict.get?_set_other _ _ _ _ hk
    · exact Dict.get?_erase_other _ _ _ hk
  have e1 : Dict.get? st6.attrs sName = some (.text b.flatName) := by
    rw [f1, hget _ m1, Dict.get?_set_self]
  have e2 : Dict.get? st6.attrs sValue = some (.text lit) := by
    rw [f2, hget _ m2, Dict.get?_set_other _ _ _ _ n3, hlit]
  have e4 : Dict.get? st6.attrs sType = some ty := by
    rw [f4, hget _ m3, Dict.get?_set_other _ _ _ _ n2, hty]
  have heq : (Val.text lit).eqStr b.u = (lit == b.u) := rfl
  have e3 : Dict.get? st6.attrs sChecked = (if lit = b.u then some (.text sChecked) else none) := by
    rw [f3, heq]
    unfold toggleAttr
    by_cases hlu : lit = b.u
    · simp [hlu, Dict.get?_set_self]
    · have : (lit == b.u) = false := by simpa using hlu
      simp only [this, Bool.false_eq_true, if_false, hlu]
      exact Dict.get?_erase_self _ _ hnd1
  refine ⟨e1, e2, e3, ?_⟩
  have hn6 := transform_nodup hnd h
  have hne : b.flatName.isEmpty = false := by simpa using hname
  obtain ⟨s, hs, hs2⟩ := checkable_str ty hck hnk
  have hdec : (decide (asciiLower s = "checkbox".toList) || decide (asciiLower s = "radio".toList)) = true := by
    rcases hs2 with h | h <;> simp [h]
  unfold Spec.PostsIffMatches submittedD submitted
  simp only [attr?_strAttrs _ hn6, e1, e2, e3, e4, Option.bind_some, str?_text, hne, Bool.false_eq_true, if_false,
    hs, Option.getD_some, hdec, if_true]
  by_cases hlu : lit = b.u
  · subst hlu
    simp only [if_true, Option.bind_some, str?_text, Option.isSome_some, beq_self_eq_true]
  · have : (lit == b.u) = false := by simpa using hlu
    simp only [hlu, if_false, Option.bind_none, Option.isSome_none, Bool.false_eq_true, this]

/-- CHECKED IFF MEMBER — the same control bound to an ARRAY of strings: `checked` is present
    exactly when the literal, wrapped as a member element (stripped when the member schema strips),
    equals one of the members; the browser then posts `(array's flattened name, lit)`. -/
theorem checked_iff_array (T : Tables) (b : Bind) (st st6 : TState) (ty : Val) (lit text : Str) (hp : Plain T st)
    (hnd : (Dict.keys st.attrs).Nodup)
    (hty : Dict.get? st.attrs sType = some ty)
    (hck : (ty.lowerKw.eqStr "radio".toList || ty.lowerKw.eqStr "checkbox".toList) = true)
    (hnk : ∀ s, ty.str? = some s → asciiLower s = kwLower s)
    (hlit : Dict.get? st.attrs sValue = some (.text lit))
    (strip : Bool) (ms : List (Option Str)) (hkind : b.kind = .array strip ms)
    (hname : b.flatName ≠ [])
    (hT1 : T.autoTag sName sInput = true) (hT2 : T.autoTag sValue sInput = true)
    (h : transform T sInput (some b) st = .ok st6) :
    Dict.get? st6.attrs sName = some (.text b.flatName) ∧
    Dict.get? st6.attrs sValue = some (.text lit) ∧
    Dict.get? st6.attrs sChecked =
      (if ms.contains (some (if strip then T.strip lit else lit)) then some (.text sChecked) else none) ∧
    Spec.PostsIffMatches (submittedD sInput st6.attrs text) b lit
      (ms.contains (some (if strip then T.strip lit else lit))) := by
  have hmatch : b.matches T (some (.text lit)) = .ok (ms.contains (some (if strip then T.strip lit else lit))) := by
    unfold Bind.matches; rw [hkind]; rfl
  generalize hM : ms.contains (some (if strip then T.strip lit else lit)) = M at *
  obtain ⟨s1, s2, s3, s4, s5, h1, h2, h3, h4, h5, h6⟩ := transform_steps h
  rw [transformName_on T sInput b st hp.nameOn hp.noNameOpt hname hp.noName hT1] at h1
  simp only [Except.ok.injEq] at h1
  subst h1
  have n1 : "auto_value".toList ≠ sName := by decide
  have n2 : sType ≠ sName := by decide
  have n3 : sValue ≠ sName := by decide
  have hv := transformValue_check_gen T b ⟨Dict.set st.attrs sName (.text b.flatName), st.contents, st.ctx⟩ ty (.text lit)
      hp.valueOn (by simp only; rw [Dict.get?_set_other _ _ _ _ n1]; exact hp.noValueOpt)
      (by simp only; rw [Dict.get?_set_other _ _ _ _ n2]; exact hty) hck
      (by simp only; rw [Dict.get?_set_other _ _ _ _ n3]; exact hlit) M hmatch hT2
  rw [hv] at h2
  simp only [Except.ok.injEq] at h2
  subst h2
  have hl : sInput ≠ sLabel := by decide
  have f1 := (later_frame sName (by decide) hl h3 h4 h5 h6).1
  have f2 := (later_frame sValue (by decide) hl h3 h4 h5 h6).1
  have f3 := (later_frame sChecked (by decide) hl h3 h4 h5 h6).1
  have f4 := (later_frame sType (by decide) hl h3 h4 h5 h6).1
  simp only at f1 f2 f3 f4
  have m1 : sName ≠ sChecked := by decide
  have m2 : sValue ≠ sChecked := by decide
  have m3 : sType ≠ sChecked := by decide
  have hnd1 : (Dict.keys (Dict.set st.attrs sName (Val.text b.flatName))).Nodup := Dict.nodup_set _ _ _ hnd
  have hget : ∀ k, k ≠ sChecked → Dict.get? (toggleAttr (Dict.set st.attrs sName (Val.text b.flatName)) sChecked
      M) k = Dict.get? (Dict.set st.attrs sName (Val.text b.flatName)) k := by
    intro k hk
    unfold toggleAttr
    split
    · exact Dict.get?_set_other _ _ _ _ hk
    · exact Dict.get?_erase_other _ _ _ hk
  have e1 : Dict.get? st6.attrs sName = some (.text b.flatName) := by
    rw [f1, hget _ m1, Dict.get?_set_self]
  have e2 : Dict.get? st6.attrs sValue = some (.text lit) := by
    rw [f2, hget _ m2, Dict.get?_set_other _ _ _ _ n3, hlit]
  have e4 : Dict.get? st6.attrs sType = some ty := by
    rw [f4, hget _ m3, Dict.get?_set_other _ _ _ _ n2, hty]
  have e3 : Dict.get? st6.attrs sChecked = (if M = true then some (.text sChecked) else none) := by
    rw [f3]
    unfold toggleAttr
    cases M with
    | true => simp [Dict.get?_set_self]
    | false =>
      simp only [Bool.false_eq_true, if_false]
      exact Dict.get?_erase_self _ _ hnd1
  refine ⟨e1, e2, e3, ?_⟩
  have hn6 := transform_nodup hnd h
  have hne : b.flatName.isEmpty = false := by simpa using hname
  obtain ⟨s, hs, hs2⟩ := checkable_str ty hck hnk
  have hdec : (decide (asciiLower s = "checkbox".toList) || decide (asciiLower s = "radio".toList)) = true := by
    rcases hs2 with h | h <;> simp [h]
  unfold Spec.PostsIffMatches submittedD submitted
  simp only [attr?_strAttrs _ hn6, e1, e2, e3, e4, Option.bind_some, str?_text, hne, Bool.false_eq_true, if_false,
    hs, Option.getD_some, hdec, if_true]
  cases M with
  | true => simp only [if_true, Option.bind_some, str?_text, Option.isSome_some]
  | false => simp only [Bool.false_eq_true, if_false, Option.bind_none, Option.isSome_none]


end Flatland.C12.Proofs

namespace Flatland.C12.Proofs
open Flatland.Markup Flatland.C12 Flatland.C19.Proofs

/-! ### labels -/

/-- `tagname == "input" and attributes.get("type") in ("checkbox", "radio")` -/
def checkable (attrs : Attrs) : Bool :=
  match Dict.get? attrs sType with
  | some t => t.lowerKw.eqStr "checkbox".toList || t.lowerKw.eqStr "radio".toList
  | none => false

/-- the raw id both sides compute: flattened name, plus `_` + the sanitised literal when that
    leaves anything -/
def rawOf (b : Bind) (v : Val) : Except PyErr (Option Str) :=
  if b.flatName.isEmpty then pure none else do
    let sfx ← sanitizeSuffix v
    if sfx.isEmpty then pure (some b.flatName) else pure (some (b.flatName ++ '_' :: sfx))

theorem raw_label (b : Bind) (al : Attrs) :
    generateRawDomid sLabel al (some b) = rawOf b ((Dict.get? al sValue).getD (.text [])) := by
  unfold generateRawDomid rawOf
  have e1 : (sLabel == "input".toList) = false := by decide
  have e2 : (sLabel == "label".toList) = true := by decide
  simp only [bind, Except.bind, pure, Except.pure, e1, e2, Bool.false_and, Bool.false_eq_true, if_false, if_true]
  rfl

theorem raw_input_checkable (b : Bind) (ac : Attrs) (h : checkable ac = true) :
    generateRawDomid sInput ac (some b) = rawOf b ((Dict.get? ac sValue).getD (.text [])) := by
  unfold generateRawDomid rawOf
  have e1 : (sInput == "input".toList) = true := by decide
  have e2 : (sInput == "label".toList) = false := by decide
  unfold checkable at h
  cases hty : Dict.get? ac sType with
  | none => rw [hty] at h; simp at h
  | some t =>
    rw [hty] at h
    simp only at h
    have hty' : Dict.get? ac "type".toList = some t := hty
    simp only [bind, Except.bind, pure, Except.pure, e1, e2, Bool.true_and, Bool.false_eq_true, if_false, hty', h,
      if_true]
    rfl

theorem raw_input_plain (b : Bind) (ac : Attrs) (h : checkable ac = false) :
    generateRawDomid sInput ac (some b) = rawOf b (.text []) := by
  unfold generateRawDomid rawOf
  have e1 : (sInput == "input".toList) = true := by decide
  have e2 : (sInput == "label".toList) = false := by decide
  unfold checkable at h
  have hs : sanitizeSuffix (Val.text []) = .ok [] := rfl
  cases hty : Dict.get? ac sType with
  | none =>
    have hty' : Dict.get? ac "type".toList = none := hty
    simp only [bind, Except.bind, pure, Except.pure, e1, e2, Bool.true_and, Bool.false_eq_true, if_false, hty', hs,
      List.isEmpty_nil, if_true]
  | some t =>
    rw [hty] at h
    simp only at h
    have hty' : Dict.get? ac "type".toList = some t := hty
    simp only [bind, Except.bind, pure, Except.pure, e1, e2, Bool.true_and, Bool.false_eq_true, if_false, hty', h, hs,
      List.isEmpty_nil, if_true]


/-- the raw id of a label given the value the control renders equals the control's raw id —
    for every literal, also when sanitising leaves nothing or maps different literals together -/
theorem label_raw_eq_control_raw (b : Bind) (ac al : Attrs)
    (hv : (Dict.get? al sValue).getD (.text []) =
      if checkable ac then (Dict.get? ac sValue).getD (.text []) else .text []) :
    generateRawDomid sLabel al (some b) = generateRawDomid sInput ac (some b) := by
  rw [raw_label]
  cases hc : checkable ac with
  | true => rw [raw_input_checkable b ac hc, hv, hc]; rfl
  | false => rw [raw_input_plain b ac hc, hv, hc]; rfl

/-- LABEL TARGETS CONTROL: with id and for generation enabled in the same context, the `for` the
    label gets is exactly the `id` the control gets (both absent when there is no raw id) -/
theorem label_targets (T : Tables) (b : Bind) (sc sl sc' sl' : TState)
    (hctx : sl.ctx = sc.ctx)
    (hD : Enabled T sc.ctx "auto_domid".toList) (hF : Enabled T sl.ctx "auto_for".toList)
    (hc1 : Dict.get? sc.attrs "auto_domid".toList = none) (hc2 : Dict.get? sc.attrs sId = none)
    (hl1 : Dict.get? sl.attrs "auto_for".toList = none) (hl2 : Dict.get? sl.attrs sFor = none)
    (hT1 : T.autoTag sId sInput = true) (hT2 : T.autoTag sFor sLabel = true)
    (hv : (Dict.get? sl.attrs sValue).getD (.text []) =
      if checkable sc.attrs then (Dict.get? sc.attrs sValue).getD (.text []) else .text [])
    (hcx : transformDomid T sInput (some b) sc = .ok sc') (hlx : transformFor T sLabel (some b) sl = .ok sl') :
    Dict.get? sl'.attrs sFor = Dict.get? sc'.attrs sId := by
  have hpc := hD sc.attrs hc1
  rw [erase_absent _ _ hc1] at hpc
  have hpl := hF sl.attrs hl1
  rw [erase_absent _ _ hl1] at hpl
  have hraw := label_raw_eq_control_raw b sc.attrs sl.attrs hv
  have nf : sFor ≠ sValue := by decide
  unfold transformDomid at hcx
  unfold transformFor at hlx
  simp only [bind, Except.bind, pure, Except.pure] at hcx hlx
  rw [hpc] at hcx
  rw [hpl] at hlx
  simp only [Bool.not_true, Bool.false_eq_true, if_false, hc2, Option.isNone_none, hT1, Bool.and_self, Bool.or_true,
    if_true] at hcx
  simp only [Option.isSome_some, Bool.and_self, if_true, hl2, Option.isNone_none, hT2, Bool.or_true, hraw, hctx] at hlx
  cases hr : generateRawDomid sInput sc.attrs (some b) with
  | error e => rw [hr] at hcx; simp at hcx
  | ok raw =>
    rw [hr] at hcx hlx
    cases raw with
    | none =>
      simp only [Except.ok.injEq] at hcx hlx
      subst hcx; subst hlx
      simp only [if_true]
      rw [Dict.get?_erase_other _ _ _ nf, hl2, hc2]
    | some r =>
      simp only at hcx hlx
      cases hf : sc.ctx.getItem "domid_format".toList with
      | error e => rw [hf] at hcx; simp at hcx
      | ok fmt =>
        rw [hf] at hcx hlx
        simp only at hcx hlx
        cases hfm : formatDomid fmt r with
        | error e => rw [hfm] at hcx; simp at hcx
        | ok v =>
          rw [hfm] at hcx hlx
          simp only [Except.ok.injEq] at hcx hlx
          subst hcx; subst hlx
          simp only [if_true]
          rw [Dict.get?_erase_other _ _ _ nf, Dict.get?_set_self, Dict.get?_set_self]

end Flatland.C12.Proofs

namespace Flatland.C12.Proofs
open Flatland.Markup Flatland.C12 Flatland.C19.Proofs

/-! ### output order does not matter to the browser rule -/

theorem mem_iff_get? (d : Attrs) (hnd : (Dict.keys d).Nodup) (k : Str) (v : Val) :
    (k, v) ∈ d ↔ Dict.get? d k = some v := by
  induction d with
  | nil => simp
  | cons p rest ih =>
    obtain ⟨k0, v0⟩ := p
    simp only [Dict.keys, List.map_cons, List.nodup_cons] at hnd
    have ih' := ih hnd.2
    by_cases h0 : k0 = k
    · subst h0
      simp only [List.mem_cons, Prod.mk.injEq, true_and, Dict.get?_cons, if_true, Option.some.injEq]
      constructor
      · rintro (h | h)
        · exact h.symm
        · exact absurd (List.mem_map.mpr ⟨(k0, v), h, rfl⟩) hnd.1
      · intro h; left; exact h.symm
    · simp only [List.mem_cons, Prod.mk.injEq, Dict.get?_cons, h0, if_false]
      constructor
      · rintro (⟨h, _⟩ | h)
        · exact absurd h.symm h0
        · exact ih'.mp h
      · intro h; right; exact ih'.mpr h

theorem keys_insertBy (lt : Str × Val → Str × Val → Bool) (x : Str × Val) (l : Attrs) (y : Str) :
    y ∈ Dict.keys (insertBy lt x l) ↔ y = x.1 ∨ y ∈ Dict.keys l := by
  simp only [Dict.keys, List.mem_map]
  constructor
  · rintro ⟨p, hp, rfl⟩
    rcases (mem_insertBy lt x p l).mp hp with rfl | h
    · left; rfl
    · right; exact ⟨p, h, rfl⟩
  · rintro (rfl | ⟨p, hp, rfl⟩)
    · exact ⟨x, (mem_insertBy lt x x l).mpr (Or.inl rfl), rfl⟩
    · exact ⟨p, (mem_insertBy lt x p l).mpr (Or.inr hp), rfl⟩

theorem nodup_insertBy (lt : Str × Val → Str × Val → Bool) (x : Str × Val) (l : Attrs)
    (hx : x.1 ∉ Dict.keys l) (hl : (Dict.keys l).Nodup) : (Dict.keys (insertBy lt x l)).Nodup := by
  induction l with
  | nil => simp [insertBy, Dict.keys]
  | cons y ys ih =>
    simp only [Dict.keys, List.map_cons, List.nodup_cons, List.mem_cons, not_or] at hx hl
    simp only [insertBy]
    split
    · simp only [Dict.keys, List.map_cons, List.nodup_cons]
      refine ⟨?_, ih hx.2 hl.2⟩
      intro hm
      rcases (keys_insertBy lt x ys y.1).mp hm with h | h
      · exact hx.1 h.symm
      · exact hl.1 h
    · simp only [Dict.keys, List.map_cons, List.nodup_cons, List.mem_cons, not_or]
      exact ⟨⟨hx.1, hx.2⟩, hl.1, hl.2⟩

theorem nodup_sortBy (lt : Str × Val → Str × Val → Bool) (l : Attrs) (hl : (Dict.keys l).Nodup) :
    (Dict.keys (sortBy lt l)).Nodup := by
  induction l with
  | nil => simp [sortBy, Dict.keys]
  | cons x xs ih =>
    simp only [Dict.keys, List.map_cons, List.nodup_cons] at hl
    simp only [sortBy]
    apply nodup_insertBy lt x _ _ (ih hl.2)
    intro hm
    apply hl.1
    simp only [Dict.keys, List.mem_map] at hm ⊢
    obtain ⟨p, hp, he⟩ := hm
    exact ⟨p, (mem_sortBy lt p xs).mp hp, he⟩

/-- sorting the attributes for output does not change any lookup -/
theorem get?_orderPairs (order : List Str) (o : Bool) (attrs : Attrs) (hnd : (Dict.keys attrs).Nodup) (k : Str) :
    Dict.get? (Flatland.C11.orderPairs order o attrs) k = Dict.get? attrs k ∧
    (Dict.keys (Flatland.C11.orderPairs order o attrs)).Nodup := by
  unfold Flatland.C11.orderPairs
  split
  · have hn := nodup_sortBy (Flatland.C11.sortKeyLt order) attrs hnd
    refine ⟨?_, hn⟩
    cases hg : Dict.get? attrs k with
    | some v =>
      exact (mem_iff_get? _ hn k v).mp ((mem_sortBy _ _ _).mpr ((mem_iff_get? attrs hnd k v).mpr hg))
    | none =>
      cases hs : Dict.get? (sortBy (Flatland.C11.sortKeyLt order) attrs) k with
      | none => rfl
      | some v =>
        have := (mem_iff_get? attrs hnd k v).mp ((mem_sortBy _ _ _).mp ((mem_iff_get? _ hn k v).mpr hs))
        rw [hg] at this; simp at this
  · exact ⟨rfl, hnd⟩

/-- the browser rule on the serialised attribute list = the browser rule on the attribute dict -/
theorem submitted_orderPairs (order : List Str) (o : Bool) (tag : Str) (attrs : Attrs)
    (hnd : (Dict.keys attrs).Nodup) (text : Str) :
    submitted tag (strAttrs (Flatland.C11.orderPairs order o attrs)) text = submittedD tag attrs text := by
  have h := fun k => get?_orderPairs order o attrs hnd k
  unfold submittedD submitted
  simp only [attr?_strAttrs _ (h sName).2, attr?_strAttrs _ hnd, (h sName).1, (h sType).1, (h sValue).1, (h sChecked).1]

end Flatland.C12.Proofs

namespace Flatland.C12.Proofs
open Flatland.Markup Flatland.C12 Flatland.C19.Proofs

/-! ### end to end on a fresh generator; the unrestricted statement and its failure -/

theorem prepareTag_shape {T : Tables} {order : List Str} {g : Gen} {tag : Str} {bnd : Option Bind}
    {kwargs : List (Str × Val)} {r : TagResult} (h : prepareTag T order g tag bnd kwargs = .ok r) :
    ∃ st6 o, transform T tag bnd ⟨Flatland.C11.transformKeys (Dict.erase kwargs "contents".toList),
        Dict.get? kwargs "contents".toList, g.ctx⟩ = .ok st6 ∧
      r.pairs = Flatland.C11.orderPairs order o st6.attrs := by
  unfold prepareTag at h
  simp only [bind, Except.bind] at h
  cases ht : transform T tag bnd ⟨Flatland.C11.transformKeys (Dict.erase kwargs "contents".toList),
          Dict.get? kwargs "contents".toList, g.ctx⟩ with
  | error e => rw [ht] at h; simp at h
  | ok st =>
    rw [ht] at h
    simp only at h
    refine ⟨st, ?_⟩
    repeat' split at h
    all_goals first
      | (simp at h; done)
      | (simp only [pure, Except.pure, Except.ok.injEq] at h; subst h; exact ⟨_, rfl, rfl⟩)

/-- with no option on the tag, the context decides; `v` is the top-frame value of the option -/
theorem enabled_of_top (T : Tables) (ctx : Ctx) (key : Str) (b : Bool) (v : CVal) (t : Trool)
    (hdef : Dict.get? T.defaultContext key = some (.bool b))
    (hv : Dict.get? ctx.top key = some v) (ht : T.parseTroolC v = .ok t)
    (hres : (match t with | .yes => true | .no => false | .maybe => b) = true) :
    Enabled T ctx key := by
  intro attrs hno
  rw [popToggle_eq T key attrs ctx b v t hdef hv ht, hno]
  simp only [Option.getD_none]
  have : T.parseTrool .maybe = .maybe := rfl
  rw [this]
  cases t <;> simp_all

def freshGen : Gen :=
  match Gen.init Tables.current "xhtml".toList [] with
  | .ok g => g
  | .error _ => ⟨false, ⟨[], []⟩⟩

theorem freshGen_init : Gen.init Tables.current "xhtml".toList [] = .ok freshGen := by decide

/-- `Generator()` has name and value generation enabled (non-vacuity of `Plain`) -/
theorem fresh_enabled :
    Enabled Tables.current freshGen.ctx "auto_name".toList ∧ Enabled Tables.current freshGen.ctx "auto_value".toList :=
  ⟨enabled_of_top _ _ _ true (.bool true) .yes (by decide) (by decide) (by decide) (by decide),
   enabled_of_top _ _ _ true (.bool true) .yes (by decide) (by decide) (by decide) (by decide)⟩

/-- END TO END: on `Generator()`, `input(bind, type=ty)` for a text-like type serialises attributes
    from which the browser rule posts exactly `(flattened name, u)` — for every bind with a
    non-empty flat name and every attribute order setting -/
theorem fresh_input_posts (b : Bind) (ty text : Str)
    (hty : textLike (.text (kwLower ty)) = true)
    (hbr : asciiLower ty ≠ "checkbox".toList ∧ asciiLower ty ≠ "radio".toList ∧ inputNeverPosts (asciiLower ty) = false)
    (hname : b.flatName ≠ []) (r : TagResult)
    (h : prepareTag Tables.current Flatland.Generated.C11.staticAttributeOrder freshGen sInput (some b)
      [(sType, .text ty)] = .ok r) :
    submitted sInput (strAttrs r.pairs) text = some (b.flatName, b.u) := by
  obtain ⟨st6, o, ht, hpairs⟩ := prepareTag_shape h
  have e1 : ¬ (sType = "contents".toList) := by decide
  have e2 : rstripUnderscore sType = sType := by decide
  have e3 : ¬ (sType = "auto_name".toList) := by decide
  have e4 : ¬ (sType = "auto_value".toList) := by decide
  have e5 : ¬ (sType = sName) := by decide
  have e6 : ¬ (sType = sValue) := by decide
  have hk : Flatland.C11.transformKeys (Dict.erase [(sType, Val.text ty)] "contents".toList) = [(sType, .text ty)] := by
    simp only [Dict.erase, e1, if_false, Flatland.C11.transformKeys, List.foldl, e2, Dict.set]
  rw [hk] at ht
  have hc : Dict.get? ([(sType, Val.text ty)] : List (Str × Val)) "contents".toList = none := by
    simp only [Dict.get?, e1, if_false]
  rw [hc] at ht
  have hnd : (Dict.keys ([(sType, Val.text ty)] : Attrs)).Nodup := by simp [Dict.keys]
  have hplain : Plain Tables.current ⟨[(sType, .text ty)], none, freshGen.ctx⟩ :=
    ⟨fresh_enabled.1, fresh_enabled.2, by simp only [Dict.get?, e3, if_false], by simp only [Dict.get?, e4, if_false],
     by simp only [Dict.get?, e5, if_false]⟩
  have hpost := posts_flat_pair_input Tables.current b ⟨[(sType, .text ty)], none, freshGen.ctx⟩ st6 text hplain hnd
    (by simp only [Dict.get?, e6, if_false])
    (by simp only [Dict.get?, if_true, Option.getD_some]; exact hty)
    (by simp only [browserTextLike, Dict.get?, if_true, Option.bind_some, str?_text, Option.getD_some]; exact hbr)
    hname (by decide) (by decide) ht
  rw [hpairs, submitted_orderPairs _ _ _ _ (transform_nodup hnd ht)]
  exact hpost

/-- the statement as written, with `password` among the text-like input types of its quantifier -/
def C12_Full : Prop :=
  ∀ (b : Bind) (ty : Str), ty ∈ ["text".toList, "hidden".toList, "submit".toList, "password".toList] →
    b.flatName ≠ [] → ∀ r, prepareTag Tables.current Flatland.Generated.C11.staticAttributeOrder freshGen sInput
      (some b) [(sType, .text ty)] = .ok r →
    submitted sInput (strAttrs r.pairs) [] = some (b.flatName, b.u)

def kfBind : Bind := ⟨"a".toList, "hello".toList, .scalar⟩
def kfResult : TagResult :=
  match prepareTag Tables.current Flatland.Generated.C11.staticAttributeOrder freshGen sInput (some kfBind)
      [(sType, .text "password".toList)] with
  | .ok r => r
  | .error _ => ⟨[], [], freshGen.ctx⟩

/-- KF-C12-a: a password input does not echo the element's text (it posts `("a", "")`) -/
theorem C12_full_fails : ¬ C12_Full := by
  intro hfull
  have h := hfull kfBind "password".toList (by decide) (by decide) kfResult (by decide)
  revert h
  decide

/-- the partial theorem covers the three other types of the quantifier -/
example : textLike (.text (kwLower "text".toList)) = true ∧ textLike (.text (kwLower "Hidden".toList)) = true ∧
    textLike (.text (kwLower "submit".toList)) = true ∧ textLike (.text (kwLower "Password".toList)) = false := by decide

/-- non-vacuity of `checked_iff` / `label_targets` hypotheses on concrete dictionaries -/
example : checkable [(sType, .text "checkbox".toList), (sValue, .text "q r".toList)] = true := by decide
example : generateRawDomid sLabel [(sValue, .text "q r".toList)] (some kfBind) = .ok (some "a_qr".toList) := by decide
example : generateRawDomid sInput [(sType, .text "checkbox".toList), (sValue, .text "q r".toList)] (some kfBind) =
    .ok (some "a_qr".toList) := by decide
/-- a literal that sanitises to nothing: both sides fall back to the bare name -/
example : generateRawDomid sLabel [(sValue, .text " %".toList)] (some kfBind) = .ok (some "a".toList) := by decide

end Flatland.C12.Proofs

namespace Flatland.C12.Proofs
open Flatland.Markup Flatland.C12 Flatland.C19.Proofs

/-! ### options and the Boolean checkbox without a literal -/

/-- SELECTED IFF MATCHES — an `<option value=lit>` bound to an element (any kind; `m` is what
    `current in bind` / `current == bind.u` answers: `lit = u` for scalars, membership for Arrays):
    after the transforms `selected` is present exactly when the literal matches, the `value` is
    untouched, and inside a `<select>` named `n` the browser posts `(n, lit)` exactly then.
    (Options WITHOUT `value=` are KF-C12-b/e and outside this theorem.) -/
theorem selected_iff (T : Tables) (b : Bind) (st st6 : TState) (lit selectName text : Str) (m : Bool) (hp : Plain T st)
    (hnd : (Dict.keys st.attrs).Nodup)
    (hlit : Dict.get? st.attrs sValue = some (.text lit))
    (hm : b.matches T (some (.text lit)) = .ok m)
    (hsel : selectName ≠ [])
    (hT1 : T.autoTag sName sOption = false) (hT2 : T.autoTag sValue sOption = true)
    (h : transform T sOption (some b) st = .ok st6) :
    Dict.get? st6.attrs sValue = some (.text lit) ∧
    Dict.get? st6.attrs sSelected = (if m then some (.text sSelected) else none) ∧
    submittedOption selectName (strAttrs st6.attrs) text = (if m then some (selectName, lit) else none) := by
  obtain ⟨s1, s2, s3, s4, s5, h1, h2, h3, h4, h5, h6⟩ := transform_steps h
  rw [transformName_skip T sOption (some b) st hp.nameOn hp.noNameOpt hT1] at h1
  simp only [Except.ok.injEq] at h1
  subst h1
  rw [transformValue_option T b st (.text lit) m hp.valueOn hp.noValueOpt hlit hm hT2] at h2
  simp only [Except.ok.injEq] at h2
  subst h2
  have hl : sOption ≠ sLabel := by decide
  have f2 := (later_frame sValue (by decide) hl h3 h4 h5 h6).1
  have f3 := (later_frame sSelected (by decide) hl h3 h4 h5 h6).1
  simp only at f2 f3
  have m2 : sValue ≠ sSelected := by decide
  have e2 : Dict.get? st6.attrs sValue = some (.text lit) := by
    rw [f2]; unfold toggleAttr; split
    · rw [Dict.get?_set_other _ _ _ _ m2, hlit]
    · rw [Dict.get?_erase_other _ _ _ m2, hlit]
  have e3 : Dict.get? st6.attrs sSelected = (if m = true then some (.text sSelected) else none) := by
    rw [f3]; unfold toggleAttr
    cases m with
    | true => simp [Dict.get?_set_self]
    | false => simp only [Bool.false_eq_true, if_false]; exact Dict.get?_erase_self _ _ hnd
  refine ⟨e2, e3, ?_⟩
  have hn6 := transform_nodup hnd h
  have hne : selectName.isEmpty = false := by simpa using hsel
  unfold submittedOption
  simp only [attr?_strAttrs _ hn6, e2, e3, hne, Bool.false_eq_true, if_false, Option.bind_some, str?_text, Option.getD_some]
  cases m with
  | true => simp only [if_true, Option.bind_some, str?_text, Option.isSome_some]
  | false => simp only [Bool.false_eq_true, if_false, Option.bind_none, Option.isSome_none]

/-- CHECKBOX WITHOUT A LITERAL, BOUND TO A BOOLEAN (the ordinary use): the missing `value=` is
    filled with `Boolean.true`, `checked` is present exactly when the element's text is that
    value, and the browser posts `(flattened name, Boolean.true)` exactly then -/
theorem checked_iff_boolean (T : Tables) (b : Bind) (st st6 : TState) (ty : Val) (tru text : Str) (hp : Plain T st)
    (hnd : (Dict.keys st.attrs).Nodup)
    (hty : Dict.get? st.attrs sType = some ty) (hck : ty.lowerKw.eqStr "checkbox".toList = true)
    (hnk : ∀ s, ty.str? = some s → asciiLower s = kwLower s)
    (hno : Dict.get? st.attrs sValue = none) (hkind : b.kind = .boolean tru)
    (hname : b.flatName ≠ [])
    (hT1 : T.autoTag sName sInput = true) (hT2 : T.autoTag sValue sInput = true)
    (h : transform T sInput (some b) st = .ok st6) :
    Dict.get? st6.attrs sValue = some (.text tru) ∧
    Dict.get? st6.attrs sChecked = (if tru = b.u then some (.text sChecked) else none) ∧
    Spec.PostsIffMatches (submittedD sInput st6.attrs text) b tru (tru == b.u) := by
  obtain ⟨s1, s2, s3, s4, s5, h1, h2, h3, h4, h5, h6⟩ := transform_steps h
  rw [transformName_on T sInput b st hp.nameOn hp.noNameOpt hname hp.noName hT1] at h1
  simp only [Except.ok.injEq] at h1
  subst h1
  have n1 : "auto_value".toList ≠ sName := by decide
  have n2 : sType ≠ sName := by decide
  have n3 : sValue ≠ sName := by decide
  have hv := transformValue_boolcheck T b ⟨Dict.set st.attrs sName (.text b.flatName), st.contents, st.ctx⟩ ty tru
      hp.valueOn (by simp only; rw [Dict.get?_set_other _ _ _ _ n1]; exact hp.noValueOpt)
      (by simp only; rw [Dict.get?_set_other _ _ _ _ n2]; exact hty) hck
      (by simp only; rw [Dict.get?_set_other _ _ _ _ n3]; exact hno) hkind hT2
  rw [hv] at h2
  simp only [Except.ok.injEq] at h2
  subst h2
  have hl : sInput ≠ sLabel := by decide
  have f1 := (later_frame sName (by decide) hl h3 h4 h5 h6).1
  have f2 := (later_frame sValue (by decide) hl h3 h4 h5 h6).1
  have f3 := (later_frame sChecked (by decide) hl h3 h4 h5 h6).1
  have f4 := (later_frame sType (by decide) hl h3 h4 h5 h6).1
  simp only at f1 f2 f3 f4
  have m1 : sName ≠ sChecked := by decide
  have m2 : sValue ≠ sChecked := by decide
  have m3 : sType ≠ sChecked := by decide
  have m4 : sName ≠ sValue := by decide
  have m5 : sType ≠ sValue := by decide
  have hnd2 : (Dict.keys (Dict.set (Dict.set st.attrs sName (Val.text b.flatName)) sValue (Val.text tru))).Nodup :=
    Dict.nodup_set _ _ _ (Dict.nodup_set _ _ _ hnd)
  have hget : ∀ k, k ≠ sChecked → Dict.get? (toggleAttr (Dict.set (Dict.set st.attrs sName (Val.text b.flatName)) sValue
      (Val.text tru)) sChecked (tru == b.u)) k =
      Dict.get? (Dict.set (Dict.set st.attrs sName (Val.text b.flatName)) sValue (Val.text tru)) k := by
    intro k hk
    unfold toggleAttr
    split
    · exact Dict.get?_set_other _ _ _ _ hk
    · exact Dict.get?_erase_other _ _ _ hk
  have e1 : Dict.get? st6.attrs sName = some (.text b.flatName) := by
    rw [f1, hget _ m1, Dict.get?_set_other _ _ _ _ m4, Dict.get?_set_self]
  have e2 : Dict.get? st6.attrs sValue = some (.text tru) := by
    rw [f2, hget _ m2, Dict.get?_set_self]
  have e4 : Dict.get? st6.attrs sType = some ty := by
    rw [f4, hget _ m3, Dict.get?_set_other _ _ _ _ m5, Dict.get?_set_other _ _ _ _ n2, hty]
  have e3 : Dict.get? st6.attrs sChecked = (if tru = b.u then some (.text sChecked) else none) := by
    rw [f3]
    unfold toggleAttr
    by_cases hlu : tru = b.u
    · simp [hlu, Dict.get?_set_self]
    · have : (tru == b.u) = false := by simpa using hlu
      simp only [this, Bool.false_eq_true, if_false, hlu]
      exact Dict.get?_erase_self _ _ hnd2
  refine ⟨e2, e3, ?_⟩
  have hn6 := transform_nodup hnd h
  have hne : b.flatName.isEmpty = false := by simpa using hname
  have hck2 : (ty.lowerKw.eqStr "radio".toList || ty.lowerKw.eqStr "checkbox".toList) = true := by
    rw [hck]; exact Bool.or_true _
  obtain ⟨s, hs, hs2⟩ := checkable_str ty hck2 hnk
  have hdec : (decide (asciiLower s = "checkbox".toList) || decide (asciiLower s = "radio".toList)) = true := by
    rcases hs2 with h | h <;> simp [h]
  unfold Spec.PostsIffMatches submittedD submitted
  simp only [attr?_strAttrs _ hn6, e1, e2, e3, e4, Option.bind_some, str?_text, hne, Bool.false_eq_true, if_false,
    hs, Option.getD_some, hdec, if_true]
  by_cases hlu : tru = b.u
  · subst hlu
    simp only [if_true, Option.bind_some, str?_text, Option.isSome_some, beq_self_eq_true]
  · have : (tru == b.u) = false := by simpa using hlu
    simp only [hlu, if_false, Option.bind_none, Option.isSome_none, Bool.false_eq_true, this]

end Flatland.C12.Proofs
