import Flatland.C12
namespace Flatland.C12.Proofs
end Flatland.C12.Proofs
