/-
C12 — a rendered form, submitted unchanged, posts the element's own flat pairs.

Theorems about the model of the transforms (`Flatland/Markup/Transform.lean`) and the browser
rule `submitted` (`Flatland/C12.lean`), for every bind, every context in which name/value
generation is enabled, and every literal.
-/
import Flatland.C12
import Flatland.Spec.C12
import Proofs.Lemmas.C12Transforms
namespace Flatland.C12.Proofs
open Flatland.Markup Flatland.C12 Flatland.C19.Proofs

/-! ### naming -/

theorem foldl_join (n : Str) (rest : List Str) :
    rest.foldl (fun acc x => acc ++ '_' :: x) n = n ++ (rest.map (fun x => '_' :: x)).flatten := by
  induction rest generalizing n with
  | nil => simp
  | cons r rs ih => simp [List.foldl_cons, ih, List.append_assoc]

/-- the model's name function is the documented one -/
theorem flatName_spec (path : List (Option Str)) : flatName path = Spec.flattenedName path := by
  unfold flatName Spec.flattenedName
  cases path.filterMap id with
  | nil => rfl
  | cons n rest => exact foldl_join n rest

/-- anonymous path elements (list members, Array members, an unnamed root) do not show -/
theorem flatName_skip_none (pre post : List (Option Str)) :
    flatName (pre ++ none :: post) = flatName (pre ++ post) := by
  simp [flatName, List.filterMap_append]

/-- a named child of a named parent is `parent_child` — also when the names contain the separator -/
theorem flatName_child (pre : List (Option Str)) (n : Str) (h : pre.filterMap id ≠ []) :
    flatName (pre ++ [some n]) = flatName pre ++ '_' :: n := by
  rw [flatName_spec, flatName_spec]
  unfold Spec.flattenedName
  rw [List.filterMap_append]
  cases hp : pre.filterMap id with
  | nil => exact absurd hp h
  | cons a as => simp [List.append_assoc]

/-! ### the six transforms in sequence -/

theorem transform_steps {T : Tables} {tag : Str} {bnd : Option Bind} {st st6 : TState}
    (h : transform T tag bnd st = .ok st6) :
    ∃ s1 s2 s3 s4 s5, transformName T tag bnd st = .ok s1 ∧ transformValue T tag bnd s1 = .ok s2 ∧
      transformDomid T tag bnd s2 = .ok s3 ∧ transformFor T tag bnd s3 = .ok s4 ∧
      transformTabindex T tag bnd s4 = .ok s5 ∧ transformFilters T tag bnd s5 = .ok st6 := by
  unfold transform at h
  simp only [bind, Except.bind] at h
  cases h1 : transformName T tag bnd st with
  | error e => rw [h1] at h; simp at h
  | ok s1 =>
    rw [h1] at h; simp only at h
    cases h2 : transformValue T tag bnd s1 with
    | error e => rw [h2] at h; simp at h
    | ok s2 =>
      rw [h2] at h; simp only at h
      cases h3 : transformDomid T tag bnd s2 with
      | error e => rw [h3] at h; simp at h
      | ok s3 =>
        rw [h3] at h; simp only at h
        cases h4 : transformFor T tag bnd s3 with
        | error e => rw [h4] at h; simp at h
        | ok s4 =>
          rw [h4] at h; simp only at h
          cases h5 : transformTabindex T tag bnd s4 with
          | error e => rw [h5] at h; simp at h
          | ok s5 =>
            rw [h5] at h; simp only at h
            exact ⟨s1, s2, s3, s4, s5, rfl, h2, h3, h4, h5, h⟩

/-- the attribute-dict form of the browser rule (no ordering involved) -/
def submittedD (tag : Str) (attrs : Attrs) (text : Str) : Option (Str × Str) :=
  submitted tag (strAttrs attrs) text

/-- hypotheses shared by the control theorems: the tag carries no option, no `name`, no `value`;
    name/value generation is enabled in the context (true of a fresh generator: `fresh_enabled`) -/
structure Plain (T : Tables) (st : TState) : Prop where
  nameOn : Enabled T st.ctx "auto_name".toList
  valueOn : Enabled T st.ctx "auto_value".toList
  noNameOpt : Dict.get? st.attrs "auto_name".toList = none
  noValueOpt : Dict.get? st.attrs "auto_value".toList = none
  noName : Dict.get? st.attrs sName = none

/-- what the transforms leave in the attribute dict of a text-like `<input>` -/
theorem input_textlike_attrs (T : Tables) (b : Bind) (st st6 : TState) (hp : Plain T st)
    (hnoval : Dict.get? st.attrs sValue = none)
    (hty : textLike ((Dict.get? st.attrs sType).getD (.text [])) = true)
    (hname : b.flatName ≠ [])
    (hT1 : T.autoTag sName sInput = true) (hT2 : T.autoTag sValue sInput = true)
    (h : transform T sInput (some b) st = .ok st6) :
    Dict.get? st6.attrs sName = some (.text b.flatName) ∧ Dict.get? st6.attrs sValue = some (.text b.u) ∧
    Dict.get? st6.attrs sType = Dict.get? st.attrs sType := by
  obtain ⟨s1, s2, s3, s4, s5, h1, h2, h3, h4, h5, h6⟩ := transform_steps h
  rw [transformName_on T sInput b st hp.nameOn hp.noNameOpt hname hp.noName hT1] at h1
  simp only [Except.ok.injEq] at h1
  subst h1
  have n1 : "auto_value".toList ≠ sName := by decide
  have n2 : sType ≠ sName := by decide
  have n3 : sValue ≠ sName := by decide
  have hv := transformValue_textlike T b ⟨Dict.set st.attrs sName (.text b.flatName), st.contents, st.ctx⟩ hp.valueOn
      (by simp only; rw [Dict.get?_set_other _ _ _ _ n1]; exact hp.noValueOpt)
      (by simp only; rw [Dict.get?_set_other _ _ _ _ n2]; exact hty)
      (by simp only; rw [Dict.get?_set_other _ _ _ _ n3]; exact hnoval) hT2
  rw [hv] at h2
  simp only [Except.ok.injEq] at h2
  subst h2
  have hl : sInput ≠ sLabel := by decide
  have f1 := (later_frame sName (by decide) hl h3 h4 h5 h6).1
  have f2 := (later_frame sValue (by decide) hl h3 h4 h5 h6).1
  have f3 := (later_frame sType (by decide) hl h3 h4 h5 h6).1
  simp only at f1 f2 f3
  have m1 : sName ≠ sValue := by decide
  have m2 : sType ≠ sValue := by decide
  refine ⟨?_, ?_, ?_⟩
  · rw [f1, Dict.get?_set_other _ _ _ _ m1, Dict.get?_set_self]
  · rw [f2, Dict.get?_set_self]
  · rw [f3, Dict.get?_set_other _ _ _ _ m2, Dict.get?_set_other _ _ _ _ n2]

end Flatland.C12.Proofs

namespace Flatland.C12.Proofs
open Flatland.Markup Flatland.C12 Flatland.C19.Proofs

/-! ### from the attribute dict to what the browser reads -/

theorem attr?_strAttrs (attrs : Attrs) (hnd : (Dict.keys attrs).Nodup) (k : Str) :
    attr? (strAttrs attrs) k = (Dict.get? attrs k).bind Val.str? := by
  induction attrs with
  | nil => rfl
  | cons p rest ih =>
    obtain ⟨k0, v0⟩ := p
    simp only [Dict.keys, List.map_cons, List.nodup_cons] at hnd
    have ih' := ih hnd.2
    by_cases h0 : k0 = k
    · subst h0
      simp only [Dict.get?_cons, if_true, Option.bind_some]
      cases hs : v0.str? with
      | some s => simp [strAttrs, hs, attr?]
      | none =>
        simp only [strAttrs, List.filterMap_cons, hs, Option.map_none]
        have : Dict.get? rest k0 = none := (Dict.get?_eq_none_iff rest k0).mpr hnd.1
        rw [show attr? (List.filterMap (fun kv => Option.map (fun s => (kv.1, s)) kv.2.str?) rest) k0 =
          attr? (strAttrs rest) k0 from rfl, ih', this]
        rfl
    · simp only [Dict.get?_cons, h0, if_false]
      cases hs : v0.str? with
      | some s => simp [strAttrs, hs, attr?, h0]; exact ih'
      | none => simp only [strAttrs, List.filterMap_cons, hs, Option.map_none]; exact ih'

theorem transform_nodup {T : Tables} {tag : Str} {bnd : Option Bind} {st st6 : TState}
    (hnd : (Dict.keys st.attrs).Nodup) (h : transform T tag bnd st = .ok st6) :
    (Dict.keys st6.attrs).Nodup := by
  obtain ⟨s1, s2, s3, s4, s5, h1, h2, h3, h4, h5, h6⟩ := transform_steps h
  have n1 := (transformName_reach h1).nodup (Dict.nodup_erase _ _ hnd)
  have n2 := (transformValue_reach h2).nodup (Dict.nodup_erase _ _ n1)
  have n3 := (transformDomid_reach h3).nodup (Dict.nodup_erase _ _ n2)
  have n4 := (transformFor_reach h4).nodup (Dict.nodup_erase _ _ n3)
  have n5 := (transformTabindex_reach h5).nodup (Dict.nodup_erase _ _ n4)
  exact (transformFilters_reach h6).nodup (Dict.nodup_erase _ _ n5)

/-- the `type` a browser sees is neither checkbox nor radio (types are ASCII case-insensitive there) -/
def browserTextLike (attrs : Attrs) : Prop :=
  let ty := asciiLower (((Dict.get? attrs sType).bind Val.str?).getD "text".toList)
  ty ≠ "checkbox".toList ∧ ty ≠ "radio".toList

/-- POSTS FLAT PAIR — text-like `<input>`: after the transforms, the browser rule posts exactly
    `(flattened name, u)`. -/
theorem posts_flat_pair_input (T : Tables) (b : Bind) (st st6 : TState) (text : Str) (hp : Plain T st)
    (hnd : (Dict.keys st.attrs).Nodup)
    (hnoval : Dict.get? st.attrs sValue = none)
    (hty : textLike ((Dict.get? st.attrs sType).getD (.text [])) = true)
    (hbr : browserTextLike st.attrs)
    (hname : b.flatName ≠ [])
    (hT1 : T.autoTag sName sInput = true) (hT2 : T.autoTag sValue sInput = true)
    (h : transform T sInput (some b) st = .ok st6) :
    Spec.PostsFlatPair (submittedD sInput st6.attrs text) b := by
  obtain ⟨a1, a2, a3⟩ := input_textlike_attrs T b st st6 hp hnoval hty hname hT1 hT2 h
  have hn6 := transform_nodup hnd h
  have hne : b.flatName.isEmpty = false := by simpa using hname
  unfold Spec.PostsFlatPair submittedD submitted
  simp only [attr?_strAttrs _ hn6, a1, a2, a3, Option.bind_some, Val.str?, hne, Bool.false_eq_true, if_false, if_true]
  obtain ⟨b1, b2⟩ := hbr
  rw [decide_eq_false b1, decide_eq_false b2]
  simp only [Bool.or_self, Bool.false_eq_true, if_false, Option.getD_some]

/-- POSTS FLAT PAIR — `<button>` (value attribute) -/
theorem posts_flat_pair_button (T : Tables) (b : Bind) (st st6 : TState) (text : Str) (hp : Plain T st)
    (hnd : (Dict.keys st.attrs).Nodup) (hnoval : Dict.get? st.attrs sValue = none)
    (hname : b.flatName ≠ [])
    (hT1 : T.autoTag sName "button".toList = true) (hT2 : T.autoTag sValue "button".toList = true)
    (h : transform T "button".toList (some b) st = .ok st6) :
    Spec.PostsFlatPair (submittedD "button".toList st6.attrs text) b := by
  obtain ⟨s1, s2, s3, s4, s5, h1, h2, h3, h4, h5, h6⟩ := transform_steps h
  rw [transformName_on T _ b st hp.nameOn hp.noNameOpt hname hp.noName hT1] at h1
  simp only [Except.ok.injEq] at h1
  subst h1
  have n1 : "auto_value".toList ≠ sName := by decide
  have n3 : sValue ≠ sName := by decide
  have hv := transformValue_plain T "button".toList b ⟨Dict.set st.attrs sName (.text b.flatName), st.contents, st.ctx⟩
      hp.valueOn (by simp only; rw [Dict.get?_set_other _ _ _ _ n1]; exact hp.noValueOpt)
      (by decide) (by decide) (by decide)
      (by simp only; rw [Dict.get?_set_other _ _ _ _ n3]; exact hnoval) hT2
  rw [hv] at h2
  simp only [Except.ok.injEq] at h2
  subst h2
  have hl : "button".toList ≠ sLabel := by decide
  have f1 := (later_frame sName (by decide) hl h3 h4 h5 h6).1
  have f2 := (later_frame sValue (by decide) hl h3 h4 h5 h6).1
  simp only at f1 f2
  have m1 : sName ≠ sValue := by decide
  rw [Dict.get?_set_other _ _ _ _ m1, Dict.get?_set_self] at f1
  rw [Dict.get?_set_self] at f2
  have hn6 := transform_nodup hnd h
  have hne : b.flatName.isEmpty = false := by simpa using hname
  have e1 : "button".toList ≠ sInput := by decide
  have e2 : "button".toList ≠ sTextarea := by decide
  unfold Spec.PostsFlatPair submittedD submitted
  simp only [attr?_strAttrs _ hn6, f1, f2, Option.bind_some, Val.str?, hne, Bool.false_eq_true, if_false, e1, e2,
    if_true, Option.getD_some]

/-- POSTS FLAT PAIR — `<textarea>`: the contents are the escaped text, which a browser reads back
    as `u` (C11 `decodeRefs_escape`); stated on the contents string -/
theorem posts_flat_pair_textarea (T : Tables) (b : Bind) (st st6 : TState) (hp : Plain T st)
    (hnd : (Dict.keys st.attrs).Nodup) (hc : st.contents = none)
    (hname : b.flatName ≠ [])
    (hT1 : T.autoTag sName sTextarea = true) (hT2 : T.autoTag sValue sTextarea = true)
    (h : transform T sTextarea (some b) st = .ok st6) :
    st6.contents = some (.markup (Flatland.C11.markupEscape T.textChain b.u)) ∧
    ∀ text, submittedD sTextarea st6.attrs text = some (b.flatName, text) := by
  obtain ⟨s1, s2, s3, s4, s5, h1, h2, h3, h4, h5, h6⟩ := transform_steps h
  rw [transformName_on T _ b st hp.nameOn hp.noNameOpt hname hp.noName hT1] at h1
  simp only [Except.ok.injEq] at h1
  subst h1
  have n1 : "auto_value".toList ≠ sName := by decide
  have hv := transformValue_textarea T b ⟨Dict.set st.attrs sName (.text b.flatName), st.contents, st.ctx⟩
      hp.valueOn (by simp only; rw [Dict.get?_set_other _ _ _ _ n1]; exact hp.noValueOpt) hc hT2
  rw [hv] at h2
  simp only [Except.ok.injEq] at h2
  subst h2
  have hl : sTextarea ≠ sLabel := by decide
  obtain ⟨f1, c1⟩ := later_frame sName (by decide) hl h3 h4 h5 h6
  simp only at f1 c1
  rw [Dict.get?_set_self] at f1
  refine ⟨c1, ?_⟩
  intro text
  have hn6 := transform_nodup hnd h
  have hne : b.flatName.isEmpty = false := by simpa using hname
  have e1 : sTextarea ≠ sInput := by decide
  unfold submittedD submitted
  simp only [attr?_strAttrs _ hn6, f1, Option.bind_some, Val.str?, hne, Bool.false_eq_true, if_false, e1, if_true]

end Flatland.C12.Proofs
