/-
C18 — MultiValue: "a MultiValue's scalar view is always its first member", over the model that
follows the code (Flatland/C18Multi.lean: getters and SETTERS of `MultiValue.u` / `.value` as
written, the CPython list operations of Flatland/PyList.lean).  Spec: Flatland/Spec/C18.lean
(`firstView`, `writeFirstU`, `writeFirstValue`, `SetReachable`).
-/
import Flatland.C18Multi
import Flatland.Spec.C18
import Proofs.C04
namespace Flatland.C18.Multi.Proofs
open Flatland.Scalar Flatland.C18 Flatland.C18.Spec Flatland.C18.Multi Flatland.PyList
open Flatland.C04.Proofs (plainEnv)

/-! ### the member created by `self.append(None)` is blank -/

theorem adapt_none (E : Env) (k : Kind) :
    adapt E k .none = .ok (some .none) ∨ adapt E k .none = .ok none := by
  induction k with
  | constrained child valid ih =>
    rcases ih with h | h
    · simp only [adapt, h]
      split <;> simp
    · simp [adapt, h]
  | _ => simp [adapt]

/-- `member_schema(value=None)` never raises and is the blank member `('', None)`, for every
    member type of the scalar model (a Constrained member rejects None: value None, text `''` too) -/
theorem newMember_none (E : Env) (k : Kind) : newMember E k .none = .ok blankMember := by
  unfold newMember setScalar
  rcases adapt_none E k with h | h <;> simp [h, uOfValue, uOfFailed, blankMember]

/-! ### list positions -/

theorem getItem_zero_cons (m : SState) (r : MultiState) : getItem (m :: r) 0 = some m := by
  simp [getItem, normIndex]

theorem setItem_zero_cons (m m' : SState) (r : MultiState) : setItem (m :: r) 0 m' = some (m' :: r) := by
  simp [setItem, normIndex]

/-! ### the getters as written return the first member -/

/-- `if not self: return ''` / `else: return self[0].u` is the first member's text, never an
    IndexError -/
theorem getU_first (s : MultiState) : getU s = .ok (firstView s).1 := by
  cases s with
  | nil => rfl
  | cons m r => simp [getU, truth, firstView, getItem_zero_cons]

theorem getValue_first (s : MultiState) : getValue s = .ok (firstView s).2 := by
  cases s with
  | nil => rfl
  | cons m r => simp [getValue, truth, firstView, getItem_zero_cons]

/-! ### the setters as written -/

/-- `mv.u = x`: `if not self: self.append(None)`; `self[0].u = x` computes exactly `writeFirstU`
    and never raises -/
theorem setU_spec (E : Env) (k : Kind) (s : MultiState) (x : Str) : setU E k s x = .ok (writeFirstU s x) := by
  cases s with
  | nil => simp [setU, ensureFirst, truth, newMember_none, assignAt, getItem_zero_cons, setItem_zero_cons, writeFirstU]
  | cons m r => simp [setU, ensureFirst, truth, assignAt, getItem_zero_cons, setItem_zero_cons, writeFirstU]

theorem setValue_spec (E : Env) (k : Kind) (s : MultiState) (x : Native) :
    setValue E k s x = .ok (writeFirstValue s x) := by
  cases s with
  | nil => simp [setValue, ensureFirst, truth, newMember_none, assignAt, getItem_zero_cons, setItem_zero_cons, writeFirstValue]
  | cons m r => simp [setValue, ensureFirst, truth, assignAt, getItem_zero_cons, setItem_zero_cons, writeFirstValue]

theorem writeFirstU_view (s : MultiState) (x : Str) : firstView (writeFirstU s x) = (x, (firstView s).2) := by
  cases s <;> rfl
theorem writeFirstU_rest (s : MultiState) (x : Str) : (writeFirstU s x).drop 1 = s.drop 1 := by
  cases s <;> rfl
theorem writeFirstU_length (s : MultiState) (x : Str) : (writeFirstU s x).length = max 1 s.length := by
  cases s <;> simp [writeFirstU] <;> omega
theorem writeFirstValue_view (s : MultiState) (x : Native) : firstView (writeFirstValue s x) = ((firstView s).1, x) := by
  cases s <;> rfl
theorem writeFirstValue_rest (s : MultiState) (x : Native) : (writeFirstValue s x).drop 1 = s.drop 1 := by
  cases s <;> rfl
theorem writeFirstValue_length (s : MultiState) (x : Native) : (writeFirstValue s x).length = max 1 s.length := by
  cases s <;> simp [writeFirstValue] <;> omega

/-- **multivalue_setter_spec** — for every member type, state and text: `mv.u = x` completes; after
    it the first member's text is `x`, the length is `max 1 (old length)`, the members after the first are
    untouched, and the first member's VALUE is what it was (None for the member the setter had
    to create): the setter assigns one attribute, it does not `set()` the member. -/
theorem multivalue_setter_spec (E : Env) (k : Kind) (s : MultiState) (x : Str) :
    ∃ s', step E k s (.writeU x) = .ok (s', none) ∧ s'.length = max 1 s.length ∧
      s'.head?.map (·.u) = some x ∧ s'.drop 1 = s.drop 1 ∧
      s'.head?.map (·.value) = some (firstView s).2 := by
  refine ⟨writeFirstU s x, by simp [step, setU_spec], writeFirstU_length s x, ?_, writeFirstU_rest s x, ?_⟩ <;>
    cases s <;> rfl

/-- **multivalue_value_setter_spec** — the same for `mv.value = x`: the first member's value is
    `x`, its TEXT is what it was (`''` for a new member). -/
theorem multivalue_value_setter_spec (E : Env) (k : Kind) (s : MultiState) (x : Native) :
    ∃ s', step E k s (.writeValue x) = .ok (s', none) ∧ s'.length = max 1 s.length ∧
      s'.head?.map (·.value) = some x ∧ s'.drop 1 = s.drop 1 ∧
      s'.head?.map (·.u) = some (firstView s).1 := by
  refine ⟨writeFirstValue s x, by simp [step, setValue_spec], writeFirstValue_length s x, ?_, writeFirstValue_rest s x, ?_⟩ <;>
    cases s <;> rfl

example : ∃ s', step plainEnv (.string true) [] (.writeU ['x']) = .ok (s', none) ∧ s' = [⟨.none, .none, ['x']⟩] :=
  ⟨_, by simp [step, setU_spec, writeFirstU, blankMember], rfl⟩

/-! ### is_empty -/

/-- `Sequence.is_empty` (the one a MultiValue inherits): no members -/
theorem isEmpty_iff (s : MultiState) : isEmpty s = true ↔ s = [] := by
  cases s <;> simp [isEmpty]

theorem isEmpty_writeFirstU (s : MultiState) (x : Str) : isEmpty (writeFirstU s x) = false := by
  cases s <;> simp [isEmpty, writeFirstU]
theorem isEmpty_writeFirstValue (s : MultiState) (x : Native) : isEmpty (writeFirstValue s x) = false := by
  cases s <;> simp [isEmpty, writeFirstValue]

/-- observation: `mv.u = ''` on a MultiValue without members leaves the scalar view what it was
    (`''`, None) and turns `is_empty` from True to False — `is_empty` counts members, it does not
    look at the view ("True if the element has no value", `Element.is_empty`) -/
theorem writeU_blank_flips_isEmpty (E : Env) (k : Kind) :
    ∃ s', step E k [] (.writeU []) = .ok (s', none) ∧ firstView s' = firstView [] ∧
      isEmpty [] = true ∧ isEmpty s' = false :=
  ⟨writeFirstU [] [], by simp [step, setU_spec], rfl, rfl, rfl⟩

/-! ### histories -/

/-- reading the view of `s` through the machine's getters gives `v` (and does not raise) -/
def viewIs (M : Machine) (s : MultiState) (v : Str × Native) : Bool :=
  (match M.getU s with | .ok u => decide (u = v.1) | .error _ => false) &&
  (match M.getValue s with | .ok x => decide (x = v.2) | .error _ => false)

/-- what the statement demands of one completed step `s --op--> s'`:
    * the view read after the step is the first member of the member list at that moment;
    * a view write is read back, leaves the view's other half, the other members and nothing but
      a missing first member's existence alone, and the element is not `is_empty` afterwards -/
def stepOK (M : Machine) (s : MultiState) (op : Op) (s' : MultiState) : Bool :=
  viewIs M s' (firstView s') &&
  (match op with
   | .writeU x => viewIs M s' (x, (firstView s).2) && decide (s'.drop 1 = s.drop 1) &&
                  decide (s'.length = max 1 s.length) && !isEmpty s'
   | .writeValue x => viewIs M s' ((firstView s).1, x) && decide (s'.drop 1 = s.drop 1) &&
                      decide (s'.length = max 1 s.length) && !isEmpty s'
   | _ => true)

/-- every completed step of the history is `stepOK` (a raising operation ends the history) -/
def HistoryOK (M : Machine) : MultiState → List Op → Bool
  | _, [] => true
  | s, op :: rest =>
    match M.step s op with
    | .error _ => true
    | .ok (s', _) => stepOK M s op s' && HistoryOK M s' rest

theorem viewIs_code (E : Env) (k : Kind) (s : MultiState) (v : Str × Native) :
    viewIs (code E k) s v = decide (firstView s = v) := by
  obtain ⟨a, b⟩ := v
  simp only [viewIs, code, getU_first, getValue_first]
  cases hfv : firstView s with
  | mk c d => simp [Prod.ext_iff]

theorem step_ok (E : Env) (k : Kind) (s : MultiState) (op : Op) (s' : MultiState) (r : Option Bool)
    (h : step E k s op = .ok (s', r)) : stepOK (code E k) s op s' = true := by
  have hv : viewIs (code E k) s' (firstView s') = true := by simp [viewIs_code]
  cases op with
  | writeU x =>
    simp only [step, setU_spec, Except.ok.injEq, Prod.mk.injEq] at h
    obtain ⟨rfl, _⟩ := h
    have hr := writeFirstU_rest s x
    simp only [List.drop_one] at hr
    simp [stepOK, viewIs_code, writeFirstU_view, hr, writeFirstU_length, isEmpty_writeFirstU]
  | writeValue x =>
    simp only [step, setValue_spec, Except.ok.injEq, Prod.mk.injEq] at h
    obtain ⟨rfl, _⟩ := h
    have hr := writeFirstValue_rest s x
    simp only [List.drop_one] at hr
    simp [stepOK, viewIs_code, writeFirstValue_view, hr, writeFirstValue_length, isEmpty_writeFirstValue]
  | _ => simp [stepOK, hv]

/-- (Outside the two view-WRITE operations this holds BY CONSTRUCTION of the getters: the view is computed from
    the current members on every read, whatever the step function does; the content is in `setU_spec` /
    `setValue_spec` / `step_ok` for the writes and in the three counter-models.  Third review, DESIGN 11.10.)
    **multivalue_view_history** — for EVERY member type, start state and history of whole-element
    `set()` / `set_flat()`, member `set()`, list operations (`append`, `insert`, `extend`,
    `mv[i] = x`, `del mv[i]`, `pop`, `del mv[a:b:c]`, Python index and slice rules) and view
    writes `mv.u = x` / `mv.value = x`: after every completed step the scalar view read through
    the getters as written is the first member's (text, value) — `('', None)` without members —,
    and every view write is read back, changes neither the other half of the view nor any other
    member, and creates exactly one member when there was none.  Proved step by step along the
    history (`step_ok`), for the model that follows the code line by line; `lastWriter_fails`,
    `lastReader_fails`, `setterViaSet_fails` show three one-line edits of the code for which the
    same statement is false. -/
theorem multivalue_view_history (E : Env) (k : Kind) (s : MultiState) (ops : List Op) :
    HistoryOK (code E k) s ops = true := by
  induction ops generalizing s with
  | nil => rfl
  | cons op rest ih =>
    simp only [HistoryOK]
    cases h : (code E k).step s op with
    | error e => rfl
    | ok res =>
      obtain ⟨s', r⟩ := res
      simp only [Bool.and_eq_true]
      exact ⟨step_ok E k s op s' r h, ih s'⟩

/-- non-vacuity: a history that completes, with view writes on an empty and on a filled MultiValue -/
example :
    ((step plainEnv (.string true) [] (.writeValue (.str ['v']))).toOption.bind fun p =>
      ((step plainEnv (.string true) p.1 (.append (.str ['b']))).toOption.bind fun q =>
        (step plainEnv (.string true) q.1 (.writeU ['x'])).toOption.map (·.1))) =
      some [⟨.none, .str ['v'], ['x']⟩, ⟨.str ['b'], .str ['b'], ['b']⟩] := by
  decide

/-- a setter that writes to the LAST member does not satisfy the statement:
    `mv.append('a'); mv.append('b'); mv.u = 'x'` then reads `'a'` -/
theorem lastWriter_fails : ¬ ∀ (s : MultiState) (ops : List Op), HistoryOK (lastWriter plainEnv (.string true)) s ops = true := by
  intro h
  have := h [] [.append (.str ['a']), .append (.str ['b']), .writeU ['x']]
  revert this
  decide

/-- a getter that reads the LAST member does not satisfy it -/
theorem lastReader_fails : ¬ ∀ (s : MultiState) (ops : List Op), HistoryOK (lastReader plainEnv (.string true)) s ops = true := by
  intro h
  have := h [] [.append (.str ['a']), .append (.str ['b'])]
  revert this
  decide

/-- a `u` setter that `set()`s the member instead of assigning its text does not satisfy it
    (the value half of the view changes) -/
theorem setterViaSet_fails : ¬ ∀ (s : MultiState) (ops : List Op), HistoryOK (setterViaSet plainEnv (.string true)) s ops = true := by
  intro h
  have := h [] [.append (.str ['a']), .writeU ['x']]
  revert this
  decide

/-! ### what the direct attribute assignment breaks: value and text "in tandem" -/

/-- the full statement one might expect of a view write: members stay in a state that `set()`
    produces (C04's coherence of value and text, lifted to the MultiValue) -/
def C18_Full_view_write_coherent : Prop :=
  ∀ (k : Kind) (s : MultiState) (x : Str) (s' : MultiState), (∀ m ∈ s, SetReachable plainEnv k m) →
    setU plainEnv k s x = .ok s' → ∀ m ∈ s', SetReachable plainEnv k m

/-- **view_write_coherent_partial** — it holds when the written text is the text that some `set()`
    of the member type pairs with the first member's current value (None for a new member) -/
theorem view_write_coherent_partial (E : Env) (k : Kind) (s : MultiState) (x : Str) (s' : MultiState)
    (hs : ∀ m ∈ s, SetReachable E k m)
    (hx : ∃ obj r, setScalar E k obj = .ok r ∧ r.st.value = (firstView s).2 ∧ r.st.u = x)
    (h : setU E k s x = .ok s') : ∀ m ∈ s', SetReachable E k m := by
  rw [setU_spec] at h
  simp only [Except.ok.injEq] at h
  subst h
  cases s with
  | nil =>
    intro m hm
    simp only [writeFirstU, List.mem_singleton] at hm
    subst hm
    exact hx
  | cons m0 rest =>
    intro m hm
    simp only [writeFirstU, List.mem_cons] at hm
    rcases hm with rfl | hm
    · exact hx
    · exact hs m (List.mem_cons_of_mem _ hm)

example : ∃ obj r, setScalar plainEnv (.string false) obj = .ok r ∧
    r.st.value = (firstView [⟨.str ['a'], .str ['a'], ['a']⟩]).2 ∧ r.st.u = ['a'] :=
  ⟨.str ['a'], ⟨⟨.str ['a'], .str ['a'], ['a']⟩, true, [true]⟩, rfl, rfl, rfl⟩

/-- `MultiValue.of(String)`: `mv.set(['a']); mv.u = 'x'` leaves the first member with value `'a'`
    and text `'x'`, a state no `set()` of a String produces -/
theorem C18_view_write_incoherent : ¬ C18_Full_view_write_coherent := by
  intro hfull
  have hreach := hfull (.string false) [⟨.str ['a'], .str ['a'], ['a']⟩] ['x'] _
    (by
      intro m hm
      simp only [List.mem_singleton] at hm
      subst hm
      exact ⟨.str ['a'], ⟨⟨.str ['a'], .str ['a'], ['a']⟩, true, [true]⟩, rfl, rfl, rfl⟩)
    (setU_spec _ _ _ _) ⟨.str ['a'], .str ['a'], ['x']⟩ (by simp [writeFirstU])
  obtain ⟨obj, r, h, hv, hu⟩ := hreach
  unfold setScalar at h
  split at h
  · cases h
  · rename_i v hv'
    split at h
    · cases h
    · rename_i u hu'
      simp only [Except.ok.injEq] at h
      subst h
      simp only at hv hu
      subst hv
      subst hu
      simp [uOfValue, serialize] at hu'
  · split at h
    · cases h
    · simp only [Except.ok.injEq] at h
      subst h
      simp at hv

end Flatland.C18.Multi.Proofs
