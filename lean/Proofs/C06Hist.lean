import Proofs.C06
namespace Flatland.C06.Proofs
open Flatland.C06 Flatland.C06.Spec

/-! ## well-formedness is kept by every step -/

/-- a reference value names an existing list object -/
def RefOK (σ : State) : Val → Prop
  | .list r | .tuple r | .anonDict r => r < σ.heap.length
  | _ => True

theorem WF_iff_refOK (σ : State) :
    WF σ ↔ (∀ c x, x ∈ σ.mroOf c → x < σ.classes.length) ∧
      ∀ c a v, assoc (σ.ownOf c) a = some v → RefOK σ v := by
  constructor
  · intro h
    refine ⟨h.mro_lt, fun c a v hv => ?_⟩
    cases v <;> simp only [RefOK]
    case list r => exact h.ref_lt c a r (Or.inl hv)
    case tuple r => exact h.ref_lt c a r (Or.inr (Or.inl hv))
    case anonDict r => exact h.ref_lt c a r (Or.inr (Or.inr hv))
  · intro ⟨h1, h2⟩
    refine ⟨h1, fun c a r hr => ?_⟩
    rcases hr with hr | hr | hr <;> exact h2 c a _ hr

theorem length_updCls (σ : State) (c : ClassId) (f : Cls → Cls) :
    (updCls σ c f).classes.length = σ.classes.length := by
  unfold updCls; split <;> simp

theorem ownOf_updCls (σ : State) (c x : ClassId) (f : Cls → Cls) (hf : ∀ cl, (f cl).own = cl.own) :
    (updCls σ c f).ownOf x = σ.ownOf x := by
  simp only [State.ownOf, classes_updCls]
  by_cases e : x = c
  · simp only [e, if_true]; cases σ.classes[c]? <;> simp [hf]
  · simp [e]

theorem kindOf_updCls (σ : State) (c x : ClassId) (f : Cls → Cls) (hf : ∀ cl, (f cl).kind = cl.kind) :
    (updCls σ c f).kindOf x = σ.kindOf x := by
  simp only [State.kindOf, classes_updCls]
  by_cases e : x = c
  · simp only [e, if_true]; cases σ.classes[c]? <;> simp [hf]
  · simp [e]

theorem RefOK_mono {σ τ : State} (h : σ.heap.length ≤ τ.heap.length) (v : Val) (hv : RefOK σ v) : RefOK τ v := by
  cases v <;> first | exact Nat.lt_of_lt_of_le hv h | trivial

/-- rewriting a class without touching its MRO or its `__dict__` (flags, properties frame) -/
theorem WF_updCls (σ : State) (hwf : WF σ) (c : ClassId) (f : Cls → Cls)
    (hm : ∀ cl, (f cl).mro = cl.mro) (ho : ∀ cl, (f cl).own = cl.own) : WF (updCls σ c f) := by
  rw [WF_iff_refOK] at hwf ⊢
  refine ⟨fun c' x hx => ?_, fun c' a v hv => ?_⟩
  · rw [mroOf_updCls σ c c' f hm] at hx
    rw [length_updCls]; exact hwf.1 c' x hx
  · rw [ownOf_updCls σ c c' f ho] at hv
    exact RefOK_mono (by rw [heap_updCls]; exact Nat.le_refl _) v (hwf.2 c' a v hv)

theorem assoc_ownOf_setOwn (σ : State) (c x : ClassId) (a a' : Attr) (v : Val) :
    assoc ((setOwn σ c a v).ownOf x) a' = assoc (σ.ownOf x) a' ∨
      assoc ((setOwn σ c a v).ownOf x) a' = some v := by
  by_cases e : x = c
  · subst e
    cases hcl : σ.classes[x]? with
    | none => left; simp [setOwn, updCls, hcl]
    | some cl =>
      unfold setOwn
      rw [ownOf_updCls_self σ x _ cl hcl]
      simp only [assoc_assocSet]
      by_cases ea : a = a'
      · right; simp [ea]
      · left; simp [ea, State.ownOf, hcl]
  · left; rw [ownOf_setOwn_ne σ c x a v e]

theorem heap_setOwn (σ : State) (c : ClassId) (a : Attr) (v : Val) : (setOwn σ c a v).heap = σ.heap :=
  heap_updCls σ c _

theorem length_setOwn (σ : State) (c : ClassId) (a : Attr) (v : Val) :
    (setOwn σ c a v).classes.length = σ.classes.length := length_updCls σ c _

/-- `setattr(cls, a, v)` with `v` an atom or a reference to an existing list object -/
theorem WF_setOwn (σ : State) (hwf : WF σ) (c : ClassId) (a : Attr) (v : Val) (hv : RefOK σ v) :
    WF (setOwn σ c a v) := by
  rw [WF_iff_refOK] at hwf ⊢
  refine ⟨fun c' x hx => ?_, fun c' a' v' hv' => ?_⟩
  · rw [mroOf_setOwn] at hx
    rw [length_setOwn]; exact hwf.1 c' x hx
  · have hh : σ.heap.length ≤ (setOwn σ c a v).heap.length := by rw [heap_setOwn]; exact Nat.le_refl _
    rcases assoc_ownOf_setOwn σ c c' a a' v with h | h
    · rw [h] at hv'; exact RefOK_mono hh v' (hwf.2 c' a' v' hv')
    · rw [h] at hv'; simp only [Option.some.injEq] at hv'; subst hv'; exact RefOK_mono hh _ hv

theorem WF_alloc (σ : State) (hwf : WF σ) (xs : List Item) : WF (alloc σ xs).1 := by
  rw [WF_iff_refOK] at hwf ⊢
  exact ⟨hwf.1, fun c a v hv => RefOK_mono (by simp [alloc]) v (hwf.2 c a v hv)⟩

theorem getElem?_append_singleton' {α : Type} (l : List α) (a : α) (c : Nat) :
    (l ++ [a])[c]? = if c = l.length then some a else l[c]? := by
  rcases Nat.lt_trichotomy c l.length with h | h | h
  · rw [List.getElem?_append_left h, if_neg (Nat.ne_of_lt h)]
  · subst h; simp
  · rw [if_neg (Nat.ne_of_gt h), List.getElem?_eq_none (by simp; omega), List.getElem?_eq_none (by omega)]

theorem mroOf_clone (σ : State) (p x : ClassId) :
    (clone σ p).1.mroOf x = if x = σ.classes.length then σ.classes.length :: σ.mroOf p else σ.mroOf x := by
  simp only [State.mroOf, clone, getElem?_append_singleton']
  by_cases e : x = σ.classes.length <;> simp [e]

theorem ownOf_clone (σ : State) (p x : ClassId) :
    (clone σ p).1.ownOf x = if x = σ.classes.length then [] else σ.ownOf x := by
  simp only [State.ownOf, clone, getElem?_append_singleton']
  by_cases e : x = σ.classes.length <;> simp [e]

theorem kindOf_clone (σ : State) (p x : ClassId) :
    (clone σ p).1.kindOf x = if x = σ.classes.length then σ.kindOf p else σ.kindOf x := by
  simp only [State.kindOf, clone, getElem?_append_singleton']
  by_cases e : x = σ.classes.length <;> simp [e]

theorem length_clone (σ : State) (p : ClassId) : (clone σ p).1.classes.length = σ.classes.length + 1 := by
  simp [clone]

/-- `class_cloner`: a fresh subclass with an empty `__dict__` -/
theorem WF_clone (σ : State) (hwf : WF σ) (p : ClassId) : WF (clone σ p).1 := by
  rw [WF_iff_refOK] at hwf ⊢
  refine ⟨fun c x hx => ?_, fun c a v hv => ?_⟩
  · rw [mroOf_clone] at hx
    rw [length_clone]
    split at hx
    · rcases List.mem_cons.1 hx with rfl | h
      · exact Nat.lt_succ_self _
      · exact Nat.lt_succ_of_lt (hwf.1 p x h)
    · exact Nat.lt_succ_of_lt (hwf.1 c x hx)
  · rw [ownOf_clone] at hv
    split at hv
    · simp [assoc] at hv
    · exact RefOK_mono (Nat.le_refl _) v (hwf.2 c a v hv)

theorem RefOK_alloc (σ : State) (xs : List Item) :
    RefOK (alloc σ xs).1 (.list (alloc σ xs).2) ∧ RefOK (alloc σ xs).1 (.tuple (alloc σ xs).2) ∧
      RefOK (alloc σ xs).1 (.anonDict (alloc σ xs).2) := by
  simp [RefOK, alloc]

theorem RefOK_atomOf (σ : State) (v : KwVal) : RefOK σ (atomOf v) := by
  cases v <;> simp [atomOf, RefOK]

theorem WF_usingBody (n : ClassId) :
    ∀ (kw : List (KwName × KwVal)) (σ1 σ2 : State), WF σ1 → usingBody σ1 n kw = some σ2 → WF σ2
  | [], σ1, σ2, hwf, h => by simp only [usingBody, Option.some.injEq] at h; exact h ▸ hwf
  | (.bogus, _) :: _, _, _, _, h => by simp [usingBody] at h
  | (.properties, v) :: rest, σ1, σ2, hwf, h => by
    cases v <;> simp only [usingBody, reduceCtorEq] at h
    refine WF_usingBody n rest _ σ2 ?_ h
    exact WF_updCls σ1 hwf n _ (fun _ => rfl) (fun _ => rfl)
  | (.attr a, v) :: rest, σ1, σ2, hwf, h => by
    simp only [usingBody] at h
    split at h
    · cases v <;> simp only [] at h
      case labels ls =>
        exact WF_usingBody n rest _ σ2 (WF_setOwn _ (WF_alloc σ1 hwf _) n a _ (RefOK_alloc σ1 _).1) h
      case members ms =>
        exact WF_usingBody n rest _ σ2 (WF_setOwn _ (WF_alloc σ1 hwf _) n a _ (RefOK_alloc σ1 _).1) h
      all_goals exact WF_usingBody n rest _ σ2 (WF_setOwn σ1 hwf n a _ (RefOK_atomOf σ1 _)) h
    · simp at h

theorem WF_compoundInit (σ : State) (hwf : WF σ) (n : ClassId) : WF (compoundInit σ n).1 := by
  unfold compoundInit
  simp only []
  split
  · exact hwf
  · split
    · exact WF_updCls σ hwf n _ (fun _ => rfl) (fun _ => rfl)
    · exact WF_updCls _ (WF_setOwn _ (WF_alloc σ hwf _) n _ _ (RefOK_alloc σ _).1) n _
        (fun _ => rfl) (fun _ => rfl)

/-- **Well-formedness along histories.**  Every constructor call and every instantiation —
    successful or raising, lazily preparing or not — leaves the class store well formed. -/
theorem WF_step (σ : State) (hwf : WF σ) (s : Step) : WF (step σ s).1 := by
  cases s with
  | named c name =>
    simp only [step]; split
    · exact WF_setOwn _ (WF_clone σ hwf c) _ _ _ (by cases name <;> simp [RefOK])
    · exact hwf
  | «using» c kw =>
    simp only [step]; split
    · split
      · rename_i σ2 h; exact WF_usingBody _ kw _ σ2 (WF_clone σ hwf c) h
      · exact hwf
    · exact hwf
  | validatedBy descent c vs =>
    simp only [step]; split
    · split
      · exact hwf
      · exact WF_setOwn _ (WF_alloc _ (WF_clone σ hwf c) _) _ _ _ (RefOK_alloc _ _).1
    · exact hwf
  | includingValidators descent c vs position =>
    simp only [step]; split
    · split
      · exact hwf
      · exact WF_setOwn _ (WF_alloc _ (WF_clone σ hwf c) _) _ _ _ (RefOK_alloc _ _).1
    · exact hwf
  | withProperties c pairs =>
    simp only [step]; split
    · exact WF_updCls _ (WF_clone σ hwf c) _ _ (fun _ => rfl) (fun _ => rfl)
    · exact hwf
  | «of» c members =>
    simp only [step]; split
    · split
      · split
        · exact hwf
        · exact WF_setOwn _ (WF_clone σ hwf c) _ _ _ (by simp [RefOK])
        · split
          · exact hwf
          · exact WF_setOwn _ (WF_alloc _ (WF_clone σ hwf c) _) _ _ _ (RefOK_alloc _ _).2.2
      · split
        · exact hwf
        · exact WF_setOwn _ (WF_alloc _ (WF_clone σ hwf c) _) _ _ _ (RefOK_alloc _ _).2.1
      all_goals exact hwf
    · exact hwf
  | valued c values =>
    simp only [step]; split
    · split
      · exact hwf
      · exact WF_setOwn _ (WF_alloc _ (WF_clone σ hwf c) _) _ _ _ (RefOK_alloc _ _).2.1
    · exact hwf
  | «to» c path =>
    simp only [step]; split
    · split
      · exact hwf
      · exact WF_setOwn _ (WF_clone σ hwf c) _ _ _ (by simp [RefOK])
    · exact hwf
  | inst c kw =>
    simp only [step]; split
    · split
      · split
        · split
          · exact hwf
          · rename_i σ2 h
            have h2 := WF_usingBody _ _ _ σ2 (WF_clone σ hwf c) h
            have h3 := WF_compoundInit σ2 h2 (clone σ c).2
            by_cases e1 : ((compoundInit σ2 (clone σ c).2).snd != Res.ok) = true
            · simp only [e1, if_true]; exact hwf
            · simp only [e1]
              by_cases e2 : (List.filter (fun p => p.fst == KwName.bogus) kw).isEmpty = true
              · simp only [e2, if_true]; exact h3
              · simp only [e2]; exact hwf
        · have h3 := WF_compoundInit σ hwf c
          cases hp : σ.isPrepared c with
          | true => simp only [if_true]; split <;> (try split) <;> exact hwf
          | false =>
            simp only [Bool.false_eq_true, if_false]
            split
            · exact hwf
            · split <;> exact h3
      · split
        · exact hwf
        · split
          · exact hwf
          · split <;> split <;> exact hwf
    · exact hwf

theorem WF_run (ss : List Step) (σ : State) (hwf : WF σ) : WF (run σ ss).1 := by
  induction ss generalizing σ with
  | nil => exact hwf
  | cons s ss ih => simp only [run]; exact ih _ (WF_step σ hwf s)

theorem WF_initState (kind : Kind) (defaults : List (Attr × Val))
    (hd : ∀ a v, assoc defaults a = some v → RefOK (initState kind defaults) v) :
    WF (initState kind defaults) := by
  rw [WF_iff_refOK]
  refine ⟨fun c x hx => ?_, fun c a v hv => ?_⟩
  · cases c with
    | zero => simp [initState, State.mroOf] at hx; simp [initState, hx]
    | succ n => simp [initState, State.mroOf] at hx
  · cases c with
    | zero => exact hd a v (by simpa [initState, State.ownOf] using hv)
    | succ n => simp [initState, State.ownOf, assoc] at hv

/-! ## the shape of the class table along a step: nothing, or one new direct subclass -/

/-- same classes with the same MROs and kinds (own attributes, flags, heap may differ) -/
structure SameShape (σ τ : State) : Prop where
  len : τ.classes.length = σ.classes.length
  mro : ∀ x, τ.mroOf x = σ.mroOf x
  kind : ∀ x, τ.kindOf x = σ.kindOf x

/-- `τ` has exactly one class more than `σ`: class number `σ.classes.length`, a direct subclass
    of `p` of the same kind; every other class has the MRO and kind it had -/
structure Derived (σ τ : State) (p : ClassId) : Prop where
  len : τ.classes.length = σ.classes.length + 1
  mro : ∀ x, τ.mroOf x = if x = σ.classes.length then σ.classes.length :: σ.mroOf p else σ.mroOf x
  kind : ∀ x, τ.kindOf x = if x = σ.classes.length then σ.kindOf p else σ.kindOf x

theorem SameShape.refl (σ : State) : SameShape σ σ := ⟨rfl, fun _ => rfl, fun _ => rfl⟩

theorem SameShape.trans {a b c : State} (h1 : SameShape a b) (h2 : SameShape b c) : SameShape a c :=
  ⟨h2.len.trans h1.len, fun x => (h2.mro x).trans (h1.mro x), fun x => (h2.kind x).trans (h1.kind x)⟩

theorem Derived.then {σ τ τ' : State} {p : ClassId} (h1 : Derived σ τ p) (h2 : SameShape τ τ') :
    Derived σ τ' p :=
  ⟨h2.len.trans h1.len, fun x => (h2.mro x).trans (h1.mro x), fun x => (h2.kind x).trans (h1.kind x)⟩

theorem Derived_clone (σ : State) (p : ClassId) : Derived σ (clone σ p).1 p :=
  ⟨length_clone σ p, mroOf_clone σ p, kindOf_clone σ p⟩

theorem SameShape_updCls (σ : State) (c : ClassId) (f : Cls → Cls)
    (hm : ∀ cl, (f cl).mro = cl.mro) (hk : ∀ cl, (f cl).kind = cl.kind) : SameShape σ (updCls σ c f) :=
  ⟨length_updCls σ c f, fun x => mroOf_updCls σ c x f hm, fun x => kindOf_updCls σ c x f hk⟩

theorem SameShape_setOwn (σ : State) (c : ClassId) (a : Attr) (v : Val) : SameShape σ (setOwn σ c a v) :=
  SameShape_updCls σ c _ (fun _ => rfl) (fun _ => rfl)

theorem SameShape_alloc (σ : State) (xs : List Item) : SameShape σ (alloc σ xs).1 :=
  ⟨rfl, fun _ => rfl, fun _ => rfl⟩

theorem SameShape_usingBody (n : ClassId) :
    ∀ (kw : List (KwName × KwVal)) (σ1 σ2 : State), usingBody σ1 n kw = some σ2 → SameShape σ1 σ2
  | [], σ1, σ2, h => by simp only [usingBody, Option.some.injEq] at h; exact h ▸ SameShape.refl σ1
  | (.bogus, _) :: _, _, _, h => by simp [usingBody] at h
  | (.properties, v) :: rest, σ1, σ2, h => by
    cases v <;> simp only [usingBody, reduceCtorEq] at h
    have h2 := SameShape_usingBody n rest _ σ2 h
    refine SameShape.trans ?_ h2
    exact SameShape_updCls σ1 n _ (fun _ => rfl) (fun _ => rfl)
  | (.attr a, v) :: rest, σ1, σ2, h => by
    simp only [usingBody] at h
    split at h
    · cases v <;> simp only [] at h
      case labels ls =>
        exact ((SameShape_alloc σ1 _).trans (SameShape_setOwn _ n a _)).trans (SameShape_usingBody n rest _ σ2 h)
      case members ms =>
        exact ((SameShape_alloc σ1 _).trans (SameShape_setOwn _ n a _)).trans (SameShape_usingBody n rest _ σ2 h)
      all_goals exact (SameShape_setOwn σ1 n a _).trans (SameShape_usingBody n rest _ σ2 h)
    · simp at h

theorem SameShape_compoundInit (σ : State) (n : ClassId) : SameShape σ (compoundInit σ n).1 := by
  unfold compoundInit
  simp only []
  split
  · exact SameShape.refl σ
  · split
    · exact SameShape_updCls σ n _ (fun _ => rfl) (fun _ => rfl)
    · exact ((SameShape_alloc σ _).trans (SameShape_setOwn _ n _ _)).trans
        (SameShape_updCls _ n _ (fun _ => rfl) (fun _ => rfl))

/-- the class a constructor is called on -/
def stepTarget : Step → ClassId
  | .named c _ | .using c _ | .validatedBy _ c _ | .includingValidators _ c _ _ | .withProperties c _
  | .of c _ | .valued c _ | .to c _ | .inst c _ => c

def isCtor : Step → Bool
  | .inst .. => false
  | _ => true

/-- **The returned class is new.**  A schema constructor either raises and leaves the class
    store exactly as it was, or returns: then the store has exactly one class more — its id is
    the old number of classes, so it is none of the old classes —, a direct subclass of the class
    the constructor was called on (MRO = itself followed by the original's MRO) of the same
    kind, and no old class changed its MRO. -/
theorem ctor_new_or_unchanged (σ : State) (s : Step) (hs : isCtor s = true) :
    ((step σ s).1 = σ ∧ (step σ s).2 ≠ .ok) ∨
    (stepTarget s < σ.classes.length ∧ Derived σ (step σ s).1 (stepTarget s) ∧ (step σ s).2 = .ok) := by
  cases s with
  | named c name =>
    simp only [step, stepTarget]; split
    · rename_i hc; right
      exact ⟨hc, (Derived_clone σ c).then (SameShape_setOwn _ _ _ _), rfl⟩
    · left; exact ⟨rfl, by simp⟩
  | «using» c kw =>
    simp only [step, stepTarget]; split
    · rename_i hc
      split
      · rename_i σ2 h; right
        exact ⟨hc, (Derived_clone σ c).then (SameShape_usingBody _ kw _ σ2 h), rfl⟩
      · left; exact ⟨rfl, by simp⟩
    · left; exact ⟨rfl, by simp⟩
  | validatedBy descent c vs =>
    simp only [step, stepTarget]; split
    · rename_i hc
      split
      · left; exact ⟨rfl, by simp⟩
      · right
        exact ⟨hc, (Derived_clone σ c).then ((SameShape_alloc _ _).trans (SameShape_setOwn _ _ _ _)), rfl⟩
    · left; exact ⟨rfl, by simp⟩
  | includingValidators descent c vs position =>
    simp only [step, stepTarget]; split
    · rename_i hc
      split
      · left; exact ⟨rfl, by simp⟩
      · right
        exact ⟨hc, (Derived_clone σ c).then ((SameShape_alloc _ _).trans (SameShape_setOwn _ _ _ _)), rfl⟩
    · left; exact ⟨rfl, by simp⟩
  | withProperties c pairs =>
    simp only [step, stepTarget]; split
    · rename_i hc; right
      exact ⟨hc, (Derived_clone σ c).then (SameShape_updCls _ _ _ (fun _ => rfl) (fun _ => rfl)), rfl⟩
    · left; exact ⟨rfl, by simp⟩
  | «of» c members =>
    simp only [step, stepTarget]; split
    · rename_i hc
      have hc' : c < σ.classes.length := by
        simp only [Bool.and_eq_true, decide_eq_true_eq] at hc; exact hc.1
      split
      · split
        · left; exact ⟨rfl, by simp⟩
        · right; exact ⟨hc', (Derived_clone σ c).then (SameShape_setOwn _ _ _ _), rfl⟩
        · split
          · left; exact ⟨rfl, by simp⟩
          · right
            exact ⟨hc', (Derived_clone σ c).then ((SameShape_alloc _ _).trans (SameShape_setOwn _ _ _ _)), rfl⟩
      · split
        · left; exact ⟨rfl, by simp⟩
        · right
          exact ⟨hc', (Derived_clone σ c).then ((SameShape_alloc _ _).trans (SameShape_setOwn _ _ _ _)), rfl⟩
      all_goals (left; exact ⟨rfl, by simp⟩)
    · left; exact ⟨rfl, by simp⟩
  | valued c values =>
    simp only [step, stepTarget]; split
    · rename_i hc
      split
      · left; exact ⟨rfl, by simp⟩
      · right
        exact ⟨hc, (Derived_clone σ c).then ((SameShape_alloc _ _).trans (SameShape_setOwn _ _ _ _)), rfl⟩
    · left; exact ⟨rfl, by simp⟩
  | «to» c path =>
    simp only [step, stepTarget]; split
    · rename_i hc
      split
      · left; exact ⟨rfl, by simp⟩
      · right; exact ⟨hc, (Derived_clone σ c).then (SameShape_setOwn _ _ _ _), rfl⟩
    · left; exact ⟨rfl, by simp⟩
  | inst c kw => simp [isCtor] at hs

/-- an instantiation leaves the class table as it is, or (compound types) fills in the class it is
    called on, or (compound types, with keyword overrides) derives one new subclass on the fly -/
theorem inst_shape (σ : State) (c : ClassId) (kw : List (KwName × KwVal)) :
    SameShape σ (step σ (.inst c kw)).1 ∨
    (c < σ.classes.length ∧ Derived σ (step σ (.inst c kw)).1 c) := by
  simp only [step]; split
  · rename_i hc
    split
    · split
      · split
        · left; exact SameShape.refl σ
        · rename_i σ2 h
          have h2 := (Derived_clone σ c).then (SameShape_usingBody _ _ _ σ2 h)
          have h3 := h2.then (SameShape_compoundInit σ2 (clone σ c).2)
          by_cases e1 : ((compoundInit σ2 (clone σ c).2).snd != Res.ok) = true
          · simp only [e1, if_true]; left; exact SameShape.refl σ
          · simp only [e1]
            by_cases e2 : (List.filter (fun p => p.fst == KwName.bogus) kw).isEmpty = true
            · simp only [e2, if_true]; right; exact ⟨hc, h3⟩
            · simp only [e2]; left; exact SameShape.refl σ
      · left
        have h3 := SameShape_compoundInit σ c
        cases hp : σ.isPrepared c with
        | true => simp only [if_true]; split <;> (try split) <;> exact SameShape.refl σ
        | false =>
          simp only [Bool.false_eq_true, if_false]
          split
          · exact SameShape.refl σ
          · split <;> exact h3
    · left
      split
      · exact SameShape.refl σ
      · split
        · exact SameShape.refl σ
        · split <;> split <;> exact SameShape.refl σ
  · left; exact SameShape.refl σ

/-- every step: the class table keeps its shape or gains one direct subclass of the target -/
theorem step_shape (σ : State) (s : Step) :
    SameShape σ (step σ s).1 ∨ (stepTarget s < σ.classes.length ∧ Derived σ (step σ s).1 (stepTarget s)) := by
  by_cases hs : isCtor s = true
  · rcases ctor_new_or_unchanged σ s hs with ⟨e, _⟩ | ⟨h1, h2, _⟩
    · left; rw [e]; exact SameShape.refl σ
    · right; exact ⟨h1, h2⟩
  · cases s <;> simp [isCtor] at hs
    exact inst_shape σ _ _

end Flatland.C06.Proofs
