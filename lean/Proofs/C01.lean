/-
C01 — flatten() output rebuilds the same element tree through from_flat().

Main theorem (`roundtrip`): for every well-formed schema without SparseDicts, every separator that
is `SepSafe` for the schema's names, and every element state `e` that is `Ok` (conforming, every
scalar leaf settled, no pruning in force, every list member representable):

    from_flat(flatten(e)) = e            -- the same tree, hence the same flatten() output

for trees of any depth and width, any mix of Dict / Compound / List / Array / MultiValue /
JoinedString / scalars, named or anonymous members, names that are prefixes of sibling names, and
multi-character separators.  The proof goes through the *breadth-first* order of the real
`flatten` (level order restricted to a subtree is the subtree's level order), the sloppy
`startswith` field matching of `Mapping._set_flat` (pairs of prefix-sharing siblings address
nothing in the field: C02 `confined`), and the index recogniser of `List._set_flat`.

What is NOT covered by this theorem and is left to the correspondence + oracle of the check:
pruning sequences (the documented loss), SparseDicts (KF-C01-d/e), `SepSafe` violations
(KF-C01-a), unsettled leaves (KF-C01-b/c/f).  See `roundtrip_full_fails` for a negation witness
of the statement without the SparseDict restriction.
-/
import Proofs.Lemmas.C01List
namespace Flatland.Flat.Proofs
open Flatland.Flat Flatland.Flat.Spec

variable {env : Env} {sep : Str}

theorem name_mem_names (s : Schema) (x : Str) (h : s.name = some x) : x ∈ names s := by
  cases s <;> simp only [Schema.name] at h <;> subst h <;> simp [names]

theorem names_sub_namesL {g : Schema} {fs : List Schema} (hg : g ∈ fs) : ∀ t ∈ names g, t ∈ namesL fs := by
  induction fs with
  | nil => simp at hg
  | cons f fs ih =>
    intro t ht
    simp only [namesL, List.mem_append]
    rcases List.mem_cons.mp hg with rfl | h
    · exact Or.inl ht
    · exact Or.inr (ih h t ht)

section main
variable (root : Schema) (hs : SepSafe env sep (Tok root)) (henv : EnvOK env)
include hs henv

theorem tok_of_name {s : Schema} (hsub : ∀ t ∈ names s, t ∈ names root) (x : Str)
    (h : s.name = some x) : Tok root x :=
  Or.inl (hsub x (name_mem_names s x h))

mutual
/-- every schema below the root round-trips -/
theorem rt_all : ∀ s : Schema, (∀ t ∈ names s, t ∈ names root) → wf s = true → dense s = true →
    RT env sep s
  | .leaf nm o k, _, _, _ => rt_leaf nm o k
  | .joined nm o k m, _, _, _ => rt_joined nm o k m
  | .array nm o p member, hsub, _, _ => by
    apply rt_array hs nm _ o p member
    · intro c hc
      exact hs.tok_ne c (Or.inl (hsub c (by
        have := name_mem_names member c hc
        simp [names, this])))
    · intro x hx; subst hx
      exact hs.tok_ne x (Or.inl (hsub x (by simp [names])))
  | .list nm o p mx member, hsub, hw, hd => by
    simp only [wf] at hw
    simp only [dense] at hd
    have hsubm : ∀ t ∈ names member, t ∈ names root := fun t ht => hsub t (by simp [names, ht])
    apply rt_list hs henv nm _ o p mx member
    · intro t ht; exact hs.tok_ne t (Or.inl (hsubm t ht))
    · exact rt_all member hsubm hw hd
    · intro x hx; subst hx; exact Or.inl (hsub x (by simp [names]))
  | .dict nm o mode fields, hsub, hw, hd => by
    simp only [wf, Bool.and_eq_true] at hw
    simp only [dense, Bool.and_eq_true, decide_eq_true_eq] at hd
    have hnd : (namesOf fields).Nodup := by simpa using hw.2
    have hsome := allSome_of fields hw.1.2
    have hsubf : ∀ t ∈ namesL fields, t ∈ names root := fun t ht => hsub t (by simp [names, ht])
    have htok : ∀ g ∈ fields, ∃ x, g.name = some x ∧ Tok root x := by
      intro g hg
      have := hsome g hg
      cases hn : g.name with
      | none => simp [hn] at this
      | some x =>
        exact ⟨x, rfl, Or.inl (hsubf x (names_sub_namesL hg x (name_mem_names g x hn)))⟩
    have hrt := rt_fields fields hsubf hw.1.1 hd.2
    intro e hok
    cases e with
    | dict ms =>
      simp only [Ok] at hok
      obtain ⟨hmode, hokf⟩ := hok
      subst hmode
      have hr : resolve env (.dict nm o .dense fields) (.dict ms)
          = .mk nm false true [] false (resKids env fields ms) := by
        unfold resolve
        simp only [membersOf]
        rw [resolveMembers_eq env fields hnd hsome ms fields ms (fun f hf => hf) hokf]
      rw [hr, relFlat_eq]
      simp only [ownPath, FNode.fl, Bool.false_eq_true, if_false, List.nil_append, pushed, FNode.cfl,
        if_true, childItems, FNode.slots, FNode.kids, namePath, FNode.name]
      rw [kidsFrom_noslots, setFlat]
      simp only [blank, membersOf]
      exact rt_mapping hs nm (fun x hx => by subst hx; exact Or.inl (hsub x (by simp [names])))
        fields hnd htok hw.1.1 hd.2 hrt ms hokf [] (Or.inl rfl) _ rfl _ rfl
    | _ => simp [Ok] at hok
  | .compound nm o k fields, hsub, hw, hd => by
    simp only [wf, Bool.and_eq_true] at hw
    simp only [dense] at hd
    have hnd : (namesOf fields).Nodup := by simpa using hw.2
    have hsome := allSome_of fields hw.1.2
    have hsubf : ∀ t ∈ namesL fields, t ∈ names root := fun t ht => hsub t (by simp [names, ht])
    have htok : ∀ g ∈ fields, ∃ x, g.name = some x ∧ Tok root x := by
      intro g hg
      have := hsome g hg
      cases hn : g.name with
      | none => simp [hn] at this
      | some x =>
        exact ⟨x, rfl, Or.inl (hsubf x (names_sub_namesL hg x (name_mem_names g x hn)))⟩
    have hrt := rt_fields fields hsubf hw.1.1 hd
    intro e hok
    cases e with
    | dict ms =>
      simp only [Ok] at hok
      have hr : resolve env (.compound nm o k fields) (.dict ms)
          = .mk nm true true (uOf env (.compound nm o k fields) (.dict ms)) false (resKids env fields ms) := by
        unfold resolve
        simp only [membersOf]
        rw [resolveMembers_eq env fields hnd hsome ms fields ms (fun f hf => hf) hok]
      rw [hr, relFlat_eq]
      simp only [ownPath, FNode.fl, if_true, pushed, FNode.cfl, childItems, FNode.slots, FNode.kids,
        namePath, FNode.name, FNode.u, List.nil_append]
      rw [kidsFrom_noslots, setFlat]
      simp only [blank, membersOf]
      exact rt_mapping hs nm (fun x hx => by subst hx; exact Or.inl (hsub x (by simp [names])))
        fields hnd htok hw.1.1 hd hrt ms hok [(nm.toList, _)] (Or.inr ⟨_, rfl⟩) _ rfl _ rfl
    | _ => simp [Ok] at hok
theorem rt_fields : ∀ fs : List Schema, (∀ t ∈ namesL fs, t ∈ names root) → wfL fs = true →
    denseL fs = true → ∀ f ∈ fs, RT env sep f
  | [], _, _, _ => fun f hf => by simp at hf
  | g :: gs, hsub, hw, hd => by
    simp only [wfL, Bool.and_eq_true] at hw
    simp only [denseL, Bool.and_eq_true] at hd
    have h1 := rt_all g (fun t ht => hsub t (by simp [namesL, ht])) hw.1 hd.1
    have h2 := rt_fields gs (fun t ht => hsub t (by simp [namesL, ht])) hw.2 hd.2
    intro f hf
    rcases List.mem_cons.mp hf with rfl | h
    · exact h1
    · exact h2 f h
end

end main

/-! ### the property theorem -/

theorem root_paths_ne (env : Env) (s : Schema) (e : Elem) (hw : wf s = true) (hroot : rootOK s = true)
    (hok : Ok env s e) : ∀ p ∈ relFlat (resolve env s e), p.1 ≠ [] := by
  intro p hp
  by_cases hn : s.name.isSome = true
  · -- a named root: every path starts with its name
    obtain ⟨it, hit, ext, he⟩ := bfsPath_mem _ p hp
    simp only [List.mem_singleton] at hit
    subst hit
    rw [he]
    simp only [namePath, resolve_name]
    cases hsn : s.name with
    | none => simp [hsn] at hn
    | some x => simp
  · -- an anonymous container: paths start with a member's name or index
    have hnone : s.name = none := by
      cases hsn : s.name with
      | none => rfl
      | some x => simp [hsn] at hn
    rw [relFlat_eq] at hp
    cases s with
    | leaf nm o k => simp [rootOK, Schema.name] at hroot hnone; simp [hnone] at hroot
    | joined nm o k m => simp [rootOK, Schema.name] at hroot hnone; simp [hnone] at hroot
    | compound nm o k fs => simp [rootOK, Schema.name] at hroot hnone; simp [hnone] at hroot
    | dict nm o mode fields =>
      simp only [Schema.name] at hnone; subst hnone
      cases e with
      | dict ms =>
        simp only [Ok] at hok
        simp only [wf, Bool.and_eq_true] at hw
        have hnd : (namesOf fields).Nodup := by simpa using hw.2
        have hsome := allSome_of fields hw.1.2
        have hr : resolve env (.dict none o mode fields) (.dict ms)
            = .mk none false true [] false (resKids env fields ms) := by
          unfold resolve
          simp only [membersOf]
          rw [resolveMembers_eq env fields hnd hsome ms fields ms (fun f hf => hf) hok.2]
        rw [hr] at hp
        simp only [ownPath, FNode.fl, Bool.false_eq_true, if_false, List.nil_append, pushed, FNode.cfl,
          if_true, childItems, FNode.slots, FNode.kids, namePath, FNode.name, Option.toList,
          List.append_nil] at hp
        rw [kidsFrom_noslots] at hp
        obtain ⟨it, hit, ext, he⟩ := bfsPath_mem _ p hp
        simp only [List.mem_map] at hit
        obtain ⟨k, hk, rfl⟩ := hit
        have h1 := resKids_names env fields ms hok.2 k hk
        obtain ⟨g, hg, hgn⟩ := exists_of_mem_namesOf h1
        have := hsome g hg
        rw [he]
        cases hkn : k.name with
        | none => rw [hgn, hkn] at this; simp at this
        | some y => simp [namePath, hkn]
      | _ => simp [Ok] at hok
    | list nm o prune mx member =>
      simp only [Schema.name] at hnone; subst hnone
      cases e with
      | list ms =>
        have hr : resolve env (.list none o prune mx member) (.list ms)
            = .mk none false true [] true (resolveList env member ms) := by
          unfold resolve; rfl
        rw [hr] at hp
        simp only [ownPath, FNode.fl, Bool.false_eq_true, if_false, List.nil_append, pushed, FNode.cfl,
          if_true, childItems, FNode.slots, FNode.kids, namePath, FNode.name, Option.toList,
          List.append_nil] at hp
        rw [kidsFrom_slots] at hp
        obtain ⟨it, hit, ext, he⟩ := bfsPath_mem _ p hp
        simp only [List.mem_map] at hit
        obtain ⟨it0, hit0, rfl⟩ := hit
        obtain ⟨j, _, hj⟩ := mem_slotItems 0 _ it0 hit0
        rw [he]
        simp [namePath, shift, hj]
      | _ => simp [Ok] at hok
    | array nm o prune member =>
      simp only [Schema.name] at hnone; subst hnone
      simp only [rootOK, Option.isSome_none, Bool.false_or] at hroot
      cases e with
      | array ms =>
        have hr : resolve env (.array none o prune member) (.array ms)
            = .mk none false true [] false (resolveList env member ms) := by
          unfold resolve; rfl
        rw [hr] at hp
        simp only [ownPath, FNode.fl, Bool.false_eq_true, if_false, List.nil_append, pushed, FNode.cfl,
          if_true, childItems, FNode.slots, FNode.kids, namePath, FNode.name, Option.toList,
          List.append_nil] at hp
        rw [kidsFrom_noslots, resolveList_eq_map] at hp
        obtain ⟨it, hit, ext, he⟩ := bfsPath_mem _ p hp
        simp only [List.mem_map] at hit
        obtain ⟨k, hk, rfl⟩ := hit
        obtain ⟨m, _, rfl⟩ := hk
        rw [he]
        simp only [namePath, resolve_name]
        cases hmn : member.name with
        | none => simp [hmn] at hroot
        | some y => simp
      | _ => simp [Ok] at hok

/-- **C01, exact round trip.**  `from_flat(flatten(e))` rebuilds `e` itself. -/
theorem roundtrip (env : Env) (sep : Str) (s : Schema) (e : Elem)
    (hs : SepSafe env sep (Tok s)) (henv : EnvOK env) (hw : wf s = true) (hd : dense s = true)
    (hroot : rootOK s = true) (hok : Ok env s e) :
    fromFlat env sep s (flatten env sep s e) = e := by
  unfold fromFlat
  rw [flatten_eq_relFlat, ← toKeys_eq_wrap sep _ (root_paths_ne env s e hw hroot hok)]
  exact rt_all s hs henv s (fun t ht => ht) hw hd e hok

/-- … hence the rebuilt tree flattens to the identical pair list, and a second trip changes
    nothing. -/
theorem roundtrip_flatten (env : Env) (sep : Str) (s : Schema) (e : Elem)
    (hs : SepSafe env sep (Tok s)) (henv : EnvOK env) (hw : wf s = true) (hd : dense s = true)
    (hroot : rootOK s = true) (hok : Ok env s e) :
    flatten env sep s (fromFlat env sep s (flatten env sep s e)) = flatten env sep s e := by
  rw [roundtrip env sep s e hs henv hw hd hroot hok]

theorem roundtrip_second (env : Env) (sep : Str) (s : Schema) (e : Elem)
    (hs : SepSafe env sep (Tok s)) (henv : EnvOK env) (hw : wf s = true) (hd : dense s = true)
    (hroot : rootOK s = true) (hok : Ok env s e) :
    fromFlat env sep s (flatten env sep s (fromFlat env sep s (flatten env sep s e)))
      = fromFlat env sep s (flatten env sep s e) := by
  rw [roundtrip env sep s e hs henv hw hd hroot hok, roundtrip env sep s e hs henv hw hd hroot hok]

end Flatland.Flat.Proofs
