import Flatland.Flat
namespace Flatland.Flat.Proofs
end Flatland.Flat.Proofs
