/-
C18 — "setting it with a date or date text sets exactly those members", for member schemas that can
reject a part of the date.  Model: Flatland/C18Explode.lean (member behaviour as a table) and
`DateState.step` of Flatland/C18.lean (whole-element `set()` = the C04 model).
-/
import Flatland.C18Explode
import Flatland.Spec.C18
import Proofs.C04
namespace Flatland.C18.Explode.Proofs
open Flatland.Scalar Flatland.C18 Flatland.C18.Explode

variable {M : Type}

/-- **explode_every_member_set** — for ANY member tables (members may reject, i.e. return False,
    at will), parts and previous member states: when the loop of `explode` completes, every member
    holds what its own `set(part)` leaves, regardless of the flags of the members before it. -/
theorem explode_every_member_set (fs : List (MemberSet M)) (ps : List Native) (olds ms : List M)
    (h : explodeAll fs ps olds = .ok ms) : EveryMemberSet fs ps olds ms := by
  induction fs generalizing ps olds ms with
  | nil =>
    simp only [explodeAll, Except.ok.injEq] at h
    subst h
    exact ⟨rfl, by intro i f p hf; simp at hf⟩
  | cons f fs ih =>
    cases ps with
    | nil =>
      simp only [explodeAll, Except.ok.injEq] at h
      subst h
      exact ⟨rfl, by intro i f' p _ hp; simp at hp⟩
    | cons p ps =>
      cases olds with
      | nil =>
        simp only [explodeAll, Except.ok.injEq] at h
        subst h
        exact ⟨rfl, by intro i f' p' _ _ hi; simp at hi⟩
      | cons o olds =>
        simp only [explodeAll] at h
        cases hfp : f p with
        | error e => simp [hfp] at h
        | ok r =>
          obtain ⟨m, b⟩ := r
          simp only [hfp] at h
          cases hrest : explodeAll fs ps olds with
          | error e => simp [hrest] at h
          | ok ms' =>
            simp only [hrest, Except.ok.injEq] at h
            subst h
            obtain ⟨hlen, hall⟩ := ih ps olds ms' hrest
            refine ⟨by simp [hlen], ?_⟩
            intro i f' p' hf hp hi
            cases i with
            | zero =>
              simp only [List.getElem?_cons_zero, Option.some.injEq] at hf hp
              subst hf; subst hp
              exact ⟨m, b, hfp, rfl⟩
            | succ j =>
              simp only [List.getElem?_cons_succ] at hf hp
              obtain ⟨m', b', h1, h2⟩ := hall j f' p' hf hp (by simpa using hi)
              exact ⟨m', b', h1, by simpa using h2⟩

/-- **explodeShortCircuit_fails** — the loop written as `all(<generator>)` does not satisfy the
    statement: a first member that returns False leaves the second one unset (it keeps its old
    state `0` where its own `set` leaves `2`). -/
theorem explodeShortCircuit_fails :
    ¬ ∀ (fs : List (MemberSet Nat)) (ps : List Native) (olds ms : List Nat),
        explodeShort fs ps olds = .ok ms → EveryMemberSet fs ps olds ms := by
  intro h
  obtain ⟨_, hall⟩ := h [fun _ => .ok (1, false), fun _ => .ok (2, true)] [.none, .none] [0, 0] [1, 0] rfl
  obtain ⟨m, b, h1, h2⟩ := hall 1 (fun _ => .ok (2, true)) .none rfl rfl (by decide)
  simp only [Except.ok.injEq, Prod.mk.injEq] at h1
  obtain ⟨rfl, _⟩ := h1
  simp at h2

/-- the same two members under the loop as written: both are set -/
example : explodeAll [fun _ => .ok (1, false), fun _ => .ok (2, true)] [Native.none, .none] [0, 0] = .ok [1, 2] := rfl

/-- **date_explode_all_members** — DateYYYYMMDD with ANY member kinds (generated Integers, custom
    formats, Enum / Constrained members that reject parts, text members): a completed whole-element
    `set(x)` with a value that denotes the date `y-m-d` (a date, a datetime, or date text) returns
    True and leaves EVERY member in the state of its own `set(part)` — year with `y`, month with
    `m`, day with `d` — whether or not that member (or an earlier one) adapted its part; nothing
    of the previous member states remains. -/
theorem date_explode_all_members (E : Env) (c : DateCfg) (s s' : DateState) (x : Native) (y m d : Nat)
    (ret : Option Bool)
    (hx : adapt E (.date true) x = .ok (some (.date y m d)) ∨
          ∃ h mi sec us, adapt E (.date true) x = .ok (some (.datetime y m d h mi sec us)))
    (hstep : s.step E c (.set x) = .ok (s', ret)) :
    ∃ ry rm rd, setScalar E c.ky (.int y) = .ok ry ∧ setScalar E c.km (.int m) = .ok rm ∧
      setScalar E c.kd (.int d) = .ok rd ∧ s' = ⟨ry.st, rm.st, rd.st⟩ ∧ ret = some true := by
  rcases hx with hx' | ⟨hh, mi, sec, us, hx'⟩ <;>
    · simp only [DateState.step, DateState.toElem, DateCfg.schema, Flatland.C04.setElem, hx', Flatland.C04.Proofs.scalarSetTrace_eq] at hstep
      cases hy : setScalar E c.ky (.int y) with
      | error e => cases hm : setScalar E c.km (.int m) <;> cases hd : setScalar E c.kd (.int d) <;> simp [hy, hm, hd] at hstep
      | ok ry =>
        cases hm : setScalar E c.km (.int m) with
        | error e => cases hd : setScalar E c.kd (.int d) <;> simp [hy, hm, hd] at hstep
        | ok rm =>
          cases hd : setScalar E c.kd (.int d) with
          | error e => simp [hy, hm, hd] at hstep
          | ok rd =>
            simp [hy, hm, hd, DateState.ofElem] at hstep
            exact ⟨ry, rm, rd, rfl, rfl, rfl, hstep.1.symm, hstep.2.symm⟩

/-- **date_step_refines_explodeAll** — the whole-element `set()` of the DateYYYYMMDD model IS the
    table loop `explodeAll` over the members' own `set` tables (so `explode_every_member_set`
    speaks about the model the correspondence compares with the code) -/
theorem date_step_refines_explodeAll (E : Env) (c : DateCfg) (s s' : DateState) (x : Native) (y m d : Nat)
    (ret : Option Bool)
    (hx : adapt E (.date true) x = .ok (some (.date y m d)) ∨
          ∃ h mi sec us, adapt E (.date true) x = .ok (some (.datetime y m d h mi sec us)))
    (hstep : s.step E c (.set x) = .ok (s', ret)) :
    explodeAll [scalarSet E c.ky, scalarSet E c.km, scalarSet E c.kd] [.int y, .int m, .int d] [s.y, s.m, s.d] =
      .ok [s'.y, s'.m, s'.d] := by
  obtain ⟨ry, rm, rd, hy, hm, hd, rfl, _⟩ := date_explode_all_members E c s s' x y m d ret hx hstep
  simp [explodeAll, scalarSet, hy, hm, hd]

end Flatland.C18.Explode.Proofs
