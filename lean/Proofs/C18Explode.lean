/-
C18 — "setting it with a date or date text sets exactly those members", for member schemas that can
reject a part of the date.  Model: Flatland/C18Explode.lean (member behaviour as a table) and
`DateState.step` of Flatland/C18.lean (whole-element `set()` = the C04 model).
-/
import Flatland.C18Explode
import Flatland.Spec.C18
import Proofs.C04
namespace Flatland.C18.Explode.Proofs
open Flatland.Scalar Flatland.C18 Flatland.C18.Explode

variable {M : Type}

/-- **explode_every_member_set** — for ANY member tables (members may reject, i.e. return False,
    at will), parts and previous member states: when the loop of `explode` completes, every member
    holds what its own `set(part)` leaves, regardless of the flags of the members before it. -/
theorem explode_every_member_set (fs : List (MemberSet M)) (ps : List Native) (olds ms : List M)
    (h : explodeAll fs ps olds = .ok ms) : EveryMemberSet fs ps olds ms := by
  induction fs generalizing ps olds ms with
  | nil =>
    simp only [explodeAll, Except.ok.injEq] at h
    subst h
    exact ⟨rfl, by intro i f p hf; simp at hf⟩
  | cons f fs ih =>
    cases ps with
    | nil =>
      simp only [explodeAll, Except.ok.injEq] at h
      subst h
      exact ⟨rfl, by intro i f' p _ hp; simp at hp⟩
    | cons p ps =>
      cases olds with
      | nil =>
        simp only [explodeAll, Except.ok.injEq] at h
        subst h
        exact ⟨rfl, by intro i f' p' _ _ hi; simp at hi⟩
      | cons o olds =>
        simp only [explodeAll] at h
        cases hfp : f p with
        | error e => simp [hfp] at h
        | ok r =>
          obtain ⟨m, b⟩ := r
          simp only [hfp] at h
          cases hrest : explodeAll fs ps olds with
          | error e => simp [hrest] at h
          | ok ms' =>
            simp only [hrest, Except.ok.injEq] at h
            subst h
            obtain ⟨hlen, hall⟩ := ih ps olds ms' hrest
            refine ⟨by simp [hlen], ?_⟩
            intro i f' p' hf hp hi
            cases i with
            | zero =>
              simp only [List.getElem?_cons_zero, Option.some.injEq] at hf hp
              subst hf; subst hp
              exact ⟨m, b, hfp, rfl⟩
            | succ j =>
              simp only [List.getElem?_cons_succ] at hf hp
              obtain ⟨m', b', h1, h2⟩ := hall j f' p' hf hp (by simpa using hi)
              exact ⟨m', b', h1, by simpa using h2⟩

/-- **explodeShortCircuit_fails** — the loop written as `all(<generator>)` does not satisfy the
    statement: a first member that returns False leaves the second one unset (it keeps its old
    state `0` where its own `set` leaves `2`). -/
theorem explodeShortCircuit_fails :
    ¬ ∀ (fs : List (MemberSet Nat)) (ps : List Native) (olds ms : List Nat),
        explodeShort fs ps olds = .ok ms → EveryMemberSet fs ps olds ms := by
  intro h
  obtain ⟨_, hall⟩ := h [fun _ => .ok (1, false), fun _ => .ok (2, true)] [.none, .none] [0, 0] [1, 0] rfl
  obtain ⟨m, b, h1, h2⟩ := hall 1 (fun _ => .ok (2, true)) .none rfl rfl (by decide)
  simp only [Except.ok.injEq, Prod.mk.injEq] at h1
  obtain ⟨rfl, _⟩ := h1
  simp at h2

/-- the same two members under the loop as written: both are set -/
example : explodeAll [fun _ => .ok (1, false), fun _ => .ok (2, true)] [Native.none, .none] [0, 0] = .ok [1, 2] := rfl

/-- **date_explode_all_members** — DateYYYYMMDD with ANY member kinds (generated Integers, custom
    formats, Enum / Constrained members that reject parts, text members): a completed whole-element
    `set(x)` with a value that denotes the date `y-m-d` (a date, a datetime, or date text) returns
    True and leaves EVERY member in the state of its own `set(part)` — year with `y`, month with
    `m`, day with `d` — whether or not that member (or an earlier one) adapted its part; nothing
    of the previous member states remains. -/
theorem date_explode_all_members (E : Env) (c : DateCfg) (s s' : DateState) (x : Native) (y m d : Nat)
    (ret : Option Bool)
    (hx : adapt E (.date true) x = .ok (some (.date y m d)) ∨
          ∃ h mi sec us, adapt E (.date true) x = .ok (some (.datetime y m d h mi sec us)))
    (hstep : s.step E c (.set x) = .ok (s', ret)) :
    ∃ ry rm rd, setScalar E c.ky (.int y) = .ok ry ∧ setScalar E c.km (.int m) = .ok rm ∧
      setScalar E c.kd (.int d) = .ok rd ∧ s' = ⟨ry.st, rm.st, rd.st⟩ ∧ ret = some true := by
  rcases hx with hx' | ⟨hh, mi, sec, us, hx'⟩ <;>
    · simp only [DateState.step, DateState.toElem, DateCfg.schema, Flatland.C04.setElem, hx', Flatland.C04.Proofs.scalarSetTrace_eq] at hstep
      cases hy : setScalar E c.ky (.int y) with
      | error e => cases hm : setScalar E c.km (.int m) <;> cases hd : setScalar E c.kd (.int d) <;> simp [hy, hm, hd] at hstep
      | ok ry =>
        cases hm : setScalar E c.km (.int m) with
        | error e => cases hd : setScalar E c.kd (.int d) <;> simp [hy, hm, hd] at hstep
        | ok rm =>
          cases hd : setScalar E c.kd (.int d) with
          | error e => simp [hy, hm, hd] at hstep
          | ok rd =>
            simp [hy, hm, hd, DateState.ofElem] at hstep
            exact ⟨ry, rm, rd, rfl, rfl, rfl, hstep.1.symm, hstep.2.symm⟩

/-- **date_step_refines_explodeAll** — the whole-element `set()` of the DateYYYYMMDD model IS the
    table loop `explodeAll` over the members' own `set` tables (so `explode_every_member_set`
    speaks about the model the correspondence compares with the code) -/
theorem date_step_refines_explodeAll (E : Env) (c : DateCfg) (s s' : DateState) (x : Native) (y m d : Nat)
    (ret : Option Bool)
    (hx : adapt E (.date true) x = .ok (some (.date y m d)) ∨
          ∃ h mi sec us, adapt E (.date true) x = .ok (some (.datetime y m d h mi sec us)))
    (hstep : s.step E c (.set x) = .ok (s', ret)) :
    explodeAll [scalarSet E c.ky, scalarSet E c.km, scalarSet E c.kd] [.int y, .int m, .int d] [s.y, s.m, s.d] =
      .ok [s'.y, s'.m, s'.d] := by
  obtain ⟨ry, rm, rd, hy, hm, hd, rfl, _⟩ := date_explode_all_members E c s s' x y m d ret hx hstep
  simp [explodeAll, scalarSet, hy, hm, hd]

/-! ## members that raise (n3) -/

theorem loopX_length (fs : List (MemberSetX M)) (ps : List Native) (olds : List M) :
    (loopX fs ps olds).1.length = olds.length := by
  induction fs generalizing ps olds with
  | nil => simp [loopX]
  | cons f fs ih =>
    cases ps with
    | nil => simp [loopX]
    | cons p ps =>
      cases olds with
      | nil => simp [loopX]
      | cons o olds =>
        simp only [loopX]
        cases hfp : f p with
        | error e => simp
        | ok r => obtain ⟨m, b⟩ := r; simp [ih ps olds]

/-- **loopX_spec** — the member loop with members that may RAISE: the loop sets a PREFIX.  There is a `k` such
    that members `0 … k-1` hold what their own `set(part)` leaves, members `k …` are untouched, and either the
    loop completed (`k` = number of zipped triples) or member `k`'s own `set(part k)` raised exactly the
    exception that ended the loop. -/
theorem loopX_spec (fs : List (MemberSetX M)) (ps : List Native) (olds : List M) :
    ∃ k, SetUpTo fs ps olds (loopX fs ps olds).1 k ∧
      match (loopX fs ps olds).2 with
      | none => k = min (min fs.length ps.length) olds.length
      | some e => ∃ f p, fs[k]? = some f ∧ ps[k]? = some p ∧ k < olds.length ∧ f p = .error e := by
  induction fs generalizing ps olds with
  | nil => exact ⟨0, ⟨by simp [loopX], by intro i hi; omega, by intro i _; simp [loopX]⟩, by simp [loopX]⟩
  | cons f fs ih =>
    cases ps with
    | nil => exact ⟨0, ⟨by simp [loopX], by intro i hi; omega, by intro i _; simp [loopX]⟩, by simp [loopX]⟩
    | cons p ps =>
      cases olds with
      | nil => exact ⟨0, ⟨by simp [loopX], by intro i hi; omega, by intro i _; simp [loopX]⟩, by simp [loopX]⟩
      | cons o olds =>
        cases hfp : f p with
        | error e =>
          refine ⟨0, ⟨by simp [loopX, hfp], by intro i hi; omega, by intro i _; simp [loopX, hfp]⟩, ?_⟩
          simp only [loopX, hfp]
          exact ⟨f, p, rfl, rfl, by simp, hfp⟩
        | ok r =>
          obtain ⟨m, b⟩ := r
          obtain ⟨k, ⟨hlen, hset, hrest⟩, hend⟩ := ih ps olds
          refine ⟨k + 1, ⟨by simp [loopX, hfp, hlen], ?_, ?_⟩, ?_⟩
          · intro i hi
            cases i with
            | zero => exact ⟨f, p, m, b, rfl, rfl, hfp, by simp [loopX, hfp]⟩
            | succ j =>
              obtain ⟨f', p', m', b', h1, h2, h3, h4⟩ := hset j (by omega)
              exact ⟨f', p', m', b', by simpa using h1, by simpa using h2, h3, by simpa [loopX, hfp] using h4⟩
          · intro i hi
            cases i with
            | zero => omega
            | succ j => simpa [loopX, hfp] using hrest j (by omega)
          · simp only [loopX, hfp]
            cases hr : (loopX fs ps olds).2 with
            | none => simp only [hr] at hend; simp only [List.length_cons]; omega
            | some e =>
              simp only [hr] at hend
              obtain ⟨f', p', h1, h2, h3, h4⟩ := hend
              exact ⟨f', p', by simpa using h1, by simpa using h2, by simpa using h3, h4⟩

/-- **compound_set_swallows** — `Compound.set` around `explode`: it returns True exactly when nothing was
    raised, False when a member raised (members as the loops left them — never an exception of a member
    leaving `set()`), and the number of members never changes. -/
theorem compound_set_swallows (fs : List (MemberSetX M)) (parts : Option (List Native)) (olds ms : List M) (flag : Bool)
    (h : compoundSetX fs parts olds = .ok (ms, flag)) :
    ms = (explodeX fs parts olds).1 ∧ ms.length = olds.length ∧
    (flag = true ↔ (explodeX fs parts olds).2 = none) := by
  have hlen : (explodeX fs parts olds).1.length = olds.length := by
    unfold explodeX
    cases parts with
    | none => simp [loopX_length]
    | some ps =>
      simp only
      split
      · rw [loopX_length, loopX_length]
      · exact loopX_length ..
  unfold compoundSetX at h
  cases he : (explodeX fs parts olds).2 with
  | none =>
    simp only [he, Except.ok.injEq, Prod.mk.injEq] at h
    exact ⟨h.1.symm, h.1 ▸ hlen, by simp [h.2.symm]⟩
  | some e =>
    cases e with
    | model r => simp [he] at h
    | typeError =>
      simp only [he, Except.ok.injEq, Prod.mk.injEq] at h
      exact ⟨h.1.symm, h.1 ▸ hlen, by simp [h.2.symm]⟩
    | other =>
      simp only [he, Except.ok.injEq, Prod.mk.injEq] at h
      exact ⟨h.1.symm, h.1 ▸ hlen, by simp [h.2.symm]⟩

/-- the role of the `except Exception` of `Compound.set`: without it the same members make `set()` raise -/
theorem noSwallow_fails :
    ∃ (fs : List (MemberSetX Nat)) (parts : Option (List Native)) (olds : List Nat),
      compoundSetX fs parts olds = .ok ([1, 0], false) ∧ compoundSetNoSwallow fs parts olds = .error .other :=
  ⟨[fun _ => .ok (1, true), fun _ => .error .other], some [.none, .none], [0, 0], rfl, rfl⟩

theorem fires_default (v : Native) : ({} : RaiseRule).fires v = none := by
  cases v <;> simp [RaiseRule.fires]

theorem memberSetX_default (E : Env) (k : Kind) (x : Native) :
    memberSetX E k {} x = match setScalar E k x with
      | .ok res => .ok (res.st, res.flag)
      | .error e => .error (.model e) := by
  unfold memberSetX
  cases k with
  | constrained child valid =>
    simp only []
    cases adapt E child x with
    | error e => rfl
    | ok ov => cases ov with
      | none => rfl
      | some v => simp only [fires_default]; rfl
  | _ => rfl


/-- **stepX_noRaise_eq_step** — with members that never raise (no `valid_value` that raises) the model with the
    loops, the fallback and the swallowing `Compound.set` written out IS the step the earlier theorems speak
    about (`DateState.step`, i.e. C04's `setElem` for the whole-element `set`), for whole-element and member `set`
    (`set_flat` of raising members: compared at run time only). -/
theorem stepX_noRaise_eq_step (E : Env) (c : DateCfg) (s : DateState) (op : DateOp) (hop : ∀ ps, op ≠ .setFlat ps) :
    s.stepX E { toDateCfg := c } op = s.step E c op := by
  cases op with
  | set x =>
    simp only [DateState.stepX, DateState.step, DateState.toElem, DateCfg.schema, Flatland.C04.setElem,
      Flatland.C04.Proofs.scalarSetTrace_eq, DateCfgX.tables, memberSetX_default]
    cases hx : adapt E (.date true) x with
    | error r => rfl
    | ok ov =>
      cases ov with
      | none =>
        simp only [compoundSetX, explodeX, loopX, List.map, memberSetX_default]
        cases hy : setScalar E c.ky .none <;> cases hm : setScalar E c.km .none <;> cases hd : setScalar E c.kd .none <;>
          simp [ofList3, DateState.ofElem, hy, hm, hd]
      | some v =>
        cases v with
        | none => rfl
        | date y m d =>
          simp only [compoundSetX, explodeX, loopX, List.map, memberSetX_default]
          cases hy : setScalar E c.ky (.int y) <;> cases hm : setScalar E c.km (.int m) <;> cases hd : setScalar E c.kd (.int d) <;>
            simp [ofList3, DateState.ofElem, hy, hm, hd]
        | datetime y m d h mi sec us =>
          simp only [compoundSetX, explodeX, loopX, List.map, memberSetX_default]
          cases hy : setScalar E c.ky (.int y) <;> cases hm : setScalar E c.km (.int m) <;> cases hd : setScalar E c.kd (.int d) <;>
            simp [ofList3, DateState.ofElem, hy, hm, hd]
        | _ =>
          simp only [compoundSetX, explodeX, loopX, List.map, memberSetX_default]
          cases hy : setScalar E c.ky .none <;> cases hm : setScalar E c.km .none <;> cases hd : setScalar E c.kd .none <;>
            simp [ofList3, DateState.ofElem, hy, hm, hd]
  | member i x =>
    simp only [DateState.stepX, DateState.step, ite_self, memberSetX_default]
    cases setScalar E (if i = 0 then c.ky else if i = 1 then c.km else c.kd) x <;> simp [merr]
  | setFlat pairs => exact absurd rfl (hop pairs)

end Flatland.C18.Explode.Proofs
