/-
C09 — failure paths: a rejected list-protocol call of the model leaves the sequence as it was (members, slot
names, parents) — the counterpart of a Python list being unchanged after IndexError / TypeError / ValueError.
Strengthens `positional_step` (which only says that the slot names stay positional) on the rejection routes.
A sort is on no rejection route: see the header of Proofs/C08Rejected.lean and Proofs/C09SortFailure.lean.
-/
import Proofs.C09All
import Proofs.C08Rejected
namespace Flatland.C09.Proofs
open Flatland.Tree Flatland.PyList Flatland.C08.Proofs

/-- a rejected list-protocol call: the members (and with them `.value`, length, iteration, slot names) are what
    they were.  `seqAtomic` contains NO sort (round m1): a Python list whose `sort(key=…)` fails inside a comparison is
    NOT unchanged — it is left in some rearrangement of its items — and the model's keyed sort never raises (it sorts
    or answers `.unsupported`: `keyed_sort_only_refuses`), so there is nothing to state here; the rearranged-then-
    renumbered outcome is `Proofs/C09SortFailure.lean`.  With `e = .unsupported` the statement is the model handing
    back its input when it declines a path, not a claim about the code. -/
theorem rejected_call_keeps_members (n : Node) (op : SeqOp) (next : Nat) (e : Exc)
    (hat : seqAtomic n op = true) (h : (seqStep n op next).out = .exc e) :
    members (seqStep n op next).node = members n ∧ (seqStep n op next).node.kids = n.kids := by
  rw [(rejected_seq_unchanged n op next e hat h).1]; exact ⟨rfl, rfl⟩

end Flatland.C09.Proofs
