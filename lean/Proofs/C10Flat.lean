/-
C10 on the flat route (`set_flat` / `from_flat`), over the shared flat model `Flatland/Flat.lean`.

`setFlat_inv` : for a Dict / SparseDict / Compound schema with distinct field names, `set_flat` with ANY pair
list, started on ANY element satisfying the mapping invariant `FlatInv`, yields an element satisfying it: keys
declared and pairwise distinct, exactly the declared names for a Dict / Compound, the required ones present for
a 'required' SparseDict, every member of the shape its field's class builds.  `blank_inv` : `cls()` satisfies it.
`fromFlat_keys_declared`, `fromFlat_keys_nodup`, `fromFlat_required_present`, `fromFlat_keys_exact` : the clauses
for `from_flat(pairs)`.  The pairs are arbitrary: keys that address nothing, keys that merely share a prefix with
a field name (`startswith`), `None` keys handed down by a list.
-/
import Flatland.C10Flat
namespace Flatland.C10.Flat
open Flatland.Flat

theorem lookup_some {k : Str} {ms : List (Str × Elem)} {c : Elem} (h : lookup k ms = some c) : (k, c) ∈ ms := by
  induction ms with
  | nil => cases h
  | cons p rest ih =>
    obtain ⟨k', x⟩ := p
    simp only [lookup] at h
    split at h
    · rename_i hk; cases h; rw [hk]; simp
    · exact List.mem_cons_of_mem _ (ih h)

theorem lookup_none {k : Str} {ms : List (Str × Elem)} (h : lookup k ms = none) : k ∉ mkeys ms := by
  induction ms with
  | nil => simp [mkeys]
  | cons p rest ih =>
    obtain ⟨k', x⟩ := p
    simp only [lookup] at h
    split at h
    · cases h
    · rename_i hk
      simp only [mkeys, List.map_cons, List.mem_cons, not_or]
      exact ⟨fun e => hk e.symm, ih h⟩

theorem mkeys_replace (k : Str) (e : Elem) (ms : List (Str × Elem)) : mkeys (replace k e ms) = mkeys ms := by
  induction ms with
  | nil => rfl
  | cons p rest ih =>
    obtain ⟨k', x⟩ := p
    simp only [replace]
    split
    · rfl
    · simp only [mkeys, List.map_cons] at ih ⊢; rw [ih]

theorem mem_replace {k : Str} {e : Elem} {ms : List (Str × Elem)} {p : Str × Elem} (h : p ∈ replace k e ms) :
    p ∈ ms ∨ p = (k, e) := by
  induction ms with
  | nil => cases h
  | cons q rest ih =>
    obtain ⟨k', x⟩ := q
    simp only [replace] at h
    split at h
    · rename_i hk
      rcases List.mem_cons.mp h with h1 | h1
      · exact .inr (by rw [h1, hk])
      · exact .inl (List.mem_cons_of_mem _ h1)
    · rcases List.mem_cons.mp h with h1 | h1
      · exact .inl (by rw [h1]; simp)
      · rcases ih h1 with h2 | h2
        · exact .inl (List.mem_cons_of_mem _ h2)
        · exact .inr h2

/-- `cls()` has the shape of its class -/
theorem shape_blank (f : Schema) : shapeOK f (blank f) = true := by
  cases f with
  | dict n o mode fs => cases mode <;> simp [blank, shapeOK]
  | _ => simp [blank, shapeOK]

/-- `set_flat` never changes what kind of element it is called on -/
theorem shape_setFlat (env : Env) (sep : Str) (f : Schema) (e : Elem) (ps : Pairs) (h : shapeOK f e = true) :
    shapeOK f (setFlat env sep f e ps) = true := by
  cases f with
  | leaf n o k => rw [setFlat]; split <;> first | rfl | exact h
  | dict n o mode fs => rw [setFlat]; split <;> first | rfl | exact h
  | compound n o k fs => rw [setFlat]; split <;> first | rfl | exact h
  | list n o p mx m =>
    rw [setFlat]
    split
    · rfl
    · dsimp only
      split
      · rfl
      · split <;> rfl
  | array n o p m => rw [setFlat]; split <;> rfl
  | joined n o k m => rw [setFlat]; split <;> first | rfl | exact h

theorem fname_unique {fields : List Schema} (hn : (declared fields).Nodup) {f g : Schema} (hf : f ∈ fields)
    (hg : g ∈ fields) (h : fname f = fname g) : f = g := by
  induction fields with
  | nil => cases hf
  | cons x xs ih =>
    simp only [declared, List.map_cons, List.nodup_cons, List.mem_map, not_exists, not_and] at hn
    rcases List.mem_cons.mp hf with hf | hf <;> rcases List.mem_cons.mp hg with hg | hg
    · rw [hf, hg]
    · exact absurd (hf ▸ h).symm (hn.1 g hg)
    · exact absurd (hg ▸ h) (hn.1 f hf)
    · exact ih hn.2 hf hg

theorem nodup_snoc' {α : Type} {l : List α} {a : α} (h : l.Nodup) (ha : a ∉ l) : (l ++ [a]).Nodup := by
  induction l with
  | nil => simp
  | cons x xs ih =>
    rw [List.nodup_cons] at h
    have hax : a ≠ x := fun hx => ha (by simp [hx])
    have haxs : a ∉ xs := fun hx => ha (by simp [hx])
    rw [List.cons_append, List.nodup_cons]
    refine ⟨?_, ih h.2 haxs⟩
    intro hm
    rcases List.mem_append.mp hm with hm | hm
    · exact h.1 hm
    · simp only [List.mem_singleton] at hm; exact hax hm.symm

/-- one turn of the `for schema in self.field_schema` loop keeps the invariant -/
theorem turn_inv (env : Env) (sep : Str) {d r : Bool} {fields : List Schema} (hn : (declared fields).Nodup)
    {f : Schema} (hf : f ∈ fields) {ms : List (Str × Elem)} (h : FlatInv d r fields ms) (accum : List (Str × Str)) :
    FlatInv d r fields
      (if accum.isEmpty then ms
       else match lookup (f.name.getD []) ms with
         | some child => replace (f.name.getD []) (setFlat env sep f child (wrap accum)) ms
         | none => ms ++ [(f.name.getD [], setFlat env sep f (blank f) (wrap accum))]) := by
  split
  · exact h
  · cases hl : lookup (f.name.getD []) ms with
    | some child =>
      have hmem := lookup_some hl
      have hk := mkeys_replace (f.name.getD []) (setFlat env sep f child (wrap accum)) ms
      refine ⟨by rw [hk]; exact h.declared, by rw [hk]; exact h.nodup, fun hd => by rw [hk]; exact h.exact hd,
        fun hr g hg ho => by rw [hk]; exact h.required hr g hg ho, ?_⟩
      intro p hp
      rcases mem_replace hp with h1 | h1
      · exact h.typed p h1
      · obtain ⟨g, hg, hgn, hgs⟩ := h.typed _ hmem
        have : g = f := fname_unique hn hg hf hgn
        subst this
        exact ⟨g, hg, by rw [h1]; rfl, by rw [h1]; exact shape_setFlat env sep g child _ hgs⟩
    | none =>
      have hnot := lookup_none hl
      have hfd : fname f ∈ declared fields := List.mem_map_of_mem hf
      refine ⟨?_, ?_, ?_, ?_, ?_⟩
      · intro k hk
        simp only [mkeys, List.map_append, List.mem_append, List.map_cons, List.map_nil, List.mem_singleton] at hk
        rcases hk with hk | hk
        · exact h.declared k hk
        · rw [hk]; exact hfd
      · simp only [mkeys, List.map_append, List.map_cons, List.map_nil]
        exact nodup_snoc' h.nodup hnot
      · intro hd
        exact absurd (by rw [h.exact hd]; exact hfd) hnot
      · intro hr g hg ho
        simp only [mkeys, List.map_append, List.mem_append]
        exact .inl (h.required hr g hg ho)
      · intro p hp
        rcases List.mem_append.mp hp with h1 | h1
        · exact h.typed p h1
        · simp only [List.mem_singleton] at h1
          exact ⟨f, hf, by rw [h1]; rfl, by rw [h1]; exact shape_setFlat env sep f _ _ (shape_blank f)⟩

/-- the whole loop -/
theorem setFields_inv (env : Env) (sep : Str) {d r : Bool} {fields : List Schema} (hn : (declared fields).Nodup)
    (poss : List (Str × Str)) :
    ∀ (fs : List Schema) (ms : List (Str × Elem)), (∀ f ∈ fs, f ∈ fields) → FlatInv d r fields ms →
      FlatInv d r fields (setFields env sep fs ms poss) := by
  intro fs
  induction fs with
  | nil => intro ms _ h; rw [setFields]; exact h
  | cons f fs ih =>
    intro ms hsub h
    rw [setFields]
    exact ih _ (fun g hg => hsub g (by simp [hg])) (turn_inv env sep hn (hsub f (by simp)) h _)

/-- **setFlat_inv (Dict / SparseDict).**  `set_flat(pairs)` with any pair list keeps the mapping invariant. -/
theorem setFlat_inv (env : Env) (sep : Str) (name : Option Str) (o : Bool) (mode : DictMode) (fields : List Schema)
    (hn : (declared fields).Nodup) (ms : List (Str × Elem)) (h : FlatInv (isDense mode) (isReq mode) fields ms)
    (ps : Pairs) :
    ∃ ms', setFlat env sep (.dict name o mode fields) (.dict ms) ps = .dict ms' ∧
      FlatInv (isDense mode) (isReq mode) fields ms' := by
  rw [setFlat]
  split
  · exact ⟨ms, rfl, h⟩
  · exact ⟨_, rfl, setFields_inv env sep hn _ fields ms (fun f hf => hf) h⟩

/-- **setFlat_inv_compound.**  The same for a Compound (`Compound._set_flat` is `Mapping._set_flat`). -/
theorem setFlat_inv_compound (env : Env) (sep : Str) (name : Option Str) (o : Bool) (k : Nat) (fields : List Schema)
    (hn : (declared fields).Nodup) (ms : List (Str × Elem)) (h : FlatInv true false fields ms) (ps : Pairs) :
    ∃ ms', setFlat env sep (.compound name o k fields) (.dict ms) ps = .dict ms' ∧ FlatInv true false fields ms' := by
  rw [setFlat]
  split
  · exact ⟨ms, rfl, h⟩
  · exact ⟨_, rfl, setFields_inv env sep hn _ fields ms (fun f hf => hf) h⟩

/-! ### `cls()` -/

theorem blankFields_facts (fields all : List Schema) (hsub : ∀ f ∈ fields, f ∈ all) :
    mkeys (blankFields fields) = declared fields ∧
    ∀ p ∈ blankFields fields, ∃ f ∈ all, fname f = p.1 ∧ shapeOK f p.2 = true := by
  induction fields with
  | nil => simp [blankFields, mkeys, declared]
  | cons f fs ih =>
    have := ih (fun g hg => hsub g (by simp [hg]))
    rw [blankFields]
    refine ⟨by simp only [mkeys, declared, List.map_cons] at this ⊢; rw [this.1]; rfl, ?_⟩
    intro p hp
    rcases List.mem_cons.mp hp with h1 | h1
    · exact ⟨f, hsub f (by simp), by rw [h1]; rfl, by rw [h1]; exact shape_blank f⟩
    · exact this.2 p h1

theorem blankRequired_facts (fields all : List Schema) (hsub : ∀ f ∈ fields, f ∈ all) :
    mkeys (blankRequired fields) = declared (fields.filter (fun f => !f.opt)) ∧
    ∀ p ∈ blankRequired fields, ∃ f ∈ all, fname f = p.1 ∧ shapeOK f p.2 = true := by
  induction fields with
  | nil => simp [blankRequired, mkeys, declared]
  | cons f fs ih =>
    have := ih (fun g hg => hsub g (by simp [hg]))
    rw [blankRequired]
    cases ho : f.opt
    · simp only [Bool.false_eq_true, if_false, List.filter_cons, ho, Bool.not_false, if_true]
      refine ⟨by simp only [mkeys, declared, List.map_cons] at this ⊢; rw [this.1]; rfl, ?_⟩
      intro p hp
      rcases List.mem_cons.mp hp with h1 | h1
      · exact ⟨f, hsub f (by simp), by rw [h1]; rfl, by rw [h1]; exact shape_blank f⟩
      · exact this.2 p h1
    · simp only [if_true, List.filter_cons, ho, Bool.not_true, Bool.false_eq_true, if_false]
      exact this

/-- **blank_inv.**  A freshly constructed Dict / SparseDict satisfies the invariant. -/
theorem blank_inv (name : Option Str) (o : Bool) (mode : DictMode) (fields : List Schema) (hn : (declared fields).Nodup) :
    ∃ ms, blank (.dict name o mode fields) = .dict ms ∧ FlatInv (isDense mode) (isReq mode) fields ms := by
  cases mode with
  | dense =>
    have := blankFields_facts fields fields (fun f hf => hf)
    exact ⟨_, by rw [blank], fun k hk => by rw [this.1] at hk; exact hk, by rw [this.1]; exact hn,
      fun _ => this.1, (fun hr => by cases hr), this.2⟩
  | sparse =>
    exact ⟨[], by rw [blank], (by simp [mkeys]), (by simp [mkeys]), (fun hd => by cases hd), (fun hr => by cases hr), (by simp)⟩
  | sparseReq =>
    have := blankRequired_facts fields fields (fun f hf => hf)
    refine ⟨_, by rw [blank], ?_, ?_, (fun hd => by cases hd), ?_, this.2⟩
    · intro k hk
      rw [this.1] at hk
      obtain ⟨f, hf, rfl⟩ := List.mem_map.mp hk
      exact List.mem_map_of_mem (List.mem_filter.mp hf).1
    · rw [this.1]
      exact List.Nodup.sublist (List.Sublist.map _ List.filter_sublist) hn
    · intro _ f hf ho
      rw [this.1]
      exact List.mem_map_of_mem (List.mem_filter.mpr ⟨hf, by simp [ho]⟩)

/-- **fromFlat_inv.**  `cls.from_flat(pairs)` for any pair list. -/
theorem fromFlat_inv (env : Env) (sep : Str) (name : Option Str) (o : Bool) (mode : DictMode) (fields : List Schema)
    (hn : (declared fields).Nodup) (ps : List (Str × Str)) :
    ∃ ms, fromFlat env sep (.dict name o mode fields) ps = .dict ms ∧ FlatInv (isDense mode) (isReq mode) fields ms := by
  obtain ⟨ms0, hb, h0⟩ := blank_inv name o mode fields hn
  unfold fromFlat
  rw [hb]
  exact setFlat_inv env sep name o mode fields hn ms0 h0 _

theorem fromFlat_keys_declared (env : Env) (sep : Str) (name : Option Str) (o : Bool) (mode : DictMode)
    (fields : List Schema) (hn : (declared fields).Nodup) (ps : List (Str × Str)) :
    ∀ k ∈ mkeys (membersOf (fromFlat env sep (.dict name o mode fields) ps)), k ∈ declared fields := by
  obtain ⟨ms, he, h⟩ := fromFlat_inv env sep name o mode fields hn ps
  rw [he]; exact h.declared

theorem fromFlat_keys_nodup (env : Env) (sep : Str) (name : Option Str) (o : Bool) (mode : DictMode)
    (fields : List Schema) (hn : (declared fields).Nodup) (ps : List (Str × Str)) :
    (mkeys (membersOf (fromFlat env sep (.dict name o mode fields) ps))).Nodup := by
  obtain ⟨ms, he, h⟩ := fromFlat_inv env sep name o mode fields hn ps
  rw [he]; exact h.nodup

theorem fromFlat_required_present (env : Env) (sep : Str) (name : Option Str) (o : Bool)
    (fields : List Schema) (hn : (declared fields).Nodup) (ps : List (Str × Str)) :
    ∀ f ∈ fields, f.opt = false → fname f ∈ mkeys (membersOf (fromFlat env sep (.dict name o .sparseReq fields) ps)) := by
  obtain ⟨ms, he, h⟩ := fromFlat_inv env sep name o .sparseReq fields hn ps
  rw [he]; exact h.required rfl

theorem fromFlat_keys_exact (env : Env) (sep : Str) (name : Option Str) (o : Bool)
    (fields : List Schema) (hn : (declared fields).Nodup) (ps : List (Str × Str)) :
    mkeys (membersOf (fromFlat env sep (.dict name o .dense fields) ps)) = declared fields := by
  obtain ⟨ms, he, h⟩ := fromFlat_inv env sep name o .dense fields hn ps
  rw [he]; exact h.exact rfl

/-! ### non-vacuity -/

def exEnv : Env := { norm := fun _ t => t, compose := fun _ _ => [], joinedMembers := fun _ _ => [], ndZeros := [48], maxDigits := 4300 }
def exFields : List Schema := [.leaf (some ['a']) false 0, .leaf (some ['a', 'b']) true 0]

/-- `SparseDict.of(a, ab).using(minimum_fields='required').named('m').from_flat([('m_abz','1'), ('m_zz','2'), ('q_a','3')])`:
    'abz' starts with both field names — both members are materialised; 'zz' and 'q_a' add nothing -/
example : mkeys (membersOf (fromFlat exEnv ['_'] (.dict (some ['m']) false .sparseReq exFields)
    [(['m', '_', 'a', 'b', 'z'], ['1']), (['m', '_', 'z', 'z'], ['2']), (['q', '_', 'a'], ['3'])])) = [['a'], ['a', 'b']] := by
  decide

example : (mkeys (membersOf (fromFlat exEnv ['_'] (.dict (some ['m']) false .sparseReq exFields)
    [(['m', '_', 'a', 'b', 'z'], ['1']), (['m', '_', 'z', 'z'], ['2'])]))).Nodup :=
  fromFlat_keys_nodup exEnv ['_'] _ _ _ exFields (by decide) _

end Flatland.C10.Flat
