/-
C08 — identity accounting for the constructors and element-level mutators of the model:
`schema(parent=…)`, `element.set(raw)`, `schema(value)`, `from_defaults`, `set_default`.

`LS next old next' new`: a step that turns the subtrees `old` into `new` while the identity
counter moves from `next` to `next'` never hands an identity out twice, keeps keys unique, and
every identity occurs in `new` at most as often as in `old`, plus once if the step allocated it.
-/
import Proofs.Lemmas.C08Ids
import Proofs.Lemmas.TreeHdr
import Proofs.C09
import Proofs.C10
namespace Flatland.C08.Proofs
open Flatland.Tree Flatland.PyList Flatland.C08 Flatland.C08.Spec
open Flatland.C10.Proofs (findKid_some findKid_none fieldFor_some blankFields_ok keep replaceKid_keys hdr_parts hdr_eq_parts)

structure LS (next : Nat) (old : List Node) (next' : Nat) (new : List Node) : Prop where
  hle : next ≤ next'
  hkok : kokL new = true
  hcnt : ∀ a, cntL a new ≤ cntL a old + ind next next' a

theorem LS.refl (next : Nat) {l : List Node} (h : kokL l = true) : LS next l next l :=
  ⟨Nat.le_refl _, h, fun a => by rw [ind_self]; omega⟩

theorem LS.trans {a b c : Nat} {l0 l1 l2 : List Node} (h1 : LS a l0 b l1) (h2 : LS b l1 c l2) : LS a l0 c l2 :=
  ⟨Nat.le_trans h1.hle h2.hle, h2.hkok, fun x => by
    have := h1.hcnt x; have := h2.hcnt x; have := ind_add x h1.hle h2.hle; omega⟩

theorem LS.append {a b c : Nat} {l0 l1 m0 m1 : List Node} (h1 : LS a l0 b l1) (h2 : LS b m0 c m1) :
    LS a (l0 ++ m0) c (l1 ++ m1) :=
  ⟨Nat.le_trans h1.hle h2.hle, kokL_append.mpr ⟨h1.hkok, h2.hkok⟩, fun x => by
    have := h1.hcnt x; have := h2.hcnt x; have := ind_add x h1.hle h2.hle
    simp only [cntL_append]; omega⟩

theorem LS.cons {a b c : Nat} {k0 k1 : Node} {m0 m1 : List Node} (h1 : LS a [k0] b [k1]) (h2 : LS b m0 c m1) :
    LS a (k0 :: m0) c (k1 :: m1) := h1.append h2

/-- a freshly built node followed by a step on the rest -/
theorem LS.consNew {a b c : Nat} {k1 : Node} {m0 m1 : List Node} (h1 : LS a [] b [k1]) (h2 : LS b m0 c m1) :
    LS a m0 c (k1 :: m1) := by
  have := h1.append h2; simpa using this

theorem LS.snocNew {a b c : Nat} {k1 : Node} {m0 m1 : List Node} (h1 : LS a m0 b m1) (h2 : LS b [] c [k1]) :
    LS a m0 c (m1 ++ [k1]) := by
  have := h1.append h2; simpa using this

theorem LS.mono {a b c : Nat} {l0 l1 : List Node} (h : LS a l0 b l1) (hbc : b ≤ c) : LS a l0 c l1 :=
  ⟨Nat.le_trans h.hle hbc, h.hkok, fun x => by
    have := h.hcnt x; have := ind_mono x (Nat.le_refl a) hbc; omega⟩

theorem LS.mono_left {a a' b : Nat} {l1 : List Node} (h : LS a [] b l1) (haa : a' ≤ a) : LS a' [] b l1 :=
  ⟨Nat.le_trans haa h.hle, h.hkok, fun x => by
    have := h.hcnt x; have := ind_mono x haa (Nat.le_refl b); omega⟩

/-- dropping what was there costs nothing -/
theorem LS.forget {a b : Nat} {l0 l1 : List Node} (h : LS a [] b l1) : LS a l0 b l1 :=
  ⟨h.hle, h.hkok, fun x => by have := h.hcnt x; simp only [cntL_nil] at this; omega⟩

theorem LS.of_le {a b : Nat} {l0 l0' l1 : List Node} (h : LS a l0 b l1) (hc : ∀ x, cntL x l0 ≤ cntL x l0') :
    LS a l0' b l1 :=
  ⟨h.hle, h.hkok, fun x => by have := h.hcnt x; have := hc x; omega⟩

theorem LS.nil (next : Nat) (l : List Node) : LS next l next [] :=
  ⟨Nat.le_refl _, rfl, fun a => by simp⟩

/-- wrap a step on the children into a step on the node -/
theorem LS.node {next next' : Nat} {kids kids' : List Node} (i : NInfo) (s : Schema)
    (hs : swf s = true) (hkeys : isMap s.kind = true → (kids'.map Node.key).Nodup)
    (h : LS next kids next' kids') : LS next [.mk i s kids] next' [.mk i s kids'] :=
  ⟨h.hle, by
    rw [kokL, kokL, Bool.and_true, kok_iff]
    exact ⟨hs, hkeys, (kokL_iff _).mp h.hkok⟩,
   fun a => by
    have := h.hcnt a
    simp only [cntL_singleton, cnt_mk]; omega⟩

/-- a new node with identity `next` over children built from `next + 1` on -/
theorem LS.newNode {next next' : Nat} {kids' : List Node} (i : NInfo) (hi : i.id = next) (s : Schema)
    (hs : swf s = true) (hkeys : isMap s.kind = true → (kids'.map Node.key).Nodup)
    (h : LS (next + 1) [] next' kids') : LS next [] next' [.mk i s kids'] :=
  ⟨by have := h.hle; omega, by
    rw [kokL, kokL, Bool.and_true, kok_iff]
    exact ⟨hs, hkeys, (kokL_iff _).mp h.hkok⟩,
   fun a => by
    have := h.hcnt a
    have h1 := own_eq_ind a next
    have h2 := ind_add a (Nat.le_add_right next 1) h.hle
    simp only [cntL_singleton, cnt_mk, cntL_nil, hi] at this ⊢; omega⟩

theorem kok_single {n : Node} : kokL [n] = true ↔ kok n = true := by simp [kokL]

theorem swf_subs {s : Schema} (h : swf s = true) : ∀ f ∈ s.subs, swf f = true := ((swf_iff s).mp h).2
theorem swf_member {s m : Schema} (h : swf s = true) (hm : s.member = some m) : swf m = true := by
  unfold Schema.member at hm
  exact swf_subs h m (List.mem_of_mem_head? hm)

theorem nodup_filter_keys {subs : List Schema} (h : (subs.map Schema.key).Nodup) (p : Schema → Bool) :
    ((subs.filter p).map Schema.key).Nodup :=
  List.Nodup.sublist (List.Sublist.map _ List.filter_sublist) h

theorem blankFields_keys (subs : List Schema) (pid : Nat) (b : Bool) (next : Nat) :
    (blankFields subs pid b next).1.map Node.key = (subs.filter (keep b)).map Schema.key :=
  (blankFields_ok subs subs pid b next (fun _ h => h)).2

/-! ### `schema(parent=…)` -/

mutual
theorem blank_ls : ∀ (s : Schema) (parent : Option Nat) (key : Str) (next : Nat), swf s = true →
    LS next [] (blank s parent key next).2 [(blank s parent key next).1]
  | .mk info dflt subs, parent, key, next, hs => by
    have hsub : swfL subs = true := (swfL_iff _).mpr (swf_subs hs)
    have hkeys : ∀ b nx, isMap (Schema.mk info dflt subs).kind = true →
        ((blankFields subs next b nx).1.map Node.key).Nodup := by
      intro b nx hm
      rw [blankFields_keys]
      exact nodup_filter_keys (((swf_iff _).mp hs).1 hm) _
    have hleaf : LS next [] (next + 1) [Node.mk { id := next, parent := parent, key := key } (.mk info dflt subs) []] :=
      LS.newNode (next := next) _ rfl _ hs (fun _ => by simp) (LS.nil _ _)
    rw [blank]
    split
    · exact LS.newNode (next := next) _ rfl _ hs (hkeys _ _) (blankFields_ls subs next false (next + 1) hsub)
    · split
      · exact LS.newNode (next := next) _ rfl _ hs (hkeys _ _) (blankFields_ls subs next true (next + 1) hsub)
      · exact hleaf
    · exact hleaf
theorem blankFields_ls : ∀ (subs : List Schema) (pid : Nat) (b : Bool) (next : Nat), swfL subs = true →
    LS next [] (blankFields subs pid b next).2 (blankFields subs pid b next).1
  | [], _, _, next, _ => by rw [blankFields]; exact LS.nil _ _
  | f :: fs, pid, b, next, hs => by
    rw [swfL, Bool.and_eq_true] at hs
    rw [blankFields]
    split
    · exact blankFields_ls fs pid b next hs.2
    · exact LS.consNew (blank_ls f (some pid) f.key next hs.1) (blankFields_ls fs pid b _ hs.2)
end

/-! ### `element.set(raw)` -/

theorem LS.rehead {next next' : Nat} {kids kids' : List Node} {i i' : NInfo} {s : Schema} (hi : i'.id = i.id)
    (hk : kok (.mk i s kids) = true) (hkeys : isMap s.kind = true → (kids'.map Node.key).Nodup)
    (h : LS next kids next' kids') : LS next [.mk i s kids] next' [.mk i' s kids'] :=
  ⟨h.hle, by
    rw [kokL, kokL, Bool.and_true, kok_iff]
    exact ⟨((kok_iff _).mp hk).1, hkeys, (kokL_iff _).mp h.hkok⟩,
   fun a => by
    have := h.hcnt a
    simp only [cntL_singleton, cnt_mk, hi]; omega⟩

theorem kok_kids {i : NInfo} {s : Schema} {kids : List Node} (h : kok (.mk i s kids) = true) : kokL kids = true :=
  (kokL_iff _).mpr ((kok_iff _).mp h).2.2

theorem kok_keys {i : NInfo} {s : Schema} {kids : List Node} (h : kok (.mk i s kids) = true) :
    isMap s.kind = true → (kids.map Node.key).Nodup := ((kok_iff _).mp h).2.1

theorem kok_swf {n : Node} (h : kok n = true) : swf n.sch = true := ((kok_iff _).mp h).1

/-- same identity and class, children kept -/
theorem LS.same {next : Nat} {kids : List Node} {i i' : NInfo} {s : Schema} (hi : i'.id = i.id)
    (hk : kok (.mk i s kids) = true) : LS next [.mk i s kids] next [.mk i' s kids] :=
  LS.rehead hi hk (kok_keys hk) (LS.refl _ (kok_kids hk))

theorem LS.frame {a b : Nat} {k : Node} {l0 l1 : List Node} (hk : kok k = true) (h : LS a l0 b l1) :
    LS a (k :: l0) b (k :: l1) := LS.cons (LS.refl a (kok_single.mpr hk)) h

theorem appendEl_sch (n w : Node) (next : Nat) : (appendEl n w next).1.sch = n.sch := by
  unfold appendEl; split <;> (cases n; rfl)

theorem appendEl_ls (n w : Node) (next : Nat) (hn : kok n = true) (hm : isMap n.kind = false) (hw : kok w = true) :
    LS next [n, w] (appendEl n w next).2 [(appendEl n w next).1] := by
  cases n with
  | mk i s kids =>
    have hkeys : ∀ ks : List Node, isMap s.kind = true → (ks.map Node.key).Nodup := by
      intro ks h; rw [show isMap s.kind = false from hm] at h; cases h
    unfold appendEl
    split
    · refine ⟨Nat.le_succ _, ?_, fun a => ?_⟩
      · rw [kok_single, Node.withKids, kok_iff]
        refine ⟨(kok_swf hn :), hkeys _, ?_⟩
        intro k hk
        rcases List.mem_append.mp hk with h | h
        · exact (kokL_iff _).mp (kok_kids hn) k h
        · simp only [List.mem_singleton] at h; rw [h]; exact kok_mkSlot _ _ _ _ hw
      · have := own_eq_ind a next
        simp only [cntL_cons, cntL_nil, cnt_withKids, cnt_mk, cntL_append, cnt_mkSlot, Node.kids, Node.id, Node.ni]
        omega
    · refine ⟨Nat.le_refl _, ?_, fun a => ?_⟩
      · rw [kok_single, Node.withKids, kok_iff]
        refine ⟨(kok_swf hn :), hkeys _, ?_⟩
        intro k hk
        rcases List.mem_append.mp hk with h | h
        · exact (kokL_iff _).mp (kok_kids hn) k h
        · simp only [List.mem_singleton] at h; rw [h, kok_withParent]; exact hw
      · simp only [cntL_cons, cntL_nil, cnt_withKids, cnt_mk, cntL_append, cnt_withParent, Node.kids, Node.id, Node.ni]
        omega

theorem appendEl_kind (n w : Node) (next : Nat) : (appendEl n w next).1.kind = n.kind := by
  unfold Node.kind; rw [appendEl_sch]

theorem attachAll_ls (vals : List Node) : ∀ (n : Node) (next : Nat), kok n = true → isMap n.kind = false →
    kokL vals = true → LS next (n :: vals) (attachAll n vals next).2 [(attachAll n vals next).1] := by
  induction vals with
  | nil => intro n next hn _ _; rw [attachAll]; exact LS.refl _ (kok_single.mpr hn)
  | cons e es ih =>
    intro n next hn hm hv
    rw [kokL, Bool.and_eq_true] at hv
    rw [Flatland.C09.Proofs.attachAll_eq]
    have h1 := appendEl_ls n e next hn hm hv.1
    have h2 := ih (appendEl n e next).1 (appendEl n e next).2 (kok_single.mp h1.hkok)
      (by rw [appendEl_kind]; exact hm) hv.2
    have h3 : LS next ([n, e] ++ es) (appendEl n e next).2 ([(appendEl n e next).1] ++ es) :=
      h1.append (LS.refl _ hv.2)
    exact h3.trans h2

/-- the part of `Dict.set` before the loop: fresh children built by `_reset()`, whether the
    policy then raises or not -/
theorem dictPrep_cases (i : NInfo) (s : Schema) (kvs : List (Str × Raw)) (pol : Option Policy) (next : Nat)
    (hs : swf s = true) (hm : isMap s.kind = true) :
    ∃ fresh n1, LS next [] n1 fresh ∧ (fresh.map Node.key).Nodup ∧
      (dictPrep i s kvs pol next = .ok (fresh, n1) ∨
       ∃ e, dictPrep i s kvs pol next = .error ⟨.mk i s fresh, n1, .error e⟩) := by
  have hsub : swfL s.subs = true := (swfL_iff _).mpr (swf_subs hs)
  have hnd := ((swf_iff _).mp hs).1 hm
  unfold dictPrep
  dsimp only
  generalize hR : (if s.kind = .dict then blankFields s.subs i.id false next
      else if s.info.minreq then blankFields s.subs i.id true next else ([], next) : List Node × Nat) = R
  have hRls : LS next [] R.2 R.1 ∧ (R.1.map Node.key).Nodup := by
    rw [← hR]
    split
    · exact ⟨blankFields_ls _ _ _ _ hsub, by rw [blankFields_keys]; exact nodup_filter_keys hnd _⟩
    · split
      · exact ⟨blankFields_ls _ _ _ _ hsub, by rw [blankFields_keys]; exact nodup_filter_keys hnd _⟩
      · exact ⟨LS.nil _ _, by simp⟩
  split
  · exact ⟨R.1, R.2, hRls.1, hRls.2, .inr ⟨_, rfl⟩⟩
  · exact ⟨R.1, R.2, hRls.1, hRls.2, .inl rfl⟩

theorem LS.congr_new {a b : Nat} {l0 l1 l1' : List Node} (h : LS a l0 b l1)
    (hc : ∀ x, cntL x l1' = cntL x l1) (hk : kokL l1' = kokL l1) : LS a l0 b l1' :=
  ⟨h.hle, by rw [hk]; exact h.hkok, fun x => by rw [hc]; exact h.hcnt x⟩

theorem LS.withParent_new {a b : Nat} {l0 : List Node} {x : Node} (h : LS a l0 b [x]) (p : Option Nat) :
    LS a l0 b [x.withParent p] :=
  h.congr_new (fun y => by rw [cntL_singleton, cntL_singleton, cnt_withParent])
    (by simp [kokL, kok_withParent])

theorem LS.withParent_old {a b : Nat} {l1 : List Node} {x : Node} (p : Option Nat) (h : LS a [x.withParent p] b l1) :
    LS a [x] b l1 :=
  h.of_le (fun y => by rw [cntL_singleton, cntL_singleton, cnt_withParent]; exact Nat.le_refl _)

/-- overwriting the one child stored under a key by an updated version of it -/
theorem replace_ls {next n1 : Nat} {kids : List Node} {k : Str} {child new : Node}
    (hk : kokL kids = true) (hn : (kids.map Node.key).Nodup) (hc : findKid kids k = some child)
    (h : LS next [child] n1 [new]) : LS next kids n1 (replaceKid kids k new) := by
  refine ⟨h.hle, ?_, fun a => ?_⟩
  · rw [kokL_iff]
    intro x hx
    rcases Flatland.C10.Proofs.mem_replaceKid hx with h1 | h1
    · exact (kokL_iff _).mp hk x h1
    · rw [h1]; exact kok_single.mp h.hkok
  · have h1 := wsum_replaceKid (cnt a) kids k new child hn hc
    have h2 := h.hcnt a
    simp only [cntL_singleton] at h2
    rw [cntL_eq_wsum, cntL_eq_wsum]; omega

theorem key_of_hdr {a b : Node} (h : a.hdr = b.hdr) : a.key = b.key := (hdr_parts h).2.2.2.1
theorem sch_of_hdr {a b : Node} (h : a.hdr = b.hdr) : a.sch = b.sch := (hdr_parts h).2.2.1
theorem key_withParent (x : Node) (p : Option Nat) : (x.withParent p).key = x.key := by cases x; rfl
theorem sch_withParent (x : Node) (p : Option Nat) : (x.withParent p).sch = x.sch := by cases x; rfl

theorem nodup_keys_append {kids : List Node} {new : Node} (h : (kids.map Node.key).Nodup)
    (hn : new.key ∉ kids.map Node.key) : ((kids ++ [new]).map Node.key).Nodup := by
  rw [List.map_append, List.map_cons, List.map_nil]
  refine List.nodup_append.mpr ⟨h, by simp, ?_⟩
  intro a ha b hb
  simp only [List.mem_singleton] at hb
  rintro rfl
  rw [hb] at ha; exact hn ha

mutual
theorem setNode_ls : ∀ (raw : Raw) (n : Node) (pol : Option Policy) (next : Nat), kok n = true →
    LS next [n] (setNode n raw pol next).next [(setNode n raw pol next).node]
  | raw, .mk i s kids, pol, next, hk => by
    have hs : swf s = true := kok_swf hk
    have hsame : ∀ (i' : NInfo), i'.id = i.id → LS next [.mk i s kids] next [.mk i' s kids] :=
      fun i' hi => LS.same hi hk
    have hself : LS next [.mk i s kids] next [.mk i s kids] := LS.same rfl hk
    -- a sequence after `del self[:]`
    have hempt : ∀ n1, next ≤ n1 → LS next [.mk i s kids] n1 [.mk i s []] :=
      fun n1 h => (LS.rehead rfl hk (fun _ => by simp) (LS.nil next kids)).mono h
    have hseq : ∀ (xs : List Raw) (m : Schema), isMap s.kind = false →
        LS next [] (buildItems m xs next).2.1 (buildItems m xs next).1 →
        LS next [.mk i s kids]
          (attachAll (Node.mk i s []) (buildItems m xs next).1 (buildItems m xs next).2.1).2
          [(attachAll (Node.mk i s []) (buildItems m xs next).1 (buildItems m xs next).2.1).1] := by
      intro xs m hm hB
      have hE : kok (Node.mk i s []) = true := by
        rw [kok_iff]; exact ⟨hs, fun _ => by simp [Node.kids], fun k hk' => by cases hk'⟩
      have hA := attachAll_ls (buildItems m xs next).1 (.mk i s []) (buildItems m xs next).2.1 hE hm hB.hkok
      have h1 : LS next [Node.mk i s []] (buildItems m xs next).2.1 (Node.mk i s [] :: (buildItems m xs next).1) := by
        have := (LS.refl next (kok_single.mpr hE)).append hB; simpa using this
      exact (h1.trans hA).of_le (fun x => by simp only [cntL_singleton, cnt_mk, cntL_nil]; omega)
    -- a mapping after `_reset()` and the loop over the pairs
    have hmapnode : ∀ (n1 : Nat) (ks : List Node), isMap s.kind = true → LS next [] n1 ks → (ks.map Node.key).Nodup →
        LS next [.mk i s kids] n1 [.mk i s ks] :=
      fun n1 ks _ h hn => LS.rehead rfl hk (fun _ => hn) h.forget
    have hdict : ∀ (kvs : List (Str × Raw)), isMap s.kind = true →
        (∀ fresh n1, LS n1 fresh (setPairs i.id s.subs fresh kvs n1).2.1 (setPairs i.id s.subs fresh kvs n1).1 ∧
           ((setPairs i.id s.subs fresh kvs n1).1.map Node.key).Nodup ∨ ¬ ((fresh.map Node.key).Nodup ∧ kokL fresh = true)) →
        LS next [.mk i s kids]
          (match dictPrep i s kvs pol next with
            | .error r => r
            | .ok (fresh, next1) =>
              (⟨.mk i s (setPairs i.id s.subs fresh kvs next1).1, (setPairs i.id s.subs fresh kvs next1).2.1,
                (setPairs i.id s.subs fresh kvs next1).2.2⟩ : SetR)).next
          [(match dictPrep i s kvs pol next with
            | .error r => r
            | .ok (fresh, next1) =>
              (⟨.mk i s (setPairs i.id s.subs fresh kvs next1).1, (setPairs i.id s.subs fresh kvs next1).2.1,
                (setPairs i.id s.subs fresh kvs next1).2.2⟩ : SetR)).node] := by
      intro kvs hm hP
      obtain ⟨fresh, n1, hls, hnd, h | ⟨e, h⟩⟩ := dictPrep_cases i s kvs pol next hs hm
      · rw [h]
        dsimp only
        rcases hP fresh n1 with ⟨h1, h2⟩ | h1
        · exact hmapnode _ _ hm (hls.trans h1) h2
        · exact absurd ⟨hnd, hls.hkok⟩ h1
      · rw [h]
        exact hmapnode _ _ hm hls hnd
    have hfresh : ∀ (kvs : List (Str × Raw)), isMap s.kind = true →
        LS next [.mk i s kids]
          (match dictPrep i s kvs pol next with
            | .error r => r
            | .ok (fresh, next1) => (⟨.mk i s fresh, next1, .ok true⟩ : SetR)).next
          [(match dictPrep i s kvs pol next with
            | .error r => r
            | .ok (fresh, next1) => (⟨.mk i s fresh, next1, .ok true⟩ : SetR)).node] := by
      intro kvs hm
      obtain ⟨fresh, n1, hls, hnd, h | ⟨e, h⟩⟩ := dictPrep_cases i s kvs pol next hs hm
      · rw [h]; exact hmapnode _ _ hm hls hnd
      · rw [h]; exact hmapnode _ _ hm hls hnd
    have hsubs : swfL s.subs = true := (swfL_iff _).mpr (swf_subs hs)
    cases raw with
    | none =>
      unfold setNode
      split
      · split <;> exact hsame _ rfl
      · split <;> exact hsame _ rfl
      · exact hself
      · split <;> exact hempt _ (Nat.le_refl _)
      · split <;> exact hempt _ (Nat.le_refl _)
      · split <;> exact hempt _ (Nat.le_refl _)
      · exact hself
      · exact hself
    | int v =>
      unfold setNode
      split
      · split <;> exact hsame _ rfl
      · split <;> exact hsame _ rfl
      · exact hself
      · split <;> exact hempt _ (Nat.le_refl _)
      · split <;> exact hempt _ (Nat.le_refl _)
      · split <;> exact hempt _ (Nat.le_refl _)
      · exact hself
      · exact hself
    | str v =>
      unfold setNode
      split
      · split <;> exact hsame _ rfl
      · split <;> exact hsame _ rfl
      · exact hself
      · split <;> exact hempt _ (Nat.le_refl _)
      · split <;> exact hempt _ (Nat.le_refl _)
      · split <;> exact hempt _ (Nat.le_refl _)
      · rename_i hkd
        cases v with
        | nil => exact hfresh [] (by rw [hkd]; rfl)
        | cons c cs => exact hself
      · rename_i hkd
        cases v with
        | nil => exact hfresh [] (by rw [hkd]; rfl)
        | cons c cs => exact hself
    | list xs =>
      unfold setNode
      split
      · split <;> exact hsame _ rfl
      · split <;> exact hsame _ rfl
      · exact hself
      · rename_i hkd
        split
        · exact hempt _ (Nat.le_refl _)
        · rename_i m hm
          have hB := buildItems_ls xs m next (swf_member hs hm)
          dsimp only
          split
          · exact hseq xs m (by rw [hkd]; rfl) hB
          · exact hempt _ hB.hle
          · exact hempt _ hB.hle
      · rename_i hkd
        split
        · exact hempt _ (Nat.le_refl _)
        · rename_i m hm
          have hB := buildItems_ls xs m next (swf_member hs hm)
          dsimp only
          split
          · exact hseq xs m (by rw [hkd]; rfl) hB
          · exact hempt _ hB.hle
          · exact hempt _ hB.hle
      · rename_i hkd
        split
        · exact hempt _ (Nat.le_refl _)
        · rename_i m hm
          have hB := buildItems_ls xs m next (swf_member hs hm)
          dsimp only
          split
          · exact hseq xs m (by rw [hkd]; rfl) hB
          · exact hempt _ hB.hle
          · exact hempt _ hB.hle
      · rename_i hkd
        cases xs with
        | nil => exact hfresh [] (by rw [hkd]; rfl)
        | cons c cs => exact hself
      · rename_i hkd
        cases xs with
        | nil => exact hfresh [] (by rw [hkd]; rfl)
        | cons c cs => exact hself
    | dict kvs =>
      have hP : ∀ fresh n1, LS n1 fresh (setPairs i.id s.subs fresh kvs n1).2.1 (setPairs i.id s.subs fresh kvs n1).1 ∧
           ((setPairs i.id s.subs fresh kvs n1).1.map Node.key).Nodup ∨ ¬ ((fresh.map Node.key).Nodup ∧ kokL fresh = true) := by
        intro fresh n1
        by_cases hf : (fresh.map Node.key).Nodup ∧ kokL fresh = true
        · exact .inl (setPairs_ls kvs i.id s.subs fresh n1 hsubs hf.2 hf.1)
        · exact .inr hf
      unfold setNode
      split
      · split <;> exact hsame _ rfl
      · split <;> exact hsame _ rfl
      · exact hself
      · split <;> exact hempt _ (Nat.le_refl _)
      · split <;> exact hempt _ (Nat.le_refl _)
      · split <;> exact hempt _ (Nat.le_refl _)
      · rename_i hkd; exact hdict kvs (by rw [hkd]; rfl) hP
      · rename_i hkd; exact hdict kvs (by rw [hkd]; rfl) hP
    | pairs kvs =>
      have hP : ∀ fresh n1, LS n1 fresh (setPairs i.id s.subs fresh kvs n1).2.1 (setPairs i.id s.subs fresh kvs n1).1 ∧
           ((setPairs i.id s.subs fresh kvs n1).1.map Node.key).Nodup ∨ ¬ ((fresh.map Node.key).Nodup ∧ kokL fresh = true) := by
        intro fresh n1
        by_cases hf : (fresh.map Node.key).Nodup ∧ kokL fresh = true
        · exact .inl (setPairs_ls kvs i.id s.subs fresh n1 hsubs hf.2 hf.1)
        · exact .inr hf
      unfold setNode
      split
      · split <;> exact hsame _ rfl
      · split <;> exact hsame _ rfl
      · exact hself
      · split <;> exact hempt _ (Nat.le_refl _)
      · split <;> exact hempt _ (Nat.le_refl _)
      · split <;> exact hempt _ (Nat.le_refl _)
      · rename_i hkd; exact hdict kvs (by rw [hkd]; rfl) hP
      · rename_i hkd; exact hdict kvs (by rw [hkd]; rfl) hP
theorem buildItems_ls : ∀ (xs : List Raw) (m : Schema) (next : Nat), swf m = true →
    LS next [] (buildItems m xs next).2.1 (buildItems m xs next).1
  | [], _, _, _ => by rw [buildItems]; exact LS.nil _ _
  | x :: xs, m, next, hm => by
    have hb := blank_ls m none [] next hm
    have hr := setNode_ls x (blank m none [] next).1 none (blank m none [] next).2 (kok_single.mp hb.hkok)
    have h1 := hb.trans hr
    rw [buildItems]
    dsimp only
    split
    · exact (LS.nil _ _).mono h1.hle
    · have h2 := buildItems_ls xs m (setNode (blank m none [] next).1 x none (blank m none [] next).2).next hm
      split
      · exact (LS.nil _ _).mono (Nat.le_trans h1.hle h2.hle)
      · exact LS.consNew h1 h2
theorem setPairs_ls : ∀ (kvs : List (Str × Raw)) (pid : Nat) (subs : List Schema) (kids : List Node) (next : Nat),
    swfL subs = true → kokL kids = true → (kids.map Node.key).Nodup →
    LS next kids (setPairs pid subs kids kvs next).2.1 (setPairs pid subs kids kvs next).1 ∧
      ((setPairs pid subs kids kvs next).1.map Node.key).Nodup
  | [], _, _, kids, next, _, hk, hn => by rw [setPairs]; exact ⟨LS.refl _ hk, hn⟩
  | (k, v) :: rest, pid, subs, kids, next, hs, hk, hn => by
    rw [setPairs]
    split
    · exact setPairs_ls rest pid subs kids next hs hk hn
    · rename_i f hf
      split
      · rename_i child hc
        have hcm := findKid_some hc
        have hr := setNode_ls v child none next ((kokL_iff _).mp hk child hcm.1)
        have hrep := replace_ls hk hn hc hr
        have hkeys : ((replaceKid kids k (setNode child v none next).node).map Node.key).Nodup := by
          rw [replaceKid_keys _ _ _ (by rw [key_of_hdr (setNode_hdr child v none next)]; exact hcm.2)]; exact hn
        dsimp only
        split
        · exact ⟨hrep, hkeys⟩
        · have h2 := setPairs_ls rest pid subs _ (setNode child v none next).next hs hrep.hkok hkeys
          exact ⟨hrep.trans h2.1, h2.2⟩
      · rename_i hc
        have hfm := fieldFor_some hf
        have hb := (blank_ls f none k next ((swfL_iff _).mp hs f hfm.1)).withParent_new (some pid)
        have hr := setNode_ls v ((blank f none k next).1.withParent (some pid)) none (blank f none k next).2
          (kok_single.mp hb.hkok)
        have hnew := hb.trans hr
        have happ := LS.snocNew (LS.refl next hk) hnew
        have hkey : (setNode ((blank f none k next).1.withParent (some pid)) v none (blank f none k next).2).node.key = k := by
          rw [key_of_hdr (setNode_hdr _ v none _), key_withParent]
          exact (hdr_eq_parts (blank_hdr f none k next)).2.2.2.1
        have hkeys := nodup_keys_append (new := (setNode ((blank f none k next).1.withParent (some pid)) v none (blank f none k next).2).node)
          hn (by rw [hkey]; exact findKid_none hc)
        dsimp only
        split
        · exact ⟨happ, hkeys⟩
        · have h2 := setPairs_ls rest pid subs _ (setNode ((blank f none k next).1.withParent (some pid)) v none (blank f none k next).2).next hs happ.hkok hkeys
          exact ⟨happ.trans h2.1, h2.2⟩
end

/-! ### `schema(value)`, `from_defaults`, `set_default` -/

theorem construct_next_le (s : Schema) (raw : Raw) (parent : Option Nat) (key : Str) (next : Nat) (hs : swf s = true) :
    next ≤ (construct s raw parent key next).2 := by
  have hb := blank_ls s parent key next hs
  have hr := setNode_ls raw (blank s parent key next).1 none (blank s parent key next).2 (kok_single.mp hb.hkok)
  unfold construct
  dsimp only
  split <;> exact (hb.trans hr).hle

theorem construct_ls (s : Schema) (raw : Raw) (parent : Option Nat) (key : Str) (next : Nat) (hs : swf s = true)
    (e : Node) (n1 : Nat) (h : construct s raw parent key next = (.ok e, n1)) : LS next [] n1 [e] := by
  have hb := blank_ls s parent key next hs
  have hr := setNode_ls raw (blank s parent key next).1 none (blank s parent key next).2 (kok_single.mp hb.hkok)
  unfold construct at h
  dsimp only at h
  split at h
  · cases h; exact hb.trans hr
  · cases h

theorem defaultFields_keys (subs : List Schema) (pid : Nat) (b : Bool) (next : Nat) :
    (defaultFields subs pid b next).1.map Node.key = (subs.filter (keep b)).map Schema.key :=
  (Flatland.C10.Proofs.defaultFields_ok subs subs pid b next (fun _ h => h)).2

theorem defaultSlotsWith_ls (mk : Nat → SetR) (hmk : ∀ nx, LS nx [] (mk nx).next [(mk nx).node]) (lst : Nat) :
    ∀ (k idx next : Nat), LS next [] (defaultSlotsWith mk lst k idx next).2.1 (defaultSlotsWith mk lst k idx next).1 := by
  intro k
  induction k with
  | zero => intro idx next; rw [defaultSlotsWith]; exact LS.nil _ _
  | succ k ih =>
    intro idx next
    have hslot : LS next [] (mk (next + 1)).next [mkSlot next lst idx (mk (next + 1)).node] := by
      have h := hmk (next + 1)
      refine ⟨by have := h.hle; omega, ?_, fun a => ?_⟩
      · rw [kok_single]; exact kok_mkSlot _ _ _ _ (kok_single.mp h.hkok)
      · have h1 := h.hcnt a
        have h2 := own_eq_ind a next
        have h3 := ind_add a (Nat.le_add_right next 1) h.hle
        simp only [cntL_singleton, cnt_mkSlot, cntL_nil] at h1 ⊢; omega
    rw [defaultSlotsWith]
    dsimp only
    split
    · exact hslot
    · exact LS.consNew hslot (ih _ _)

mutual
theorem fromDefaults_ls : ∀ (s : Schema) (parent : Option Nat) (key : Str) (next : Nat), swf s = true →
    LS next [] (fromDefaults s parent key next).next [(fromDefaults s parent key next).node]
  | .mk info dflt subs, parent, key, next, hs => by
    have hb := blank_ls (.mk info dflt subs) parent key next hs
    have hbk := kok_single.mp hb.hkok
    have hbh := blank_hdr (.mk info dflt subs) parent key next
    have hid : (blank (.mk info dflt subs) parent key next).1.id = next := (hdr_eq_parts hbh).1
    have hsch : (blank (.mk info dflt subs) parent key next).1.sch = .mk info dflt subs := (hdr_eq_parts hbh).2.2.1
    have hset : ∀ d, LS next [] (setNode (blank (.mk info dflt subs) parent key next).1 d none
          (blank (.mk info dflt subs) parent key next).2).next
        [(setNode (blank (.mk info dflt subs) parent key next).1 d none (blank (.mk info dflt subs) parent key next).2).node] :=
      fun d => hb.trans (setNode_ls d _ none _ hbk)
    have hsub : swfL subs = true := (swfL_iff _).mpr (swf_subs hs)
    -- the blank element with its children replaced by `ks`, built after it
    have hre : ∀ (ks : List Node) (n1 : Nat), (isMap info.kind = true → (ks.map Node.key).Nodup) →
        LS (blank (.mk info dflt subs) parent key next).2 [] n1 ks →
        LS next [] n1 [(blank (.mk info dflt subs) parent key next).1.withKids ks] := by
      intro ks n1 hkeys h
      have hle := hb.hle
      refine ⟨Nat.le_trans hle h.hle, ?_, fun a => ?_⟩
      · rw [kok_single, kok_iff]
        refine ⟨by rw [show ((blank (.mk info dflt subs) parent key next).1.withKids ks).sch = _ from hsch]; exact hs, ?_, ?_⟩
        · intro hm; exact hkeys (by
            have : ((blank (.mk info dflt subs) parent key next).1.withKids ks).kind = info.kind := by
              unfold Node.kind; rw [show ((blank (.mk info dflt subs) parent key next).1.withKids ks).sch = _ from hsch]; rfl
            rw [this] at hm; exact hm)
        · exact (kokL_iff _).mp h.hkok
      · have h1 := h.hcnt a
        have h2 := hb.hcnt a
        have h3 := ind_add a hle h.hle
        have h4 := own_eq_ind a next
        have h5 : next + 1 ≤ (blank (.mk info dflt subs) parent key next).2 := by
          have := h2
          have hx := hb.hcnt next
          simp only [cntL_singleton, cntL_nil, cnt_eq, hid, own_self] at hx
          have := ind_pos (lo := next) (hi := (blank (.mk info dflt subs) parent key next).2) (a := next) (by omega)
          omega
        have h6 := ind_add a (Nat.le_add_right next 1) h5
        have h7 := ind_mono a (lo := (blank (.mk info dflt subs) parent key next).2) (hi := n1) (lo' := next + 1) (hi' := n1) h5 (Nat.le_refl _)
        have h8 := ind_add a (Nat.le_add_right next 1) (Nat.le_trans h5 h.hle)
        simp only [cntL_singleton, cntL_nil, cnt_withKids, hid] at h1 ⊢
        omega
    have hbuild : ∀ (xs : List Raw) (m : Schema), swf m = true →
        LS next [] (buildItems m xs (blank (.mk info dflt subs) parent key next).2).2.1
          [(blank (.mk info dflt subs) parent key next).1] :=
      fun xs m hm => hb.mono (buildItems_ls xs m _ hm).hle
    have hseq : ∀ (xs : List Raw) (m : Schema), swf m = true → isMap info.kind = false →
        LS next []
          (attachAll (blank (.mk info dflt subs) parent key next).1
            (buildItems m xs (blank (.mk info dflt subs) parent key next).2).1
            (buildItems m xs (blank (.mk info dflt subs) parent key next).2).2.1).2
          [(attachAll (blank (.mk info dflt subs) parent key next).1
            (buildItems m xs (blank (.mk info dflt subs) parent key next).2).1
            (buildItems m xs (blank (.mk info dflt subs) parent key next).2).2.1).1] := by
      intro xs m hm hk
      have hB := buildItems_ls xs m (blank (.mk info dflt subs) parent key next).2 hm
      have hA := attachAll_ls (buildItems m xs (blank (.mk info dflt subs) parent key next).2).1
        (blank (.mk info dflt subs) parent key next).1 (buildItems m xs (blank (.mk info dflt subs) parent key next).2).2.1 hbk
        (by unfold Node.kind; rw [hsch]; exact hk) hB.hkok
      have h1 := hb.append hB
      exact h1.trans hA
    unfold fromDefaults
    dsimp only
    split
    · exact hset _
    · exact hset _
    · exact hb
    · split
      · exact hb
      · split
        · rename_i m ms
          rw [swfL, Bool.and_eq_true] at hsub
          exact hre _ _ (fun hm => by rename_i hk _ _ _; rw [hk] at hm; cases hm)
            (defaultSlotsWith_ls _ (fun nx => fromDefaults_ls m none [] nx hsub.1) _ _ _ _)
        · exact hb
      · exact hset _
    · rename_i hkd
      split
      · exact hb
      · split
        · rename_i m ms
          rw [swfL, Bool.and_eq_true] at hsub
          split
          · exact hseq _ m hsub.1 (by rw [hkd]; rfl)
          · exact hbuild _ m hsub.1
        · exact hb
      · exact hb
    · rename_i hkd
      split
      · exact hb
      · split
        · rename_i m ms
          rw [swfL, Bool.and_eq_true] at hsub
          split
          · exact hseq _ m hsub.1 (by rw [hkd]; rfl)
          · exact hbuild _ m hsub.1
        · exact hb
      · exact hb
    · split
      · rename_i hk _
        exact hre _ _ (fun hm => by rw [defaultFields_keys]; exact nodup_filter_keys (((swf_iff _).mp hs).1 hm) _)
          (defaultFields_ls subs _ false _ hsub)
      · exact hset _
    · split
      · split
        · exact hre _ _ (fun hm => by rw [defaultFields_keys]; exact nodup_filter_keys (((swf_iff _).mp hs).1 hm) _)
            (defaultFields_ls subs _ true _ hsub)
        · exact hre _ _ (fun _ => by simp) (LS.nil _ _)
      · exact hset _
theorem defaultFields_ls : ∀ (subs : List Schema) (pid : Nat) (b : Bool) (next : Nat), swfL subs = true →
    LS next [] (defaultFields subs pid b next).2.1 (defaultFields subs pid b next).1
  | [], _, _, next, _ => by rw [defaultFields]; exact LS.nil _ _
  | f :: fs, pid, b, next, hs => by
    rw [swfL, Bool.and_eq_true] at hs
    rw [defaultFields]
    split
    · exact defaultFields_ls fs pid b next hs.2
    · have hfd := fromDefaults_ls f (some pid) f.key next hs.1
      dsimp only
      split
      · -- `child.set_default()` raised: the rest keeps the blank children `_reset()` made
        split
        · have hbl := blank_ls f (some pid) f.key (fromDefaults f (some pid) f.key next).next hs.1
          exact LS.consNew (hbl.mono_left hfd.hle) (blankFields_ls fs pid b _ hs.2)
        · exact LS.consNew hfd (blankFields_ls fs pid b _ hs.2)
      · exact LS.consNew hfd (defaultFields_ls fs pid b (fromDefaults f (some pid) f.key next).next hs.2)
end

theorem keys_of_map_hdr {a b : List Node} (hab : a.map Node.hdr = b.map Node.hdr) : a.map Node.key = b.map Node.key := by
  have := congrArg (List.map (fun t : Nat × Option Nat × Schema × Str × Option Bool × Option Str => t.2.2.2.1)) hab
  simpa [List.map_map, Function.comp_def, Node.hdr] using this

mutual
theorem setDefault_ls : ∀ (n : Node) (next : Nat), kok n = true →
    LS next [n] (setDefault n next).next [(setDefault n next).node]
  | .mk i s kids, next, hk => by
    have hs : swf s = true := kok_swf hk
    have hself : LS next [.mk i s kids] next [.mk i s kids] := LS.same rfl hk
    have hset : ∀ d, LS next [.mk i s kids] (setNode (.mk i s kids) d none next).next [(setNode (.mk i s kids) d none next).node] :=
      fun d => setNode_ls d _ none next hk
    have hsubs : swfL s.subs = true := (swfL_iff _).mpr (swf_subs hs)
    have hre : ∀ (ks : List Node) (n1 : Nat), (isMap s.kind = true → (ks.map Node.key).Nodup) →
        LS next [] n1 ks → LS next [.mk i s kids] n1 [.mk i s ks] :=
      fun ks n1 hkeys h => LS.rehead rfl hk hkeys h.forget
    have hseq : ∀ (xs : List Raw) (m : Schema), swf m = true → isMap s.kind = false →
        LS next [.mk i s kids]
          (attachAll (Node.mk i s []) (buildItems m xs next).1 (buildItems m xs next).2.1).2
          [(attachAll (Node.mk i s []) (buildItems m xs next).1 (buildItems m xs next).2.1).1] := by
      intro xs m hm hmap
      have hB := buildItems_ls xs m next hm
      have hE : kok (Node.mk i s []) = true := by
        rw [kok_iff]; exact ⟨hs, fun _ => by simp [Node.kids], fun k hk' => by cases hk'⟩
      have hA := attachAll_ls (buildItems m xs next).1 (.mk i s []) (buildItems m xs next).2.1 hE hmap hB.hkok
      have h1 : LS next [Node.mk i s []] (buildItems m xs next).2.1 (Node.mk i s [] :: (buildItems m xs next).1) := by
        have := (LS.refl next (kok_single.mpr hE)).append hB; simpa using this
      exact (h1.trans hA).of_le (fun x => by simp only [cntL_singleton, cnt_mk, cntL_nil]; omega)
    have hempt : ∀ (xs : List Raw) (m : Schema), swf m = true →
        LS next [.mk i s kids] (buildItems m xs next).2.1 [.mk i s []] :=
      fun xs m hm => (LS.rehead rfl hk (fun _ => by simp) (LS.nil next kids)).mono (buildItems_ls xs m next hm).hle
    unfold setDefault
    split
    · exact hset _
    · exact hset _
    · exact hself
    · rename_i hkd
      split
      · exact hself
      · split
        · rename_i m hm
          exact hre _ _ (fun h => by rw [hkd] at h; cases h)
            (defaultSlotsWith_ls _ (fun nx => fromDefaults_ls m none [] nx (swf_member hs hm)) _ _ _ _)
        · exact hself
      · exact hset _
    · rename_i hkd
      split
      · exact hself
      · split
        · rename_i m hm
          dsimp only
          split
          · exact hseq _ m (swf_member hs hm) (by rw [hkd]; rfl)
          · exact hempt _ m (swf_member hs hm)
        · exact hself
      · exact hself
    · rename_i hkd
      split
      · exact hself
      · split
        · rename_i m hm
          dsimp only
          split
          · exact hseq _ m (swf_member hs hm) (by rw [hkd]; rfl)
          · exact hempt _ m (swf_member hs hm)
        · exact hself
      · exact hself
    · split
      · have hK := setDefaultKids_ls kids next (kok_kids hk)
        exact LS.rehead rfl hk
          (fun hm => by rw [keys_of_map_hdr (Flatland.C10.Proofs.setDefaultKids_hdr kids next)]; exact kok_keys hk hm) hK
      · exact hset _
    · split
      · split
        · exact hre _ _ (fun hm => by rw [defaultFields_keys]; exact nodup_filter_keys (((swf_iff _).mp hs).1 hm) _)
            (defaultFields_ls s.subs _ true _ hsubs)
        · exact hre _ _ (fun _ => by simp) (LS.nil _ _)
      · exact hset _
theorem setDefaultKids_ls : ∀ (kids : List Node) (next : Nat), kokL kids = true →
    LS next kids (setDefaultKids kids next).2.1 (setDefaultKids kids next).1
  | [], next, _ => by rw [setDefaultKids]; exact LS.nil _ _
  | k :: ks, next, h => by
    rw [kokL, Bool.and_eq_true] at h
    have hk := setDefault_ls k next h.1
    rw [setDefaultKids]
    dsimp only
    split
    · exact LS.cons hk (LS.refl _ h.2)
    · exact LS.cons hk (setDefaultKids_ls ks (setDefault k next).next h.2)
end

end Flatland.C08.Proofs
