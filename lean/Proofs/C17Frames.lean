/-
C17 — the frame MECHANISM of `properties.py` (`Flatland/C17Frames.lean`) refines model A
(`Flatland/C17.lean`): lazy materialisation of class frames is unobservable.
-/
import Flatland.C17Frames
import Proofs.C17
namespace Flatland.C17.Frames.Proofs
open Flatland.C17 Flatland.C17.Spec Flatland.C17.Proofs Flatland.C17.Frames

def kS0 : Key := ['s']
def kB0 : Key := ['b']

/-! ## the class table of the mechanism state is model A's class table -/

/-- the part of the mechanism state that is model A's state verbatim (no frames) -/
def core (σ : FState) : State := { classes := σ.classes, ndesc := σ.ndesc, frames := [], insts := σ.insts }

theorem mroOf_core (σ : FState) : (core σ).mroOf = σ.mroOf := rfl
theorem ownOf_core (σ : FState) : (core σ).ownOf = σ.ownOf := rfl
theorem descOf_core (σ : FState) : (core σ).descOf = σ.descOf := rfl

/-! ## the read path -/

/-- the frames `_frames()` hands out when it is pulled to the end (no state change) -/
def pwalk (σ : FState) (P : ObjId) : List ClassId → List Frame
  | [] => []
  | c :: rest =>
    match σ.mapGet P c with
    | none => if σ.ownsObj c P then [σ.initialOf P] else pwalk σ P rest
    | some r => if σ.ownsObj c P then [σ.deref P r] else σ.deref P r :: pwalk σ P rest

/-- the prefix of the frames a consumer looks at -/
def cutF : (Frame → Pull) → List Frame → List Frame
  | _, [] => []
  | p, f :: rest =>
    match p f with
    | .stop => [f]
    | .more => f :: cutF p rest
    | .drain => f :: cutF (fun _ => .more) rest

theorem cutF_single (p : Frame → Pull) (f : Frame) : cutF p [f] = [f] := by
  simp only [cutF]; split <;> rfl

theorem cutF_all : ∀ (fs : List Frame), cutF (fun _ => .more) fs = fs
  | [] => rfl
  | f :: rest => by simp only [cutF, cutF_all rest]

theorem cutF_allP (fs : List Frame) : cutF allP fs = fs := cutF_all fs

/-- the frames a consumer gets = the prefix it asks for of the full walk -/
theorem pull_frames (σ : FState) (P : ObjId) : ∀ (l : List ClassId) (p : Frame → Pull),
    (framesPull σ P p l).2 = cutF p (pwalk σ P l)
  | [], _ => rfl
  | c :: rest, p => by
    cases hm : σ.mapGet P c with
    | none =>
      by_cases ho : σ.ownsObj c P = true
      · simp only [framesPull, pwalk, hm, ho, if_true, cutF_single]
      · simp only [framesPull, pwalk, hm, ho, if_false, Bool.false_eq_true]
        exact pull_frames σ P rest p
    | some r =>
      by_cases ho : σ.ownsObj c P = true
      · simp only [framesPull, pwalk, hm, ho, if_true, cutF_single]
      · simp only [framesPull, pwalk, hm, ho, if_false, Bool.false_eq_true, cutF]
        cases p (σ.deref P r) with
        | stop => rfl
        | more => simp only [pull_frames σ P rest p]
        | drain => simp only [pull_frames σ P rest _]

/-- the only thing a read does to the state: the owner's frame may get materialised, as a COPY of
    `initial_set` -/
theorem pull_state (σ : FState) (P : ObjId) : ∀ (l : List ClassId) (p : Frame → Pull),
    (framesPull σ P p l).1 = σ ∨
      ∃ o, σ.mapGet P o = none ∧ σ.ownsObj o P = true ∧
        (framesPull σ P p l).1 = σ.mapSet P o (.obj (σ.initialOf P))
  | [], _ => .inl rfl
  | c :: rest, p => by
    cases hm : σ.mapGet P c with
    | none =>
      by_cases ho : σ.ownsObj c P = true
      · simp only [framesPull, hm, ho, if_true]
        exact .inr ⟨c, hm, ho, rfl⟩
      · simp only [framesPull, hm, ho, if_false, Bool.false_eq_true]
        exact pull_state σ P rest p
    | some r =>
      by_cases ho : σ.ownsObj c P = true
      · simp only [framesPull, hm, ho, if_true]
        exact .inl trivial
      · simp only [framesPull, hm, ho, if_false, Bool.false_eq_true]
        cases p (σ.deref P r) with
        | stop => exact .inl rfl
        | more => exact pull_state σ P rest p
        | drain => exact pull_state σ P rest _

/-! ## consumers: looking at a prefix gives the answer the whole walk gives -/

theorem lookup_cutF (k : Key) : ∀ (fs : List Frame),
    lookupFrames (cutF (getP k) fs) k = lookupFrames fs k
  | [] => rfl
  | f :: rest => by
    cases h : AList.get? f k with
    | none =>
      have hp : getP k f = .more := by simp [getP, AList.hasKey, h]
      simp only [cutF, hp, lookupFrames, h]
      exact lookup_cutF k rest
    | some s =>
      have hp : getP k f = .stop := by simp [getP, AList.hasKey, h]
      simp only [cutF, hp, lookupFrames, h]
      cases s <;> rfl

def firstSlot (fs : List Frame) (k : Key) : Option Slot := AList.get? fs.flatten k

theorem firstSlot_cons (f : Frame) (fs : List Frame) (k : Key) :
    firstSlot (f :: fs) k = (AList.get? f k).or (firstSlot fs k) := by
  simp [firstSlot, get?_append]

theorem firstSlot_cutF (k : Key) : ∀ (fs : List Frame),
    slotVal (firstSlot (cutF (containsP k) fs) k) = slotVal (firstSlot fs k)
  | [] => rfl
  | f :: rest => by
    simp only [cutF, containsP]
    cases h : AList.get? f k with
    | none =>
      simp only [firstSlot_cons, h, Option.or]
      exact firstSlot_cutF k rest
    | some s =>
      cases s with
      | val v => simp [firstSlot_cons, h]
      | deleted => simp [firstSlot_cons, h, cutF_all]

theorem mem_keys_itemsGo (fs : List Frame) (k : Key) :
    k ∈ (itemsGo fs.flatten []).map (·.1) ↔ slotVal (firstSlot fs k) ≠ none := by
  have h := get?_eq_none_iff (itemsGo fs.flatten []) k
  rw [get?_itemsGo] at h
  simp only [List.not_mem_nil, if_false] at h
  simp only [firstSlot]
  constructor
  · intro hm hn; exact (h.mp hn) hm
  · intro hn; exact Classical.byContradiction fun hm => hn (h.mpr hm)

theorem contains_cutF (k : Key) (fs : List Frame) :
    decide (k ∈ (itemsGo (cutF (containsP k) fs).flatten []).map (·.1))
      = decide (k ∈ (itemsGo fs.flatten []).map (·.1)) := by
  apply decide_eq_decide.mpr
  rw [mem_keys_itemsGo, mem_keys_itemsGo, firstSlot_cutF]

/-- every read-only method, computed over the frames its consumer pulled, returns what it returns
    over all frames -/
theorem read_cutF (fs : List Frame) (o : Op) (p : Frame → Pull) (hp : pullOf o = some p) :
    dictLikeRead (readerOf (cutF p fs)) o = dictLikeRead (readerOf fs) o := by
  cases o with
  | contains k =>
    simp only [pullOf, Option.some.injEq] at hp; subst hp
    simp only [dictLikeRead, readerOf]
    exact congrArg (fun b => some (Res.bool b)) (contains_cutF k fs)
  | _ =>
    simp only [pullOf, Option.some.injEq, reduceCtorEq] at hp
    try (subst hp; simp only [dictLikeRead, readerOf, cutF_allP, lookup_cutF])

/-! ## the simulation relation -/

/-- what a materialised frame shows -/
def obsC (σ : FState) (P : ObjId) (c : ClassId) : Option Frame := (σ.mapGet P c).map (σ.deref P)

/-- mechanism state `σ` and model-A state `a` describe the same store: the same class table and
    instances; the frame model A keeps for an OWNER is the frame the class has or WOULD get
    (`initial_set`); a non-owner has a frame in model A exactly when it has one in `map` -/
structure Sim (σ : FState) (a : State) : Prop where
  classes : a.classes = σ.classes
  ndesc : a.ndesc = σ.ndesc
  insts : a.insts = σ.insts
  owner : ∀ c s, σ.ownOf c = some s → a.frameD (.init s) = would σ (σ.objOf s) c
  other : ∀ c s, σ.ownOf c = none → σ.descOf c = some s →
    AList.get? a.frames (.cls s c) = obsC σ (σ.objOf s) c

theorem Sim.mroOf {σ : FState} {a : State} (h : Sim σ a) : a.mroOf = σ.mroOf := by
  funext c; unfold State.mroOf FState.mroOf; rw [h.classes]; rfl
theorem Sim.ownOf {σ : FState} {a : State} (h : Sim σ a) : a.ownOf = σ.ownOf := by
  funext c; unfold State.ownOf FState.ownOf; rw [h.classes]; rfl

theorem deref_mapSet (σ : FState) (P : ObjId) (o : ClassId) (r : FrameRef) (P' : ObjId) (r' : FrameRef) :
    (σ.mapSet P o r).deref P' r' = σ.deref P' r' := by cases r' <;> rfl

theorem would_mapSet (σ : FState) (P : ObjId) (o : ClassId) (r : FrameRef) (P' : ObjId) (c' : ClassId) :
    would (σ.mapSet P o r) P' c' = if (P, o) = (P', c') then σ.deref P' r else would σ P' c' := by
  by_cases hk : (P, o) = (P', c')
  · simp only [would, FState.mapGet, FState.mapSet, get?_set, hk, if_true]
    exact deref_mapSet σ P o r P' r
  · simp only [would, FState.mapGet, FState.mapSet, get?_set, hk, if_false]
    cases AList.get? σ.map (P', c') with
    | none => rfl
    | some r' => exact deref_mapSet σ P o r P' r'

theorem obsC_mapSet (σ : FState) (P : ObjId) (o : ClassId) (r : FrameRef) (P' : ObjId) (c' : ClassId) :
    obsC (σ.mapSet P o r) P' c' = if (P, o) = (P', c') then some (σ.deref P' r) else obsC σ P' c' := by
  by_cases hk : (P, o) = (P', c')
  · simp only [obsC, FState.mapGet, FState.mapSet, get?_set, hk, if_true]
    exact congrArg some (deref_mapSet σ P o r P' r)
  · simp only [obsC, FState.mapGet, FState.mapSet, get?_set, hk, if_false]
    cases AList.get? σ.map (P', c') with
    | none => rfl
    | some r' => exact congrArg some (deref_mapSet σ P o r P' r')
theorem Sim.descOf {σ : FState} {a : State} (h : Sim σ a) : a.descOf = σ.descOf := by
  funext c; simp only [State.descOf, FState.descOf, h.mroOf, h.ownOf]

/-- along the chain of a class that resolves slot `s` coherently, the mechanism's full walk hands
    out exactly the frames model A's walk hands out -/
theorem pwalk_sim {σ : FState} {a : State} (h : Sim σ a) (s : DescId) : ∀ (l : List ClassId),
    l.findSome? σ.ownOf = some s →
    (∀ x ∈ cut (fun x => (σ.ownOf x).isSome) l, σ.descOf x = some s) →
    pwalk σ (σ.objOf s) l = a.walk s l
  | [], hd, _ => by simp at hd
  | x :: rest, hd, hco => by
    cases hx : σ.ownOf x with
    | some s' =>
      have hs : s' = s := by simpa [List.findSome?_cons, hx] using hd
      subst hs
      have ho : σ.ownsObj x (σ.objOf s') = true := by simp [FState.ownsObj, hx]
      have ha : a.owns x s' = true := by simp [State.owns, h.ownOf, hx]
      have hw := h.owner x s' hx
      simp only [State.walk, ha, if_true, hw, would, pwalk]
      cases σ.mapGet (σ.objOf s') x <;> simp [ho]
    | none =>
      have ho : σ.ownsObj x (σ.objOf s) = false := by simp [FState.ownsObj, hx]
      have ha : a.owns x s = false := by simp [State.owns, h.ownOf, hx]
      have hcut : cut (fun x => (σ.ownOf x).isSome) (x :: rest)
          = x :: cut (fun x => (σ.ownOf x).isSome) rest := by simp [cut, hx]
      have hdx : σ.descOf x = some s := hco x (by rw [hcut]; exact List.mem_cons_self)
      have hd' : rest.findSome? σ.ownOf = some s := by simpa [List.findSome?_cons, hx] using hd
      have ih := pwalk_sim h s rest hd' (fun y hy => hco y (by rw [hcut]; exact List.mem_cons_of_mem _ hy))
      have hoth := h.other x s hx hdx
      simp only [State.walk, ha, pwalk, ho, hoth, obsC, Bool.false_eq_true, if_false]
      cases σ.mapGet (σ.objOf s) x <;> simp [ih]

/-- materialising an owner's frame as a COPY of `initial_set` is invisible to model A -/
theorem Sim_mat {σ : FState} {a : State} (h : Sim σ a) (P : ObjId) (o : ClassId)
    (hm : σ.mapGet P o = none) (ho : σ.ownsObj o P = true) :
    Sim (σ.mapSet P o (.obj (σ.initialOf P))) a where
  classes := h.classes
  ndesc := h.ndesc
  insts := h.insts
  owner := by
    intro c s hc
    have hc' : σ.ownOf c = some s := hc
    show a.frameD (.init s) = would (σ.mapSet P o _) (σ.objOf s) c
    rw [h.owner c s hc', would_mapSet]
    split
    · rename_i hk
      obtain ⟨rfl, rfl⟩ := Prod.mk.inj hk
      simp only [would, hm]; rfl
    · rfl
  other := by
    intro c s hc hd
    have hc' : σ.ownOf c = none := hc
    have hd' : σ.descOf c = some s := hd
    show AList.get? a.frames (.cls s c) = obsC (σ.mapSet P o _) (σ.objOf s) c
    rw [h.other c s hc' hd', obsC_mapSet]
    split
    · rename_i hk
      obtain ⟨rfl, rfl⟩ := Prod.mk.inj hk
      simp [FState.ownsObj, hc'] at ho
    · rfl

/-- … so no read changes what model A sees -/
theorem Sim_pull {σ : FState} {a : State} (h : Sim σ a) (P : ObjId) (l : List ClassId) (p : Frame → Pull) :
    Sim (framesPull σ P p l).1 a := by
  rcases pull_state σ P l p with e | ⟨o, hm, ho, e⟩
  · rw [e]; exact h
  · rw [e]; exact Sim_mat h P o hm ho

/-- coherence of a class (as in `Proofs.C17`), on the mechanism's class table -/
def CoherentF (σ : FState) (c : ClassId) : Prop :=
  ∃ d, σ.descOf c = some d ∧ ∀ x ∈ cut (fun x => (σ.ownOf x).isSome) (σ.mroOf c), σ.descOf x = some d

theorem CoherentF_of {σ : FState} {a : State} (h : Sim σ a) (c : ClassId) (hc : Coherent a c) :
    CoherentF σ c := by
  obtain ⟨d, hd, hall⟩ := hc
  rw [h.descOf, h.mroOf, h.ownOf] at *
  exact ⟨d, hd, hall⟩

/-- the frames of a class view: the mechanism's full walk = model A's `tFrames` -/
theorem pwalk_tFrames {σ : FState} {a : State} (h : Sim σ a) (c : ClassId) (s : DescId)
    (hd : σ.descOf c = some s) (hco : CoherentF σ c) :
    pwalk σ (σ.objOf s) (σ.mroOf c) = tFrames a c s := by
  obtain ⟨d, hd', hall⟩ := hco
  have : d = s := by rw [hd] at hd'; exact (Option.some.inj hd').symm
  subst this
  simp only [tFrames, h.mroOf]
  exact pwalk_sim h d (σ.mroOf c) hd hall

theorem dictLikeRead_isRead (r : Reader) (o : Op) (p : Frame → Pull) (hp : pullOf o = some p) :
    ∃ res, dictLikeRead r o = some res := by
  cases o <;> simp only [pullOf, reduceCtorEq] at hp <;> exact ⟨_, rfl⟩

/-- **reads through a class view.**  Every read-only method — including the ones that materialise
    the owner's frame on the way — returns what model A returns, and model A's state still
    describes the store afterwards. -/
theorem classRead_refines {σ : FState} {a : State} (h : Sim σ a) (alias : Bool) (c : ClassId) (o : Op)
    (p : Frame → Pull) (hp : pullOf o = some p) (hco : c < σ.classes.length → CoherentF σ c) :
    (classOpF alias σ c o).2 = (classOp a c o).2 ∧
    Sim (classOpF alias σ c o).1 (classOp a c o).1 := by
  simp only [classOpF, classOp, h.classes, h.descOf]
  by_cases hc : c < σ.classes.length
  · simp only [hc, if_true]
    cases hd : σ.descOf c with
    | none => exact ⟨rfl, h⟩
    | some s =>
      simp only [hp, pull_frames, read_cutF _ o p hp, pwalk_tFrames h c s hd (hco hc)]
      have hr : tReader a c s = readerOf (tFrames a c s) := rfl
      obtain ⟨res, hres⟩ := dictLikeRead_isRead (readerOf (tFrames a c s)) o p hp
      simp only [hr, hres, Option.getD_some]
      exact ⟨trivial, Sim_pull h _ _ _⟩
  · simp only [hc, if_false]
    exact ⟨trivial, h⟩

theorem classOp_read_state (a : State) (c : ClassId) (o : Op) (p : Frame → Pull) (hp : pullOf o = some p) :
    (classOp a c o).1 = a := by
  simp only [classOp]
  split
  · split
    · rfl
    · rename_i s _
      obtain ⟨res, hres⟩ := dictLikeRead_isRead (tReader a c s) o p hp
      simp only [hres]
  · rfl

/-- a sequence of reads through class views, executed on the mechanism -/
def readsRun (σ : FState) : List (ClassId × Op) → FState × List Res
  | [] => (σ, [])
  | co :: rs => ((readsRun (classOpF false σ co.1 co.2).1 rs).1,
      (classOpF false σ co.1 co.2).2 :: (readsRun (classOpF false σ co.1 co.2).1 rs).2)

/-- **lazy materialisation is unobservable (reads through class views).**  Whatever reads are made,
    in whatever order, through whatever class views — each possibly materialising a frame —, the
    mechanism state keeps describing the SAME model-A state, and every read returns what model A
    returns in that one state: no read can be told from its answer whether, or which, other reads
    happened before it. -/
theorem lazy_is_unobservable_reads {a : State} (hco : AllCoherent a) :
    ∀ (rs : List (ClassId × Op)) (σ : FState), Sim σ a → (∀ co ∈ rs, (pullOf co.2).isSome = true) →
      Sim (readsRun σ rs).1 a ∧ (readsRun σ rs).2 = rs.map (fun co => (classOp a co.1 co.2).2)
  | [], _, h, _ => ⟨h, rfl⟩
  | co :: rs, σ, h, hall => by
    obtain ⟨p, hp⟩ := Option.isSome_iff_exists.mp (hall co List.mem_cons_self)
    have hstep := classRead_refines h false co.1 co.2 p hp
      (fun hc => CoherentF_of h co.1 (hco co.1 (by rw [h.classes]; exact hc)))
    rw [classOp_read_state a co.1 co.2 p hp] at hstep
    have ih := lazy_is_unobservable_reads hco rs _ hstep.2
      (fun x hx => hall x (List.mem_cons_of_mem _ hx))
    simp only [readsRun, List.map_cons]
    exact ⟨ih.1, by rw [hstep.1, ih.2]⟩

/-- the start: nothing materialised on one side, the owner's frame = `initial_set` on the other -/
theorem Sim_init (init : List (Key × Val)) : Sim (finit init) (initState init) where
  classes := rfl
  ndesc := rfl
  insts := rfl
  owner := by
    intro c s hc
    match c, hc with
    | 0, hc =>
      have : s = 0 := by simpa [FState.ownOf, finit] using hc.symm
      subst this; rfl
    | c + 1, hc => simp [FState.ownOf, finit] at hc
  other := by
    intro c s hc hd
    match c, hc, hd with
    | 0, hc, _ => simp [FState.ownOf, finit] at hc
    | c + 1, _, hd => simp [FState.descOf, FState.mroOf, finit] at hd

/-- non-vacuity: from a fresh root (frame NOT materialised), `['s']` — which materialises it —,
    `in`, `items()`, `copy()` answer as model A does, in any order -/
example : (readsRun (finit [(kS0, .int 1)]) [(0, .contains kS0), (0, .getitem kS0), (0, .items), (0, .copy)]).2
    = [.bool true, .val (.int 1), .items [(kS0, .int 1)], .items [(kS0, .int 1)]] := by decide
example : materialised (finit [(kS0, .int 1)]) = [] ∧
    materialised (readsRun (finit [(kS0, .int 1)]) [(0, .popitem), (0, .getitem kS0)]).1 = [0] := by decide

/-! ## invariants of the mechanism as written: every frame is a dict of its own, `initial_set` is
never written -/

/-- every materialised frame is a dict object of its own (for an owner: started as a COPY of
    `initial_set`), never the `initial_set` object -/
def NoAlias (σ : FState) : Prop := ∀ P c, σ.mapGet P c ≠ some .initCell

theorem NoAlias_mapSet {σ : FState} (h : NoAlias σ) (P : ObjId) (c : ClassId) (f : Frame) :
    NoAlias (σ.mapSet P c (.obj f)) := by
  intro P' c'
  simp only [FState.mapGet, FState.mapSet, get?_set]
  split
  · simp
  · exact h P' c'

theorem NoAlias_finit (init : List (Key × Val)) : NoAlias (finit init) := by
  intro P c; simp [FState.mapGet, finit, AList.get?]

/-- READ path: keeps the invariant and never touches `initial_set` -/
theorem pull_inv {σ : FState} (h : NoAlias σ) (P : ObjId) (l : List ClassId) (p : Frame → Pull) :
    NoAlias (framesPull σ P p l).1 ∧ (framesPull σ P p l).1.initial = σ.initial := by
  rcases pull_state σ P l p with e | ⟨o, _, _, e⟩
  · rw [e]; exact ⟨h, rfl⟩
  · rw [e]; exact ⟨NoAlias_mapSet h _ _ _, rfl⟩

/-- WRITE path as written (`alias = false`): `_base_frame` keeps the invariant and never touches
    `initial_set` -/
theorem baseFrame_inv {σ : FState} (h : NoAlias σ) (c : ClassId) (P : ObjId) :
    NoAlias (baseFrame false σ c P) ∧ (baseFrame false σ c P).initial = σ.initial := by
  simp only [baseFrame]
  cases σ.mapGet P c with
  | some r => exact ⟨h, rfl⟩
  | none =>
    by_cases ho : σ.ownsObj c P = true
    · simp only [ho, if_true, Bool.false_eq_true, if_false]; exact ⟨NoAlias_mapSet h _ _ _, rfl⟩
    · simp only [ho, if_false]; exact ⟨NoAlias_mapSet h _ _ _, rfl⟩

/-- **`InitialImmutable`**: under the invariant, mutating the dict `map[cls]` refers to never writes
    the `initial_set` cell (and keeps the invariant) -/
theorem writeRef_inv {σ : FState} (h : NoAlias σ) (P : ObjId) (c : ClassId) (g : Frame → Frame) :
    NoAlias (σ.writeRef P c g) ∧ (σ.writeRef P c g).initial = σ.initial := by
  simp only [FState.writeRef]
  cases hm : σ.mapGet P c with
  | none => exact ⟨h, rfl⟩
  | some r =>
    cases r with
    | obj f => exact ⟨NoAlias_mapSet h _ _ _, rfl⟩
    | initCell => exact absurd hm (h P c)

/-- the whole write `self._base_frame.<mutation>` of the code as written -/
theorem writeBase_inv {σ : FState} (h : NoAlias σ) (c : ClassId) (P : ObjId) (g : Frame → Frame) :
    NoAlias (writeBase false σ c P g) ∧ (writeBase false σ c P g).initial = σ.initial := by
  obtain ⟨h1, e1⟩ := baseFrame_inv h c P
  obtain ⟨h2, e2⟩ := writeRef_inv h1 P c g
  exact ⟨h2, e2.trans e1⟩

/-- the counter-model's write path does NOT keep the invariant: the first write through an owner
    installs the `initial_set` object itself, and the write goes into it -/
theorem baseFrame_alias_breaks :
    ¬ NoAlias (baseFrame true (finit [(kS0, .int 1)]) 0 0) ∧
    (writeBase true (finit [(kS0, .int 1)]) 0 0 (fun f => AList.set f kB0 (.val (.int 9)))).initialOf 0
      ≠ (finit [(kS0, .int 1)]).initialOf 0 := by
  constructor
  · intro h; exact h 0 0 rfl
  · decide

/-! ## the ALIASING counter-model -/

def kS : Key := ['s']
def kB : Key := ['b']

/-- write through the owner FIRST (so that the write path creates its frame), then hand the same
    `Properties` object to a second class, then read through that class -/
def aliasHist : List Cmd :=
  [.op (.cls 0) (.setitem kB (.int 9)), .usingShared 0 0 [(kS, .int 1)], .op (.cls 1) (.getitem kB),
   .op (.cls 1) .items]

/-- **the counter-model breaks the correspondence.**  With `_base_frame` storing `initial_set`
    itself (`alias = true`, seeded mutation `C17-base-frame-alias-initial`) the write through the
    owner goes INTO `initial_set`: the class that is handed the same `Properties` object later sees
    it (`['b']` returns 9 instead of raising `KeyError`), the results differ from model A's, and
    `initial_set` is no longer what the object was constructed with.  The mechanism as written
    (`alias = false`) gives model A's results on the same history. -/
theorem aliasInitial_fails :
    (frun true (finit [(kS, .int 1)]) aliasHist).2 ≠ (run (initState [(kS, .int 1)]) aliasHist).2 ∧
    (frun true (finit [(kS, .int 1)]) aliasHist).2[2]? = some (.val (.int 9)) ∧
    (run (initState [(kS, .int 1)]) aliasHist).2[2]? = some (.err .keyError) ∧
    (frun true (finit [(kS, .int 1)]) aliasHist).1.initialOf 0 ≠ (finit [(kS, .int 1)]).initialOf 0 ∧
    (frun false (finit [(kS, .int 1)]) aliasHist).2 = (run (initState [(kS, .int 1)]) aliasHist).2 ∧
    (frun false (finit [(kS, .int 1)]) aliasHist).1.initialOf 0 = (finit [(kS, .int 1)]).initialOf 0 := by
  decide

end Flatland.C17.Frames.Proofs
