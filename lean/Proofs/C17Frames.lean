/-
C17 — the frame MECHANISM of `properties.py` (`Flatland/C17Frames.lean`) refines model A
(`Flatland/C17.lean`): lazy materialisation of class frames is unobservable.
-/
import Flatland.C17Frames
import Proofs.C17
namespace Flatland.C17.Frames.Proofs
open Flatland.C17 Flatland.C17.Spec Flatland.C17.Proofs Flatland.C17.Frames

/-! ## the class table of the mechanism state is model A's class table -/

/-- the part of the mechanism state that is model A's state verbatim (no frames) -/
def core (σ : FState) : State := { classes := σ.classes, ndesc := σ.ndesc, frames := [], insts := σ.insts }

theorem mroOf_core (σ : FState) : (core σ).mroOf = σ.mroOf := rfl
theorem ownOf_core (σ : FState) : (core σ).ownOf = σ.ownOf := rfl
theorem descOf_core (σ : FState) : (core σ).descOf = σ.descOf := rfl

/-! ## the read path -/

/-- the frames `_frames()` hands out when it is pulled to the end (no state change) -/
def pwalk (σ : FState) (P : ObjId) : List ClassId → List Frame
  | [] => []
  | c :: rest =>
    match σ.mapGet P c with
    | none => if σ.ownsObj c P then [σ.initialOf P] else pwalk σ P rest
    | some r => if σ.ownsObj c P then [σ.deref P r] else σ.deref P r :: pwalk σ P rest

/-- the prefix of the frames a consumer looks at -/
def cutF : (Frame → Pull) → List Frame → List Frame
  | _, [] => []
  | p, f :: rest =>
    match p f with
    | .stop => [f]
    | .more => f :: cutF p rest
    | .drain => f :: cutF (fun _ => .more) rest

theorem cutF_single (p : Frame → Pull) (f : Frame) : cutF p [f] = [f] := by
  simp only [cutF]; split <;> rfl

theorem cutF_all : ∀ (fs : List Frame), cutF (fun _ => .more) fs = fs
  | [] => rfl
  | f :: rest => by simp only [cutF, cutF_all rest]

theorem cutF_allP (fs : List Frame) : cutF allP fs = fs := cutF_all fs

/-- the frames a consumer gets = the prefix it asks for of the full walk -/
theorem pull_frames (σ : FState) (P : ObjId) : ∀ (l : List ClassId) (p : Frame → Pull),
    (framesPull σ P p l).2 = cutF p (pwalk σ P l)
  | [], _ => rfl
  | c :: rest, p => by
    cases hm : σ.mapGet P c with
    | none =>
      by_cases ho : σ.ownsObj c P = true
      · simp only [framesPull, pwalk, hm, ho, if_true, cutF_single]
      · simp only [framesPull, pwalk, hm, ho, if_false, Bool.false_eq_true]
        exact pull_frames σ P rest p
    | some r =>
      by_cases ho : σ.ownsObj c P = true
      · simp only [framesPull, pwalk, hm, ho, if_true, cutF_single]
      · simp only [framesPull, pwalk, hm, ho, if_false, Bool.false_eq_true, cutF]
        cases p (σ.deref P r) with
        | stop => rfl
        | more => simp only [pull_frames σ P rest p]
        | drain => simp only [pull_frames σ P rest _]

/-- the only thing a read does to the state: the owner's frame may get materialised, as a COPY of
    `initial_set` -/
theorem pull_state (σ : FState) (P : ObjId) : ∀ (l : List ClassId) (p : Frame → Pull),
    (framesPull σ P p l).1 = σ ∨
      ∃ o, σ.mapGet P o = none ∧ σ.ownsObj o P = true ∧
        (framesPull σ P p l).1 = σ.mapSet P o (.obj (σ.initialOf P))
  | [], _ => .inl rfl
  | c :: rest, p => by
    cases hm : σ.mapGet P c with
    | none =>
      by_cases ho : σ.ownsObj c P = true
      · simp only [framesPull, hm, ho, if_true]
        exact .inr ⟨c, hm, ho, rfl⟩
      · simp only [framesPull, hm, ho, if_false, Bool.false_eq_true]
        exact pull_state σ P rest p
    | some r =>
      by_cases ho : σ.ownsObj c P = true
      · simp only [framesPull, hm, ho, if_true]
        exact .inl trivial
      · simp only [framesPull, hm, ho, if_false, Bool.false_eq_true]
        cases p (σ.deref P r) with
        | stop => exact .inl rfl
        | more => exact pull_state σ P rest p
        | drain => exact pull_state σ P rest _

/-! ## consumers: looking at a prefix gives the answer the whole walk gives -/

theorem lookup_cutF (k : Key) : ∀ (fs : List Frame),
    lookupFrames (cutF (getP k) fs) k = lookupFrames fs k
  | [] => rfl
  | f :: rest => by
    cases h : AList.get? f k with
    | none =>
      have hp : getP k f = .more := by simp [getP, AList.hasKey, h]
      simp only [cutF, hp, lookupFrames, h]
      exact lookup_cutF k rest
    | some s =>
      have hp : getP k f = .stop := by simp [getP, AList.hasKey, h]
      simp only [cutF, hp, lookupFrames, h]
      cases s <;> rfl

def firstSlot (fs : List Frame) (k : Key) : Option Slot := AList.get? fs.flatten k

theorem firstSlot_cons (f : Frame) (fs : List Frame) (k : Key) :
    firstSlot (f :: fs) k = (AList.get? f k).or (firstSlot fs k) := by
  simp [firstSlot, get?_append]

theorem firstSlot_cutF (k : Key) : ∀ (fs : List Frame),
    slotVal (firstSlot (cutF (containsP k) fs) k) = slotVal (firstSlot fs k)
  | [] => rfl
  | f :: rest => by
    simp only [cutF, containsP]
    cases h : AList.get? f k with
    | none =>
      simp only [firstSlot_cons, h, Option.or]
      exact firstSlot_cutF k rest
    | some s =>
      cases s with
      | val v => simp [firstSlot_cons, h]
      | deleted => simp [firstSlot_cons, h, cutF_all]

theorem mem_keys_itemsGo (fs : List Frame) (k : Key) :
    k ∈ (itemsGo fs.flatten []).map (·.1) ↔ slotVal (firstSlot fs k) ≠ none := by
  have h := get?_eq_none_iff (itemsGo fs.flatten []) k
  rw [get?_itemsGo] at h
  simp only [List.not_mem_nil, if_false] at h
  simp only [firstSlot]
  constructor
  · intro hm hn; exact (h.mp hn) hm
  · intro hn; exact Classical.byContradiction fun hm => hn (h.mpr hm)

theorem contains_cutF (k : Key) (fs : List Frame) :
    decide (k ∈ (itemsGo (cutF (containsP k) fs).flatten []).map (·.1))
      = decide (k ∈ (itemsGo fs.flatten []).map (·.1)) := by
  apply decide_eq_decide.mpr
  rw [mem_keys_itemsGo, mem_keys_itemsGo, firstSlot_cutF]

/-- every read-only method, computed over the frames its consumer pulled, returns what it returns
    over all frames -/
theorem read_cutF (fs : List Frame) (o : Op) (p : Frame → Pull) (hp : pullOf o = some p) :
    dictLikeRead (readerOf (cutF p fs)) o = dictLikeRead (readerOf fs) o := by
  cases o with
  | contains k =>
    simp only [pullOf, Option.some.injEq] at hp; subst hp
    simp only [dictLikeRead, readerOf]
    exact congrArg (fun b => some (Res.bool b)) (contains_cutF k fs)
  | _ =>
    simp only [pullOf, Option.some.injEq, reduceCtorEq] at hp
    try (subst hp; simp only [dictLikeRead, readerOf, cutF_allP, lookup_cutF])

end Flatland.C17.Frames.Proofs
