/-
C19, round h9 — `transform_filters` (model `Flatland/C19Filters.lean`).

* `runFilters_eq_foldlM`: the loop = a left fold, in list order, over exactly the filters whose `tags`
  admit the tag, each applied to the state (attributes AND contents) the previous one produced;
* `transformFiltersF_decision` / `filters_resolution`: filters run iff the `auto_filter` toggle
  resolves to on (by `codeRule`, after any history), with the `filters` setting in force
  (`setting_in_force`: last explicit assignment among the open levels, else the default `()`);
* `optionsF_never_emitted`: after the WHOLE pipeline (five transforms + filters) an option name is an
  attribute only if a filter that ran wrote it itself;
* `stepF_gen`: filters never touch the generator, so every history theorem about `run/step`
  (resolution, `end_restores`, tabindex) holds verbatim for the filter-aware runner `runF/stepF`;
* `transformF_no_filters`: with the default `()` the filter-aware pipeline is the shared `transform`.
-/
import Proofs.C19Exact
import Flatland.C19Filters
namespace Flatland.C19.Proofs
open Flatland.Markup Flatland.C19 Flatland.C19.Spec

/-! ### the loop -/

/-- IN ORDER, ONLY ON WANTED TAGS, EACH SEES WHAT THE PREVIOUS ONE PRODUCED -/
theorem runFilters_eq_foldlM (tag : Str) (fs : List Filter) (st : TState) :
    runFilters tag fs st = (fs.filter (·.wanted tag)).foldlM (fun s f => f.apply tag s) st := by
  induction fs generalizing st with
  | nil => rfl
  | cons f rest ih =>
    simp only [runFilters, List.filter_cons]
    split
    · simp only [List.foldlM_cons]
      cases f.apply tag st with
      | error e => rfl
      | ok st' => exact ih st'
    · exact ih st

/-- a filter whose `tags` do not admit the tag is as good as absent -/
theorem runFilters_skip (tag : Str) (f : Filter) (rest : List Filter) (st : TState) (h : f.wanted tag = false) :
    runFilters tag (f :: rest) st = runFilters tag rest st := by
  simp [runFilters, h]

theorem runFilters_append (tag : Str) (fs gs : List Filter) (st : TState) :
    runFilters tag (fs ++ gs) st = (runFilters tag fs st).bind (runFilters tag gs) := by
  induction fs generalizing st with
  | nil => rfl
  | cons f rest ih =>
    simp only [List.cons_append, runFilters]
    split
    · simp only [bind, Except.bind]
      cases f.apply tag st with
      | error e => rfl
      | ok st' => exact ih st'
    · exact ih st

theorem filter_apply_shape {f : Filter} {tag : Str} {st st' : TState} (h : f.apply tag st = .ok st') :
    st'.ctx = st.ctx ∧ st'.attrs = f.writeAttrs st.attrs := by
  unfold Filter.apply at h
  simp only [bind, Except.bind, pure, Except.pure] at h
  cases hc : f.newContents tag st.contents with
  | error e => rw [hc] at h; simp at h
  | ok c => rw [hc] at h; simp only [Except.ok.injEq] at h; subst h; exact ⟨rfl, rfl⟩

theorem runFilters_ctx {tag : Str} {fs : List Filter} {st st' : TState} (h : runFilters tag fs st = .ok st') :
    st'.ctx = st.ctx := by
  induction fs generalizing st with
  | nil => simp [runFilters, pure, Except.pure] at h; rw [← h]
  | cons f rest ih =>
    simp only [runFilters] at h
    split at h
    · simp only [bind, Except.bind] at h
      cases ha : f.apply tag st with
      | error e => rw [ha] at h; simp at h
      | ok s1 => rw [ha] at h; rw [ih h, (filter_apply_shape ha).1]
    · exact ih h

/-! ### the toggle -/

/-- `transform_filters` in terms of what `_pop_toggle` returned and the `filters` value read:
    toggle off → nothing runs (the value is not even looked at); toggle on → the loop -/
theorem transformFiltersF_decision (E : FilterEnv) (T : Tables) (tag : Str) (bnd : Option Bind) (st : TState)
    (a : Attrs) (p f : Bool) (fv : CVal)
    (hp : popToggle T sAutoFilter st.attrs st.ctx = .ok (a, p, f)) (hf : st.ctx.getItem sFilters = .ok fv) :
    transformFiltersF E T tag bnd st =
      if p then (filtersOf E fv).bind (fun fs => runFilters tag fs { st with attrs := a })
      else .ok { st with attrs := a } := by
  unfold transformFiltersF
  simp only [bind, Except.bind, hp, hf, pure, Except.pure]
  cases p <;> rfl

theorem transformFiltersF_ctx {E : FilterEnv} {T : Tables} {tag : Str} {bnd : Option Bind} {st st' : TState}
    (h : transformFiltersF E T tag bnd st = .ok st') : st'.ctx = st.ctx := by
  unfold transformFiltersF at h
  simp only [bind, Except.bind, pure, Except.pure] at h
  cases hp : popToggle T sAutoFilter st.attrs st.ctx with
  | error e => rw [hp] at h; simp at h
  | ok r =>
    rw [hp] at h; simp only at h
    cases hf : st.ctx.getItem sFilters with
    | error e => rw [hf] at h; simp at h
    | ok fv =>
      rw [hf] at h; simp only at h
      split at h
      · simp only [Except.ok.injEq] at h; rw [← h]
      · cases hfs : filtersOf E fv with
        | error e => rw [hfs] at h; simp at h
        | ok fs => rw [hfs] at h; simp only at h; exact (runFilters_ctx h).trans rfl

/-! ### every setting reads as its last explicit assignment (the `filters` list included) -/

theorem setting_in_force (T : Tables) (R : RenderCfg) (markup : Str) (settings : List (Str × CVal))
    (g0 : Gen) (hinit : Gen.init T markup settings = .ok g0) (ops : List Op) (key : Str) :
    Dict.get? (runGen T R g0 ops).ctx.top key =
      (lastExplicit (runS T R g0 (initHist settings) ops).2 key).or
        (Dict.get? (frameUpdate T.defaultContext T.defaultSettings) key) := by
  have hm := matches_run T R ops g0 (initHist settings) (init_matches hinit)
  have hbase := base_run T R ops g0 (initHist settings) _
    (by rw [(init_shape hinit).1]; rfl)
  rw [runS_fst] at hm hbase
  generalize hH : (runS T R g0 (initHist settings) ops).2 = H at *
  generalize hG : runGen T R g0 ops = G at *
  obtain ⟨top, base, htop, hlast, hget⟩ := lookup_matches (frames G.ctx) H key hm
  simp only [frames, List.head?_cons, Option.some.injEq] at htop
  subst htop
  have hbase' : base = frameUpdate T.defaultContext T.defaultSettings := by
    have hne : G.ctx.below ≠ [] := by intro e; rw [e] at hbase; simp at hbase
    simp only [frames] at hlast
    rw [getLast?_cons_of_ne_nil _ _ hne, hbase] at hlast
    simp at hlast; exact hlast.symm
  rw [hbase', firstGiven_eq_lastExplicit] at hget
  exact hget

/-- the default `filters` value of the regenerated tables is the empty tuple -/
def filtersDefaultOK (T : Tables) : Bool :=
  Dict.get? (frameUpdate T.defaultContext T.defaultSettings) sFilters == some (.opaque "()".toList)

theorem filters_default_ok : filtersDefaultOK Tables.current = true := by decide

/-- FILTERS RUN IFF THE TOGGLE RESOLVES TO ON — after any history, for any tag-level option, any
    stored values: the decision is `codeRule` on the last explicit `auto_filter` assignment, the
    list is the last explicit `filters` assignment (default `()`), and then the loop -/
theorem filters_resolution (E : FilterEnv) (T : Tables) (R : RenderCfg) (markup : Str) (settings : List (Str × CVal))
    (g0 : Gen) (hinit : Gen.init T markup settings = .ok g0) (ops : List Op)
    (hdef : optionDefaultOK T sAutoFilter false = true) (hfd : filtersDefaultOK T = true)
    (tag : Str) (bnd : Option Bind) (attrs : Attrs) (c : Option Val) :
    transformFiltersF E T tag bnd ⟨attrs, c, (runGen T R g0 ops).ctx⟩ =
      match codeRule T false (T.parseTrool ((Dict.get? attrs sAutoFilter).getD .maybe))
          (lastExplicit (runS T R g0 (initHist settings) ops).2 sAutoFilter) with
      | .error e => .error e
      | .ok (false, _) => .ok ⟨Dict.erase attrs sAutoFilter, c, (runGen T R g0 ops).ctx⟩
      | .ok (true, _) =>
        (filtersOf E ((lastExplicit (runS T R g0 (initHist settings) ops).2 sFilters).getD (.opaque "()".toList))).bind
          (fun fs => runFilters tag fs ⟨Dict.erase attrs sAutoFilter, c, (runGen T R g0 ops).ctx⟩) := by
  have hres := toggle_resolution_exact T R markup settings g0 hinit ops sAutoFilter false hdef attrs
  have hfv : (runGen T R g0 ops).ctx.getItem sFilters =
      .ok ((lastExplicit (runS T R g0 (initHist settings) ops).2 sFilters).getD (.opaque "()".toList)) := by
    have := setting_in_force T R markup settings g0 hinit ops sFilters
    simp only [filtersDefaultOK, beq_iff_eq] at hfd
    rw [hfd] at this
    simp only [Ctx.getItem, this]
    cases lastExplicit (runS T R g0 (initHist settings) ops).2 sFilters <;> rfl
  cases hc : codeRule T false (T.parseTrool ((Dict.get? attrs sAutoFilter).getD .maybe))
      (lastExplicit (runS T R g0 (initHist settings) ops).2 sAutoFilter) with
  | error e =>
    rw [hc] at hres
    unfold transformFiltersF
    simp only [bind, Except.bind, hres, Except.map]
  | ok d =>
    obtain ⟨p, f⟩ := d
    rw [hc] at hres
    simp only [Except.map] at hres
    rw [transformFiltersF_decision E T tag bnd _ _ p f _ hres hfv]
    cases p <;> rfl

/-! ### filters never touch the generator: the history theorems carry over to `runF` -/

theorem transform_eq_prefix (T : Tables) (tag : Str) (bnd : Option Bind) (st : TState) :
    transform T tag bnd st = (transformPrefix T tag bnd st).bind (transformFilters T tag bnd) := by
  unfold transform transformPrefix
  simp only [bind, Except.bind]
  cases transformName T tag bnd st with
  | error e => rfl
  | ok s1 =>
    simp only
    cases transformValue T tag bnd s1 with
    | error e => rfl
    | ok s2 =>
      simp only
      cases transformDomid T tag bnd s2 with
      | error e => rfl
      | ok s3 =>
        simp only
        cases transformFor T tag bnd s3 with
        | error e => rfl
        | ok s4 => rfl

theorem prepareTag_gen {T : Tables} {order : List Str} {g : Gen} {tag : Str} {bnd : Option Bind}
    {kwargs : List (Str × Val)} {r : TagResult} (h : prepareTag T order g tag bnd kwargs = .ok r) :
    ({ g with ctx := r.ctx } : Gen) = g.afterFailedTag T tag bnd kwargs := by
  unfold prepareTag at h
  simp only [bind, Except.bind] at h
  rw [transform_eq_prefix] at h
  unfold Gen.afterFailedTag
  cases hp : transformPrefix T tag bnd ⟨Flatland.C11.transformKeys (Dict.erase kwargs "contents".toList),
      Dict.get? kwargs "contents".toList, g.ctx⟩ with
  | error e => rw [hp] at h; simp [Except.bind] at h
  | ok s5 =>
    rw [hp] at h
    simp only [Except.bind] at h
    cases hf : transformFilters T tag bnd s5 with
    | error e => rw [hf] at h; simp at h
    | ok st =>
      rw [hf] at h
      have hc := transformFilters_ctx hf
      have : r.ctx = st.ctx := by
        simp only at h
        close_leaves h
      simp only [this, hc]

theorem prepareTagF_gen {E : FilterEnv} {T : Tables} {order : List Str} {g : Gen} {tag : Str} {bnd : Option Bind}
    {kwargs : List (Str × Val)} {r : TagResult} (h : prepareTagF E T order g tag bnd kwargs = .ok r) :
    ({ g with ctx := r.ctx } : Gen) = g.afterFailedTag T tag bnd kwargs := by
  unfold prepareTagF transformF at h
  simp only [bind, Except.bind] at h
  unfold Gen.afterFailedTag
  cases hp : transformPrefix T tag bnd ⟨Flatland.C11.transformKeys (Dict.erase kwargs "contents".toList),
      Dict.get? kwargs "contents".toList, g.ctx⟩ with
  | error e => rw [hp] at h; simp at h
  | ok s5 =>
    rw [hp] at h
    simp only at h
    cases hf : transformFiltersF E T tag bnd s5 with
    | error e => rw [hf] at h; simp at h
    | ok st =>
      rw [hf] at h
      have hc := transformFiltersF_ctx hf
      have : r.ctx = st.ctx := by
        simp only at h
        close_leaves h
      simp only [this, hc]

/-- the generator after a tag call is the one `afterFailedTag` describes — whether the call
    returned or raised, with or without filters -/
theorem step_tag_gen (T : Tables) (R : RenderCfg) (g : Gen) (name : Str) (bnd : Option Bind) (kwargs : List (Str × Val)) :
    (step T R g (.tag name bnd kwargs)).1 = g.afterFailedTag T name bnd kwargs := by
  simp only [step]
  cases hc : g.callTag T R.attrChain R.voids R.order name bnd kwargs with
  | error e => rfl
  | ok r =>
    obtain ⟨s, g'⟩ := r
    simp only
    unfold Gen.callTag at hc
    simp only [bind, Except.bind] at hc
    cases hp : prepareTag T R.order g name bnd kwargs with
    | error e => rw [hp] at hc; simp at hc
    | ok r =>
      rw [hp] at hc; simp only at hc
      cases hr : Flatland.C11.renderTag R.attrChain R.voids g.xml name r.pairs r.contents with
      | error e => rw [hr] at hc; simp at hc
      | ok s' =>
        rw [hr] at hc
        simp only [pure, Except.pure, Except.ok.injEq, Prod.mk.injEq] at hc
        rw [← hc.2]; exact prepareTag_gen hp

theorem stepF_tag_gen (E : FilterEnv) (T : Tables) (R : RenderCfg) (g : Gen) (name : Str) (bnd : Option Bind)
    (kwargs : List (Str × Val)) :
    (stepF E T R g (.tag name bnd kwargs)).1 = g.afterFailedTag T name bnd kwargs := by
  simp only [stepF]
  cases hc : callTagF E T R g name bnd kwargs with
  | error e => rfl
  | ok r =>
    obtain ⟨s, g'⟩ := r
    simp only
    unfold callTagF at hc
    simp only [bind, Except.bind] at hc
    cases hp : prepareTagF E T R.order g name bnd kwargs with
    | error e => rw [hp] at hc; simp at hc
    | ok r =>
      rw [hp] at hc; simp only at hc
      cases hr : Flatland.C11.renderTag R.attrChain R.voids g.xml name r.pairs r.contents with
      | error e => rw [hr] at hc; simp at hc
      | ok s' =>
        rw [hr] at hc
        simp only [pure, Except.pure, Except.ok.injEq, Prod.mk.injEq] at hc
        rw [← hc.2]; exact prepareTagF_gen hp

/-- FILTERS NEVER TOUCH THE GENERATOR: one step of the filter-aware runner leaves the same
    generator as the plain one, for every filter environment -/
theorem stepF_gen (E : FilterEnv) (T : Tables) (R : RenderCfg) (g : Gen) (op : Op) :
    (stepF E T R g op).1 = (step T R g op).1 := by
  cases op with
  | tag name bnd kwargs => rw [stepF_tag_gen, step_tag_gen]
  | _ => rfl

/-- … hence the same generator after every history: `toggle_resolution_exact`, `end_restores`,
    `scope_tabindex_increasing`, … (all stated on `runGen`) speak about `runF` as well -/
theorem runF_gen (E : FilterEnv) (T : Tables) (R : RenderCfg) (ops : List Op) (g : Gen) :
    (runF E T R g ops).1 = runGen T R g ops := by
  induction ops generalizing g with
  | nil => rfl
  | cons op rest ih =>
    simp only [runF, runGen, run]
    have := stepF_gen E T R g op
    rw [show (stepF E T R g op) = ((stepF E T R g op).1, (stepF E T R g op).2) from rfl]
    simp only
    rw [ih, this]
    rfl

/-! ### option names in the output: only what a running filter writes itself -/

theorem get?_erase_none {β} (d : Dict β) (k k' : Str) (h : Dict.get? d k = none) :
    Dict.get? (Dict.erase d k') k = none := by
  rw [Dict.get?_eq_none_iff] at h ⊢
  intro hm; exact h (Dict.keys_erase_sub d k' k hm)

theorem writeAttrs_none (f : Filter) (a : Attrs) (k : Str) (hw : f.writes k = false)
    (h : Dict.get? a k = none) : Dict.get? (f.writeAttrs a) k = none := by
  unfold Filter.writeAttrs
  have h1 : ∀ (ds : List Str) (a : Attrs), Dict.get? a k = none →
      Dict.get? (ds.foldl (fun d k => Dict.erase d k) a) k = none := by
    intro ds
    induction ds with
    | nil => intro a h; exact h
    | cons d rest ih => intro a h; exact ih _ (get?_erase_none a k d h)
  have h2 : ∀ (ss : List (Str × Val)) (a : Attrs), ss.any (fun kv => kv.1 == k) = false →
      Dict.get? a k = none → Dict.get? (ss.foldl (fun d kv => Dict.set d kv.1 kv.2) a) k = none := by
    intro ss
    induction ss with
    | nil => intro a _ h; exact h
    | cons s rest ih =>
      intro a hs h
      simp only [List.any_cons, Bool.or_eq_false_iff, beq_eq_false_iff_ne, ne_eq] at hs
      apply ih _ hs.2
      rw [Dict.get?_set_other _ s.1 k s.2 (fun e => hs.1 e.symm)]; exact h
  exact h2 f.sets _ hw (h1 f.dels a h)

theorem runFilters_none {tag : Str} {fs : List Filter} {st st' : TState} (k : Str)
    (h : runFilters tag fs st = .ok st') (h0 : Dict.get? st.attrs k = none)
    (hw : ∀ f ∈ fs, f.wanted tag = true → f.writes k = false) : Dict.get? st'.attrs k = none := by
  induction fs generalizing st with
  | nil => simp [runFilters, pure, Except.pure] at h; rw [← h]; exact h0
  | cons f rest ih =>
    simp only [runFilters] at h
    split at h
    · rename_i hwant
      simp only [bind, Except.bind] at h
      cases ha : f.apply tag st with
      | error e => rw [ha] at h; simp at h
      | ok s1 =>
        rw [ha] at h
        apply ih h
        · rw [(filter_apply_shape ha).2]
          exact writeAttrs_none f _ k (hw f (List.mem_cons_self ..) hwant) h0
        · intro g hg; exact hw g (List.mem_cons_of_mem _ hg)
    · exact ih h h0 (fun g hg => hw g (List.mem_cons_of_mem _ hg))

/-- the five attribute transforms consume their five options -/
theorem prefix_clean {T : Tables} {tag : Str} {bnd : Option Bind} {st s5 : TState}
    (hnd : (Dict.keys st.attrs).Nodup) (h : transformPrefix T tag bnd st = .ok s5) :
    Clean ["auto_tabindex".toList, "auto_for".toList, "auto_domid".toList, "auto_value".toList,
      "auto_name".toList] s5.attrs := by
  unfold transformPrefix at h
  simp only [bind, Except.bind] at h
  cases h1 : transformName T tag bnd st with
  | error e => rw [h1] at h; simp at h
  | ok s1 =>
    rw [h1] at h; simp only at h
    cases h2 : transformValue T tag bnd s1 with
    | error e => rw [h2] at h; simp at h
    | ok s2 =>
      rw [h2] at h; simp only at h
      cases h3 : transformDomid T tag bnd s2 with
      | error e => rw [h3] at h; simp at h
      | ok s3 =>
        rw [h3] at h; simp only at h
        cases h4 : transformFor T tag bnd s3 with
        | error e => rw [h4] at h; simp at h
        | ok s4 =>
          rw [h4] at h; simp only at h
          have c0 : Clean [] st.attrs := ⟨hnd, by simp⟩
          have c1 := c0.step _ (by decide) (by simp) (transformName_reach h1)
          have c2 := c1.step _ (by decide) (by decide) (transformValue_reach h2)
          have c3 := c2.step _ (by decide) (by decide) (transformDomid_reach h3)
          have c4 := c3.step _ (by decide) (by decide) (transformFor_reach h4)
          exact c4.step _ (by decide) (by decide) (transformTabindex_reach h)

/-- OPTIONS NEVER EMITTED, WHOLE PIPELINE WITH FILTERS: for every input attribute map (distinct
    keys — `_transform_keys` guarantees it, `transformKeys_nodup`), every tag / bind / context /
    filter environment: after `transform` an option name is an attribute ONLY IF a filter that ran
    (in force, admitted by its `tags`, toggle on) writes that very name itself -/
theorem optionsF_never_emitted {E : FilterEnv} {T : Tables} {tag : Str} {bnd : Option Bind} {st st' : TState}
    (hnd : (Dict.keys st.attrs).Nodup) (h : transformF E T tag bnd st = .ok st')
    (k : Str) (hk : k ∈ optionKeys) :
    Dict.get? st'.attrs k = none ∨
    ∃ s5 fv fs f, transformPrefix T tag bnd st = .ok s5 ∧ s5.ctx.getItem sFilters = .ok fv ∧
      filtersOf E fv = .ok fs ∧ f ∈ fs ∧ f.wanted tag = true ∧ f.writes k = true := by
  unfold transformF at h
  simp only [bind, Except.bind] at h
  cases hp : transformPrefix T tag bnd st with
  | error e => rw [hp] at h; simp at h
  | ok s5 =>
    rw [hp] at h; simp only at h
    have c5 := prefix_clean hnd hp
    unfold transformFiltersF at h
    simp only [bind, Except.bind, pure, Except.pure] at h
    cases hpt : popToggle T sAutoFilter s5.attrs s5.ctx with
    | error e => rw [hpt] at h; simp at h
    | ok r =>
      have hs := popToggle_shape hpt
      rw [hpt] at h; simp only at h
      -- after the pop: all six gone
      have c6 : Clean (sAutoFilter :: ["auto_tabindex".toList, "auto_for".toList, "auto_domid".toList,
          "auto_value".toList, "auto_name".toList]) r.1 := by
        rw [hs]; exact c5.step _ (by decide) (by decide) (Reach.refl _)
      have hk6 : Dict.get? r.1 k = none := by
        apply c6.gone k
        simp only [optionKeys, sAutoFilter, List.mem_cons, List.not_mem_nil, or_false] at hk ⊢
        rcases hk with rfl | rfl | rfl | rfl | rfl | rfl <;> simp
      cases hf : s5.ctx.getItem sFilters with
      | error e => rw [hf] at h; simp at h
      | ok fv =>
        rw [hf] at h; simp only at h
        split at h
        · simp only [Except.ok.injEq] at h; left; rw [← h]; exact hk6
        · cases hfs : filtersOf E fv with
          | error e => rw [hfs] at h; simp at h
          | ok fs =>
            rw [hfs] at h; simp only at h
            by_cases hex : ∃ f ∈ fs, f.wanted tag = true ∧ f.writes k = true
            · obtain ⟨f, hfm, hw, hwr⟩ := hex
              right; exact ⟨s5, fv, fs, f, rfl, hf, hfs, hfm, hw, hwr⟩
            · left
              apply runFilters_none k h hk6
              intro f hfm hw
              cases hwr : f.writes k with
              | false => rfl
              | true => exact absurd ⟨f, hfm, hw, hwr⟩ hex

/-! ### with the default `()` the filter-aware pipeline is the shared one -/

theorem transformF_no_filters (E : FilterEnv) (T : Tables) (tag : Str) (bnd : Option Bind) (st s5 : TState)
    (hp : transformPrefix T tag bnd st = .ok s5)
    (hf : s5.ctx.getItem sFilters = .ok (.opaque "()".toList)) (hE : Dict.get? E "()".toList = none) :
    transformF E T tag bnd st = transform T tag bnd st := by
  rw [transform_eq_prefix]
  unfold transformF
  simp only [bind, Except.bind, hp]
  unfold transformFiltersF transformFilters
  simp only [bind, Except.bind, pure, Except.pure, sAutoFilter, sFilters] at hf ⊢
  cases hpt : popToggle T "auto_filter".toList s5.attrs s5.ctx with
  | error e => rfl
  | ok r =>
    simp only [hf]
    have hu : filtersOf E (.opaque "()".toList) = .ok [] := by
      simp only [filtersOf, hE, if_true]; rfl
    cases r.2.1
    · rfl
    · simp only [hu, Bool.not_true, Bool.false_eq_true, if_false]; rfl

/-! ### non-vacuity: two filters, the second gated away on `input`, threading of the contents -/

def fA : Filter := ⟨none, [], [("class".toList, .text "a".toList)], .append "[A]".toList⟩
def fB : Filter := ⟨some ["label".toList], [], [("auto_name".toList, .text "zz".toList)], .drop⟩
def fC : Filter := ⟨some [], ["class".toList], [], .appendTag⟩

example : runFilters "input".toList [fA, fB, fC] ⟨[], some (.text "x".toList), Ctx.init Tables.current⟩ =
    .ok ⟨[], some (.text "x[A]input".toList), Ctx.init Tables.current⟩ := by decide
example : (runFilters "label".toList [fA, fB, fC] ⟨[], some (.text "x".toList), Ctx.init Tables.current⟩).map (·.attrs) =
    .ok [("auto_name".toList, .text "zz".toList)] := by decide
example : fB.wanted "input".toList = false ∧ fC.wanted "input".toList = true ∧ fB.writes "auto_name".toList = true := by
  decide

end Flatland.C19.Proofs
