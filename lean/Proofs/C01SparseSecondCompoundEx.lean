/-
C01, second round trip — non-vacuity of `roundtrip_sparse_second_flat_compound_partial`:
a pruning List of SparseDicts holding a DateYYYYMMDD-like Compound (own text = the members' texts
concatenated) and an optional sibling.
-/
import Proofs.C01SparseSecond
namespace Flatland.Flat.Proofs
open Flatland.Flat Flatland.Flat.Spec

/-- a Compound's own text: its members' texts, concatenated -/
def exEnvCat : Env :=
  { norm := fun _ s => s, compose := fun _ us => (us.map (·.2)).flatten, joinedMembers := fun _ _ => [],
    ndZeros := [48], maxDigits := 4300 }

theorem exEnvCatOK : EnvOK exEnvCat := ⟨[], rfl⟩

/-- List `l` (pruning) of `SparseDict{ date: Compound{y, m, d}, note?: String }` -/
def exCSchema : Schema :=
  .list (some "l".toList) false true 1024
    (.dict none false .sparse
      [ .compound (some "date".toList) false 1
          [ .leaf (some "y".toList) false 0, .leaf (some "m".toList) false 0,
            .leaf (some "d".toList) false 0 ],
        .leaf (some "note".toList) true 0 ])

/-- three members: `note` held before `date`; an all-empty date (pruned by trip 1); an empty `note`
    (lost below the pruning List) beside a date with only the year set -/
def exCElem : Elem :=
  .list [ .dict [ ("note".toList, .leaf "n".toList),
                  ("date".toList, .dict [ ("y".toList, .leaf "2024".toList), ("m".toList, .leaf "01".toList),
                                          ("d".toList, .leaf "02".toList) ]) ],
          .dict [ ("date".toList, .dict [ ("y".toList, .leaf []), ("m".toList, .leaf []),
                                          ("d".toList, .leaf []) ]) ],
          .dict [ ("note".toList, .leaf []),
                  ("date".toList, .dict [ ("y".toList, .leaf "1999".toList), ("m".toList, .leaf []),
                                          ("d".toList, .leaf []) ]) ] ]

theorem exC_sepSafe : SepSafe exEnvCat "_".toList (Tok exCSchema) := by
  apply sepSafe_single_char exEnvCat exEnvCatOK exCSchema '_'
  · decide
  · intro t ht
    simp only [exCSchema, names, namesL, Option.toList, List.nil_append, List.append_nil,
      List.mem_append, List.mem_cons, List.mem_singleton, List.not_mem_nil, or_false,
      List.cons_append] at ht
    rcases ht with rfl | rfl | rfl | rfl | rfl | rfl <;> decide

theorem exC_ok : OkS exEnvCat exCSchema exCElem := by
  simp only [exCSchema, exCElem, OkS]
  refine ⟨by decide, fun i hi => ?_, ?_⟩
  · have h : i < 10 := by simp at hi; omega
    rw [natStr_lt i h]; simp [exEnvCat]
  · intro e he
    simp only [List.mem_cons, List.not_mem_nil, or_false] at he
    rcases he with rfl | rfl | rfl <;> exact okSB_sound exEnvCat _ _ (by decide)

theorem exC_compoundsFull : compoundsFull exCSchema exCElem = true := by decide
theorem exC_not_compoundFree : compoundFree exCSchema = false := by decide

/-- all hypotheses of `roundtrip_sparse_second_flat_compound_partial` hold of a schema mixing a
    SparseDict and a Compound below a pruning List -/
theorem exC_second :
    flatten exEnvCat "_".toList exCSchema (fromFlat exEnvCat "_".toList exCSchema
      (flatten exEnvCat "_".toList exCSchema (fromFlat exEnvCat "_".toList exCSchema
        (flatten exEnvCat "_".toList exCSchema exCElem))))
    = flatten exEnvCat "_".toList exCSchema (fromFlat exEnvCat "_".toList exCSchema
      (flatten exEnvCat "_".toList exCSchema exCElem)) :=
  roundtrip_sparse_second_flat_compound_partial exEnvCat "_".toList exCSchema exCElem exC_sepSafe
    exEnvCatOK (by decide) (by decide) (by decide) (by decide) exC_compoundsFull (by decide) exC_ok

/-- trip 1 is not the identity: it prunes the all-empty member, drops the empty `note`, and puts
    `date` before `note` -/
theorem exC_trip1 : prS exEnvCat "_".toList false exCSchema exCElem
    = .list [ .dict [ ("date".toList, .dict [ ("y".toList, .leaf "2024".toList), ("m".toList, .leaf "01".toList),
                                              ("d".toList, .leaf "02".toList) ]),
                      ("note".toList, .leaf "n".toList) ],
              .dict [ ("date".toList, .dict [ ("y".toList, .leaf "1999".toList), ("m".toList, .leaf []),
                                              ("d".toList, .leaf []) ]) ] ] := by
  simp only [exCSchema, exCElem]
  simp [prS, prSPick, pr, innerPairs, touched, isReq, keepS, emitsB, lookup, isPrefix,
    Schema.name, Schema.opt, blank, blankFields, blankRequired, flatten, flattenNode, resolve,
    resolveMembers, resolveOne, resolveList, uOf, usOf, exEnvCat,
    membersOf, bfsFlat, childItems, kidsFrom, namePath, joinSep, natStr, digitChar, FNode.fl, FNode.cfl,
    FNode.u, FNode.name, FNode.kids, FNode.slots]

end Flatland.Flat.Proofs
