/-
C18 — JoinedString: "value is always the separator-join of its members' texts", for any member
type.  Model: Flatland/C18Joined.lean; spec: `Flatland.C18.Spec.sepJoin` (core `List.intercalate`).
-/
import Flatland.C18Joined
import Flatland.Spec.C18
import Proofs.C04
namespace Flatland.C18.Joined.Proofs
open Flatland.Scalar Flatland.C18 Flatland.C18.Spec Flatland.C18.Joined
open Flatland.C04.Proofs (plainEnv)

theorem foldl_join (sep : Str) (acc : Str) (xs : List Str) :
    xs.foldl (fun acc y => acc ++ sep ++ y) acc = acc ++ (xs.map (sep ++ ·)).flatten := by
  induction xs generalizing acc with
  | nil => simp
  | cons x xs ih => simp [List.append_assoc]

theorem sepJoin_cons (sep : Str) (x : Str) (xs : List Str) :
    sepJoin sep (x :: xs) = x ++ (xs.map (sep ++ ·)).flatten := by
  unfold sepJoin List.intercalate
  induction xs generalizing x with
  | nil => simp
  | cons y ys ih =>
    have := ih y
    simp only [List.intersperse_cons_cons, List.flatten_cons, List.map_cons] at this ⊢
    rw [this]
    simp [List.append_assoc]

/-- the left-to-right loop of `str.join` computes the separator-join -/
theorem pyJoin_eq_sepJoin (sep : Str) (xs : List Str) : pyJoin sep xs = sepJoin sep xs := by
  cases xs with
  | nil => rfl
  | cons x xs => rw [pyJoin, foldl_join, sepJoin_cons]

/-- the recursive `joinStr` of the scalar model computes it too -/
theorem joinStr_eq_sepJoin (sep : Str) (xs : List Str) : joinStr sep xs = sepJoin sep xs := by
  induction xs with
  | nil => rfl
  | cons x xs ih =>
    cases xs with
    | nil => simp [joinStr, sepJoin_cons]
    | cons y ys =>
      rw [joinStr, ih, sepJoin_cons, sepJoin_cons]
      · simp [List.append_assoc]
      · simp

variable {M : Type}

/-- **joined_value_generic** — for ANY member type (opaque `set` and text tables), separator and
    member list: `.value` as the code computes it is the separator-join of the members' current texts,
    and `.u` is the same text -/
theorem joined_value_generic (T : MemberType M) (sep : Str) (ms : List M) :
    value T sep ms = sepJoin sep (ms.map T.text) ∧ u T sep ms = sepJoin sep (ms.map T.text) :=
  ⟨pyJoin_eq_sepJoin _ _, pyJoin_eq_sepJoin _ _⟩

/-- after every completed step of the history, the machine's `.value` is the separator-join of the
    texts of the members it has at that moment -/
def ValueIsJoin {σ : Type} [DecidableEq Str] (Mc : Machine M σ) (T : MemberType M) (sep : Str) : σ → List (Op M) → Bool
  | _, [] => true
  | s, op :: rest =>
    match Mc.step s op with
    | .error _ => true
    | .ok (s', _) => decide (Mc.value s' = sepJoin sep ((Mc.members s').map T.text)) && ValueIsJoin Mc T sep s' rest

/-- **joined_value_history** — BY CONSTRUCTION of `value` (the machine `code` has no state but the members and
    recomputes the join on every read, so this holds for ANY step function; what it contributes is that the model
    says so and the correspondence compares it with the code; see `joined_value_history_cached` for a statement in
    which the operations matter).  For ANY member type, separator, prune setting, start state and
    history of whole-element sets (any pieces), non-iterable sets, member `set()`, `append`, `del`
    and arbitrary changes of a member behind the element's back: after every completed step the
    value read from the element is the separator-join of the texts its members have at that
    moment.  (`storedValue_fails`: false for a JoinedString that keeps the value of its last
    `set()`.) -/
theorem joined_value_history (T : MemberType M) (sep : Str) (prune : Bool) (ms : List M) (ops : List (Op M)) :
    ValueIsJoin (code T sep prune) T sep ms ops = true := by
  induction ops generalizing ms with
  | nil => rfl
  | cons op rest ih =>
    simp only [ValueIsJoin]
    cases h : (code T sep prune).step ms op with
    | error e => rfl
    | ok res =>
      obtain ⟨ms', r⟩ := res
      simp only [Bool.and_eq_true, decide_eq_true_eq]
      exact ⟨(joined_value_generic T sep ms').1, ih ms'⟩

/-- a JoinedString that stores the value at `set()` time does not satisfy it:
    `el.set('a,b'); el[0].set('z')` then still reads `'a,b'` -/
theorem storedValue_fails :
    ¬ ∀ (s : List SState × Str) (ops : List (Op SState)),
        ValueIsJoin (stored (scalarMember plainEnv (.string true)) [','] true) (scalarMember plainEnv (.string true)) [','] s ops = true := by
  intro h
  have := h ([], []) [.setPieces [.str ['a'], .str ['b']], .member 0 (.str ['z'])]
  revert this
  decide

/-! ### a theorem in which the set of operations matters (n3)

`joined_value_history` above holds BY CONSTRUCTION of `value` (the code's `.value` is the join of the current
members, whatever the step function does).  For a machine that caches, the statement depends on which
operations invalidate: -/

/-- the cache, when present, is the join of the current members -/
def Coh (T : MemberType M) (sep : Str) (s : List M × Option Str) : Prop :=
  s.2 = none ∨ s.2 = some (value T sep s.1)

/-- **joined_value_history_cached** — a JoinedString that stores the value of its last `set()` and invalidates
    on member `set()` / `append` / `del` reads the separator-join of its members' current texts after every step
    of every history WITHOUT changes behind its back (`NoPoke`), from every coherent start. -/
theorem joined_value_history_cached (T : MemberType M) (sep : Str) (prune : Bool) (s : List M × Option Str)
    (hs : Coh T sep s) (ops : List (Op M)) (hops : NoPoke ops = true) :
    ValueIsJoin (cached T sep prune) T sep s ops = true := by
  induction ops generalizing s with
  | nil => rfl
  | cons op rest ih =>
    simp only [ValueIsJoin]
    cases h : (cached T sep prune).step s op with
    | error e => rfl
    | ok res =>
      obtain ⟨s', r⟩ := res
      have hrest : NoPoke rest = true := by cases op <;> simp_all [NoPoke]
      have hcoh : Coh T sep s' := by
        simp only [cached] at h
        cases hst : step T prune s.1 op with
        | error e => simp [hst] at h
        | ok q =>
          obtain ⟨ms, r'⟩ := q
          cases op <;> simp_all [NoPoke, Coh] <;> (obtain ⟨rfl, _⟩ := h; simp)
      simp only [Bool.and_eq_true, decide_eq_true_eq]
      refine ⟨?_, ih s' hcoh hrest⟩
      have hj := (joined_value_generic T sep s'.1).1
      rcases hcoh with hc | hc <;> simp [cached, hc, hj]

/-- **cached_poke_fails** — … and NOT after one change behind its back: `el.set('a,b')`, then the first member's
    text changed without going through the element, still reads `'a,b'`.  (`storedValue_fails` is the same
    failure for the machine that never invalidates, already on a member `set()`.) -/
theorem cached_poke_fails :
    ¬ ∀ (s : List SState × Option Str) (ops : List (Op SState)),
        ValueIsJoin (cached (scalarMember plainEnv (.string true)) [','] true) (scalarMember plainEnv (.string true)) [','] s ops = true := by
  intro h
  have := h ([], none) [.setPieces [.str ['a'], .str ['b']], .poke 0 ⟨.str ['z'], .str ['z'], ['z']⟩]
  revert this
  decide

/-- non-vacuity: a history with whole sets, a member set, an append and a del, no poke: the cached machine
    agrees with the join throughout (and its cache is actually used after the `set`) -/
example : ValueIsJoin (cached (scalarMember plainEnv (.string true)) [','] true) (scalarMember plainEnv (.string true)) [',']
    ([], none) [.setPieces [.str ['a'], .str ['b']], .member 0 (.str ['z']), .append (.str ['c']), .delete 1,
                .setPieces [.str ['q']]] = true := by decide

/-- what the loop keeps under prune_empty has a non-empty text — for any member type -/
theorem setLoop_noEmpty (T : MemberType M) (vs : List Native) (acc : List M) (succ : List Bool)
    (ms : List M) (fl : List Bool) (hacc : ∀ m ∈ acc, T.text m ≠ [])
    (h : setLoop T true vs acc succ = .ok (ms, fl)) : ∀ m ∈ ms, T.text m ≠ [] := by
  induction vs generalizing acc succ with
  | nil => simp only [setLoop, Except.ok.injEq, Prod.mk.injEq] at h; obtain ⟨rfl, _⟩ := h; exact hacc
  | cons v vs ih =>
    simp only [setLoop] at h
    split at h
    · cases h
    · rename_i child adapted hset
      split at h
      · exact ih acc succ hacc h
      · rename_i hne
        apply ih (acc ++ [child]) (succ ++ [adapted]) _ h
        intro m hm
        rcases List.mem_append.mp hm with hm | hm
        · exact hacc m hm
        · simp only [List.mem_singleton] at hm
          subst hm
          intro hempty
          apply hne
          simp [hempty]

/-- **set_establishes_noEmpty_generic** — for ANY member type: after a completed whole-element
    `set()` of a pruning JoinedString no member has the text `''` -/
theorem set_establishes_noEmpty_generic (T : MemberType M) (ms : List M) (vs : List Native) (ms' : List M)
    (r : Option Bool) (h : step T true ms (.setPieces vs) = .ok (ms', r)) : ∀ m ∈ ms', T.text m ≠ [] := by
  simp only [step] at h
  split at h
  · rename_i ms'' succ hloop
    simp only [Except.ok.injEq, Prod.mk.injEq] at h
    obtain ⟨rfl, _⟩ := h
    exact setLoop_noEmpty T vs [] [] _ _ (by simp) hloop
  · cases h

example : step (scalarMember plainEnv (.string true)) true [] (.setPieces [.str ['a'], .str [' '], .str ['b']]) =
    .ok ([⟨.str ['a'], .str ['a'], ['a']⟩, ⟨.str ['b'], .str ['b'], ['b']⟩], some true) := by rfl

end Flatland.C18.Joined.Proofs
