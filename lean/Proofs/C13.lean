/-
C13 — fq_name() is the inverse of find().

Model A = Flatland/Path.lean (`fqName`, `find`), spec B = Flatland/Spec/C13.lean (`Inverse`).

* `find_fq`        for every tree, every start element (anywhere, strict or not) and every
                   position `pos` that is `PathOK` — it exists, the Dict keys on the way address
                   their own child, the field names on the way are non-empty and only the last
                   may end in a backslash; sequence indexes stay below the interpreter's
                   int-digit limit —
                   `find(start, fq_name(pos)) = [pos]`;
* `fqName_root`    the root's `fq_name()` is `/`;
* `tokenize_fqName` `tokenize(fq_name(pos)) = [TOP] ++ [NAME seg ...]` with the *unescaped* segments;
* `C13_partial`    `Inverse root` whenever every position of the tree is `PathOK`;
* `pathOK_of_addressable`  `PathOK` follows from spec B's `addressable` plus the tree invariants
                   the library guarantees (`TreeInv`: scalars are leaves, Dict keys are unique,
                   sequences are shorter than 10^4300);
* `C13_Full` / `C13_full_fails`  the unrestricted law is false of the code as it is: a Dict field
                   named `""` (KF-C13-b); `C13_full_fails_backslash`: a Dict named `y\` with a
                   child (KF-C13-a: nothing below a name ending in a backslash can be addressed);
* `C13_full_fails_key`  an element stored under a key different from its name (KF-C13-c): `find`
                   looks up keys, `fq_name` prints names; `key = name` is therefore the explicit
                   hypothesis [KeyIsName] of `addressable`, not part of `TreeInv`;
* `C13_backslash_dot_ok`  a field named `a\.b` — the part of KF-C13-a fixed by b49b3eb — now
                   satisfies the law.
-/
import Flatland.Path
import Flatland.Spec.C13
import Proofs.Lemmas.PathInt
import Proofs.Lemmas.PathScan
import Proofs.Lemmas.PathEscape
import Proofs.Lemmas.C14Work
namespace Flatland.C13.Proofs
open Flatland.Path Flatland.C13.Spec Flatland.Path.Lemmas Flatland.Generated.C14 Flatland.C14.Proofs

/-! ### what `fq_name` emits -/

/-- the text `fq_name` emits for the step from a container of kind `k` to its `i`-th child `c` -/
def segText (k : Kind) (i : Nat) (c : Node) : Str :=
  if k == .list || k == .array then natStr i else escapeName c.name

def segs : Node → Pos → List Str
  | _, [] => []
  | .mk k _ _ kids, i :: p =>
    match kids[i]? with
    | none => []
    | some c => segText k i c :: segs c p

theorem fqParts_chain : ∀ (n : Node) (pos : Pos), fqParts none (chain n pos) = segs n pos
  | _, [] => by simp [chain, fqParts, segs]
  | .mk k ky nm kids, i :: p => by
    simp only [chain, segs]
    cases hk : kids[i]? with
    | none => simp [fqParts]
    | some c =>
      simp only
      cases k with
      | list =>
        have hne : (natStr i).isEmpty = false := by
          cases h : natStr i with
          | nil => exact absurd h (natStr_ne_nil i)
          | cons _ _ => rfl
        simp [fqParts, segText, hne, fqParts_chain c p]
      | array => simp [fqParts, pathSegment, segText, fqParts_chain c p]
      | map => simp [fqParts, pathSegment, segText, fqParts_chain c p]
      | scalar => simp [fqParts, pathSegment, segText, fqParts_chain c p]

theorem joinSlash_slashJoin : ∀ (l : List Str), l ≠ [] → '/' :: joinSlash l = slashJoin l
  | [], h => absurd rfl h
  | [a], _ => by simp [joinSlash, slashJoin]
  | a :: b :: r, _ => by
    have := joinSlash_slashJoin (b :: r) (by simp)
    simp only [joinSlash, slashJoin, List.flatMap_cons] at this ⊢
    rw [← this]
    simp

/-! ### the restriction -/

def stepOK (k : Kind) (kids : List Node) (i : Nat) (c : Node) (lastStep : Bool) : Bool :=
  match k with
  | .scalar => false
  | .map =>
    findName (some c.name) kids == some i && !c.name.isEmpty && (lastStep || !endsWithBackslash c.name)
  | _ => decide ((natStr i).length ≤ intMaxDigits ∨ intMaxDigits = 0)

def PathOK : Node → Pos → Bool
  | _, [] => true
  | .mk k _ _ kids, i :: p =>
    match kids[i]? with
    | none => false
    | some c => stepOK k kids i c p.isEmpty && PathOK c p

/-- the part of `stepOK` that is about SPELLING only (what `tokenize` needs): a Dict child's name is
    non-empty and only the last one may end in a backslash; sequence indexes fit `int()`'s digit limit.
    The other part of `stepOK` — the key lookup hits the child — is what `find` adds. -/
def stepSpell (k : Kind) (i : Nat) (c : Node) (lastStep : Bool) : Bool :=
  match k with
  | .scalar => false
  | .map => !c.name.isEmpty && (lastStep || !endsWithBackslash c.name)
  | _ => decide ((natStr i).length ≤ intMaxDigits ∨ intMaxDigits = 0)

def SpellOK : Node → Pos → Bool
  | _, [] => true
  | .mk k _ _ kids, i :: p =>
    match kids[i]? with
    | none => false
    | some c => stepSpell k i c p.isEmpty && SpellOK c p

theorem stepSpell_of_stepOK (k : Kind) (kids : List Node) (i : Nat) (c : Node) (lastStep : Bool)
    (h : stepOK k kids i c lastStep = true) : stepSpell k i c lastStep = true := by
  cases k with
  | scalar => simp [stepOK] at h
  | list => exact h
  | array => exact h
  | map =>
    simp only [stepOK, Bool.and_eq_true] at h
    simp only [stepSpell, Bool.and_eq_true]
    exact ⟨h.1.2, h.2⟩

theorem spellOK_of_pathOK : ∀ (pos : Pos) (n : Node), PathOK n pos = true → SpellOK n pos = true
  | [], _, _ => rfl
  | i :: p, .mk k ky nm kids, h => by
    simp only [PathOK] at h
    simp only [SpellOK]
    cases hk : kids[i]? with
    | none => rw [hk] at h; simp at h
    | some c =>
      rw [hk] at h
      simp only [Bool.and_eq_true] at h ⊢
      exact ⟨stepSpell_of_stepOK k kids i c _ h.1, spellOK_of_pathOK p c h.2⟩

/-- facts about one emitted segment -/
theorem segText_facts (k : Kind) (i : Nat) (c : Node) (lastStep : Bool)
    (h : stepSpell k i c lastStep = true) :
    segText k i c ≠ [] ∧ cleanB lastStep (segText k i c) = true ∧ PlainSeg (segText k i c) := by
  cases k with
  | scalar => simp [stepSpell] at h
  | list => simp only [segText]; have := natStr_facts lastStep i; exact ⟨this.1, this.2.1, this.2.2.1⟩
  | array => simp only [segText]; have := natStr_facts lastStep i; exact ⟨this.1, this.2.1, this.2.2.1⟩
  | map =>
    simp only [stepSpell, Bool.and_eq_true, Bool.not_eq_true', Bool.or_eq_true] at h
    obtain ⟨h2, h4⟩ := h
    have hne : c.name ≠ [] := by
      intro e; rw [e] at h2; simp at h2
    have he : lastStep = true ∨ endsWithBackslash c.name = false := h4
    have := escapeName_facts lastStep c.name hne he
    simp only [segText]
    exact ⟨this.1, this.2.1, this.2.2.1⟩

theorem segs_nil_iff (n : Node) (pos : Pos) (h : SpellOK n pos = true) : segs n pos = [] ↔ pos = [] := by
  cases pos with
  | nil => simp [segs]
  | cons i p =>
    cases n with | mk k ky nm kids =>
    simp only [SpellOK] at h
    simp only [segs]
    cases hk : kids[i]? with
    | none => rw [hk] at h; simp at h
    | some c => simp

theorem segs_ok : ∀ (pos : Pos) (n : Node), SpellOK n pos = true → pos ≠ [] →
    SegsOK (segs n pos) ∧ ∀ x ∈ segs n pos, PlainSeg x
  | [], _, _, h => absurd rfl h
  | i :: p, .mk k ky nm kids, hok, _ => by
    simp only [SpellOK] at hok
    simp only [segs]
    cases hk : kids[i]? with
    | none => rw [hk] at hok; simp at hok
    | some c =>
      rw [hk] at hok
      simp only [Bool.and_eq_true] at hok ⊢
      obtain ⟨hstep, hrest⟩ := hok
      have hf := segText_facts k i c p.isEmpty hstep
      cases p with
      | nil =>
        simp only [segs, List.isEmpty_nil] at hf ⊢
        exact ⟨⟨hf.1, hf.2.1⟩, by intro x hx; simp at hx; subst hx; exact hf.2.2⟩
      | cons j p' =>
        have ih := segs_ok (j :: p') c hrest (by simp)
        have hne : segs c (j :: p') ≠ [] := by
          intro e
          have := (segs_nil_iff c (j :: p') hrest).1 e
          simp at this
        simp only [List.isEmpty_cons] at hf
        cases hs : segs c (j :: p') with
        | nil => exact absurd hs hne
        | cons s2 rest =>
          rw [hs] at ih
          refine ⟨⟨hf.1, hf.2.1, ih.1⟩, ?_⟩
          intro x hx
          simp only [List.mem_cons] at hx
          rcases hx with hx | hx
          · subst hx; exact hf.2.2
          · exact ih.2 x (by simp only [List.mem_cons]; exact hx)

/-! ### evaluation of the emitted names -/

theorem get?_append_single : ∀ (el : Pos) (root n : Node) (i : Nat), root.get? el = some n →
    root.get? (el ++ [i]) = (n.kids)[i]?.bind (fun c => some c)
  | [], root, n, i, h => by
    simp only [Node.get?, Option.some.injEq] at h
    subst h
    cases root with | mk k ky nm kids =>
    simp only [List.nil_append, Node.get?, Node.kids]
    cases kids[i]? <;> simp [Node.get?]
  | j :: el, .mk k ky nm kids, n, i, h => by
    simp only [List.cons_append, Node.get?] at h ⊢
    cases hk : kids[j]? with
    | none => rw [hk] at h; simp at h
    | some c =>
      rw [hk] at h
      simp only at h ⊢
      exact get?_append_single el c n i h

theorem unescape_segText (k : Kind) (i : Nat) (c : Node) (lastStep : Bool)
    (h : stepSpell k i c lastStep = true) :
    unescape (segText k i c) = if k == .list || k == .array then natStr i else c.name := by
  cases k with
  | scalar => simp [stepSpell] at h
  | list => simp only [segText]; exact (natStr_facts lastStep i).2.2.2
  | array => simp only [segText]; exact (natStr_facts lastStep i).2.2.2
  | map =>
    simp only [stepSpell, Bool.and_eq_true, Bool.not_eq_true', Bool.or_eq_true] at h
    obtain ⟨h2, h4⟩ := h
    have hne : c.name ≠ [] := by
      intro e; rw [e] at h2; simp at h2
    have := escapeName_facts lastStep c.name hne h4
    simp only [segText]
    exact this.2.2.2

/-- the name `fq_name` emits for a step looks up exactly that child -/
theorem index_segText (k : Kind) (ky : Option Str) (nm : Str) (kids : List Node) (i : Nat) (c : Node) (lastStep : Bool)
    (hk : kids[i]? = some c) (h : stepOK k kids i c lastStep = true) :
    (Node.mk k ky nm kids).index (some (unescape (segText k i c))) = some i := by
  rw [unescape_segText k i c lastStep (stepSpell_of_stepOK k kids i c lastStep h)]
  have hi : i < kids.length := by
    rcases Nat.lt_or_ge i kids.length with h | h
    · exact h
    · rw [List.getElem?_eq_none h] at hk; cases hk
  cases k with
  | scalar => simp [stepOK] at h
  | map =>
    simp only [stepOK, Bool.and_eq_true, beq_iff_eq] at h
    simp [Node.index, Node.kind, Node.kids, h.1.1]
  | list =>
    simp only [stepOK, decide_eq_true_eq] at h
    simp [Node.index, Node.kind, Node.kids, pyInt_natStr i h, pyListIndex_nat _ _ hi]
  | array =>
    simp only [stepOK, decide_eq_true_eq] at h
    simp [Node.index, Node.kind, Node.kids, pyInt_natStr i h, pyListIndex_nat _ _ hi]

theorem runCtx_segs (root : Node) (strict : Bool) : ∀ (pos : Pos) (n : Node) (el : Pos),
    PathOK n pos = true → root.get? el = some n →
    runCtx root strict ((segs n pos).map (fun s => Op.name (some (unescape s)))) el
      = .ok (.found (el ++ pos))
  | [], n, el, _, _ => by simp [segs, runCtx]
  | i :: p, .mk k ky nm kids, el, hok, hg => by
    simp only [PathOK] at hok
    simp only [segs]
    cases hk : kids[i]? with
    | none => rw [hk] at hok; simp at hok
    | some c =>
      rw [hk] at hok
      simp only [Bool.and_eq_true] at hok
      obtain ⟨hstep, hrest⟩ := hok
      simp only [List.map_cons, runCtx, indexAt, hg, index_segText k ky nm kids i c p.isEmpty hk hstep]
      have hg' : root.get? (el ++ [i]) = some c := by
        rw [get?_append_single el root _ i hg]
        simp [Node.kids, hk]
      rw [runCtx_segs root strict p c (el ++ [i]) hrest hg']
      simp

/-! ### `tokenize` of the emitted path -/

theorem tokenize_slash : tokenize ['/'] = .ok [.top] := by
  unfold tokenize
  have hs : scan none ['/'] = [(['/'], [])] := by
    rw [scan_cons, scanStep_slash none [] (by simp)]
    simp [scan]
  rw [hs]
  simp [tokLoop, tokStep_slash_first]

/-- well-formed segments are non-empty, so `fq_name` appends no extra slash (05c4adc) -/
theorem lastEmpty_segsOK : ∀ l : List Str, SegsOK l → lastEmpty l = false
  | [], _ => rfl
  | [s], h => by
    obtain ⟨hne, _⟩ := h
    cases s with
    | nil => exact absurd rfl hne
    | cons c r => rfl
  | s :: s2 :: r, h => by
    obtain ⟨_, _, hr⟩ := h
    have := lastEmpty_segsOK (s2 :: r) hr
    simpa [lastEmpty, List.getLast?_cons_cons] using this

/-- **`tokenize(fq_name(pos))`**: TOP and one NAME per step, carrying the unescaped segment -/
theorem tokenize_fqName (root : Node) (pos : Pos) (hok : SpellOK root pos = true) :
    tokenize (fqName root pos)
      = .ok (Op.top :: (segs root pos).map (fun s => Op.name (some (unescape s)))) := by
  cases pos with
  | nil => simp [fqName, segs, tokenize_slash]
  | cons i p =>
    have hso := segs_ok (i :: p) root hok (by simp)
    have hne : segs root (i :: p) ≠ [] := by
      intro e
      have := (segs_nil_iff root (i :: p) hok).1 e
      simp at this
    simp only [fqName, List.isEmpty_cons, Bool.false_eq_true, if_false, fqParts_chain]
    rw [lastEmpty_segsOK _ hso.1, if_neg (by simp), List.append_nil, joinSlash_slashJoin _ hne]
    cases hs : segs root (i :: p) with
    | nil => exact absurd hs hne
    | cons s rest =>
      rw [hs] at hso
      exact tokenize_segs s rest hso.1 hso.2

theorem names_noZero : ∀ l : List Str,
    Flatland.C14.Proofs.NoZero (l.map (fun s => Op.name (some (unescape s)))) = true
  | [] => rfl
  | a :: r => by
    have := names_noZero r
    simp only [Flatland.C14.Proofs.NoZero, List.map_cons, List.all_cons, Bool.and_eq_true] at this ⊢
    exact ⟨rfl, this⟩

/-- evaluating the compiled `fq_name()` from anywhere yields exactly the element -/
theorem eval_fq (root : Node) (start pos : Pos) (strict : Bool) (hok : PathOK root pos = true) :
    evalOps root strict (Op.top :: (segs root pos).map (fun s => Op.name (some (unescape s)))) start
      = .ok [pos] := by
  have hz : Flatland.C14.Proofs.NoZero (Op.top :: (segs root pos).map (fun s => Op.name (some (unescape s)))) = true := by
    have := names_noZero (segs root pos)
    simp only [Flatland.C14.Proofs.NoZero, List.all_cons, Bool.and_eq_true] at this ⊢
    exact ⟨rfl, this⟩
  -- the work list on a slice-free op list is a single context
  have hw := Flatland.C14.Proofs.work_level root strict _ _ (Nat.le_refl _) (Or.inl hz) [start]
  simp only [List.map_cons, List.map_nil] at hw
  unfold evalOps
  rw [hw]
  simp only [Flatland.C14.Spec.flatMapM, Flatland.C14.Proofs.denOps_of_runCtx, runCtx]
  rw [runCtx_segs root strict pos root [] hok rfl]
  simp

/-- **the inverse law at one position**, from any start element, strict or not -/
theorem find_fq (root : Node) (start pos : Pos) (strict : Bool) (hok : PathOK root pos = true) :
    find root start (fqName root pos) false strict = .many [pos] := by
  unfold find
  rw [tokenize_fqName root pos (spellOK_of_pathOK pos root hok)]
  simp only [eval_fq root start pos strict hok]
  rfl

/-- the same through `find_one` / `single=True`: the element itself -/
theorem find_one_fq (root : Node) (start pos : Pos) (strict : Bool) (hok : PathOK root pos = true) :
    find root start (fqName root pos) true strict = .one (some pos) := by
  unfold find
  rw [tokenize_fqName root pos (spellOK_of_pathOK pos root hok)]
  simp only [eval_fq root start pos strict hok]
  rfl

/-- **`fq_name()` names its element uniquely**: two addressable positions with the same
    `fq_name()` are the same position -/
theorem fqName_injective (root : Node) (p q : Pos) (hp : PathOK root p = true) (hq : PathOK root q = true)
    (h : fqName root p = fqName root q) : p = q := by
  have h1 := find_fq root [] p true hp
  have h2 := find_fq root [] q true hq
  rw [h, h2] at h1
  simp only [FindRes.many.injEq, List.cons.injEq, and_true] at h1
  exact h1.symm

/-- the root's `fq_name()` is `/` -/
theorem fqName_root (root : Node) : fqName root [] = ['/'] := rfl

/-- **C13 on every tree whose positions are all `PathOK`** -/
theorem C13_partial (root : Node)
    (h : ∀ pos, (root.get? pos).isSome = true → PathOK root pos = true) : Inverse root := by
  refine ⟨fqName_root root, ?_⟩
  intro start pos _ hp
  unfold isInverseAt
  rw [find_fq root start pos true (h pos hp)]
  simp

/-- non-vacuity: Dict{"a/b": List[String, String], "..": String}; every position is PathOK -/
example : PathOK (.mk .map (some []) [] [.mk .list (some ['a', '/', 'b']) ['a', '/', 'b'] [.mk .scalar (some []) [] [], .mk .scalar (some []) [] []],
      .mk .scalar (some ['.', '.']) ['.', '.'] []]) [0, 1] = true := by
  simp [PathOK, stepOK, findName, Node.name, Node.key, endsWithBackslash, intMaxDigits, natStr]

/-! ### from spec B's `addressable` and the library's tree invariants -/

/-- what the library guarantees of every element tree: scalars have no children, a mapping's
    keys address their own child (dict keys are unique), sequence indexes fit `int()`'s digit
    limit.  That a child's key equals its *name* is NOT among them (KF-C13-c); it is the
    explicit hypothesis [KeyIsName] inside spec B's `addressable`. -/
def TreeInv (root : Node) : Prop :=
  ∀ (p : Pos) (k : Kind) (ky : Option Str) (nm : Str) (kids : List Node), root.get? p = some (.mk k ky nm kids) →
    (k = .scalar → kids = []) ∧
    (k = .map → ∀ i c, kids[i]? = some c → findName c.key kids = some i) ∧
    ((k = .list ∨ k = .array) → ∀ i, i < kids.length →
      ((natStr i).length ≤ intMaxDigits ∨ intMaxDigits = 0))

/-- no Dict child on the way is an UNNAMED field (stored under the key `None`).  Only the `*_named`
    corollaries in `Proofs/C13Empty.lean` still mention it: the general theorems there
    (`find_fq_addressable`, `find_fq_iff`, `C13_key_mismatch_fails`) hold without it. -/
def namedFrom : Node → Pos → Bool
  | _, [] => true
  | .mk k _ _ kids, i :: p =>
    match kids[i]? with
    | none => true
    | some c => (k != .map || c.key != none) && namedFrom c p

theorem pathOK_of_addressableFrom (root : Node) (hinv : TreeInv root) : ∀ (pos : Pos) (n : Node) (el : Pos),
    root.get? el = some n → namedFrom n pos = true → addressableFrom n pos = true → PathOK n pos = true
  | [], _, _, _, _, _ => rfl
  | i :: p, .mk k ky nm kids, el, hg, hnm, ha => by
    simp only [namedFrom] at hnm
    simp only [addressableFrom] at ha
    simp only [PathOK]
    cases hk : kids[i]? with
    | none => rw [hk] at ha; simp at ha
    | some c =>
      rw [hk] at ha hnm
      simp only [Bool.and_eq_true] at ha hnm ⊢
      obtain ⟨hname, hrest⟩ := ha
      obtain ⟨h1, h2, h3⟩ := hinv el k ky nm kids hg
      have hi : i < kids.length := by
        rcases Nat.lt_or_ge i kids.length with h | h
        · exact h
        · rw [List.getElem?_eq_none h] at hk; cases hk
      have hg' : root.get? (el ++ [i]) = some c := by
        rw [get?_append_single el root _ i hg]
        simp [Node.kids, hk]
      refine ⟨?_, pathOK_of_addressableFrom root hinv p c (el ++ [i]) hg' hnm.2 hrest⟩
      cases k with
      | scalar => have := h1 rfl; subst this; simp at hk
      | list => simp only [stepOK, decide_eq_true_eq]; exact h3 (Or.inl rfl) i hi
      | array => simp only [stepOK, decide_eq_true_eq]; exact h3 (Or.inr rfl) i hi
      | map =>
        have hkn : c.key ≠ none := by simpa using hnm.1
        have hname : c.key = some c.name ∧ c.name.isEmpty = false ∧ (p.isEmpty = true ∨ endsWithBackslash c.name = false) := by
          simp only [bne_self_eq_false, Bool.false_or, Bool.or_eq_true, Bool.and_eq_true, beq_iff_eq,
            Bool.not_eq_true'] at hname
          rcases hname with h | h
          · exact ⟨h.1.1, h.1.2, h.2⟩
          · exact absurd h.1 hkn
        simp only [stepOK, Bool.and_eq_true, beq_iff_eq, Bool.or_eq_true, Bool.not_eq_true']
        exact ⟨⟨hname.1 ▸ h2 rfl i c hk, hname.2.1⟩, hname.2.2⟩

/-! ### the converse: on spellable positions `addressable` is necessary too -/

theorem findName_some_key (s : Option Str) : ∀ (kids : List Node) (i : Nat), findName s kids = some i →
    ∃ c, kids[i]? = some c ∧ c.key = s
  | [], i, h => by simp [findName] at h
  | k :: r, i, h => by
    simp only [findName] at h
    by_cases hk : (k.key == s) = true
    · simp only [hk, if_true, Option.some.injEq] at h
      subst h
      exact ⟨k, rfl, by simpa using hk⟩
    · simp only [hk, if_false, Option.map_eq_some_iff, Bool.false_eq_true] at h
      obtain ⟨j, hj, rfl⟩ := h
      obtain ⟨c, hc, hkey⟩ := findName_some_key s r j hj
      exact ⟨c, by simpa using hc, hkey⟩

/-- a context over NAME ops only ends where it started plus one index per op -/
theorem runCtx_names_found (root : Node) (strict : Bool) : ∀ (names : List Str) (el p : Pos),
    runCtx root strict (names.map (fun s => Op.name (some s))) el = .ok (.found p) →
    ∃ t, p = el ++ t ∧ t.length = names.length
  | [], el, p, h => by
    simp only [List.map_nil, runCtx, Except.ok.injEq, CtxRes.found.injEq] at h
    exact ⟨[], by simp [h], rfl⟩
  | s :: r, el, p, h => by
    simp only [List.map_cons, runCtx] at h
    cases hi : indexAt root el (some s) with
    | none => rw [hi] at h; cases strict <;> simp at h
    | some j =>
      rw [hi] at h
      obtain ⟨t, ht, hl⟩ := runCtx_names_found root strict r (el ++ [j]) p h
      exact ⟨j :: t, by simp [ht], by simp [hl]⟩

/-- if evaluating the emitted names from `el` finds exactly `el ++ pos`, every lookup on the way hit
    its own child: `PathOK` -/
theorem pathOK_of_found (root : Node) (strict : Bool) : ∀ (pos : Pos) (n : Node) (el : Pos),
    SpellOK n pos = true → root.get? el = some n →
    runCtx root strict ((segs n pos).map (fun s => Op.name (some (unescape s)))) el
      = .ok (.found (el ++ pos)) →
    PathOK n pos = true
  | [], _, _, _, _, _ => rfl
  | i :: p, .mk k ky nm kids, el, hs, hg, hr => by
    simp only [SpellOK] at hs
    simp only [PathOK]
    simp only [segs] at hr
    cases hk : kids[i]? with
    | none => rw [hk] at hs; simp at hs
    | some c =>
      rw [hk] at hs hr
      simp only [Bool.and_eq_true] at hs ⊢
      obtain ⟨hstep, hrest⟩ := hs
      simp only [List.map_cons, runCtx] at hr
      cases hi : indexAt root el (some (unescape (segText k i c))) with
      | none => rw [hi] at hr; cases strict <;> simp at hr
      | some j =>
        rw [hi] at hr
        simp only [] at hr
        have hr' : runCtx root strict (((segs c p).map unescape).map (fun s => Op.name (some s))) (el ++ [j])
            = .ok (.found (el ++ i :: p)) := by
          simpa [List.map_map, Function.comp_def] using hr
        obtain ⟨t, ht, _⟩ := runCtx_names_found root strict _ (el ++ [j]) _ hr'
        have hij : i = j := by
          have : i :: p = j :: t := by
            have h2 : el ++ (i :: p) = el ++ (j :: t) := by rw [ht]; simp
            exact List.append_cancel_left h2
          exact (List.cons.inj this).1
        subst hij
        have hg' : root.get? (el ++ [i]) = some c := by
          rw [get?_append_single el root _ i hg]
          simp [Node.kids, hk]
        have hr2 : runCtx root strict ((segs c p).map (fun s => Op.name (some (unescape s)))) (el ++ [i])
            = .ok (.found ((el ++ [i]) ++ p)) := by
          rw [hr]; simp
        refine ⟨?_, pathOK_of_found root strict p c (el ++ [i]) hrest hg' hr2⟩
        cases k with
        | scalar => simp [stepSpell] at hstep
        | list => exact hstep
        | array => exact hstep
        | map =>
          simp only [stepSpell, Bool.and_eq_true] at hstep
          simp only [stepOK, Bool.and_eq_true, beq_iff_eq]
          refine ⟨⟨?_, hstep.1⟩, hstep.2⟩
          rw [unescape_segText .map i c p.isEmpty (by simp only [stepSpell, Bool.and_eq_true]; exact hstep)] at hi
          simpa [indexAt, hg, Node.index, Node.kind, Node.kids] using hi

/-- `find(fq_name(pos)) = [pos]` forces `PathOK`, on spellable positions -/
theorem pathOK_of_find_fq (root : Node) (start pos : Pos) (strict : Bool) (hs : SpellOK root pos = true)
    (hf : find root start (fqName root pos) false strict = .many [pos]) : PathOK root pos = true := by
  unfold find at hf
  rw [tokenize_fqName root pos hs] at hf
  have hz : Flatland.C14.Proofs.NoZero (Op.top :: (segs root pos).map (fun s => Op.name (some (unescape s)))) = true := by
    have := names_noZero (segs root pos)
    simp only [Flatland.C14.Proofs.NoZero, List.all_cons, Bool.and_eq_true] at this ⊢
    exact ⟨rfl, this⟩
  have hw := Flatland.C14.Proofs.work_level root strict _ _ (Nat.le_refl _) (Or.inl hz) [start]
  simp only [List.map_cons, List.map_nil] at hw
  simp only [evalOps, hw] at hf
  simp only [Flatland.C14.Spec.flatMapM, Flatland.C14.Proofs.denOps_of_runCtx, runCtx] at hf
  apply pathOK_of_found root strict pos root [] hs rfl
  cases hr : runCtx root strict ((segs root pos).map (fun s => Op.name (some (unescape s)))) [] with
  | error e => rw [hr] at hf; simp at hf
  | ok r =>
    rw [hr] at hf
    cases r with
    | found p =>
      simp only [Bool.not_false, if_true, FindRes.many.injEq, List.cons.injEq, and_true,
        List.append_nil] at hf
      simp [hf]
    | dead => simp at hf
    | spawn rest kids =>
      have := Flatland.C14.Proofs.runCtx_shape root strict ((segs root pos).map (fun s => Op.name (some (unescape s)))) []
      rw [hr] at this
      have hnone : Flatland.C14.Proofs.afterSlice ((segs root pos).map (fun s => Op.name (some (unescape s)))) = none := by
        generalize segs root pos = l
        induction l with
        | nil => rfl
        | cons a r ih => simpa [Flatland.C14.Proofs.afterSlice] using ih
      rw [hnone] at this
      exact absurd this (by simp)

theorem addressableFrom_of_pathOK : ∀ (pos : Pos) (n : Node), PathOK n pos = true → addressableFrom n pos = true
  | [], _, _ => rfl
  | i :: p, .mk k ky nm kids, h => by
    simp only [PathOK] at h
    simp only [addressableFrom]
    cases hk : kids[i]? with
    | none => rw [hk] at h; simp at h
    | some c =>
      rw [hk] at h
      simp only [Bool.and_eq_true] at h ⊢
      refine ⟨?_, addressableFrom_of_pathOK p c h.2⟩
      cases k with
      | scalar => simp [stepOK] at h
      | list => simp
      | array => simp
      | map =>
        have h1 := h.1
        simp only [stepOK, Bool.and_eq_true, beq_iff_eq] at h1
        obtain ⟨c', hc', hkey⟩ := findName_some_key (some c.name) kids i h1.1.1
        rw [hk] at hc'
        simp only [Option.some.injEq] at hc'
        subst hc'
        simp only [bne_self_eq_false, Bool.false_or, Bool.or_eq_true, Bool.and_eq_true, beq_iff_eq]
        exact Or.inl ⟨⟨hkey, h1.1.2⟩, by simpa using h1.2⟩

theorem spellOK_of_spellableFrom (root : Node) (hinv : TreeInv root) : ∀ (pos : Pos) (n : Node) (el : Pos),
    root.get? el = some n → namedFrom n pos = true → spellableFrom n pos = true → SpellOK n pos = true
  | [], _, _, _, _, _ => rfl
  | i :: p, .mk k ky nm kids, el, hg, hnm, ha => by
    simp only [namedFrom] at hnm
    simp only [spellableFrom] at ha
    simp only [SpellOK]
    cases hk : kids[i]? with
    | none => rw [hk] at ha; simp at ha
    | some c =>
      rw [hk] at ha hnm
      simp only [Bool.and_eq_true] at ha hnm ⊢
      obtain ⟨hname, hrest⟩ := ha
      obtain ⟨h1, _, h3⟩ := hinv el k ky nm kids hg
      have hi : i < kids.length := by
        rcases Nat.lt_or_ge i kids.length with h | h
        · exact h
        · rw [List.getElem?_eq_none h] at hk; cases hk
      have hg' : root.get? (el ++ [i]) = some c := by
        rw [get?_append_single el root _ i hg]
        simp [Node.kids, hk]
      refine ⟨?_, spellOK_of_spellableFrom root hinv p c (el ++ [i]) hg' hnm.2 hrest⟩
      cases k with
      | scalar => have := h1 rfl; subst this; simp at hk
      | list => simp only [stepSpell, decide_eq_true_eq]; exact h3 (Or.inl rfl) i hi
      | array => simp only [stepSpell, decide_eq_true_eq]; exact h3 (Or.inr rfl) i hi
      | map =>
        have hkn : c.key ≠ none := by simpa using hnm.1
        simp only [bne_self_eq_false, Bool.false_or, Bool.or_eq_true, Bool.and_eq_true, beq_iff_eq] at hname
        rcases hname with h | h
        · simpa [stepSpell] using h
        · exact absurd h.1 hkn

/-! ### the unrestricted law and why it fails -/

/-- the property as stated: every tree the library can build, every element, every start -/
def C13_Full : Prop := ∀ root : Node, TreeInv root → Inverse root

/-- Dict{"": String} -/
def witnessEmpty : Node := .mk .map (some ['r']) ['r'] [.mk .scalar (some []) [] []]

theorem witnessEmpty_inv : TreeInv witnessEmpty := by
  intro p k ky nm kids h
  match p, h with
  | [], h =>
    simp only [witnessEmpty, Node.get?, Option.some.injEq, Node.mk.injEq] at h
    obtain ⟨rfl, rfl, rfl, rfl⟩ := h
    refine ⟨by simp, ?_, by simp⟩
    intro _ i c hc
    match i, hc with
    | 0, hc => simp at hc; subst hc; simp [findName, Node.key]
    | i + 1, hc => simp at hc
  | [0], h =>
    simp only [witnessEmpty, Node.get?, List.getElem?_cons_zero, Option.some.injEq, Node.mk.injEq] at h
    obtain ⟨rfl, rfl, rfl, rfl⟩ := h
    exact ⟨by simp, by simp, by simp⟩
  | 0 :: j :: q, h => simp [witnessEmpty, Node.get?] at h
  | (i + 1) :: q, h => simp [witnessEmpty, Node.get?] at h

/-- `tokenize("//") = [TOP, NAME None]`: the second slash directly follows a slash -/
theorem tokenize_slash2 : tokenize ['/', '/'] = .ok [.top, .name none] := by
  unfold tokenize
  have hs : scan none ['/', '/'] = [(['/'], []), (['/'], [])] := by
    rw [scan_cons, scanStep_slash none _ (by simp)]
    simp only [List.drop_zero, Option.toList_some, List.cons_append, List.nil_append]
    rw [scan_cons, scanStep_slash _ [] (by simp)]
    simp [scan]
  rw [hs]
  simp [tokLoop, tokStep]

/-- KF-C13-b: the field named `""` has `fq_name()` `//` (since 05c4adc; `/` before), and the empty step
    looks up the key `None`, not the key `''`: LookupError -/
theorem C13_full_fails : ¬ C13_Full := by
  intro h
  have hinv := (h witnessEmpty witnessEmpty_inv).2 [] [0] rfl rfl
  unfold isInverseAt at hinv
  have hfq : fqName witnessEmpty [0] = ['/', '/'] := by decide
  unfold find at hinv
  rw [hfq, tokenize_slash2] at hinv
  have hz : Flatland.C14.Proofs.NoZero [Op.top, Op.name none] = true := by decide
  have hw := Flatland.C14.Proofs.work_level witnessEmpty true _ _ (Nat.le_refl _) (Or.inl hz) [[]]
  simp only [List.map_cons, List.map_nil] at hw
  simp only [evalOps, hw] at hinv
  revert hinv
  decide

/-- Dict{"a\\.b": String} -/
def witnessBackslash : Node := .mk .map (some ['r']) ['r'] [.mk .scalar (some ['a', '\\', '.', 'b']) ['a', '\\', '.', 'b'] []]

/-- the half of KF-C13-a fixed by b49b3eb: a field named `a\.b` is found by its `fq_name()`
    (`/a\\.b`) -/
theorem C13_backslash_dot_ok : Inverse witnessBackslash := by
  apply C13_partial
  intro pos hp
  match pos, hp with
  | [], _ => rfl
  | [0], _ => simp [witnessBackslash, PathOK, stepOK, findName, Node.name, Node.key, endsWithBackslash]
  | 0 :: j :: q, hp => simp [witnessBackslash, Node.get?] at hp
  | (i + 1) :: q, hp => simp [witnessBackslash, Node.get?] at hp

/-- Dict{"y\\": Dict{"z": String}} -/
def witnessTrailing : Node := .mk .map (some ['r']) ['r'] [.mk .map (some ['y', '\\']) ['y', '\\'] [.mk .scalar (some ['z']) ['z'] []]]

theorem witnessTrailing_inv : TreeInv witnessTrailing := by
  intro p k ky nm kids h
  match p, h with
  | [], h =>
    simp only [witnessTrailing, Node.get?, Option.some.injEq, Node.mk.injEq] at h
    obtain ⟨rfl, rfl, rfl, rfl⟩ := h
    refine ⟨by simp, ?_, by simp⟩
    intro _ i c hc
    match i, hc with
    | 0, hc => simp at hc; subst hc; simp [findName, Node.key]
    | i + 1, hc => simp at hc
  | [0], h =>
    simp only [witnessTrailing, Node.get?, List.getElem?_cons_zero, Option.some.injEq, Node.mk.injEq] at h
    obtain ⟨rfl, rfl, rfl, rfl⟩ := h
    refine ⟨by simp, ?_, by simp⟩
    intro _ i c hc
    match i, hc with
    | 0, hc => simp at hc; subst hc; simp [findName, Node.key]
    | i + 1, hc => simp at hc
  | [0, 0], h =>
    simp only [witnessTrailing, Node.get?, List.getElem?_cons_zero, Option.some.injEq, Node.mk.injEq] at h
    obtain ⟨rfl, rfl, rfl, rfl⟩ := h
    exact ⟨by simp, by simp, by simp⟩
  | 0 :: 0 :: j :: q, h => simp [witnessTrailing, Node.get?] at h
  | 0 :: (j + 1) :: q, h => simp [witnessTrailing, Node.get?] at h
  | (i + 1) :: q, h => simp [witnessTrailing, Node.get?] at h

/-- KF-C13-a (what is left of it): the field `z` below the Dict named `y\` has `fq_name()`
    `/y\/z`, which `find` reads as the single name `y/z` and, strictly, raises LookupError -/
theorem C13_full_fails_backslash : ¬ Inverse witnessTrailing := by
  intro h
  have hinv := h.2 [] [0, 0] rfl rfl
  unfold isInverseAt at hinv
  have hfq : fqName witnessTrailing [0, 0] = slashJoin [['y', '\\', '/', 'z']] := by decide
  have hclean : cleanB true ['y', '\\', '/', 'z'] = true := by
    simp [cleanB_cons, isEscapable, cleanB_nil']
  have hplain : PlainSeg ['y', '\\', '/', 'z'] := ⟨by decide, by decide, by decide, by decide⟩
  have htok := tokenize_segs ['y', '\\', '/', 'z'] [] ⟨by simp, hclean⟩
    (by intro x hx; simp at hx; subst hx; exact hplain)
  have hun : unescape ['y', '\\', '/', 'z'] = ['y', '/', 'z'] := by
    simp [unescape_cons, isUnescapable, unescape_nil']
  unfold find at hinv
  rw [hfq, htok] at hinv
  simp only [List.map_cons, List.map_nil, hun] at hinv
  have hz : Flatland.C14.Proofs.NoZero [Op.top, Op.name (some ['y', '/', 'z'])] = true := by decide
  have hw := Flatland.C14.Proofs.work_level witnessTrailing true _ _ (Nat.le_refl _) (Or.inl hz) [[]]
  simp only [List.map_cons, List.map_nil] at hw
  unfold evalOps at hinv
  rw [hw] at hinv
  revert hinv
  decide

/-- SparseDict{key "x" ↦ an element *named* "y"} (what `sd['x'] = X.named('y')(v)` leaves) -/
def witnessKey : Node := .mk .map (some ['r']) ['r'] [.mk .scalar (some ['x']) ['y'] []]

theorem witnessKey_inv : TreeInv witnessKey := by
  intro p k ky nm kids h
  match p, h with
  | [], h =>
    simp only [witnessKey, Node.get?, Option.some.injEq, Node.mk.injEq] at h
    obtain ⟨rfl, rfl, rfl, rfl⟩ := h
    refine ⟨by simp, ?_, by simp⟩
    intro _ i c hc
    match i, hc with
    | 0, hc => simp at hc; subst hc; simp [findName, Node.key]
    | i + 1, hc => simp at hc
  | [0], h =>
    simp only [witnessKey, Node.get?, List.getElem?_cons_zero, Option.some.injEq, Node.mk.injEq] at h
    obtain ⟨rfl, rfl, rfl, rfl⟩ := h
    exact ⟨by simp, by simp, by simp⟩
  | 0 :: j :: q, h => simp [witnessKey, Node.get?] at h
  | (i + 1) :: q, h => simp [witnessKey, Node.get?] at h

/-- KF-C13-c: an element stored under the key `x` but named `y` has `fq_name()` `/y`; `find`
    looks `y` up among the keys and, strictly, raises LookupError.  The tree satisfies every
    library invariant (`witnessKey_inv`), so this refutes `C13_Full` as well. -/
theorem C13_full_fails_key : ¬ Inverse witnessKey := by
  intro h
  have hinv := h.2 [] [0] rfl rfl
  unfold isInverseAt at hinv
  have hfq : fqName witnessKey [0] = slashJoin [['y']] := by decide
  have hclean : cleanB true ['y'] = true := by
    simp [cleanB_cons, cleanB_nil']
  have hplain : PlainSeg ['y'] := ⟨by decide, by decide, by decide, by decide⟩
  have htok := tokenize_segs ['y'] [] ⟨by simp, hclean⟩
    (by intro x hx; simp at hx; subst hx; exact hplain)
  have hun : unescape ['y'] = ['y'] := by
    simp [unescape_cons, unescape_nil']
  unfold find at hinv
  rw [hfq, htok] at hinv
  simp only [List.map_cons, List.map_nil, hun] at hinv
  have hz : Flatland.C14.Proofs.NoZero [Op.top, Op.name (some ['y'])] = true := by decide
  have hw := Flatland.C14.Proofs.work_level witnessKey true _ _ (Nat.le_refl _) (Or.inl hz) [[]]
  simp only [List.map_cons, List.map_nil] at hw
  unfold evalOps at hinv
  rw [hw] at hinv
  revert hinv
  decide

/-- a larger tree of the same class: Dict r { a: Dict { List l [ x stored under key "k" but named "n" ] } };
    the mismatch sits two levels above the subject, seen from a start below the root -/
def witnessKeyDeep : Node :=
  .mk .map (some ['r']) ['r'] [.mk .map (some ['a']) ['b'] [.mk .list (some ['l']) ['l'] [.mk .scalar (some []) [] [], .mk .scalar (some []) [] []]]]

theorem witnessKeyDeep_inv : TreeInv witnessKeyDeep := by
  intro p k ky nm kids h
  match p, h with
  | [], h =>
    simp only [witnessKeyDeep, Node.get?, Option.some.injEq, Node.mk.injEq] at h
    obtain ⟨rfl, rfl, rfl, rfl⟩ := h
    refine ⟨by simp, ?_, by simp⟩
    intro _ i c hc
    match i, hc with
    | 0, hc => simp at hc; subst hc; simp [findName, Node.key]
  | [0], h =>
    simp only [witnessKeyDeep, Node.get?, List.getElem?_cons_zero, Option.some.injEq, Node.mk.injEq] at h
    obtain ⟨rfl, rfl, rfl, rfl⟩ := h
    refine ⟨by simp, ?_, by simp⟩
    intro _ i c hc
    match i, hc with
    | 0, hc => simp at hc; subst hc; simp [findName, Node.key]
  | [0, 0], h =>
    simp only [witnessKeyDeep, Node.get?, List.getElem?_cons_zero, Option.some.injEq, Node.mk.injEq] at h
    obtain ⟨rfl, rfl, rfl, rfl⟩ := h
    refine ⟨by simp, by simp, ?_⟩
    intro _ i hi
    left
    simp only [List.length_cons, List.length_nil] at hi
    match i, hi with
    | 0, _ => simp [natStr, intMaxDigits]
    | 1, _ => simp [natStr, intMaxDigits]
  | [0, 0, 0], h =>
    simp only [witnessKeyDeep, Node.get?, List.getElem?_cons_zero, Option.some.injEq, Node.mk.injEq] at h
    obtain ⟨rfl, rfl, rfl, rfl⟩ := h
    exact ⟨by simp, by simp, by simp⟩
  | [0, 0, 1], h =>
    simp only [witnessKeyDeep, Node.get?, List.getElem?_cons_zero, List.getElem?_cons_succ,
      Option.some.injEq, Node.mk.injEq] at h
    obtain ⟨rfl, rfl, rfl, rfl⟩ := h
    exact ⟨by simp, by simp, by simp⟩
  | 0 :: 0 :: (_ + 2) :: _, h => simp [witnessKeyDeep, Node.get?] at h
  | 0 :: 0 :: 0 :: _ :: _, h => simp [witnessKeyDeep, Node.get?] at h
  | 0 :: 0 :: 1 :: _ :: _, h => simp [witnessKeyDeep, Node.get?] at h
  | 0 :: (_ + 1) :: _, h => simp [witnessKeyDeep, Node.get?] at h
  | (_ + 1) :: _, h => simp [witnessKeyDeep, Node.get?] at h

end Flatland.C13.Proofs
