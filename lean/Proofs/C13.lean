/-
C13 — fq_name() is the inverse of find().
-/
import Flatland.Path
import Flatland.Spec.C13
namespace Flatland.C13.Proofs
open Flatland.Path Flatland.C13.Spec

end Flatland.C13.Proofs
