/-
C07 on the tree model — node-level preservation of the deep positional invariant (`dps`) for EVERY
list-protocol call on a List / Array / MultiValue (mirror of `Proofs/C08All.lean: seqStep_wp_all`).
The numbering of the node's own slots is C09's `positional_step`; what is added here is that every
item of the new underlying list is a good item: deep positional inside, and — for a List — a
ListSlot holding exactly one element.
-/
import Proofs.C07TreeInvBuild
namespace Flatland.C07Tree.Proofs.Inv
open Flatland.Tree Flatland.PyList Flatland.C08 Flatland.C07Tree
open Flatland.C09.Proofs (WellNumbered wn_nil wn_renumber wn_append wn_set wn_attachAll wn_appendEl
  wn_extendArgs wn_setNode wn_defaultSlots wn_setDefault wn_imulLoop positional_step)

/-- every Element argument of the call is a deep-positional subtree (plain values are unrestricted) -/
def SeqArgsDP : SeqOp → Prop
  | .append a | .insert _ a | .setitem _ a => ArgDP a
  | .extend as | .iadd as | .setslice _ as => ∀ a ∈ as, ArgDP a
  | _ => True

/-- the items of a deep-positional result with the class of `n` -/
theorem kd_of_dps {r n : Node} (hh : r.hdr = n.hdr) (h : dps r = true) : KidsDP (n.kind = .list) r.kids := by
  have := (dps_iff' r).mp h
  rw [kind_of_hdr hh] at this
  exact this.2

theorem extendArgs_dps (m : Schema) (as : List Arg) (ha : ∀ a ∈ as, ArgDP a) :
    ∀ (n : Node) (next : Nat), dps n = true → dps (extendArgs m n as next).1 = true := by
  induction as with
  | nil => intro n next h; exact h
  | cons a as ih =>
    intro n next h
    rw [extendArgs]
    split
    · exact h
    · rename_i w n1 hw
      exact ih (fun x hx => ha x (by simp [hx])) _ _
        (appendEl_dps n w h (wrap_dps m a (ha a (by simp)) next w n1 hw) n1)

theorem imulLoop_dps (m : Schema) (vals : List Arg) (hv : ∀ a ∈ vals, ArgDP a) (k : Nat) :
    ∀ (n : Node) (next : Nat), dps n = true → dps (imulLoop m vals k n next).1 = true := by
  induction k with
  | zero => intro n next h; exact h
  | succ k ih =>
    intro n next h
    rw [imulLoop]
    have he := extendArgs_dps m vals hv n next h
    split
    · rename_i hx; rw [hx] at he; exact he
    · rename_i hx; rw [hx] at he; exact ih _ _ he

theorem newSlots_kd (L : Prop) (lst len : Nat) (ws : List Node) (hw : ∀ w ∈ ws, dps w = true) (next : Nat) :
    KidsDP L (newSlots lst len ws next).1 := by
  induction ws generalizing next with
  | nil => intro x hx; cases hx
  | cons w ws ih =>
    intro x hx
    simp only [newSlots, List.mem_cons] at hx
    rcases hx with h | h
    · rw [h]; exact item_mkSlot _ _ _ _ w (hw w (by simp))
    · exact ih (fun y hy => hw y (by simp [hy])) (next + 1) x h

/-- every item of the underlying list after a list-protocol call is a good item -/
theorem seqStep_kids (n : Node) (hn : dps n = true) (op : SeqOp) (hop : SeqArgsDP op) (next : Nat) :
    KidsDP (n.kind = .list) (seqStep n op next).node.kids := by
  have hK : KidsDP (n.kind = .list) n.kids := ((dps_iff' n).mp hn).2
  have fin : ∀ ks, KidsDP (n.kind = .list) ks →
      KidsDP (n.kind = .list) (n.withKids (if n.kind = .list then renumber ks else ks)).kids := by
    intro ks h
    rw [kids_withKids]
    split
    · exact kd_renumber _ _ h
    · exact h
  unfold seqStep
  split
  · exact hK
  · rename_i m hm
    cases op with
    | append a =>
      dsimp only
      split
      · exact hK
      · rename_i w n1 hwr
        exact kd_of_dps (appendEl_hdr _ _ _) (appendEl_dps n w hn (wrap_dps m a hop next w n1 hwr) n1)
    | extend as =>
      have := extendArgs_dps m as hop n next hn
      dsimp only; split <;> exact kd_of_dps (extendArgs_hdr _ _ _ _) this
    | iadd as =>
      have := extendArgs_dps m as hop n next hn
      dsimp only; split <;> exact kd_of_dps (extendArgs_hdr _ _ _ _) this
    | insert i a =>
      dsimp only
      split
      · exact hK
      · rename_i w n1 hwr
        have hww := wrap_dps m a hop next w n1 hwr
        split
        · rw [kids_withKids]
          apply kd_renumber
          intro x hx
          rcases mem_insertAt hx with h1 | h1
          · exact hK x h1
          · rw [h1]; exact item_mkSlot _ _ _ _ w hww
        · rename_i hl
          rw [kids_withKids]
          intro x hx
          rcases mem_insertAt hx with h1 | h1
          · exact hK x h1
          · rw [h1]; exact item_notList hl (by rw [dps_withParent]; exact hww)
    | setitem i a =>
      dsimp only
      split
      · rename_i hl
        cases a with
        | elem e =>
          dsimp only
          split
          · exact hK
          · rename_i slot hg
            split
            · exact hK
            · rw [kids_withKids]
              intro x hx
              rcases List.mem_or_eq_of_mem_set hx with h1 | h1
              · exact hK x h1
              · rw [h1]
                exact item_slot_withKids (hK slot (mem_getItem hg)) hl _ (by rw [dps_withParent]; exact hop)
        | plain r =>
          dsimp only
          split
          · rename_i slot k hg hk
            have hs := hK slot (mem_getItem hg)
            split
            · exact hK
            · rename_i el hel
              have hks : KidsDP (n.kind = .list) (n.kids.set k (slot.withKids [(setNode el r none next).node])) := by
                intro x hx
                rcases List.mem_or_eq_of_mem_set hx with h1 | h1
                · exact hK x h1
                · rw [h1]
                  exact item_slot_withKids hs hl _ (setNode_dps r el none next (dps_slotElement hs hel))
              split <;> first | (rw [kids_withKids]; exact hks) | (simp only [excOut, kids_withKids]; exact hks)
          · exact hK
      · rename_i hl
        split
        · exact hK
        · rename_i w n1 hwr
          have hww := wrap_dps m a hop next w n1 hwr
          split
          · exact hK
          · rw [kids_withKids]
            intro x hx
            rcases List.mem_or_eq_of_mem_set hx with h1 | h1
            · exact hK x h1
            · rw [h1]; exact item_notList hl (by rw [dps_withParent]; exact hww)
    | setslice sl as =>
      dsimp only
      split
      · exact hK
      · rename_i ws n1 hws
        have hww := wrapAll_dps m as hop next ws n1 hws
        split
        · have hns := newSlots_kd (n.kind = .list) n.id n.kids.length ws hww n1
          split
          · exact hK
          · rename_i ks hss
            rw [kids_withKids]
            apply kd_renumber
            intro x hx
            rcases mem_setSlice hss hx with h1 | h1
            · exact hK x h1
            · exact hns x h1
        · rename_i hl
          split
          · exact hK
          · rename_i ks hss
            rw [kids_withKids]
            intro x hx
            rcases mem_setSlice hss hx with h1 | h1
            · exact hK x h1
            · obtain ⟨w, hwm, rfl⟩ := List.mem_map.mp h1
              exact item_notList hl (by rw [dps_withParent]; exact hww w hwm)
    | delitem i =>
      dsimp only
      split
      · rename_i ks k hd _
        exact fin ks (kd_sub hK (fun x hx => mem_delItem hd hx))
      · exact hK
    | delslice sl =>
      dsimp only
      split
      · exact hK
      · rename_i ks hd
        exact fin ks (kd_sub hK (fun x hx => mem_delSlice hd hx))
    | pop i =>
      dsimp only
      split
      · exact hK
      · rename_i x ks hp
        have hm := mem_popAt hp
        split
        · rw [kids_withKids]; exact kd_renumber _ _ (kd_sub hK hm.2)
        · rw [kids_withKids]; exact kd_sub hK hm.2
    | remove a =>
      dsimp only
      split
      · exact hK
      · split
        · exact hK
        · exact fin _ (kd_sub hK (fun x hx => List.mem_of_mem_eraseIdx hx))
    | reverse => exact fin _ (kd_sub hK (fun x hx => List.mem_reverse.mp hx))
    | clear => rw [kids_withKids]; exact kd_nil _
    | imul c =>
      dsimp only
      split
      · rw [kids_withKids]; split <;> (intro x hx; simp [renumber, renumberFrom] at hx)
      · have := imulLoop_dps m ((members n).map (fun x => Arg.plain (imulValue x)))
          (by intro a ha; obtain ⟨x, _, rfl⟩ := List.mem_map.mp ha; trivial) (c.toNat - 1) n next hn
        split <;> exact kd_of_dps (imulLoop_hdr _ _ _ _ _) this
    | sort k r =>
      dsimp only
      split
      · split <;> first | exact hK | (split <;> exact hK)
      · split
        · exact fin _ (kd_sub hK (fun x hx => mem_sortBy.mp hx))
        · exact hK
    | set r => dsimp only; split <;> exact kd_of_dps (setNode_hdr _ _ _ _) (setNode_dps r n none next hn)
    | setDefault => dsimp only; split <;> exact kd_of_dps (setDefault_hdr _ _) (setDefault_dps n next hn)
    | len => exact hK
    | getitem i => dsimp only; split <;> first | exact hK | (split <;> first | exact hK | (split <;> exact hK))
    | getslice s => dsimp only; split <;> exact hK
    | contains a => dsimp only; split <;> exact hK
    | index a => dsimp only; split <;> first | exact hK | (split <;> exact hK)
    | count a => dsimp only; split <;> exact hK

/-- **node-level preservation, sequences, every call.**  A deep-positional List / Array /
    MultiValue stays deep positional under every list-protocol call OF THE MODEL, whether the model's call
    returns or raises.  "Raising" is true of the model: its raising paths are the rejections (bad index, rejected
    item, missing value …) and the prefix-keeping failures of extend / `+=` / `*=` / set that `seqStep` implements.
    It is NOT a statement about every raising path of the code: the model's keyed sort never raises (it sorts or
    answers `.unsupported`, `C08.Proofs.keyed_sort_only_refuses`), whereas `list.sort` may fail inside a COMPARISON
    and leave the slots rearranged; on that path `dps` is re-established by the `finally: self._renumber()` of
    List.sort (9873cdc) — proved for every rearrangement in `Proofs/C09SortFailure.lean`
    (`sort_failure_any_permutation_dps`), checked on the code by `g1common.check_sort_failure`. -/
theorem seqStep_dps (n : Node) (h : dps n = true) (op : SeqOp) (hop : SeqArgsDP op) (next : Nat) :
    dps (seqStep n op next).node = true :=
  dps_of_hdr (seqStep_hdr n op next)
    (fun hl => positional_step n hl (((dps_iff' n).mp h).1 hl) op next)
    (seqStep_kids n h op hop next)

end Flatland.C07Tree.Proofs.Inv
