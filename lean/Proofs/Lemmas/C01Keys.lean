/-
C01, string level: how the filters of `_set_flat` act on the keys of token paths (under SepSafe).
-/
import Proofs.Lemmas.C01Basics
namespace Flatland.Flat.Proofs
open Flatland.Flat Flatland.Flat.Spec

variable {env : Env} {sep : Str} {T : Str → Prop}

theorem tokKey_cons (sep t : Str) (π : List Str) : tokKey sep (t :: π) = some (joinSep sep (t :: π)) := rfl

theorem resolve_name (env : Env) (s : Schema) (e : Elem) : (resolve env s e).name = s.name := by
  cases s <;> (unfold resolve; rfl)

theorem isPrefix_longer (a b : Str) (h : b.length < a.length) : isPrefix a b = false := by
  apply Bool.eq_false_iff.mpr
  intro hp
  obtain ⟨r, hr⟩ := (isPrefix_iff _ _).mp hp
  rw [hr] at h
  simp at h
  omega

/-- a stray sibling: a key whose first token is another name addresses nothing in a field -/
theorem addr_other_head (hs : SepSafe env sep T) (f : Schema) (x : Str) (hfn : f.name = some x)
    (hx : T x) (t : Str) (ht : T t) (hne : t ≠ x) (rest : List Str) :
    addr env sep f (some (joinSep sep (t :: rest))) = false := by
  have hxne := hs.tok_ne x hx
  have hnoeq : joinSep sep (t :: rest) ≠ x := by
    intro he
    exact hne (joinSep_eq_tok hs hx rest he).2
  have hnopre : isPrefix (x ++ sep) (joinSep sep (t :: rest)) = false := by
    apply Bool.eq_false_iff.mpr
    intro hp
    exact hne (prefix_tok_sep hs hx ht rest hp).1.symm
  cases f with
  | leaf n o k =>
    simp only [Schema.name] at hfn; subst hfn
    simp only [addr]
    simpa using hnoeq
  | joined n o k m =>
    simp only [Schema.name] at hfn; subst hfn
    simp only [addr]
    simpa using hnoeq
  | dict n o mode fields =>
    simp only [Schema.name] at hfn; subst hfn
    simp [addr, stripName, hnopre]
  | compound n o k fields =>
    simp only [Schema.name] at hfn; subst hfn
    simp [addr, stripName, hnopre]
  | list n o prune mx member =>
    simp only [Schema.name] at hfn; subst hfn
    have htr : truthy (some x) = true := by
      cases x with
      | nil => exact absurd rfl hxne
      | cons c cs => rfl
    simp [addr, listAddr, htr, hnopre]
  | array n o prune member =>
    simp only [Schema.name] at hfn; subst hfn
    have htr : truthy (some x) = true := by
      cases x with
      | nil => exact absurd rfl hxne
      | cons c cs => rfl
    simp only [addr, htr, Bool.not_true, Bool.false_eq_true, if_false, Option.getD_some,
      arrayAddrNamed]
    unfold arrayRemainder
    by_cases hp : isPrefix x (joinSep sep (t :: rest)) = true
    · simp only [hp, if_true]
      obtain ⟨r, hr⟩ := (isPrefix_iff _ _).mp hp
      rw [hr, drop_append_length]
      by_cases hps : isPrefix sep r = true
      · exfalso
        obtain ⟨r2, hr2⟩ := (isPrefix_iff _ _).mp hps
        have : isPrefix (x ++ sep) (joinSep sep (t :: rest)) = true := by
          rw [hr, hr2, ← List.append_assoc]; exact isPrefix_append _ _
        rw [hnopre] at this; cases this
      · simp only [hps, Bool.false_eq_true, if_false]
        by_cases hre : r.isEmpty = true
        · exfalso
          have : r = [] := by simpa using hre
          rw [this, List.append_nil] at hr
          exact hnoeq hr
        · simp [hre]
    · simp [hp]

/-- keys of paths under a named mapping: `possibles` strips exactly the mapping's token -/
theorem possibles_named (hs : SepSafe env sep T) (x : Str) (l : List PPair)
    (hl : ∀ p ∈ l, p.1 ≠ []) :
    possibles sep (some x) (toKeys sep (l.map (pre [x]))) = l.map (joinPair sep) := by
  induction l with
  | nil => simp [possibles, toKeys]
  | cons p l ih =>
    have hp := hl p (by simp)
    have ih' := ih (fun q hq => hl q (List.mem_cons_of_mem _ hq))
    obtain ⟨π, v⟩ := p
    cases π with
    | nil => exact absurd rfl hp
    | cons t π =>
      simp only [List.map_cons, toKeys, pre, List.singleton_append, tokKey_cons] at ih' ⊢
      unfold possibles at ih' ⊢
      simp only [List.filterMap_cons, Option.map_some, isPrefix_tok_sep_self, if_true,
        joinSep_strip] at ih' ⊢
      rw [ih']
      rfl

theorem possibles_anon (l : List PPair) (hl : ∀ p ∈ l, p.1 ≠ []) :
    possibles sep none (toKeys sep l) = l.map (joinPair sep) := by
  induction l with
  | nil => simp [possibles, toKeys]
  | cons p l ih =>
    have hp := hl p (by simp)
    have ih' := ih (fun q hq => hl q (List.mem_cons_of_mem _ hq))
    obtain ⟨π, v⟩ := p
    cases π with
    | nil => exact absurd rfl hp
    | cons t π =>
      simp only [List.map_cons, toKeys, tokKey_cons] at ih' ⊢
      unfold possibles at ih' ⊢
      simp only [List.filterMap_cons, Option.map_some] at ih' ⊢
      rw [ih']
      rfl

/-- `toKeys` of non-empty paths is `wrap` of the joined keys -/
theorem toKeys_eq_wrap (sep : Str) (l : List PPair) (hl : ∀ p ∈ l, p.1 ≠ []) :
    toKeys sep l = wrap (l.map (joinPair sep)) := by
  induction l with
  | nil => simp [toKeys, wrap]
  | cons p l ih =>
    have hp := hl p (by simp)
    have ih' := ih (fun q hq => hl q (List.mem_cons_of_mem _ hq))
    obtain ⟨π, v⟩ := p
    cases π with
    | nil => exact absurd rfl hp
    | cons t π =>
      simp only [toKeys, wrap, List.map_cons, tokKey_cons, joinPair] at ih' ⊢
      rw [ih']

theorem joinSep_ne_nil (sep u : Str) (π : List Str) (hu : u ≠ []) : joinSep sep (u :: π) ≠ [] := by
  cases π with
  | nil => rw [joinSep_single]; exact hu
  | cons w π =>
    rw [joinSep_cons_cons]
    intro h
    exact hu (List.append_eq_nil_iff.mp (List.append_eq_nil_iff.mp h).1).1

/-- what a List makes of the rest of a key once its own name is stripped: `digits(i)` is the slot,
    the remaining path goes to that slot's member -/
theorem listBody_index (hs : SepSafe env sep T) (henv : EnvOK env)
    (i : Nat) (hi : (natStr i).length ≤ env.maxDigits) (π : List Str) (hπ : ∀ t ∈ π, t ≠ []) :
    (match matchIndex env sep (joinSep sep (natStr i :: π)) with
      | none => none
      | some (ds, rest) =>
        if ds.length > env.maxDigits then none
        else some (digitsVal env ds, if rest.isEmpty then none else some rest))
      = some (i, tokKey sep π) := by
  cases π with
  | nil =>
    rw [joinSep_single, matchIndex_natStr hs henv i]
    simp only [tokKey]
    rw [if_neg (by omega), digitsVal_natStr henv]
    simp
  | cons u π =>
    rw [joinSep_cons_cons, matchIndex_natStr_sep hs henv i]
    simp only [tokKey]
    rw [if_neg (by omega), digitsVal_natStr henv]
    have hne := joinSep_ne_nil sep u π (hπ u (by simp))
    have he : (joinSep sep (u :: π)).isEmpty = false := by
      cases hj : joinSep sep (u :: π) with
      | nil => exact absurd hj hne
      | cons c cs => rfl
    simp [he]

theorem listAddr_anon (hs : SepSafe env sep T) (henv : EnvOK env)
    (i : Nat) (hi : (natStr i).length ≤ env.maxDigits) (π : List Str) (hπ : ∀ t ∈ π, t ≠ []) :
    listAddr env sep none (tokKey sep (natStr i :: π)) = some (i, tokKey sep π) := by
  simp only [tokKey_cons, listAddr, truthy]
  exact listBody_index hs henv i hi π hπ

theorem listAddr_named (hs : SepSafe env sep T) (henv : EnvOK env) (x : Str) (hx : x ≠ [])
    (i : Nat) (hi : (natStr i).length ≤ env.maxDigits) (π : List Str) (hπ : ∀ t ∈ π, t ≠ []) :
    listAddr env sep (some x) (tokKey sep (x :: natStr i :: π)) = some (i, tokKey sep π) := by
  have htr : truthy (some x) = true := by
    cases x with
    | nil => exact absurd rfl hx
    | cons c cs => rfl
  simp only [tokKey_cons, listAddr, htr, if_true, Option.getD_some, isPrefix_tok_sep_self,
    joinSep_strip]
  exact listBody_index hs henv i hi π hπ

end Flatland.Flat.Proofs
