/-
Naturality of the CPython list functions of `Flatland/PyList.lean`: they commute with `List.map`
(they only move elements around), and the searching ones depend on the elements only through
the predicate.  These are the lemmas behind the C09 refinement and the C08/C10 invariants.
-/
import Flatland.PyList
namespace Flatland.PyList
variable {α β : Type}

theorem assign_map (f : α → β) (l : List α) (is : List Nat) (xs : List α) :
    (assign l is xs).map f = assign (l.map f) is (xs.map f) := by
  induction is generalizing l xs with
  | nil => cases xs <;> simp [assign]
  | cons i is ih =>
    cases xs with
    | nil => simp [assign]
    | cons x xs => simp [assign, ih, List.map_set]

theorem setSlice_map (f : α → β) (l : List α) (s : Slice) (new : List α) :
    (setSlice l s new).map (List.map f) = setSlice (l.map f) s (new.map f) := by
  unfold setSlice
  simp only [List.length_map]
  cases adjust l.length s with
  | none => rfl
  | some ix =>
    simp only
    split
    · simp [Except.map, List.map_take, List.map_drop]
    · split
      · rfl
      · simp [Except.map, assign_map]

theorem eraseIdxsFrom_map (f : α → β) (is : List Nat) (k : Nat) (l : List α) :
    (eraseIdxsFrom is k l).map f = eraseIdxsFrom is k (l.map f) := by
  induction l generalizing k with
  | nil => rfl
  | cons x xs ih => simp only [eraseIdxsFrom, List.map_cons]; split <;> simp [ih]

theorem pickIdxsFrom_map (f : α → β) (is : List Nat) (k : Nat) (l : List α) :
    (pickIdxsFrom is k l).map f = pickIdxsFrom is k (l.map f) := by
  induction l generalizing k with
  | nil => rfl
  | cons x xs ih => simp only [pickIdxsFrom, List.map_cons]; split <;> simp [ih]

theorem delSlice_map (f : α → β) (l : List α) (s : Slice) :
    (delSlice l s).map (List.map f) = delSlice (l.map f) s := by
  unfold delSlice
  simp only [List.length_map]
  cases adjust l.length s with
  | none => rfl
  | some ix => simp [Except.map, eraseIdxsFrom_map]

theorem getSlice_map (f : α → β) (l : List α) (s : Slice) :
    (getSlice l s).map (List.map f) = getSlice (l.map f) s := by
  unfold getSlice
  simp only [List.length_map]
  cases adjust l.length s with
  | none => rfl
  | some ix =>
    simp only [Except.map, List.map_filterMap]
    congr 1
    generalize indices ix = is
    induction is with
    | nil => rfl
    | cons i is ih => simp [List.filterMap_cons, List.getElem?_map, ih]

theorem insertAt_map (f : α → β) (l : List α) (i : Int) (x : α) :
    (insertAt l i x).map f = insertAt (l.map f) i (f x) := by
  simp [insertAt, List.map_take, List.map_drop]

theorem getItem_map (f : α → β) (l : List α) (i : Int) :
    (getItem l i).map f = getItem (l.map f) i := by
  unfold getItem
  simp only [List.length_map]
  cases normIndex l.length i <;> simp [List.getElem?_map]

theorem setItem_map (f : α → β) (l : List α) (i : Int) (x : α) :
    (setItem l i x).map (List.map f) = setItem (l.map f) i (f x) := by
  unfold setItem
  simp only [List.length_map]
  cases normIndex l.length i <;> simp [List.map_set]

theorem map_eraseIdx' (f : α → β) (l : List α) (k : Nat) :
    (l.eraseIdx k).map f = (l.map f).eraseIdx k := by
  induction l generalizing k with
  | nil => rfl
  | cons x xs ih => cases k <;> simp [List.eraseIdx, ih]

theorem delItem_map (f : α → β) (l : List α) (i : Int) :
    (delItem l i).map (List.map f) = delItem (l.map f) i := by
  unfold delItem
  simp only [List.length_map]
  cases normIndex l.length i <;> simp [map_eraseIdx']

theorem popAt_map (f : α → β) (l : List α) (i : Int) :
    (popAt l i).map (fun p => (f p.1, p.2.map f)) = popAt (l.map f) i := by
  unfold popAt
  simp only [List.length_map]
  cases normIndex l.length i with
  | none => rfl
  | some k =>
    simp only [List.getElem?_map]
    cases l[k]? <;> simp [map_eraseIdx']

theorem findIdx?_map' (f : α → β) (p : α → Bool) (q : β → Bool) (h : ∀ a, p a = q (f a)) (l : List α) :
    (l.map f).findIdx? q = l.findIdx? p := by
  induction l with
  | nil => rfl
  | cons x xs ih => simp [List.findIdx?_cons, h, ih]

theorem removeFirst_map (f : α → β) (p : α → Bool) (q : β → Bool) (h : ∀ a, p a = q (f a)) (l : List α) :
    (removeFirst p l).map (List.map f) = removeFirst q (l.map f) := by
  unfold removeFirst
  rw [findIdx?_map' f p q h]
  cases l.findIdx? p <;> simp [map_eraseIdx']

theorem indexOf_map (f : α → β) (p : α → Bool) (q : β → Bool) (h : ∀ a, p a = q (f a)) (l : List α) :
    indexOf q (l.map f) = indexOf p l := findIdx?_map' f p q h l

theorem countOf_map (f : α → β) (p : α → Bool) (q : β → Bool) (h : ∀ a, p a = q (f a)) (l : List α) :
    countOf q (l.map f) = countOf p l := by
  unfold countOf
  induction l with
  | nil => rfl
  | cons x xs ih => simp [List.countP_cons, h, ih]

theorem containsBy_map (f : α → β) (p : α → Bool) (q : β → Bool) (h : ∀ a, p a = q (f a)) (l : List α) :
    containsBy q (l.map f) = containsBy p l := by
  unfold containsBy
  induction l with
  | nil => rfl
  | cons x xs ih => simp [h, ih]

theorem insertSorted_map (f : α → β) (le : α → α → Bool) (le' : β → β → Bool)
    (h : ∀ a b, le a b = le' (f a) (f b)) (x : α) (l : List α) :
    (insertSorted le x l).map f = insertSorted le' (f x) (l.map f) := by
  induction l with
  | nil => rfl
  | cons y ys ih =>
    simp only [insertSorted, List.map_cons, ← h]
    split <;> simp [ih]

theorem sortBy_map (f : α → β) (le : α → α → Bool) (le' : β → β → Bool)
    (h : ∀ a b, le a b = le' (f a) (f b)) (l : List α) :
    (sortBy le l).map f = sortBy le' (l.map f) := by
  induction l with
  | nil => rfl
  | cons x xs ih => simp [sortBy, insertSorted_map f le le' h, ih]

end Flatland.PyList
