/-
Luhn: the two-digits-per-round loop of `luhn10_check` computes the textbook per-digit sum.
-/
import Flatland.C15
import Flatland.Spec.C15
namespace Flatland.C15.Proofs
open Flatland.C15 Flatland.C15.Spec

theorem doubled_eq (d : Nat) (h : d < 10) : d * 2 / 10 + d * 2 % 10 = doubled d := by
  unfold doubled
  split <;> omega

theorem digits_zero : digits 0 = [] := by
  rw [digits]; simp

theorem digits_pos (n : Nat) (h : n ≠ 0) : digits n = n % 10 :: digits (n / 10) := by
  rw [digits]; simp [h]

/-- **luhn_pairs_eq_digits**: for every number, the loop that consumes two decimal digits per
    round adds exactly the textbook Luhn sum of its digits (strong induction, base 100) -/
theorem luhn_pairs_eq_digits (n : Nat) : ∀ s, luhnLoop n s = s + luhnSum (digits n) := by
  induction n using Nat.strongRecOn with
  | _ n ih =>
    intro s
    by_cases hn : n = 0
    · subst hn
      rw [luhnLoop]; simp [digits_zero, luhnSum]
    · rw [luhnLoop]
      simp only [hn, dite_false]
      rw [ih (n / 100) (by omega)]
      rw [digits_pos n hn]
      by_cases h10 : n / 10 = 0
      · -- a single digit left
        have hlt : n < 10 := by omega
        have h100 : n / 100 = 0 := by omega
        rw [h10, h100, digits_zero]
        simp only [luhnSum]
        have : n % 100 / 10 = 0 := by omega
        rw [this]
        have : n % 100 % 10 = n % 10 := by omega
        omega
      · rw [digits_pos (n / 10) h10]
        have e1 : n / 10 / 10 = n / 100 := by omega
        rw [e1]
        simp only [luhnSum]
        have hd : n % 100 / 10 = n / 10 % 10 := by omega
        have hz : n % 100 % 10 = n % 10 := by omega
        rw [hd, hz]
        have := doubled_eq (n / 10 % 10) (by omega)
        omega

/-- `luhn10_check` = not negative and the textbook checksum holds -/
theorem luhn10Check_eq (n : Int) :
    luhn10Check n = (decide (0 ≤ n) && luhnSpec (digits n.toNat)) := by
  unfold luhn10Check luhnSpec
  by_cases h : n < 0
  · have : ¬ (0 ≤ n) := by omega
    simp [h, this]
  · have : 0 ≤ n := by omega
    simp [h, this, luhn_pairs_eq_digits]

example : luhn10Check 79927398713 = true := by
  simp [luhn10Check_eq, luhnSpec, digits_pos, digits_zero, luhnSum, doubled]
example : luhn10Check 79927398710 = false := by
  simp [luhn10Check_eq, luhnSpec, digits_pos, digits_zero, luhnSum, doubled]
example : luhn10Check (-5) = false := by decide

end Flatland.C15.Proofs
