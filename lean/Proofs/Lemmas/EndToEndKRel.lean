/-
END TO END / C02 — groundwork for "for CANONICAL pair lists the plain per-key reading of stability is enough":

* `KRel A B` — the same multiset, and the pairs of every KEY in the same relative order;
* it survives every stripping step of `_set_flat` that is injective on the keys that occur
  (`krel_filter`, `krel_filterMap`, `krel_wrap`, `krel_possibles`);
* a list all of whose keys are equal is determined by it (`krel_eq_of_const_key`);
* `ASame` only looks at the pairs that pass the element's own first test (`asame_congr_reach`), and
  is reflexive (`asame_refl`).
-/
import Proofs.Lemmas.EndToEndHNodupA
namespace Flatland.Flat.Proofs
open Flatland.Flat Flatland.Flat.Spec Flatland.EndToEnd

/-- the same multiset of pairs, and the pairs of every key in the same order -/
def KRel {κ : Type} [BEq κ] (A B : List (κ × Str)) : Prop :=
  A.Perm B ∧ ∀ k : κ, A.filter (fun p => p.1 == k) = B.filter (fun p => p.1 == k)

section krel
variable {κ κ' : Type} [BEq κ] [LawfulBEq κ] [BEq κ'] [LawfulBEq κ']

theorem krel_refl (A : List (κ × Str)) : KRel A A := ⟨List.Perm.refl _, fun _ => rfl⟩

theorem krel_nil_right {B : List (κ × Str)} (h : KRel [] B) : B = [] := (List.Perm.nil_eq h.1).symm

theorem krel_filter (q : κ × Str → Bool) {A B : List (κ × Str)} (h : KRel A B) :
    KRel (A.filter q) (B.filter q) := by
  refine ⟨h.1.filter q, fun k => ?_⟩
  have := congrArg (List.filter q) (h.2 k)
  simp only [List.filter_filter] at this ⊢
  have e : (fun a : κ × Str => (a.1 == k && q a)) = (fun a => (q a && a.1 == k)) := by
    funext a; exact Bool.and_comm _ _
  rw [e]; exact this

theorem filterMap_filter_restrict {α β} (g : α → Option β) (c : β → Bool) (d : α → Bool) :
    ∀ X : List α, (∀ x ∈ X, ∀ x', g x = some x' → c x' = true → d x = true) →
      (X.filterMap g).filter c = ((X.filter d).filterMap g).filter c
  | [], _ => rfl
  | a :: X, h => by
    have ih := filterMap_filter_restrict g c d X (fun x hx => h x (List.mem_cons_of_mem _ hx))
    cases hg : g a with
    | none =>
      by_cases hd : d a = true
      · simp only [List.filterMap_cons, List.filter_cons, hg, hd, if_true, ih]
      · simp only [List.filterMap_cons, List.filter_cons, hg, hd, if_false, Bool.false_eq_true, ih]
    | some a' =>
      by_cases hc : c a' = true
      · have hd := h a (by simp) a' hg hc
        simp only [List.filterMap_cons, List.filter_cons, hg, hd, hc, if_true, ih]
      · by_cases hd : d a = true
        · simp only [List.filterMap_cons, List.filter_cons, hg, hd, hc, if_true, if_false,
            Bool.false_eq_true, ih]
        · simp only [List.filterMap_cons, List.filter_cons, hg, hd, hc, if_false, Bool.false_eq_true, ih]

/-- a stripping step that is injective on the keys that occur keeps the relation -/
theorem krel_filterMap (g : κ × Str → Option (κ' × Str)) {A B : List (κ × Str)}
    (hinj : ∀ p ∈ A, ∀ q ∈ A, ∀ p' q', g p = some p' → g q = some q' → p'.1 = q'.1 → p.1 = q.1)
    (h : KRel A B) : KRel (A.filterMap g) (B.filterMap g) := by
  refine ⟨h.1.filterMap g, fun k' => ?_⟩
  by_cases hex : ∃ p0 ∈ A, ∃ p0', g p0 = some p0' ∧ p0'.1 = k'
  · obtain ⟨p0, hp0, p0', hg0, hk0⟩ := hex
    have hA : ∀ x ∈ A, ∀ x', g x = some x' → (x'.1 == k') = true → (x.1 == p0.1) = true := by
      intro x hx x' hgx hc
      have h1 : x'.1 = p0'.1 := by rw [hk0]; exact eq_of_beq hc
      rw [hinj x hx p0 hp0 x' p0' hgx hg0 h1]
      exact beq_self_eq_true _
    have hB : ∀ x ∈ B, ∀ x', g x = some x' → (x'.1 == k') = true → (x.1 == p0.1) = true :=
      fun x hx => hA x (h.1.mem_iff.mpr hx)
    rw [filterMap_filter_restrict g _ (fun p => p.1 == p0.1) A hA,
      filterMap_filter_restrict g _ (fun p => p.1 == p0.1) B hB, h.2 p0.1]
  · have hn : ∀ X : List (κ × Str), (∀ x ∈ X, x ∈ A) →
        (X.filterMap g).filter (fun p => p.1 == k') = [] := by
      intro X hX
      apply List.filter_eq_nil_iff.mpr
      intro x' hx' hc
      obtain ⟨x, hx, hgx⟩ := List.mem_filterMap.mp hx'
      exact hex ⟨x, hX x hx, x', hgx, eq_of_beq hc⟩
    rw [hn A (fun _ h => h), hn B (fun x hx => h.1.mem_iff.mpr hx)]

/-- all keys equal: the relation is equality -/
theorem krel_eq_of_const_key {A B : List (κ × Str)} (h : KRel A B) (k0 : κ) (hk : ∀ p ∈ A, p.1 = k0) :
    A = B := by
  have hA : A.filter (fun p => p.1 == k0) = A :=
    List.filter_eq_self.mpr (fun p hp => by rw [hk p hp]; exact beq_self_eq_true _)
  have hB : B.filter (fun p => p.1 == k0) = B :=
    List.filter_eq_self.mpr (fun p hp => by rw [hk p (h.1.mem_iff.mpr hp)]; exact beq_self_eq_true _)
  rw [← hA, ← hB]; exact h.2 k0

end krel

theorem krel_wrap {A B : List (Str × Str)} (h : KRel A B) : KRel (wrap A) (wrap B) := by
  have e : ∀ X : List (Str × Str),
      X.filterMap (fun p => (some ((some p.1 : Key), p.2) : Option (Key × Str))) = wrap X := by
    intro X
    induction X with
    | nil => rfl
    | cons x xs ih => simp only [List.filterMap_cons, ih, wrap, List.map_cons]
  have := krel_filterMap (fun p : Str × Str => (some ((some p.1 : Key), p.2) : Option (Key × Str)))
    (A := A) (B := B)
    (by
      intro p _ q _ p' q' hp hq hk
      injection hp with hp; injection hq with hq
      subst hp; subst hq
      simpa using hk) h
  rwa [e, e] at this

theorem krel_possibles (sep : Str) (name : Option Str) {A B : Pairs} (h : KRel A B) :
    KRel (possibles sep name A) (possibles sep name B) := by
  have h1 := krel_filterMap (fun p : Key × Str => p.1.map (fun k => (k, p.2))) (A := A) (B := B)
    (by
      intro p _ q _ p' q' hp hq hk
      obtain ⟨pk, pv⟩ := p; obtain ⟨qk, qv⟩ := q
      cases pk with
      | none => simp at hp
      | some a =>
        cases qk with
        | none => simp at hq
        | some b =>
          simp only [Option.map_some, Option.some.injEq] at hp hq
          subst hp; subst hq
          simpa using hk) h
  cases name with
  | none => simpa only [possibles] using h1
  | some n =>
    have h2 := krel_filterMap (fun p : Str × Str =>
        if isPrefix (n ++ sep) p.1 then some (p.1.drop (n ++ sep).length, p.2) else none)
      (by
        intro p _ q _ p' q' hp hq hk
        by_cases h1 : isPrefix (n ++ sep) p.1 = true
        · by_cases h2 : isPrefix (n ++ sep) q.1 = true
          · simp only [h1, h2, if_true, Option.some.injEq] at hp hq
            subst hp; subst hq
            obtain ⟨r1, e1⟩ := (isPrefix_iff _ _).mp h1
            obtain ⟨r2, e2⟩ := (isPrefix_iff _ _).mp h2
            simp only [e1, e2, List.drop_left] at hk
            rw [e1, e2, hk]
          · simp [h2] at hq
        · simp [h1] at hp) h1
    simpa only [possibles] using h2

/-! ### `ASame` is reflexive, and only looks at what passes the first test -/

mutual
theorem asame_refl (env : Env) (sep : Str) : ∀ (s : Schema) (ps : Pairs), ASame env sep s ps ps
  | .leaf .., _ => by simp only [ASame]
  | .joined .., _ => by simp only [ASame]
  | .dict name _ _ fields, ps => by
    simp only [ASame]; exact asameFields_refl env sep fields _
  | .compound name _ _ fields, ps => by
    simp only [ASame]; exact asameFields_refl env sep fields _
  | .list name _ prune _ member, ps => by
    simp only [ASame]; exact fun i => asame_refl env sep member _
  | .array name _ prune member, ps => by
    simp only [ASame]; split <;> trivial
theorem asameFields_refl (env : Env) (sep : Str) : ∀ (fs : List Schema) (poss : List (Str × Str)),
    ASameFields env sep fs poss poss
  | [], _ => by simp [ASameFields]
  | f :: fs, poss => by
    simp only [ASameFields]
    exact ⟨asame_refl env sep f _, asameFields_refl env sep fs poss⟩
end

theorem namedPass_stray (sep : Str) (prune : Bool) (name : Str) (cn : Option Str) (p : Key × Str)
    (h : arrayAddrNamed sep name cn p.1 = false) : namedPass sep prune name cn p = none := by
  have := arrayNamed_stray (fun _ => Elem.leaf []) sep prune name cn p.1 p.2 h
  rw [arrayNamed_eq] at this
  cases hp : namedPass sep prune name cn p with
  | none => rfl
  | some q => simp [hp] at this

theorem anonPass_stray (prune : Bool) (cn : Option Str) (p : Key × Str)
    (h : arrayAddrAnon cn p.1 = false) : anonPass prune cn p = none := by
  have := arrayAnon_stray (fun _ => Elem.leaf []) prune cn p.1 p.2 h
  rw [arrayAnon_eq] at this
  cases hp : anonPass prune cn p with
  | none => rfl
  | some q => simp [hp] at this

/-- `ASame` only looks at the pairs that pass the element's own first test -/
theorem asame_congr_reach (env : Env) (sep : Str) (s : Schema) (A A' B B' : Pairs)
    (hA : A.filter (fun p => reach env sep s p.1) = A'.filter (fun p => reach env sep s p.1))
    (hB : B.filter (fun p => reach env sep s p.1) = B'.filter (fun p => reach env sep s p.1))
    (h : ASame env sep s A' B') : ASame env sep s A B := by
  cases s with
  | leaf name o k => simp only [ASame]
  | joined name o k m => simp only [ASame]
  | dict name o mode fields =>
    simp only [ASame, reach] at h hA hB ⊢
    rw [← possibles_filter sep name A, ← possibles_filter sep name B, hA, hB, possibles_filter,
      possibles_filter]
    exact h
  | compound name o k fields =>
    simp only [ASame, reach] at h hA hB ⊢
    rw [← possibles_filter sep name A, ← possibles_filter sep name B, hA, hB, possibles_filter,
      possibles_filter]
    exact h
  | list name o prune mx member =>
    simp only [ASame, reach] at h hA hB ⊢
    intro i
    rw [← groupOf_filter env sep name prune i A, ← groupOf_filter env sep name prune i B, hA, hB,
      groupOf_filter, groupOf_filter]
    exact h i
  | array name o prune member =>
    simp only [ASame, reach] at h hA hB ⊢
    by_cases ht : truthy name = true
    · simp only [ht, Bool.not_true, Bool.false_eq_true, if_false] at h hA hB ⊢
      have e : ∀ X : Pairs, X.filterMap (namedPass sep prune (name.getD []) member.name)
          = (X.filter (fun p => arrayAddrNamed sep (name.getD []) member.name p.1)).filterMap
              (namedPass sep prune (name.getD []) member.name) := fun X =>
        (filterMap_filter_none _ _ X (fun x _ hx => namedPass_stray sep prune _ _ x hx)).symm
      rw [e A, e B, hA, hB, ← e A', ← e B']; exact h
    · have ht' : truthy name = false := by simpa using ht
      simp only [ht', Bool.not_false, if_true] at h hA hB ⊢
      have e : ∀ X : Pairs, X.filterMap (anonPass prune member.name)
          = (X.filter (fun p => arrayAddrAnon member.name p.1)).filterMap (anonPass prune member.name) :=
        fun X => (filterMap_filter_none _ _ X (fun x _ hx => anonPass_stray prune _ x hx)).symm
      rw [e A, e B, hA, hB, ← e A', ← e B']; exact h

/-- the keys of token paths: what follows a common head decides -/
theorem tokKey_append_cons (sep : Str) : ∀ (l : List Str) (t : Str) (ext ext' : List Str),
    tokKey sep ext = tokKey sep ext' → tokKey sep (l ++ t :: ext) = tokKey sep (l ++ t :: ext')
  | [], t, ext, ext', h => by
    cases ext with
    | nil =>
      cases ext' with
      | nil => rfl
      | cons a r => simp [tokKey] at h
    | cons a r =>
      cases ext' with
      | nil => simp [tokKey] at h
      | cons a' r' =>
        simp only [tokKey, Option.some.injEq] at h
        simp only [List.nil_append, tokKey, joinSep_cons_cons, h]
  | x :: l, t, ext, ext', h => by
    have ih := tokKey_append_cons sep l t ext ext' h
    cases l with
    | nil =>
      simp only [List.nil_append, tokKey, Option.some.injEq] at ih
      simp only [List.cons_append, List.nil_append, tokKey, joinSep_cons_cons, ih]
    | cons y l' =>
      simp only [List.cons_append, tokKey, Option.some.injEq] at ih
      simp only [List.cons_append, tokKey, joinSep_cons_cons, ih]

end Flatland.Flat.Proofs
