/-
C14, part 1: the FIFO work list of `PathExpression.__call__` computes the depth-first reading
`denOps` of an operation list (results in the same order, same error), for every op list
without a zero slice stride (which `tokenize` never produces: `tokenize_noZero`).
-/
import Flatland.Path
import Flatland.Spec.C14
namespace Flatland.C14.Proofs
open Flatland.Path Flatland.C14.Spec

instance {ε α : Type} [DecidableEq ε] [DecidableEq α] : DecidableEq (Except ε α) := fun a b =>
  match a, b with
  | .ok x, .ok y => if h : x = y then isTrue (by rw [h]) else isFalse (fun h' => h (Except.ok.inj h'))
  | .error x, .error y => if h : x = y then isTrue (by rw [h]) else isFalse (fun h' => h (Except.error.inj h'))
  | .ok _, .error _ => isFalse (fun h => by cases h)
  | .error _, .ok _ => isFalse (fun h => by cases h)

/-! ### sequencing in `Except Err` -/

def andThen {α β : Type} (x : Except Err α) (k : α → Except Err β) : Except Err β :=
  match x with
  | .error e => .error e
  | .ok a => k a

@[simp] theorem andThen_ok {α β : Type} (a : α) (k : α → Except Err β) : andThen (.ok a) k = k a := rfl
@[simp] theorem andThen_error {α β : Type} (e : Err) (k : α → Except Err β) :
    andThen (.error e) k = .error e := rfl

/-- every error of `x` is `e0` -/
def OnlyErr {α : Type} (e0 : Err) (x : Except Err α) : Prop := ∀ e, x = .error e → e = e0

abbrev OnlyLookup {α : Type} (x : Except Err α) : Prop := OnlyErr .lookup x

theorem flatMapM_cons {α β : Type} (f : α → Except Err (List β)) (x : α) (xs : List α) :
    flatMapM f (x :: xs) = andThen (f x) (fun ys => andThen (flatMapM f xs) (fun zs => .ok (ys ++ zs))) := by
  simp only [flatMapM]
  cases f x with
  | error e => rfl
  | ok ys =>
    simp only [andThen_ok]
    cases flatMapM f xs <;> rfl

@[simp] theorem flatMapM_nil {α β : Type} (f : α → Except Err (List β)) : flatMapM f [] = .ok [] := rfl

theorem flatMapM_append {α β : Type} (f : α → Except Err (List β)) (xs ys : List α) :
    flatMapM f (xs ++ ys)
      = andThen (flatMapM f xs) (fun a => andThen (flatMapM f ys) (fun b => .ok (a ++ b))) := by
  induction xs with
  | nil =>
    simp only [List.nil_append, flatMapM_nil, andThen_ok]
    cases flatMapM f ys <;> simp [andThen]
  | cons x xs ih =>
    simp only [List.cons_append, flatMapM_cons, ih]
    cases f x with
    | error e => rfl
    | ok a =>
      simp only [andThen_ok]
      cases flatMapM f xs with
      | error e => rfl
      | ok b =>
        simp only [andThen_ok]
        cases flatMapM f ys with
        | error e => rfl
        | ok c => simp [andThen]

theorem flatMapM_onlyLookup {α β : Type} {e0 : Err} (f : α → Except Err (List β)) (xs : List α)
    (hf : ∀ a, OnlyErr e0 (f a)) : OnlyErr e0 (flatMapM f xs) := by
  induction xs with
  | nil => intro e h; simp at h
  | cons x xs ih =>
    intro e h
    rw [flatMapM_cons] at h
    cases hx : f x with
    | error e' =>
      rw [hx] at h; simp only [andThen_error, Except.error.injEq] at h
      exact h ▸ hf x e' hx
    | ok ys =>
      rw [hx] at h; simp only [andThen_ok] at h
      cases hxs : flatMapM f xs with
      | error e' =>
        rw [hxs] at h; simp only [andThen_error, Except.error.injEq] at h
        exact h ▸ ih e' hxs
      | ok zs => rw [hxs] at h; simp at h

/-- bind law of `flatMapM`; the two sides meet errors in a different order, so it needs all
    errors to be the same -/
theorem flatMapM_bind {α β γ : Type} {e0 : Err} (f : α → Except Err (List β)) (g : β → Except Err (List γ))
    (hf : ∀ a, OnlyErr e0 (f a)) (hg : ∀ b, OnlyErr e0 (g b)) (xs : List α) :
    flatMapM (fun a => andThen (f a) (flatMapM g)) xs = andThen (flatMapM f xs) (flatMapM g) := by
  induction xs with
  | nil => rfl
  | cons x xs ih =>
    rw [flatMapM_cons, flatMapM_cons, ih]
    cases hx : f x with
    | error e => rfl
    | ok ys =>
      simp only [andThen_ok]
      cases hxs : flatMapM f xs with
      | error e =>
        have he := flatMapM_onlyLookup f xs hf e hxs
        subst he
        simp only [andThen_error]
        cases hys : flatMapM g ys with
        | error e' =>
          have := flatMapM_onlyLookup g ys hg e' hys
          subst this; rfl
        | ok _ => rfl
      | ok zs =>
        simp only [andThen_ok]
        rw [flatMapM_append]

/-! ### no zero stride -/

def Op.stepOk : Op → Bool
  | .slice _ _ (some c) => c != 0
  | _ => true

def NoZero (ops : List Op) : Bool := ops.all Op.stepOk

theorem denOps_onlyLookup (root : Node) (strict : Bool) :
    ∀ (ops : List Op), NoZero ops = true → ∀ el, OnlyLookup (denOps root strict ops el)
  | [], _, el => by intro e h; simp [denOps] at h
  | .top :: r, hz, el => by
    simp only [denOps]; exact denOps_onlyLookup root strict r (by simpa [NoZero, Op.stepOk] using hz) []
  | .up :: r, hz, el => by
    simp only [denOps]; exact denOps_onlyLookup root strict r (by simpa [NoZero, Op.stepOk] using hz) _
  | .here :: r, hz, el => by
    simp only [denOps]; exact denOps_onlyLookup root strict r (by simpa [NoZero, Op.stepOk] using hz) _
  | .name d :: r, hz, el => by
    simp only [denOps]
    split
    · exact denOps_onlyLookup root strict r (by simpa [NoZero, Op.stepOk] using hz) _
    · intro e h; split at h <;> simp at h; exact h.symm
  | .slice a b c :: r, hz, el => by
    have hz' : NoZero r = true := by
      simp only [NoZero, List.all_cons, Bool.and_eq_true] at hz; exact hz.2
    have hc : (c == some 0) = false := by
      simp only [NoZero, List.all_cons, Bool.and_eq_true] at hz
      have h1 := hz.1
      cases c with
      | none => rfl
      | some v =>
        simp only [Op.stepOk, bne_iff_ne, ne_eq] at h1
        simp [h1]
    simp only [denOps, hc]
    exact flatMapM_onlyLookup _ _ (fun p => denOps_onlyLookup root strict r hz' p)

/-- without `strict` a failed lookup selects nothing, so the only possible error is the
    `ValueError` of a zero slice step -/
theorem denOps_lax_onlyValue (root : Node) :
    ∀ (ops : List Op) (el : Pos), OnlyErr .value (denOps root false ops el)
  | [], el => by intro e h; simp [denOps] at h
  | .top :: r, el => by simp only [denOps]; exact denOps_lax_onlyValue root r []
  | .up :: r, el => by simp only [denOps]; exact denOps_lax_onlyValue root r _
  | .here :: r, el => by simp only [denOps]; exact denOps_lax_onlyValue root r _
  | .name d :: r, el => by
    simp only [denOps]
    split
    · exact denOps_lax_onlyValue root r _
    · intro e h; simp at h
  | .slice a b c :: r, el => by
    simp only [denOps]
    split
    · intro e h; simp only [Except.error.injEq] at h; exact h.symm
    · exact flatMapM_onlyLookup _ _ (fun p => denOps_lax_onlyValue root r p)

/-- the situations in which every error of an evaluation is the same one: no zero stride
    (only `LookupError`), or non-strict lookups (only `ValueError`).  With strict lookups AND a zero
    stride, which of the two is raised first depends on the order of evaluation. -/
def Uni (strict : Bool) (ops : List Op) : Prop := NoZero ops = true ∨ strict = false

def errOf (strict : Bool) : Err := if strict then .lookup else .value

theorem denOps_onlyErr (root : Node) (strict : Bool) (ops : List Op) (hu : Uni strict ops) (el : Pos) :
    OnlyErr (errOf strict) (denOps root strict ops el) := by
  cases strict with
  | false => exact denOps_lax_onlyValue root ops el
  | true =>
    rcases hu with h | h
    · exact denOps_onlyLookup root true ops h el
    · cases h

/-! ### one context: `runCtx` against `denOps` -/

/-- the ops left after the first slice, if there is a slice -/
def afterSlice : List Op → Option (List Op)
  | [] => none
  | .slice _ _ _ :: r => some r
  | _ :: r => afterSlice r

theorem denOps_of_runCtx (root : Node) (strict : Bool) :
    ∀ (ops : List Op) (el : Pos),
      denOps root strict ops el =
        match runCtx root strict ops el with
        | .error e => .error e
        | .ok (.found p) => .ok [p]
        | .ok .dead => .ok []
        | .ok (.spawn rest kids) => flatMapM (denOps root strict rest) kids
  | [], el => by simp [denOps, runCtx]
  | .top :: r, el => by simp only [denOps, runCtx]; exact denOps_of_runCtx root strict r []
  | .up :: r, el => by simp only [denOps, runCtx]; exact denOps_of_runCtx root strict r _
  | .here :: r, el => by simp only [denOps, runCtx]; exact denOps_of_runCtx root strict r _
  | .name d :: r, el => by
    simp only [denOps, runCtx]
    cases hi : indexAt root el d with
    | some i => simp only []; exact denOps_of_runCtx root strict r _
    | none => cases strict <;> simp
  | .slice a b c :: r, el => by
    simp only [denOps, runCtx]
    split <;> rfl

/-- a context over slice-free ops never spawns; over ops with a slice it never finishes, and
    what it spawns continues with `afterSlice` -/
theorem runCtx_shape (root : Node) (strict : Bool) :
    ∀ (ops : List Op) (el : Pos),
      match afterSlice ops, runCtx root strict ops el with
      | none, .ok (.spawn _ _) => False
      | some _, .ok (.found _) => False
      | some rest, .ok (.spawn rest' _) => rest' = rest
      | _, _ => True
  | [], el => by simp [afterSlice, runCtx]
  | .top :: r, el => by simp only [afterSlice, runCtx]; exact runCtx_shape root strict r []
  | .up :: r, el => by simp only [afterSlice, runCtx]; exact runCtx_shape root strict r _
  | .here :: r, el => by simp only [afterSlice, runCtx]; exact runCtx_shape root strict r _
  | .name d :: r, el => by
    simp only [afterSlice, runCtx]
    cases hi : indexAt root el d with
    | some i => simp only []; exact runCtx_shape root strict r _
    | none => cases strict <;> (cases afterSlice r <;> simp)
  | .slice a b c :: r, el => by
    simp only [afterSlice, runCtx]
    by_cases hc : (c == some 0) = true <;> simp [hc]

theorem afterSlice_length : ∀ (ops rest : List Op), afterSlice ops = some rest → rest.length < ops.length
  | [], rest, h => by simp [afterSlice] at h
  | .slice _ _ _ :: r, rest, h => by simp only [afterSlice, Option.some.injEq] at h; subst h; simp
  | .top :: r, rest, h => by have := afterSlice_length r rest (by simpa [afterSlice] using h); simp; omega
  | .up :: r, rest, h => by have := afterSlice_length r rest (by simpa [afterSlice] using h); simp; omega
  | .here :: r, rest, h => by have := afterSlice_length r rest (by simpa [afterSlice] using h); simp; omega
  | .name _ :: r, rest, h => by have := afterSlice_length r rest (by simpa [afterSlice] using h); simp; omega

theorem afterSlice_noZero : ∀ (ops rest : List Op), afterSlice ops = some rest → NoZero ops = true → NoZero rest = true
  | [], rest, h, _ => by simp [afterSlice] at h
  | .slice _ _ _ :: r, rest, h, hz => by
    simp only [afterSlice, Option.some.injEq] at h; subst h
    simp only [NoZero, List.all_cons, Bool.and_eq_true] at hz; exact hz.2
  | .top :: r, rest, h, hz => afterSlice_noZero r rest (by simpa [afterSlice] using h) (by simpa [NoZero, Op.stepOk] using hz)
  | .up :: r, rest, h, hz => afterSlice_noZero r rest (by simpa [afterSlice] using h) (by simpa [NoZero, Op.stepOk] using hz)
  | .here :: r, rest, h, hz => afterSlice_noZero r rest (by simpa [afterSlice] using h) (by simpa [NoZero, Op.stepOk] using hz)
  | .name _ :: r, rest, h, hz => afterSlice_noZero r rest (by simpa [afterSlice] using h) (by simpa [NoZero, Op.stepOk] using hz)

/-! ### one pass over the queue -/

/-- unfolding of `work` on a non-empty queue -/
theorem work_cons (root : Node) (strict : Bool) (ops : List Op) (el : Pos) (q : List Ctx) :
    work root strict ((ops, el) :: q) =
      match runCtx root strict ops el with
      | .error e => .error e
      | .ok (.found p) => andThen (work root strict q) (fun ps => .ok (p :: ps))
      | .ok .dead => work root strict q
      | .ok (.spawn rest kids) => work root strict (q ++ kids.map (fun k => (rest, k))) := by
  rw [work]
  split <;> rename_i h <;> simp only [h]
  · cases work root strict q <;> rfl

/-- one pass: the elements found by the contexts of `q` and the contexts they spawn, in order -/
def pass (root : Node) (strict : Bool) : List Ctx → Except Err (List Pos × List Ctx)
  | [] => .ok ([], [])
  | (ops, el) :: q =>
    match runCtx root strict ops el with
    | .error e => .error e
    | .ok r =>
      andThen (pass root strict q) (fun fs =>
        match r with
        | .found p => .ok (p :: fs.1, fs.2)
        | .dead => .ok fs
        | .spawn rest kids => .ok (fs.1, kids.map (fun k => (rest, k)) ++ fs.2))

/-- FIFO = level by level: everything already queued (`q`, then `x`) is finished before
    anything `q` spawns -/
theorem work_pass (root : Node) (strict : Bool) :
    ∀ (q x : List Ctx),
      work root strict (q ++ x) =
        andThen (pass root strict q) (fun fs =>
          andThen (work root strict (x ++ fs.2)) (fun rest => .ok (fs.1 ++ rest)))
  | [], x => by
    simp only [List.nil_append, pass, andThen_ok, List.append_nil]
    cases work root strict x <;> rfl
  | (ops, el) :: q, x => by
    rw [List.cons_append, work_cons, pass]
    cases hr : runCtx root strict ops el with
    | error e => rfl
    | ok r =>
      cases r with
      | found p =>
        simp only [work_pass root strict q x]
        cases pass root strict q with
        | error e => rfl
        | ok fs =>
          simp only [andThen_ok]
          cases work root strict (x ++ fs.2) <;> rfl
      | dead =>
        simp only [work_pass root strict q x]
        cases pass root strict q with
        | error e => rfl
        | ok fs => rfl
      | spawn rest kids =>
        simp only [List.append_assoc, work_pass root strict q (x ++ kids.map (fun k => (rest, k)))]
        cases pass root strict q with
        | error e => rfl
        | ok fs => simp only [andThen_ok]

/-! ### a level: all contexts share the same ops -/

/-- what one context contributes to the next level -/
def spawnOf (root : Node) (strict : Bool) (ops : List Op) (el : Pos) : Except Err (List Pos) :=
  match runCtx root strict ops el with
  | .error e => .error e
  | .ok (.spawn _ kids) => .ok kids
  | .ok _ => .ok []

theorem pass_none (root : Node) (strict : Bool) (ops : List Op) (h : afterSlice ops = none) :
    ∀ els : List Pos,
      pass root strict (els.map (fun el => (ops, el)))
        = andThen (flatMapM (denOps root strict ops) els) (fun fs => .ok (fs, []))
  | [] => rfl
  | el :: els => by
    simp only [List.map_cons, pass, flatMapM_cons, pass_none root strict ops h els]
    have hs := runCtx_shape root strict ops el
    have hd := denOps_of_runCtx root strict ops el
    rw [h] at hs
    cases hr : runCtx root strict ops el with
    | error e => rw [hr] at hd; simp [hd]
    | ok r =>
      rw [hr] at hd hs
      cases r with
      | found p =>
        simp only [] at hd
        rw [hd]
        cases flatMapM (denOps root strict ops) els <;> simp [andThen]
      | dead =>
        simp only [] at hd
        rw [hd]
        cases flatMapM (denOps root strict ops) els <;> simp [andThen]
      | spawn rest kids => exact absurd hs (by simp)

theorem pass_some (root : Node) (strict : Bool) (ops rest : List Op) (h : afterSlice ops = some rest) :
    ∀ els : List Pos,
      pass root strict (els.map (fun el => (ops, el)))
        = andThen (flatMapM (spawnOf root strict ops) els)
            (fun ks => .ok ([], ks.map (fun k => (rest, k))))
  | [] => rfl
  | el :: els => by
    simp only [List.map_cons, pass, flatMapM_cons, pass_some root strict ops rest h els, spawnOf]
    have hs := runCtx_shape root strict ops el
    rw [h] at hs
    cases hr : runCtx root strict ops el with
    | error e => simp
    | ok r =>
      rw [hr] at hs
      cases r with
      | found p => exact absurd hs (by simp)
      | dead =>
        cases flatMapM (spawnOf root strict ops) els <;> simp [andThen]
      | spawn rest' kids =>
        simp only [] at hs
        subst hs
        cases flatMapM (spawnOf root strict ops) els <;> simp [andThen]

theorem denOps_spawnOf (root : Node) (strict : Bool) (ops rest : List Op) (h : afterSlice ops = some rest)
    (el : Pos) :
    denOps root strict ops el = andThen (spawnOf root strict ops el) (flatMapM (denOps root strict rest)) := by
  have hs := runCtx_shape root strict ops el
  have hd := denOps_of_runCtx root strict ops el
  rw [h] at hs
  unfold spawnOf
  cases hr : runCtx root strict ops el with
  | error e => rw [hr] at hd; simp [hd]
  | ok r =>
    rw [hr] at hd hs
    cases r with
    | found p => exact absurd hs (by simp)
    | dead => simp only [] at hd; simp [hd]
    | spawn rest' kids =>
      simp only [] at hs hd
      subst hs
      simp [hd]

theorem spawnOf_onlyLookup (root : Node) (strict : Bool) (ops : List Op) (hz : Uni strict ops) (el : Pos) :
    OnlyErr (errOf strict) (spawnOf root strict ops el) := by
  intro e he
  apply denOps_onlyErr root strict ops hz el e
  rw [denOps_of_runCtx]
  unfold spawnOf at he
  cases hr : runCtx root strict ops el with
  | error e' => rw [hr] at he; simpa using he
  | ok r => rw [hr] at he; cases r <;> simp at he

/-- a whole level of the work list = the depth-first reading applied to each element in turn -/
theorem work_level (root : Node) (strict : Bool) :
    ∀ (n : Nat) (ops : List Op), ops.length ≤ n → Uni strict ops → ∀ els : List Pos,
      work root strict (els.map (fun el => (ops, el))) = flatMapM (denOps root strict ops) els
  | n, ops, hn, hz, els => by
    have hw := work_pass root strict (els.map (fun el => (ops, el))) []
    rw [List.append_nil] at hw
    rw [hw]
    cases ha : afterSlice ops with
    | none =>
      rw [pass_none root strict ops ha els]
      cases flatMapM (denOps root strict ops) els with
      | error e => rfl
      | ok fs => simp [work]
    | some rest =>
      have hlt := afterSlice_length ops rest ha
      have hz' : Uni strict rest := hz.imp (afterSlice_noZero ops rest ha) id
      rw [pass_some root strict ops rest ha els]
      have hfun : denOps root strict ops
          = fun el => andThen (spawnOf root strict ops el) (flatMapM (denOps root strict rest)) :=
        funext (denOps_spawnOf root strict ops rest ha)
      rw [hfun, flatMapM_bind _ _ (spawnOf_onlyLookup root strict ops hz)
        (denOps_onlyErr root strict rest hz')]
      cases flatMapM (spawnOf root strict ops) els with
      | error e => rfl
      | ok ks =>
        simp only [andThen_ok, List.nil_append]
        match n, hn with
        | 0, hn => omega
        | n + 1, hn =>
          rw [work_level root strict n rest (by omega) hz' ks]
          cases flatMapM (denOps root strict rest) ks <;> rfl

end Flatland.C14.Proofs
