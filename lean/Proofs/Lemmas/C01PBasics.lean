/-
C01, general (pruning) form — groundwork: dropping empty-valued pairs commutes with everything the
round trip does with paths.
-/
import Flatland.Spec.C01Prune
import Proofs.Lemmas.C01List
namespace Flatland.Flat.Proofs
open Flatland.Flat Flatland.Flat.Spec

/-- does a path-level pair survive an enclosing pruning List? -/
def keepP (u : Bool) (x : PPair) : Bool := !u || !x.2.isEmpty

theorem keepS_joinPair (sep : Str) (u : Bool) (x : PPair) : keepS u (joinPair sep x) = keepP u x := rfl

theorem keepP_pre (π : List Str) (u : Bool) (x : PPair) : keepP u (pre π x) = keepP u x := rfl

theorem filter_keepP_pre (π : List Str) (u : Bool) (l : List PPair) :
    (l.map (pre π)).filter (keepP u) = (l.filter (keepP u)).map (pre π) := by
  induction l with
  | nil => rfl
  | cons x xs ih =>
    simp only [List.map_cons, List.filter_cons, keepP_pre, ih]
    split <;> rfl

theorem keepP_false (x : PPair) : keepP false x = true := rfl

theorem filter_keepP_false (l : List PPair) : l.filter (keepP false) = l := by
  apply List.filter_eq_self.mpr; intro x _; rfl

theorem keepP_or (u p : Bool) (x : PPair) :
    (keepP u x && !(p && x.2.isEmpty)) = keepP (u || p) x := by
  unfold keepP
  cases u <;> cases p <;> cases x.2.isEmpty <;> rfl

/-- the general round-trip statement for one schema: with or without an enclosing pruning List -/
def RTP (env : Env) (sep : Str) (s : Schema) : Prop :=
  ∀ (u : Bool) (e : Elem), OkP env s e →
    setFlat env sep s (blank s) (toKeys sep ((relFlat (resolve env s e)).filter (keepP u))) = pr env u s e

theorem emitsB_iff (env : Env) (u : Bool) (s : Schema) (e : Elem) :
    emitsB env u s e = true ↔ (relFlat (resolve env s e)).filter (keepP u) ≠ [] := by
  unfold emitsB
  rw [flatten_eq_relFlat]
  have h : ((relFlat (resolve env s e)).map (joinPair [])).filter (keepS u)
      = ((relFlat (resolve env s e)).filter (keepP u)).map (joinPair []) := by
    rw [List.filter_map]; rfl
  rw [h]
  cases hf : (relFlat (resolve env s e)).filter (keepP u) with
  | nil => simp
  | cons a as => simp

theorem emitsB_false_iff (env : Env) (u : Bool) (s : Schema) (e : Elem) :
    emitsB env u s e = false ↔ (relFlat (resolve env s e)).filter (keepP u) = [] := by
  constructor
  · intro h
    cases hf : (relFlat (resolve env s e)).filter (keepP u) with
    | nil => rfl
    | cons a as =>
      have := (emitsB_iff env u s e).mpr (by rw [hf]; simp)
      rw [h] at this; cases this
  · intro h
    cases he : emitsB env u s e with
    | false => rfl
    | true => exact absurd h ((emitsB_iff env u s e).mp he)

theorem toKeys_filter (sep : Str) (u : Bool) (l : List PPair) :
    toKeys sep (l.filter (keepP u)) = (toKeys sep l).filter (fun p => !u || !p.2.isEmpty) := by
  simp only [toKeys, List.filter_map]
  rfl

end Flatland.Flat.Proofs
