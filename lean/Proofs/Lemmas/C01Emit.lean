/-
When does an element emit a (surviving) flat pair?  Structural characterisation of `emitsB`,
through a permutation view of the queue loop.
-/
import Proofs.Lemmas.C01PList
namespace Flatland.Flat.Proofs
open Flatland.Flat Flatland.Flat.Spec

/-- the output for a concatenated queue is a permutation of the two outputs -/
theorem bfsPath_append_perm (a b : List QItem) :
    (bfsPath (a ++ b)).Perm (bfsPath a ++ bfsPath b) := by
  induction h : qsize (a ++ b) using Nat.strongRecOn generalizing a b with
  | _ n ih =>
    by_cases hab : a ++ b = []
    · have ha : a = [] := (List.append_eq_nil_iff.mp hab).1
      have hb : b = [] := (List.append_eq_nil_iff.mp hab).2
      subst ha; subst hb; simp [bfsPath_nil]
    · rw [bfsPath_level (a ++ b), bfsPath_level a, bfsPath_level b]
      simp only [List.flatMap_append]
      have hs := qsize_flatMap_pushed (a ++ b)
      have hlen : 0 < (a ++ b).length := List.length_pos_iff.mpr hab
      have hlt : qsize (a.flatMap pushed ++ b.flatMap pushed) < n := by
        rw [← List.flatMap_append]; omega
      have := ih _ hlt (a.flatMap pushed) (b.flatMap pushed) rfl
      refine List.Perm.trans (List.Perm.append_left _ this) ?_
      simp only [List.append_assoc]
      apply List.Perm.append_left
      rw [← List.append_assoc, ← List.append_assoc]
      apply List.Perm.append_right
      exact List.perm_append_comm

theorem bfsPath_perm_flatMap (q : List QItem) :
    (bfsPath q).Perm (q.flatMap (fun it => bfsPath [it])) := by
  induction q with
  | nil => simp [bfsPath_nil]
  | cons it q ih =>
    have h := bfsPath_append_perm [it] q
    simp only [List.singleton_append] at h
    refine h.trans ?_
    rw [List.flatMap_cons]
    exact List.Perm.append_left _ ih

theorem mem_bfsPath_iff (q : List QItem) (x : PPair) :
    x ∈ bfsPath q ↔ ∃ it ∈ q, x ∈ bfsPath [it] := by
  rw [(bfsPath_perm_flatMap q).mem_iff, List.mem_flatMap]

/-- the node emits a pair that survives `u` -/
def emitsN (u : Bool) (n : FNode) : Prop := ∃ x ∈ relFlat n, keepP u x = true

theorem filter_ne_nil_iff {α} (p : α → Bool) (l : List α) : l.filter p ≠ [] ↔ ∃ x ∈ l, p x = true := by
  constructor
  · intro h
    obtain ⟨x, hx⟩ := List.exists_mem_of_ne_nil _ h
    exact ⟨x, (List.mem_filter.mp hx).1, (List.mem_filter.mp hx).2⟩
  · rintro ⟨x, hx, hp⟩
    exact List.ne_nil_of_mem (List.mem_filter.mpr ⟨hx, hp⟩)

theorem emitsB_iffN (env : Env) (u : Bool) (s : Schema) (e : Elem) :
    emitsB env u s e = true ↔ emitsN u (resolve env s e) := by
  rw [emitsB_iff, filter_ne_nil_iff]; rfl

theorem mem_kidsFrom (p : List Str) (s : Bool) (i : Nat) (ks : List FNode) (c : QItem)
    (hc : c ∈ kidsFrom p s i ks) : c.2 ∈ ks := by
  induction ks generalizing i with
  | nil => simp [kidsFrom] at hc
  | cons k ks ih =>
    simp only [kidsFrom, List.mem_cons] at hc
    rcases hc with rfl | hc
    · simp
    · exact List.mem_cons_of_mem _ (ih (i + 1) hc)

theorem kidsFrom_mem (p : List Str) (s : Bool) (i : Nat) (ks : List FNode) (k : FNode) (hk : k ∈ ks) :
    ∃ c ∈ kidsFrom p s i ks, c.2 = k := by
  induction ks generalizing i with
  | nil => simp at hk
  | cons k' ks ih =>
    simp only [kidsFrom]
    rcases List.mem_cons.mp hk with rfl | h
    · exact ⟨_, List.mem_cons_self, rfl⟩
    · obtain ⟨c, hc, hck⟩ := ih (i + 1) h
      exact ⟨c, List.mem_cons_of_mem _ hc, hck⟩

/-- the output of one queued item is the node's own output, with the item's path in front -/
theorem bfsPath_single (p : List Str) (k : FNode) : bfsPath [(p, k)] = (relFlat k).map (pre p) := by
  have : [((p, k) : QItem)] = [(([], k) : QItem)].map (shift p) := by simp [shift]
  rw [this, bfsPath_shift']
  rfl

theorem emitsN_item (u : Bool) (p : List Str) (k : FNode) :
    (∃ x ∈ bfsPath [(p, k)], keepP u x = true) ↔ emitsN u k := by
  rw [bfsPath_single]
  unfold emitsN
  constructor
  · rintro ⟨x, hx, hk⟩
    obtain ⟨y, hy, rfl⟩ := List.mem_map.mp hx
    exact ⟨y, hy, by rwa [keepP_pre] at hk⟩
  · rintro ⟨y, hy, hk⟩
    exact ⟨pre p y, List.mem_map_of_mem hy, by rwa [keepP_pre]⟩

/-- a node emits iff it emits its own pair or one of its (flattened) children emits -/
theorem emitsN_mk (u : Bool) (nm : Option Str) (fl cfl : Bool) (t : Str) (slots : Bool) (kids : List FNode) :
    emitsN u (.mk nm fl cfl t slots kids) ↔
      (fl = true ∧ (!u || !t.isEmpty) = true) ∨ (cfl = true ∧ ∃ k ∈ kids, emitsN u k) := by
  unfold emitsN
  rw [relFlat_eq]
  simp only [List.mem_append]
  constructor
  · rintro ⟨x, hx | hx, hk⟩
    · left
      unfold ownPath at hx
      simp only [FNode.fl] at hx
      cases fl with
      | false => simp at hx
      | true =>
        simp only [if_true, List.mem_singleton] at hx
        subst hx
        exact ⟨rfl, hk⟩
    · right
      unfold pushed at hx
      simp only [FNode.cfl] at hx
      cases cfl with
      | false => simp [bfsPath_nil] at hx
      | true =>
        simp only [if_true] at hx
        obtain ⟨it, hit, hxi⟩ := (mem_bfsPath_iff _ x).mp hx
        refine ⟨rfl, it.2, ?_, ?_⟩
        · unfold childItems at hit
          exact mem_kidsFrom _ _ _ _ it hit
        · obtain ⟨p, k⟩ := it
          exact (emitsN_item u p k).mp ⟨x, hxi, hk⟩
  · rintro (⟨hfl, hk⟩ | ⟨hcfl, k, hkk, hem⟩)
    · subst hfl
      refine ⟨(namePath [] (.mk nm true cfl t slots kids), t), Or.inl ?_, hk⟩
      simp [ownPath, FNode.fl, FNode.u]
    · subst hcfl
      obtain ⟨c, hc, hck⟩ := kidsFrom_mem (namePath [] (.mk nm fl true t slots kids)) slots 0 kids k hkk
      obtain ⟨p, k'⟩ := c
      simp only at hck; subst hck
      obtain ⟨x, hx, hkx⟩ := (emitsN_item u p k').mpr hem
      refine ⟨x, Or.inr ?_, hkx⟩
      apply (mem_bfsPath_iff _ x).mpr
      refine ⟨(p, k'), ?_, hx⟩
      simp only [pushed, FNode.cfl, if_true, childItems, FNode.slots, FNode.kids]
      exact hc

/-! ### element level -/

theorem bool_eq_of_iff {a b : Bool} (h : a = true ↔ b = true) : a = b := by
  cases a <;> cases b <;> simp_all

theorem emitsN_resolveList (env : Env) (u : Bool) (member : Schema) (ms : List Elem) :
    (∃ k ∈ resolveList env member ms, emitsN u k) ↔ ms.any (emitsB env u member) = true := by
  rw [resolveList_eq_map, List.any_eq_true]
  constructor
  · rintro ⟨k, hk, hem⟩
    obtain ⟨m, hm, rfl⟩ := List.mem_map.mp hk
    exact ⟨m, hm, (emitsB_iffN env u member m).mpr hem⟩
  · rintro ⟨m, hm, hem⟩
    exact ⟨_, List.mem_map_of_mem hm, (emitsB_iffN env u member m).mp hem⟩

theorem emitsB_list (env : Env) (u : Bool) (nm : Option Str) (o p : Bool) (mx : Nat) (member : Schema)
    (ms : List Elem) :
    emitsB env u (.list nm o p mx member) (.list ms) = ms.any (emitsB env u member) := by
  apply bool_eq_of_iff
  rw [emitsB_iffN]
  have hr : resolve env (.list nm o p mx member) (.list ms)
      = .mk nm false true [] true (resolveList env member ms) := by unfold resolve; rfl
  rw [hr, emitsN_mk, emitsN_resolveList]
  simp

theorem emitsB_array (env : Env) (u : Bool) (nm : Option Str) (o p : Bool) (member : Schema)
    (ms : List Elem) :
    emitsB env u (.array nm o p member) (.array ms) = ms.any (emitsB env u member) := by
  apply bool_eq_of_iff
  rw [emitsB_iffN]
  have hr : resolve env (.array nm o p member) (.array ms)
      = .mk nm false true [] false (resolveList env member ms) := by unfold resolve; rfl
  rw [hr, emitsN_mk, emitsN_resolveList]
  simp

theorem emitsB_joined (env : Env) (u : Bool) (nm : Option Str) (o : Bool) (k : Nat) (member : Schema)
    (t : Str) (ms : List Elem) :
    emitsB env u (.joined nm o k member) (.joined t ms) = (!u || !t.isEmpty) := by
  apply bool_eq_of_iff
  rw [emitsB_iffN]
  have hr : resolve env (.joined nm o k member) (.joined t ms)
      = .mk nm true false t false (resolveList env member ms) := by unfold resolve; rfl
  rw [hr, emitsN_mk]
  simp

/-- some field emits -/
def emFields (env : Env) (u : Bool) : List Schema → List (Str × Elem) → Bool
  | f :: fs, (_, e) :: ms => emitsB env u f e || emFields env u fs ms
  | _, _ => false

theorem emitsN_resKids (env : Env) (u : Bool) : ∀ (fs : List Schema) (ms : List (Str × Elem)),
    (∃ k ∈ resKids env fs ms, emitsN u k) ↔ emFields env u fs ms = true
  | [], _ => by simp [resKids, emFields]
  | _ :: _, [] => by simp [resKids, emFields]
  | f :: fs, (k, e) :: ms => by
    simp only [resKids, emFields, List.mem_cons, Bool.or_eq_true, exists_eq_or_imp]
    rw [emitsN_resKids env u fs ms, emitsB_iffN]

theorem emitsB_dict (env : Env) (u : Bool) (nm : Option Str) (o : Bool) (fields : List Schema)
    (hnd : (namesOf fields).Nodup) (hsome : ∀ g ∈ fields, g.name.isSome) (ms : List (Str × Elem))
    (hok : OkPFields env fields ms) :
    emitsB env u (.dict nm o .dense fields) (.dict ms) = emFields env u fields ms := by
  apply bool_eq_of_iff
  rw [emitsB_iffN]
  have hr : resolve env (.dict nm o .dense fields) (.dict ms)
      = .mk nm false true [] false (resKids env fields ms) := by
    unfold resolve
    simp only [membersOf]
    rw [resolveMembers_eqP env fields hnd hsome ms fields ms (fun f hf => hf) hok]
  rw [hr, emitsN_mk, emitsN_resKids]
  simp

theorem emitsB_compound (env : Env) (u : Bool) (nm : Option Str) (o : Bool) (k : Nat) (fields : List Schema)
    (hnd : (namesOf fields).Nodup) (hsome : ∀ g ∈ fields, g.name.isSome) (ms : List (Str × Elem))
    (hok : OkPFields env fields ms) :
    emitsB env u (.compound nm o k fields) (.dict ms)
      = ((!u || !(uOf env (.compound nm o k fields) (.dict ms)).isEmpty) || emFields env u fields ms) := by
  apply bool_eq_of_iff
  rw [emitsB_iffN]
  have hr : resolve env (.compound nm o k fields) (.dict ms)
      = .mk nm true true (uOf env (.compound nm o k fields) (.dict ms)) false (resKids env fields ms) := by
    unfold resolve
    simp only [membersOf]
    rw [resolveMembers_eqP env fields hnd hsome ms fields ms (fun f hf => hf) hok]
  rw [hr, emitsN_mk, emitsN_resKids]
  simp

end Flatland.Flat.Proofs
