import Flatland.C17
import Flatland.Spec.C17
namespace Flatland.C17.Proofs
open Flatland.C17 Flatland.C17.Spec

/-! ### association lists -/
section AL
variable {κ β : Type} [DecidableEq κ]

@[simp] theorem get?_nil (k : κ) : AList.get? ([] : AList κ β) k = none := rfl

theorem get?_set (d : AList κ β) (k k' : κ) (b : β) :
    AList.get? (AList.set d k b) k' = if k = k' then some b else AList.get? d k' := by
  induction d with
  | nil => simp [AList.set, AList.get?]
  | cons p r ih =>
    obtain ⟨k0, b0⟩ := p
    simp only [AList.set]
    split <;> simp only [AList.get?] <;> grind

theorem get?_append (a b : AList κ β) (k : κ) :
    AList.get? (a ++ b) k = (AList.get? a k).or (AList.get? b k) := by
  induction a with
  | nil => simp
  | cons p r ih =>
    obtain ⟨k0, b0⟩ := p
    simp only [List.cons_append, AList.get?]
    split <;> simp_all

theorem get?_eq_none_iff (a : AList κ β) (k : κ) : AList.get? a k = none ↔ k ∉ a.map (·.1) := by
  induction a with
  | nil => simp
  | cons p r ih =>
    obtain ⟨k0, b0⟩ := p
    simp only [AList.get?, List.map_cons, List.mem_cons]
    split <;> grind

theorem mem_of_get? (a : AList κ β) (k : κ) (b : β) (h : AList.get? a k = some b) : (k, b) ∈ a := by
  induction a with
  | nil => simp at h
  | cons p r ih =>
    obtain ⟨k0, b0⟩ := p
    simp only [AList.get?] at h
    split at h <;> grind

theorem get?_of_mem_nodup (a : AList κ β) (k : κ) (b : β) (hn : (a.map (·.1)).Nodup) (h : (k, b) ∈ a) :
    AList.get? a k = some b := by
  induction a with
  | nil => simp at h
  | cons p r ih =>
    obtain ⟨k0, b0⟩ := p
    simp only [List.map_cons, List.nodup_cons] at hn
    simp only [AList.get?]
    rcases List.mem_cons.1 h with h | h
    · grind
    · have : k0 ≠ k := by
        intro e; subst e; exact hn.1 (List.mem_map.2 ⟨(k0, b), h, rfl⟩)
      simp [this, ih hn.2 h]

/-- value of the last pair with key `k` -/
def lastVal : List (κ × β) → κ → Option β
  | [], _ => none
  | (k', b) :: r, k => (lastVal r k).or (if k' = k then some b else none)

theorem get?_update (d : AList κ β) (ps : List (κ × β)) (k : κ) :
    AList.get? (AList.update d ps) k = (lastVal ps k).or (AList.get? d k) := by
  unfold AList.update
  induction ps generalizing d with
  | nil => simp [lastVal]
  | cons p r ih =>
    obtain ⟨k0, b0⟩ := p
    simp only [List.foldl_cons, ih, get?_set, lastVal]
    cases lastVal r k <;> simp <;> split <;> simp_all

theorem get?_ofPairs (ps : List (κ × β)) (k : κ) : AList.get? (AList.ofPairs ps) k = lastVal ps k := by
  simp [AList.ofPairs, get?_update]

theorem keys_set (d : AList κ β) (k : κ) (b : β) :
    (AList.set d k b).map (·.1) = if k ∈ d.map (·.1) then d.map (·.1) else d.map (·.1) ++ [k] := by
  induction d with
  | nil => simp [AList.set]
  | cons p r ih =>
    obtain ⟨k0, b0⟩ := p
    simp only [AList.set]
    split
    · simp_all
    · simp only [List.map_cons, ih, List.mem_cons]
      split <;> grind

theorem nodup_set (d : AList κ β) (k : κ) (b : β) (h : (d.map (·.1)).Nodup) :
    ((AList.set d k b).map (·.1)).Nodup := by
  rw [keys_set]; split
  · exact h
  · rename_i hk
    refine List.nodup_append.2 ⟨h, by simp, ?_⟩
    intro a ha b hb
    simp only [List.mem_singleton] at hb
    subst hb
    exact fun e => hk (e ▸ ha)

theorem nodup_update (d : AList κ β) (ps : List (κ × β)) (h : (d.map (·.1)).Nodup) :
    ((AList.update d ps).map (·.1)).Nodup := by
  unfold AList.update
  induction ps generalizing d with
  | nil => exact h
  | cons p r ih => exact ih _ (nodup_set d p.1 p.2 h)

theorem nodup_ofPairs (ps : List (κ × β)) : ((AList.ofPairs ps : AList κ β).map (·.1)).Nodup :=
  nodup_update [] ps (by simp)

theorem set_of_not_mem (d : AList κ β) (k : κ) (b : β) (h : k ∉ d.map (·.1)) :
    AList.set d k b = d ++ [(k, b)] := by
  induction d with
  | nil => rfl
  | cons p r ih =>
    obtain ⟨k0, b0⟩ := p
    simp only [List.map_cons, List.mem_cons, not_or] at h
    simp only [AList.set, if_neg (Ne.symm h.1), ih h.2, List.cons_append]

theorem update_of_nodup (d l : AList κ β) (hn : (l.map (·.1)).Nodup)
    (hd : ∀ k ∈ l.map (·.1), k ∉ d.map (·.1)) : AList.update d l = d ++ l := by
  induction l generalizing d with
  | nil => simp [AList.update]
  | cons p r ih =>
    obtain ⟨k0, b0⟩ := p
    simp only [List.map_cons, List.nodup_cons] at hn
    have h0 : k0 ∉ d.map (·.1) := hd k0 (by simp)
    have : AList.update d ((k0, b0) :: r) = AList.update (AList.set d k0 b0) r := rfl
    rw [this, set_of_not_mem d k0 b0 h0, ih _ hn.2]
    · simp
    · intro k hk
      simp only [List.map_append, List.map_cons, List.map_nil, List.mem_append, List.mem_singleton, not_or]
      exact ⟨hd k (by simp [hk]), fun e => hn.1 (e ▸ hk)⟩

/-- `dict(items)` of a listing without repeated keys is that listing -/
theorem ofPairs_of_nodup (l : AList κ β) (hn : (l.map (·.1)).Nodup) : AList.ofPairs l = l := by
  simp [AList.ofPairs, update_of_nodup [] l hn]

theorem lastVal_of_nodup (d : AList κ β) (k : κ) (h : (d.map (·.1)).Nodup) :
    lastVal d k = AList.get? d k := by
  induction d with
  | nil => rfl
  | cons p r ih =>
    obtain ⟨k0, b0⟩ := p
    simp only [List.map_cons, List.nodup_cons] at h
    simp only [lastVal, AList.get?, ih h.2]
    split
    · rename_i e; subst e
      have : AList.get? r k0 = none := (get?_eq_none_iff r k0).2 h.1
      simp [this]
    · simp

theorem get?_map_val {γ : Type} (d : AList κ β) (g : β → γ) (k : κ) :
    AList.get? (d.map (fun kv => (kv.1, g kv.2))) k = (AList.get? d k).map g := by
  induction d with
  | nil => rfl
  | cons p r ih =>
    obtain ⟨k0, b0⟩ := p
    simp only [List.map_cons, AList.get?]
    split <;> simp_all

theorem lastVal_map_val {γ : Type} (d : List (κ × β)) (g : β → γ) (k : κ) :
    lastVal (d.map (fun kv => (kv.1, g kv.2))) k = (lastVal d k).map g := by
  induction d with
  | nil => rfl
  | cons p r ih =>
    obtain ⟨k0, b0⟩ := p
    simp only [List.map_cons, lastVal, ih]
    cases lastVal r k <;> simp <;> split <;> simp

end AL

/-! ### reading a list of frames = overlaying their layers -/

/-- slot found for `k` in the first frame that has it -/
def firstSlot : List Frame → Key → Option Slot
  | [], _ => none
  | f :: rest, k => (AList.get? f k).or (firstSlot rest k)

def slotVal : Option Slot → Option Val
  | some (.val v) => some v
  | _ => none

theorem lookupFrames_eq (fs : List Frame) (k : Key) :
    (lookupFrames fs k).toOption = slotVal (firstSlot fs k) := by
  induction fs with
  | nil => rfl
  | cons f rest ih =>
    simp only [lookupFrames, firstSlot]
    split <;> simp_all [slotVal, Except.toOption]

theorem overlayAll_eq (fs : List Frame) (k : Key) :
    overlayAll (fs.map frameLayer) k = slotVal (firstSlot fs k) := by
  induction fs with
  | nil => rfl
  | cons f rest ih =>
    simp only [List.map_cons, overlayAll, overlay, firstSlot, frameLayer]
    split <;> simp_all [slotVal]

theorem lookupFrames_overlay (fs : List Frame) (k : Key) :
    (lookupFrames fs k).toOption = overlayAll (fs.map frameLayer) k := by
  rw [lookupFrames_eq, overlayAll_eq]

theorem firstSlot_flatten (fs : List Frame) (k : Key) :
    AList.get? fs.flatten k = firstSlot fs k := by
  induction fs with
  | nil => rfl
  | cons f rest ih => simp only [List.flatten_cons, get?_append, firstSlot, ih]

/-- `items()` through the `seen` set: lookup -/
theorem get?_itemsGo (l : List (Key × Slot)) (seen : List Key) (k : Key) :
    AList.get? (itemsGo l seen) k = if k ∈ seen then none else slotVal (AList.get? l k) := by
  induction l generalizing seen with
  | nil => simp [itemsGo, slotVal]
  | cons p r ih =>
    obtain ⟨k0, s0⟩ := p
    simp only [itemsGo]
    split
    · rw [ih]; simp only [AList.get?]; split <;> grind
    · cases s0 with
      | deleted => simp only [ih, AList.get?]; split <;> grind [slotVal]
      | val v => simp only [AList.get?, ih]; split <;> grind [slotVal]

theorem itemsGo_keys (l : List (Key × Slot)) (seen : List Key) :
    ((itemsGo l seen).map (·.1)).Nodup ∧ ∀ k ∈ (itemsGo l seen).map (·.1), k ∉ seen := by
  induction l generalizing seen with
  | nil => simp [itemsGo]
  | cons p r ih =>
    obtain ⟨k0, s0⟩ := p
    simp only [itemsGo]
    split
    · exact ih seen
    · cases s0 with
      | deleted =>
        have := ih (k0 :: seen)
        constructor
        · exact this.1
        · intro k hk; have := this.2 k hk; grind
      | val v =>
        have := ih (k0 :: seen)
        constructor
        · simp only [List.map_cons, List.nodup_cons]
          exact ⟨fun h => by have := this.2 k0 h; grind, this.1⟩
        · intro k hk
          simp only [List.map_cons, List.mem_cons] at hk
          rcases hk with rfl | hk
          · assumption
          · have := this.2 k hk; grind

end Flatland.C17.Proofs
