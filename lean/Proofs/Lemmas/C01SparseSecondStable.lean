/-
C01, second round trip with SparseDicts — stable states.

`StableS env sep u s e`: `prS env sep u` has nothing *visible* left to do on the state `e`:
* a mapping holds — apart from members that emit nothing and that a fresh mapping is not created
  with — exactly the members `prS` rebuilds it with, in that order (minimum members first, then the
  touched ones in declaration order); touched members are stable themselves, untouched minimum
  members look like fresh ones;
* sequences as in the dense case (`Stable`, `Proofs/Lemmas/C01LevelStable.lean`).

(a) `lvl_prS`: on a stable state `prS` is invisible level by level, hence in the flat output.
-/
import Proofs.Lemmas.C01SparseSecondTouched
import Proofs.Lemmas.C01LevelStable
namespace Flatland.Flat.Proofs
open Flatland.Flat Flatland.Flat.Spec

variable {env : Env} {sep : Str}

mutual
/-- no Compound anywhere in the schema (a JoinedString's members are never flattened) -/
def compoundFree : Schema → Bool
  | .leaf .. => true
  | .joined .. => true
  | .compound .. => false
  | .dict _ _ _ fields => compoundFreeL fields
  | .list _ _ _ _ member => compoundFree member
  | .array _ _ _ member => compoundFree member
def compoundFreeL : List Schema → Bool
  | [] => true
  | f :: fs => compoundFree f && compoundFreeL fs
end

theorem compoundFree_of_mem : ∀ {fs : List Schema}, compoundFreeL fs = true → ∀ f ∈ fs, compoundFree f = true
  | [], _, f, hf => by simp at hf
  | g :: gs, h, f, hf => by
    simp only [compoundFreeL, Bool.and_eq_true] at h
    rcases List.mem_cons.mp hf with rfl | hf
    · exact h.1
    · exact compoundFree_of_mem h.2 f hf

mutual
/-- every Compound state of the element holds all its declared fields, in declaration order (true of
    every real Compound: `Compound.__init__` creates all fields and nothing removes one) -/
def compoundsFull : Schema → Elem → Bool
  | .compound _ _ _ fields, .dict ms =>
    decide (ms.map (·.1) = fields.map (fun f => f.name.getD [])) && compoundsFullMs fields ms
  | .dict _ _ _ fields, .dict ms => compoundsFullMs fields ms
  | .list _ _ _ _ member, .list ms => ms.all (compoundsFull member)
  | _, _ => true
/-- driven by the field list: every member under its own field -/
def compoundsFullMs : List Schema → List (Str × Elem) → Bool
  | [], _ => true
  | f :: fs, ms =>
    (match lookup (f.name.getD []) ms with
      | some e => compoundsFull f e
      | none => true) && compoundsFullMs fs ms
end

theorem compoundsFullMs_get : ∀ {fs : List Schema} {ms : List (Str × Elem)}, compoundsFullMs fs ms = true →
    ∀ f ∈ fs, ∀ e, lookup (f.name.getD []) ms = some e → compoundsFull f e = true
  | [], _, _, f, hf => by simp at hf
  | g :: gs, ms, h, f, hf => by
    simp only [compoundsFullMs, Bool.and_eq_true] at h
    rcases List.mem_cons.mp hf with rfl | hf
    · intro e he
      have h1 := h.1
      rw [he] at h1
      exact h1
    · exact compoundsFullMs_get h.2 f hf

theorem compoundsFullMs_of : ∀ {fs : List Schema} {ms : List (Str × Elem)},
    (∀ f ∈ fs, ∀ e, lookup (f.name.getD []) ms = some e → compoundsFull f e = true) →
    compoundsFullMs fs ms = true
  | [], _, _ => rfl
  | g :: gs, ms, h => by
    simp only [compoundsFullMs, Bool.and_eq_true]
    refine ⟨?_, compoundsFullMs_of (fun f hf => h f (List.mem_cons_of_mem _ hf))⟩
    cases he : lookup (g.name.getD []) ms with
    | none => rfl
    | some e => exact h g (by simp) e he

/-- is the member under key `k` one that `prS` keeps? -/
def keepKey (req : Schema → Bool) (keys : List (Str × Str)) (fields : List Schema) (k : Str) : Bool :=
  match findField k fields with
  | some f => req f || touched keys f
  | none => false

/-- the keys `prS` rebuilds a mapping with (`first`: the minimum members) -/
def pickKeys (req : Schema → Bool) (keys : List (Str × Str)) (first : Bool) : List Schema → List Str
  | [] => []
  | f :: fs =>
    if first then (if req f then f.name.getD [] :: pickKeys req keys first fs else pickKeys req keys first fs)
    else (if !req f && touched keys f then f.name.getD [] :: pickKeys req keys first fs
      else pickKeys req keys first fs)

theorem pickV_keys (req : Schema → Bool) (keys : List (Str × Str)) (V : Schema → Elem) (first : Bool) :
    ∀ fs : List Schema, (pickV req keys V first fs).map (·.1) = pickKeys req keys first fs
  | [] => rfl
  | f :: fs => by
    simp only [pickV, pickKeys]
    cases first <;> simp only [Bool.false_eq_true, if_false, if_true]
    · split <;> simp [pickV_keys req keys V false fs]
    · split <;> simp [pickV_keys req keys V true fs]

theorem mem_pickV {req : Schema → Bool} {keys : List (Str × Str)} {V : Schema → Elem} {first : Bool}
    {p : Str × Elem} : ∀ {fs : List Schema}, p ∈ pickV req keys V first fs →
    ∃ f ∈ fs, p.1 = f.name.getD [] ∧ (req f || touched keys f) = true ∧
      (first = false → req f = false) ∧
      p.2 = if touched keys f then V f else blank f
  | [], h => by simp [pickV] at h
  | g :: gs, h => by
    simp only [pickV] at h
    cases first with
    | true =>
      simp only [if_true] at h
      split at h
      · rename_i hr
        rcases List.mem_cons.mp h with rfl | h
        · exact ⟨g, by simp, rfl, by simp [hr], by simp, rfl⟩
        · obtain ⟨f, hf, h1, h2, h3, h4⟩ := mem_pickV h
          exact ⟨f, List.mem_cons_of_mem _ hf, h1, h2, h3, h4⟩
      · obtain ⟨f, hf, h1, h2, h3, h4⟩ := mem_pickV h
        exact ⟨f, List.mem_cons_of_mem _ hf, h1, h2, h3, h4⟩
    | false =>
      simp only [Bool.false_eq_true, if_false] at h
      split at h
      · rename_i hr
        simp only [Bool.and_eq_true, Bool.not_eq_true'] at hr
        rcases List.mem_cons.mp h with rfl | h
        · exact ⟨g, by simp, rfl, by simp [hr.2], fun _ => hr.1, by simp [hr.2]⟩
        · obtain ⟨f, hf, h1, h2, h3, h4⟩ := mem_pickV h
          exact ⟨f, List.mem_cons_of_mem _ hf, h1, h2, h3, h4⟩
      · obtain ⟨f, hf, h1, h2, h3, h4⟩ := mem_pickV h
        exact ⟨f, List.mem_cons_of_mem _ hf, h1, h2, h3, h4⟩

mutual
def StableS (env : Env) (sep : Str) : Bool → Schema → Elem → Prop
  | u, .dict _ _ mode fields, .dict ms =>
    (ms.filter (fun p => keepKey (isReq mode) (innerPairs env sep u fields ms) fields p.1)).map (·.1)
      = pickKeys (isReq mode) (innerPairs env sep u fields ms) true fields
        ++ pickKeys (isReq mode) (innerPairs env sep u fields ms) false fields
    ∧ StableSFields env sep u (isReq mode) (innerPairs env sep u fields ms) ms fields
  | u, .compound _ _ _ fields, .dict ms =>
    (ms.filter (fun p => keepKey (fun _ => true) (innerPairs env sep u fields ms) fields p.1)).map (·.1)
      = pickKeys (fun _ => true) (innerPairs env sep u fields ms) true fields
        ++ pickKeys (fun _ => true) (innerPairs env sep u fields ms) false fields
    ∧ StableSFields env sep u (fun _ => true) (innerPairs env sep u fields ms) ms fields
  | u, .list _ _ prune _ member, .list ms =>
    (prune = true → ∀ m ∈ ms, emitsB env true member m = true ∧ StableS env sep true member m) ∧
    (prune = false →
      (∀ m ∈ ms, (emitsB env u member m = true → StableS env sep u member m) ∧
        (emitsB env u member m = false →
          LvlEq (resolve env member m) (resolve env member (blank member)))) ∧
      (u = true → dropTrailing (emitsB env u member) ms = ms))
  | u, .array nm _ prune member, .array ms =>
    ∀ m ∈ ms, emitsB env (u || arrayPrunes nm prune member) member m = true
  | _, _, _ => True
/-- per declared field: a touched member is stable, an untouched one looks fresh (minimum member)
    or emits nothing (other member) -/
def StableSFields (env : Env) (sep : Str) (u : Bool) (req : Schema → Bool) (keys : List (Str × Str))
    (ms : List (Str × Elem)) : List Schema → Prop
  | [] => True
  | f :: fs =>
    (match lookup (f.name.getD []) ms with
      | some e => (touched keys f = true → StableS env sep u f e) ∧
          (touched keys f = false →
            if req f then LvlEq (resolve env f e) (resolve env f (blank f))
            else LvlEmpty (resolve env f e))
      | none => True) ∧ StableSFields env sep u req keys ms fs
end

theorem stableSFields_get {u : Bool} {req : Schema → Bool} {keys : List (Str × Str)}
    {ms : List (Str × Elem)} : ∀ {fs : List Schema}, StableSFields env sep u req keys ms fs →
    ∀ f ∈ fs, ∀ e, lookup (f.name.getD []) ms = some e →
      (touched keys f = true → StableS env sep u f e) ∧
      (touched keys f = false →
        if req f then LvlEq (resolve env f e) (resolve env f (blank f))
        else LvlEmpty (resolve env f e))
  | [], _, f, hf => by simp at hf
  | g :: gs, h, f, hf => by
    simp only [StableSFields] at h
    rcases List.mem_cons.mp hf with rfl | hf
    · intro e he
      have h1 := h.1
      rw [he] at h1
      exact h1
    · exact stableSFields_get h.2 f hf

theorem stableSFields_of {u : Bool} {req : Schema → Bool} {keys : List (Str × Str)}
    {ms : List (Str × Elem)} : ∀ {fs : List Schema},
    (∀ f ∈ fs, ∀ e, lookup (f.name.getD []) ms = some e →
      (touched keys f = true → StableS env sep u f e) ∧
      (touched keys f = false →
        if req f then LvlEq (resolve env f e) (resolve env f (blank f))
        else LvlEmpty (resolve env f e))) → StableSFields env sep u req keys ms fs
  | [], _ => by simp [StableSFields]
  | g :: gs, h => by
    simp only [StableSFields]
    refine ⟨?_, stableSFields_of (fun f hf => h f (List.mem_cons_of_mem _ hf))⟩
    cases he : lookup (g.name.getD []) ms with
    | none => trivial
    | some e => exact h g (by simp) e he

/-! ### children of a mapping, level by level -/

theorem resolve_compoundS (env : Env) (nm : Option Str) (o : Bool) (k : Nat) (fields : List Schema)
    (ms : List (Str × Elem)) :
    resolve env (.compound nm o k fields) (.dict ms)
      = .mk nm true true (env.compose k (usOf env fields ms)) false (kidsS env fields ms) := by
  unfold resolve
  simp only [membersOf, resolveMembers_kidsS, uOf]

theorem resolve_dictS (env : Env) (nm : Option Str) (o : Bool) (mode : DictMode) (fields : List Schema)
    (ms : List (Str × Elem)) :
    resolve env (.dict nm o mode fields) (.dict ms) = .mk nm false true [] false (kidsS env fields ms) := by
  unfold resolve
  simp only [membersOf, resolveMembers_kidsS]

theorem lvl_noslots (d : Nat) (p : List Str) : ∀ (i : Nat) (ks : List FNode),
    lvl d (kidsFrom p false i ks) = ks.flatMap (fun k => (lvl d [([], k)]).map (pre p))
  | _, [] => by simp [kidsFrom, lvl_nil]
  | i, k :: ks => by
    rw [lvl_kidsFrom_cons, lvl_noslots d p (i + 1) ks]
    simp

/-- what the member `p` of a mapping contributes at depth `d` -/
def memLvl (env : Env) (fields : List Schema) (d : Nat) (π : List Str) (p : Str × Elem) : List PPair :=
  match findField p.1 fields with
  | some f => (lvl d [([], resolve env f p.2)]).map (pre π)
  | none => []

theorem kidsS_flatMap (env : Env) (fields : List Schema) (d : Nat) (π : List Str) :
    ∀ ms : List (Str × Elem),
    (kidsS env fields ms).flatMap (fun k => (lvl d [([], k)]).map (pre π))
      = ms.flatMap (memLvl env fields d π)
  | [] => rfl
  | (k, e) :: ms => by
    simp only [kidsS, List.flatMap_append, List.flatMap_cons, kidsS_flatMap env fields d π ms, memLvl]
    cases findField k fields <;> simp

theorem flatMap_filter_of_nil {α β} (p : α → Bool) (G : α → List β) : ∀ l : List α,
    (∀ x ∈ l, p x = false → G x = []) → l.flatMap G = (l.filter p).flatMap G
  | [], _ => rfl
  | a :: l, h => by
    have ih := flatMap_filter_of_nil p G l (fun x hx => h x (List.mem_cons_of_mem _ hx))
    cases hp : p a with
    | true => simp [List.filter_cons, hp, ih]
    | false => simp [List.filter_cons, hp, ih, h a (by simp) hp]

theorem flatMap_keyed {β} (G : Str × Elem → List β) : ∀ (A B : List (Str × Elem)),
    A.map (·.1) = B.map (·.1) →
    (∀ k a b, (k, a) ∈ A → (k, b) ∈ B → G (k, a) = G (k, b)) → A.flatMap G = B.flatMap G
  | [], [], _, _ => rfl
  | [], _ :: _, h, _ => by simp at h
  | _ :: _, [], h, _ => by simp at h
  | (k, a) :: A, (k', b) :: B, h, hG => by
    simp only [List.map_cons, List.cons.injEq] at h
    obtain ⟨hk, ht⟩ := h
    subst hk
    simp only [List.flatMap_cons]
    rw [hG k a b (by simp) (by simp),
      flatMap_keyed G A B ht (fun k a b ha hb => hG k a b (List.mem_cons_of_mem _ ha) (List.mem_cons_of_mem _ hb))]

/-- **mappings**: the rebuilt mapping and a stable mapping agree level by level -/
theorem lvlEq_mapping (nm : Option Str) (fl : Bool) (t : Str) (u : Bool) (req : Schema → Bool) (fields : List Schema)
    (hnd : (namesOf fields).Nodup) (hsome : ∀ g ∈ fields, g.name.isSome)
    (ms : List (Str × Elem)) (hkeys : (ms.map (·.1)).Nodup)
    (keys : List (Str × Str))
    (hA : (ms.filter (fun p => keepKey req keys fields p.1)).map (·.1)
      = pickKeys req keys true fields ++ pickKeys req keys false fields)
    (hB : StableSFields env sep u req keys ms fields)
    (hih : ∀ f ∈ fields, ∀ e, lookup (f.name.getD []) ms = some e → StableS env sep u f e →
      LvlEq (resolve env f (prS env sep u f e)) (resolve env f e)) :
    LvlEq (.mk nm fl true t false (kidsS env fields
        (pickV req keys (valS env sep u ms) true fields ++ pickV req keys (valS env sep u ms) false fields)))
      (.mk nm fl true t false (kidsS env fields ms)) := by
  apply lvlEq_mk
  intro d
  rw [lvl_noslots, lvl_noslots, kidsS_flatMap, kidsS_flatMap]
  rw [flatMap_filter_of_nil (fun p => keepKey req keys fields p.1) _ ms]
  · apply flatMap_keyed
    · rw [List.map_append, pickV_keys, pickV_keys, hA]
    · intro k b a hb ha
      have ha' := (List.mem_filter.mp ha).1
      have hex : ∃ f ∈ fields, (k, b).1 = f.name.getD [] ∧ (req f || touched keys f) = true ∧
          (k, b).2 = if touched keys f then valS env sep u ms f else blank f := by
        rcases List.mem_append.mp hb with h | h
        · obtain ⟨f, hf, h1, h2, _, h4⟩ := mem_pickV h
          exact ⟨f, hf, h1, h2, h4⟩
        · obtain ⟨f, hf, h1, h2, _, h4⟩ := mem_pickV h
          exact ⟨f, hf, h1, h2, h4⟩
      obtain ⟨f, hf, h1, h2, h4⟩ := hex
      simp only at h1 h4
      obtain ⟨x, hx⟩ := Option.isSome_iff_exists.mp (hsome f hf)
      have hkx : k = x := by rw [h1, hx]; rfl
      have hl : lookup (f.name.getD []) ms = some a := by
        rw [hx]; simp only [Option.getD_some]; rw [← hkx]
        exact lookup_of_mem_nodup hkeys ha'
      have hff : findField k fields = some f := findField_unique hnd hf (by rw [hx, hkx])
      have hst := stableSFields_get hB f hf a hl
      simp only [memLvl, hff]
      congr 1
      subst h4
      cases ht : touched keys f with
      | true =>
        simp only [if_true]
        have : valS env sep u ms f = prS env sep u f a := by simp only [valS, hl]
        rw [this]
        exact hih f hf a hl (hst.1 ht) d
      | false =>
        simp only [Bool.false_eq_true, if_false]
        have hr : req f = true := by simpa [ht] using h2
        have := hst.2 ht
        rw [hr] at this
        simp only [if_true] at this
        exact (this d).symm
  · intro p hp hk
    simp only [memLvl]
    cases hff : findField p.1 fields with
    | none => rfl
    | some f =>
      simp only
      obtain ⟨hf, hname⟩ := findField_someS hff
      have hl : lookup (f.name.getD []) ms = some p.2 := by
        rw [hname]; exact lookup_of_mem_nodup hkeys hp
      simp only [keepKey, hff, Bool.or_eq_false_iff] at hk
      have := (stableSFields_get hB f hf p.2 hl).2 hk.2
      rw [hk.1] at this
      simp only [Bool.false_eq_true, if_false] at this
      rw [this d]; rfl

end Flatland.Flat.Proofs
