/-
String-level facts about separator-joined keys of *token paths* under the `SepSafe` hypothesis:
how `startswith`, prefix stripping, exact comparison and the list-index recogniser behave on
`joinSep sep (t₁ :: t₂ :: …)` when no token contains the separator and the split at a separator is
unique.
-/
import Flatland.Flat
namespace Flatland.Flat

/-- `SepSafe`: the hypothesis under which flat keys parse uniquely.  `Tok` is the set of tokens a
    key is made of (declared names and decimal indexes). -/
structure SepSafe (env : Env) (sep : Str) (Tok : Str → Prop) : Prop where
  sep_ne : sep ≠ []
  tok_ne : ∀ t, Tok t → t ≠ []
  no_sep : ∀ t, Tok t → ∀ a b, t ≠ a ++ sep ++ b
  split : ∀ x y, Tok x → Tok y → ∀ a b, x ++ sep ++ a = y ++ sep ++ b → x = y
  sep_head : ∀ c r, sep = c :: r → isNd env c = false

theorem joinSep_cons_cons (sep t u : Str) (q : List Str) :
    joinSep sep (t :: u :: q) = t ++ sep ++ joinSep sep (u :: q) := by
  simp [joinSep]

theorem joinSep_single (sep t : Str) : joinSep sep [t] = t := by simp [joinSep]

theorem isPrefix_iff (p s : Str) : isPrefix p s = true ↔ ∃ r, s = p ++ r := by
  unfold isPrefix
  rw [List.isPrefixOf_iff_prefix]
  constructor
  · rintro ⟨r, rfl⟩; exact ⟨r, rfl⟩
  · rintro ⟨r, rfl⟩; exact ⟨r, rfl⟩

theorem isPrefix_append (p r : Str) : isPrefix p (p ++ r) = true := (isPrefix_iff _ _).mpr ⟨r, rfl⟩

theorem drop_append_length (p r : Str) : (p ++ r).drop p.length = r := by simp

variable {env : Env} {sep : Str} {Tok : Str → Prop}

/-- `key.startswith(x + sep)` on a joined path holds only for paths that start with the token `x`
    and continue. -/
theorem prefix_tok_sep (h : SepSafe env sep Tok) {x y : Str} (hx : Tok x) (hy : Tok y) (q : List Str)
    (hp : isPrefix (x ++ sep) (joinSep sep (y :: q)) = true) : x = y ∧ q ≠ [] := by
  obtain ⟨r, hr⟩ := (isPrefix_iff _ _).mp hp
  cases q with
  | nil =>
    rw [joinSep_single] at hr
    exact absurd (by rw [hr, List.append_assoc]) (h.no_sep y hy x r)
  | cons u q =>
    rw [joinSep_cons_cons] at hr
    refine ⟨?_, by simp⟩
    have := h.split y x hy hx (joinSep sep (u :: q)) r (by rw [hr, List.append_assoc])
    exact this.symm

/-- a joined path equals a single token only if it is that token alone -/
theorem joinSep_eq_tok (h : SepSafe env sep Tok) {x y : Str} (hx : Tok x) (q : List Str)
    (he : joinSep sep (y :: q) = x) : q = [] ∧ y = x := by
  cases q with
  | nil => rw [joinSep_single] at he; exact ⟨rfl, he⟩
  | cons u q =>
    rw [joinSep_cons_cons] at he
    exact absurd he.symm (h.no_sep x hx y _)

theorem joinSep_strip (sep x u : Str) (q : List Str) :
    (joinSep sep (x :: u :: q)).drop (x ++ sep).length = joinSep sep (u :: q) := by
  rw [joinSep_cons_cons]
  exact drop_append_length _ _

theorem isPrefix_tok_sep_self (sep x u : Str) (q : List Str) :
    isPrefix (x ++ sep) (joinSep sep (x :: u :: q)) = true := by
  rw [joinSep_cons_cons]
  exact isPrefix_append _ _

theorem isPrefix_tok_self (sep x : Str) (q : List Str) :
    isPrefix x (joinSep sep (x :: q)) = true := by
  cases q with
  | nil => rw [joinSep_single]; exact (isPrefix_iff _ _).mpr ⟨[], by simp⟩
  | cons u q => rw [joinSep_cons_cons, List.append_assoc]; exact isPrefix_append _ _

/-! ### decimal indexes -/

theorem natStr_lt (n : Nat) (h : n < 10) : natStr n = [digitChar n] := by
  rw [natStr]; simp [h]

theorem natStr_ge (n : Nat) (h : ¬ n < 10) : natStr n = natStr (n / 10) ++ [digitChar (n % 10)] := by
  rw [natStr]; simp [h]

theorem natStr_ne_nil (n : Nat) : natStr n ≠ [] := by
  by_cases h : n < 10
  · rw [natStr_lt n h]; simp
  · rw [natStr_ge n h]; simp

/-- the interpreter's Nd table starts with the ASCII decade -/
def EnvOK (env : Env) : Prop := ∃ rest, env.ndZeros = 48 :: rest

theorem digitChar_toNat (d : Nat) (h : d < 10) : (digitChar d).toNat = 48 + d := by
  unfold digitChar
  have : (48 + d).isValidChar := by
    simp [Nat.isValidChar]; omega
  simp [Char.ofNat, this, Char.toNat, Char.ofNatAux]
  omega

theorem ndVal_digitChar (henv : EnvOK env) (d : Nat) (h : d < 10) : ndVal env (digitChar d) = some d := by
  obtain ⟨rest, hz⟩ := henv
  unfold ndVal
  rw [hz, digitChar_toNat d h]
  have h1 : (decide (48 ≤ 48 + d) && decide (48 + d < 48 + 10)) = true := by
    simp; omega
  simp only [List.find?, h1]
  simp

theorem isNd_digitChar (henv : EnvOK env) (d : Nat) (h : d < 10) : isNd env (digitChar d) = true := by
  simp [isNd, ndVal_digitChar henv d h]

theorem natStr_all_nd (henv : EnvOK env) (n : Nat) : ∀ c ∈ natStr n, isNd env c = true := by
  induction n using Nat.strongRecOn with
  | _ n ih =>
    by_cases h : n < 10
    · rw [natStr_lt n h]; intro c hc; simp at hc; subst hc; exact isNd_digitChar henv n h
    · rw [natStr_ge n h]
      intro c hc
      rcases List.mem_append.mp hc with h1 | h1
      · exact ih (n / 10) (by omega) c h1
      · simp at h1; subst h1; exact isNd_digitChar henv _ (by omega)

theorem digitsVal_append (env : Env) (a b : Str) :
    digitsVal env (a ++ b) = b.foldl (fun acc c => acc * 10 + (ndVal env c).getD 0) (digitsVal env a) := by
  simp [digitsVal, List.foldl_append]

theorem digitsVal_natStr (henv : EnvOK env) (n : Nat) : digitsVal env (natStr n) = n := by
  induction n using Nat.strongRecOn with
  | _ n ih =>
    by_cases h : n < 10
    · rw [natStr_lt n h]
      simp [digitsVal, ndVal_digitChar henv n h]
    · rw [natStr_ge n h, digitsVal_append, ih (n / 10) (by omega)]
      simp [ndVal_digitChar henv (n % 10) (by omega)]
      omega

theorem takeWhile_append_of_all {α} (p : α → Bool) (a b : List α) (ha : ∀ x ∈ a, p x = true) :
    (a ++ b).takeWhile p = a ++ b.takeWhile p := by
  induction a with
  | nil => simp
  | cons x xs ih =>
    have hx := ha x (by simp)
    simp only [List.cons_append, List.takeWhile_cons, hx, if_true]
    rw [ih (fun y hy => ha y (List.mem_cons_of_mem _ hy))]

theorem dropWhile_append_of_all {α} (p : α → Bool) (a b : List α) (ha : ∀ x ∈ a, p x = true) :
    (a ++ b).dropWhile p = b.dropWhile p := by
  induction a with
  | nil => simp
  | cons x xs ih =>
    have hx := ha x (by simp)
    simp only [List.cons_append, List.dropWhile_cons, hx, if_true]
    exact ih (fun y hy => ha y (List.mem_cons_of_mem _ hy))

/-- the index recogniser on `digits(i)` followed by nothing or by `sep ++ rest` -/
theorem matchIndex_natStr (h : SepSafe env sep Tok) (henv : EnvOK env) (i : Nat) :
    matchIndex env sep (natStr i) = some (natStr i, []) := by
  unfold matchIndex
  have hall := natStr_all_nd henv i
  have h1 : (natStr i).takeWhile (isNd env) = natStr i := by
    have := takeWhile_append_of_all (isNd env) (natStr i) [] hall
    simpa using this
  have h2 : (natStr i).dropWhile (isNd env) = [] := by
    have := dropWhile_append_of_all (isNd env) (natStr i) [] hall
    simpa using this
  simp only [h1, h2]
  have hne := natStr_ne_nil i
  have hsep : isPrefix sep [] = false := by
    cases hs : sep with
    | nil => exact absurd hs h.sep_ne
    | cons c r => simp [isPrefix]
  cases hn : natStr i with
  | nil => exact absurd hn hne
  | cons c cs => simp [hsep]

theorem matchIndex_natStr_sep (h : SepSafe env sep Tok) (henv : EnvOK env) (i : Nat) (rest : Str) :
    matchIndex env sep (natStr i ++ sep ++ rest) = some (natStr i, rest) := by
  unfold matchIndex
  have hall := natStr_all_nd henv i
  obtain ⟨c, r, hs⟩ : ∃ c r, sep = c :: r := by
    cases hs : sep with
    | nil => exact absurd hs h.sep_ne
    | cons c r => exact ⟨c, r, rfl⟩
  have hc := h.sep_head c r hs
  have h1 : (natStr i ++ sep ++ rest).takeWhile (isNd env) = natStr i := by
    rw [List.append_assoc, takeWhile_append_of_all _ _ _ hall, hs]
    simp [List.takeWhile_cons, hc]
  have h2 : (natStr i ++ sep ++ rest).dropWhile (isNd env) = sep ++ rest := by
    rw [List.append_assoc, dropWhile_append_of_all _ _ _ hall, hs]
    simp [List.dropWhile_cons, hc]
  simp only [h1, h2]
  have hne := natStr_ne_nil i
  cases hn : natStr i with
  | nil => exact absurd hn hne
  | cons d ds =>
    simp only [List.isEmpty_cons, Bool.false_eq_true, if_false, isPrefix_append, if_true,
      drop_append_length]

end Flatland.Flat
