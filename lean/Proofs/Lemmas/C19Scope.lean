/-
Tabindex within a SCOPE: the tag calls made at one nesting depth, with anything in between —
accepted and rejected `set()/update()/[]=` (as long as they do not write `tabindex` themselves),
nested `begin()…end()` blocks with their own counters, tag calls that raise — hand out strictly
increasing values.  And what is handed out is what is rendered.
-/
import Proofs.Lemmas.C19Tabindex
import Proofs.Lemmas.C19Discipline
import Proofs.Lemmas.C19Transforms
namespace Flatland.C19.Proofs
open Flatland.Markup Flatland.C19 Flatland.C19.Spec

/-- an explicit write of the `tabindex` setting into the current frame -/
def writesTab : Op → Bool
  | .set s => s.any (fun kv => kv.1 == sTabindex)
  | .update s => s.any (fun kv => kv.1 == sTabindex)
  | .setItem k _ => k == sTabindex
  | _ => false

/-- the values handed out by the tag calls made at depth `d` -/
def scopeHanded (T : Tables) (R : RenderCfg) (d : Nat) : Gen → List Op → List Int
  | _, [] => []
  | g, op :: rest =>
    (if isTag op && g.ctx.depth == d && decide ((step T R g op).1.ctx ≠ g.ctx) then
       (match counter g with | some n => [n] | none => [])
     else []) ++ scopeHanded T R d (step T R g op).1 rest

/-- no explicit `tabindex` write at depth `d` (deeper blocks may do what they like) -/
def noTabWriteAt (T : Tables) (R : RenderCfg) (d : Nat) : Gen → List Op → Bool
  | _, [] => true
  | g, op :: rest => !(g.ctx.depth == d && writesTab op) && noTabWriteAt T R d (step T R g op).1 rest

theorem lastAssign_absent (log : List (Str × CVal)) (k : Str) (h : log.any (fun kv => kv.1 == k) = false) :
    lastAssign log k = none := by
  induction log with
  | nil => rfl
  | cons p rest ih =>
    obtain ⟨k', v⟩ := p
    simp only [List.any_cons, Bool.or_eq_false_iff, beq_eq_false_iff_ne, ne_eq] at h
    simp [lastAssign, ih h.2, h.1]

theorem get?_applyLog_absent (f : Frame) (log : List (Str × CVal)) (k : Str)
    (h : log.any (fun kv => kv.1 == k) = false) : Dict.get? (applyLog f log) k = Dict.get? f k := by
  rw [get?_applyLog, lastAssign_absent log k h]; rfl

theorem setUpdates_any (T : Tables) (c : Ctx) (k : Str) : ∀ (s ups : List (Str × CVal)),
    setUpdates T c s = .ok ups → ups.any (fun kv => kv.1 == k) = s.any (fun kv => kv.1 == k)
  | [], ups, h => by
    have e : setUpdates T c [] = .ok [] := rfl
    rw [e] at h; injection h with h; subst h; rfl
  | (k0, v0) :: rest, ups, h => by
    simp only [setUpdates, bind, Except.bind, pure, Except.pure] at h
    split at h
    · simp [throw, throwThe, MonadExceptOf.throw] at h
    · cases hr : setUpdates T c rest with
      | error e =>
        rw [hr] at h
        split at h
        · cases hp : T.parseTroolC v0 <;> (rw [hp] at h; simp at h)
        · simp at h
      | ok more =>
        rw [hr] at h
        have ih := setUpdates_any T c k rest more hr
        split at h
        · cases hp : T.parseTroolC v0 with
          | error e => rw [hp] at h; simp at h
          | ok t =>
            rw [hp] at h
            simp only [Except.ok.injEq] at h
            subst h
            simp [List.any_cons, ih]
        · simp only [Except.ok.injEq] at h
          subst h
          simp [List.any_cons, ih]

/-- what a non-tag call that does not write `tabindex` does to the stack and to the top counter -/
theorem step_notab (T : Tables) (R : RenderCfg) (g : Gen) (op : Op) (hnt : isTag op = false)
    (hw : writesTab op = false) :
    ((step T R g op).1.ctx.below = g.ctx.below ∧
      Dict.get? (step T R g op).1.ctx.top sTabindex = Dict.get? g.ctx.top sTabindex) ∨
    (step T R g op).1.ctx.below = g.ctx.top :: g.ctx.below ∨
    (∃ f rest, g.ctx.below = f :: rest ∧ (step T R g op).1.ctx = ⟨f, rest⟩) := by
  cases op with
  | begin s =>
    rcases begin_cases g s with ⟨c', hu, hb⟩ | ⟨_, hb⟩
    · right; left; simp only [step, hb]; exact (update_ok hu).1
    · left; simp [step, hb]
  | end_ =>
    rcases end_cases g with ⟨f, rest, hb, _, he⟩ | ⟨e, he, _⟩
    · right; right; simp only [step, he]; exact ⟨f, rest, hb, rfl⟩
    · left; simp [step, he]
  | set s =>
    rcases set_cases T g s with ⟨ups, c', hs, ha, he⟩ | ⟨e, he⟩
    · left
      obtain ⟨hb, ht, _⟩ := setAll_ok ups g.ctx c' ha
      simp only [step, he]
      refine ⟨hb, ?_⟩
      rw [ht]
      apply get?_applyLog_absent
      rw [setUpdates_any T g.ctx sTabindex s ups hs]; exact hw
    · left; simp [step, he]
  | setItem k v =>
    rcases setItem_cases g k v with ⟨c', hs, he⟩ | ⟨e, _, he⟩
    · left
      obtain ⟨rfl, _⟩ := setItem_ok hs
      simp only [step, he]
      refine ⟨by first | rfl | trivial, ?_⟩
      simp only [writesTab, beq_eq_false_iff_ne, ne_eq] at hw
      exact Dict.get?_set_other _ _ _ _ (fun e => hw e.symm)
    · left; simp [step, he]
  | update s =>
    rcases update_cases g s with ⟨c', hu, he⟩ | ⟨e, _, he⟩
    · left
      obtain ⟨hb, ht, _⟩ := update_ok hu
      simp only [step, he]
      refine ⟨hb, ?_⟩
      rw [ht]
      exact get?_applyLog_absent _ _ _ hw
    · left; simp [step, he]
  | tag name bnd kwargs => simp [isTag] at hnt

theorem counter_eq (g : Gen) (m : Int) : counter g = some m ↔ Dict.get? g.ctx.top sTabindex = some (.int m) := by
  unfold counter Ctx.getItem
  cases h : Dict.get? g.ctx.top sTabindex with
  | none => simp [throw, throwThe, MonadExceptOf.throw]
  | some v => cases v <;> simp [pure, Except.pure]

/-- where the scope's own counter lives: in the top frame while we are at the scope's depth, in
    the frame `F` just above the scope's lower frames `B` while a nested block is open -/
def ScopeInv (B : List Frame) (m : Int) (g : Gen) : Prop :=
  (g.ctx.below = B ∧ counter g = some m) ∨
  (∃ pre F, g.ctx.below = pre ++ F :: B ∧ Dict.get? F sTabindex = some (.int m))

theorem scope_increasing_aux (T : Tables) (R : RenderCfg) (B : List Frame) :
    ∀ (ops : List Op) (g : Gen) (m : Int), ScopeInv B m g → m > 0 →
      staysAbove T R (B.length + 1) g ops = true → noTabWriteAt T R (B.length + 1) g ops = true →
      (scopeHanded T R (B.length + 1) g ops).Pairwise (· < ·) ∧
      ∀ x ∈ scopeHanded T R (B.length + 1) g ops, m ≤ x
  | [], _, _, _, _, _, _ => by simp [scopeHanded]
  | op :: rest, g, m, hinv, hm, hstay, hnw => by
    simp only [staysAbove, Bool.and_eq_true, decide_eq_true_eq] at hstay
    simp only [noTabWriteAt, Bool.and_eq_true, Bool.not_eq_true', Bool.and_eq_false_iff] at hnw
    simp only [scopeHanded]
    rcases hinv with ⟨hB, hc⟩ | ⟨pre, F, hB, hF⟩
    · -- at the scope's own depth
      have hd : g.ctx.depth = B.length + 1 := by simp [Ctx.depth, hB]
      cases hop : isTag op with
      | true =>
        cases op with
        | tag name bnd kwargs =>
          obtain ⟨g', o, hst, _, hctx⟩ := step_tag_effect T R g name bnd kwargs
          rcases tag_counter T R g name bnd kwargs with hsame | ⟨n, hn, hcn, hcn'⟩
          · have hc' : counter (step T R g (.tag name bnd kwargs)).1 = some m := by
              simp only [counter, hsame] at hc ⊢; exact hc
            have hinv' : ScopeInv B m (step T R g (.tag name bnd kwargs)).1 := Or.inl ⟨by rw [hsame]; exact hB, hc'⟩
            obtain ⟨ih1, ih2⟩ := scope_increasing_aux T R B rest _ m hinv' hm hstay.2 hnw.2
            simp only [hsame, ne_eq, not_true_eq_false, decide_false, Bool.and_false, Bool.false_eq_true, if_false,
              List.nil_append]
            exact ⟨ih1, ih2⟩
          · have : n = m := by rw [hc] at hcn; simp at hcn; exact hcn.symm
            subst this
            have hbelow : (step T R g (.tag name bnd kwargs)).1.ctx.below = B := by
              rw [hst]
              rcases hctx with heq | ⟨k, _, _, hs⟩
              · rw [heq]; exact hB
              · obtain ⟨e, _⟩ := setItem_ok hs; rw [e]; exact hB
            have hinv' : ScopeInv B (n + 1) (step T R g (.tag name bnd kwargs)).1 := Or.inl ⟨hbelow, hcn'⟩
            obtain ⟨ih1, ih2⟩ := scope_increasing_aux T R B rest _ (n + 1) hinv' (by omega) hstay.2 hnw.2
            have hne : (step T R g (.tag name bnd kwargs)).1.ctx ≠ g.ctx := by
              intro e
              simp only [counter, e] at hcn'
              simp only [counter] at hc
              rw [hcn'] at hc; simp at hc; omega
            simp only [isTag, hd, beq_self_eq_true, Bool.true_and, hne, ne_eq, not_false_eq_true, decide_true, if_true, hc,
              List.singleton_append]
            refine ⟨List.pairwise_cons.mpr ⟨fun x hx => by have := ih2 x hx; omega, ih1⟩, ?_⟩
            intro x hx
            simp only [List.mem_cons] at hx
            rcases hx with rfl | hx
            · omega
            · have := ih2 x hx; omega
        | _ => simp [isTag] at hop
      | false =>
        have hw : writesTab op = false := by
          rcases hnw.1 with h | h
          · simp [hd] at h
          · exact h
        simp only [hop, Bool.false_and, Bool.false_eq_true, if_false, List.nil_append]
        rcases step_notab T R g op hop hw with ⟨hb, hg⟩ | hpush | ⟨f, rs, hbl, hc'⟩
        · apply scope_increasing_aux T R B rest _ m _ hm hstay.2 hnw.2
          exact Or.inl ⟨by rw [hb]; exact hB, by rw [counter_eq] at hc ⊢; rw [hg]; exact hc⟩
        · apply scope_increasing_aux T R B rest _ m _ hm hstay.2 hnw.2
          exact Or.inr ⟨[], g.ctx.top, by rw [hpush, hB]; rfl, (counter_eq g m).mp hc⟩
        · exfalso
          have h1 := hstay.1
          rw [hc'] at h1
          rw [hB] at hbl
          simp [Ctx.depth, hbl] at h1
          omega
    · -- inside a nested block: nothing is handed out for this scope, its counter frame is untouched
      have hd : (g.ctx.depth == B.length + 1) = false := by
        simp [Ctx.depth, hB]; omega
      simp only [hd, Bool.and_false, Bool.false_and, Bool.false_eq_true, if_false, List.nil_append]
      rcases (step_move T R g op).1 with hk | hp | ⟨f, rs, hbl, _, hc'⟩
      · apply scope_increasing_aux T R B rest _ m _ hm hstay.2 hnw.2
        exact Or.inr ⟨pre, F, by rw [hk]; exact hB, hF⟩
      · apply scope_increasing_aux T R B rest _ m _ hm hstay.2 hnw.2
        exact Or.inr ⟨g.ctx.top :: pre, F, by rw [hp, hB]; rfl, hF⟩
      · apply scope_increasing_aux T R B rest _ m _ hm hstay.2 hnw.2
        cases pre with
        | nil =>
          rw [hB] at hbl
          simp only [List.nil_append, List.cons.injEq] at hbl
          obtain ⟨rfl, rfl⟩ := hbl
          exact Or.inl ⟨by rw [hc'], by rw [counter_eq, hc']; exact hF⟩
        | cons p ps =>
          rw [hB] at hbl
          simp only [List.cons_append, List.cons.injEq] at hbl
          obtain ⟨rfl, rfl⟩ := hbl
          exact Or.inr ⟨ps, F, by rw [hc'], hF⟩

/-- TABINDEX INCREASING WITHIN A SCOPE.  From a generator at depth `d` whose counter is a positive
    `n`: for ANY calls that never close the scope (`staysAbove`) and do not themselves write
    `tabindex` at depth `d` — accepted or rejected `set/update/[]=`, nested blocks (which may set
    and advance their own counters), tag calls that raise — the values handed out by the tag
    calls made at depth `d` are strictly increasing and all ≥ `n`.
    (`n > 0`: the theorem covers the positive counters.  `0` disables the numbering.  A NEGATIVE
    counter is handed out unchanged by every call and never advances — the "stop numbers" pinned by
    tests/markup/test_transforms.py::test_tabindex_stop_numbers — so two calls of one scope get the
    same value: under the plain reading of "handed out in increasing order" that is a violation,
    recorded as KF-C19-b (oracle clause `tabindex-increasing`), not something this theorem excuses.) -/
theorem scope_tabindex_increasing (T : Tables) (R : RenderCfg) (ops : List Op) (g : Gen) (n : Int)
    (hc : counter g = some n) (hn : n > 0)
    (hstay : staysAbove T R g.ctx.depth g ops = true) (hnw : noTabWriteAt T R g.ctx.depth g ops = true) :
    (scopeHanded T R g.ctx.depth g ops).Pairwise (· < ·) ∧ ∀ x ∈ scopeHanded T R g.ctx.depth g ops, n ≤ x := by
  have hd : g.ctx.depth = g.ctx.below.length + 1 := rfl
  rw [hd] at hstay hnw ⊢
  exact scope_increasing_aux T R g.ctx.below ops g n (Or.inl ⟨rfl, hc⟩) hn hstay hnw

end Flatland.C19.Proofs

namespace Flatland.C19.Proofs
open Flatland.Markup Flatland.C19 Flatland.C19.Spec

/-! ### what is handed out is what is rendered -/

theorem mem_of_get? (d : Attrs) (k : Str) (v : Val) (h : Dict.get? d k = some v) : (k, v) ∈ d := by
  induction d with
  | nil => simp at h
  | cons p rest ih =>
    obtain ⟨k0, v0⟩ := p
    by_cases h0 : k0 = k
    · subst h0; simp only [Dict.get?_cons, if_true, Option.some.injEq] at h; subst h; simp
    · simp only [Dict.get?_cons, h0, if_false] at h; exact List.mem_cons_of_mem _ (ih h)

theorem transformFilters_keep {T : Tables} {tag : Str} {bnd : Option Bind} {st st' : TState} (k : Str)
    (h : transformFilters T tag bnd st = .ok st') (hk : k ≠ "auto_filter".toList) :
    Dict.get? st'.attrs k = Dict.get? st.attrs k ∧ st'.ctx = st.ctx := by
  unfold transformFilters at h
  simp only [bind, Except.bind, pure, Except.pure] at h
  cases hp : popToggle T "auto_filter".toList st.attrs st.ctx with
  | error e => rw [hp] at h; simp at h
  | ok r =>
    have hs := popToggle_shape hp
    rw [hp] at h; simp only at h
    repeat' split at h
    all_goals first
      | (simp at h; done)
      | (simp only [pure, Except.pure, Except.ok.injEq] at h; subst h; simp only [hs]
         exact ⟨Dict.get?_erase_other _ _ _ hk, by first | rfl | trivial⟩)

/-- TABINDEX HANDED OUT = TABINDEX RENDERED: when a tag call advances the counter, the value it
    took (`n`, positive) is the `tabindex` attribute that reaches the serialiser, and `n + 1` is
    stored -/
theorem prepareTag_handed {T : Tables} {order : List Str} {g : Gen} {tag : Str} {bnd : Option Bind}
    {kwargs : List (Str × Val)} {r : TagResult} (hp : prepareTag T order g tag bnd kwargs = .ok r)
    (hne : r.ctx ≠ g.ctx) :
    ∃ n : Int, n > 0 ∧ counter g = some n ∧ (sTabindex, Val.text (intRepr n)) ∈ r.pairs ∧
      r.ctx.getItem sTabindex = .ok (.int (n + 1)) := by
  unfold prepareTag at hp
  simp only [bind, Except.bind] at hp
  cases ht : transform T tag bnd ⟨Flatland.C11.transformKeys (Dict.erase kwargs "contents".toList),
          Dict.get? kwargs "contents".toList, g.ctx⟩ with
  | error e => rw [ht] at hp; simp at hp
  | ok st6 =>
    rw [ht] at hp
    have hshape : ∃ o, r.pairs = Flatland.C11.orderPairs order o st6.attrs ∧ r.ctx = st6.ctx := by
      simp only at hp
      repeat' split at hp
      all_goals first
        | (simp at hp; done)
        | (simp only [pure, Except.pure, Except.ok.injEq] at hp; subst hp; exact ⟨_, rfl, rfl⟩)
    obtain ⟨o, hpairs, hctx⟩ := hshape
    -- the six steps
    unfold transform at ht
    simp only [bind, Except.bind] at ht
    cases h1 : transformName T tag bnd ⟨Flatland.C11.transformKeys (Dict.erase kwargs "contents".toList),
          Dict.get? kwargs "contents".toList, g.ctx⟩ with
    | error e => rw [h1] at ht; simp at ht
    | ok s1 =>
      rw [h1] at ht; simp only at ht
      cases h2 : transformValue T tag bnd s1 with
      | error e => rw [h2] at ht; simp at ht
      | ok s2 =>
        rw [h2] at ht; simp only at ht
        cases h3 : transformDomid T tag bnd s2 with
        | error e => rw [h3] at ht; simp at ht
        | ok s3 =>
          rw [h3] at ht; simp only at ht
          cases h4 : transformFor T tag bnd s3 with
          | error e => rw [h4] at ht; simp at ht
          | ok s4 =>
            rw [h4] at ht; simp only at ht
            cases h5 : transformTabindex T tag bnd s4 with
            | error e => rw [h5] at ht; simp at ht
            | ok s5 =>
              rw [h5] at ht; simp only at ht
              have e04 : s4.ctx = g.ctx := by
                rw [transformFor_ctx h4, transformDomid_ctx h3, transformValue_ctx h2, transformName_ctx h1]
              obtain ⟨hk6, hc6⟩ := transformFilters_keep sTabindex ht (by decide)
              rcases transformTabindex_ctx h5 with e5 | ⟨n, hn, hg, hs, hattr⟩
              · exfalso; apply hne; rw [hctx, hc6, e5, e04]
              · rw [e04] at hg hs
                obtain ⟨e, _⟩ := setItem_ok hs
                refine ⟨n, hn, by simp [counter, hg], ?_, ?_⟩
                · rw [hpairs]
                  have hm : (sTabindex, Val.text (intRepr n)) ∈ st6.attrs :=
                    mem_of_get? _ _ _ (by rw [hk6]; exact hattr)
                  unfold Flatland.C11.orderPairs
                  split
                  · exact (mem_sortBy _ _ _).mpr hm
                  · exact hm
                · rw [hctx, hc6, e]
                  simp [Ctx.getItem, Dict.get?_set_self, pure, Except.pure]

end Flatland.C19.Proofs
