/-
Stack discipline of the model: what one call can do to the frames below the top one.
-/
import Proofs.Lemmas.C19Resolve
namespace Flatland.C19.Proofs
open Flatland.Markup Flatland.C19 Flatland.C19.Spec

/-- a call keeps the lower frames, pushes a copy of the top frame, or pops the top frame -/
inductive StackMove (c c' : Ctx) : Prop
  | keep (h : c'.below = c.below)
  | push (h : c'.below = c.top :: c.below)
  | pop (f : Frame) (rest : List Frame) (hb : c.below = f :: rest) (hd : c.depth ≠ 2) (hc : c' = ⟨f, rest⟩)

theorem step_move (T : Tables) (R : RenderCfg) (g : Gen) (op : Op) :
    StackMove g.ctx (step T R g op).1.ctx ∧ (step T R g op).1.xml = g.xml := by
  cases op with
  | begin s =>
    rcases begin_cases g s with ⟨c', hu, hb⟩ | ⟨_, hb⟩
    · simp only [step, hb]; exact ⟨.push (update_ok hu).1, trivial⟩
    · simp only [step, hb]; exact ⟨.keep rfl, trivial⟩
  | end_ =>
    rcases end_cases g with ⟨f, rest, hb, hd, he⟩ | ⟨e, he, _⟩
    · simp only [step, he]; exact ⟨.pop f rest hb hd rfl, trivial⟩
    · simp only [step, he]; exact ⟨.keep rfl, trivial⟩
  | set s =>
    rcases set_cases T g s with ⟨ups, c', _, ha, he⟩ | ⟨e, he⟩
    · simp only [step, he]; exact ⟨.keep (setAll_ok ups g.ctx c' ha).1, trivial⟩
    · simp only [step, he]; exact ⟨.keep rfl, trivial⟩
  | setItem k v =>
    rcases setItem_cases g k v with ⟨c', hs, he⟩ | ⟨e, _, he⟩
    · obtain ⟨rfl, _⟩ := setItem_ok hs
      simp only [step, he]; exact ⟨.keep rfl, trivial⟩
    · simp only [step, he]; exact ⟨.keep rfl, trivial⟩
  | update s =>
    rcases update_cases g s with ⟨c', hu, he⟩ | ⟨e, _, he⟩
    · simp only [step, he]; exact ⟨.keep (update_ok hu).1, trivial⟩
    · simp only [step, he]; exact ⟨.keep rfl, trivial⟩
  | tag name bnd kwargs =>
    obtain ⟨g', o, hst, hx, hctx⟩ := step_tag_effect T R g name bnd kwargs
    rw [hst]
    refine ⟨?_, hx⟩
    rcases hctx with heq | ⟨n, _, _, hs⟩
    · exact .keep (by rw [heq])
    · obtain ⟨e, _⟩ := setItem_ok hs
      exact .keep (by rw [e])

theorem getLast?_cons_of_ne_nil {α} (a : α) (l : List α) (h : l ≠ []) :
    (a :: l).getLast? = l.getLast? := by
  cases l with
  | nil => exact absurd rfl h
  | cons b t => simp [List.getLast?_cons_cons]

/-- the base frame stays at the bottom as long as the generator is at depth ≥ 2 -/
theorem base_step (T : Tables) (R : RenderCfg) (g : Gen) (op : Op) (base : Frame)
    (h : g.ctx.below.getLast? = some base) :
    (step T R g op).1.ctx.below.getLast? = some base := by
  have hne : g.ctx.below ≠ [] := by intro e; rw [e] at h; simp at h
  rcases (step_move T R g op).1 with hk | hp | ⟨f, rest, hb, hd, hc⟩
  · rw [hk]; exact h
  · rw [hp, getLast?_cons_of_ne_nil _ _ hne]; exact h
  · rw [hc]
    simp only
    have hrest : rest ≠ [] := by
      intro e; apply hd; simp [Ctx.depth, hb, e]
    rw [hb, getLast?_cons_of_ne_nil _ _ hrest] at h
    exact h

theorem base_run (T : Tables) (R : RenderCfg) (ops : List Op) (g : Gen) (h : Hist) (base : Frame)
    (hb : g.ctx.below.getLast? = some base) :
    (runS T R g h ops).1.ctx.below.getLast? = some base := by
  induction ops generalizing g h with
  | nil => exact hb
  | cons op rest ih => exact ih _ _ (base_step T R g op base hb)

end Flatland.C19.Proofs
