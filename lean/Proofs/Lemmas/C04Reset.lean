/- re-setting the text of a scalar: value-level lemmas (C04; reused by C01/C03/C18) -/
import Proofs.Lemmas.C04Typing
namespace Flatland.Scalar
open Flatland.Scalar Flatland.Scalar.Spec

theorem uOfValue_constrained (E : Env) (c : Kind) (vd : Valid) (v : Native) :
    uOfValue E (.constrained c vd) v = uOfValue E c v := by
  cases v <;> simp [uOfValue, serialize]

theorem adapt_str_nil_integer (E : Env) (sg : Bool) (w : Nat) : adapt E (.integer sg w) (.str []) = .ok none := by
  simp [adapt, strip, lstrip, rstrip, pyIntOfStr, splitSign, parseDigitBody]

theorem adaptTemporalText_nil (T : Tables) (w : Nat) : adaptTemporalText T w [] = none := by
  unfold adaptTemporalText
  split <;> simp [matchDate, matchTime, matchDateTime, match3, takeDigits]

theorem head_fmtInt_nat (w n : Nat) : ∃ d, d < 10 ∧ ∀ rest, (fmtInt w (n : Int) ++ rest).head? = some (digitChar d) := by
  rw [fmtInt_nat]
  cases hp : padVals w n with
  | nil => exact absurd hp (padVals_ne_nil w n)
  | cons d t => exact ⟨d, padVals_lt w n d (by rw [hp]; simp), fun rest => by simp⟩

theorem last_fmtInt_nat (w n : Nat) : ∃ d, d < 10 ∧ ∀ pre, (pre ++ fmtInt w (n : Int)).getLast? = some (digitChar d) := by
  rw [fmtInt_nat]
  have hne := padVals_ne_nil w n
  refine ⟨(padVals w n).getLast hne, padVals_lt w n _ (List.getLast_mem hne), fun pre => ?_⟩
  have hne' : List.map digitChar (padVals w n) ≠ [] := by simpa using hne
  rw [List.getLast?_append, List.getLast?_eq_some_getLast hne']
  simp [List.getLast_map]

theorem strip_dateTimeText (T : Tables) (hT : T.OK) (y m d h mi s : Nat) :
    strip T (dateText y m d ++ [' '] ++ timeText h mi s) = dateText y m d ++ [' '] ++ timeText h mi s := by
  apply strip_of_ends
  · intro a ha
    obtain ⟨k, hk, hh⟩ := head_fmtInt_nat 4 y
    unfold dateText pad4 at ha
    simp only [List.append_assoc] at ha
    rw [hh] at ha
    simp only [Option.some.injEq] at ha
    rw [← ha]; exact hT.2.1 k hk
  · intro a ha
    obtain ⟨k, hk, hh⟩ := last_fmtInt_nat 2 s
    unfold timeText pad2 at ha
    simp only [← List.append_assoc] at ha
    rw [hh] at ha
    simp only [Option.some.injEq] at ha
    rw [← ha]; exact hT.2.1 k hk

/-- A-form: re-adapting the text of an adapted value fails, or gives a value with the same text -/
theorem reset_u_value (E : Env) (hT : E.T.OK) (k : Kind) (hm : Modelled k = true) (hc : Coherent k = true)
    (hw : WidthOK E.T k = true) (v : Native) (u : Str) (hv : ValueOf E.T k v) (hu : uOfValue E k v = .ok u)
    (hnone : v = .none → CoherentNone k = true) :
    adapt E k (.str u) = .ok none ∨ ∃ v', adapt E k (.str u) = .ok (some v') ∧ uOfValue E k v' = .ok u := by
  induction k generalizing v with
  | string b =>
    right
    rcases hv with rfl | ⟨s, rfl, _⟩
    · simp only [uOfValue, Except.ok.injEq] at hu; subst hu
      refine ⟨_, rfl, ?_⟩
      cases b <;> simp [uOfValue, serialize, strip_nil]
    · simp only [uOfValue, serialize, Except.ok.injEq] at hu; subst hu
      refine ⟨_, rfl, ?_⟩
      cases b <;> simp [uOfValue, serialize, strip_idem]
  | integer sg w =>
    rcases hv with rfl | ⟨i, rfl, hfit, hs⟩
    · simp only [uOfValue, Except.ok.injEq] at hu; subst hu
      exact Or.inl (adapt_str_nil_integer E sg w)
    · right
      simp only [uOfValue, serialize, pyFmtInt, hfit, if_true, Except.ok.injEq] at hu; subst hu
      have hw' : w ≤ E.T.maxDigits := by simpa [WidthOK] using hw
      refine ⟨.int i, ?_, by simp [uOfValue, serialize, pyFmtInt, hfit]⟩
      simp only [adapt, strip_fmtInt E.T hT, pyIntOfStr_fmtInt E.T hT w i hfit hw']
      unfold checkSigned
      rcases hs with h | h
      · simp [h]
      · have : ¬ i < 0 := by omega
        simp [this]
  | float sg => simp [Modelled] at hm
  | decimal sg => simp [Modelled] at hm
  | boolean tr fl ts fs =>
    rcases hv with rfl | ⟨b, rfl⟩
    · -- None: text '' ; what '' adapts to must have text ''
      simp only [uOfValue, Except.ok.injEq] at hu; subst hu
      have hn := hnone rfl
      simp only [CoherentNone] at hn
      by_cases h1 : ([] == tr || ts.contains []) = true
      · right
        simp only [h1, if_true, beq_iff_eq] at hn
        refine ⟨.bool true, ?_, by simp [uOfValue, serialize, pyTruthy, hn]⟩
        have h1' : ([] = tr ∨ [] ∈ ts) := by simpa using h1
        simp only [adapt]
        rw [if_pos (by simpa using h1')]
      · simp only [h1, Bool.false_eq_true, if_false] at hn
        have h1' : ¬ ([] = tr ∨ [] ∈ ts) := by simpa using h1
        by_cases h2 : ([] == fl || fs.contains []) = true
        · right
          simp only [h2, if_true, beq_iff_eq] at hn
          have h2' : ([] = fl ∨ [] ∈ fs) := by simpa using h2
          refine ⟨.bool false, ?_, by simp [uOfValue, serialize, pyTruthy, hn]⟩
          simp only [adapt]
          rw [if_neg (by simpa using h1'), if_pos (by simpa using h2')]
        · left
          have h2' : ¬ ([] = fl ∨ [] ∈ fs) := by simpa using h2
          simp only [adapt]
          rw [if_neg (by simpa using h1'), if_neg (by simpa using h2')]
    · right
      simp [Coherent] at hc
      cases b
      · simp only [uOfValue, serialize, pyTruthy, Bool.false_eq_true, if_false, Except.ok.injEq] at hu; subst hu
        refine ⟨.bool false, ?_, by simp [uOfValue, serialize, pyTruthy]⟩
        simp [adapt, hc.1, hc.2]
      · simp only [uOfValue, serialize, pyTruthy, if_true, Except.ok.injEq] at hu; subst hu
        exact ⟨.bool true, by simp [adapt], by simp [uOfValue, serialize, pyTruthy]⟩
  | date b =>
    rcases hv with rfl | ⟨y, m, d, rfl, hvd⟩ | ⟨y, m, d, a, b', c, us, rfl, hvd⟩
    · simp only [uOfValue, Except.ok.injEq] at hu; subst hu
      left; cases b <;> simp [adapt, strip_nil, adaptTemporalText_nil]
    all_goals
      right
      simp only [uOfValue, serialize, Except.ok.injEq] at hu; subst hu
      refine ⟨.date y m d, ?_, by simp [uOfValue, serialize]⟩
      simp only [adapt, strip_dateText E.T hT, ite_self, adaptTemporalText, matchDate_dateText E.T hT y m d hvd, hvd, if_true]
  | time b =>
    rcases hv with rfl | ⟨a, b', c, us, rfl, hvt⟩
    · simp only [uOfValue, Except.ok.injEq] at hu; subst hu
      left; cases b <;> simp [adapt, strip_nil, adaptTemporalText_nil]
    · right
      simp only [uOfValue, serialize, Except.ok.injEq] at hu; subst hu
      refine ⟨.time a b' c 0, ?_, by simp [uOfValue, serialize]⟩
      simp only [adapt, strip_timeText E.T hT, ite_self, adaptTemporalText, matchTime_timeText E.T hT a b' c hvt, hvt, if_true]
  | datetime b =>
    rcases hv with rfl | ⟨y, m, d, a, b', c, us, rfl, hvd, hvt⟩
    · simp only [uOfValue, Except.ok.injEq] at hu; subst hu
      left; cases b <;> simp [adapt, strip_nil, adaptTemporalText_nil]
    · right
      simp only [uOfValue, serialize, Except.ok.injEq] at hu; subst hu
      refine ⟨.datetime y m d a b' c 0, ?_, by simp [uOfValue, serialize]⟩
      simp only [adapt, strip_dateTimeText E.T hT, ite_self, adaptTemporalText,
        matchDateTime_text E.T hT y m d a b' c hvd hvt, hvd, hvt, Bool.and_self, if_true]
  | constrained c vd ih =>
    rw [uOfValue_constrained] at hu
    simp only [Modelled, Coherent, WidthOK] at hm hc hw
    rcases ih hm hc hw v hv.1 hu (fun h => by simpa [CoherentNone] using hnone h) with h | ⟨v', h1, h2⟩
    · left; simp [adapt, h]
    · by_cases hh : vd.holds v' = true
      · right; exact ⟨v', by simp [adapt, h1, hh], by rw [uOfValue_constrained]; exact h2⟩
      · left; simp [adapt, h1, hh]


/-- values whose text form represents them completely -/
def ExactValue : Kind → Native → Bool
  | .date _, .datetime .. => false
  | .time _, .time _ _ _ us => us == 0
  | .datetime _, .datetime _ _ _ _ _ _ us => us == 0
  | .constrained c _, v => ExactValue c v
  | _, _ => true

theorem adapt_exact (E : Env) (k : Kind) (x v : Native) (hx : ExactInput k x = true)
    (h : adapt E k x = .ok (some v)) : ExactValue k v = true := by
  induction k generalizing v with
  | date b =>
    cases x <;> simp only [adapt] at h
    case str s =>
      simp only [Except.ok.injEq] at h
      obtain ⟨y, m, d, hv, _⟩ := (adaptTemporalText_value _ _ _ _ h).1 rfl
      subst hv; rfl
    case datetime => simp [ExactInput] at hx
    all_goals (simp at h; try (subst h; rfl))
  | time b =>
    cases x <;> simp only [adapt] at h
    case str s =>
      simp only [Except.ok.injEq] at h
      obtain ⟨a, b', c, hv, _⟩ := (adaptTemporalText_value _ _ _ _ h).2.1 rfl
      subst hv; rfl
    case time a b' c us => simp at h; subst h; simpa [ExactInput, ExactValue] using hx
    all_goals (simp at h; try (subst h; rfl))
  | datetime b =>
    cases x <;> simp only [adapt] at h
    case str s =>
      simp only [Except.ok.injEq] at h
      obtain ⟨y, m, d, a, b', c, hv, _⟩ := (adaptTemporalText_value _ _ _ _ h).2.2 (by omega)
      subst hv; rfl
    case datetime y m d a b' c us => simp at h; subst h; simpa [ExactInput, ExactValue] using hx
    all_goals (simp at h; try (subst h; rfl))
  | constrained c vd ih =>
    simp only [adapt] at h
    split at h
    · simp at h
    · simp at h
    · rename_i w hw
      split at h
      · simp only [Except.ok.injEq, Option.some.injEq] at h
        subst h
        exact ih w (by simpa [ExactInput] using hx) hw
      · simp at h
  | string b => cases v <;> rfl
  | integer sg w => cases v <;> rfl
  | float sg => cases v <;> rfl
  | decimal sg => cases v <;> rfl
  | boolean tr fl ts fs => cases v <;> rfl

/-- B-form: for exactly represented values the text adapts back to the same value -/
theorem reset_value_value (E : Env) (hT : E.T.OK) (k : Kind) (hm : Modelled k = true) (hc : Coherent k = true)
    (hw : WidthOK E.T k = true) (v : Native) (u : Str) (hv : ValueOf E.T k v) (hex : ExactValue k v = true)
    (hne : v ≠ .none) (hu : uOfValue E k v = .ok u) : adapt E k (.str u) = .ok (some v) := by
  induction k generalizing v with
  | string b =>
    rcases hv with rfl | ⟨s, rfl, hs⟩
    · exact absurd rfl hne
    · simp only [uOfValue, serialize, Except.ok.injEq] at hu; subst hu
      cases b
      · simp [adapt]
      · simp [adapt, hs rfl]
  | integer sg w =>
    rcases hv with rfl | ⟨i, rfl, hfit, hs⟩
    · exact absurd rfl hne
    · simp only [uOfValue, serialize, pyFmtInt, hfit, if_true, Except.ok.injEq] at hu; subst hu
      have hw' : w ≤ E.T.maxDigits := by simpa [WidthOK] using hw
      simp only [adapt, strip_fmtInt E.T hT, pyIntOfStr_fmtInt E.T hT w i hfit hw']
      unfold checkSigned
      rcases hs with h | h
      · simp [h]
      · have : ¬ i < 0 := by omega
        simp [this]
  | float sg => simp [Modelled] at hm
  | decimal sg => simp [Modelled] at hm
  | boolean tr fl ts fs =>
    rcases hv with rfl | ⟨b, rfl⟩
    · exact absurd rfl hne
    simp [Coherent] at hc
    cases b
    · simp only [uOfValue, serialize, pyTruthy, Bool.false_eq_true, if_false, Except.ok.injEq] at hu; subst hu
      simp [adapt, hc.1, hc.2]
    · simp only [uOfValue, serialize, pyTruthy, if_true, Except.ok.injEq] at hu; subst hu
      simp [adapt]
  | date b =>
    rcases hv with rfl | ⟨y, m, d, rfl, hvd⟩ | ⟨y, m, d, a, b', c, us, rfl, hvd⟩
    · exact absurd rfl hne
    · simp only [uOfValue, serialize, Except.ok.injEq] at hu; subst hu
      simp only [adapt, strip_dateText E.T hT, ite_self, adaptTemporalText, matchDate_dateText E.T hT y m d hvd, hvd, if_true]
    · simp [ExactValue] at hex
  | time b =>
    rcases hv with rfl | ⟨a, b', c, us, rfl, hvt⟩
    · exact absurd rfl hne
    · simp only [ExactValue, beq_iff_eq] at hex; subst hex
      simp only [uOfValue, serialize, Except.ok.injEq] at hu; subst hu
      simp only [adapt, strip_timeText E.T hT, ite_self, adaptTemporalText, matchTime_timeText E.T hT a b' c hvt, hvt, if_true]
  | datetime b =>
    rcases hv with rfl | ⟨y, m, d, a, b', c, us, rfl, hvd, hvt⟩
    · exact absurd rfl hne
    · simp only [ExactValue, beq_iff_eq] at hex; subst hex
      simp only [uOfValue, serialize, Except.ok.injEq] at hu; subst hu
      simp only [adapt, strip_dateTimeText E.T hT, ite_self, adaptTemporalText,
        matchDateTime_text E.T hT y m d a b' c hvd hvt, hvd, hvt, Bool.and_self, if_true]
  | constrained c vd ih =>
    rw [uOfValue_constrained] at hu
    simp only [Modelled, Coherent, WidthOK] at hm hc hw
    have := ih hm hc hw v hv.1 (by simpa [ExactValue] using hex) hne hu
    simp [adapt, this, hv.2]


/-- text never adapts to None -/
theorem adapt_str_ne_none (E : Env) (k : Kind) (s : Str) (v : Native) (h : adapt E k (.str s) = .ok (some v)) :
    v ≠ .none := by
  induction k generalizing v with
  | string b => simp only [adapt] at h; simp at h; subst h; simp
  | integer sg w =>
    simp only [adapt] at h
    split at h
    · simp at h
    · simp only [Except.ok.injEq] at h
      rw [checkSigned_some _ _ _ _ h]; simp
  | float sg =>
    simp only [adapt] at h
    obtain ⟨t, ht⟩ := adaptTok_value _ _ _ _ _ h
    simp at ht; subst ht; simp
  | decimal sg =>
    simp only [adapt] at h
    obtain ⟨t, ht⟩ := adaptTok_value _ _ _ _ _ h
    simp at ht; subst ht; simp
  | boolean tr fl ts fs =>
    simp only [adapt] at h
    split at h
    · simp at h; subst h; simp
    · split at h
      · simp at h; subst h; simp
      · simp at h
  | date b =>
    simp only [adapt, Except.ok.injEq] at h
    obtain ⟨y, m, d, hv, _⟩ := (adaptTemporalText_value _ _ _ _ h).1 rfl
    subst hv; simp
  | time b =>
    simp only [adapt, Except.ok.injEq] at h
    obtain ⟨a, b', c, hv, _⟩ := (adaptTemporalText_value _ _ _ _ h).2.1 rfl
    subst hv; simp
  | datetime b =>
    simp only [adapt, Except.ok.injEq] at h
    obtain ⟨y, m, d, a, b', c, hv, _⟩ := (adaptTemporalText_value _ _ _ _ h).2.2 (by omega)
    subst hv; simp
  | constrained c vd ih =>
    simp only [adapt] at h
    split at h
    · simp at h
    · simp at h
    · rename_i w hw
      split at h
      · simp only [Except.ok.injEq, Option.some.injEq] at h
        subst h
        exact ih w hw
      · simp at h

end Flatland.Scalar
