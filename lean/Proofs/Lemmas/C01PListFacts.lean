/-
Pure list facts used by the general List round trip: index lists versus element lists, and the
trailing-drop of the specification.
-/
import Proofs.Lemmas.C01PDict
import Proofs.C02Order
namespace Flatland.Flat.Proofs
open Flatland.Flat Flatland.Flat.Spec

theorem range_map_get {α} [Inhabited α] (l : List α) : (List.range l.length).map (fun i => l[i]!) = l := by
  apply List.ext_getElem
  · simp
  · intro i h1 h2
    simp only [List.length_map, List.length_range] at h1
    simp [List.getElem_map, List.getElem_range, h1]

/-- filtering positions and then reading the elements = filtering the elements -/
theorem filter_range_map {α β} [Inhabited α] (l : List α) (p : α → Bool) (f : α → β) :
    ((List.range l.length).filter (fun i => p l[i]!)).map (fun i => f l[i]!) = (l.filter p).map f := by
  conv => rhs; rw [← range_map_get l]
  rw [List.filter_map, List.map_map]
  rfl

theorem pairwise_lt_filter_range (k : Nat) (P : Nat → Bool) :
    ((List.range k).filter P).Pairwise (· < ·) :=
  List.Pairwise.sublist List.filter_sublist List.pairwise_lt_range

/-- the sorted distinct indexes are the positions that satisfy `P`, in order -/
theorem sortedDistinct_eq_filter_range (idxs : List Nat) (k : Nat) (P : Nat → Bool)
    (hlt : ∀ j ∈ idxs, j < k) (hiff : ∀ i, i < k → (i ∈ idxs ↔ P i = true)) :
    sortedDistinct idxs = (List.range k).filter P := by
  apply sorted_unique _ _ (sortedDistinct_spec idxs).1 (pairwise_lt_filter_range k P)
  intro x
  rw [(sortedDistinct_spec idxs).2 x, List.mem_filter, List.mem_range]
  constructor
  · intro hx; exact ⟨hlt x hx, (hiff x (hlt x hx)).mp hx⟩
  · rintro ⟨hx, hp⟩; exact (hiff x hx).mpr hp

/-! ### dropping the trailing elements that fail `p` -/

theorem dropTrailing_eq_take {α} (p : α → Bool) (l : List α) :
    dropTrailing p l = l.take (dropTrailing p l).length := by
  unfold dropTrailing
  have hsuf : (l.reverse.dropWhile (fun x => !p x)) <:+ l.reverse := List.dropWhile_suffix _
  have hpre : (l.reverse.dropWhile (fun x => !p x)).reverse <+: l := by
    have := List.reverse_prefix.mpr hsuf
    simpa using this
  exact (List.prefix_iff_eq_take.mp hpre)

theorem dropTrailing_length_le {α} (p : α → Bool) (l : List α) : (dropTrailing p l).length ≤ l.length := by
  unfold dropTrailing
  simp only [List.length_reverse]
  have := (List.dropWhile_suffix (fun x => !p x) (l := l.reverse)).length_le
  simpa using this

/-- the last kept element satisfies `p` -/
theorem dropTrailing_last {α} [Inhabited α] (p : α → Bool) (l : List α) (h : 0 < (dropTrailing p l).length) :
    p l[(dropTrailing p l).length - 1]! = true := by
  have hd : (l.reverse.dropWhile (fun x => !p x)) ≠ [] := by
    intro hnil
    unfold dropTrailing at h
    rw [hnil] at h; simp at h
  have hhead := List.head_dropWhile_not (fun x => !p x) (l := l.reverse) hd
  simp only [Bool.not_eq_false'] at hhead
  -- the head of the dropped reverse list is the last element of dropTrailing
  have hlast : (dropTrailing p l).getLast (by intro hn; rw [hn] at h; simp at h)
      = (l.reverse.dropWhile (fun x => !p x)).head hd := by
    unfold dropTrailing
    rw [List.getLast_reverse]
  have htake := dropTrailing_eq_take p l
  have hlen := dropTrailing_length_le p l
  have hidx : (dropTrailing p l).getLast (by intro hn; rw [hn] at h; simp at h)
      = l[(dropTrailing p l).length - 1]! := by
    rw [List.getLast_eq_getElem]
    have h1 : (dropTrailing p l).length - 1 < l.length := by omega
    have h2 : (dropTrailing p l).length - 1 < (dropTrailing p l).length := by omega
    have : (dropTrailing p l)[(dropTrailing p l).length - 1] = l[(dropTrailing p l).length - 1] := by
      conv => lhs; rw [List.getElem_of_eq htake h2]
      simp [List.getElem_take]
    rw [this]
    simp [h1]
  rw [← hidx, hlast]
  exact hhead

/-- everything after the kept prefix fails `p` -/
theorem dropTrailing_after {α} [Inhabited α] (p : α → Bool) (l : List α) (i : Nat)
    (h1 : (dropTrailing p l).length ≤ i) (h2 : i < l.length) : p l[i]! = false := by
  -- l.reverse = takeWhile ++ dropWhile; element i of l sits in the takeWhile part of the reverse
  have hsplit := List.takeWhile_append_dropWhile (p := fun x => !p x) (l := l.reverse)
  have hlenD : (dropTrailing p l).length = (l.reverse.dropWhile (fun x => !p x)).length := by
    unfold dropTrailing; simp
  have hlenT : (l.reverse.takeWhile (fun x => !p x)).length = l.length - (dropTrailing p l).length := by
    have := congrArg List.length hsplit
    simp only [List.length_append, List.length_reverse] at this
    omega
  -- position of l[i] in the reverse
  let j := l.length - 1 - i
  have hj : j < (l.reverse.takeWhile (fun x => !p x)).length := by
    rw [hlenT]; show l.length - 1 - i < _; omega
  have hmem : l.reverse[j]'(by simp; show l.length - 1 - i < l.length; omega)
      = (l.reverse.takeWhile (fun x => !p x))[j]'hj := by
    have : l.reverse[j]'(by simp; show l.length - 1 - i < l.length; omega)
        = (l.reverse.takeWhile (fun x => !p x) ++ l.reverse.dropWhile (fun x => !p x))[j]'(by
            rw [hsplit]; simp; show l.length - 1 - i < l.length; omega) := by
      congr 1; exact hsplit.symm
    rw [this, List.getElem_append_left hj]
  have hall := List.all_takeWhile (p := fun x => !p x) (l := l.reverse)
  have hp := List.all_eq_true.mp hall _ (List.getElem_mem hj)
  rw [← hmem] at hp
  simp only [List.getElem_reverse, Bool.not_eq_true'] at hp
  have hij : l.length - 1 - j = i := by show l.length - 1 - (l.length - 1 - i) = i; omega
  have hget : l[l.length - 1 - j]'(by omega) = l[i]'h2 := by
    congr 1
  rw [hget] at hp
  simp [h2, hp]

end Flatland.Flat.Proofs
