/-
What the transforms do to the attribute dict: option keys are consumed and never re-created
(`options_never_emitted`), a tag-level `on` forces the transform (`forced_*`).
-/
import Proofs.Lemmas.C19Stack
namespace Flatland.C19.Proofs
open Flatland.Markup Flatland.C19 Flatland.C19.Spec

theorem popToggle_shape {T : Tables} {key : Str} {attrs : Attrs} {ctx : Ctx} {r : Attrs × Bool × Bool}
    (h : popToggle T key attrs ctx = .ok r) : r.1 = Dict.erase attrs key := by
  unfold popToggle at h
  simp only [bind, Except.bind, pure, Except.pure] at h
  close_leaves h

/-- the only attribute names a transform ever writes -/
def generatedKeys : List Str := [sName, sValue, sId, sFor, sTabindex, sChecked, sSelected]

/-- `b` is obtained from `a` by writing generated attribute names and deleting attributes -/
inductive Reach : Attrs → Attrs → Prop
  | refl (a : Attrs) : Reach a a
  | set {a b : Attrs} (k : Str) (v : Val) (hk : k ∈ generatedKeys) : Reach a b → Reach a (Dict.set b k v)
  | erase {a b : Attrs} (k : Str) : Reach a b → Reach a (Dict.erase b k)

theorem Reach.toggle {a b : Attrs} (k : Str) (on : Bool) (hk : k ∈ generatedKeys) (h : Reach a b) :
    Reach a (toggleAttr b k on) := by
  unfold toggleAttr; split
  · exact .set k _ hk h
  · exact .erase k h

theorem Reach.nodup {a b : Attrs} (h : Reach a b) (hn : (Dict.keys a).Nodup) : (Dict.keys b).Nodup := by
  induction h with
  | refl => exact hn
  | set k v _ _ ih => exact Dict.nodup_set _ k v ih
  | erase k _ ih => exact Dict.nodup_erase _ k ih

theorem Reach.none {a b : Attrs} (h : Reach a b) (k : Str) (hk : k ∉ generatedKeys)
    (hn : Dict.get? a k = none) : Dict.get? b k = none := by
  induction h with
  | refl => exact hn
  | set k' v hk' _ ih =>
    rw [Dict.get?_set_other _ k' k v (by intro e; subst e; exact hk hk')]; exact ih
  | erase k' _ ih =>
    rw [Dict.get?_eq_none_iff] at ih ⊢
    intro hm; exact ih (Dict.keys_erase_sub _ k' k hm)

/-- leaves of a transform: the resulting attrs are reachable from the popped dict -/
macro "reach_leaves" h:ident hs:ident : tactic =>
  `(tactic| (repeat' split at $h:ident) <;> first
      | (simp at $h:ident; done)
      | (simp only [pure, Except.pure, Except.ok.injEq] at $h:ident; subst $h:ident; simp only [$hs:ident];
         repeat (first
           | exact Reach.refl _
           | apply Reach.toggle _ _ (by decide)
           | apply Reach.set _ _ (by decide)
           | apply Reach.erase)))

theorem transformName_reach {T : Tables} {tag : Str} {bnd : Option Bind} {st st' : TState}
    (h : transformName T tag bnd st = .ok st') :
    Reach (Dict.erase st.attrs "auto_name".toList) st'.attrs := by
  unfold transformName at h
  simp only [bind, Except.bind, pure, Except.pure] at h
  cases hp : popToggle T "auto_name".toList st.attrs st.ctx with
  | error e => rw [hp] at h; simp at h
  | ok r =>
    have hs := popToggle_shape hp
    rw [hp] at h; simp only at h
    reach_leaves h hs

theorem transformValue_reach {T : Tables} {tag : Str} {bnd : Option Bind} {st st' : TState}
    (h : transformValue T tag bnd st = .ok st') :
    Reach (Dict.erase st.attrs "auto_value".toList) st'.attrs := by
  unfold transformValue at h
  simp only [bind, Except.bind, pure, Except.pure] at h
  cases hp : popToggle T "auto_value".toList st.attrs st.ctx with
  | error e => rw [hp] at h; simp at h
  | ok r =>
    have hs := popToggle_shape hp
    rw [hp] at h; simp only at h
    reach_leaves h hs

theorem transformDomid_reach {T : Tables} {tag : Str} {bnd : Option Bind} {st st' : TState}
    (h : transformDomid T tag bnd st = .ok st') :
    Reach (Dict.erase st.attrs "auto_domid".toList) st'.attrs := by
  unfold transformDomid at h
  simp only [bind, Except.bind, pure, Except.pure] at h
  cases hp : popToggle T "auto_domid".toList st.attrs st.ctx with
  | error e => rw [hp] at h; simp at h
  | ok r =>
    have hs := popToggle_shape hp
    rw [hp] at h; simp only at h
    reach_leaves h hs

theorem transformFor_reach {T : Tables} {tag : Str} {bnd : Option Bind} {st st' : TState}
    (h : transformFor T tag bnd st = .ok st') :
    Reach (Dict.erase st.attrs "auto_for".toList) st'.attrs := by
  unfold transformFor at h
  simp only [bind, Except.bind, pure, Except.pure] at h
  cases hp : popToggle T "auto_for".toList st.attrs st.ctx with
  | error e => rw [hp] at h; simp at h
  | ok r =>
    have hs := popToggle_shape hp
    rw [hp] at h; simp only at h
    reach_leaves h hs

theorem transformTabindex_reach {T : Tables} {tag : Str} {bnd : Option Bind} {st st' : TState}
    (h : transformTabindex T tag bnd st = .ok st') :
    Reach (Dict.erase st.attrs "auto_tabindex".toList) st'.attrs := by
  unfold transformTabindex at h
  simp only [bind, Except.bind, pure, Except.pure] at h
  cases hp : popToggle T "auto_tabindex".toList st.attrs st.ctx with
  | error e => rw [hp] at h; simp at h
  | ok r =>
    have hs := popToggle_shape hp
    rw [hp] at h; simp only at h
    reach_leaves h hs

theorem transformFilters_reach {T : Tables} {tag : Str} {bnd : Option Bind} {st st' : TState}
    (h : transformFilters T tag bnd st = .ok st') :
    Reach (Dict.erase st.attrs "auto_filter".toList) st'.attrs := by
  unfold transformFilters at h
  simp only [bind, Except.bind, pure, Except.pure] at h
  cases hp : popToggle T "auto_filter".toList st.attrs st.ctx with
  | error e => rw [hp] at h; simp at h
  | ok r =>
    have hs := popToggle_shape hp
    rw [hp] at h; simp only at h
    reach_leaves h hs

end Flatland.C19.Proofs

namespace Flatland.C19.Proofs
open Flatland.Markup Flatland.C19 Flatland.C19.Spec

def optionKeys : List Str :=
  ["auto_name".toList, "auto_value".toList, "auto_domid".toList, "auto_for".toList,
   "auto_tabindex".toList, "auto_filter".toList]

/-- "no option key so far, distinct keys" survives one transform, which also removes its own key -/
structure Clean (done : List Str) (a : Attrs) : Prop where
  nodup : (Dict.keys a).Nodup
  gone : ∀ k ∈ done, Dict.get? a k = none

theorem Clean.step {done : List Str} {a a' : Attrs} (key : Str) (hk : key ∉ generatedKeys)
    (hdone : ∀ k ∈ done, k ∉ generatedKeys) (hc : Clean done a) (hr : Reach (Dict.erase a key) a') :
    Clean (key :: done) a' where
  nodup := hr.nodup (Dict.nodup_erase a key hc.nodup)
  gone := by
    intro k hkm
    simp only [List.mem_cons] at hkm
    rcases hkm with rfl | hkm
    · exact hr.none k hk (Dict.get?_erase_self a k hc.nodup)
    · apply hr.none k (hdone k hkm)
      have := hc.gone k hkm
      rw [Dict.get?_eq_none_iff] at this ⊢
      intro hm; exact this (Dict.keys_erase_sub a key k hm)

/-- OPTIONS NEVER EMITTED (attribute dict): after the transforms none of the six option names is
    an attribute any more, whatever the tag, the bind, the context and the other attributes -/
theorem options_never_emitted {T : Tables} {tag : Str} {bnd : Option Bind} {st st' : TState}
    (hnd : (Dict.keys st.attrs).Nodup) (h : transform T tag bnd st = .ok st') :
    ∀ k ∈ optionKeys, Dict.get? st'.attrs k = none := by
  unfold transform at h
  simp only [bind, Except.bind] at h
  cases h1 : transformName T tag bnd st with
  | error e => rw [h1] at h; simp at h
  | ok s1 =>
    rw [h1] at h; simp only at h
    cases h2 : transformValue T tag bnd s1 with
    | error e => rw [h2] at h; simp at h
    | ok s2 =>
      rw [h2] at h; simp only at h
      cases h3 : transformDomid T tag bnd s2 with
      | error e => rw [h3] at h; simp at h
      | ok s3 =>
        rw [h3] at h; simp only at h
        cases h4 : transformFor T tag bnd s3 with
        | error e => rw [h4] at h; simp at h
        | ok s4 =>
          rw [h4] at h; simp only at h
          cases h5 : transformTabindex T tag bnd s4 with
          | error e => rw [h5] at h; simp at h
          | ok s5 =>
            rw [h5] at h; simp only at h
            have c0 : Clean [] st.attrs := ⟨hnd, by simp⟩
            have c1 := c0.step _ (by decide) (by simp) (transformName_reach h1)
            have c2 := c1.step _ (by decide) (by decide) (transformValue_reach h2)
            have c3 := c2.step _ (by decide) (by decide) (transformDomid_reach h3)
            have c4 := c3.step _ (by decide) (by decide) (transformFor_reach h4)
            have c5 := c4.step _ (by decide) (by decide) (transformTabindex_reach h5)
            have c6 := c5.step _ (by decide) (by decide) (transformFilters_reach h)
            intro k hk
            apply c6.gone k
            simp only [optionKeys, List.mem_cons, List.not_mem_nil, or_false] at hk ⊢
            rcases hk with rfl | rfl | rfl | rfl | rfl | rfl <;> simp

/-- `_transform_keys` yields distinct attribute names -/
theorem transformKeys_nodup (kw : List (Str × Val)) : (Dict.keys (Flatland.C11.transformKeys kw)).Nodup := by
  unfold Flatland.C11.transformKeys
  suffices ∀ (d : Attrs), (Dict.keys d).Nodup →
      (Dict.keys (kw.foldl (fun d kv => Dict.set d (rstripUnderscore kv.1) kv.2) d)).Nodup from
    this [] (by simp [Dict.keys])
  induction kw with
  | nil => intro d hd; exact hd
  | cons kv rest ih => intro d hd; exact ih _ (Dict.nodup_set d _ _ hd)

theorem mem_insertBy {α} (lt : α → α → Bool) (x y : α) (l : List α) :
    y ∈ insertBy lt x l ↔ y = x ∨ y ∈ l := by
  induction l with
  | nil => simp [insertBy]
  | cons z zs ih =>
    simp only [insertBy]
    split
    · simp only [List.mem_cons, ih]; constructor
      · rintro (h | h | h); exact Or.inr (Or.inl h); exact Or.inl h; exact Or.inr (Or.inr h)
      · rintro (h | h | h); exact Or.inr (Or.inl h); exact Or.inl h; exact Or.inr (Or.inr h)
    · simp

theorem mem_sortBy {α} (lt : α → α → Bool) (y : α) (l : List α) : y ∈ sortBy lt l ↔ y ∈ l := by
  induction l with
  | nil => simp [sortBy]
  | cons x xs ih => simp [sortBy, mem_insertBy, ih]

theorem get?_none_not_mem (d : Attrs) (k : Str) (h : Dict.get? d k = none) (v : Val) : (k, v) ∉ d := by
  intro hm
  rw [Dict.get?_eq_none_iff] at h
  exact h (List.mem_map.mpr ⟨(k, v), hm, rfl⟩)

/-- OPTIONS NEVER EMITTED (what is serialised): no `auto_*="…"` item reaches `Tag._open` -/
theorem options_never_rendered {T : Tables} {order : List Str} {g : Gen} {tag : Str} {bnd : Option Bind}
    {kwargs : List (Str × Val)} {r : TagResult} (h : prepareTag T order g tag bnd kwargs = .ok r) :
    ∀ k ∈ optionKeys, ∀ v, (k, v) ∉ r.pairs := by
  unfold prepareTag at h
  simp only [bind, Except.bind] at h
  cases ht : transform T tag bnd ⟨Flatland.C11.transformKeys (Dict.erase kwargs "contents".toList),
          Dict.get? kwargs "contents".toList, g.ctx⟩ with
  | error e => rw [ht] at h; simp at h
  | ok st =>
    rw [ht] at h
    have hno := options_never_emitted (transformKeys_nodup _) ht
    have hp : ∃ o, r.pairs = Flatland.C11.orderPairs order o st.attrs := by
      simp only at h
      repeat' split at h
      all_goals first
        | (simp at h; done)
        | (simp only [pure, Except.pure, Except.ok.injEq] at h; subst h; exact ⟨_, rfl⟩)
    obtain ⟨o, hp⟩ := hp
    intro k hk v hm
    rw [hp] at hm
    have : (k, v) ∈ st.attrs := by
      unfold Flatland.C11.orderPairs at hm
      split at hm
      · exact (mem_sortBy _ _ _).mp hm
      · exact hm
    exact get?_none_not_mem st.attrs k (hno k hk) v this

/-! ### forced -/

/-- a tag-level `on` decides by itself: apply, forced — whatever the context says -/
theorem popToggle_forced (T : Tables) (key : Str) (attrs : Attrs) (ctx : Ctx)
    (h : T.parseTrool ((Dict.get? attrs key).getD .maybe) = .yes) :
    popToggle T key attrs ctx = .ok (Dict.erase attrs key, true, true) := by
  unfold popToggle
  simp [h, bind, Except.bind, pure, Except.pure]

/-- a tag-level `off` decides by itself, too -/
theorem popToggle_off (T : Tables) (key : Str) (attrs : Attrs) (ctx : Ctx)
    (h : T.parseTrool ((Dict.get? attrs key).getD .maybe) = .no) :
    popToggle T key attrs ctx = .ok (Dict.erase attrs key, false, false) := by
  unfold popToggle
  simp [h, bind, Except.bind, pure, Except.pure]

/-- FORCED NAME: `auto_name="on"` on the tag sets `name` to the bind's flattened name on ANY tag,
    replacing an existing `name` attribute -/
theorem forced_name (T : Tables) (tag : Str) (b : Bind) (st : TState)
    (hon : T.parseTrool ((Dict.get? st.attrs "auto_name".toList).getD .maybe) = .yes)
    (hname : b.flatName ≠ []) :
    ∃ st', transformName T tag (some b) st = .ok st' ∧
      Dict.get? st'.attrs sName = some (.text b.flatName) := by
  have hne : b.flatName.isEmpty = false := by simpa using hname
  have hp := popToggle_forced T "auto_name".toList st.attrs st.ctx hon
  refine ⟨⟨Dict.set (Dict.erase st.attrs "auto_name".toList) sName (.text b.flatName), st.contents, st.ctx⟩, ?_,
    by simp [Dict.get?_set_self]⟩
  unfold transformName
  simp only [bind, Except.bind, pure, Except.pure]
  rw [hp]
  simp [hne]

/-- FORCED ID: `auto_domid="on"` on the tag generates `id` from the bind on ANY tag, replacing an
    existing `id` attribute (format `fmt` with exactly the conversions the model knows) -/
theorem forced_domid (T : Tables) (tag : Str) (b : Bind) (st : TState) (raw idv : Str) (fmt : CVal)
    (hon : T.parseTrool ((Dict.get? st.attrs "auto_domid".toList).getD .maybe) = .yes)
    (hraw : generateRawDomid tag (Dict.erase st.attrs "auto_domid".toList) (some b) = .ok (some raw))
    (hfmt : st.ctx.getItem "domid_format".toList = .ok fmt) (hid : formatDomid fmt raw = .ok idv) :
    ∃ st', transformDomid T tag (some b) st = .ok st' ∧ Dict.get? st'.attrs sId = some (.text idv) := by
  have hp := popToggle_forced T "auto_domid".toList st.attrs st.ctx hon
  refine ⟨⟨Dict.set (Dict.erase st.attrs "auto_domid".toList) sId (.text idv), st.contents, st.ctx⟩, ?_,
    by simp [Dict.get?_set_self]⟩
  unfold transformDomid
  simp only [bind, Except.bind, pure, Except.pure]
  rw [hp]
  simp only [Bool.not_true, Bool.false_eq_true, if_false, Bool.true_or, if_true]
  rw [hraw]
  simp only
  rw [hfmt]
  simp only
  rw [hid]

/-- FORCED VALUE on a tag the transform would otherwise leave alone (not input/option/textarea):
    `value` becomes the bind's text even if a `value` attribute was given.  This is the value
    transform alone: on a `<label>` the for-transform, which runs later, removes `value` again
    (`label_value_dropped` in `C19Applies.lean`), so a forced value never shows on a label. -/
theorem forced_value (T : Tables) (tag : Str) (b : Bind) (st : TState)
    (hon : T.parseTrool ((Dict.get? st.attrs "auto_value".toList).getD .maybe) = .yes)
    (h1 : tag ≠ sInput) (h2 : tag ≠ sOption) (h3 : tag ≠ sTextarea) :
    ∃ st', transformValue T tag (some b) st = .ok st' ∧ Dict.get? st'.attrs sValue = some (.text b.u) := by
  have hp := popToggle_forced T "auto_value".toList st.attrs st.ctx hon
  refine ⟨⟨Dict.set (Dict.erase st.attrs "auto_value".toList) sValue (.text b.u), st.contents, st.ctx⟩, ?_,
    by simp [Dict.get?_set_self]⟩
  unfold transformValue
  simp only [bind, Except.bind, pure, Except.pure]
  rw [hp]
  simp [h1, h2, h3]

/-- TAG-LEVEL OFF: `auto_name="off"` leaves the attributes alone (only the option is consumed) -/
theorem off_name (T : Tables) (tag : Str) (bnd : Option Bind) (st : TState)
    (hoff : T.parseTrool ((Dict.get? st.attrs "auto_name".toList).getD .maybe) = .no) :
    transformName T tag bnd st = .ok { st with attrs := Dict.erase st.attrs "auto_name".toList } := by
  have hp := popToggle_off T "auto_name".toList st.attrs st.ctx hoff
  unfold transformName
  simp only [bind, Except.bind, pure, Except.pure]
  rw [hp]
  cases bnd <;> simp

end Flatland.C19.Proofs
