/-
Pair-level reading of the documented pruning: with list indexes erased from the paths, the output
of the pruned element is a subsequence of the original output, and it keeps every pair whose value
is not empty.  (Level by level, so that it composes through the breadth-first order.)
-/
import Proofs.Lemmas.C01LevelStable
namespace Flatland.Flat.Proofs
open Flatland.Flat Flatland.Flat.Spec

variable {env : Env}

/-! ### erasing list indexes -/

mutual
/-- the same node with no List slots anywhere: its paths are those of the original node with the
    index tokens left out -/
def unslot : FNode → FNode
  | .mk nm fl cfl t _ kids => .mk nm fl cfl t false (unslotL kids)
def unslotL : List FNode → List FNode
  | [] => []
  | k :: ks => unslot k :: unslotL ks
end

theorem unslotL_eq_map (ks : List FNode) : unslotL ks = ks.map unslot := by
  induction ks with
  | nil => rfl
  | cons k ks ih => simp [unslotL, ih]

/-- level `d` of a node, list indexes erased -/
def ulvl (d : Nat) (n : FNode) : List PPair := lvl d [([], unslot n)]

theorem lvl_items (d : Nat) (p : List Str) (ks : List FNode) :
    lvl d (ks.map (fun k => ((p, k) : QItem))) = ks.flatMap (fun k => (lvl d [([], k)]).map (pre p)) := by
  induction ks with
  | nil => simp [lvl_nil]
  | cons k ks ih => rw [List.map_cons, lvl_cons, lvl_item, ih, List.flatMap_cons]

theorem ulvl_zero_mk (nm : Option Str) (fl cfl : Bool) (t : Str) (s : Bool) (kids : List FNode) :
    ulvl 0 (.mk nm fl cfl t s kids) = if fl then [(nm.toList, t)] else [] := by
  unfold ulvl; rw [unslot, lvl_zero_mk]

theorem ulvl_succ_mk (d : Nat) (nm : Option Str) (fl cfl : Bool) (t : Str) (s : Bool) (kids : List FNode) :
    ulvl (d + 1) (.mk nm fl cfl t s kids)
      = if cfl then kids.flatMap (fun k => (ulvl d k).map (pre nm.toList)) else [] := by
  unfold ulvl
  rw [unslot, lvl_succ_mk, kidsFrom_noslots, lvl_items, unslotL_eq_map, List.flatMap_map]

/-! ### erasing indexes does not touch the values -/

theorem map_snd_pre (p : List Str) (l : List PPair) : (l.map (pre p)).map Prod.snd = l.map Prod.snd := by
  simp [List.map_map, Function.comp_def, pre]

theorem vals_kidsFrom (d : Nat) (p : List Str) (s : Bool) : ∀ (i : Nat) (ks : List FNode),
    (lvl d (kidsFrom p s i ks)).map Prod.snd = ks.flatMap (fun k => (lvl d [([], k)]).map Prod.snd)
  | _, [] => by simp [kidsFrom, lvl_nil]
  | i, k :: ks => by
    rw [lvl_kidsFrom_cons, List.map_append, map_snd_pre, vals_kidsFrom d p s (i + 1) ks,
      List.flatMap_cons]

theorem flatMap_congr' {α β} (f g : α → List β) (l : List α) (h : ∀ x ∈ l, f x = g x) :
    l.flatMap f = l.flatMap g := by
  induction l with
  | nil => rfl
  | cons a as ih =>
    simp only [List.flatMap_cons, h a (by simp), ih (fun x hx => h x (List.mem_cons_of_mem _ hx))]

theorem ulvl_vals : ∀ (d : Nat) (n : FNode), (ulvl d n).map Prod.snd = (lvl d [([], n)]).map Prod.snd
  | 0, .mk nm fl cfl t s kids => by rw [ulvl_zero_mk, lvl_zero_mk]
  | d + 1, .mk nm fl cfl t s kids => by
    rw [ulvl_succ_mk, lvl_succ_mk]
    cases cfl with
    | false => rfl
    | true =>
      simp only [if_true]
      rw [vals_kidsFrom, List.map_flatMap]
      apply flatMap_congr'
      intro k _
      rw [map_snd_pre, ulvl_vals d k]

theorem relFlat_levels (n : FNode) (N : Nat) (h : n.size ≤ N) :
    relFlat n = (List.range N).flatMap (fun d => lvl d [([], n)]) := by
  unfold relFlat
  exact bfsPath_eq_levels N _ (by simpa [qsize] using h)

theorem relFlat_unslot_levels (n : FNode) (N : Nat) (h : (unslot n).size ≤ N) :
    relFlat (unslot n) = (List.range N).flatMap (fun d => ulvl d n) :=
  relFlat_levels (unslot n) N h

/-- erasing the indexes leaves the sequence of emitted values as it is -/
theorem relFlat_unslot_vals (n : FNode) :
    (relFlat (unslot n)).map Prod.snd = (relFlat n).map Prod.snd := by
  rw [relFlat_unslot_levels n ((unslot n).size + n.size) (by omega),
    relFlat_levels n ((unslot n).size + n.size) (by omega), List.map_flatMap, List.map_flatMap]
  apply flatMap_congr'
  intro d _
  exact ulvl_vals d n

/-! ### subsequences that keep the non-empty values -/

/-- `l` is `l'` with some empty-valued pairs left out -/
def PSub (l l' : List PPair) : Prop := l.Sublist l' ∧ l.filter (keepP true) = l'.filter (keepP true)

theorem PSub.refl (l : List PPair) : PSub l l := ⟨List.Sublist.refl l, rfl⟩

theorem PSub.append {a a' b b' : List PPair} (h1 : PSub a a') (h2 : PSub b b') :
    PSub (a ++ b) (a' ++ b') :=
  ⟨h1.1.append h2.1, by rw [List.filter_append, List.filter_append, h1.2, h2.2]⟩

theorem PSub.map_pre (p : List Str) {a a' : List PPair} (h : PSub a a') :
    PSub (a.map (pre p)) (a'.map (pre p)) :=
  ⟨h.1.map _, by rw [filter_keepP_pre, filter_keepP_pre, h.2]⟩

/-- empty-valued pairs in front may be left out -/
theorem PSub.drop_left {a x y : List PPair} (ha : a.filter (keepP true) = []) (h : PSub x y) :
    PSub x (a ++ y) :=
  ⟨h.1.trans (List.sublist_append_right a y), by rw [List.filter_append, ha, List.nil_append, h.2]⟩

theorem PSub.flatMap {α} (f g : α → List PPair) : ∀ l : List α, (∀ x ∈ l, PSub (f x) (g x)) →
    PSub (l.flatMap f) (l.flatMap g)
  | [], _ => PSub.refl _
  | a :: as, h => by
    simp only [List.flatMap_cons]
    exact (h a (by simp)).append (PSub.flatMap f g as (fun x hx => h x (List.mem_cons_of_mem _ hx)))

/-- level by level, `n` is `n'` with some empty-valued pairs left out (indexes erased) -/
def Sub (n n' : FNode) : Prop := ∀ d, PSub (ulvl d n) (ulvl d n')

/-- the node emits no non-empty value -/
def Silent (n : FNode) : Prop := ∀ d, (ulvl d n).filter (keepP true) = []

theorem Sub.refl (n : FNode) : Sub n n := fun _ => PSub.refl _

/-- children replaced by sub-children, silent children left out anywhere -/
inductive SubL : List FNode → List FNode → Prop
  | nil : SubL [] []
  | cons {k k' : FNode} {ks ks' : List FNode} : Sub k k' → SubL ks ks' → SubL (k :: ks) (k' :: ks')
  | drop {k' : FNode} {ks ks' : List FNode} : Silent k' → SubL ks ks' → SubL ks (k' :: ks')

theorem filter_keepP_map_pre_nil (p : List Str) (l : List PPair) (h : l.filter (keepP true) = []) :
    (l.map (pre p)).filter (keepP true) = [] := by
  rw [filter_keepP_pre, h]; rfl

theorem psub_kids (p : List Str) (d : Nat) {ks ks' : List FNode} (h : SubL ks ks') :
    PSub (ks.flatMap (fun k => (ulvl d k).map (pre p))) (ks'.flatMap (fun k => (ulvl d k).map (pre p))) := by
  induction h with
  | nil => exact PSub.refl _
  | cons hk _ ih =>
    simp only [List.flatMap_cons]
    exact ((hk d).map_pre p).append ih
  | drop hk _ ih =>
    simp only [List.flatMap_cons]
    exact PSub.drop_left (filter_keepP_map_pre_nil p _ (hk d)) ih

theorem sub_mk (nm : Option Str) (fl cfl : Bool) (t : Str) (s s' : Bool) {kids kids' : List FNode}
    (h : SubL kids kids') : Sub (.mk nm fl cfl t s kids) (.mk nm fl cfl t s' kids') := by
  intro d
  cases d with
  | zero => rw [ulvl_zero_mk, ulvl_zero_mk]; exact PSub.refl _
  | succ d =>
    rw [ulvl_succ_mk, ulvl_succ_mk]
    cases cfl with
    | false => exact PSub.refl _
    | true => exact psub_kids _ d h

theorem sub_nocfl (nm : Option Str) (fl : Bool) (t : Str) (s s' : Bool) (kids kids' : List FNode) :
    Sub (.mk nm fl false t s kids) (.mk nm fl false t s' kids') := by
  intro d
  cases d with
  | zero => rw [ulvl_zero_mk, ulvl_zero_mk]; exact PSub.refl _
  | succ d => rw [ulvl_succ_mk, ulvl_succ_mk]; exact PSub.refl _

theorem subL_nil_of_silent : ∀ ks : List FNode, (∀ k ∈ ks, Silent k) → SubL [] ks
  | [], _ => SubL.nil
  | k :: ks, h => SubL.drop (h k (by simp)) (subL_nil_of_silent ks (fun x hx => h x (List.mem_cons_of_mem _ hx)))

theorem subL_append_silent {a b : List FNode} (h : SubL a b) (c : List FNode) (hc : ∀ k ∈ c, Silent k) :
    SubL a (b ++ c) := by
  induction h with
  | nil => exact subL_nil_of_silent c hc
  | cons hk _ ih => exact SubL.cons hk ih
  | drop hk _ ih => exact SubL.drop hk ih

theorem subL_map {α} (f g : α → FNode) : ∀ l : List α, (∀ x ∈ l, Sub (f x) (g x)) →
    SubL (l.map f) (l.map g)
  | [], _ => SubL.nil
  | x :: xs, h => SubL.cons (h x (by simp)) (subL_map f g xs (fun y hy => h y (List.mem_cons_of_mem _ hy)))

theorem subL_filter_map {α} (p : α → Bool) (f g : α → FNode) : ∀ l : List α,
    (∀ x ∈ l, p x = true → Sub (f x) (g x)) → (∀ x ∈ l, p x = false → Silent (g x)) →
    SubL ((l.filter p).map f) (l.map g)
  | [], _, _ => SubL.nil
  | x :: xs, h1, h2 => by
    have ih := subL_filter_map p f g xs (fun y hy => h1 y (List.mem_cons_of_mem _ hy))
      (fun y hy => h2 y (List.mem_cons_of_mem _ hy))
    cases hp : p x with
    | true =>
      simp only [List.filter_cons, hp, if_true, List.map_cons]
      exact SubL.cons (h1 x (by simp) hp) ih
    | false =>
      simp only [List.filter_cons, hp, Bool.false_eq_true, if_false, List.map_cons]
      exact SubL.drop (h2 x (by simp) hp) ih

/-! ### silent elements -/

theorem filter_keepP_nil_of_vals {l l' : List PPair} (hv : l.map Prod.snd = l'.map Prod.snd)
    (h : l'.filter (keepP true) = []) : l.filter (keepP true) = [] := by
  have key : ∀ m : List PPair, m.filter (keepP true) = [] ↔ (m.map Prod.snd).all List.isEmpty = true := by
    intro m
    induction m with
    | nil => simp
    | cons a as ih =>
      simp only [List.filter_cons, List.map_cons, List.all_cons, Bool.and_eq_true]
      cases ha : a.2.isEmpty with
      | true =>
        have : keepP true a = false := by simp [keepP, ha]
        simp [this, ih]
      | false =>
        have : keepP true a = true := by simp [keepP, ha]
        simp [this]
  rw [key, hv, ← key]
  exact h

theorem filter_flatMap_nil {α β} (P : β → Bool) (f : α → List β) (l : List α)
    (h : (l.flatMap f).filter P = []) : ∀ x ∈ l, (f x).filter P = [] := by
  intro x hx
  apply List.filter_eq_nil_iff.mpr
  intro b hb
  exact List.filter_eq_nil_iff.mp h b (List.mem_flatMap.mpr ⟨x, hx, hb⟩)

theorem silent_of_relFlat {n : FNode} (h : (relFlat n).filter (keepP true) = []) : Silent n := by
  intro d
  apply filter_keepP_nil_of_vals (ulvl_vals d n)
  rw [relFlat_levels n (n.size + d + 1) (by omega)] at h
  exact filter_flatMap_nil _ _ _ h d (List.mem_range.mpr (by omega))

theorem emitsB_true_of_false {s : Schema} {e : Elem} (h : emitsB env false s e = false) :
    emitsB env true s e = false := by
  have := (emitsB_false_iff env false s e).mp h
  rw [filter_keepP_false] at this
  apply (emitsB_false_iff env true s e).mpr
  rw [this]; rfl

/-- an element that emits nothing that survives emits no non-empty value -/
theorem silent_of_emitsB {u : Bool} {s : Schema} {e : Elem} (h : emitsB env u s e = false) :
    Silent (resolve env s e) := by
  apply silent_of_relFlat
  cases u with
  | true => exact (emitsB_false_iff env true s e).mp h
  | false => exact (emitsB_false_iff env true s e).mp (emitsB_true_of_false h)

/-! ### the fresh member against a silent member -/

theorem subL_blankFields (env : Env) (u : Bool) : ∀ (fs : List Schema) (ms : List (Str × Elem)),
    (∀ f ∈ fs, ∀ u m, OkP env f m → emitsB env u f m = false →
      Sub (resolve env f (blank f)) (resolve env f m)) →
    OkPFields env fs ms → emFields env u fs ms = false →
    SubL (resKids env fs (blankFields fs)) (resKids env fs ms)
  | [], [], _, _, _ => by simp only [blankFields, resKids]; exact SubL.nil
  | [], _ :: _, _, h, _ => by simp [OkPFields] at h
  | _ :: _, [], _, h, _ => by simp [OkPFields] at h
  | f :: fs, (k, e) :: ms, hP, hok, hem => by
    simp only [OkPFields] at hok
    simp only [emFields, Bool.or_eq_false_iff] at hem
    simp only [blankFields, resKids]
    exact SubL.cons (hP f (by simp) u e hok.2.1 hem.1)
      (subL_blankFields env u fs ms (fun g hg => hP g (List.mem_cons_of_mem _ hg)) hok.2.2 hem.2)

theorem any_eq_false' {α} {p : α → Bool} {l : List α} (h : l.any p = false) : ∀ x ∈ l, p x = false := by
  intro x hx
  cases hp : p x with
  | false => rfl
  | true =>
    have : l.any p = true := List.any_eq_true.mpr ⟨x, hx, hp⟩
    rw [h] at this; cases this

/-- the fresh member a silent member is replaced by shows nothing the member did not show -/
theorem blank_sub : ∀ s : Schema, wf s = true → dense s = true →
    ∀ (u : Bool) (m : Elem), OkP env s m → emitsB env u s m = false →
      Sub (resolve env s (blank s)) (resolve env s m) := by
  apply schema_ind_wf
  · intro nm o k u m hok hem
    cases m with
    | leaf t =>
      rw [emitsB_leaf] at hem
      have ht : t = [] := by cases t <;> cases u <;> simp_all
      subst ht
      simp only [blank]
      exact Sub.refl _
    | _ => simp [OkP] at hok
  · intro nm o k mem u m hok hem
    cases m with
    | joined t ms =>
      rw [emitsB_joined] at hem
      have ht : t = [] := by cases t <;> cases u <;> simp_all
      subst ht
      simp only [blank]
      rw [resolve_joined, resolve_joined]
      exact sub_nocfl _ _ _ _ _ _ _
    | _ => simp [OkP] at hok
  · intro nm o fields hnd hsome ih u m hok hem
    cases m with
    | dict ms =>
      simp only [OkP, true_and] at hok
      rw [emitsB_dict env u nm o fields hnd hsome ms hok] at hem
      have hb := bl_fields env u fields ms
        (fun f hf => bl_all f (ih f hf).1 (ih f hf).2.1) hok hem
      simp only [blank]
      rw [resolve_dict env nm o fields hnd hsome _ hb.1, resolve_dict env nm o fields hnd hsome _ hok]
      exact sub_mk _ _ _ _ _ _ (subL_blankFields env u fields ms (fun f hf => (ih f hf).2.2) hok hem)
    | _ => simp [OkP] at hok
  · intro nm o k fields hnd hsome ih u m hok hem
    cases m with
    | dict ms =>
      have hbl := bl_all (env := env) (.compound nm o k fields)
        (wf_compound_of nm o k fields hnd hsome (fun f hf => (ih f hf).1))
        (dense_compound_of nm o k fields (fun f hf => (ih f hf).2.1)) u (.dict ms) hok hem
      simp only [OkP] at hok
      rw [emitsB_compound env u nm o k fields hnd hsome ms hok] at hem
      have hem := Bool.or_eq_false_iff.mp hem
      have hb := bl_fields env u fields ms
        (fun f hf => bl_all f (ih f hf).1 (ih f hf).2.1) hok hem.2
      simp only [blank] at hbl ⊢
      rw [resolve_compound env nm o k fields hnd hsome _ hb.1,
        resolve_compound env nm o k fields hnd hsome _ hok, hbl.2.2]
      exact sub_mk _ _ _ _ _ _ (subL_blankFields env u fields ms (fun f hf => (ih f hf).2.2) hok hem.2)
    | _ => simp [OkP] at hok
  · intro nm o p mx member _ _ _ u m hok hem
    cases m with
    | list ms =>
      rw [emitsB_list] at hem
      simp only [blank]
      rw [resolve_list, resolve_list]
      apply sub_mk
      apply subL_nil_of_silent
      intro k hk
      obtain ⟨x, hx, rfl⟩ := List.mem_map.mp hk
      exact silent_of_emitsB (any_eq_false' hem x hx)
    | _ => simp [OkP] at hok
  · intro nm o p member _ _ _ u m hok hem
    cases m with
    | array ms =>
      rw [emitsB_array] at hem
      simp only [blank]
      rw [resolve_array, resolve_array]
      apply sub_mk
      apply subL_nil_of_silent
      intro k hk
      obtain ⟨x, hx, rfl⟩ := List.mem_map.mp hk
      exact silent_of_emitsB (any_eq_false' hem x hx)
    | _ => simp [OkP] at hok

/-! ### the pruned element against the element -/

theorem subL_prFields (env : Env) (u : Bool) : ∀ (fs : List Schema) (ms : List (Str × Elem)),
    (∀ f ∈ fs, ∀ u e, OkP env f e → Sub (resolve env f (pr env u f e)) (resolve env f e)) →
    OkPFields env fs ms → SubL (resKids env fs (prFields env u fs ms)) (resKids env fs ms)
  | [], [], _, _ => by simp only [prFields, resKids]; exact SubL.nil
  | [], _ :: _, _, h => by simp [OkPFields] at h
  | _ :: _, [], _, h => by simp [OkPFields] at h
  | f :: fs, (k, e) :: ms, hP, hok => by
    simp only [OkPFields] at hok
    simp only [prFields, resKids]
    exact SubL.cons (hP f (by simp) u e hok.2.1)
      (subL_prFields env u fs ms (fun g hg => hP g (List.mem_cons_of_mem _ hg)) hok.2.2)

/-- **level by level, the pruned element shows what the element showed, minus some empty-valued
    pairs** (list indexes aside) -/
theorem sub_pr : ∀ s : Schema, wf s = true → dense s = true →
    ∀ (u : Bool) (e : Elem), OkP env s e → Sub (resolve env s (pr env u s e)) (resolve env s e) := by
  apply schema_ind_wf
  · intro nm o k u e hok
    rw [pr]
    exact Sub.refl _
  · intro nm o k mem u e hok
    cases e with
    | joined t ms =>
      simp only [pr]
      split
      · rename_i h
        simp only [Bool.and_eq_true, List.isEmpty_iff] at h
        rw [resolve_joined, resolve_joined, h.2]
        exact sub_nocfl _ _ _ _ _ _ _
      · rw [resolve_joined, resolve_joined]
        exact sub_nocfl _ _ _ _ _ _ _
    | _ => simp [OkP] at hok
  · intro nm o fields hnd hsome ih u e hok
    cases e with
    | dict ms =>
      simp only [OkP, true_and] at hok
      have hok' := okP_prFields env u fields ms
        (fun f hf => okP_pr f (ih f hf).1 (ih f hf).2.1) hok
      simp only [pr]
      rw [resolve_dict env nm o fields hnd hsome _ hok', resolve_dict env nm o fields hnd hsome _ hok]
      exact sub_mk _ _ _ _ _ _ (subL_prFields env u fields ms (fun f hf => (ih f hf).2.2) hok)
    | _ => simp [OkP] at hok
  · intro nm o k fields hnd hsome ih u e hok
    cases e with
    | dict ms =>
      have hu := uOf_pr (env := env) (.compound nm o k fields)
        (wf_compound_of nm o k fields hnd hsome (fun f hf => (ih f hf).1))
        (dense_compound_of nm o k fields (fun f hf => (ih f hf).2.1)) u (.dict ms) hok
      simp only [OkP] at hok
      have hok' := okP_prFields env u fields ms
        (fun f hf => okP_pr f (ih f hf).1 (ih f hf).2.1) hok
      simp only [pr] at hu ⊢
      rw [resolve_compound env nm o k fields hnd hsome _ hok',
        resolve_compound env nm o k fields hnd hsome _ hok, hu]
      exact sub_mk _ _ _ _ _ _ (subL_prFields env u fields ms (fun f hf => (ih f hf).2.2) hok)
    | _ => simp [OkP] at hok
  · intro nm o p mx member hw hd ih u e hok
    cases e with
    | list ms =>
      simp only [OkP] at hok
      obtain ⟨_, _, hmem⟩ := hok
      simp only [pr]
      split
      · rw [resolve_list, resolve_list, List.map_map]
        apply sub_mk
        apply subL_filter_map
        · intro m hm _; exact ih true m (hmem m hm)
        · intro m _ hem; exact silent_of_emitsB hem
      · obtain ⟨tl, hsplit, htl⟩ := dropTrailing_split (emitsB env u member) ms
        rw [resolve_list, resolve_list, List.map_map]
        generalize dropTrailing (emitsB env u member) ms = D at hsplit ⊢
        subst hsplit
        rw [List.map_append]
        apply sub_mk
        apply subL_append_silent
        · apply subL_map
          intro m hm
          have hm' : m ∈ D ++ tl := List.mem_append_left _ hm
          show Sub (resolve env member (if emitsB env u member m = true then pr env u member m
            else blank member)) (resolve env member m)
          cases hem : emitsB env u member m with
          | true => simp only [if_true]; exact ih u m (hmem m hm')
          | false =>
            simp only [Bool.false_eq_true, if_false]
            exact blank_sub member hw hd u m (hmem m hm') hem
        · intro k hk
          obtain ⟨m, hm, rfl⟩ := List.mem_map.mp hk
          exact silent_of_emitsB (htl m hm)
    | _ => simp [OkP] at hok
  · intro nm o p member hw hd ih u e hok
    cases e with
    | array ms =>
      simp only [pr]
      rw [resolve_array, resolve_array]
      apply sub_mk
      have := subL_filter_map (fun m => emitsB env (u || arrayPrunes nm p member) member m)
        (resolve env member) (resolve env member) ms (fun m _ _ => Sub.refl _)
        (fun m _ hem => silent_of_emitsB hem)
      exact this
    | _ => simp [OkP] at hok

/-- the whole output, indexes erased: a subsequence that keeps all non-empty values -/
theorem psub_relFlat_unslot {n n' : FNode} (h : Sub n n') :
    PSub (relFlat (unslot n)) (relFlat (unslot n')) := by
  rw [relFlat_unslot_levels n ((unslot n).size + (unslot n').size) (by omega),
    relFlat_unslot_levels n' ((unslot n).size + (unslot n').size) (by omega)]
  exact PSub.flatMap _ _ _ (fun d _ => h d)

end Flatland.Flat.Proofs
