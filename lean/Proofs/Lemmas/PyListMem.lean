/-
Membership lemmas for the CPython list functions: the result of a list mutation contains only
items that were already there or that were handed in.  Used by the typed-members clause of C09
and by the stored-parent invariants of C08 / C10.
-/
import Flatland.PyList
namespace Flatland.PyList
variable {α : Type}

theorem mem_assign {l : List α} {is : List Nat} {xs : List α} {x : α}
    (h : x ∈ assign l is xs) : x ∈ l ∨ x ∈ xs := by
  induction is generalizing l xs with
  | nil => cases xs <;> simp [assign] at h <;> exact .inl h
  | cons i is ih =>
    cases xs with
    | nil => simp [assign] at h; exact .inl h
    | cons y ys =>
      simp only [assign] at h
      rcases ih h with h1 | h1
      · rcases List.mem_or_eq_of_mem_set h1 with h2 | h2
        · exact .inl h2
        · exact .inr (by simp [h2])
      · exact .inr (by simp [h1])

theorem mem_setSlice {l l' : List α} {s : Slice} {new : List α} {x : α}
    (h : setSlice l s new = .ok l') (hx : x ∈ l') : x ∈ l ∨ x ∈ new := by
  unfold setSlice at h
  split at h
  · cases h
  · split at h
    · cases h
      simp only [List.mem_append] at hx
      rcases hx with (h1 | h1) | h1
      · exact .inl (List.mem_of_mem_take h1)
      · exact .inr h1
      · exact .inl (List.mem_of_mem_drop h1)
    · split at h
      · cases h
      · cases h; exact mem_assign hx

theorem mem_eraseIdxsFrom {is : List Nat} {k : Nat} {l : List α} {x : α}
    (h : x ∈ eraseIdxsFrom is k l) : x ∈ l := by
  induction l generalizing k with
  | nil => simp [eraseIdxsFrom] at h
  | cons y ys ih =>
    simp only [eraseIdxsFrom] at h
    split at h
    · exact List.mem_cons_of_mem _ (ih h)
    · rcases List.mem_cons.mp h with h1 | h1
      · simp [h1]
      · exact List.mem_cons_of_mem _ (ih h1)

theorem mem_pickIdxsFrom {is : List Nat} {k : Nat} {l : List α} {x : α}
    (h : x ∈ pickIdxsFrom is k l) : x ∈ l := by
  induction l generalizing k with
  | nil => simp [pickIdxsFrom] at h
  | cons y ys ih =>
    simp only [pickIdxsFrom] at h
    split at h
    · rcases List.mem_cons.mp h with h1 | h1
      · simp [h1]
      · exact List.mem_cons_of_mem _ (ih h1)
    · exact List.mem_cons_of_mem _ (ih h)

theorem mem_delSlice {l l' : List α} {s : Slice} {x : α}
    (h : delSlice l s = .ok l') (hx : x ∈ l') : x ∈ l := by
  unfold delSlice at h
  split at h
  · cases h
  · cases h; exact mem_eraseIdxsFrom hx

theorem mem_delSliceRemoved {l : List α} {s : Slice} {x : α}
    (hx : x ∈ delSliceRemoved l s) : x ∈ l := by
  unfold delSliceRemoved at hx
  split at hx
  · simp at hx
  · exact mem_pickIdxsFrom hx

theorem mem_insertAt {l : List α} {i : Int} {y x : α} (h : x ∈ insertAt l i y) : x ∈ l ∨ x = y := by
  simp only [insertAt, List.mem_append, List.mem_cons] at h
  rcases h with h | h | h
  · exact .inl (List.mem_of_mem_take h)
  · exact .inr h
  · exact .inl (List.mem_of_mem_drop h)

theorem mem_setItem {l l' : List α} {i : Int} {y x : α} (h : setItem l i y = some l') (hx : x ∈ l') :
    x ∈ l ∨ x = y := by
  unfold setItem at h
  split at h
  · cases h
  · cases h; exact List.mem_or_eq_of_mem_set hx

theorem mem_delItem {l l' : List α} {i : Int} {x : α} (h : delItem l i = some l') (hx : x ∈ l') : x ∈ l := by
  unfold delItem at h
  split at h
  · cases h
  · cases h; exact List.mem_of_mem_eraseIdx hx

theorem mem_popAt {l l' : List α} {i : Int} {y : α} (h : popAt l i = some (y, l')) :
    y ∈ l ∧ ∀ x ∈ l', x ∈ l := by
  unfold popAt at h
  split at h
  · cases h
  · split at h
    · cases h
    · cases h
      rename_i k _ x hx
      exact ⟨List.mem_of_getElem? hx, fun x hx => List.mem_of_mem_eraseIdx hx⟩

theorem mem_getItem {l : List α} {i : Int} {y : α} (h : getItem l i = some y) : y ∈ l := by
  unfold getItem at h
  split at h
  · cases h
  · exact List.mem_of_getElem? h

theorem mem_getSlice {l xs : List α} {s : Slice} {x : α} (h : getSlice l s = .ok xs) (hx : x ∈ xs) :
    x ∈ l := by
  unfold getSlice at h
  split at h
  · cases h
  · cases h
    simp only [List.mem_filterMap] at hx
    obtain ⟨i, _, hi⟩ := hx
    exact List.mem_of_getElem? hi

theorem mem_insertSorted {le : α → α → Bool} {y x : α} {l : List α} :
    x ∈ insertSorted le y l ↔ x = y ∨ x ∈ l := by
  induction l with
  | nil => simp [insertSorted]
  | cons z zs ih =>
    simp only [insertSorted]
    split
    · simp
    · simp [ih]; exact or_left_comm

theorem mem_sortBy {le : α → α → Bool} {x : α} {l : List α} : x ∈ sortBy le l ↔ x ∈ l := by
  induction l with
  | nil => simp [sortBy]
  | cons z zs ih => simp [sortBy, mem_insertSorted, ih]

theorem length_insertSorted (le : α → α → Bool) (y : α) (l : List α) :
    (insertSorted le y l).length = l.length + 1 := by
  induction l with
  | nil => rfl
  | cons z zs ih => simp only [insertSorted]; split <;> simp [ih]

theorem length_sortBy (le : α → α → Bool) (l : List α) : (sortBy le l).length = l.length := by
  induction l with
  | nil => rfl
  | cons z zs ih => simp [sortBy, length_insertSorted, ih]


theorem normIndex_lt {len : Nat} {i : Int} {k : Nat} (h : normIndex len i = some k) : k < len := by
  unfold normIndex at h
  by_cases hi : i < 0
  · simp only [hi, if_true] at h
    by_cases hc : 0 ≤ i + (len : Int) ∧ i + (len : Int) < (len : Int)
    · rw [if_pos hc] at h; cases h; omega
    · rw [if_neg hc] at h; cases h
  · simp only [hi, if_false] at h
    by_cases hc : 0 ≤ i ∧ i < (len : Int)
    · rw [if_pos hc] at h; cases h; omega
    · rw [if_neg hc] at h; cases h

theorem getItem_some {l : List α} {i : Int} {x : α} (h : getItem l i = some x) :
    ∃ k, normIndex l.length i = some k ∧ l[k]? = some x := by
  unfold getItem at h
  split at h
  · cases h
  · exact ⟨_, by assumption, h⟩

theorem getItem_none {l : List α} {i : Int} (h : getItem l i = none) :
    normIndex l.length i = none := by
  unfold getItem at h
  split at h
  · assumption
  · rename_i k hk
    have := normIndex_lt hk
    simp [List.getElem?_eq_none_iff] at h
    omega

end Flatland.PyList
