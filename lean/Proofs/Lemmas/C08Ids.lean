/-
C08 — identity accounting for the shared tree model.

`cnt a n` = how often identity `a` occurs in the subtree `n` (`cntL` for a list of subtrees).
Every constructor and mutator of the model is shown (in `Proofs/C08IdsBuild.lean`,
`Proofs/C08IdsStep.lean`) to satisfy the *accounting inequality*

    cnt a out ≤ cnt a in + (occurrences of `a` in the Element arguments) + ind next next' a

where `ind next next' a` is 1 exactly for the identities handed out by the call
(`next ≤ a < next'`).  From it: identities stay unique and below the counter.

This file: the counting vocabulary, its behaviour under the list operations of
`Flatland/PyList.lean`, and the well-formedness of keys (`kok`) that uniqueness depends on
(`replaceKid` overwrites *every* child stored under a key: with two children under one key the
model duplicates an element — not a state Python's dict can be in).
-/
import Flatland.C08
import Flatland.Spec.C08
import Proofs.Lemmas.PyListMem
namespace Flatland.C08.Proofs
open Flatland.Tree Flatland.PyList Flatland.C08 Flatland.C08.Spec

/-! ### indicators -/

/-- 1 if `i` is the identity `a` -/
def own (a i : Nat) : Nat := if i = a then 1 else 0
/-- 1 if `a` is one of the identities handed out between the counter values `lo` and `hi` -/
def ind (lo hi a : Nat) : Nat := if lo ≤ a ∧ a < hi then 1 else 0

theorem ind_self (n a : Nat) : ind n n a = 0 := by unfold ind; split <;> omega
theorem ind_le_one (lo hi a : Nat) : ind lo hi a ≤ 1 := by unfold ind; split <;> omega
theorem own_le_one (a i : Nat) : own a i ≤ 1 := by unfold own; split <;> omega
theorem ind_add (a : Nat) {lo mid hi : Nat} (h1 : lo ≤ mid) (h2 : mid ≤ hi) :
    ind lo mid a + ind mid hi a = ind lo hi a := by
  unfold ind; split <;> split <;> split <;> omega
theorem own_eq_ind (a i : Nat) : own a i = ind i (i + 1) a := by
  unfold own ind; split <;> split <;> omega
theorem ind_mono (a : Nat) {lo lo' hi hi' : Nat} (h1 : lo' ≤ lo) (h2 : hi ≤ hi') : ind lo hi a ≤ ind lo' hi' a := by
  unfold ind; split <;> split <;> omega
theorem ind_pos {lo hi a : Nat} (h : 0 < ind lo hi a) : lo ≤ a ∧ a < hi := by
  unfold ind at h; split at h
  · assumption
  · omega
theorem ind_eq_zero_of_lt {lo hi a : Nat} (h : a < lo) : ind lo hi a = 0 := by
  unfold ind; split <;> omega
theorem own_pos {a i : Nat} (h : 0 < own a i) : i = a := by
  unfold own at h; split at h
  · assumption
  · omega
theorem own_self (a : Nat) : own a a = 1 := by simp [own]

/-! ### counting identities -/

def cnt (a : Nat) (n : Node) : Nat := (ids n).count a
def cntL (a : Nat) (l : List Node) : Nat := ((nodesL l).map Node.id).count a

theorem nodes_eq' (n : Node) : nodes n = n :: nodesL n.kids := by cases n; rw [nodes]; rfl

theorem cnt_eq (a : Nat) (n : Node) : cnt a n = own a n.id + cntL a n.kids := by
  unfold cnt cntL ids own
  rw [nodes_eq', List.map_cons, List.count_cons]
  simp only [beq_iff_eq]; omega

@[simp] theorem cntL_nil (a : Nat) : cntL a [] = 0 := by simp [cntL, nodesL]

theorem nodesL_append' (x y : List Node) : nodesL (x ++ y) = nodesL x ++ nodesL y := by
  induction x with
  | nil => simp [nodesL]
  | cons k ks ih => simp [nodesL, ih]

theorem cntL_cons (a : Nat) (k : Node) (ks : List Node) : cntL a (k :: ks) = cnt a k + cntL a ks := by
  unfold cntL cnt ids
  rw [nodesL, List.map_append, List.count_append]

theorem cntL_append (a : Nat) (x y : List Node) : cntL a (x ++ y) = cntL a x + cntL a y := by
  unfold cntL; rw [nodesL_append', List.map_append, List.count_append]

theorem cntL_singleton (a : Nat) (k : Node) : cntL a [k] = cnt a k := by rw [cntL_cons, cntL_nil]; rfl

theorem cnt_mk (a : Nat) (i : NInfo) (s : Schema) (ks : List Node) : cnt a (.mk i s ks) = own a i.id + cntL a ks :=
  cnt_eq a _

theorem cnt_withKids (a : Nat) (n : Node) (ks : List Node) : cnt a (n.withKids ks) = own a n.id + cntL a ks := by
  cases n; exact cnt_eq a _
theorem cnt_withParent (a : Nat) (n : Node) (p : Option Nat) : cnt a (n.withParent p) = cnt a n := by
  cases n; rw [cnt_eq, cnt_eq]; rfl
theorem cnt_withKey (a : Nat) (n : Node) (k : Str) : cnt a (n.withKey k) = cnt a n := by
  cases n; rw [cnt_eq, cnt_eq]; rfl
theorem cnt_withScalar (a : Nat) (n : Node) (v : Val) (u : Str) : cnt a (n.withScalar v u) = cnt a n := by
  cases n; rw [cnt_eq, cnt_eq]; rfl

theorem cnt_mkSlot (a id lst nm : Nat) (e : Node) : cnt a (mkSlot id lst nm e) = own a id + cnt a e := by
  unfold mkSlot; rw [cnt_mk, cntL_singleton, cnt_withParent]

theorem mem_ids_iff (a : Nat) (n : Node) : a ∈ ids n ↔ 0 < cnt a n := by
  unfold cnt; exact List.count_pos_iff.symm

theorem cnt_le_of_nodup {n : Node} (h : (ids n).Nodup) (a : Nat) : cnt a n ≤ 1 :=
  List.nodup_iff_count.mp h a

theorem nodup_of_cnt {n : Node} (h : ∀ a, cnt a n ≤ 1) : (ids n).Nodup := List.nodup_iff_count.mpr h

/-- a sum of weights over a list (the weight is `cnt a`) -/
def wsum {α : Type} (w : α → Nat) : List α → Nat
  | [] => 0
  | x :: xs => w x + wsum w xs

theorem cntL_eq_wsum (a : Nat) (l : List Node) : cntL a l = wsum (cnt a) l := by
  induction l with
  | nil => simp [wsum]
  | cons k ks ih => rw [cntL_cons, wsum, ih]

section wsum
variable {α : Type} (w : α → Nat)

theorem wsum_append (x y : List α) : wsum w (x ++ y) = wsum w x + wsum w y := by
  induction x with
  | nil => simp [wsum]
  | cons k ks ih => simp [wsum, ih]; omega

theorem wsum_take_drop (l : List α) (k : Nat) : wsum w (l.take k) + wsum w (l.drop k) = wsum w l := by
  rw [← wsum_append, List.take_append_drop]

theorem wsum_drop_le (l : List α) (j k : Nat) (h : j ≤ k) : wsum w (l.drop k) ≤ wsum w (l.drop j) := by
  have : l.drop k = (l.drop j).drop (k - j) := by rw [List.drop_drop]; congr 1; omega
  rw [this]
  have := wsum_take_drop w (l.drop j) (k - j)
  omega

theorem wsum_set (l : List α) (k : Nat) (x : α) (h : k < l.length) :
    wsum w (l.set k x) + w l[k] = wsum w l + w x := by
  induction l generalizing k with
  | nil => simp at h
  | cons y ys ih =>
    cases k with
    | zero => simp [wsum]; omega
    | succ k =>
      have := ih k (by simpa using h)
      simp only [List.set_cons_succ, wsum, List.getElem_cons_succ]; omega

theorem wsum_set_le (l : List α) (k : Nat) (x : α) : wsum w (l.set k x) ≤ wsum w l + w x := by
  by_cases h : k < l.length
  · have := wsum_set w l k x h; omega
  · rw [List.set_eq_of_length_le (by omega)]; omega

theorem wsum_eraseIdx (l : List α) (k : Nat) (h : k < l.length) :
    wsum w (l.eraseIdx k) + w l[k] = wsum w l := by
  induction l generalizing k with
  | nil => simp at h
  | cons y ys ih =>
    cases k with
    | zero => simp [wsum]; omega
    | succ k =>
      have := ih k (by simpa using h)
      simp only [List.eraseIdx_cons_succ, wsum, List.getElem_cons_succ]; omega

theorem wsum_eraseIdx_le (l : List α) (k : Nat) : wsum w (l.eraseIdx k) ≤ wsum w l := by
  by_cases h : k < l.length
  · have := wsum_eraseIdx w l k h; omega
  · rw [List.eraseIdx_of_length_le (by omega)]; omega

theorem wsum_insertAt (l : List α) (i : Int) (x : α) : wsum w (insertAt l i x) = wsum w l + w x := by
  unfold insertAt
  have := wsum_take_drop w l (insertPos l.length i)
  simp only [wsum_append, wsum]; omega

theorem wsum_assign_le (l : List α) (is : List Nat) (xs : List α) :
    wsum w (assign l is xs) ≤ wsum w l + wsum w xs := by
  induction is generalizing l xs with
  | nil => cases xs <;> simp [assign]
  | cons i is ih =>
    cases xs with
    | nil => simp [assign]
    | cons x xs =>
      rw [assign]
      have h1 := ih (l.set i x) xs
      have h2 := wsum_set_le w l i x
      simp only [wsum]; omega

theorem wsum_setSlice_le {l l' : List α} {s : Slice} {new : List α} (h : setSlice l s new = .ok l') :
    wsum w l' ≤ wsum w l + wsum w new := by
  unfold setSlice at h
  split at h
  · cases h
  · rename_i ix _
    split at h
    · cases h
      have h1 := wsum_take_drop w l ix.start.toNat
      have h2 := wsum_drop_le w l ix.start.toNat (max ix.start ix.stop).toNat (by omega)
      simp only [wsum_append]; omega
    · split at h
      · cases h
      · cases h; exact wsum_assign_le w l _ new

theorem wsum_eraseIdxsFrom_le (is : List Nat) (k : Nat) (l : List α) :
    wsum w (eraseIdxsFrom is k l) ≤ wsum w l := by
  induction l generalizing k with
  | nil => simp [eraseIdxsFrom]
  | cons x xs ih =>
    have := ih (k + 1)
    rw [eraseIdxsFrom]; split <;> simp only [wsum] <;> omega

theorem wsum_delSlice_le {l l' : List α} {s : Slice} (h : delSlice l s = .ok l') : wsum w l' ≤ wsum w l := by
  unfold delSlice at h
  split at h
  · cases h
  · cases h; exact wsum_eraseIdxsFrom_le w _ _ _

theorem wsum_popAt {l l' : List α} {i : Int} {x : α} (h : popAt l i = some (x, l')) :
    wsum w l' + w x = wsum w l := by
  unfold popAt at h
  split at h
  · cases h
  · rename_i k hk
    split at h
    · cases h
    · rename_i y hy
      cases h
      have hlt : k < l.length := by
        rcases List.getElem?_eq_some_iff.mp hy with ⟨h1, _⟩; exact h1
      have := wsum_eraseIdx w l k hlt
      rcases List.getElem?_eq_some_iff.mp hy with ⟨_, h2⟩
      rw [h2] at this; exact this

theorem wsum_delItem_le {l l' : List α} {i : Int} (h : delItem l i = some l') : wsum w l' ≤ wsum w l := by
  unfold delItem at h
  split at h
  · cases h
  · cases h; exact wsum_eraseIdx_le w _ _

theorem wsum_reverse (l : List α) : wsum w l.reverse = wsum w l := by
  induction l with
  | nil => rfl
  | cons x xs ih => simp only [List.reverse_cons, wsum_append, wsum, ih]; omega

theorem wsum_insertSorted (le : α → α → Bool) (x : α) (l : List α) :
    wsum w (insertSorted le x l) = w x + wsum w l := by
  induction l with
  | nil => rfl
  | cons y ys ih =>
    rw [insertSorted]; split
    · rfl
    · simp only [wsum, ih]; omega

theorem wsum_sortBy (le : α → α → Bool) (l : List α) : wsum w (sortBy le l) = wsum w l := by
  induction l with
  | nil => rfl
  | cons x xs ih => rw [sortBy, wsum_insertSorted, ih]; rfl

theorem wsum_filter_le (p : α → Bool) (l : List α) : wsum w (l.filter p) ≤ wsum w l := by
  induction l with
  | nil => simp [wsum]
  | cons x xs ih =>
    rw [List.filter_cons]; split <;> simp only [wsum] <;> omega

theorem wsum_mem_le {l : List α} {x : α} (h : x ∈ l) : w x ≤ wsum w l := by
  induction l with
  | nil => cases h
  | cons y ys ih =>
    rcases List.mem_cons.mp h with rfl | h1
    · simp only [wsum]; omega
    · have := ih h1; simp only [wsum]; omega

theorem wsum_map_eq {β : Type} (v : β → Nat) (f : α → β) (hf : ∀ x, v (f x) = w x) (l : List α) :
    wsum v (l.map f) = wsum w l := by
  induction l with
  | nil => rfl
  | cons x xs ih => simp only [List.map_cons, wsum, hf, ih]

end wsum

theorem cntL_renumberFrom (a k : Nat) (l : List Node) : cntL a (renumberFrom k l) = cntL a l := by
  induction l generalizing k with
  | nil => rfl
  | cons x xs ih => rw [renumberFrom, cntL_cons, cntL_cons, cnt_withKey, ih]

theorem cntL_renumber (a : Nat) (l : List Node) : cntL a (renumber l) = cntL a l := cntL_renumberFrom a 0 l

theorem cnt_le_cntL {a : Nat} {l : List Node} {x : Node} (h : x ∈ l) : cnt a x ≤ cntL a l := by
  rw [cntL_eq_wsum]; exact wsum_mem_le _ h

/-! ### keys: what uniqueness of identities depends on in a mapping -/

theorem swfL_iff (l : List Schema) : swfL l = true ↔ ∀ f ∈ l, swf f = true := by
  induction l with
  | nil => simp [swfL]
  | cons f fs ih => simp [swfL, ih]

theorem kokL_iff (l : List Node) : kokL l = true ↔ ∀ k ∈ l, kok k = true := by
  induction l with
  | nil => simp [kokL]
  | cons f fs ih => simp [kokL, ih]

theorem swf_iff (s : Schema) : swf s = true ↔
    (isMap s.kind = true → (s.subs.map Schema.key).Nodup) ∧ ∀ f ∈ s.subs, swf f = true := by
  cases s with
  | mk info d subs =>
    rw [swf, Bool.and_eq_true, swfL_iff]
    simp only [Schema.kind, Schema.info, Schema.subs, Bool.or_eq_true, Bool.not_eq_true', decide_eq_true_eq]
    constructor
    · rintro ⟨h1, h2⟩; refine ⟨fun hm => ?_, h2⟩; rcases h1 with h | h; (· rw [h] at hm; cases hm); exact h
    · rintro ⟨h1, h2⟩; refine ⟨?_, h2⟩
      cases hm : isMap info.kind
      · exact .inl rfl
      · exact .inr (h1 hm)

theorem kok_iff (n : Node) : kok n = true ↔
    swf n.sch = true ∧ (isMap n.kind = true → (n.kids.map Node.key).Nodup) ∧ ∀ k ∈ n.kids, kok k = true := by
  cases n with
  | mk i s kids =>
    rw [kok, Bool.and_eq_true, Bool.and_eq_true, kokL_iff]
    simp only [Node.kind, Node.sch, Node.kids, Bool.or_eq_true, Bool.not_eq_true', decide_eq_true_eq]
    constructor
    · rintro ⟨⟨h0, h1⟩, h2⟩; refine ⟨h0, fun hm => ?_, h2⟩; rcases h1 with h | h; (· rw [h] at hm; cases hm); exact h
    · rintro ⟨h0, h1, h2⟩; refine ⟨⟨h0, ?_⟩, h2⟩
      cases hm : isMap s.kind
      · exact .inl rfl
      · exact .inr (h1 hm)

theorem kok_withParent (n : Node) (p : Option Nat) : kok (n.withParent p) = kok n := by cases n; rfl
theorem kok_withKey (n : Node) (k : Str) : kok (n.withKey k) = kok n := by cases n; rfl
theorem kok_withScalar (n : Node) (v : Val) (u : Str) : kok (n.withScalar v u) = kok n := by cases n; rfl

theorem swf_slot : swf slotSchema = true := by decide

theorem kok_mkSlot (id lst nm : Nat) (e : Node) (h : kok e = true) : kok (mkSlot id lst nm e) = true := by
  unfold mkSlot
  rw [kok_iff]
  refine ⟨swf_slot, fun hm => by simp [Node.kind, Node.sch, slotSchema, Schema.kind, Schema.info, isMap] at hm, ?_⟩
  intro k hk
  simp only [Node.kids, List.mem_singleton] at hk
  rw [hk, kok_withParent]; exact h

theorem kokL_renumberFrom (k : Nat) (l : List Node) (h : kokL l = true) : kokL (renumberFrom k l) = true := by
  induction l generalizing k with
  | nil => rfl
  | cons x xs ih =>
    rw [kokL, Bool.and_eq_true] at h
    rw [renumberFrom, kokL, kok_withKey, h.1, ih _ h.2]; rfl

theorem kokL_append {x y : List Node} : kokL (x ++ y) = true ↔ kokL x = true ∧ kokL y = true := by
  simp only [kokL_iff, List.mem_append]
  constructor
  · intro h; exact ⟨fun k hk => h k (.inl hk), fun k hk => h k (.inr hk)⟩
  · rintro ⟨h1, h2⟩ k (hk | hk)
    · exact h1 k hk
    · exact h2 k hk

theorem kokL_sub {l l' : List Node} (h : kokL l = true) (hs : ∀ x ∈ l', x ∈ l) : kokL l' = true :=
  (kokL_iff _).mpr (fun x hx => (kokL_iff _).mp h x (hs x hx))

/-- the children list of a mapping after overwriting the child under `key`: with one child per
    key, exactly the old child leaves and `new` enters -/
theorem wsum_replaceKid (w : Node → Nat) (kids : List Node) (key : Str) (new child : Node)
    (hk : (kids.map Node.key).Nodup) (hc : findKid kids key = some child) :
    wsum w (replaceKid kids key new) + w child = wsum w kids + w new := by
  unfold replaceKid findKid at *
  induction kids with
  | nil => simp at hc
  | cons c cs ih =>
    simp only [List.map_cons, List.nodup_cons] at hk
    rw [List.find?_cons] at hc
    by_cases hm : (c.key == key) = true
    · simp only [hm] at hc
      have hcc : c = child := by simpa using hc
      subst hcc
      -- no other child carries the key
      have hrest : cs.map (fun k => if (k.key == key) = true then new else k) = cs := by
        have : ∀ k ∈ cs, (k.key == key) = false := by
          intro k hkm
          cases hkk : (k.key == key)
          · rfl
          · exfalso
            apply hk.1
            have h1 : c.key = key := by simpa using hm
            have h2 : k.key = key := by simpa using hkk
            rw [h1, ← h2]; exact List.mem_map.mpr ⟨k, hkm, rfl⟩
        clear ih hk
        induction cs with
        | nil => rfl
        | cons d ds ihd =>
          rw [List.map_cons, this d (by simp), ihd (fun k hk' => this k (by simp [hk']))]; rfl
      simp only [List.map_cons, hm, if_true, wsum, hrest]; omega
    · have hm' : (c.key == key) = false := by simpa using hm
      simp only [hm'] at hc
      have := ih hk.2 hc
      simp only [List.map_cons, hm', wsum] at this ⊢
      simp only [Bool.false_eq_true, if_false]; omega

end Flatland.C08.Proofs
